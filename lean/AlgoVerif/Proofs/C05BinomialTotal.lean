import AlgoVerif.Proofs.C05Binomial
/-!
# C05 helper lemmas: no call of the indexed binomial heap Model panics or runs out of fuel
-/
namespace AlgoVerif.C05

namespace BT

theorem ancestors_some (target : Nat) : ∀ (t : BT) (par : List Nat), target ∈ ids t →
    ∃ l, ancestors target t par = some l
  | nil, _, h => by simp [ids] at h
  | node id o c s, par, h => by
    simp only [ancestors]
    by_cases hid : id = target
    · exact ⟨par, by rw [if_pos hid]⟩
    · rw [if_neg hid]
      simp only [ids, List.mem_cons, List.mem_append] at h
      cases hc : ancestors target c (id :: par) with
      | some r => exact ⟨r, rfl⟩
      | none =>
        simp only []
        rcases h with h | h | h
        · exact absurd h.symm hid
        · obtain ⟨l, hl⟩ := ancestors_some target c (id :: par) h
          rw [hl] at hc; cases hc
        · exact ancestors_some target s par h

/-- the parent chain ends in a root of the forest -/
theorem ancestors_root (target : Nat) : ∀ (t : BT) (par l : List Nat), ancestors target t par = some l →
    ∃ l0, l = l0 ++ par ∧ (l0.getLast?.getD target) ∈ chainIds t
  | nil, _, _, h => by simp [ancestors] at h
  | node id o c s, par, l, h => by
    simp only [ancestors] at h
    split at h
    · rename_i hid
      cases h
      exact ⟨[], rfl, by simp [chainIds, hid]⟩
    · split at h
      · rename_i r hr
        cases h
        obtain ⟨l0, hl0, _⟩ := ancestors_root target c (id :: par) _ hr
        refine ⟨l0 ++ [id], by rw [hl0]; simp, ?_⟩
        simp [chainIds]
      · obtain ⟨l0, hl0, hmem⟩ := ancestors_root target s par l h
        exact ⟨l0, hl0, by simp only [chainIds, List.mem_cons]; exact Or.inr hmem⟩

theorem childrenOf_some (target : Nat) : ∀ (t : BT), target ∈ ids t → ∃ c, childrenOf target t = some c
  | nil, h => by simp [ids] at h
  | node id o c s, h => by
    simp only [childrenOf]
    by_cases hid : id = target
    · exact ⟨c, by rw [if_pos hid]⟩
    · rw [if_neg hid]
      simp only [ids, List.mem_cons, List.mem_append] at h
      cases hc : childrenOf target c with
      | some r => exact ⟨r, rfl⟩
      | none =>
        simp only []
        rcases h with h | h | h
        · exact absurd h.symm hid
        · obtain ⟨l, hl⟩ := childrenOf_some target c h
          rw [hl] at hc; cases hc
        · exact childrenOf_some target s h

theorem chainChild_some (target : Nat) : ∀ (t : BT), target ∈ chainIds t →
    ∃ c, chainChild target t = some c ∧ size c < size t
  | nil, h => by simp [chainIds] at h
  | node id o c s, h => by
    simp only [chainChild]
    by_cases hid : id = target
    · exact ⟨c, by rw [if_pos hid], by simp only [size]; omega⟩
    · rw [if_neg hid]
      simp only [chainIds, List.mem_cons] at h
      rcases h with h | h
      · exact absurd h.symm hid
      · obtain ⟨r, hr, hs⟩ := chainChild_some target s h
        exact ⟨r, hr, by simp only [size]; omega⟩

theorem removeRoot_some (target : Nat) : ∀ (t : BT), target ∈ chainIds t → ∃ r, removeRoot target t = some r
  | nil, h => by simp [chainIds] at h
  | node id o c s, h => by
    simp only [removeRoot]
    by_cases hid : id = target
    · exact ⟨_, by rw [if_pos hid]⟩
    · rw [if_neg hid]
      simp only [chainIds, List.mem_cons] at h
      rcases h with h | h
      · exact absurd h.symm hid
      · obtain ⟨⟨s', ch⟩, hr⟩ := removeRoot_some target s h
        exact ⟨_, by rw [hr]⟩

theorem merge_total : ∀ (fuel : Nat) (a b : BT), chainLen a + chainLen b < fuel → ∃ r, merge fuel a b = .ok r
  | 0, _, _, h => by omega
  | fuel + 1, nil, b, _ => ⟨b, by simp [merge]⟩
  | fuel + 1, node i1 o1 c1 s1, nil, _ => ⟨node i1 o1 c1 s1, by simp [merge]⟩
  | fuel + 1, node i1 o1 c1 s1, node i2 o2 c2 s2, h => by
    simp only [merge]
    simp only [chainLen] at h
    by_cases ho : o1 < o2
    · rw [if_pos ho]
      obtain ⟨r, hr⟩ := merge_total fuel s1 (node i2 o2 c2 s2) (by simp only [chainLen]; omega)
      exact ⟨_, by rw [hr]⟩
    · rw [if_neg ho]
      obtain ⟨r, hr⟩ := merge_total fuel (node i1 o1 c1 s1) s2 (by simp only [chainLen]; omega)
      exact ⟨_, by rw [hr]⟩

end BT

namespace IBinomial
variable {K V : Type} {cmp : K → K → Int}

/-- the contents of every node of `S` can be read -/
def Readable (h : IBinomial K V) (S : List Nat) : Prop := ∀ id, id ∈ S → ∃ c, h.cells[id]? = some c

theorem Reg.readable {cap : Nat} {S : List Nat} {h : IBinomial K V} (r : Reg cap S h.nodes h.cells) :
    Readable h S := fun id hid => let ⟨c, hc, _⟩ := r.reg id hid; ⟨c, hc⟩

theorem keyOf_ok {h : IBinomial K V} {S : List Nat} (rd : Readable h S) {id : Nat} (hid : id ∈ S) :
    ∃ k, h.keyOf id = .ok k := by
  obtain ⟨c, hc⟩ := rd id hid
  exact ⟨c.key, by unfold keyOf; rw [hc]⟩

theorem findExtLoop_total {h : IBinomial K V} {S : List Nat} (rd : Readable h S) : ∀ (l : List Nat) (e : Nat),
    e ∈ S → (∀ x, x ∈ l → x ∈ S) → ∃ x, findExtLoop cmp h e l = .ok x
  | [], e, _, _ => ⟨e, rfl⟩
  | s :: rest, e, he, hl => by
    simp only [findExtLoop]
    obtain ⟨ks, hks⟩ := keyOf_ok rd (hl s List.mem_cons_self)
    obtain ⟨ke, hke⟩ := keyOf_ok rd he
    rw [hks, hke]
    simp only []
    split
    · exact findExtLoop_total rd rest s (hl s List.mem_cons_self) (fun x hx => hl x (List.mem_cons_of_mem _ hx))
    · exact findExtLoop_total rd rest e he (fun x hx => hl x (List.mem_cons_of_mem _ hx))

theorem findExt_total {h : IBinomial K V} {S : List Nat} (rd : Readable h S) (l : List Nat)
    (hl : ∀ x, x ∈ l → x ∈ S) : ∃ r, findExt cmp h l = .ok r := by
  cases l with
  | nil => exact ⟨none, rfl⟩
  | cons a rest =>
    simp only [findExt]
    obtain ⟨x, hx⟩ := findExtLoop_total (cmp := cmp) rd rest a (hl a List.mem_cons_self)
      (fun x hx => hl x (List.mem_cons_of_mem _ hx))
    exact ⟨some x, by rw [hx]⟩

theorem promoteLoop_total {cap : Nat} {S : List Nat} : ∀ (anc : List Nat) (h : IBinomial K V) (n : Nat),
    Reg cap S h.nodes h.cells → n ∈ S → (∀ x, x ∈ anc → x ∈ S) → ∃ h', promoteLoop cmp h n anc = .ok h'
  | [], h, n, _, _, _ => ⟨h, rfl⟩
  | p :: ps, h, n, r, hn, hanc => by
    simp only [promoteLoop]
    obtain ⟨kp, hkp⟩ := keyOf_ok (Reg.readable r) (hanc p List.mem_cons_self)
    obtain ⟨kn, hkn⟩ := keyOf_ok (Reg.readable r) hn
    rw [hkp, hkn]
    simp only []
    split
    · obtain ⟨h1, hsw, r1, _⟩ := swap_spec r hn (hanc p List.mem_cons_self)
      rw [hsw]
      exact promoteLoop_total ps h1 p r1 (hanc p List.mem_cons_self) (fun x hx => hanc x (List.mem_cons_of_mem _ hx))
    · exact ⟨h, rfl⟩

theorem bubbleUp_total {cap : Nat} {S : List Nat} : ∀ (anc : List Nat) (h : IBinomial K V) (n : Nat),
    Reg cap S h.nodes h.cells → n ∈ S → (∀ x, x ∈ anc → x ∈ S) →
    ∃ h', bubbleUp h n anc = .ok (h', anc.getLast?.getD n)
  | [], h, n, _, _, _ => ⟨h, rfl⟩
  | p :: ps, h, n, r, hn, hanc => by
    simp only [bubbleUp]
    obtain ⟨h1, hsw, r1, _⟩ := swap_spec r hn (hanc p List.mem_cons_self)
    rw [hsw]
    simp only []
    obtain ⟨h', hb⟩ := bubbleUp_total ps h1 p r1 (hanc p List.mem_cons_self)
      (fun x hx => hanc x (List.mem_cons_of_mem _ hx))
    refine ⟨h', ?_⟩
    rw [hb]
    cases ps <;> simp [List.getLast?]

theorem demote_total {cap : Nat} {S : List Nat} : ∀ (fuel : Nat) (h : IBinomial K V) (n : Nat) (ch : BT),
    Reg cap S h.nodes h.cells → n ∈ S → (∀ x, x ∈ ch.ids → x ∈ S) → ch.size < fuel →
    ∃ h', demote cmp fuel h n ch = .ok h'
  | 0, _, _, _, _, _, _, hf => by omega
  | fuel + 1, h, n, ch, r, hn, hch, hf => by
    simp only [demote]
    have hsub : ∀ x, x ∈ ch.chainIds → x ∈ S := fun x hx => hch x (BT.chainIds_sub _ _ hx)
    obtain ⟨fe, hfe⟩ := findExt_total (cmp := cmp) (Reg.readable r) ch.chainIds hsub
    rw [hfe]
    cases fe with
    | none => exact ⟨h, rfl⟩
    | some c =>
      simp only []
      have hcm := findExt_mem h _ c hfe
      have hc : c ∈ S := hsub c hcm
      obtain ⟨kc, hkc⟩ := keyOf_ok (Reg.readable r) hc
      obtain ⟨kn, hkn⟩ := keyOf_ok (Reg.readable r) hn
      rw [hkc, hkn]
      simp only []
      split
      · obtain ⟨h1, hsw, r1, _⟩ := swap_spec r hc hn
        rw [hsw]
        simp only []
        obtain ⟨ch', hch', hsz⟩ := BT.chainChild_some c ch hcm
        rw [hch']
        exact demote_total fuel h1 c ch' r1 hc (fun x hx => hch x (BT.chainChild_sub c ch ch' hch' x hx)) (by omega)
      · exact ⟨h, rfl⟩

theorem consolidateLoop_total {h : IBinomial K V} {S : List Nat} (rd : Readable h S) :
    ∀ (rest : BT) (cid : Nat) (co : Int) (cc : BT), cid ∈ S → (∀ x, x ∈ rest.chainIds → x ∈ S) →
    ∃ r, consolidateLoop cmp h cid co cc rest = .ok r
  | .nil, cid, co, cc, _, _ => ⟨_, rfl⟩
  | .node nid no nc ns, cid, co, cc, hc, hrest => by
    simp only [consolidateLoop]
    have hn : nid ∈ S := hrest nid (by simp [BT.chainIds])
    have hns : ∀ x, x ∈ ns.chainIds → x ∈ S := fun x hx => hrest x (by simp [BT.chainIds, hx])
    split
    · obtain ⟨r, hr⟩ := consolidateLoop_total rd ns nid no nc hn hns
      exact ⟨_, by rw [hr]⟩
    · obtain ⟨kn, hkn⟩ := keyOf_ok rd hn
      obtain ⟨kc, hkc⟩ := keyOf_ok rd hc
      rw [hkn, hkc]
      simp only []
      split
      · exact consolidateLoop_total rd ns cid (co + 1) _ hc hns
      · exact consolidateLoop_total rd ns nid (no + 1) _ hn hns

theorem consolidate_total {h : IBinomial K V} {S : List Nat} (rd : Readable h S) (t : BT)
    (ht : ∀ x, x ∈ t.chainIds → x ∈ S) : ∃ r, consolidate cmp h t = .ok r := by
  cases t with
  | nil => exact ⟨_, rfl⟩
  | node id o c s =>
    simp only [consolidate]
    exact consolidateLoop_total rd s id o c (ht id (by simp [BT.chainIds]))
      (fun x hx => ht x (by simp [BT.chainIds, hx]))

theorem union_total {h : IBinomial K V} {S : List Nat} (rd : Readable h S) (a b : BT)
    (ha : ∀ x, x ∈ a.ids → x ∈ S) (hb : ∀ x, x ∈ b.ids → x ∈ S) : ∃ r, union cmp h a b = .ok r := by
  unfold union
  obtain ⟨m, hm⟩ := BT.merge_total (a.chainLen + b.chainLen + 1) a b (by omega)
  rw [hm]
  simp only []
  apply consolidate_total rd
  intro x hx
  have := (BT.merge_perm _ _ _ _ hm).mem_iff.mp (BT.chainIds_sub _ _ hx)
  rcases List.mem_append.mp this with h1 | h1
  · exact ha x h1
  · exact hb x h1

theorem removeAndUnion_total {cap : Nat} {h : IBinomial K V} (r : Reg cap h.head.ids h.nodes h.cells) {e : Nat}
    (he : e ∈ h.head.chainIds) : ∃ res, removeAndUnion cmp h e = .ok res := by
  unfold removeAndUnion
  obtain ⟨⟨rest, ch⟩, hrem⟩ := BT.removeRoot_some e _ he
  rw [hrem]
  simp only []
  have hp := BT.removeRoot_perm e _ _ _ hrem
  have hsub : ∀ x, x ∈ ch.ids ++ rest.ids → x ∈ h.head.ids :=
    fun x hx => hp.mem_iff.mpr (List.mem_cons_of_mem _ hx)
  obtain ⟨head', hun⟩ := union_total (cmp := cmp) (Reg.readable r) rest (BT.revChain ch .nil)
    (fun x hx => hsub x (List.mem_append_right _ hx))
    (fun x hx => by
      have := (BT.revChain_perm ch .nil).mem_iff.mp hx
      simp only [BT.ids, List.append_nil] at this
      exact hsub x (List.mem_append_left _ this))
  rw [hun]
  simp only []
  obtain ⟨c, hc, hn⟩ := r.reg e (BT.chainIds_sub _ _ he)
  rw [hc]
  simp only []
  have : c.index < h.nodes.size := by
    by_cases hh : c.index < h.nodes.size
    · exact hh
    · rw [Array.getElem?_eq_none (by omega)] at hn; cases hn
  rw [if_pos this]
  exact ⟨_, rfl⟩

/-- every call returns -/
theorem step_total (eq : V → V → Bool) {cap : Nat} (h : IBinomial K V) (op : Op K V) (inv : Inv cap h) :
    ∃ res, step cmp eq h op = .ok res := by
  have r := inv.reg
  have rd := Reg.readable r
  cases op with
  | insert i k v =>
    simp only [step]
    suffices ∃ x, h.insert cmp i k v = .ok x by obtain ⟨x, hx⟩ := this; exact ⟨_, by rw [hx]; rfl⟩
    unfold insert
    split
    · exact ⟨_, rfl⟩
    · rename_i hcond
      simp only []
      have rd1 : Readable ({ h with cells := h.cells.push { index := i.toNat, key := k, val := v } } : IBinomial K V)
          (h.cells.size :: h.head.ids) := by
        intro id hid
        rcases List.mem_cons.mp hid with rfl | hid
        · exact ⟨{ index := i.toNat, key := k, val := v }, by
            show (h.cells.push _)[h.cells.size]? = _
            rw [Array.getElem?_push, if_pos rfl]⟩
        · obtain ⟨c, hc⟩ := rd id hid
          have : id < h.cells.size := by
            by_cases hh : id < h.cells.size
            · exact hh
            · rw [Array.getElem?_eq_none (by omega)] at hc; cases hc
          exact ⟨c, by show (h.cells.push _)[id]? = some c; rw [Array.getElem?_push, if_neg (by omega)]; exact hc⟩
      obtain ⟨hd, hun⟩ := union_total (cmp := cmp) rd1 h.head (.node h.cells.size 0 .nil .nil)
        (fun x hx => List.mem_cons_of_mem _ hx) (fun x hx => by simp [BT.ids] at hx; rw [hx]; exact List.mem_cons_self)
      rw [hun]
      simp only []
      rw [if_pos (by omega)]
      exact ⟨_, rfl⟩
  | changeKey i k =>
    simp only [step]
    suffices ∃ x, h.changeKey cmp i k = .ok x by obtain ⟨x, hx⟩ := this; exact ⟨_, by rw [hx]; rfl⟩
    unfold changeKey
    split
    · exact ⟨_, rfl⟩
    · rename_i hcond
      have hheld : h.containsIndex i = true := by
        cases hx : h.containsIndex i with
        | true => rfl
        | false => exact absurd hx hcond
      obtain ⟨_, id, c, hnode, hmem, hcell, _, _⟩ := node_of_held r hheld
      rw [hnode]
      simp only []
      rw [hcell]
      simp only []
      obtain ⟨r1, _⟩ := r.setKey hmem hcell k
      unfold promote
      obtain ⟨anc, hanc⟩ := BT.ancestors_some id h.head [] hmem
      simp only []
      rw [hanc]
      simp only []
      have hsub : ∀ x, x ∈ anc → x ∈ h.head.ids := by
        intro x hx
        rcases BT.ancestors_sub id _ _ _ hanc x hx with h1 | h1
        · exact h1
        · cases h1
      obtain ⟨h2, hpr⟩ := promoteLoop_total (cmp := cmp) anc
        ({ h with cells := h.cells.setIfInBounds id { c with key := k } } : IBinomial K V) id r1 hmem hsub
      rw [hpr]
      simp only []
      obtain ⟨r2, _, hh2, _⟩ := promoteLoop_spec anc _ h2 id r1 hmem hsub hpr
      have hh2' : h2.head = h.head := hh2
      obtain ⟨ch, hch⟩ := BT.childrenOf_some id h2.head (by rw [hh2']; exact hmem)
      rw [hch]
      simp only []
      obtain ⟨h3, hde⟩ := demote_total (cmp := cmp) (ch.size + 1) h2 id ch r2 hmem
        (fun x hx => by have := BT.childrenOf_sub id _ ch hch x hx; rw [hh2'] at this; exact this) (by omega)
      rw [hde]
      exact ⟨_, rfl⟩
  | delete =>
    simp only [step]
    suffices ∃ x, h.delete cmp = .ok x by obtain ⟨x, hx⟩ := this; exact ⟨_, by rw [hx]; rfl⟩
    unfold delete
    obtain ⟨fe, hfe⟩ := findExt_total (cmp := cmp) rd h.head.chainIds (fun x hx => BT.chainIds_sub _ _ hx)
    rw [hfe]
    cases fe with
    | none => exact ⟨_, rfl⟩
    | some e =>
      simp only []
      obtain ⟨⟨h1, c⟩, hrm⟩ := removeAndUnion_total (cmp := cmp) r (findExt_mem h _ e hfe)
      rw [hrm]
      exact ⟨_, rfl⟩
  | deleteIndex i =>
    simp only [step]
    suffices ∃ x, h.deleteIndex cmp i = .ok x by obtain ⟨x, hx⟩ := this; exact ⟨_, by rw [hx]; rfl⟩
    unfold deleteIndex
    split
    · exact ⟨_, rfl⟩
    · rename_i hcond
      have hheld : h.containsIndex i = true := by
        cases hx : h.containsIndex i with
        | true => rfl
        | false => exact absurd hx hcond
      obtain ⟨_, id, c, hnode, hmem, hcell, _, _⟩ := node_of_held r hheld
      rw [hnode]
      simp only []
      obtain ⟨anc, hanc⟩ := BT.ancestors_some id h.head [] hmem
      rw [hanc]
      simp only []
      have hsub : ∀ x, x ∈ anc → x ∈ h.head.ids := by
        intro x hx
        rcases BT.ancestors_sub id _ _ _ hanc x hx with h1 | h1
        · exact h1
        · cases h1
      obtain ⟨h1, hbu⟩ := bubbleUp_total anc h id r hmem hsub
      rw [hbu]
      simp only []
      obtain ⟨r1, _, hh1, _⟩ := bubbleUp_spec anc h h1 id _ r hmem hsub hbu
      obtain ⟨l0, hl0, hroot⟩ := BT.ancestors_root id _ _ _ hanc
      have : anc = l0 := by rw [hl0]; simp
      subst this
      obtain ⟨⟨h2, c2⟩, hrm⟩ := removeAndUnion_total (cmp := cmp) (h := h1) (by rw [hh1]; exact r1)
        (by rw [hh1]; exact hroot)
      rw [hrm]
      exact ⟨_, rfl⟩
  | deleteAll => exact ⟨_, rfl⟩
  | peek =>
    simp only [step]
    suffices ∃ x, h.peek cmp = .ok x by obtain ⟨x, hx⟩ := this; exact ⟨_, by rw [hx]; rfl⟩
    unfold peek
    obtain ⟨fe, hfe⟩ := findExt_total (cmp := cmp) rd h.head.chainIds (fun x hx => BT.chainIds_sub _ _ hx)
    rw [hfe]
    cases fe with
    | none => exact ⟨_, rfl⟩
    | some e =>
      simp only []
      obtain ⟨c, hc⟩ := rd e (BT.chainIds_sub _ _ (findExt_mem h _ e hfe))
      rw [hc]
      exact ⟨_, rfl⟩
  | peekIndex i =>
    simp only [step]
    suffices ∃ x, h.peekIndex i = .ok x by obtain ⟨x, hx⟩ := this; exact ⟨_, by rw [hx]; rfl⟩
    unfold peekIndex
    split
    · exact ⟨_, rfl⟩
    · rename_i hcond
      have hheld : h.containsIndex i = true := by
        cases hx : h.containsIndex i with
        | true => rfl
        | false => exact absurd hx hcond
      obtain ⟨_, id, c, hnode, _, hcell, _, _⟩ := node_of_held r hheld
      rw [hnode]
      simp only []
      rw [hcell]
      exact ⟨_, rfl⟩
  | containsIndex i => exact ⟨_, rfl⟩
  | containsKey k =>
    simp only [step]
    suffices ∃ x, h.containsKey cmp k = .ok x by obtain ⟨x, hx⟩ := this; exact ⟨_, by rw [hx]; rfl⟩
    exact anyCell_total r _
  | containsValue v =>
    simp only [step]
    suffices ∃ x, h.containsValue eq v = .ok x by obtain ⟨x, hx⟩ := this; exact ⟨_, by rw [hx]; rfl⟩
    exact anyCell_total r _
  | size => exact ⟨_, rfl⟩
  | isEmpty => exact ⟨_, rfl⟩

end IBinomial
end AlgoVerif.C05
