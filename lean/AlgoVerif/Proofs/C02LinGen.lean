import AlgoVerif.Generated.C02LinGen
import AlgoVerif.Proofs.GoRt
import AlgoVerif.Model.C02
/-!
# The GENERATED `probe` / `Get` of `symboltable/linear_hash_table.go` and the hand Model

`Generated/C02LinGen.lean` is rewritten from /repo's source by `/verif/extract/go2lean` on every check run
(`bin/pre-C02`).  `probe` returns a closure with mutable captured state; the translator converts it (closure.go: the
record `linearHashTable_probeEnv` of the captured variables `M, h1, i, next` and the method `call` = the literal's body),
`Get` is the probe loop over it.  The hand Model (`Model/C02.lean`) has the `i`-th probe as the closed form
`Lin.probeIdx m h i` over `Nat` and the loop `Lin.getLoop` with fuel `m`.  Proved here: for every table of the hand Model
with `0 < m < 2^32`, every hash function and key, the generated `Get` with fuel `m` returns exactly what the hand Model's
`Lin.get` returns — the same panic for an index outside `entries`, the same `diverge` after `m` probes without a nil
slot — where `(v, true)` stands for `some v` and `(default, false)` for `none`.
-/
set_option linter.unusedSimpArgs false
namespace AlgoVerif.C02.Gen
open AlgoVerif AlgoVerif.Outcome AlgoVerif.C02 AlgoVerif.Generated

variable {K V : Type} [DecidableEq K] [Inhabited K] [Inhabited V]

/-- a table of the hand Model as the generated struct (`hash`, `eqVal` and the two float32 load factors, which `probe`
and `Get` do not read, are arbitrary) -/
def ofLin (hash : K → UInt64) (eqVal : V → V → Bool) (lfMin lfMax : Go.F32) (t : LinTable K V) : LinHT.linearHashTable K V :=
  { entries := t.slots.map (Option.map fun e => ⟨e.1, e.2⟩), m := (t.m : Int), n := t.n, minLF := lfMin, maxLF := lfMax,
    hashKey := hash, eqKey := fun a b => decide (a = b), eqVal := eqVal }

/-- `(V, bool)` of Go's `Get` for the hand Model's `Option V` -/
def pairOf : Option V → V × Bool
  | some v => (v, true)
  | none => (default, false)

theorem mix_eq (h : UInt64) :
    mix h = h ^^^ ((((h >>> (20 : UInt64)) ^^^ (h >>> (12 : UInt64))) ^^^ (h >>> (7 : UInt64))) ^^^ (h >>> (4 : UInt64))) := by
  simp [mix, symboltable_mixShifts]

theorem toInt_of_lt (x : UInt64) (h : x.toNat < 2 ^ 63) : x.toInt64.toInt = (x.toNat : Int) := by
  have e : x = UInt64.ofNat x.toNat := by simp
  calc x.toInt64.toInt = (UInt64.ofNat x.toNat).toInt64.toInt := by rw [← e]
    _ = (Int64.ofNat x.toNat).toInt := by rw [UInt64.toInt64_ofNat']
    _ = (x.toNat : Int) := Int64.toInt_ofNat_of_lt h

theorem ofInt_nat (m : Nat) (h : m < 2 ^ 64) : (UInt64.ofInt (m : Int)).toNat = m := by
  simp [UInt64.ofInt, UInt64.toNat_ofNat']; omega

/-- the closure's environment after `j` calls: `M = m`, `h1 = h & (m-1)`, `i = j` (`next` is scratch) -/
def EnvOK (m : Nat) (h : UInt64) (j : Nat) (env : LinHT.linearHashTable_probeEnv) : Prop :=
  env.M.toNat = m ∧ env.h1.toNat = h.toNat &&& (m - 1) ∧ env.i.toNat = j

theorem probe_ok (hash : K → UInt64) (eqVal : V → V → Bool) (a b : Go.F32) (t : LinTable K V) (key : K)
    (hm0 : 0 < t.m) (hm : t.m < 2 ^ 32) :
    EnvOK t.m (mix (hash key)) 0 (LinHT.linearHashTable.probe (ofLin hash eqVal a b t) key) := by
  have hM : (UInt64.ofInt (t.m : Int)).toNat = t.m := ofInt_nat t.m (by omega)
  have h1 : (UInt64.ofInt (t.m : Int) - 1).toNat = t.m - 1 := by
    rw [UInt64.toNat_sub_of_le _ _ (by rw [UInt64.le_iff_toNat_le, hM]; simp; omega), hM]; simp
  simp only [LinHT.linearHashTable.probe, Id.run, ofLin, mix_eq, EnvOK]
  refine ⟨hM, ?_, rfl⟩
  show (_ &&& (UInt64.ofInt (t.m : Int) - 1)).toNat = _
  rw [UInt64.toNat_and, h1]

/-- the `j`-th call of the closure returns the hand Model's `j`-th probe and counts one up -/
theorem call_ok (m : Nat) (h : UInt64) (j : Nat) (env : LinHT.linearHashTable_probeEnv) (he : EnvOK m h j env)
    (hm0 : 0 < m) (hm : m < 2 ^ 32) (hj : j < 2 ^ 32) :
    ∃ env', LinHT.linearHashTable_probeEnv.call env = .ok (env', ((Lin.probeIdx m h j : Nat) : Int)) ∧
      EnvOK m h (j + 1) env' := by
  obtain ⟨eM, eH, eI⟩ := he
  have hlt : h.toNat &&& (m - 1) < m := by
    have := @Nat.and_le_right h.toNat (m - 1); omega
  have hI1 : (env.i + 1).toNat = j + 1 := by rw [UInt64.toNat_add, eI]; simp; omega
  have hz : (env.i == (0 : UInt64)) = decide (j = 0) := by
    rw [Bool.eq_iff_iff]; simp only [beq_iff_eq, decide_eq_true_eq, ← eI]
    constructor
    · intro h0; rw [h0]; rfl
    · intro h0; apply UInt64.toNat_inj.1; simpa using h0
  simp only [LinHT.linearHashTable_probeEnv.call, hz, Outcome.pure_eq]
  by_cases hj0 : j = 0
  · simp only [hj0, decide_true, if_true, Outcome.ok_bind]
    refine ⟨⟨env.M, env.h1, env.i + 1, env.h1⟩, ?_, ⟨eM, eH, by rw [← hj0]; exact hI1⟩⟩
    congr 2
    rw [toInt_of_lt _ (by show env.h1.toNat < _; rw [eH]; omega)]
    show ((env.h1.toNat : Nat) : Int) = _
    rw [eH]; simp [Lin.probeIdx]
  · have hMne : ¬ env.M = 0 := by intro h0; rw [h0] at eM; simp at eM; omega
    have hsum : (env.h1 + env.i).toNat = (h.toNat &&& (m - 1)) + j := by
      rw [UInt64.toNat_add, eH, eI]; omega
    have hmod : ((env.h1 + env.i) % env.M).toNat = ((h.toNat &&& (m - 1)) + j) % m := by
      rw [UInt64.toNat_mod, hsum, eM]
    have hlt2 : ((h.toNat &&& (m - 1)) + j) % m < m := Nat.mod_lt _ hm0
    simp only [hj0, decide_false, Bool.false_eq_true, if_false, Go.modU64, hMne, Outcome.ok_bind]
    try simp only [UInt64.add_comm env.i env.h1] -- (`(i + h1) % M` is the same word)
    refine ⟨⟨env.M, env.h1, env.i + 1, (env.h1 + env.i) % env.M⟩, ?_, ⟨eM, eH, hI1⟩⟩
    congr 2
    rw [toInt_of_lt _ (by show ((env.h1 + env.i) % env.M).toNat < _; rw [hmod]; omega)]
    show ((((env.h1 + env.i) % env.M).toNat : Nat) : Int) = _
    rw [hmod]; simp [Lin.probeIdx, hj0]

omit [Inhabited K] [Inhabited V] in
/-- entries of the image -/
theorem idx_entries (hash : K → UInt64) (eqVal : V → V → Bool) (a b : Go.F32) (t : LinTable K V) (k : Nat) :
    Go.idx (ofLin hash eqVal a b t).entries (k : Int) =
      match t.slots[k]? with
      | none => .panic
      | some o => .ok (o.map fun e => (⟨e.1, e.2⟩ : LinHT.KeyValue K V)) := by
  by_cases hk : k < t.slots.size
  · have : k < (ofLin hash eqVal a b t).entries.size := by simpa [ofLin] using hk
    rw [Go.idx_nat this]; simp [ofLin, hk]
  · rw [Go.idx_of_invalid (by simp [ofLin]; omega)]
    simp [Array.getElem?_eq_none (by omega : t.slots.size ≤ k)]

/-- the probe loop of `Get`: the current index is the `j`-th probe, the environment has counted `j+1` calls -/
theorem get_loop (hash : K → UInt64) (eqVal : V → V → Bool) (a b : Go.F32) (t : LinTable K V) (key : K) (h : UInt64)
    (hm0 : 0 < t.m) (hm : t.m < 2 ^ 32) (F : Nat) :
    ∀ (k j : Nat) (env : LinHT.linearHashTable_probeEnv), EnvOK t.m h (j + 1) env → j + k < 2 ^ 32 →
    (LinHT.linearHashTable.Get.loop1 F (ofLin hash eqVal a b t) key k ((Lin.probeIdx t.m h j : Nat) : Int) env).map
        (fun c => match c with
          | .ret r => r
          | .next _ => ((default : V), false))
      = (Lin.getLoop t h key k j).map pairOf := by
  intro k
  induction k with
  | zero => intro j env _ _; simp [LinHT.linearHashTable.Get.loop1, Lin.getLoop]
  | succ k ih =>
    intro j env he hjk
    simp only [LinHT.linearHashTable.Get.loop1, Lin.getLoop, idx_entries]
    cases hs : t.slots[Lin.probeIdx t.m h j]? with
    | none => simp
    | some o =>
      cases o with
      | none => simp [pairOf]
      | some e =>
        simp only [Option.map_some, Outcome.ok_bind, Option.isSome_some, Bool.not_true, Bool.false_eq_true, if_false,
          Go.deref, ofLin]
        by_cases hk : e.1 = key
        · simp [hk, pairOf]
        · simp only [hk, decide_false, Bool.false_eq_true, if_false]
          obtain ⟨env', hc, he'⟩ := call_ok t.m h (j + 1) env he hm0 hm (by omega)
          simp only [hc, Outcome.ok_bind]
          exact ih (j + 1) env' he' (by omega)

/-- `Get(key)` with fuel `m` is the hand Model's `Lin.get` -/
theorem Get_eq (hash : K → UInt64) (eqVal : V → V → Bool) (a b : Go.F32) (t : LinTable K V) (key : K)
    (hm0 : 0 < t.m) (hm : t.m < 2 ^ 32) :
    LinHT.linearHashTable.Get t.m (ofLin hash eqVal a b t) key = (Lin.get hash t key).map pairOf := by
  obtain ⟨env', hc, he'⟩ := call_ok t.m (mix (hash key)) 0 _ (probe_ok hash eqVal a b t key hm0 hm) hm0 hm (by omega)
  have hl := get_loop hash eqVal a b t key (mix (hash key)) hm0 hm t.m t.m 0 env' he' (by omega)
  simp only [LinHT.linearHashTable.Get, hc, Outcome.ok_bind, Lin.get]
  rw [← hl]
  cases LinHT.linearHashTable.Get.loop1 t.m (ofLin hash eqVal a b t) key t.m ((Lin.probeIdx t.m (mix (hash key)) 0 : Nat) : Int) env' with
  | ok c => cases c <;> rfl
  | panic => rfl
  | diverge => rfl

end AlgoVerif.C02.Gen
