import AlgoVerif.Proofs.C19Next
/-!
# C19 — `Next` until end of input delivers the decoded source

For every NUL-free list of runes, every buffer size `n ≥ 1` and every reader without I/O errors (any finite
script of chunk caps, half reads, zero-length reads, `io.EOF` together with data or afterwards), `New` followed
by `Next` × (number of runes + k) returns exactly the runes and then `io.EOF` k times.
-/
namespace AlgoVerif.C19
open AlgoVerif AlgoVerif.Generated

theorem ofNat_ne_zero (x : Nat) (h1 : 0 < x) (h2 : x < 256) : UInt8.ofNat x ≠ 0 := by
  intro h
  have := congrArg UInt8.toNat h
  rw [toNat_ofNat_lt x h2] at this
  simp at this; omega

theorem encodeChar_ne_zero (c : Char) (hc : c.val.toNat ≠ 0) : ∀ b ∈ String.utf8EncodeChar c, b ≠ 0 := by
  intro b hb
  simp only [String.utf8EncodeChar] at hb
  generalize c.val.toNat = v at *
  split at hb
  · simp only [List.mem_cons, List.not_mem_nil, or_false] at hb; subst hb; exact ofNat_ne_zero v (by omega) (by omega)
  · split at hb
    · simp only [List.mem_cons, List.not_mem_nil, or_false] at hb; rcases hb with hb | hb <;> subst hb <;> exact ofNat_ne_zero _ (by omega) (by omega)
    · split at hb
      · simp only [List.mem_cons, List.not_mem_nil, or_false] at hb; rcases hb with hb | hb | hb <;> subst hb <;> exact ofNat_ne_zero _ (by omega) (by omega)
      · simp only [List.mem_cons, List.not_mem_nil, or_false] at hb; rcases hb with hb | hb | hb | hb <;> subst hb <;> exact ofNat_ne_zero _ (by omega) (by omega)

theorem nulFree_encode (cs : List Char) (h : ∀ c ∈ cs, c.toNat ≠ 0) : NulFree (Spec.encode cs) := by
  intro b hb
  simp only [Spec.encode, List.mem_flatMap] at hb
  obtain ⟨c, hc, hbc⟩ := hb
  exact encodeChar_ne_zero c (h c hc) b hbc

theorem step_next_of {i i' : Input} {r : NextResult} (h : i.Next = .ok (i', r)) :
    i.step .next = .ok (i', match r with | .rune r => .rune r | .err e => .err e | .invalid p => .invalid p) := by
  simp only [Input.step, h]; cases r <;> rfl

theorem run_eofs {S : List UInt8} {n : Nat} (hnul : NulFree S) {i : Input} {p B cnt s : Nat}
    (hinv : Inv S n i p B cnt s) (hd : S.drop p = []) (k : Nat) :
    i.run (List.replicate k .next) = List.replicate k (.ok (.err .eof)) := by
  induction k with
  | zero => rfl
  | succ k ih =>
    have h := Next_spec hinv hnul
    rw [hd] at h
    obtain ⟨i', B', cnt', s', hN, _, _, hi⟩ := h
    have := hi hd
    subst this
    simp only [List.replicate_succ, Input.run, step_next_of hN, ih]

theorem drop_encode_cons {S : List UInt8} {p : Nat} {c : Char} {cs : List Char}
    (hd : S.drop p = Spec.encode (c :: cs)) : S.drop (p + c.utf8Size) = Spec.encode cs := by
  rw [← List.drop_drop, hd]
  simp only [Spec.encode, List.flatMap_cons]
  rw [List.drop_append_of_le_length (by simp)]
  simp

/-- `Next` called `cs.length + k` times on a state whose remaining source is the encoding of `cs` returns the
runes of `cs`, then `io.EOF` `k` times. -/
theorem run_nexts {S : List UInt8} {n : Nat} (hnul : NulFree S) : ∀ (cs : List Char) (i : Input) (p B cnt s k : Nat),
    Inv S n i p B cnt s → S.drop p = Spec.encode cs →
    i.run (List.replicate (cs.length + k) .next)
      = cs.map (fun c => .ok (.rune c.toNat)) ++ List.replicate k (.ok (.err .eof)) := by
  intro cs
  induction cs with
  | nil =>
    intro i p B cnt s k hinv hd
    simpa using run_eofs hnul hinv (by simpa [Spec.encode] using hd) k
  | cons c cs ih =>
    intro i p B cnt s k hinv hd
    have h := Next_spec hinv hnul
    have hdec : decodeRune (S.drop p) = .rune c.toNat c.utf8Size := by
      rw [hd]; simp only [Spec.encode, List.flatMap_cons]; exact decodeRune_encode c _
    rw [hdec] at h
    obtain ⟨i', B', cnt', s', hN, hinv', _, _, _⟩ := h
    have hlen : (c :: cs).length + k = (cs.length + k) + 1 := by simp; omega
    rw [hlen, List.replicate_succ]
    simp only [Input.run, step_next_of hN, List.map_cons, List.cons_append]
    rw [ih i' _ B' cnt' s' k hinv' (drop_encode_cons hd)]

theorem encode_eq_nil_iff (cs : List Char) : Spec.encode cs = [] ↔ cs = [] := by
  constructor
  · intro h
    cases cs with
    | nil => rfl
    | cons c cs =>
      have := congrArg List.length h
      simp only [Spec.encode, List.flatMap_cons, List.length_append, String.length_utf8EncodeChar,
        List.length_nil] at this
      have := c.utf8Size_pos
      omega
  · intro h; subst h; rfl

theorem next_delivers_source (cs : List Char) (hnul : ∀ c ∈ cs, c.toNat ≠ 0) (n : Nat) (hn : 0 < n)
    (script : List Answer) (tailEof : Bool) (hio : ∀ a ∈ script, a.flag ≠ .ioerr) (k : Nat) :
    runNew ⟨Spec.encode cs, script, tailEof⟩ n (List.replicate (cs.length + k) .next) =
      if cs = [] then .failed .eof
      else .ran (cs.map (fun c => .ok (.rune c.toNat)) ++ List.replicate k (.ok (.err .eof))) := by
  rcases new_spec (Spec.encode cs) script tailEof n hn hio with ⟨hS, hnew⟩ | ⟨hS, i, hnew, hinv, _⟩
  · have : cs = [] := (encode_eq_nil_iff cs).mp hS
    subst this
    simp only [runNew, hnew, if_true]
  · have : cs ≠ [] := fun h => hS ((encode_eq_nil_iff cs).mpr h)
    simp only [runNew, hnew, this, if_false]
    rw [run_nexts (nulFree_encode cs hnul) cs i 0 0 _ 0 k hinv (by simp)]

/-! ## ill-formed UTF-8 -/

theorem drop_encode_cons' {S : List UInt8} {p : Nat} {c : Char} {cs : List Char} {tail : List UInt8}
    (hd : S.drop p = Spec.encode (c :: cs) ++ tail) : S.drop (p + c.utf8Size) = Spec.encode cs ++ tail := by
  rw [← List.drop_drop, hd]
  simp only [Spec.encode, List.flatMap_cons, List.append_assoc]
  rw [List.drop_append_of_le_length (by simp)]
  simp

/-- reading the runes `cs` that precede `tail` -/
theorem run_nexts_then {S : List UInt8} {n : Nat} (hnul : NulFree S) (tail : List UInt8) :
    ∀ (cs : List Char) (i : Input) (p B cnt s : Nat),
    Inv S n i p B cnt s → S.drop p = Spec.encode cs ++ tail →
    ∃ i' p' B' cnt' s', Inv S n i' p' B' cnt' s' ∧ S.drop p' = tail ∧
      ∀ ops', i.run (List.replicate cs.length .next ++ ops')
        = cs.map (fun c => .ok (.rune c.toNat)) ++ i'.run ops' := by
  intro cs
  induction cs with
  | nil =>
    intro i p B cnt s hinv hd
    exact ⟨i, p, B, cnt, s, hinv, by simpa [Spec.encode] using hd, fun _ => rfl⟩
  | cons c cs ih =>
    intro i p B cnt s hinv hd
    have h := Next_spec hinv hnul
    have hdec : decodeRune (S.drop p) = .rune c.toNat c.utf8Size := by
      rw [hd]; simp only [Spec.encode, List.flatMap_cons, List.append_assoc]; exact decodeRune_encode c _
    rw [hdec] at h
    obtain ⟨i1, B1, cnt1, s1, hN, hinv1, _, _, _⟩ := h
    obtain ⟨i', p', B', cnt', s', hinv', hd', hrun⟩ := ih i1 _ B1 cnt1 s1 hinv1 (drop_encode_cons' hd)
    refine ⟨i', p', B', cnt', s', hinv', hd', ?_⟩
    intro ops'
    simp only [List.length_cons, List.replicate_succ, List.cons_append, Input.run, step_next_of hN,
      List.map_cons]
    rw [hrun]

/-- an ill-formed sequence after well-formed runes is reported by the `Next` that reaches it -/
theorem invalid_reported (cs : List Char) (tail : List UInt8) (k : Nat) (hbad : decodeRune tail = .invalid k)
    (hnul : NulFree (Spec.encode cs ++ tail)) (n : Nat) (hn : 0 < n)
    (script : List Answer) (tailEof : Bool) (hio : ∀ a ∈ script, a.flag ≠ .ioerr) :
    ∃ pos, runNew ⟨Spec.encode cs ++ tail, script, tailEof⟩ n (List.replicate cs.length .next ++ [.next])
      = .ran (cs.map (fun c => .ok (.rune c.toNat)) ++ [.ok (.invalid pos)]) := by
  have hne : Spec.encode cs ++ tail ≠ [] := by
    intro h
    have : tail = [] := (List.append_eq_nil_iff.mp h).2
    rw [this] at hbad; simp [decodeRune] at hbad
  rcases new_spec (Spec.encode cs ++ tail) script tailEof n hn hio with ⟨hS, _⟩ | ⟨_, i, hnew, hinv, _⟩
  · exact absurd hS hne
  · obtain ⟨i', p', B', cnt', s', hinv', hd', hrun⟩ :=
      run_nexts_then hnul tail cs i 0 0 _ 0 hinv (by simp)
    have h := Next_spec hinv' hnul
    rw [hd', hbad] at h
    obtain ⟨i2, _, _, _, hN, _, _⟩ := h
    refine ⟨i'.forwardPos, ?_⟩
    simp only [runNew, hnew, hrun, Input.run, step_next_of hN]

end AlgoVerif.C19
