import AlgoVerif.Proofs.C11Sound
/-!
# C11 — termination of the driver (fuel sufficiency) for grammars without ε-productions and unit cycles

On a `SoundTable` the productions emitted so far are always a rightmost derivation of the input from the current
sentential form (`Inv`).  In a grammar without ε-productions whose unit productions strictly decrease a rank, every
derivation step increases a potential that is bounded by `2·R·|w|`; so at most `2·R·|w|` reductions and `|w|` shifts
can happen, and `parse` with more fuel than that never answers `diverge`.
-/
namespace AlgoVerif.C11.Term
open AlgoVerif AlgoVerif.Gram AlgoVerif.C11 AlgoVerif.C11.Spec AlgoVerif.C11.Sound

/-- no ε-productions, and unit productions `A → B` go down in `rank` (so there is no unit cycle); `R` bounds the ranks -/
structure NoEpsUnitCycle (g : SGrammar) (rank : String → Nat) (R : Nat) : Prop where
  noEps : ∀ p ∈ g.prods, p.body ≠ []
  unit : ∀ p ∈ g.prods, ∀ B, p.body = [Sym.nonterm B] → rank B < rank p.head
  bound : ∀ p ∈ g.prods, rank p.head < R

def wt (rank : String → Nat) (R : Nat) : Sy → Nat
  | .term _ => 2 * R
  | .nonterm A => 2 * R - min (rank A + 1) R

def pot (rank : String → Nat) (R : Nat) (φ : List Sy) : Nat := (φ.map (wt rank R)).sum

theorem pot_append (rank : String → Nat) (R : Nat) (a b : List Sy) :
    pot rank R (a ++ b) = pot rank R a + pot rank R b := by simp [pot]

theorem pot_terms (rank : String → Nat) (R : Nat) (w : List String) :
    pot rank R (w.map Sym.term) = 2 * R * w.length := by
  induction w with
  | nil => simp [pot]
  | cons a w ih =>
    have : pot rank R (List.map Sym.term (a :: w)) = 2 * R + pot rank R (w.map Sym.term) := by simp [pot, wt]
    rw [this, ih]; simp [Nat.mul_succ]; omega

theorem wt_ge (rank : String → Nat) (R : Nat) (X : Sy) : R ≤ wt rank R X := by
  cases X with
  | term t => simp [wt]; omega
  | nonterm A => simp only [wt]; have := Nat.min_le_right (rank A + 1) R; omega

theorem pot_ge (rank : String → Nat) (R : Nat) : ∀ (φ : List Sy), R * φ.length ≤ pot rank R φ
  | [] => by simp [pot]
  | X :: φ => by
    have h1 := wt_ge rank R X
    have h2 := pot_ge rank R φ
    have : pot rank R (X :: φ) = wt rank R X + pot rank R φ := by simp [pot]
    rw [this]; simp [Nat.mul_succ]; omega

/-- a production strictly increases the potential -/
theorem prod_increases {g : SGrammar} {rank : String → Nat} {R : Nat} (h : NoEpsUnitCycle g rank R)
    {p : Pr} (hp : p ∈ g.prods) : wt rank R (Sym.nonterm p.head) + 1 ≤ pot rank R p.body := by
  have hR : rank p.head < R := h.bound p hp
  have hw : wt rank R (Sym.nonterm p.head) = 2 * R - (rank p.head + 1) := by
    simp only [wt]; rw [Nat.min_eq_left (by omega)]
  rw [hw]
  match hb : p.body with
  | [] => exact absurd hb (h.noEps p hp)
  | [X] =>
    cases X with
    | term t => simp [pot, wt]; omega
    | nonterm B =>
      have := h.unit p hp B hb
      simp only [pot, wt, List.map_cons, List.map_nil, List.sum_cons, List.sum_nil, Nat.add_zero]
      have := Nat.min_le_left (rank B + 1) R
      omega
  | X :: Y :: rest =>
    have h1 := wt_ge rank R X
    have h2 := wt_ge rank R Y
    have : pot rank R (X :: Y :: rest) = wt rank R X + (wt rank R Y + pot rank R rest) := by simp [pot]
    rw [this]; omega

/-- a rightmost derivation of a terminal string from `α` has at most `pot(w) - pot(α)` steps -/
theorem rderiv_length {g : SGrammar} {rank : String → Nat} {R : Nat} (h : NoEpsUnitCycle g rank R) :
    ∀ (π : List Pr) (α β : List Sy), RDeriv g π α β → pot rank R α + π.length ≤ pot rank R β := by
  intro π α β hd
  induction hd with
  | nil α => simp
  | cons u v p hp _ ih =>
    have hinc := prod_increases h hp
    simp only [pot_append] at ih ⊢
    have : pot rank R [Sym.nonterm p.head] = wt rank R (Sym.nonterm p.head) := by simp [pot]
    rw [this]
    simp only [List.length_cons]
    omega

/-- the number of productions emitted so far is bounded -/
theorem out_bounded {g : SGrammar} {rank : String → Nat} {R : Nat} (h : NoEpsUnitCycle g rank R)
    {items : Int → List Item} {w : List String} {st : PState} (hI : Inv g items w st) :
    st.out.length ≤ 2 * R * w.length := by
  obtain ⟨⟨fr, _, _, hder, _, _⟩, _⟩ := hI
  have := rderiv_length h _ _ _ hder
  rw [pot_terms] at this
  omega

/-- what a continuing step does to input and output -/
theorem pstep_inl_cases {g : SGrammar} {start' : String} {items : Int → List Item} {T : Tbl}
    (hT : SoundTable g start' items T) {st st' : PState} (hs : pstep T st = .inl st') :
    (st.input ≠ [] ∧ st'.input = st.input.tail ∧ st'.out = st.out) ∨
    (st'.input = st.input ∧ st'.out.length = st.out.length + 1) := by
  unfold pstep at hs
  simp only at hs
  cases hcell : T.cell (peekState st.stack) st.tok with
  | nil => rw [hcell] at hs; simp at hs
  | cons act rest =>
    rw [hcell] at hs
    cases rest with
    | cons _ _ => simp at hs
    | nil =>
      cases act with
      | shift t =>
        simp only [Sum.inl.injEq] at hs
        subst hs
        left
        have hne := (hT.shiftOK _ _ t (by rw [hcell]; simp)).1
        refine ⟨?_, rfl, rfl⟩
        intro hnil
        apply hne
        simp [PState.tok, hnil]
      | reduce p =>
        simp only [Sum.inl.injEq] at hs
        subst hs
        right
        exact ⟨rfl, by simp⟩
      | accept => simp at hs

theorem run_terminates {g : SGrammar} {start' : String} {items : Int → List Item} {T : Tbl}
    (hT : SoundTable g start' items T) {rank : String → Nat} {R : Nat} (h : NoEpsUnitCycle g rank R)
    (w : List String) :
    ∀ (fuel : Nat) (st : PState), Inv g items w st →
      st.input.length + (2 * R * w.length - st.out.length) < fuel → prun T fuel st ≠ Outcome.diverge := by
  intro fuel
  induction fuel with
  | zero => intro st _ hlt; omega
  | succ n ih =>
    intro st hI hlt
    unfold prun
    cases hs : pstep T st with
    | inr r => simp
    | inl st' =>
      simp only
      have hI' := (step_sound hT w st hI).1 st' hs
      have hb := out_bounded h hI
      have hb' := out_bounded h hI'
      apply ih st' hI'
      rcases pstep_inl_cases hT hs with ⟨hne, hin, hout⟩ | ⟨hin, hout⟩
      · rw [hin, hout]
        have : st.input.tail.length + 1 = st.input.length := by
          cases hi : st.input with
          | nil => exact absurd hi hne
          | cons a l => simp
        omega
      · rw [hin]; omega

theorem parse_terminates {g : SGrammar} {start' : String} {items : Int → List Item} {T : Tbl}
    (hT : SoundTable g start' items T) {rank : String → Nat} {R : Nat} (h : NoEpsUnitCycle g rank R)
    (w : List String) (hw : endmarker ∉ w) (fuel : Nat) (hf : (2 * R + 1) * w.length < fuel) :
    parse T fuel w ≠ Outcome.diverge := by
  apply run_terminates hT h w fuel (pinit w) (inv_init g items w hw)
  simp only [pinit, List.length_nil, Nat.sub_zero]
  have : (2 * R + 1) * w.length = w.length + 2 * R * w.length := by
    rw [Nat.add_mul]; omega
  omega

end AlgoVerif.C11.Term
