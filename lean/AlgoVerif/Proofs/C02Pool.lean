import AlgoVerif.Model.C02Pool
import AlgoVerif.Proofs.C02Chain
import AlgoVerif.Proofs.C02OA
import AlgoVerif.Proofs.C02LinDel
/-!
# C02/C03 — a pool of tables refines a pool of finite maps

`Tab.correct`: a table of any of the four implementations satisfies the per-operation specifications of
`Proofs/C02Sim.lean` (by cases, from `Chain.correct`, `Lin.correct`, `OA.correct`).  `pool_step_sim`: one operation of
the pool (`Model/C02Pool.lean`) is matched by the Spec for an admissible listing, and the relation — table `i`
refines map `i`, same Go type, same `eqVal`, same iterator values — is kept; `pool_sim`: every history's trace is
admitted by the Spec.  `Spec.itersOK_step`, `Spec.drain`: what iterator values hold.
-/
namespace AlgoVerif.C02
open Spec
variable {K V σ : Type} [DecidableEq K]

/-! ## a table of any implementation -/

def Tab.Inv (hash : K → UInt64) : Tab K V → Prop
  | .chain t => Chain.Inv hash t
  | .lin t => Lin.Inv hash t
  | .oa t => OA.Inv hash t

def Tab.Live : Tab K V → K → V → Prop
  | .chain t => Chain.Live t
  | .lin t => Lin.Live t
  | .oa t => OA.Live t

theorem Tab.correct {sh : Shuffle σ} (hsh : ShufflePerm sh) (hash : K → UInt64) (eqVal : V → V → Bool) :
    Correct eqVal (Tab.impl sh hash eqVal) (Tab.Inv hash) Tab.Live where
  func := by
    intro t k v v' hI h1 h2
    cases t with
    | chain t => exact (Chain.correct hsh hash eqVal).func t k v v' hI h1 h2
    | lin t => exact (Lin.correct hsh hash eqVal).func t k v v' hI h1 h2
    | oa t => exact (OA.correct hsh hash eqVal).func t k v v' hI h1 h2
  put := by
    intro t g k v hI
    cases t with
    | chain t =>
      obtain ⟨t', g', h, hI', hl⟩ := (Chain.correct hsh hash eqVal).put t g k v hI
      have h' : Chain.put sh hash depth t g k v = .ok (t', g') := h
      exact ⟨.chain t', g', by simp [Tab.impl, Tab.put, h'], hI', hl⟩
    | lin t =>
      obtain ⟨t', g', h, hI', hl⟩ := (Lin.correct hsh hash eqVal).put t g k v hI
      have h' : Lin.put sh hash depth t g k v = .ok (t', g') := h
      exact ⟨.lin t', g', by simp [Tab.impl, Tab.put, h'], hI', hl⟩
    | oa t =>
      obtain ⟨t', g', h, hI', hl⟩ := (OA.correct hsh hash eqVal).put t g k v hI
      have h' : OA.put sh hash depth t g k v = .ok (t', g') := h
      exact ⟨.oa t', g', by simp [Tab.impl, Tab.put, h'], hI', hl⟩
  get := by
    intro t k hI
    cases t with
    | chain t => exact (Chain.correct hsh hash eqVal).get t k hI
    | lin t => exact (Lin.correct hsh hash eqVal).get t k hI
    | oa t => exact (OA.correct hsh hash eqVal).get t k hI
  delete := by
    intro _ t g k hI
    cases t with
    | chain t =>
      obtain ⟨t', g', o, h, hI', hl, ho⟩ := (Chain.correct hsh hash eqVal).delete trivial t g k hI
      have h' : Chain.delete sh hash depth t g k = .ok (t', g', o) := h
      exact ⟨.chain t', g', o, by simp [Tab.impl, Tab.delete, h'], hI', hl, ho⟩
    | lin t =>
      obtain ⟨t', g', o, h, hI', hl, ho⟩ := (Lin.correct hsh hash eqVal).delete trivial t g k hI
      have h' : Lin.delete sh hash depth t g k = .ok (t', g', o) := h
      exact ⟨.lin t', g', o, by simp [Tab.impl, Tab.delete, h'], hI', hl, ho⟩
    | oa t =>
      obtain ⟨t', g', o, h, hI', hl, ho⟩ := (OA.correct hsh hash eqVal).delete trivial t g k hI
      have h' : OA.delete sh hash depth t g k = .ok (t', g', o) := h
      exact ⟨.oa t', g', o, by simp [Tab.impl, Tab.delete, h'], hI', hl, ho⟩
  deleteAll := by
    intro t hI
    cases t with
    | chain t => exact (Chain.correct hsh hash eqVal).deleteAll t hI
    | lin t => exact (Lin.correct hsh hash eqVal).deleteAll t hI
    | oa t => exact (OA.correct hsh hash eqVal).deleteAll t hI
  all := by
    intro t g hI
    cases t with
    | chain t => exact (Chain.correct hsh hash eqVal).all t g hI
    | lin t => exact (Lin.correct hsh hash eqVal).all t g hI
    | oa t => exact (OA.correct hsh hash eqVal).all t g hI
  size := by
    intro t g hI
    cases t with
    | chain t => exact (Chain.correct hsh hash eqVal).size t g hI
    | lin t => exact (Lin.correct hsh hash eqVal).size t g hI
    | oa t => exact (OA.correct hsh hash eqVal).size t g hI
  equal := fun _ _ _ => rfl

/-- what the four constructors accept, with default-or-tighter load-factor bounds -/
def Tab.ValidOpts (ty : GoType) (o : Opts) : Prop :=
  match ty with
  | .chain => Chain.ValidOpts o
  | .linear => Lin.ValidOpts o
  | .quadratic => OA.ValidOpts .quad o
  | .double => OA.ValidOpts .dbl o

theorem Tab.init_spec (hash : K → UInt64) (ty : GoType) (o : Opts) (hv : Tab.ValidOpts ty o) :
    ∃ t0 : Tab K V, Tab.new ty o = .ok t0 ∧ Tab.Inv hash t0 ∧ ∀ k v, ¬ Tab.Live t0 k v := by
  cases ty with
  | chain =>
    obtain ⟨t0, h, hI, he⟩ := Chain.init_spec (V := V) hash o hv
    exact ⟨.chain t0, by simp [Tab.new, h], hI, he⟩
  | linear =>
    obtain ⟨t0, h, hI, he⟩ := Lin.init_spec (V := V) hash o hv
    exact ⟨.lin t0, by simp [Tab.new, h], hI, he⟩
  | quadratic =>
    obtain ⟨t0, h, hI, he⟩ := OA.init_spec (V := V) hash .quad o hv
    exact ⟨.oa t0, by simp [Tab.new, h], hI, he⟩
  | double =>
    obtain ⟨t0, h, hI, he⟩ := OA.init_spec (V := V) hash .dbl o hv
    exact ⟨.oa t0, by simp [Tab.new, h], hI, he⟩

/-! ## the pool -/

theorem modifyAt_eq {β : Type} (f : Obj K V → Outcome (Obj K V × β)) :
    ∀ (objs : List (Obj K V)) (i : Nat),
      modifyAt objs i f =
        match objs[i]? with
        | none => .ok (objs, none)
        | some o =>
          match f o with
          | .ok (o', b) => .ok (objs.set i o', some b)
          | .panic => .panic
          | .diverge => .diverge := by
  intro objs
  induction objs with
  | nil => intro i; simp [modifyAt]
  | cons o r ih =>
    intro i
    cases i with
    | zero =>
      simp only [modifyAt, List.getElem?_cons_zero, List.set_cons_zero]
      cases f o with
      | ok p => obtain ⟨o', b⟩ := p; rfl
      | panic => rfl
      | diverge => rfl
    | succ i =>
      simp only [modifyAt, List.getElem?_cons_succ, List.set_cons_succ]
      rw [ih i]
      cases r[i]? with
      | none => rfl
      | some o2 =>
        simp only
        cases f o2 with
        | ok p => obtain ⟨o', b⟩ := p; rfl
        | panic => rfl
        | diverge => rfl

/-- table `o` of the Model and table `ts` of the Spec: same Go type, same `eqVal`, the table refines the map -/
def ObjRel (o : Obj K V) (ts : STab K V) : Prop :=
  o.ty = ts.ty ∧ o.eqVal = ts.eqVal ∧ Rel (Tab.Inv o.hash) Tab.Live o.tab ts.map

structure PoolRel (ps : PState K V σ) (ss : PSState K V) : Prop where
  len : ps.objs.length = ss.tabs.length
  rel : ∀ (i : Nat) (o : Obj K V) (ts : STab K V), ps.objs[i]? = some o → ss.tabs[i]? = some ts → ObjRel o ts
  it : ps.it = ss.it

theorem PoolRel.none {ps : PState K V σ} {ss : PSState K V} (h : PoolRel ps ss) {i : Nat} (hi : ps.objs[i]? = none) :
    ss.tabs[i]? = none := by
  rw [List.getElem?_eq_none_iff] at hi ⊢
  rw [← h.len]; exact hi

theorem PoolRel.some {ps : PState K V σ} {ss : PSState K V} (h : PoolRel ps ss) {i : Nat} {o : Obj K V}
    (hi : ps.objs[i]? = some o) : ∃ ts, ss.tabs[i]? = some ts ∧ ObjRel o ts := by
  have hlt : i < ps.objs.length := (List.getElem?_eq_some_iff.1 hi).1
  have hlt' : i < ss.tabs.length := h.len ▸ hlt
  exact ⟨ss.tabs[i], List.getElem?_eq_getElem hlt', h.rel i o _ hi (List.getElem?_eq_getElem hlt')⟩

theorem PoolRel.set {objs : List (Obj K V)} {g : σ} {it : Iters K V} {ss : PSState K V} (h : PoolRel ⟨objs, g, it⟩ ss)
    (i : Nat) (o' : Obj K V) (ts' : STab K V) (g' : σ) (it' : Iters K V) (ho : ObjRel o' ts') :
    PoolRel ⟨objs.set i o', g', it'⟩ ⟨ss.tabs.set i ts', it'⟩ where
  len := by simp [h.len]
  rel := by
    intro j o ts hj1 hj2
    simp only [List.getElem?_set] at hj1 hj2
    by_cases hij : i = j
    · subst hij
      simp only [if_true] at hj1 hj2
      split at hj1
      · split at hj2
        · cases hj1; cases hj2; exact ho
        · cases hj2
      · cases hj1
    · simp only [hij, if_false] at hj1 hj2
      exact h.rel j o ts hj1 hj2
  it := rfl

/-- `ht ⊂ ht2` for two tables that may differ in implementation, hash function and options -/
theorem sub_eq2 {T1 T2 : Type} {e1 e2 : V → V → Bool} {I1 : Impl K V σ T1} {I2 : Impl K V σ T2}
    {Inv1 : T1 → Prop} {Live1 : T1 → K → V → Prop} {Inv2 : T2 → Prop} {Live2 : T2 → K → V → Prop}
    (hC1 : Correct e1 I1 Inv1 Live1) (hC2 : Correct e2 I2 Inv2 Live2) {t1 : T1} {t2 : T2} {s1 s2 : Map K V}
    (h1 : Rel Inv1 Live1 t1 s1) (h2 : Rel Inv2 Live2 t2 s2) (eqVal : V → V → Bool) (g : σ) :
    allMatchGet eqVal (I2.get t2) (I1.all t1 g).1 = .ok (Map.sub eqVal s1 s2) := by
  rw [allMatchGet_eq eqVal (I2.get t2) (Map.lookup s2) (Rel.get_eq hC2 h2)]
  congr 1
  unfold Map.sub
  exact (Rel.all_perm hC1 h1 g).all_eq

theorem Obj.equal_eq {sh : Shuffle σ} (hsh : ShufflePerm sh) {o1 o2 : Obj K V} {a b : STab K V}
    (h1 : ObjRel o1 a) (h2 : ObjRel o2 b) (g : σ) :
    ∃ g', Obj.equal sh o1 o2 g = .ok (STab.equal a b, g') := by
  obtain ⟨ht1, he1, hr1⟩ := h1
  obtain ⟨ht2, _, hr2⟩ := h2
  unfold Obj.equal STab.equal
  rw [ht1, ht2, he1]
  by_cases hty : a.ty = b.ty
  · simp only [hty, if_true]
    have hC1 := Tab.correct hsh o1.hash o1.eqVal
    have hC2 := Tab.correct hsh o2.hash o2.eqVal
    have s12 := fun g => sub_eq2 hC1 hC2 hr1 hr2 a.eqVal g
    have s21 := fun g => sub_eq2 hC2 hC1 hr2 hr1 a.eqVal g
    unfold equalWith Map.equal
    have e12 : allMatchGet a.eqVal (Tab.get o2.hash o2.tab) (Tab.all sh o1.tab g).1 = .ok (Map.sub a.eqVal a.map b.map) := s12 g
    rw [e12]
    cases hb : Map.sub a.eqVal a.map b.map with
    | false => exact ⟨_, rfl⟩
    | true =>
      simp only
      have e21 : allMatchGet a.eqVal (Tab.get o1.hash o1.tab) (Tab.all sh o2.tab (Tab.all sh o1.tab g).2).1 =
          .ok (Map.sub a.eqVal b.map a.map) := s21 _
      rw [e21]
      exact ⟨(Tab.all sh o2.tab (Tab.all sh o1.tab g).2).2, by simp⟩
  · simp only [hty, if_false]
    exact ⟨g, rfl⟩

/-- one operation of the pool is matched by the Spec, for an admissible listing, and the relation is kept -/
theorem pool_step_sim {sh : Shuffle σ} (hsh : ShufflePerm sh) (ps : PState K V σ) (ss : PSState K V)
    (h : PoolRel ps ss) (op : POp K V) :
    ∃ ps' o choice, Pool.step sh ps op = .ok (ps', o) ∧ choiceOK ss op choice ∧ (pstep ss op choice).2 = o ∧
      PoolRel ps' (pstep ss op choice).1 := by
  obtain ⟨objs, g, it⟩ := ps
  have hit : it = ss.it := h.it
  cases op with
  | put i k v =>
    simp only [Pool.step, pstep, choiceOK]
    rw [modifyAt_eq]
    cases hoi : objs[i]? with
    | none =>
      have := h.none hoi
      simp only [this]
      exact ⟨_, _, [], rfl, trivial, rfl, h⟩
    | some o =>
      obtain ⟨ts, hts, hty, heq, hrel⟩ := h.some hoi
      obtain ⟨ty, hash, eqVal, tab⟩ := o
      obtain ⟨t', g', hp, hinv, hlive⟩ := (Tab.correct hsh hash eqVal).put tab g k v hrel.1
      have hp' : Tab.put sh hash tab g k v = .ok (t', g') := hp
      simp only [hts, Obj.put, hp']
      refine ⟨_, _, [], rfl, trivial, rfl, ?_⟩
      rw [hit]
      apply PoolRel.set h
      refine ⟨hty, heq, hinv, nodupKeys_insert hrel.2.1 k v, ?_⟩
      intro k' v'
      rw [mem_insert, hlive, hrel.2.2]
  | delete i k =>
    simp only [Pool.step, pstep, choiceOK]
    rw [modifyAt_eq]
    cases hoi : objs[i]? with
    | none =>
      have := h.none hoi
      simp only [this]
      exact ⟨_, _, [], rfl, trivial, rfl, h⟩
    | some o =>
      obtain ⟨ts, hts, hty, heq, hrel⟩ := h.some hoi
      obtain ⟨ty, hash, eqVal, tab⟩ := o
      have hC := Tab.correct hsh hash eqVal
      obtain ⟨t', g', r, hd, hinv, hlive, hr⟩ := hC.delete trivial tab g k hrel.1
      have hd' : Tab.delete sh hash tab g k = .ok (t', g', r) := hd
      have hg := Rel.get_eq hC hrel k
      obtain ⟨o2, ho2, hspec2⟩ := hC.get tab k hrel.1
      have hoo : r = Map.lookup ts.map k := by
        rw [ho2] at hg
        have : o2 = Map.lookup ts.map k := by injection hg
        rw [← this]
        cases r with
        | none =>
          cases o2 with
          | none => rfl
          | some v => exact absurd ((hr v).2 ((hspec2 v).1 rfl)) (by simp)
        | some v => exact ((hspec2 v).2 ((hr v).1 rfl)).symm
      simp only [hts, Obj.delete, hd']
      refine ⟨_, _, [], rfl, trivial, by rw [hoo], ?_⟩
      rw [hit]
      apply PoolRel.set h
      refine ⟨hty, heq, hinv, nodupKeys_erase hrel.2.1 k, ?_⟩
      intro k' v'
      rw [mem_erase, hlive, hrel.2.2]
  | deleteAll i =>
    simp only [Pool.step, pstep, choiceOK]
    rw [modifyAt_eq]
    cases hoi : objs[i]? with
    | none =>
      have := h.none hoi
      simp only [this]
      exact ⟨_, _, [], rfl, trivial, rfl, h⟩
    | some o =>
      obtain ⟨ts, hts, hty, heq, hrel⟩ := h.some hoi
      obtain ⟨ty, hash, eqVal, tab⟩ := o
      obtain ⟨hinv, hnone⟩ := (Tab.correct hsh hash eqVal).deleteAll tab hrel.1
      simp only [hts, Obj.deleteAll]
      refine ⟨_, _, [], rfl, trivial, rfl, ?_⟩
      rw [hit]
      apply PoolRel.set h
      refine ⟨hty, heq, hinv, nodupKeys_nil, ?_⟩
      intro k' v'
      have := hnone k' v'
      simp only [List.not_mem_nil, false_iff]
      exact this
  | get i k =>
    simp only [Pool.step, pstep, choiceOK]
    cases hoi : objs[i]? with
    | none =>
      have := h.none hoi
      simp only [this]
      exact ⟨_, _, [], rfl, trivial, rfl, h⟩
    | some o =>
      obtain ⟨ts, hts, hty, heq, hrel⟩ := h.some hoi
      have hg : Tab.get o.hash o.tab k = .ok (Map.lookup ts.map k) := Rel.get_eq (Tab.correct hsh o.hash o.eqVal) hrel k
      simp only [hts, hg]
      exact ⟨_, _, [], rfl, trivial, rfl, h⟩
  | size i =>
    simp only [Pool.step, pstep, choiceOK]
    cases hoi : objs[i]? with
    | none =>
      have := h.none hoi
      simp only [this]
      exact ⟨_, _, [], rfl, trivial, rfl, h⟩
    | some o =>
      obtain ⟨ts, hts, hty, heq, hrel⟩ := h.some hoi
      have hC := Tab.correct hsh o.hash o.eqVal
      have hs : Tab.size o.tab = Map.size ts.map := by
        have h1 : Tab.size o.tab = (((Tab.all sh o.tab g).1.length : Nat) : Int) := hC.size o.tab g hrel.1
        have h2 : (Tab.all sh o.tab g).1.Perm ts.map := Rel.all_perm hC hrel g
        rw [h1, h2.length_eq]; rfl
      simp only [hts, hs]
      exact ⟨_, _, [], rfl, trivial, rfl, h⟩
  | isEmpty i =>
    simp only [Pool.step, pstep, choiceOK]
    cases hoi : objs[i]? with
    | none =>
      have := h.none hoi
      simp only [this]
      exact ⟨_, _, [], rfl, trivial, rfl, h⟩
    | some o =>
      obtain ⟨ts, hts, hty, heq, hrel⟩ := h.some hoi
      have hC := Tab.correct hsh o.hash o.eqVal
      have hs : Tab.size o.tab = Map.size ts.map := by
        have h1 : Tab.size o.tab = (((Tab.all sh o.tab g).1.length : Nat) : Int) := hC.size o.tab g hrel.1
        have h2 : (Tab.all sh o.tab g).1.Perm ts.map := Rel.all_perm hC hrel g
        rw [h1, h2.length_eq]; rfl
      simp only [hts, hs]
      exact ⟨_, _, [], rfl, trivial, rfl, h⟩
  | all i =>
    simp only [Pool.step, pstep, choiceOK]
    cases hoi : objs[i]? with
    | none =>
      have := h.none hoi
      simp only [this]
      exact ⟨_, _, [], rfl, trivial, rfl, h⟩
    | some o =>
      obtain ⟨ts, hts, hty, heq, hrel⟩ := h.some hoi
      have hperm : (Tab.all sh o.tab g).1.Perm ts.map := Rel.all_perm (Tab.correct hsh o.hash o.eqVal) hrel g
      simp only [hts]
      exact ⟨_, _, (Tab.all sh o.tab g).1, rfl, hperm, rfl, ⟨h.len, h.rel, h.it⟩⟩
  | equal i j =>
    simp only [Pool.step, pstep, choiceOK]
    cases hoi : objs[i]? with
    | none =>
      have := h.none hoi
      simp only [this]
      exact ⟨_, _, [], rfl, trivial, rfl, h⟩
    | some o1 =>
      obtain ⟨a, hta, hra⟩ := h.some hoi
      cases hoj : objs[j]? with
      | none =>
        have := h.none hoj
        simp only [hta, this]
        exact ⟨_, _, [], rfl, trivial, rfl, h⟩
      | some o2 =>
        obtain ⟨b, htb, hrb⟩ := h.some hoj
        obtain ⟨g', he⟩ := Obj.equal_eq hsh hra hrb g
        simp only [hta, htb, he]
        exact ⟨_, _, [], rfl, trivial, rfl, ⟨h.len, h.rel, h.it⟩⟩
  | seq i =>
    simp only [Pool.step, pstep, choiceOK]
    cases hoi : objs[i]? with
    | none =>
      have := h.none hoi
      simp only [this]
      exact ⟨_, _, [], rfl, trivial, rfl, h⟩
    | some o =>
      obtain ⟨ts, hts, _⟩ := h.some hoi
      simp only [hts]
      exact ⟨_, _, [], rfl, trivial, by rw [hit], ⟨h.len, h.rel, by simp only [hit]⟩⟩
  | pull sq =>
    simp only [Pool.step, pstep, choiceOK]
    exact ⟨_, _, [], rfl, trivial, by rw [hit], ⟨h.len, h.rel, by simp only [hit]⟩⟩
  | next p =>
    subst hit
    simp only [Pool.step, pstep, choiceOK]
    cases hf : ss.it.freshTid p with
    | none =>
      simp only [Option.bind_none]
      exact ⟨_, _, [], rfl, rfl, rfl, ⟨h.len, h.rel, rfl⟩⟩
    | some tid =>
      simp only [Option.bind_some]
      cases hoi : objs[tid]? with
      | none =>
        have := h.none hoi
        simp only [this]
        exact ⟨_, _, [], rfl, rfl, rfl, ⟨h.len, h.rel, rfl⟩⟩
      | some o =>
        obtain ⟨ts, hts, hty, heq, hrel⟩ := h.some hoi
        have hperm : (Tab.all sh o.tab g).1.Perm ts.map := Rel.all_perm (Tab.correct hsh o.hash o.eqVal) hrel g
        simp only [hts]
        exact ⟨_, _, (Tab.all sh o.tab g).1, rfl, hperm, rfl, ⟨h.len, h.rel, rfl⟩⟩
  | stop p =>
    simp only [Pool.step, pstep, choiceOK]
    exact ⟨_, _, [], rfl, trivial, by rw [hit], ⟨h.len, h.rel, by simp only [hit]⟩⟩

/-- **refinement**: the trace of every history on a pool is admitted by the Spec -/
theorem pool_sim {sh : Shuffle σ} (hsh : ShufflePerm sh) :
    ∀ (ops : List (POp K V)) (ps : PState K V σ) (ss : PSState K V), PoolRel ps ss → Admits ss ops (Pool.run sh ps ops)
  | [], _, _, _ => by simp [Pool.run, runTrace, Admits]
  | op :: ops, ps, ss, h => by
    obtain ⟨ps', o, choice, hstep, hch, hout, hrel⟩ := pool_step_sim hsh ps ss h op
    simp only [Pool.run, runTrace, hstep, Admits]
    exact ⟨choice, hch, hout, pool_sim hsh ops ps' _ hrel⟩

/-- every history reaches a state, related to some state of the Spec -/
theorem pool_reach {sh : Shuffle σ} (hsh : ShufflePerm sh) :
    ∀ (ops : List (POp K V)) (ps : PState K V σ) (ss : PSState K V), PoolRel ps ss →
      ∃ ps' ss', Pool.reach sh ps ops = some ps' ∧ PoolRel ps' ss'
  | [], ps, ss, h => ⟨ps, ss, rfl, h⟩
  | op :: ops, ps, ss, h => by
    obtain ⟨ps', o, choice, hstep, _, _, hrel⟩ := pool_step_sim hsh ps ss h op
    simp only [Pool.reach, hstep]
    exact pool_reach hsh ops ps' _ hrel

/-! ## the initial pool -/

def Cfg.Valid (c : Cfg K V) : Prop := Tab.ValidOpts c.ty c.opts

/-- the Spec's pool for the same constructor calls: empty maps -/
def specInit (cfgs : List (Cfg K V)) : PSState K V := ⟨cfgs.map fun c => ⟨c.ty, c.eqVal, []⟩, {}⟩

theorem Pool.new_spec (cfgs : List (Cfg K V)) (hv : ∀ c ∈ cfgs, c.Valid) :
    ∃ objs : List (Obj K V), Pool.new cfgs = .ok objs ∧ objs.length = cfgs.length ∧
      ∀ (i : Nat) (o : Obj K V) (c : Cfg K V), objs[i]? = some o → cfgs[i]? = some c → ObjRel o ⟨c.ty, c.eqVal, []⟩ := by
  induction cfgs with
  | nil => exact ⟨[], rfl, rfl, by intro i o c h; simp at h⟩
  | cons c r ih =>
    obtain ⟨os, hos, hlen, hrel⟩ := ih (fun c' hc' => hv c' (List.mem_cons_of_mem _ hc'))
    obtain ⟨t0, hnew, hinv, hempty⟩ := Tab.init_spec (V := V) c.hash c.ty c.opts (hv c (List.mem_cons_self ..))
    refine ⟨⟨c.ty, c.hash, c.eqVal, t0⟩ :: os, by simp [Pool.new, Obj.new, hnew, hos], by simp [hlen], ?_⟩
    intro i o c' h1 h2
    cases i with
    | zero =>
      simp only [List.getElem?_cons_zero, Option.some.injEq] at h1 h2
      subst h1; subst h2
      exact ⟨rfl, rfl, hinv, nodupKeys_nil, fun k v => by simp [hempty k v]⟩
    | succ i =>
      simp only [List.getElem?_cons_succ] at h1 h2
      exact hrel i o c' h1 h2

theorem Pool.init_rel (cfgs : List (Cfg K V)) (hv : ∀ c ∈ cfgs, c.Valid) :
    ∃ objs : List (Obj K V), Pool.new cfgs = .ok objs ∧ ∀ g : σ, PoolRel ⟨objs, g, {}⟩ (specInit cfgs) := by
  obtain ⟨objs, hnew, hlen, hrel⟩ := Pool.new_spec cfgs hv
  refine ⟨objs, hnew, fun g => ⟨by simp [specInit, hlen], ?_, rfl⟩⟩
  intro i o ts h1 h2
  simp only [specInit, List.getElem?_map] at h2
  cases hc : cfgs[i]? with
  | none => simp [hc] at h2
  | some c =>
    simp only [hc, Option.map_some, Option.some.injEq] at h2
    subst h2
    exact hrel i o c h1 hc

/-! ## what iterator values hold (invariants of the Spec) -/

theorem Spec.itersOK_init (cfgs : List (Cfg K V)) : ItersOK (specInit cfgs) := by
  constructor
  · intro sq hsq; simp [specInit] at hsq
  · intro pl hpl; simp [specInit] at hpl

theorem getElem?_set_of_some {α : Type} (l : List α) (i j : Nat) (a x : α) (h : l[j]? = some x) :
    ∃ y, (l.set i a)[j]? = some y ∧ (i ≠ j → y = x) := by
  rw [List.getElem?_set]
  by_cases hij : i = j
  · subst hij
    have : i < l.length := (List.getElem?_eq_some_iff.1 h).1
    exact ⟨a, by simp [this], fun hne => absurd rfl hne⟩
  · exact ⟨x, by simp [hij, h], fun _ => rfl⟩

/-- a change of table `i`: the traversals of table `i` that were half-way are broken, everything else stands -/
theorem itersOK_set {s : PSState K V} (h : ItersOK s) (i : Nat) (t' : STab K V) :
    ItersOK ⟨s.tabs.set i t', s.it.invalidate i⟩ := by
  obtain ⟨hA, hB⟩ := h
  constructor
  · intro sq hsq
    obtain ⟨t, ht⟩ := hA sq hsq
    obtain ⟨y, hy, _⟩ := getElem?_set_of_some s.tabs i sq.tid t' t ht
    exact ⟨y, hy⟩
  · intro pl' hpl'
    simp only [Iters.invalidate, List.mem_map] at hpl'
    obtain ⟨pl, hpl, rfl⟩ := hpl'
    obtain ⟨t, ht, hrun⟩ := hB pl hpl
    obtain ⟨y, hy, hyx⟩ := getElem?_set_of_some s.tabs i pl.tid t' t ht
    by_cases hc : pl.tid = i ∧ pl.phase = .running
    · simp only [hc, and_self, if_true]
      exact ⟨y, by simpa [hc.1] using hy, fun hr => by simp at hr⟩
    · simp only [hc, if_false]
      refine ⟨y, hy, fun hr => ?_⟩
      have hne : i ≠ pl.tid := fun e => hc ⟨e.symm, hr⟩
      rw [hyx hne]
      exact hrun hr

/-- traversal `p` is replaced by `pl'`, which satisfies the invariant -/
theorem itersOK_setPull {s : PSState K V} (h : ItersOK s) (p : Nat) (pl' : PullV K V)
    (hpl' : ∃ t, s.tabs[pl'.tid]? = some t ∧ (pl'.phase = .running → ∃ l : List (K × V), l.Perm t.map ∧ pl'.rest <:+ l)) :
    ItersOK { s with it := { s.it with pulls := s.it.pulls.set p pl' } } := by
  refine ⟨h.1, ?_⟩
  intro x hx
  rcases List.mem_or_eq_of_mem_set hx with hx | rfl
  · exact h.2 x hx
  · exact hpl'

theorem itersOK_advance {s : PSState K V} (h : ItersOK s) (p : Nat) (pl : PullV K V)
    (hpl : ∃ t, s.tabs[pl.tid]? = some t ∧ ∃ l : List (K × V), l.Perm t.map ∧ pl.rest <:+ l) :
    ItersOK { s with it := (s.it.advance p pl).1 } := by
  obtain ⟨t, ht, l, hl, hsuf⟩ := hpl
  unfold Iters.advance
  cases hr : pl.rest with
  | nil => exact itersOK_setPull h p _ ⟨t, ht, fun hrun => ⟨l, hl, by simpa [hr] using hsuf⟩⟩
  | cons e r =>
    refine itersOK_setPull h p _ ⟨t, ht, fun _ => ⟨l, hl, ?_⟩⟩
    rw [hr] at hsuf
    exact (List.suffix_cons e r).trans hsuf

theorem Spec.itersOK_step (s : PSState K V) (op : POp K V) (choice : List (K × V)) (hc : choiceOK s op choice)
    (h : ItersOK s) : ItersOK (pstep s op choice).1 := by
  cases op with
  | put i k v =>
    simp only [pstep]
    cases hi : s.tabs[i]? with
    | none => exact h
    | some t => exact itersOK_set h i _
  | delete i k =>
    simp only [pstep]
    cases hi : s.tabs[i]? with
    | none => exact h
    | some t => exact itersOK_set h i _
  | deleteAll i =>
    simp only [pstep]
    cases hi : s.tabs[i]? with
    | none => exact h
    | some t => exact itersOK_set h i _
  | get i k => simp only [pstep]; cases s.tabs[i]? <;> exact h
  | size i => simp only [pstep]; cases s.tabs[i]? <;> exact h
  | isEmpty i => simp only [pstep]; cases s.tabs[i]? <;> exact h
  | all i => simp only [pstep]; cases s.tabs[i]? <;> exact h
  | equal i j => simp only [pstep]; cases s.tabs[i]? <;> cases s.tabs[j]? <;> exact h
  | seq i =>
    simp only [pstep]
    cases hi : s.tabs[i]? with
    | none => exact h
    | some t =>
      refine ⟨?_, h.2⟩
      intro sq hsq
      simp only [Iters.addSeq, List.mem_append, List.mem_singleton] at hsq
      rcases hsq with hsq | rfl
      · exact h.1 sq hsq
      · exact ⟨t, hi⟩
  | pull sq =>
    simp only [pstep, Iters.pull]
    cases hq : s.it.seqs[sq]? with
    | none => exact h
    | some q =>
      refine ⟨h.1, ?_⟩
      intro pl hpl
      simp only [List.mem_append, List.mem_singleton] at hpl
      rcases hpl with hpl | rfl
      · exact h.2 pl hpl
      · obtain ⟨t, ht⟩ := h.1 q (List.mem_of_getElem? hq)
        exact ⟨t, ht, fun hr => by simp at hr⟩
  | next p =>
    simp only [pstep, Iters.next]
    cases hp : s.it.pulls[p]? with
    | none => exact h
    | some pl =>
      obtain ⟨t, ht, hrun⟩ := h.2 pl (List.mem_of_getElem? hp)
      cases hph : pl.phase with
      | broken => simp only [hph]; exact h
      | done => simp only [hph]; exact h
      | running =>
        simp only [hph]
        obtain ⟨l, hl, hsuf⟩ := hrun hph
        exact itersOK_advance h p pl ⟨t, ht, l, hl, hsuf⟩
      | fresh =>
        simp only [hph]
        have hperm : choice.Perm t.map := by
          simp only [choiceOK, Iters.freshTid, hp, hph, if_true, Option.bind_some, ht] at hc
          exact hc
        exact itersOK_advance h p { pl with phase := .running, rest := choice } ⟨t, ht, choice, hperm, List.suffix_refl _⟩
  | stop p =>
    simp only [pstep, Iters.stop]
    cases hp : s.it.pulls[p]? with
    | none => exact h
    | some pl =>
      obtain ⟨t, ht, _⟩ := h.2 pl (List.mem_of_getElem? hp)
      by_cases hb : pl.phase = .broken
      · simp only [hb, if_true]; exact h
      · simp only [hb, if_false]
        exact itersOK_setPull h p _ ⟨t, ht, fun hr => by simp at hr⟩

/-- a run of the Spec: operations with the listing chosen for each -/
def Spec.prun : PSState K V → List (POp K V × List (K × V)) → PSState K V
  | s, [] => s
  | s, (op, ch) :: r => Spec.prun (pstep s op ch).1 r

/-- every chosen listing is a permutation of the map it lists -/
def Spec.ChoicesOK : PSState K V → List (POp K V × List (K × V)) → Prop
  | _, [] => True
  | s, (op, ch) :: r => choiceOK s op ch ∧ Spec.ChoicesOK (pstep s op ch).1 r

theorem Spec.iters_ok : ∀ (steps : List (POp K V × List (K × V))) (s : PSState K V), Spec.ChoicesOK s steps →
    ItersOK s → ItersOK (Spec.prun s steps)
  | [], _, _, h => h
  | (op, ch) :: r, s, hc, h => Spec.iters_ok r _ hc.2 (Spec.itersOK_step s op ch hc.1 h)

/-- the outputs of a run of the Spec -/
def Spec.pouts : PSState K V → List (POp K V × List (K × V)) → List (POut K V)
  | _, [] => []
  | s, (op, ch) :: r => (pstep s op ch).2 :: Spec.pouts (pstep s op ch).1 r

/-- a traversal that is half-way with `rest` left, advanced until it reports the end, yields exactly `rest`, in order -/
theorem Spec.drain_running : ∀ (rest : List (K × V)) (s : PSState K V) (p : Nat) (pl : PullV K V),
    s.it.pulls[p]? = some pl → pl.phase = .running → pl.rest = rest →
    ∀ chs : List (List (K × V)), chs.length = rest.length + 1 →
      Spec.pouts s (chs.map fun ch => (POp.next p, ch)) = rest.map POut.pair ++ [POut.done]
  | [], s, p, pl, hp, hph, hr, chs, hlen => by
    match chs, hlen with
    | [ch], _ =>
      simp [Spec.pouts, pstep, Iters.next, hp, hph, Iters.advance, hr]
  | e :: r, s, p, pl, hp, hph, hr, chs, hlen => by
    match chs, hlen with
    | ch :: chs', hlen' =>
      have hlt : p < s.it.pulls.length := (List.getElem?_eq_some_iff.1 hp).1
      have hstep : pstep s (.next p) ch =
          ({ s with it := { s.it with pulls := s.it.pulls.set p { pl with rest := r } } }, .pair e) := by
        simp [pstep, Iters.next, hp, hph, Iters.advance, hr]
      simp only [List.map_cons, Spec.pouts, hstep, List.cons_append, List.cons.injEq, true_and]
      apply Spec.drain_running r _ p { pl with rest := r }
      · simp [hlt]
      · exact hph
      · rfl
      · simpa using hlen'

/-- a traversal that has not started, advanced until it reports the end, yields exactly the listing chosen at its
first `next` — a permutation of the map as it is THEN, whatever happened to the table since the sequence and the
traversal were obtained -/
theorem Spec.drain_fresh (s : PSState K V) (p : Nat) (pl : PullV K V) (hp : s.it.pulls[p]? = some pl)
    (hph : pl.phase = .fresh) (ch : List (K × V)) (chs : List (List (K × V))) (hlen : chs.length = ch.length) :
    Spec.pouts s ((ch :: chs).map fun c => (POp.next p, c)) = ch.map POut.pair ++ [POut.done] := by
  have hlt : p < s.it.pulls.length := (List.getElem?_eq_some_iff.1 hp).1
  cases ch with
  | nil =>
    cases chs with
    | nil => simp [Spec.pouts, pstep, Iters.next, hp, hph, Iters.advance]
    | cons _ _ => simp at hlen
  | cons e r =>
    have hstep : pstep s (.next p) (e :: r) =
        ({ s with it := { s.it with pulls := s.it.pulls.set p { pl with phase := .running, rest := r } } }, .pair e) := by
      simp [pstep, Iters.next, hp, hph, Iters.advance]
    simp only [List.map_cons, Spec.pouts, hstep, List.cons_append, List.cons.injEq, true_and]
    have := Spec.drain_running r { s with it := { s.it with pulls := s.it.pulls.set p { pl with phase := .running, rest := r } } } p
      { pl with phase := .running, rest := r } (by simp [hlt]) rfl rfl chs (by simpa using hlen)
    simpa using this

/-! ## probe bounds in every table of a reached pool (C03) -/

/-- the probe walk of every key — held, deleted or never seen — stays within the bound of its implementation -/
def Tab.ProbesBounded (hash : K → UInt64) : Tab K V → Prop
  | .chain t => ∀ key : K,
      ((Chain.nodesVisited key (Chain.bucket t (Chain.hashIdx t.m (mix (hash key)))) : Nat) : Int) ≤ t.n
  | .lin t => ∀ key : K, ∃ c, Lin.probes t (mix (hash key)) key t.m 0 = some c ∧ c ≤ t.m
  | .oa t => ∀ key : K, ∃ cg cf,
      OA.probesGet t (mix (hash key)) key t.m 0 = some cg ∧ OA.probesFind t (mix (hash key)) key t.m 0 = some cf ∧
      cg ≤ cover t.kind t.m ∧ cf ≤ cover t.kind t.m ∧ cover t.kind t.m ≤ t.m

theorem Tab.probes_bounded (hash : K → UInt64) (t : Tab K V) (h : Tab.Inv hash t) : Tab.ProbesBounded hash t := by
  cases t with
  | chain t => exact fun key => Chain.nodes_bound hash t key h
  | lin t => exact fun key => Lin.probes_bound hash t key h
  | oa t =>
    intro key
    obtain ⟨cg, cf, h1, h2, h3, h4⟩ := OA.probes_bound hash t key h
    exact ⟨cg, cf, h1, h2, h3, h4, cover_le _ _⟩

theorem PoolRel.inv {ps : PState K V σ} {ss : PSState K V} (h : PoolRel ps ss) (o : Obj K V) (ho : o ∈ ps.objs) :
    Tab.Inv o.hash o.tab := by
  obtain ⟨i, hi, hget⟩ := List.getElem_of_mem ho
  have : ps.objs[i]? = Option.some o := by rw [List.getElem?_eq_getElem hi, hget]
  obtain ⟨ts, _, _, _, hrel⟩ := h.some this
  exact hrel.1

end AlgoVerif.C02
