import AlgoVerif.Model.C02
import Mathlib.Data.Nat.Prime.Basic
import Mathlib.Data.Nat.ModEq
import Mathlib.NumberTheory.Bertrand
import Mathlib.Tactic.IntervalCases
import Mathlib.Tactic.NormNum.Prime
/-!
# C02/C03 — number-theoretic facts about the Model's helper functions

`isPrime_correct`, termination of `smallestPrimeLargerThan` (Bertrand), `gcdGo = Nat.gcd`,
coprimality of the secondary hash, and the cover lemmas `quad_cover`, `double_cover`, `linear_cover`.
-/
namespace AlgoVerif.C02

/-! ### `isPrime` -/

theorem isPrimeLoop_spec (n : Nat) : ∀ fuel i, n < (i + fuel) * (i + fuel) →
    (isPrimeLoop n fuel i = true ↔ ∀ j, i ≤ j → j * j ≤ n → ¬ j ∣ n) := by
  intro fuel
  induction fuel with
  | zero =>
    intro i h
    simp only [isPrimeLoop, true_iff]
    intro j hij hj
    have : i * i ≤ j * j := Nat.mul_le_mul hij hij
    simp at h
    omega
  | succ f ih =>
    intro i h
    unfold isPrimeLoop
    by_cases h1 : i * i ≤ n
    · simp only [h1, if_true]
      by_cases h2 : n % i = 0
      · simp only [h2, if_true]
        constructor
        · intro hf; cases hf
        · intro hall
          exact absurd (Nat.dvd_of_mod_eq_zero h2) (hall i (Nat.le_refl i) h1)
      · simp only [h2, if_false]
        rw [ih (i + 1) (by rw [show i + 1 + f = i + (f + 1) by omega]; exact h)]
        constructor
        · intro hall j hij hj
          rcases Nat.eq_or_lt_of_le hij with rfl | hlt
          · intro hd; exact h2 (Nat.mod_eq_zero_of_dvd hd)
          · exact hall j hlt hj
        · intro hall j hij hj
          exact hall j (by omega) hj
    · simp only [h1, if_false, true_iff]
      intro j hij hj
      have : i * i ≤ j * j := Nat.mul_le_mul hij hij
      omega

theorem isPrime_small : ∀ n, n ≤ 100 → (isPrime n = true ↔ Nat.Prime n) := by
  intro n hn
  interval_cases n <;>
    simp [isPrime, smallPrimes, Generated.symboltable_isPrime_small, Generated.symboltable_isPrime_smallBound] <;> norm_num

theorem isPrime_correct (n : Nat) : isPrime n = true ↔ Nat.Prime n := by
  by_cases hn : n ≤ 100
  · exact isPrime_small n hn
  · have h1 : ¬ n ≤ 1 := by omega
    have h2 : smallPrimes.contains n = false := by
      simp only [smallPrimes, Generated.symboltable_isPrime_small, List.contains_eq_mem, List.mem_cons, List.not_mem_nil,
        or_false, decide_eq_false_iff_not]
      omega
    have hn' : ¬ n ≤ Generated.symboltable_isPrime_smallBound := by
      simp only [Generated.symboltable_isPrime_smallBound]; exact hn
    unfold isPrime
    simp only [h1, if_false, h2, hn', Bool.false_eq_true]
    rw [isPrimeLoop_spec n n 2 (by nlinarith)]
    rw [Nat.prime_def_le_sqrt]
    constructor
    · intro h
      refine ⟨by omega, fun m hm hs => h m hm ?_⟩
      exact Nat.le_sqrt.mp hs
    · intro h j hj hjj
      exact h.2 j hj (Nat.le_sqrt.mpr hjj)

/-! ### `smallestPrimeLargerThan`, `largestPrimeSmallerThan` -/

theorem smallestPrimeLoop_spec : ∀ fuel p q, p ≤ q → Nat.Prime q → q < p + fuel →
    ∃ r, smallestPrimeLoop fuel p = .ok r ∧ Nat.Prime r ∧ p ≤ r ∧ r ≤ q := by
  intro fuel
  induction fuel with
  | zero => intro p q h1 _ h3; omega
  | succ f ih =>
    intro p q h1 hq h3
    unfold smallestPrimeLoop
    by_cases hp : isPrime p = true
    · simp only [hp, if_true]
      exact ⟨p, rfl, (isPrime_correct p).1 hp, Nat.le_refl p, h1⟩
    · simp only [hp, if_false]
      have hne : p ≠ q := by
        rintro rfl
        exact hp ((isPrime_correct p).2 hq)
      obtain ⟨r, hr, hr2, hr3, hr4⟩ := ih (p + 1) q (by omega) hq (by omega)
      exact ⟨r, hr, hr2, by omega, hr4⟩

/-- Bertrand's postulate bounds the search: it returns a prime in `[n, 2n]`. -/
theorem smallestPrimeLargerThan_terminates (n : Nat) (hn : 1 ≤ n) :
    ∃ r, smallestPrimeLargerThan n = .ok r ∧ Nat.Prime r ∧ n ≤ r ∧ r ≤ 2 * n := by
  obtain ⟨q, hq, h1, h2⟩ := Nat.exists_prime_lt_and_le_two_mul n (by omega)
  obtain ⟨r, hr, hr2, hr3, hr4⟩ := smallestPrimeLoop_spec (n + 3) n q (by omega) hq (by omega)
  exact ⟨r, hr, hr2, hr3, by omega⟩

theorem smallestPrimeLargerThan_prime (n : Nat) (hn : Nat.Prime n) : smallestPrimeLargerThan n = .ok n := by
  unfold smallestPrimeLargerThan smallestPrimeLoop
  simp [(isPrime_correct n).2 hn]

theorem largestPrimeSmallerThan_prime (n : Nat) (hn : Nat.Prime n) : largestPrimeSmallerThan n = (n : Int) := by
  have h2 := hn.two_le
  obtain ⟨p, rfl⟩ : ∃ p, n = p + 1 := ⟨n - 1, by omega⟩
  unfold largestPrimeSmallerThan
  simp [(isPrime_correct _).2 hn]
  omega

/-! ### `gcd` -/

theorem gcdLoop_eq : ∀ fuel a b, b < fuel → gcdLoop fuel a b = Nat.gcd a b := by
  intro fuel
  induction fuel with
  | zero => intro a b h; omega
  | succ f ih =>
    intro a b h
    unfold gcdLoop
    by_cases hb : b = 0
    · simp [hb]
    · simp only [hb, if_false]
      have : a % b < b := Nat.mod_lt _ (Nat.pos_of_ne_zero hb)
      rw [ih b (a % b) (by omega)]
      rw [Nat.gcd_comm a b, Nat.gcd_rec b a, Nat.gcd_comm]

theorem gcdGo_eq (a b : Nat) : gcdGo a b = Nat.gcd a b := by
  unfold gcdGo
  rw [gcdLoop_eq _ _ _ (by omega)]
  rcases Nat.le_total a b with h | h
  · rw [Nat.max_eq_right h, Nat.min_eq_left h, Nat.gcd_comm]
  · rw [Nat.max_eq_left h, Nat.min_eq_right h]

/-! ### the secondary hash is positive and coprime to a prime capacity -/

theorem u64_natCast (m : Nat) : u64 (m : Int) = m := by
  unfold u64
  simp

theorem h2of_coprime (m : Nat) (hm : Nat.Prime m) (h : UInt64) :
    Nat.Coprime m (h2of m (m : Int) h) ∧ 0 < h2of m (m : Int) h := by
  have hpos := hm.pos
  have hlt : h.toNat % m < m := Nat.mod_lt _ hpos
  unfold h2of
  simp only [u64_natCast, gcdGo_eq]
  by_cases hz : h.toNat % m = 0
  · -- h2 = m, repaired to m + 1
    have hg : Nat.gcd m (m - h.toNat % m) = m := by simp [hz]
    have hm1 : m ≠ 1 := hm.one_lt.ne'
    have hb : (Nat.gcd m (m - h.toNat % m) != 1) = true := by
      rw [hg]; simpa using hm1
    rw [if_pos hb, hz, Nat.sub_zero]
    exact ⟨by simp, by omega⟩
  · have hc : Nat.Coprime m (m - h.toNat % m) := by
      rw [Nat.Prime.coprime_iff_not_dvd hm]
      intro hd
      have := Nat.le_of_dvd (by omega) hd
      omega
    have hg : Nat.gcd m (m - h.toNat % m) = 1 := hc
    have hb : ¬ (Nat.gcd m (m - h.toNat % m) != 1) = true := by
      rw [hg]; simp
    rw [if_neg hb]
    exact ⟨hc, by omega⟩

/-! ### cover lemmas -/

/-- the probe sequence in closed form (the `i = 0` case of the closure is the same formula) -/
theorem probeIdx_eq (kind : Kind) (m : Nat) (p : Int) (h : UInt64) (i : Nat) (_hm : 0 < m) :
    probeIdx kind m p h i = (h.toNat % m + (match kind with | .quad => i * i | .dbl => i * h2of m p h)) % m := by
  unfold probeIdx
  by_cases hi : i = 0
  · subst hi
    cases kind <;> simp [Nat.mod_mod]
  · cases kind <;> simp [hi]

theorem probeIdx_lt (kind : Kind) (m : Nat) (p : Int) (h : UInt64) (i : Nat) (hm : 0 < m) :
    probeIdx kind m p h i < m := by
  rw [probeIdx_eq kind m p h i hm]
  exact Nat.mod_lt _ hm

/-- **quad_cover**: for a prime `m` the first `(m+1)/2` quadratic probes hit pairwise different slots. -/
theorem quad_cover (m : Nat) (hm : Nat.Prime m) (h1 i j : Nat) (hij : i < j) (hj : 2 * j < m) :
    (h1 + i * i) % m ≠ (h1 + j * j) % m := by
  intro heq
  have h2 : i * i ≡ j * j [MOD m] := Nat.ModEq.add_left_cancel' h1 heq
  have h3 : m ∣ j * j - i * i := (Nat.modEq_iff_dvd' (Nat.mul_le_mul hij.le hij.le)).1 h2
  have h4 : j * j - i * i = (j - i) * (j + i) := by
    have := Nat.sub_add_cancel hij.le
    zify [Nat.mul_le_mul hij.le hij.le, hij.le]
    ring
  rw [h4] at h3
  rcases (Nat.Prime.dvd_mul hm).1 h3 with hd | hd
  · have := Nat.le_of_dvd (by omega) hd
    omega
  · have := Nat.le_of_dvd (by omega) hd
    omega

/-- **double_cover**: with `gcd(h2, m) = 1` the first `m` probes hit pairwise different slots. -/
theorem double_cover (m h2 : Nat) (hc : Nat.Coprime m h2) (h1 i j : Nat) (hij : i < j) (hj : j < m) :
    (h1 + i * h2) % m ≠ (h1 + j * h2) % m := by
  intro heq
  have h2' : i * h2 ≡ j * h2 [MOD m] := Nat.ModEq.add_left_cancel' h1 heq
  have h3 : m ∣ j * h2 - i * h2 := (Nat.modEq_iff_dvd' (Nat.mul_le_mul_right _ hij.le)).1 h2'
  rw [← Nat.sub_mul] at h3
  have h4 : m ∣ j - i := Nat.Coprime.dvd_of_dvd_mul_right hc h3
  have := Nat.le_of_dvd (by omega) h4
  omega

/-- **linear_cover**: the first `m` linear probes hit pairwise different slots. -/
theorem linear_cover (m h1 i j : Nat) (hij : i < j) (hj : j < m) :
    (h1 + i) % m ≠ (h1 + j) % m := by
  intro heq
  have h2 : i ≡ j [MOD m] := Nat.ModEq.add_left_cancel' h1 heq
  have h3 : m ∣ j - i := (Nat.modEq_iff_dvd' hij.le).1 h2
  have := Nat.le_of_dvd (by omega) h3
  omega

/-- number of pairwise different slots the probe sequence is known to visit -/
def cover : Kind → Nat → Nat
  | .quad, m => (m + 1) / 2
  | .dbl, m => m

theorem cover_le (kind : Kind) (m : Nat) : cover kind m ≤ m := by
  cases kind <;> simp [cover] <;> omega

/-- the probe sequence of either table is injective on `[0, cover)` -/
theorem probeIdx_inj (kind : Kind) (m : Nat) (hm : Nat.Prime m) (p : Int) (hp : kind = .dbl → p = (m : Int))
    (h : UInt64) (i j : Nat) (hij : i < j) (hj : j < cover kind m) :
    probeIdx kind m p h i ≠ probeIdx kind m p h j := by
  rw [probeIdx_eq kind m p h i hm.pos, probeIdx_eq kind m p h j hm.pos]
  cases kind with
  | quad =>
    simp only [cover] at hj
    have hodd : m % 2 = 1 ∨ m = 2 := by
      rcases Nat.Prime.eq_two_or_odd hm with h2 | h2
      · exact Or.inr h2
      · exact Or.inl h2
    apply quad_cover m hm
    · exact hij
    · rcases hodd with h2 | h2
      · omega
      · subst h2; omega
  | dbl =>
    simp only [cover] at hj
    rw [hp rfl]
    exact double_cover m _ (h2of_coprime m hm h).1 _ i j hij hj

end AlgoVerif.C02
