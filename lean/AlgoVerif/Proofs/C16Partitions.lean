import AlgoVerif.Proofs.C16Powerset
import AlgoVerif.Spec.C16
import AlgoVerif.Proofs.C16Count
/-!
# C16 helper lemmas, part 6: `Partitions`

Three levels: plain values (`=`), blocks (set objects modulo `SetEq`), partitions (unordered sets of
blocks modulo "same family of blocks" `FamEq`), and the result, an unordered set of partitions whose
`equal` callback is `Set.Equal` one level up.
-/
namespace AlgoVerif.C16
variable {α : Type} {σ : Type}

/-- same family of blocks -/
def FamEq (P Q : MSet (MSet α)) : Prop := SameR SetEq P.members Q.members

theorem famEq_equivalence : Equivalence (@FamEq α) := by
  refine ⟨fun P => ⟨fun b hb => ⟨b, hb, setEq_equivalence.refl b⟩, fun b hb => ⟨b, hb, setEq_equivalence.refl b⟩⟩,
    fun h => ⟨h.2, h.1⟩, fun h₁ h₂ => ⟨?_, ?_⟩⟩
  · intro b hb
    obtain ⟨c, hc, hcb⟩ := h₁.1 b hb
    obtain ⟨d, hd, hdc⟩ := h₂.1 c hc
    exact ⟨d, hd, setEq_equivalence.trans hdc hcb⟩
  · intro b hb
    obtain ⟨c, hc, hcb⟩ := h₂.2 b hb
    obtain ⟨d, hd, hdc⟩ := h₁.2 c hc
    exact ⟨d, hd, setEq_equivalence.trans hdc hcb⟩

/-- `Set.Equal` one level up decides `FamEq` on well-formed sets of blocks -/
theorem partEqFunc_law : EqLaw (WF1 (α := α)) FamEq partEqFunc := by
  intro a b ha hb
  exact MSet.equal_spec setEq_equivalence ha hb

/-- a well-formed set of partitions -/
abbrev WF2 (Ps : MSet (MSet (MSet α))) : Prop := WF WF1 FamEq Ps

theorem wf2_new : WF2 (MSet.new (.unordered (partEqFunc (α := α)))) :=
  ⟨by simp [MSet.new], by simp [MSet.new], partEqFunc_law, fun c hc => by cases hc⟩

/-- pairwise disjoint blocks -/
def Disj (l : List (MSet α)) : Prop := l.Pairwise (fun a b => ∀ x, x ∈ a.members → x ∉ b.members)

theorem Disj.perm {l₁ l₂ : List (MSet α)} (hp : l₁.Perm l₂) (h : Disj l₁) : Disj l₂ := by
  unfold Disj at h ⊢
  refine (hp.pairwise_iff ?_).1 h
  intro a b hab x hx hx'
  exact hab x hx' hx

theorem Disj.not_setEq {l : List (MSet α)} (h : Disj l) (hne : ∀ b ∈ l, b.members ≠ []) :
    l.Pairwise (fun a b => ¬ SetEq a b) := by
  refine List.Pairwise.imp_of_mem ?_ h
  intro a b ha _ hd hab
  obtain ⟨x, hx⟩ := List.exists_mem_of_ne_nil _ (hne a ha)
  exact hd x hx ((hab x).1 hx)

/-- the set object `P` is a partition of the members of `s` -/
structure IsPart (s : MSet α) (P : MSet (MSet α)) : Prop where
  wf : WF1 P
  impl : P.impl = .unordered setEqFunc
  nonempty : ∀ b ∈ P.members, b.members ≠ []
  disj : Disj P.members
  cover : ∀ x, x ∈ s.members ↔ ∃ b ∈ P.members, x ∈ b.members

/-! ### partitions as equivalence relations ("in the same block"), for the completeness argument -/

/-- `x` and `y` lie in one block of the partition object `P` -/
def SameBlock (P : MSet (MSet α)) (x y : α) : Prop := ∃ b ∈ P.members, x ∈ b.members ∧ y ∈ b.members

/-- `x` and `y` lie in one block of the abstract partition `F` -/
def SameBlockL (F : List (List α)) (x y : α) : Prop := ∃ b ∈ F, x ∈ b ∧ y ∈ b

theorem pairwise_mem_cases {β : Type} {R : β → β → Prop} : ∀ {l : List β}, l.Pairwise R → ∀ {a b : β},
    a ∈ l → b ∈ l → a = b ∨ R a b ∨ R b a
  | [], _, _, _, ha, _ => by cases ha
  | c :: l, h, a, b, ha, hb => by
    have h' := List.pairwise_cons.1 h
    rcases List.mem_cons.1 ha with ha' | ha'
    · rcases List.mem_cons.1 hb with hb' | hb'
      · exact .inl (ha'.trans hb'.symm)
      · exact .inr (.inl (ha' ▸ h'.1 b hb'))
    · rcases List.mem_cons.1 hb with hb' | hb'
      · exact .inr (.inr (hb' ▸ h'.1 a ha'))
      · exact pairwise_mem_cases h'.2 ha' hb'

/-- two blocks of a partition object sharing an element are the same block -/
theorem IsPart.block_unique {s : MSet α} {P : MSet (MSet α)} (hP : IsPart s P) {b b' : MSet α}
    (hb : b ∈ P.members) (hb' : b' ∈ P.members) {x : α} (hx : x ∈ b.members) (hx' : x ∈ b'.members) : b = b' := by
  rcases pairwise_mem_cases hP.disj hb hb' with h | h | h
  · exact h
  · exact absurd hx' (h x hx)
  · exact absurd hx (h x hx')

theorem isPartition_block_unique {F : List (List α)} {L : List α} (hF : Spec.IsPartition F L) {b b' : List α}
    (hb : b ∈ F) (hb' : b' ∈ F) {x : α} (hx : x ∈ b) (hx' : x ∈ b') : b = b' := by
  rcases pairwise_mem_cases hF.2.1 hb hb' with h | h | h
  · exact h
  · exact absurd hx' (h x hx)
  · exact absurd hx (h x hx')

theorem SameBlockL.symm {F : List (List α)} {x y : α} : SameBlockL F x y → SameBlockL F y x :=
  fun ⟨b, hb, hx, hy⟩ => ⟨b, hb, hy, hx⟩

theorem SameBlockL.trans {F : List (List α)} {L : List α} (hF : Spec.IsPartition F L) {x y z : α} :
    SameBlockL F x y → SameBlockL F y z → SameBlockL F x z := by
  rintro ⟨b, hb, hx, hy⟩ ⟨b', hb', hy', hz⟩
  have := isPartition_block_unique hF hb hb' hy hy'
  subst this
  exact ⟨b, hb, hx, hz⟩

theorem SameBlockL.refl {F : List (List α)} {L : List α} (hF : Spec.IsPartition F L) {x : α} (hx : x ∈ L) :
    SameBlockL F x x := by
  obtain ⟨b, hb, hxb⟩ := (hF.2.2 x).1 hx
  exact ⟨b, hb, hxb, hxb⟩

theorem SameBlockL.mem {F : List (List α)} {L : List α} (hF : Spec.IsPartition F L) {x y : α}
    (h : SameBlockL F x y) : x ∈ L ∧ y ∈ L := by
  obtain ⟨b, hb, hx, hy⟩ := h
  exact ⟨(hF.2.2 x).2 ⟨b, hb, hx⟩, (hF.2.2 y).2 ⟨b, hb, hy⟩⟩

/-- a block of a partition object is the class of any of its elements -/
theorem IsPart.mem_block_iff {s : MSet α} {P : MSet (MSet α)} (hP : IsPart s P) {b : MSet α}
    (hb : b ∈ P.members) {y : α} (hy : y ∈ b.members) (x : α) : x ∈ b.members ↔ SameBlock P y x := by
  constructor
  · exact fun hx => ⟨b, hb, hy, hx⟩
  · rintro ⟨b', hb', hy', hx⟩
    rw [hP.block_unique hb hb' hy hy']
    exact hx

/-- `FamEq` partition objects induce the same relation -/
theorem FamEq.sameBlock {P Q : MSet (MSet α)} (h : FamEq P Q) (x y : α) : SameBlock P x y ↔ SameBlock Q x y := by
  constructor
  · rintro ⟨b, hb, hx, hy⟩
    obtain ⟨c, hc, hcb⟩ := h.1 b hb
    exact ⟨c, hc, (hcb x).2 hx, (hcb y).2 hy⟩
  · rintro ⟨b, hb, hx, hy⟩
    obtain ⟨c, hc, hcb⟩ := h.2 b hb
    exact ⟨c, hc, (hcb x).2 hx, (hcb y).2 hy⟩

/-- a partition object and an abstract partition of the same set inducing the same relation consist of
the same blocks -/
theorem sameFamily_of_sameBlock {s : MSet α} {P : MSet (MSet α)} (hP : IsPart s P) {F : List (List α)}
    (hF : Spec.IsPartition F s.members) (h : ∀ x y, SameBlock P x y ↔ SameBlockL F x y) :
    Spec.SameFamily (P.members.map (·.members)) F := by
  constructor
  · intro l hl
    obtain ⟨b, hb, rfl⟩ := List.mem_map.1 hl
    obtain ⟨x, hx⟩ := List.exists_mem_of_ne_nil _ (hP.nonempty b hb)
    obtain ⟨f, hf, hxf⟩ := (hF.2.2 x).1 ((hP.cover x).2 ⟨b, hb, hx⟩)
    refine ⟨f, hf, fun y => ?_⟩
    constructor
    · intro hy
      obtain ⟨f', hf', hxf', hyf'⟩ := (h x y).1 ⟨b, hb, hx, hy⟩
      rw [isPartition_block_unique hF hf hf' hxf hxf']
      exact hyf'
    · intro hy
      obtain ⟨b', hb', hxb', hyb'⟩ := (h x y).2 ⟨f, hf, hxf, hy⟩
      rw [hP.block_unique hb hb' hx hxb']
      exact hyb'
  · intro f hf
    obtain ⟨x, hx⟩ := List.exists_mem_of_ne_nil _ (hF.1 f hf).1
    obtain ⟨b, hb, hxb⟩ := (hP.cover x).1 ((hF.2.2 x).2 ⟨f, hf, hx⟩)
    refine ⟨b.members, List.mem_map.2 ⟨b, hb, rfl⟩, fun y => ?_⟩
    constructor
    · intro hy
      obtain ⟨b', hb', hxb', hyb'⟩ := (h x y).2 ⟨f, hf, hx, hy⟩
      rw [hP.block_unique hb hb' hxb hxb']
      exact hyb'
    · intro hy
      obtain ⟨f', hf', hxf', hyf'⟩ := (h x y).1 ⟨b, hb, hxb, hy⟩
      rw [isPartition_block_unique hF hf hf' hx hxf']
      exact hyf'

/-- cut `m0` out of an abstract partition: remove it from its block and drop the block if it becomes empty -/
def cutOut [DecidableEq α] (m0 : α) (F : List (List α)) : List (List α) :=
  (F.map (fun b => b.filter (fun x => decide (x ≠ m0)))).filter (fun b => !b.isEmpty)

theorem mem_cutOut [DecidableEq α] {m0 : α} {F : List (List α)} {b' : List α} :
    b' ∈ cutOut m0 F ↔ b' ≠ [] ∧ ∃ b ∈ F, b' = b.filter (fun x => decide (x ≠ m0)) := by
  simp only [cutOut, List.mem_filter, List.mem_map, Bool.not_eq_eq_eq_not, Bool.not_true, List.isEmpty_eq_false_iff]
  constructor
  · rintro ⟨⟨b, hb, rfl⟩, hne⟩; exact ⟨hne, b, hb, rfl⟩
  · rintro ⟨hne, b, hb, rfl⟩; exact ⟨⟨b, hb, rfl⟩, hne⟩

theorem cutOut_partition [DecidableEq α] {F : List (List α)} {L T : List α} {m0 : α} (hF : Spec.IsPartition F L)
    (hT : ∀ x, x ∈ T ↔ x ∈ L ∧ x ≠ m0) :
    Spec.IsPartition (cutOut m0 F) T ∧
      ∀ x y, SameBlockL (cutOut m0 F) x y ↔ SameBlockL F x y ∧ x ≠ m0 ∧ y ≠ m0 := by
  refine ⟨⟨?_, ?_, ?_⟩, ?_⟩
  · intro b' hb'
    obtain ⟨hne, b, hb, rfl⟩ := mem_cutOut.1 hb'
    exact ⟨hne, List.Pairwise.sublist List.filter_sublist (hF.1 b hb).2⟩
  · unfold cutOut
    refine List.Pairwise.filter _ (List.Pairwise.map _ ?_ hF.2.1)
    intro a b hab x hxa hxb
    exact hab x (List.mem_filter.1 hxa).1 (List.mem_filter.1 hxb).1
  · intro x
    rw [hT, hF.2.2]
    constructor
    · rintro ⟨⟨b, hb, hxb⟩, hne⟩
      refine ⟨b.filter (fun x => decide (x ≠ m0)), mem_cutOut.2 ⟨?_, b, hb, rfl⟩, ?_⟩
      · exact List.ne_nil_of_mem (List.mem_filter.2 ⟨hxb, by simpa using hne⟩)
      · exact List.mem_filter.2 ⟨hxb, by simpa using hne⟩
    · rintro ⟨b', hb', hxb'⟩
      obtain ⟨_, b, hb, rfl⟩ := mem_cutOut.1 hb'
      have := List.mem_filter.1 hxb'
      exact ⟨⟨b, hb, this.1⟩, by simpa using this.2⟩
  · intro x y
    constructor
    · rintro ⟨b', hb', hx, hy⟩
      obtain ⟨_, b, hb, rfl⟩ := mem_cutOut.1 hb'
      have hx' := List.mem_filter.1 hx
      have hy' := List.mem_filter.1 hy
      exact ⟨⟨b, hb, hx'.1, hy'.1⟩, by simpa using hx'.2, by simpa using hy'.2⟩
    · rintro ⟨⟨b, hb, hx, hy⟩, hxne, hyne⟩
      have hx' : x ∈ b.filter (fun x => decide (x ≠ m0)) := List.mem_filter.2 ⟨hx, by simpa using hxne⟩
      have hy' : y ∈ b.filter (fun x => decide (x ≠ m0)) := List.mem_filter.2 ⟨hy, by simpa using hyne⟩
      exact ⟨_, mem_cutOut.2 ⟨List.ne_nil_of_mem hx', b, hb, rfl⟩, hx', hy'⟩

/-- adding a list of pairwise different new blocks to an unordered set of blocks appends them -/
theorem addAll_new_unordered : ∀ (vs : List (MSet α)) (PS : MSet (MSet α)), WF1 PS →
    PS.impl = .unordered setEqFunc → (∀ T ∈ vs, WF0 T) → (∀ Y ∈ PS.members, ∀ T ∈ vs, ¬ SetEq Y T) →
    vs.Pairwise (fun a b => ¬ SetEq a b) →
    ∃ PS', PS.add vs = .ok PS' ∧ WF1 PS' ∧ PS'.impl = PS.impl ∧ PS'.members = PS.members ++ vs
  | [], PS, h, _, _, _, _ => ⟨PS, rfl, h, rfl, by simp⟩
  | v :: vs, PS, h, himpl, hwf, hnew, hpw => by
    have hpw' := List.pairwise_cons.1 hpw
    obtain ⟨PS₁, h₁, hw₁, hi₁, hm₁⟩ := add_new_unordered h himpl (hwf v (List.mem_cons_self ..))
      (fun Y hY => hnew Y hY v (List.mem_cons_self ..))
    rw [MSet.add_singleton] at h₁
    obtain ⟨PS₂, h₂, hw₂, hi₂, hm₂⟩ := addAll_new_unordered vs PS₁ hw₁ (hi₁.trans himpl)
      (fun T hT => hwf T (List.mem_cons_of_mem _ hT)) (by
        intro Y hY T hT
        rw [hm₁] at hY
        rcases List.mem_append.1 hY with hY | hY
        · exact hnew Y hY T (List.mem_cons_of_mem _ hT)
        · simp at hY; subst hY; exact hpw'.1 T hT) hpw'.2
    exact ⟨PS₂, by simp [MSet.add, h₁, h₂], hw₂, hi₂.trans hi₁, by rw [hm₂, hm₁]; simp⟩

/-- `Ps.Add(Q)` on the unordered set of partitions: `Q` is there afterwards (modulo `FamEq`), nothing
else is new -/
theorem add_partition {Ps : MSet (MSet (MSet α))} (h : WF2 Ps) (himpl : Ps.impl = .unordered partEqFunc)
    {Q : MSet (MSet α)} (hQ : WF1 Q) :
    ∃ Ps', Ps.add [Q] = .ok Ps' ∧ WF2 Ps' ∧ Ps'.impl = Ps.impl ∧
      (∀ Y ∈ Ps.members, Y ∈ Ps'.members) ∧ (∀ Y ∈ Ps'.members, Y ∈ Ps.members ∨ Y = Q) ∧
      MemR FamEq Q Ps'.members ∧
      ((∀ Y ∈ Ps.members, ¬ FamEq Y Q) → Ps'.members = Ps.members ++ [Q]) := by
  obtain ⟨Ps', h₁, hw, hi, hcase⟩ := MSet.add1_spec famEq_equivalence h hQ
  refine ⟨Ps', by rw [MSet.add_singleton]; exact h₁, hw, hi, ?_⟩
  rcases hcase with ⟨hm, rfl⟩ | ⟨_, l₁, l₂, hs, hs', hl⟩
  · refine ⟨fun _ h => h, fun _ h => .inl h, hm, fun hnew => ?_⟩
    obtain ⟨Y, hY, hYQ⟩ := hm
    exact absurd hYQ (hnew Y hY)
  · have : l₂ = [] := hl (by rw [himpl]; rfl)
    subst this
    simp only [List.append_nil] at hs
    subst hs
    refine ⟨fun Y hY => by rw [hs']; exact List.mem_append_left _ hY, fun Y hY => ?_,
      ⟨Q, by rw [hs']; simp, famEq_equivalence.refl Q⟩, fun _ => hs'⟩
    rw [hs'] at hY
    rcases List.mem_append.1 hY with hY | hY
    · exact .inl hY
    · simp at hY; exact .inr hY

/-! ### what is needed to count: no `Ps.Add(Q)` of the two loops meets a partition that is already there -/

/-- "in the same block" for a list of blocks (`SameBlock P` is `SameBlockOf P.members`) -/
def SameBlockOf (l : List (MSet α)) (x y : α) : Prop := ∃ b ∈ l, x ∈ b.members ∧ y ∈ b.members

theorem sameBlockOf_perm {l₁ l₂ : List (MSet α)} (hp : l₁.Perm l₂) (x y : α) :
    SameBlockOf l₁ x y ↔ SameBlockOf l₂ x y :=
  ⟨fun ⟨b, hb, h⟩ => ⟨b, hp.subset hb, h⟩, fun ⟨b, hb, h⟩ => ⟨b, hp.symm.subset hb, h⟩⟩

/-- with `m0` taken out, the partition object `Y` consists of the blocks `L` -/
def RestrIs (m0 : α) (Y : MSet (MSet α)) (L : List (MSet α)) : Prop :=
  ∀ x y, (SameBlock Y x y ∧ x ≠ m0 ∧ y ≠ m0) ↔ SameBlockOf L x y

theorem RestrIs.famEq {m0 : α} {Y Q : MSet (MSet α)} {L : List (MSet α)} (h : FamEq Y Q) (hQ : RestrIs m0 Q L) :
    RestrIs m0 Y L := by
  intro x y
  rw [h.sameBlock x y]
  exact hQ x y

theorem RestrIs.perm {m0 : α} {Y : MSet (MSet α)} {L L' : List (MSet α)} (hp : L.Perm L') (h : RestrIs m0 Y L) :
    RestrIs m0 Y L' := fun x y => (h x y).trans (sameBlockOf_perm hp x y)

/-- two partition objects of the same set inducing the same relation consist of the same blocks -/
theorem famEq_of_sameBlock {s : MSet α} {P Q : MSet (MSet α)} (hP : IsPart s P) (hQ : IsPart s Q)
    (h : ∀ x y, SameBlock P x y ↔ SameBlock Q x y) : FamEq P Q := by
  have key : ∀ {P Q : MSet (MSet α)}, IsPart s P → IsPart s Q → (∀ x y, SameBlock P x y ↔ SameBlock Q x y) →
      SubR SetEq P.members Q.members := by
    intro P Q hP hQ h b hb
    obtain ⟨x, hx⟩ := List.exists_mem_of_ne_nil _ (hP.nonempty b hb)
    obtain ⟨c, hc, hxc⟩ := (hQ.cover x).1 ((hP.cover x).2 ⟨b, hb, hx⟩)
    refine ⟨c, hc, fun y => ?_⟩
    constructor
    · intro hy
      obtain ⟨b', hb', hxb', hyb'⟩ := (h x y).2 ⟨c, hc, hxc, hy⟩
      rw [hP.block_unique hb hb' hx hxb']
      exact hyb'
    · intro hy
      obtain ⟨c', hc', hxc', hyc'⟩ := (h x y).1 ⟨b, hb, hx, hy⟩
      rw [hQ.block_unique hc hc' hxc hxc']
      exact hyc'
  exact ⟨key hP hQ h, key hQ hP (fun x y => (h x y).symm)⟩

/-- number of partition objects with `k` blocks -/
def blk (k : Nat) (l : List (MSet (MSet α))) : Nat := l.countP (fun P => P.members.length == k)

/-- what the outer loop adds, counted by number of blocks: for every partition `P` of the tail one
partition with one block more and `|P|` partitions with as many blocks as `P` -/
def expCnt (k : Nat) (todo : List (MSet (MSet α))) : Nat :=
  (todo.map (fun P => (if P.members.length + 1 = k then 1 else 0) +
    (if P.members.length = k then P.members.length else 0))).sum

theorem expCnt_zero (todo : List (MSet (MSet α))) : expCnt 0 todo = 0 := by
  induction todo with
  | nil => rfl
  | cons P rest ih =>
    simp only [expCnt, List.map_cons, List.sum_cons] at ih ⊢
    rw [ih]
    by_cases h : P.members.length = 0 <;> simp [h]

theorem expCnt_succ (j : Nat) (todo : List (MSet (MSet α))) :
    expCnt (j + 1) todo = blk j todo + (j + 1) * blk (j + 1) todo := by
  induction todo with
  | nil => simp [expCnt, blk]
  | cons P rest ih =>
    simp only [expCnt, List.map_cons, List.sum_cons, blk, List.countP_cons] at ih ⊢
    rw [ih]
    by_cases h₁ : P.members.length = j
    · have h₂ : ¬ P.members.length = j + 1 := by omega
      simp [h₁, h₂]
      omega
    · by_cases h₂ : P.members.length = j + 1
      · simp [h₁, h₂, Nat.mul_add]
        omega
      · simp [h₁, h₂]

section
variable {sh : Shuffle σ} (hsh : ShLaw sh) {s head : MSet α} (hh : WF0 head) {m0 : α}
  (hhm : ∀ x, x ∈ head.members ↔ x = m0)
include hsh hh hhm

/-- the blocks `before ++ b :: after` partition everything of `s` but `m0`; the inner loop of
`Partitions` adds, for every position, the family with `m0` put into the block at that position -/
theorem partitionsInner_spec : ∀ (after before : List (MSet α)) (Ps : MSet (MSet (MSet α))), WF2 Ps →
    Ps.impl = .unordered partEqFunc →
    (∀ b ∈ before ++ after, WF0 b) → (∀ b ∈ before ++ after, b.members ≠ []) → Disj (before ++ after) →
    (∀ x, x ∈ s.members ↔ x = m0 ∨ ∃ b ∈ before ++ after, x ∈ b.members) →
    (∀ b ∈ before ++ after, m0 ∉ b.members) →
    (∀ Y ∈ Ps.members, RestrIs m0 Y (before ++ after) →
      ∀ y, SameBlock Y m0 y → y = m0 ∨ ∃ c ∈ before, y ∈ c.members) →
    ∀ g, ∃ Ps' g', partitionsInner sh head Ps before after g = .ok (Ps', g') ∧ WF2 Ps' ∧ Ps'.impl = Ps.impl ∧
      (∀ Y ∈ Ps.members, Y ∈ Ps'.members) ∧ (∀ Y ∈ Ps'.members, Y ∈ Ps.members ∨ IsPart s Y) ∧
      (∀ a₁ b a₂, after = a₁ ++ b :: a₂ → ∃ Q u, MemR FamEq Q Ps'.members ∧
          Q.members = (before ++ a₁) ++ u :: a₂ ∧ ∀ x, x ∈ u.members ↔ x = m0 ∨ x ∈ b.members) ∧
      (∃ Qs, Ps'.members = Ps.members ++ Qs ∧ Qs.length = after.length ∧
        ∀ Q ∈ Qs, Q.members.length = (before ++ after).length ∧ RestrIs m0 Q (before ++ after))
  | [], before, Ps, hPs, _, _, _, _, _, _, _, g =>
    ⟨Ps, g, rfl, hPs, rfl, fun _ h => h, fun _ h => .inl h, by simp, [], by simp, rfl, by simp⟩
  | b :: after, before, Ps, hPs, himpl, hwf, hne, hdisj, hcover, hm0, hcls, g => by
    have hb : b ∈ before ++ b :: after := by simp
    -- head.Union(Pmembers[i])
    obtain ⟨u, g₁, hu, hwu, _, hmu, _⟩ := MSet.union_spec0 hsh hh [b] g
    have hmu' : ∀ x, x ∈ u.members ↔ x = m0 ∨ x ∈ b.members := by
      intro x; rw [hmu, hhm]; simp
    have hdisj' := List.pairwise_append.1 hdisj
    have hdisj'' := List.pairwise_cons.1 hdisj'.2.1
    -- the family before ++ u :: after
    have hfam_wf : ∀ c ∈ before ++ u :: after, WF0 c := by
      intro c hc
      rcases List.mem_append.1 hc with hc | hc
      · exact hwf c (by simp [hc])
      · rcases List.mem_cons.1 hc with rfl | hc
        · exact hwu
        · exact hwf c (by simp [hc])
    have hfam_ne : ∀ c ∈ before ++ u :: after, c.members ≠ [] := by
      intro c hc
      rcases List.mem_append.1 hc with hc | hc
      · exact hne c (by simp [hc])
      · rcases List.mem_cons.1 hc with rfl | hc
        · exact List.ne_nil_of_mem ((hmu' m0).2 (.inl rfl))
        · exact hne c (by simp [hc])
    have hfam_disj : Disj (before ++ u :: after) := by
      refine List.pairwise_append.2 ⟨hdisj'.1, List.pairwise_cons.2 ⟨?_, hdisj''.2⟩, ?_⟩
      · intro c hc x hx hxc
        rcases (hmu' x).1 hx with rfl | hxb
        · exact hm0 c (by simp [hc]) hxc
        · exact hdisj''.1 c hc x hxb hxc
      · intro a ha c hc x hxa hxc
        rcases List.mem_cons.1 hc with rfl | hc
        · rcases (hmu' x).1 hxc with rfl | hxb
          · exact hm0 a (by simp [ha]) hxa
          · exact hdisj'.2.2 a ha b (List.mem_cons_self ..) x hxa hxb
        · exact hdisj'.2.2 a ha c (List.mem_cons_of_mem _ hc) x hxa hxc
    have hfam_pw := hfam_disj.not_setEq hfam_ne
    have hfam_pw' := List.pairwise_append.1 hfam_pw
    have hfam_pw'' := List.pairwise_cons.1 hfam_pw'.2.1
    -- Q := New(setEqFunc); Q.Add(Pmembers[0:i]...); Q.Add(head.Union(Pmembers[i])); Q.Add(Pmembers[i+1:]...)
    obtain ⟨Q₁, hq₁, hqw₁, hqi₁, hqm₁⟩ := addAll_new_unordered before (MSet.new (.unordered setEqFunc)) wf1_new rfl
      (fun c hc => hfam_wf c (by simp [hc])) (by simp [MSet.new]) hfam_pw'.1
    obtain ⟨Q₂, hq₂, hqw₂, hqi₂, hqm₂⟩ := add_new_unordered hqw₁ hqi₁ hwu (by
      intro Y hY
      rw [hqm₁] at hY; simp [MSet.new] at hY
      exact hfam_pw'.2.2 Y hY u (List.mem_cons_self ..))
    obtain ⟨Q₃, hq₃, hqw₃, hqi₃, hqm₃⟩ := addAll_new_unordered after Q₂ hqw₂ (hqi₂.trans hqi₁)
      (fun c hc => hfam_wf c (by simp [hc])) (by
        intro Y hY T hT
        rw [hqm₂, hqm₁] at hY; simp [MSet.new] at hY
        rcases hY with hY | rfl
        · exact hfam_pw'.2.2 Y hY T (List.mem_cons_of_mem _ hT)
        · exact hfam_pw''.1 T hT) hfam_pw''.2
    have hQm : Q₃.members = before ++ u :: after := by rw [hqm₃, hqm₂, hqm₁]; simp [MSet.new]
    have hQpart : IsPart s Q₃ := by
      refine ⟨hqw₃, (hqi₃.trans hqi₂).trans hqi₁, by rw [hQm]; exact hfam_ne, by rw [hQm]; exact hfam_disj, ?_⟩
      intro x
      rw [hcover, hQm]
      constructor
      · rintro (rfl | ⟨c, hc, hxc⟩)
        · exact ⟨u, by simp, (hmu' x).2 (.inl rfl)⟩
        · rcases List.mem_append.1 hc with hc | hc
          · exact ⟨c, by simp [hc], hxc⟩
          · rcases List.mem_cons.1 hc with rfl | hc
            · exact ⟨u, by simp, (hmu' x).2 (.inr hxc)⟩
            · exact ⟨c, by simp [hc], hxc⟩
      · rintro ⟨c, hc, hxc⟩
        rcases List.mem_append.1 hc with hc | hc
        · exact .inr ⟨c, by simp [hc], hxc⟩
        · rcases List.mem_cons.1 hc with rfl | hc
          · rcases (hmu' x).1 hxc with rfl | hxb
            · exact .inl rfl
            · exact .inr ⟨b, hb, hxb⟩
          · exact .inr ⟨c, by simp [hc], hxc⟩
    -- without m0 the new partition is the old one; the block of m0 in it is m0 together with b
    have hR : RestrIs m0 Q₃ (before ++ b :: after) := by
      intro x y
      constructor
      · rintro ⟨⟨c, hc, hxc, hyc⟩, hx, hy⟩
        rw [hQm] at hc
        rcases List.mem_append.1 hc with hc | hc
        · exact ⟨c, by simp [hc], hxc, hyc⟩
        · rcases List.mem_cons.1 hc with rfl | hc
          · refine ⟨b, hb, ?_, ?_⟩
            · exact ((hmu' x).1 hxc).resolve_left hx
            · exact ((hmu' y).1 hyc).resolve_left hy
          · exact ⟨c, by simp [hc], hxc, hyc⟩
      · rintro ⟨c, hc, hxc, hyc⟩
        have hx : x ≠ m0 := fun h => hm0 c hc (h ▸ hxc)
        have hy : y ≠ m0 := fun h => hm0 c hc (h ▸ hyc)
        refine ⟨?_, hx, hy⟩
        rcases List.mem_append.1 hc with hc' | hc'
        · exact ⟨c, by rw [hQm]; simp [hc'], hxc, hyc⟩
        · rcases List.mem_cons.1 hc' with rfl | hc'
          · exact ⟨u, by rw [hQm]; simp, (hmu' x).2 (.inr hxc), (hmu' y).2 (.inr hyc)⟩
          · exact ⟨c, by rw [hQm]; simp [hc'], hxc, hyc⟩
    have hC : ∀ y, SameBlock Q₃ m0 y → y = m0 ∨ y ∈ b.members := by
      rintro y ⟨c, hc, hmc, hyc⟩
      rw [hQm] at hc
      rcases List.mem_append.1 hc with hc | hc
      · exact absurd hmc (hm0 c (by simp [hc]))
      · rcases List.mem_cons.1 hc with rfl | hc
        · exact (hmu' y).1 hyc
        · exact absurd hmc (hm0 c (by simp [hc]))
    have hnew : ∀ Y ∈ Ps.members, ¬ FamEq Y Q₃ := by
      intro Y hY hF
      obtain ⟨y, hy⟩ := List.exists_mem_of_ne_nil _ (hne b hb)
      have hYm : SameBlock Y m0 y :=
        (hF.sameBlock m0 y).2 ⟨u, by rw [hQm]; simp, (hmu' m0).2 (.inl rfl), (hmu' y).2 (.inr hy)⟩
      rcases hcls Y hY (RestrIs.famEq hF hR) y hYm with rfl | ⟨c, hc, hyc⟩
      · exact hm0 b hb hy
      · exact hdisj'.2.2 c hc b (List.mem_cons_self ..) y hyc hy
    -- Ps.Add(Q)
    obtain ⟨Ps₁, hp₁, hpw₁, hpi₁, hkeep₁, hfrom₁, hin₁, hnew₁⟩ := add_partition hPs himpl hqw₃
    have hmem₁ := hnew₁ hnew
    -- the remaining positions
    have hrw : (before ++ [b]) ++ after = before ++ b :: after := by simp
    obtain ⟨Ps', g', h', hw', hi', hkeep', hfrom', hrep', Qs, hQs, hQslen, hQsall⟩ :=
      partitionsInner_spec after (before ++ [b]) Ps₁ hpw₁ (hpi₁.trans himpl)
        (by rw [hrw]; exact hwf) (by rw [hrw]; exact hne) (by rw [hrw]; exact hdisj)
        (by rw [hrw]; exact hcover) (by rw [hrw]; exact hm0) (by
          intro Y hY hRY y hYm
          rw [hrw] at hRY
          rw [hmem₁] at hY
          rcases List.mem_append.1 hY with hY | hY
          · rcases hcls Y hY hRY y hYm with h | ⟨c, hc, hyc⟩
            · exact .inl h
            · exact .inr ⟨c, by simp [hc], hyc⟩
          · simp at hY; subst hY
            rcases hC y hYm with h | h
            · exact .inl h
            · exact .inr ⟨b, by simp, h⟩) g₁
    refine ⟨Ps', g', ?_, hw', hi'.trans hpi₁, fun Y hY => hkeep' Y (hkeep₁ Y hY), ?_, ?_,
      Q₃ :: Qs, by rw [hQs, hmem₁]; simp, by simp [hQslen], ?_⟩
    rotate_right
    · intro Q hQ
      rcases List.mem_cons.1 hQ with rfl | hQ
      · exact ⟨by rw [hQm]; simp, hR⟩
      · have := hQsall Q hQ
        rw [hrw] at this
        exact this
    · simp [partitionsInner, hq₁, hu, hq₂, hq₃, hp₁, h']
    · intro Y hY
      rcases hfrom' Y hY with hY | hY
      · rcases hfrom₁ Y hY with hY | rfl
        · exact .inl hY
        · exact .inr hQpart
      · exact .inr hY
    · intro a₁ b' a₂ hsplit
      cases a₁ with
      | nil =>
        simp only [List.nil_append, List.cons.injEq] at hsplit
        obtain ⟨rfl, rfl⟩ := hsplit
        obtain ⟨Y, hY, hYQ⟩ := hin₁
        exact ⟨Q₃, u, ⟨Y, hkeep' Y hY, hYQ⟩, by simpa using hQm, hmu'⟩
      | cons c a₁ =>
        simp only [List.cons_append, List.cons.injEq] at hsplit
        obtain ⟨rfl, rfl⟩ := hsplit
        obtain ⟨Q, u', hQ, hQm', hu'⟩ := hrep' a₁ b' a₂ rfl
        exact ⟨Q, u', hQ, by simpa using hQm', hu'⟩

/-- the outer loop of `Partitions` over the (shuffled) partitions of `tail` -/
theorem partitionsLoop_spec {tail : MSet α} (hst : ∀ x, x ∈ s.members ↔ x = m0 ∨ x ∈ tail.members)
    (hm0t : m0 ∉ tail.members) :
    ∀ (todo : List (MSet (MSet α))) (Ps : MSet (MSet (MSet α))), WF2 Ps → Ps.impl = .unordered partEqFunc →
    (∀ P ∈ todo, IsPart tail P) →
    (∀ Y ∈ Ps.members, ∀ P ∈ todo, ¬ RestrIs m0 Y P.members) →
    todo.Pairwise (fun P P' => ¬ ∀ x y, SameBlock P x y ↔ SameBlock P' x y) →
    ∀ g, ∃ Ps' g', partitionsLoop sh head Ps todo g = .ok (Ps', g') ∧ WF2 Ps' ∧ Ps'.impl = Ps.impl ∧
      (∀ Y ∈ Ps.members, Y ∈ Ps'.members) ∧ (∀ Y ∈ Ps'.members, Y ∈ Ps.members ∨ IsPart s Y) ∧
      (∀ P ∈ todo,
        (∃ Q, MemR FamEq Q Ps'.members ∧ ∃ Pm, Pm.Perm P.members ∧ Q.members = head :: Pm) ∧
        (∀ b ∈ P.members, ∃ Q u a₁ a₂, MemR FamEq Q Ps'.members ∧ (a₁ ++ b :: a₂).Perm P.members ∧
          Q.members = a₁ ++ u :: a₂ ∧ ∀ x, x ∈ u.members ↔ x = m0 ∨ x ∈ b.members)) ∧
      (∃ New, Ps'.members = Ps.members ++ New ∧
        (∀ Y ∈ New, ∃ P ∈ todo, RestrIs m0 Y P.members ∧
          (Y.members.length = P.members.length + 1 ∨ Y.members.length = P.members.length)) ∧
        ∀ k, blk k New = expCnt k todo)
  | [], Ps, hPs, _, _, _, _, g =>
    ⟨Ps, g, rfl, hPs, rfl, fun _ h => h, fun _ h => .inl h, by simp, [], by simp, by simp, fun _ => rfl⟩
  | P :: rest, Ps, hPs, himpl, hparts, hfresh, hpw, g => by
    have hP := hparts P (List.mem_cons_self ..)
    -- Pmembers := Collect1(P.All())
    obtain ⟨Pm, g₁, hall, hperm, _⟩ := MSet.all_spec hsh P g
    have hPm_wf : ∀ b ∈ Pm, WF0 b := fun b hb => hP.wf.mem_dom b (hperm.subset hb)
    have hPm_ne : ∀ b ∈ Pm, b.members ≠ [] := fun b hb => hP.nonempty b (hperm.subset hb)
    have hPm_disj : Disj Pm := hP.disj.perm hperm.symm
    have hPm_m0 : ∀ b ∈ Pm, m0 ∉ b.members := fun b hb hm =>
      hm0t ((hP.cover m0).2 ⟨b, hperm.subset hb, hm⟩)
    have hPm_cover : ∀ x, x ∈ s.members ↔ x = m0 ∨ ∃ b ∈ Pm, x ∈ b.members := by
      intro x
      rw [hst, hP.cover]
      constructor
      · rintro (h | ⟨b, hb, hx⟩)
        · exact .inl h
        · exact .inr ⟨b, hperm.symm.subset hb, hx⟩
      · rintro (h | ⟨b, hb, hx⟩)
        · exact .inl h
        · exact .inr ⟨b, hperm.subset hb, hx⟩
    -- Q := New(setEqFunc); Q.Add(head.Clone()); Q.Add(Pmembers...)
    have hfam_disj : Disj (head :: Pm) := by
      refine List.pairwise_cons.2 ⟨?_, hPm_disj⟩
      intro c hc x hx hxc
      rw [(hhm x).1 hx] at hxc
      exact hPm_m0 c hc hxc
    have hfam_ne : ∀ c ∈ head :: Pm, c.members ≠ [] := by
      intro c hc
      rcases List.mem_cons.1 hc with rfl | hc
      · exact List.ne_nil_of_mem ((hhm m0).2 rfl)
      · exact hPm_ne c hc
    have hfam_pw := List.pairwise_cons.1 (hfam_disj.not_setEq hfam_ne)
    obtain ⟨Q₁, hq₁, hqw₁, hqi₁, hqm₁⟩ := add_new_unordered wf1_new rfl (T := head.clone) hh (by simp [MSet.new])
    obtain ⟨Q₂, hq₂, hqw₂, hqi₂, hqm₂⟩ := addAll_new_unordered Pm Q₁ hqw₁ hqi₁ hPm_wf (by
      intro Y hY T hT
      rw [hqm₁] at hY; simp [MSet.new] at hY; subst hY
      exact hfam_pw.1 T hT) hfam_pw.2
    have hQm : Q₂.members = head :: Pm := by rw [hqm₂, hqm₁]; simp [MSet.new, MSet.clone]
    have hQpart : IsPart s Q₂ := by
      refine ⟨hqw₂, hqi₂.trans hqi₁, by rw [hQm]; exact hfam_ne, by rw [hQm]; exact hfam_disj, ?_⟩
      intro x
      rw [hPm_cover, hQm]
      simp only [List.mem_cons, exists_eq_or_imp, hhm]
    have hpw' := List.pairwise_cons.1 hpw
    -- without m0 the new partition is P; m0 is alone in its block
    have hR0 : RestrIs m0 Q₂ P.members := by
      refine RestrIs.perm hperm ?_
      intro x y
      constructor
      · rintro ⟨⟨c, hc, hxc, hyc⟩, hx, _⟩
        rw [hQm] at hc
        rcases List.mem_cons.1 hc with rfl | hc
        · exact absurd ((hhm x).1 hxc) hx
        · exact ⟨c, hc, hxc, hyc⟩
      · rintro ⟨c, hc, hxc, hyc⟩
        exact ⟨⟨c, by rw [hQm]; exact List.mem_cons_of_mem _ hc, hxc, hyc⟩,
          fun h => hPm_m0 c hc (h ▸ hxc), fun h => hPm_m0 c hc (h ▸ hyc)⟩
    have hC0 : ∀ y, SameBlock Q₂ m0 y → y = m0 := by
      rintro y ⟨c, hc, hmc, hyc⟩
      rw [hQm] at hc
      rcases List.mem_cons.1 hc with rfl | hc
      · exact (hhm y).1 hyc
      · exact absurd hmc (hPm_m0 c hc)
    have hnew0 : ∀ Y ∈ Ps.members, ¬ FamEq Y Q₂ := fun Y hY hF =>
      hfresh Y hY P (List.mem_cons_self ..) (RestrIs.famEq hF hR0)
    -- Ps.Add(Q)
    obtain ⟨Ps₁, hp₁, hpw₁, hpi₁, hkeep₁, hfrom₁, hin₁, hnew₁⟩ := add_partition hPs himpl hqw₂
    have hmem₁ := hnew₁ hnew0
    -- inner loop
    obtain ⟨Ps₂, g₂, hin, hpw₂, hpi₂, hkeep₂, hfrom₂, hrep₂, Qs, hQs, hQslen, hQsall⟩ :=
      partitionsInner_spec hsh hh hhm Pm [] Ps₁ hpw₁ (hpi₁.trans himpl) (by simpa using hPm_wf)
        (by simpa using hPm_ne) (by simpa using hPm_disj) (by simpa using hPm_cover) (by simpa using hPm_m0) (by
          intro Y hY hRY y hYm
          simp only [List.nil_append] at hRY
          rw [hmem₁] at hY
          rcases List.mem_append.1 hY with hY | hY
          · exact absurd (RestrIs.perm hperm hRY) (hfresh Y hY P (List.mem_cons_self ..))
          · simp at hY; subst hY
            exact .inl (hC0 y hYm)) g₁
    simp only [List.nil_append] at hQsall
    -- the other partitions
    have hfresh₂ : ∀ Y ∈ Ps₂.members, ∀ P' ∈ rest, ¬ RestrIs m0 Y P'.members := by
      intro Y hY P' hP' hRY'
      have hfromP : RestrIs m0 Y P.members → False := by
        intro hRY
        exact hpw'.1 P' hP' (fun x y => ((hRY x y).symm.trans (hRY' x y)))
      rw [hQs, hmem₁] at hY
      rcases List.mem_append.1 hY with hY | hY
      · rcases List.mem_append.1 hY with hY | hY
        · exact hfresh Y hY P' (List.mem_cons_of_mem _ hP') hRY'
        · simp at hY; subst hY; exact hfromP hR0
      · exact hfromP (RestrIs.perm hperm (hQsall Y hY).2)
    obtain ⟨Ps', g', h', hw', hi', hkeep', hfrom', hrep', New, hNew, hNewfrom, hNewcnt⟩ :=
      partitionsLoop_spec hst hm0t rest Ps₂ hpw₂ ((hpi₂.trans hpi₁).trans himpl)
        (fun P' hP' => hparts P' (List.mem_cons_of_mem _ hP')) hfresh₂ hpw'.2 g₂
    have hlenPm : Pm.length = P.members.length := hperm.length_eq
    refine ⟨Ps', g', ?_, hw', (hi'.trans hpi₂).trans hpi₁,
      fun Y hY => hkeep' Y (hkeep₂ Y (hkeep₁ Y hY)), ?_, ?_,
      Q₂ :: (Qs ++ New), by rw [hNew, hQs, hmem₁]; simp, ?_, ?_⟩
    rotate_right 2
    · intro Y hY
      rcases List.mem_cons.1 hY with rfl | hY
      · exact ⟨P, List.mem_cons_self .., hR0, .inl (by rw [hQm]; simp [hlenPm])⟩
      · rcases List.mem_append.1 hY with hY | hY
        · exact ⟨P, List.mem_cons_self .., RestrIs.perm hperm (hQsall Y hY).2,
            .inr (by rw [(hQsall Y hY).1, hlenPm])⟩
        · obtain ⟨P', hP', h⟩ := hNewfrom Y hY
          exact ⟨P', List.mem_cons_of_mem _ hP', h⟩
    · intro k
      have hQ₂len : Q₂.members.length = P.members.length + 1 := by rw [hQm]; simp [hlenPm]
      have hQscnt := countP_const (fun Q : MSet (MSet α) => Q.members.length) P.members.length k Qs
        (fun Q hQ => by rw [(hQsall Q hQ).1, hlenPm])
      simp only [blk, List.countP_cons, List.countP_append, expCnt, List.map_cons, List.sum_cons] at hNewcnt ⊢
      rw [hQscnt, hNewcnt k, hQ₂len, hQslen, hlenPm]
      by_cases h₁ : P.members.length + 1 = k <;> by_cases h₂ : P.members.length = k <;> simp [h₁, h₂] <;> omega
    · simp [partitionsLoop, hall, hq₁, hq₂, hp₁, hin, h']
    · intro Y hY
      rcases hfrom' Y hY with hY | hY
      · rcases hfrom₂ Y hY with hY | hY
        · rcases hfrom₁ Y hY with hY | rfl
          · exact .inl hY
          · exact .inr hQpart
        · exact .inr hY
      · exact .inr hY
    · intro P' hP'
      rcases List.mem_cons.1 hP' with rfl | hP'
      · constructor
        · obtain ⟨Y, hY, hYQ⟩ := hin₁
          exact ⟨Q₂, ⟨Y, hkeep' Y (hkeep₂ Y hY), hYQ⟩, Pm, hperm, hQm⟩
        · intro b hb
          obtain ⟨a₁, a₂, hsplit⟩ := List.append_of_mem (hperm.symm.subset hb)
          obtain ⟨Q, u, ⟨Y, hY, hYQ⟩, hQm', hu'⟩ := hrep₂ a₁ b a₂ hsplit
          exact ⟨Q, u, a₁, a₂, ⟨Y, hkeep' Y hY, hYQ⟩, by rw [← hsplit]; exact hperm, by simpa using hQm', hu'⟩
      · exact hrep' P' hP'

end

/-- what is proved of `Partitions(s)` -/
structure PartSpec (s : MSet α) (Ps : MSet (MSet (MSet α))) : Prop where
  wf : WF2 Ps
  impl : Ps.impl = .unordered partEqFunc
  sound : ∀ P ∈ Ps.members, IsPart s P
  complete : ∀ F : List (List α), Spec.IsPartition F s.members →
    ∃ P ∈ Ps.members, ∀ x y, SameBlock P x y ↔ SameBlockL F x y
  /-- the number of partitions with `k` blocks is the Stirling number -/
  count : ∀ k, blk k Ps.members = Spec.stirling2 s.members.length k
  blocks_le : ∀ P ∈ Ps.members, P.members.length ≤ s.members.length

theorem partitions_spec {sh : Shuffle σ} (hsh : ShLaw sh) : ∀ (fuel : Nat) (s : MSet α), WF0 s → ∀ g,
    s.members.length < fuel → ∃ Ps g', partitions sh fuel s g = .ok (Ps, g') ∧ PartSpec s Ps
  | 0, _, _, _, hf => by omega
  | fuel + 1, s, hs, g, hf => by
    unfold partitions
    by_cases hsz : s.size = 0
    · have hnil : s.members = [] := by
        simp only [MSet.size] at hsz
        exact List.eq_nil_of_length_eq_zero (by omega)
      obtain ⟨Ps, h₁, hw, hi, _, hfrom, ⟨Y, hY, hYQ⟩, hnew⟩ :=
        add_partition wf2_new rfl (Q := MSet.new (.unordered setEqFunc)) wf1_new
      have hmem : Ps.members = [MSet.new (.unordered setEqFunc)] := by
        have := hnew (by simp [MSet.new])
        simpa [MSet.new] using this
      refine ⟨Ps, g, by simp [hsz, h₁], hw, hi, ?_, ?_, ?_, ?_⟩
      rotate_left 2
      · intro k
        rw [hmem, hnil]
        cases k with
        | zero => simp [blk, MSet.new, Spec.stirling2]
        | succ k => simp [blk, MSet.new, Spec.stirling2]
      · intro P hP
        rw [hmem] at hP
        simp at hP
        subst hP
        simp [MSet.new]
      · intro P hP
        rcases hfrom P hP with hP | rfl
        · simp [MSet.new] at hP
        · exact ⟨wf1_new, rfl, by simp [MSet.new], by simp [MSet.new, Disj], by simp [MSet.new, hnil]⟩
      · intro F hF
        refine ⟨Y, hY, fun x y => ?_⟩
        rw [hYQ.sameBlock]
        constructor
        · rintro ⟨b, hb, _⟩
          simp [MSet.new] at hb
        · intro h
          have := (SameBlockL.mem hF h).1
          rw [hnil] at this
          cases this
    · obtain ⟨members, g₁, ha, hp, _⟩ := MSet.all_spec hsh s g
      have hlen := hp.length_eq
      cases members with
      | nil =>
        exfalso
        simp only [MSet.size] at hsz
        simp at hlen
        omega
      | cons m0 ms =>
        have hnd : (m0 :: ms).Nodup := hp.symm.nodup hs.nodup
        have hnd' := List.nodup_cons.1 hnd
        have hmem_s : ∀ x, x ∈ s.members ↔ x = m0 ∨ x ∈ ms := by
          intro x
          exact ⟨fun h => List.mem_cons.1 (hp.symm.subset h), fun h => hp.subset (List.mem_cons.2 h)⟩
        obtain ⟨head, hh₁, hhw, _, hhm, _⟩ := MSet.add1_spec0 (wf0_cloneEmpty hs) m0
        have hhm' : ∀ x, x ∈ head.members ↔ x = m0 := by
          intro x; rw [hhm]; simp [MSet.cloneEmpty]
        obtain ⟨tail, ht₁, htw, _, htm⟩ := MSet.add_spec0 (wf0_cloneEmpty hs) ms
        have htm' : ∀ x, x ∈ tail.members ↔ x ∈ ms := by
          intro x; rw [htm]; simp [MSet.cloneEmpty]
        have htlen : tail.members.length = ms.length :=
          ((List.perm_ext_iff_of_nodup htw.nodup hnd'.2).2 htm').length_eq
        simp only [List.length_cons] at hlen
        obtain ⟨sub, g₂, hsub, hspec⟩ := partitions_spec hsh fuel tail htw g₁ (by omega)
        obtain ⟨parts, g₃, hall, hperm, _⟩ := MSet.all_spec hsh sub g₂
        have hparts_pw : parts.Pairwise (fun P P' => ¬ ∀ x y, SameBlock P x y ↔ SameBlock P' x y) := by
          have hpw : parts.Pairwise (fun P P' => ¬ FamEq P P') :=
            (hperm.pairwise_iff (fun h h' => h (famEq_equivalence.symm h'))).2 hspec.wf.nodup
          refine List.Pairwise.imp_of_mem ?_ hpw
          intro P P' hP hP' hne hsame
          exact hne (famEq_of_sameBlock (hspec.sound P (hperm.subset hP)) (hspec.sound P' (hperm.subset hP')) hsame)
        obtain ⟨Ps, g₄, hloop, hw, hi, _, hfrom, hrep, New, hNew, hNewfrom, hNewcnt⟩ :=
          partitionsLoop_spec hsh hhw hhm' (s := s) (tail := tail)
            (fun x => by rw [hmem_s, htm']) (fun h => hnd'.1 ((htm' m0).1 h))
            parts (MSet.new (.unordered partEqFunc)) wf2_new rfl
            (fun P hP => hspec.sound P (hperm.subset hP)) (by simp [MSet.new]) hparts_pw g₃
        have hPsm : Ps.members = New := by simpa [MSet.new] using hNew
        refine ⟨Ps, g₄, ?_, hw, hi, ?_, ?_, ?_, ?_⟩
        rotate_left 3
        · intro k
          rw [hPsm, hNewcnt k, ← hlen]
          have hblk : ∀ j, blk j parts = Spec.stirling2 ms.length j := by
            intro j
            rw [← htlen, ← hspec.count j]
            exact hperm.countP_eq _
          cases k with
          | zero => rw [expCnt_zero]; simp [Spec.stirling2]
          | succ j => rw [expCnt_succ, hblk, hblk]; simp [Spec.stirling2]
        · intro Y hY
          rw [hPsm] at hY
          obtain ⟨P, hP, _, hlenY⟩ := hNewfrom Y hY
          have := hspec.blocks_le P (hperm.subset hP)
          rw [htlen] at this
          rw [← hlen]
          omega
        · simp only [hsz, ↓reduceIte, ha, ok_bind]
          simp only [MSet.add_singleton, hh₁, ht₁, hsub, hall, ok_bind]
          exact hloop
        · intro P hP
          rcases hfrom P hP with h | h
          · simp [MSet.new] at h
          · exact h
        · intro F hF
          classical
          have hT : ∀ x, x ∈ tail.members ↔ x ∈ s.members ∧ x ≠ m0 := by
            intro x
            rw [htm', hmem_s]
            constructor
            · intro h
              exact ⟨.inr h, fun hx => hnd'.1 (hx ▸ h)⟩
            · rintro ⟨rfl | h, hne⟩
              · exact absurd rfl hne
              · exact h
          obtain ⟨hF', hrel'⟩ := cutOut_partition hF hT
          obtain ⟨P', hP', hP'rel⟩ := hspec.complete _ hF'
          have hP'part : IsPart tail P' := hspec.sound P' hP'
          obtain ⟨hR0, hRi⟩ := hrep P' (hperm.symm.subset hP')
          have hr' : ∀ x y, SameBlock P' x y ↔ SameBlockL F x y ∧ x ≠ m0 ∧ y ≠ m0 :=
            fun x y => (hP'rel x y).trans (hrel' x y)
          have hm0L : m0 ∈ s.members := (hmem_s m0).2 (.inl rfl)
          by_cases hex : ∃ y, y ≠ m0 ∧ SameBlockL F m0 y
          · -- the head shares its block with some `y`: it was put into the block of `y`
            obtain ⟨y, hyne, hm0y⟩ := hex
            have hyL := (SameBlockL.mem hF hm0y).2
            obtain ⟨b, hb, hyb⟩ := (hP'part.cover y).1 ((hT y).2 ⟨hyL, hyne⟩)
            obtain ⟨Q, u, a₁, a₂, ⟨Y, hY, hYQ⟩, hpermQ, hQm, hu⟩ := hRi b hb
            refine ⟨Y, hY, fun x z => ?_⟩
            rw [hYQ.sameBlock]
            have hub : ∀ x, x ∈ u.members ↔ SameBlockL F m0 x := by
              intro x
              rw [hu, hP'part.mem_block_iff hb hyb, hr']
              constructor
              · rintro (rfl | ⟨h, _, _⟩)
                · exact SameBlockL.refl hF hm0L
                · exact SameBlockL.trans hF hm0y h
              · intro h
                by_cases hx : x = m0
                · exact .inl hx
                · exact .inr ⟨SameBlockL.trans hF hm0y.symm h, hyne, hx⟩
            constructor
            · rintro ⟨c, hc, hxc, hzc⟩
              rw [hQm] at hc
              rcases List.mem_append.1 hc with hc | hc
              · have hcP : c ∈ P'.members := hpermQ.subset (by simp [hc])
                exact ((hr' x z).1 ⟨c, hcP, hxc, hzc⟩).1
              · rcases List.mem_cons.1 hc with rfl | hc
                · exact SameBlockL.trans hF ((hub x).1 hxc).symm ((hub z).1 hzc)
                · have hcP : c ∈ P'.members := hpermQ.subset (by simp [hc])
                  exact ((hr' x z).1 ⟨c, hcP, hxc, hzc⟩).1
            · intro hxz
              by_cases hm0x : SameBlockL F m0 x
              · exact ⟨u, by rw [hQm]; simp, (hub x).2 hm0x, (hub z).2 (SameBlockL.trans hF hm0x hxz)⟩
              · have hxL := (SameBlockL.mem hF hxz).1
                have hxne : x ≠ m0 := by
                  intro h
                  rw [h] at hm0x
                  exact hm0x (SameBlockL.refl hF hm0L)
                have hzne : z ≠ m0 := by
                  intro h
                  rw [h] at hxz
                  exact hm0x hxz.symm
                obtain ⟨c, hcP, hxc, hzc⟩ := (hr' x z).2 ⟨hxz, hxne, hzne⟩
                have hc' : c ∈ a₁ ++ b :: a₂ := hpermQ.symm.subset hcP
                have hcb : c ≠ b := by
                  intro h
                  rw [h] at hxc
                  have := (hr' y x).1 ⟨b, hb, hyb, hxc⟩
                  exact hm0x (SameBlockL.trans hF hm0y this.1)
                refine ⟨c, ?_, hxc, hzc⟩
                rw [hQm]
                rcases List.mem_append.1 hc' with h | h
                · exact List.mem_append_left _ h
                · rcases List.mem_cons.1 h with h | h
                  · exact absurd h hcb
                  · exact List.mem_append_right _ (List.mem_cons_of_mem _ h)
          · -- the head is alone in its block: the partition with the new block {head}
            obtain ⟨Q, ⟨Y, hY, hYQ⟩, Pm, hpermQ, hQm⟩ := hR0
            refine ⟨Y, hY, fun x z => ?_⟩
            rw [hYQ.sameBlock]
            have honly : ∀ w, SameBlockL F m0 w → w = m0 := by
              intro w hw
              exact Classical.byContradiction (fun hne => hex ⟨w, hne, hw⟩)
            constructor
            · rintro ⟨c, hc, hxc, hzc⟩
              rw [hQm] at hc
              rcases List.mem_cons.1 hc with rfl | hc
              · rw [(hhm' x).1 hxc, (hhm' z).1 hzc]
                exact SameBlockL.refl hF hm0L
              · exact ((hr' x z).1 ⟨c, hpermQ.subset hc, hxc, hzc⟩).1
            · intro hxz
              by_cases hx : x = m0
              · rw [hx] at hxz ⊢
                rw [honly z hxz]
                exact ⟨head, by rw [hQm]; simp, (hhm' _).2 rfl, (hhm' _).2 rfl⟩
              · have hz : z ≠ m0 := by
                  intro h
                  rw [h] at hxz
                  exact hx (honly x hxz.symm)
                obtain ⟨c, hcP, hxc, hzc⟩ := (hr' x z).2 ⟨hxz, hx, hz⟩
                exact ⟨c, by rw [hQm]; exact List.mem_cons_of_mem _ (hpermQ.symm.subset hcP), hxc, hzc⟩

/-! ### back to the vocabulary of the Spec -/

theorem IsPart.isPartition {s : MSet α} {P : MSet (MSet α)} (hP : IsPart s P) :
    Spec.IsPartition (P.members.map (·.members)) s.members := by
  refine ⟨?_, ?_, ?_⟩
  · intro l hl
    obtain ⟨b, hb, rfl⟩ := List.mem_map.1 hl
    exact ⟨hP.nonempty b hb, (hP.wf.mem_dom b hb).nodup⟩
  · exact List.pairwise_map.2 hP.disj
  · intro x
    rw [hP.cover]
    constructor
    · rintro ⟨b, hb, hx⟩
      exact ⟨b.members, List.mem_map.2 ⟨b, hb, rfl⟩, hx⟩
    · rintro ⟨l, hl, hx⟩
      obtain ⟨b, hb, rfl⟩ := List.mem_map.1 hl
      exact ⟨b, hb, hx⟩

theorem famEq_iff_sameFamily (P Q : MSet (MSet α)) :
    FamEq P Q ↔ Spec.SameFamily (P.members.map (·.members)) (Q.members.map (·.members)) := by
  have key : ∀ A B : MSet (MSet α), SubR SetEq A.members B.members ↔
      ∀ b ∈ A.members.map (·.members), ∃ b' ∈ B.members.map (·.members), ∀ x, x ∈ b ↔ x ∈ b' := by
    intro A B
    constructor
    · intro h l hl
      obtain ⟨b, hb, rfl⟩ := List.mem_map.1 hl
      obtain ⟨c, hc, hcb⟩ := h b hb
      exact ⟨c.members, List.mem_map.2 ⟨c, hc, rfl⟩, fun x => (hcb x).symm⟩
    · intro h b hb
      obtain ⟨l, hl, hbl⟩ := h b.members (List.mem_map.2 ⟨b, hb, rfl⟩)
      obtain ⟨c, hc, rfl⟩ := List.mem_map.1 hl
      exact ⟨c, hc, fun x => (hbl x).symm⟩
  unfold FamEq SameR Spec.SameFamily
  rw [key P Q, key Q P]

end AlgoVerif.C16
