import AlgoVerif.Proofs.C11Lists
import AlgoVerif.Spec.C11
/-!
# C11 — the Model's nullable / FIRST / FOLLOW computations reach their fixpoints

`nullableOf`, `firstEnv`, `followEnv` are "repeat until nothing new" loops with a fuel that the Model chooses itself
(`|N| + 1`, `|N|·(|T|+1) + 1`, `|N|·(|T|+2) + 1`).  This file shows that the fuel suffices (every set is a duplicate-free
list of non-terminals / terminals of the grammar, every unfinished round adds an element), so the loops stop because a
round added nothing, and that the result then is closed under the productions: the executable checks
`Spec.chkNullClosed`, `Spec.chkFirstClosed`, `Spec.chkFollowClosed` hold on it.
-/
namespace AlgoVerif.C11.BuiltComplete
open AlgoVerif AlgoVerif.Gram AlgoVerif.C11 AlgoVerif.C11.Spec AlgoVerif.C11.Built

/-! ## lists that only grow at the end -/

/-- `l'` is `l` with something appended -/
def Ext {α} (l l' : List α) : Prop := ∃ t, l' = l ++ t

theorem Ext.refl {α} (l : List α) : Ext l l := ⟨[], by simp⟩

theorem Ext.trans {α} {a b c : List α} (h1 : Ext a b) (h2 : Ext b c) : Ext a c := by
  obtain ⟨t, rfl⟩ := h1
  obtain ⟨u, rfl⟩ := h2
  exact ⟨t ++ u, by simp⟩

theorem Ext.length_le {α} {a b : List α} (h : Ext a b) : a.length ≤ b.length := by
  obtain ⟨t, rfl⟩ := h
  simp

theorem Ext.eq_of_length {α} {a b : List α} (h : Ext a b) (hl : b.length = a.length) : b = a := by
  obtain ⟨t, rfl⟩ := h
  have : t = [] := by simpa using hl
  simp [this]

theorem Ext.mem {α} {a b : List α} (h : Ext a b) {x : α} (hx : x ∈ a) : x ∈ b := by
  obtain ⟨t, rfl⟩ := h
  exact List.mem_append_left _ hx

theorem ext_addNew {α} [DecidableEq α] (l : List α) (x : α) : Ext l (addNew l x) := by
  unfold addNew
  split
  · exact Ext.refl l
  · exact ⟨[x], rfl⟩

theorem ext_unionNew {α} [DecidableEq α] (add : List α) : ∀ (l : List α), Ext l (unionNew l add) := by
  unfold unionNew
  induction add with
  | nil => intro l; exact Ext.refl l
  | cons a add ih => intro l; exact (ext_addNew l a).trans (ih _)

theorem nodup_addNew {α} [DecidableEq α] {l : List α} (h : l.Nodup) (x : α) : (addNew l x).Nodup := by
  unfold addNew
  split
  · exact h
  · rename_i hx
    rw [List.nodup_append]
    refine ⟨h, by simp, ?_⟩
    intro a ha b hb
    simp at hb
    subst hb
    intro he
    exact hx (he ▸ ha)

theorem nodup_unionNew {α} [DecidableEq α] (add : List α) : ∀ {l : List α}, l.Nodup → (unionNew l add).Nodup := by
  unfold unionNew
  induction add with
  | nil => intro l h; exact h
  | cons a add ih => intro l h; exact ih (nodup_addNew h a)

/-- pigeonhole: a duplicate-free list inside `m` is no longer than `m` -/
theorem nodup_subset_length {α} [DecidableEq α] : ∀ (l m : List α), l.Nodup → (∀ x ∈ l, x ∈ m) → l.length ≤ m.length
  | [], _, _, _ => by simp
  | x :: l, m, hn, hs => by
    have hx : x ∈ m := hs x (by simp)
    have hn' := List.nodup_cons.mp hn
    have hsub : ∀ y ∈ l, y ∈ m.erase x := by
      intro y hy
      have hne : y ≠ x := fun he => hn'.1 (he ▸ hy)
      exact (List.mem_erase_of_ne hne).mpr (hs y (List.mem_cons_of_mem _ hy))
    have ih := nodup_subset_length l (m.erase x) hn'.2 hsub
    have hlen := List.length_erase_of_mem hx
    have hpos : 0 < m.length := List.length_pos_of_mem hx
    simp only [List.length_cons]
    omega

/-! ## nullable -/

theorem nullableStep_ext (ps : List Pr) : ∀ (nl : List String), Ext nl (nullableStep ps nl) := by
  unfold nullableStep
  induction ps with
  | nil => intro nl; exact Ext.refl nl
  | cons p ps ih =>
    intro nl
    simp only [List.foldl_cons]
    refine Ext.trans ?_ (ih _)
    split
    · exact ext_addNew nl p.head
    · exact Ext.refl nl

theorem nullableStep_fix (ps : List Pr) : ∀ (nl : List String), nullableStep ps nl = nl →
    ∀ p ∈ ps, p.body.all (symNullable nl) = true → p.head ∈ nl := by
  induction ps with
  | nil => intro nl _ p hp; simp at hp
  | cons q ps ih =>
    intro nl hfix p hp hall
    unfold nullableStep at hfix
    simp only [List.foldl_cons] at hfix
    -- the first step does not change `nl`
    have hstep1 : Ext nl (if q.body.all (symNullable nl) = true then addNew nl q.head else nl) := by
      split
      · exact ext_addNew nl q.head
      · exact Ext.refl nl
    have hrest := nullableStep_ext ps (if q.body.all (symNullable nl) = true then addNew nl q.head else nl)
    unfold nullableStep at hrest
    rw [hfix] at hrest
    have hlen : (if q.body.all (symNullable nl) = true then addNew nl q.head else nl).length = nl.length := by
      have := hstep1.length_le
      have := hrest.length_le
      omega
    have heq := hstep1.eq_of_length hlen
    rw [heq] at hfix
    rcases List.mem_cons.mp hp with rfl | hp'
    · rw [if_pos hall] at heq
      have : p.head ∈ addNew nl p.head := mem_addNew.mpr (Or.inr rfl)
      rw [heq] at this
      exact this
    · exact ih nl hfix p hp' hall

theorem nullableStep_inv (N : List String) (ps : List Pr) (hH : ∀ p ∈ ps, p.head ∈ N) :
    ∀ (nl : List String), (nl.Nodup ∧ ∀ x ∈ nl, x ∈ N) →
      ((nullableStep ps nl).Nodup ∧ ∀ x ∈ nullableStep ps nl, x ∈ N) := by
  unfold nullableStep
  induction ps with
  | nil => intro nl h; exact h
  | cons q ps ih =>
    intro nl h
    simp only [List.foldl_cons]
    apply ih (fun p hp => hH p (List.mem_cons_of_mem _ hp))
    split
    · refine ⟨nodup_addNew h.1 _, ?_⟩
      intro x hx
      rcases mem_addNew.mp hx with h1 | h1
      · exact h.2 x h1
      · exact h1 ▸ hH q (by simp)
    · exact h

theorem nullableFix_spec (N : List String) (ps : List Pr) (hH : ∀ p ∈ ps, p.head ∈ N) :
    ∀ (fuel : Nat) (nl : List String), (nl.Nodup ∧ ∀ x ∈ nl, x ∈ N) → N.length < fuel + nl.length →
      nullableStep ps (nullableFix ps fuel nl) = nullableFix ps fuel nl
  | 0, nl, hinv, hlt => by
    have := nodup_subset_length nl N hinv.1 hinv.2
    omega
  | fuel + 1, nl, hinv, hlt => by
    unfold nullableFix
    simp only
    split
    · rename_i heq
      exact (nullableStep_ext ps nl).eq_of_length heq
    · rename_i hne
      have hle := (nullableStep_ext ps nl).length_le
      apply nullableFix_spec N ps hH fuel _ (nullableStep_inv N ps hH nl hinv)
      omega

/-- the nullable set the Model computes is closed under the productions (for every grammar whose heads are listed) -/
theorem nullable_closed (g : SGrammar) (hH : ∀ p ∈ g.prods, p.head ∈ g.nonterms) :
    chkNullClosed g.prods (nullableOf g) = true := by
  have hfix : nullableStep g.prods (nullableOf g) = nullableOf g := by
    unfold nullableOf
    exact nullableFix_spec g.nonterms g.prods hH _ [] ⟨by simp, by simp⟩ (by simp)
  unfold chkNullClosed
  rw [List.all_eq_true]
  intro p hp
  by_cases hall : p.body.all (symNullable (nullableOf g)) = true
  · have := nullableStep_fix g.prods _ hfix p hp hall
    simp [hall, this]
  · simp [hall]

/-! ## environments: one set per listed non-terminal -/

theorem foldl_size (env : Env) : ∀ (a : Nat), env.foldl (fun a p => a + p.2.length) a = a + (env.map (·.2.length)).sum := by
  induction env with
  | nil => intro a; simp
  | cons e env ih => intro a; simp only [List.foldl_cons, ih, List.map_cons, List.sum_cons]; omega

theorem envSize_map (N : List String) (F : String → List String) :
    envSize (N.map fun n => (n, F n)) = (N.map fun n => (F n).length).sum := by
  unfold envSize
  rw [foldl_size]
  simp [List.map_map, Function.comp_def]

theorem envGet_map (N : List String) (F : String → List String) (m : String) :
    envGet (N.map fun n => (n, F n)) m = if m ∈ N then F m else [] := by
  unfold envGet
  induction N with
  | nil => simp
  | cons n N ih =>
    simp only [List.map_cons, List.lookup_cons]
    by_cases hm : m = n
    · subst hm; simp
    · have : (m == n) = false := by simpa using hm
      rw [this]
      simp only [List.mem_cons, hm, false_or]
      exact ih

theorem sum_le_of_pointwise (N : List String) (a b : String → Nat) (h : ∀ n ∈ N, a n ≤ b n) :
    (N.map a).sum ≤ (N.map b).sum := by
  induction N with
  | nil => simp
  | cons n N ih =>
    simp only [List.map_cons, List.sum_cons]
    have := h n (by simp)
    have := ih (fun m hm => h m (List.mem_cons_of_mem _ hm))
    omega

theorem pointwise_eq_of_sum_eq (N : List String) (a b : String → Nat) (h : ∀ n ∈ N, a n ≤ b n)
    (hs : (N.map a).sum = (N.map b).sum) : ∀ n ∈ N, a n = b n := by
  induction N with
  | nil => intro n hn; simp at hn
  | cons m N ih =>
    simp only [List.map_cons, List.sum_cons] at hs
    have h1 := h m (by simp)
    have h2 := sum_le_of_pointwise N a b (fun k hk => h k (List.mem_cons_of_mem _ hk))
    intro n hn
    rcases List.mem_cons.mp hn with rfl | hn'
    · omega
    · exact ih (fun k hk => h k (List.mem_cons_of_mem _ hk)) (by omega) n hn'

theorem sum_le_mul (N : List String) (a : String → Nat) (B : Nat) (h : ∀ n ∈ N, a n ≤ B) :
    (N.map a).sum ≤ N.length * B := by
  induction N with
  | nil => simp
  | cons n N ih =>
    simp only [List.map_cons, List.sum_cons, List.length_cons]
    have := h n (by simp)
    have := ih (fun m hm => h m (List.mem_cons_of_mem _ hm))
    rw [Nat.succ_mul]
    omega

/-- the sets of `F` are duplicate-free lists of elements of `Tm` -/
def SetsOK (Tm : List String) (F : String → List String) : Prop := ∀ n, (F n).Nodup ∧ ∀ t ∈ F n, t ∈ Tm

/-- `env` has one entry `(n, F n)` per listed non-terminal -/
def EnvForm (N Tm : List String) (env : Env) : Prop :=
  ∃ F, env = N.map (fun n => (n, F n)) ∧ SetsOK Tm F

theorem envForm_get {N Tm : List String} {env : Env} (h : EnvForm N Tm env) (m : String) :
    (envGet env m).Nodup ∧ ∀ t ∈ envGet env m, t ∈ Tm := by
  obtain ⟨F, rfl, hF⟩ := h
  rw [envGet_map]
  split
  · exact hF m
  · simp

theorem envForm_size {N Tm : List String} {env : Env} (h : EnvForm N Tm env) : envSize env ≤ N.length * Tm.length := by
  obtain ⟨F, rfl, hF⟩ := h
  rw [envSize_map]
  exact sum_le_mul N _ _ (fun n _ => nodup_subset_length _ _ (hF n).1 (hF n).2)

/-- the generic "until the size stops growing" loop ends in a state whose next round has the same size, provided the
fuel exceeds the bound on the size -/
theorem envFix_spec (f : Env → Env) (Inv : Env → Prop) (B : Nat)
    (hstep : ∀ env, Inv env → Inv (f env) ∧ envSize env ≤ envSize (f env))
    (hB : ∀ env, Inv env → envSize env ≤ B) :
    ∀ (fuel : Nat) (env : Env), Inv env → B < fuel + envSize env →
      Inv (envFix f fuel env) ∧ envSize (f (envFix f fuel env)) = envSize (envFix f fuel env)
  | 0, env, hinv, hlt => by
    have := hB env hinv
    omega
  | fuel + 1, env, hinv, hlt => by
    unfold envFix
    simp only
    split
    · rename_i heq
      exact ⟨hinv, heq⟩
    · rename_i hne
      have := (hstep env hinv).2
      exact envFix_spec f Inv B hstep hB fuel (f env) (hstep env hinv).1 (by omega)

/-! ## FIRST -/

theorem firstOfStr_sub (nl : List String) (env : Env) (Tm : List String) (henv : ∀ m, ∀ t ∈ envGet env m, t ∈ Tm) :
    ∀ (body : List Sy), (∀ t, Sym.term t ∈ body → t ∈ Tm) → ∀ c ∈ firstOfStr nl env body, c ∈ Tm
  | [], _, c, hc => by simp [firstOfStr] at hc
  | .term t :: rest, hb, c, hc => by
    simp only [firstOfStr, List.mem_singleton] at hc
    exact hc ▸ hb t (by simp)
  | .nonterm n :: rest, hb, c, hc => by
    unfold firstOfStr at hc
    split at hc
    · rcases mem_unionNew.mp hc with h1 | h1
      · exact henv n c h1
      · exact firstOfStr_sub nl env Tm henv rest (fun t ht => hb t (List.mem_cons_of_mem _ ht)) c h1
    · exact henv n c hc

theorem foldl_unionNew_ext {β} (h : β → List String) : ∀ (l : List β) (init : List String),
    Ext init (l.foldl (fun acc p => unionNew acc (h p)) init) := by
  intro l
  induction l with
  | nil => intro init; exact Ext.refl init
  | cons p l ih => intro init; exact (ext_unionNew (h p) init).trans (ih _)

theorem foldl_unionNew_mem {β} (h : β → List String) : ∀ (l : List β) (init : List String) (p : β) (c : String),
    p ∈ l → c ∈ h p → c ∈ l.foldl (fun acc p => unionNew acc (h p)) init := by
  intro l
  induction l with
  | nil => intro init p c hp; simp at hp
  | cons q l ih =>
    intro init p c hp hc
    simp only [List.foldl_cons]
    rcases List.mem_cons.mp hp with rfl | hp'
    · exact (foldl_unionNew_ext h l _).mem (mem_unionNew.mpr (Or.inr hc))
    · exact ih _ p c hp' hc

theorem foldl_unionNew_ok {β} (Tm : List String) (h : β → List String) : ∀ (l : List β) (init : List String),
    (∀ p ∈ l, ∀ c ∈ h p, c ∈ Tm) → (init.Nodup ∧ ∀ c ∈ init, c ∈ Tm) →
      ((l.foldl (fun acc p => unionNew acc (h p)) init).Nodup ∧
        ∀ c ∈ l.foldl (fun acc p => unionNew acc (h p)) init, c ∈ Tm) := by
  intro l
  induction l with
  | nil => intro init _ hi; exact hi
  | cons q l ih =>
    intro init hl hi
    simp only [List.foldl_cons]
    apply ih _ (fun p hp => hl p (List.mem_cons_of_mem _ hp))
    refine ⟨nodup_unionNew _ hi.1, ?_⟩
    intro c hc
    rcases mem_unionNew.mp hc with h1 | h1
    · exact hi.2 c h1
    · exact hl q (by simp) c h1

/-- the grammar lists the heads of its productions and the terminals of their bodies -/
structure Listed (g : SGrammar) : Prop where
  heads : ∀ p ∈ g.prods, p.head ∈ g.nonterms
  terms : ∀ p ∈ g.prods, ∀ t, Sym.term t ∈ p.body → t ∈ g.terms

theorem mem_prodsOf {g : SGrammar} {n : String} {p : Pr} : p ∈ prodsOf g n ↔ p ∈ g.prods ∧ p.head = n := by
  simp [prodsOf]

theorem firstStep_form (g : SGrammar) (hg : Listed g) (nl : List String) (env : Env)
    (h : EnvForm g.nonterms g.terms env) :
    EnvForm g.nonterms g.terms (firstStep g nl env) ∧ envSize env ≤ envSize (firstStep g nl env) := by
  have hget := envForm_get h
  have hF' : SetsOK g.terms (fun n => (prodsOf g n).foldl (fun acc p => unionNew acc (firstOfStr nl env p.body))
      (envGet env n)) := by
    intro n
    apply foldl_unionNew_ok g.terms _ _ _ _ (hget n)
    intro p hp c hc
    have hp' := (mem_prodsOf.mp hp).1
    exact firstOfStr_sub nl env g.terms (fun m => (hget m).2) p.body (hg.terms p hp') c hc
  refine ⟨⟨_, rfl, hF'⟩, ?_⟩
  obtain ⟨F, hF, _⟩ := h
  unfold firstStep
  rw [envSize_map]
  conv => lhs; rw [hF, envSize_map]
  apply sum_le_of_pointwise
  intro n hn
  have hgn : envGet env n = F n := by rw [hF, envGet_map]; simp [hn]
  rw [← hgn]
  exact (foldl_unionNew_ext _ _ _).length_le

theorem firstEnv_form (g : SGrammar) (hg : Listed g) (nl : List String) :
    EnvForm g.nonterms g.terms (firstEnv g nl) ∧
      envSize (firstStep g nl (firstEnv g nl)) = envSize (firstEnv g nl) := by
  unfold firstEnv
  apply envFix_spec (firstStep g nl) (EnvForm g.nonterms g.terms) (g.nonterms.length * g.terms.length)
    (fun env h => firstStep_form g hg nl env h) (fun env h => envForm_size h)
  · exact ⟨fun _ => [], rfl, fun _ => ⟨by simp, by simp⟩⟩
  · rw [Nat.mul_succ]; omega

/-- FIRST as the Model computes it is closed under the productions -/
theorem first_closed (g : SGrammar) (hg : Listed g) (nl : List String) :
    chkFirstClosed g.prods nl (firstEnv g nl) = true := by
  obtain ⟨hform, hsize⟩ := firstEnv_form g hg nl
  obtain ⟨F, hF, hFok⟩ := hform
  -- the last round changed no set
  have hsame : ∀ n ∈ g.nonterms,
      (prodsOf g n).foldl (fun acc p => unionNew acc (firstOfStr nl (firstEnv g nl) p.body)) (envGet (firstEnv g nl) n)
        = envGet (firstEnv g nl) n := by
    intro n hn
    have hext := foldl_unionNew_ext (fun p : Pr => firstOfStr nl (firstEnv g nl) p.body) (prodsOf g n)
      (envGet (firstEnv g nl) n)
    apply hext.eq_of_length
    have hs := hsize
    unfold firstStep at hs
    rw [envSize_map] at hs
    conv at hs => rhs; rw [hF, envSize_map]
    have hpt := pointwise_eq_of_sum_eq g.nonterms _ _ (by
      intro m hm
      have hgm : envGet (firstEnv g nl) m = F m := by rw [hF, envGet_map]; simp [hm]
      rw [← hgm]
      exact (foldl_unionNew_ext (fun p : Pr => firstOfStr nl (firstEnv g nl) p.body) (prodsOf g m) _).length_le) hs.symm
    have hgn : envGet (firstEnv g nl) n = F n := by rw [hF, envGet_map]; simp [hn]
    rw [← hpt n hn, hgn]
  unfold chkFirstClosed
  rw [List.all_eq_true]
  intro p hp
  rw [List.all_eq_true]
  intro c hc
  have hn := hg.heads p hp
  have := foldl_unionNew_mem (fun p : Pr => firstOfStr nl (firstEnv g nl) p.body) (prodsOf g p.head)
    (envGet (firstEnv g nl) p.head) p c (mem_prodsOf.mpr ⟨hp, rfl⟩) hc
  rw [hsame p.head hn] at this
  simpa using this

end AlgoVerif.C11.BuiltComplete
