import AlgoVerif.Proofs.C11CompleteCheck
/-!
# C11 — the chain certificate transfers conflict-freeness from the coarser to the finer construction
-/
namespace AlgoVerif.C11.Chain
open AlgoVerif AlgoVerif.Gram AlgoVerif.C11 AlgoVerif.C11.Spec

theorem image_nonshift {f : Int → Int} {x : Action} (hx : isShift x = false) : actionImage f x = x := by
  cases x <;> simp [actionImage, isShift] at hx ⊢

theorem image_shift_isShift {f : Int → Int} {x : Action} (hx : isShift x = true) : isShift (actionImage f x) = true := by
  cases x <;> simp [actionImage, isShift] at hx ⊢

theorem conflictFree_of_certF (f : Int → Int) (b1 b2 : Built) (hc : chainCertF f b1 b2 = true)
    (h1 : chkConflictFree b1.table = true) : chkConflictFree b2.table = true := by
  unfold chkConflictFree
  rw [List.all_eq_true]
  intro e he
  unfold chainCertF at hc
  rw [List.all_eq_true] at hc
  have hce := hc e he
  simp only [Bool.and_eq_true, decide_eq_true_eq, List.all_eq_true, List.contains_iff_mem] at hce
  obtain ⟨⟨hnd, hone⟩, himg⟩ := hce
  simp only [decide_eq_true_eq]
  -- the corresponding cell of b1 has at most one action
  have hlen := Complete.cell_len h1 (f e.1.1) e.1.2
  match hacts : e.2 with
  | [] => simp
  | [_] => simp
  | x :: y :: rest =>
    exfalso
    rw [hacts] at hnd hone himg
    have hxy : x ≠ y := by
      intro h; subst h; simp at hnd
    have hx := himg x (by simp)
    have hy := himg y (by simp)
    -- both images are the single action of the b1 cell
    have heq : actionImage f x =
        actionImage f y := by
      match hcell : b1.table.cell (f e.1.1) e.1.2, hlen, hx, hy with
      | [], _, hx, _ => simp at hx
      | [z], _, hx, hy => simp at hx hy; rw [hx, hy]
      | _ :: _ :: _, hlen, _, _ => simp at hlen
    cases hsx : isShift x with
    | true =>
      cases hsy : isShift y with
      | true => simp [List.filter, hsx, hsy] at hone
      | false =>
        rw [image_nonshift hsy] at heq
        have := image_shift_isShift (f := f) hsx
        rw [heq, hsy] at this; cases this
    | false =>
      cases hsy : isShift y with
      | true =>
        rw [image_nonshift hsx] at heq
        have := image_shift_isShift (f := f) hsy
        rw [← heq, hsx] at this; cases this
      | false =>
        rw [image_nonshift hsx, image_nonshift hsy] at heq
        exact hxy heq

theorem conflictFree_of_cert (b1 b2 : Built) (hc : chainCert b1 b2 = true)
    (h1 : chkConflictFree b1.table = true) : chkConflictFree b2.table = true :=
  conflictFree_of_certF _ b1 b2 hc h1

end AlgoVerif.C11.Chain
