import AlgoVerif.Proofs.C09Valid
/-!
# `EliminateLeftRecursion`, part 1: helpers and the substitution step `lrSubst`

`lrSubst g Aᵢ Aⱼ` replaces every `Aᵢ → Aⱼ γ` by `Aᵢ → δ γ` for all current `Aⱼ → δ` ("unfold one
occurrence").  It preserves the language — also when `Aᵢ = Aⱼ`, so no assumption on the order is needed:

* `⊆`: every new production is a two-step derivation of the old grammar;
* `⊇`: by induction on the length of a derivation of a *terminal* string in the old grammar: a step with a
  removed production `Aᵢ → Aⱼ γ` is followed, somewhere later, by a first step of that `Aⱼ`, say by
  `Aⱼ → δ`; the new grammar does both at once with `Aᵢ → δ γ`, and the three parts left of, below and right
  of `Aⱼ` are shorter derivations.
-/
set_option linter.unusedSectionVars false
namespace AlgoVerif.C08
open AlgoVerif AlgoVerif.Gram AlgoVerif.C08.Spec

/-- a string of terminals -/
def Terminal (γ : List SSym) : Prop := ∀ s ∈ γ, ∃ t, s = Sym.term t

theorem Terminal.of_map (w : List String) : Terminal (w.map Sym.term) := by
  intro s hs
  obtain ⟨t, _, rfl⟩ := List.mem_map.1 hs
  exact ⟨t, rfl⟩

theorem Terminal.append_iff {a b : List SSym} : Terminal (a ++ b) ↔ Terminal a ∧ Terminal b := by
  unfold Terminal
  constructor
  · intro h
    exact ⟨fun s hs => h s (by simp [hs]), fun s hs => h s (by simp [hs])⟩
  · rintro ⟨h1, h2⟩ s hs
    rcases List.mem_append.1 hs with hs | hs
    · exact h1 s hs
    · exact h2 s hs

theorem Terminal.nil : Terminal ([] : List SSym) := by intro s hs; cases hs

theorem Terminal.no_step {g : G} {α β : List SSym} (hα : Terminal α) (s : Step g α β) : False := by
  generalize hx : α = x at s
  cases s with
  | mk u v p hp =>
    subst hx
    obtain ⟨t, ht⟩ := hα (Sym.nonterm p.head) (by simp)
    cases ht

theorem derivesIn_of_terminal {g : G} {n : Nat} {α β : List SSym} (hα : Terminal α) (d : DerivesIn g n α β) :
    n = 0 ∧ β = α := by
  cases d with
  | refl => exact ⟨rfl, rfl⟩
  | head s _ => exact (hα.no_step s).elim

/-- the first step of a single non-terminal that ends in a terminal string -/
theorem derivesIn_of_single {g : G} {n : Nat} {A : String} {γ : List SSym} (hγ : Terminal γ)
    (d : DerivesIn g n [Sym.nonterm A] γ) :
    ∃ k p, n = k + 1 ∧ p ∈ g.prods ∧ p.head = A ∧ DerivesIn g k p.body γ := by
  cases d with
  | refl =>
    obtain ⟨t, ht⟩ := hγ (Sym.nonterm A) (by simp)
    cases ht
  | @head k _ β _ s d' =>
    obtain ⟨p, hp, hh, rfl⟩ := s.of_single
    exact ⟨k, p, rfl, hp, hh, d'⟩

/-- three-way split of a derivation of a terminal string from `u ++ [X] ++ v` -/
theorem derivesIn_split3 {g : G} {n : Nat} {u v : List SSym} {X : SSym} {γ : List SSym} (hγ : Terminal γ)
    (d : DerivesIn g n (u ++ X :: v) γ) :
    ∃ γu γx γv ku kx kv, γ = γu ++ γx ++ γv ∧ Terminal γu ∧ Terminal γx ∧ Terminal γv ∧
      DerivesIn g ku u γu ∧ DerivesIn g kx [X] γx ∧ DerivesIn g kv v γv ∧ ku + kx + kv = n := by
  obtain ⟨γu, γ₂, ku, k₂, h1, du, d2, hk⟩ := d.split
  have d2' : DerivesIn g k₂ ([X] ++ v) γ₂ := d2
  obtain ⟨γx, γv, kx, kv, h2, dx, dv, hk2⟩ := d2'.split
  subst h1; subst h2
  obtain ⟨tu, t2⟩ := Terminal.append_iff.1 hγ
  obtain ⟨tx, tv⟩ := Terminal.append_iff.1 t2
  exact ⟨γu, γx, γv, ku, kx, kv, by simp [List.append_assoc], tu, tx, tv, du, dx, dv, by omega⟩

/-- head-first induction for "every terminal string derivable in `g` is derivable in `g'`", all sentential
forms at once: it suffices to handle one first step followed by a shorter derivation -/
theorem transfer_of_step {g g' : G}
    (hstep : ∀ (n : Nat), (∀ m, m ≤ n → ∀ α γ, Terminal γ → DerivesIn g m α γ → Derives g' α γ) →
      ∀ (u v : List SSym) (p : SProd) (γ : List SSym), p ∈ g.prods → Terminal γ →
        DerivesIn g n (u ++ p.body ++ v) γ → Derives g' (u ++ [Sym.nonterm p.head] ++ v) γ) :
    ∀ (n : Nat) (α γ : List SSym), Terminal γ → DerivesIn g n α γ → Derives g' α γ := by
  intro n
  induction n using Nat.strongRecOn with
  | _ n ih =>
    intro α γ hγ d
    cases d with
    | refl => exact Derives.refl _
    | @head k _ β _ s d' =>
      generalize hx : α = x at s
      cases s with
      | mk u v p hp =>
        subst hx
        exact hstep k (fun m hm => ih m (by omega)) u v p γ hp hγ d'

/-! ## `lrSubst` -/

/-- the productions `Aᵢ → Aⱼ γ` -/
def IsAiAj (g : G) (Ai Aj : String) (p : SProd) : Prop :=
  p ∈ g.prods ∧ p.head = Ai ∧ ∃ tl, p.body = Sym.nonterm Aj :: tl

theorem mem_AiAj {g : G} {Ai Aj : String} {p : SProd} :
    p ∈ (prodsOf g.prods Ai).filter (fun p => match p.body with
      | .nonterm n :: _ => n = Aj
      | _ => false) ↔ IsAiAj g Ai Aj p := by
  unfold IsAiAj prodsOf
  rw [List.mem_filter, List.mem_filter]
  constructor
  · rintro ⟨⟨h1, h2⟩, h3⟩
    refine ⟨h1, by simpa using h2, ?_⟩
    cases hb : p.body with
    | nil => rw [hb] at h3; simp at h3
    | cons s tl =>
      rw [hb] at h3
      cases s with
      | term t => simp at h3
      | nonterm n =>
        simp at h3
        exact ⟨tl, by rw [h3]⟩
  · rintro ⟨h1, h2, tl, h3⟩
    refine ⟨⟨h1, by simpa using h2⟩, ?_⟩
    rw [h3]; simp

/-- what `lrSubst` returns -/
theorem lrSubst_spec (g : G) (Ai Aj : String) :
    lrSubst g Ai Aj = g ∨
    ((lrSubst g Ai Aj).start = g.start ∧ (lrSubst g Ai Aj).nonterms = g.nonterms ∧
     (lrSubst g Ai Aj).terms = g.terms ∧
     ∀ q, q ∈ (lrSubst g Ai Aj).prods ↔
       (q ∈ g.prods ∧ ¬ IsAiAj g Ai Aj q) ∨
       (∃ p r, IsAiAj g Ai Aj p ∧ r ∈ g.prods ∧ r.head = Aj ∧ q = { head := Ai, body := r.body ++ p.body.tail })) := by
  unfold lrSubst
  simp only
  split
  · exact Or.inl rfl
  · right
    refine ⟨rfl, rfl, rfl, ?_⟩
    intro q
    rw [mem_insAll, List.mem_filter, List.mem_flatMap]
    constructor
    · rintro (⟨h1, h2⟩ | ⟨p, hp, hq⟩)
      · exact Or.inl ⟨h1, fun hc => (of_decide_eq_true h2) (mem_AiAj.2 hc)⟩
      · right
        obtain ⟨r, hr, rfl⟩ := List.mem_map.1 hq
        have hr' := List.mem_filter.1 hr
        exact ⟨p, r, mem_AiAj.1 hp, hr'.1, by simpa using hr'.2, rfl⟩
    · rintro (⟨h1, h2⟩ | ⟨p, r, hp, hr1, hr2, rfl⟩)
      · exact Or.inl ⟨h1, decide_eq_true (fun hc => h2 (mem_AiAj.1 hc))⟩
      · right
        exact ⟨p, mem_AiAj.2 hp, List.mem_map.2 ⟨r, List.mem_filter.2 ⟨hr1, by simpa using hr2⟩, rfl⟩⟩

theorem lrSubst_start (g : G) (Ai Aj : String) : (lrSubst g Ai Aj).start = g.start := by
  rcases lrSubst_spec g Ai Aj with h | h
  · rw [h]
  · exact h.1

theorem lrSubst_wf {g : G} (hw : WellFormed g) (Ai Aj : String) : WellFormed (lrSubst g Ai Aj) := by
  rcases lrSubst_spec g Ai Aj with h | ⟨hs, hn, ht, hp⟩
  · rw [h]; exact hw
  · obtain ⟨h1, h2⟩ := hw
    have hdecl : ∀ s, SymDeclared g s → SymDeclared (lrSubst g Ai Aj) s := by
      intro s hs'
      cases s with
      | term t => unfold SymDeclared at hs' ⊢; rw [ht]; exact hs'
      | nonterm n => unfold SymDeclared at hs' ⊢; rw [hn]; exact hs'
    refine ⟨by rw [hs, hn]; exact h1, ?_⟩
    intro q hq
    rcases (hp q).1 hq with ⟨hq1, _⟩ | ⟨p, r, ⟨hp1, hp2, tl, hp3⟩, hr1, _, rfl⟩
    · obtain ⟨a, b⟩ := h2 q hq1
      exact ⟨by rw [hn]; exact a, fun s hs' => hdecl s (b s hs')⟩
    · obtain ⟨a, b⟩ := h2 p hp1
      obtain ⟨_, d⟩ := h2 r hr1
      refine ⟨by rw [hn]; exact hp2 ▸ a, ?_⟩
      intro s hs'
      simp only [List.mem_append] at hs'
      rcases hs' with hs' | hs'
      · exact hdecl s (d s hs')
      · apply hdecl s (b s ?_)
        rw [hp3] at hs' ⊢
        simp at hs'
        simp [hs']

theorem lrSubst_language (g : G) (Ai Aj : String) (w : List String) :
    Language (lrSubst g Ai Aj) w ↔ Language g w := by
  rcases lrSubst_spec g Ai Aj with h | ⟨hs, _, _, hp⟩
  · rw [h]
  · unfold Language
    rw [hs]
    constructor
    · -- every new production is derivable in the old grammar
      apply Derives.of_derivable_prods
      intro q hq
      rcases (hp q).1 hq with ⟨hq1, _⟩ | ⟨p, r, ⟨hp1, hp2, tl, hp3⟩, hr1, hr2, rfl⟩
      · exact Derives.of_prod hq1
      · have d1 : Derives g [Sym.nonterm Ai] (Sym.nonterm Aj :: tl) := by
          have := Derives.of_prod hp1
          rwa [hp2, hp3] at this
        have d2 : Derives g ([Sym.nonterm Aj] ++ tl) (r.body ++ tl) := by
          have := (Derives.of_prod hr1).append_right tl
          rwa [hr2] at this
        simpa [hp3] using d1.trans d2
    · intro d
      obtain ⟨n, dn⟩ := d.toDerivesIn
      refine transfer_of_step (g := g) (g' := lrSubst g Ai Aj) ?_ n _ _ (Terminal.of_map w) dn
      intro n ih u v p γ hpg hγ d'
      by_cases hc : IsAiAj g Ai Aj p
      · -- a removed production: find the first step of the `Aⱼ` it introduced
        obtain ⟨_, hp2, tl, hp3⟩ := hc
        have d'' : DerivesIn g n (u ++ Sym.nonterm Aj :: (tl ++ v)) γ := by
          rw [hp3] at d'; simpa [List.append_assoc] using d'
        obtain ⟨γu, γx, γv, ku, kx, kv, hγe, tu, tx, tv, du, dx, dv, hk⟩ := derivesIn_split3 hγ d''
        obtain ⟨k, r, hkx, hr1, hr2, dr⟩ := derivesIn_of_single tx dx
        have e1 := ih ku (by omega) _ _ tu du
        have e2 := ih k (by omega) _ _ tx dr
        have e3 := ih kv (by omega) _ _ tv dv
        have hq : ({ head := Ai, body := r.body ++ p.body.tail } : SProd) ∈ (lrSubst g Ai Aj).prods :=
          (hp _).2 (Or.inr ⟨p, r, ⟨hpg, hp2, tl, hp3⟩, hr1, hr2, rfl⟩)
        have s1 := Derives.single (Step.mk (g := lrSubst g Ai Aj) u v _ hq)
        simp only [hp3, List.tail_cons] at s1
        rw [hp2]
        refine s1.trans ?_
        rw [hγe]
        have := (e1.append (e2.append e3))
        simpa [List.append_assoc] using this
      · have hq : p ∈ (lrSubst g Ai Aj).prods := (hp p).2 (Or.inl ⟨hpg, hc⟩)
        exact Derives.head (Step.mk u v p hq) (ih n (by omega) _ _ hγ d')

end AlgoVerif.C08
