import AlgoVerif.Proofs.C11Complete
import AlgoVerif.Proofs.C11Check
/-!
# C11 — the executable completeness validator implies `CompleteTable`
-/
namespace AlgoVerif.C11.Complete
open AlgoVerif AlgoVerif.Gram AlgoVerif.C11 AlgoVerif.C11.Spec

theorem itemsAt_get {S : StateMap} {s : Int} {it : Item} (h : it ∈ itemsAt S s) :
    ∃ (n : Nat) (I : List Item), s = (n : Int) ∧ S[n]? = some I ∧ itemsAt S s = I := by
  obtain ⟨h0, hlt⟩ := Sound.itemsAt_mem_range h
  refine ⟨s.toNat, S[s.toNat], (Int.toNat_of_nonneg h0).symm, List.getElem?_eq_getElem hlt, ?_⟩
  unfold itemsAt
  have : ¬ s < 0 := by omega
  simp [this, List.getD, List.getElem?_eq_getElem hlt]

theorem cell_len {T : Table} (h : chkConflictFree T = true) (s : Int) (a : String) : (T.cell s a).length ≤ 1 := by
  unfold Table.cell
  cases hl : T.actions.lookup (s, a) with
  | none => simp
  | some acts =>
    have hmem := Sound.lookup_mem _ _ _ hl
    unfold chkConflictFree at h
    rw [List.all_eq_true] at h
    simpa using h _ hmem

theorem completeTable_of_check (g : SGrammar) (b : Built) (hv : completeLR1OK g b = true) :
    ∃ g' nl fe, CompleteTable g b.start nl fe (itemsAt b.states) b.table.toTbl ∧ augment g = Outcome.ok g' := by
  unfold completeLR1OK at hv
  cases ha : augment g with
  | panic => simp [ha] at hv
  | diverge => simp [ha] at hv
  | ok g' =>
    simp only [ha, Bool.and_eq_true, beq_iff_eq] at hv
    obtain ⟨⟨⟨⟨⟨⟨⟨⟨⟨hstart, hnull⟩, hfirst⟩, hinit⟩, hall⟩, hclosed⟩, hadv⟩, hred⟩, hcf⟩, hfresh⟩ := hv
    refine ⟨g', nullableOf g', firstEnv g' (nullableOf g'), ?_, rfl⟩
    -- g.prods ⊆ g'.prods
    have hsub : ∀ p ∈ g.prods, p ∈ g'.prods := by
      intro p hp
      unfold augment at ha
      cases hs : augStart g with
      | none => simp [hs] at ha
      | some s' =>
        simp only [hs, Outcome.ok.injEq] at ha
        subst ha
        simp [Built.mem_dedupProds, hp]
    have hfreshP : ∀ p ∈ g.prods, p.head ≠ b.start := by
      unfold chkFresh at hfresh
      simp only [Bool.and_eq_true, Bool.not_eq_true', List.all_eq_true, beq_eq_false_iff_ne, ne_eq] at hfresh
      exact hfresh.2
    have hla : ∀ s it, it ∈ itemsAt b.states s → ∃ a, it.la = some a := by
      intro s it hit
      obtain ⟨n, I, _, hI, heq⟩ := itemsAt_get hit
      unfold chkAllLR1 at hall
      simp only [List.all_eq_true] at hall
      have := hall I (List.mem_of_getElem? hI) it (heq ▸ hit)
      exact Option.isSome_iff_exists.mp this
    refine ⟨?_, ?_, ?_, ?_, ?_, ?_, ?_, ?_, ?_, hfreshP⟩
    · -- initial item
      unfold chkInitLR1 at hinit
      simpa using hinit
    · -- closed
      intro s it B a hit hdot hita p hp hhead b' hb'
      obtain ⟨n, I, _, hI, heq⟩ := itemsAt_get hit
      unfold chkClosed at hclosed
      simp only [List.all_eq_true] at hclosed
      have := hclosed I (List.mem_of_getElem? hI) it (heq ▸ hit)
      simp only [hdot, hita, List.all_eq_true] at this
      have hp' : p ∈ prodsOf g' B := by
        simp [prodsOf, hsub p hp, hhead]
      have := this p hp' b' hb'
      rw [heq]
      simpa using this
    · -- advance on a terminal
      intro s it a hit hdot
      obtain ⟨n, I, hs, hI, heq⟩ := itemsAt_get hit
      unfold chkAdvance at hadv
      simp only [List.all_eq_true] at hadv
      have := hadv (I, n) (List.mem_zipIdx_iff_getElem?.mpr hI) it (heq ▸ hit)
      simp only [hdot, List.any_eq_true] at this
      obtain ⟨act, hact, hok⟩ := this
      cases act with
      | shift t => exact ⟨t, by rw [hs]; exact hact, by simpa using hok⟩
      | reduce p => simp at hok
      | accept => simp at hok
    · -- advance on a non-terminal
      intro s it A hit hdot
      obtain ⟨n, I, hs, hI, heq⟩ := itemsAt_get hit
      unfold chkAdvance at hadv
      simp only [List.all_eq_true] at hadv
      have := hadv (I, n) (List.mem_zipIdx_iff_getElem?.mpr hI) it (heq ▸ hit)
      simp only [hdot] at this
      cases hg : b.table.goto (n : Int) A with
      | none => simp [hg] at this
      | some t =>
        simp only [hg] at this
        exact ⟨t, by rw [hs]; exact hg, by simpa using this⟩
    · -- reduce
      intro s it a hit hcomp hita hhead
      obtain ⟨n, I, hs, hI, heq⟩ := itemsAt_get hit
      unfold chkReduceComplete at hred
      simp only [List.all_eq_true] at hred
      have := hred (I, n) (List.mem_zipIdx_iff_getElem?.mpr hI) it (heq ▸ hit)
      have hh : (it.prod.head == b.start) = false := by simpa using hhead
      simp only [hcomp, if_true, hh, Bool.false_eq_true, if_false, hita, List.all_cons, List.all_nil,
        Bool.and_true] at this
      rw [hs]
      show Action.reduce it.prod ∈ b.table.cell (n : Int) a
      simpa using this
    · -- accept
      intro s it hit hcomp hhead
      obtain ⟨n, I, hs, hI, heq⟩ := itemsAt_get hit
      unfold chkReduceComplete at hred
      simp only [List.all_eq_true] at hred
      have := hred (I, n) (List.mem_zipIdx_iff_getElem?.mpr hI) it (heq ▸ hit)
      have hh : (it.prod.head == b.start) = true := by simpa using hhead
      simp only [hcomp, if_true, hh] at this
      rw [hs]
      show Action.accept ∈ b.table.cell (n : Int) endmarker
      simpa using this
    · exact fun s a => cell_len hcf s a
    · -- nullable closed
      intro p hp hall'
      unfold chkNullClosed at hnull
      simp only [List.all_eq_true, Bool.or_eq_true, Bool.not_eq_true'] at hnull
      rcases hnull p (hsub p hp) with h1 | h1
      · rw [hall'] at h1; cases h1
      · simpa using h1
    · -- FIRST closed
      intro p hp c hc
      unfold chkFirstClosed at hfirst
      simp only [List.all_eq_true] at hfirst
      simpa using hfirst p (hsub p hp) c hc

end AlgoVerif.C11.Complete
