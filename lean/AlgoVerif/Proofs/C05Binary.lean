import AlgoVerif.Model.C05
import AlgoVerif.Proofs.C05Hole
import AlgoVerif.Proofs.C05Spec
/-!
# C05 helper lemmas: the indexed binary heap Model keeps its invariant and refines the Spec
-/
namespace AlgoVerif.C05.IBinary
open AlgoVerif.C05.Hole
variable {K V : Type}

/-- key at heap position `p` (`none` where the Go expression `h.kvs[h.heap[p]].Key` would panic) -/
def keyP (h : IBinary K V) (p : Nat) : Option K :=
  match h.heap[p]? with
  | none => none
  | some i =>
    match h.kvs[i]? with
    | some (some (k, _)) => some k
    | _ => none

theorem keyAt_eq (h : IBinary K V) (p : Nat) :
    h.keyAt p = match keyP h p with | some k => .ok k | none => .panic := by
  unfold keyAt keyP
  split
  · simp [*]
  · rename_i i hi
    simp only [hi]
    split <;> simp_all

/-- `heap` and `pos` are mutually inverse on positions `1..N`, `pos[i] = -1 ↔ kvs[i] = nil` -/
structure Wf (cap N : Nat) (h : IBinary K V) : Prop where
  hsize : h.heap.size = cap + 1
  psize : h.pos.size = cap
  ksize : h.kvs.size = cap
  nle : N ≤ cap
  fwd : ∀ k, 1 ≤ k → k ≤ N →
    ∃ i, h.heap[k]? = some i ∧ i < cap ∧ h.pos[i]? = some (k : Int) ∧ ∃ e, h.kvs[i]? = some (some e)
  bwd : ∀ i, i < cap →
    (h.pos[i]? = some (-1) ∧ h.kvs[i]? = some none) ∨
    (∃ k, 1 ≤ k ∧ k ≤ N ∧ h.pos[i]? = some (k : Int) ∧ h.heap[k]? = some i ∧ ∃ e, h.kvs[i]? = some (some e))

theorem swap_spec {cap N : Nat} {h : IBinary K V} (w : Wf cap N h) {i j : Nat}
    (hi1 : 1 ≤ i) (hiN : i ≤ N) (hj1 : 1 ≤ j) (hjN : j ≤ N) :
    ∃ h', h.swap i j = .ok h' ∧ Wf cap N h' ∧ h'.n = h.n ∧ h'.kvs = h.kvs ∧
      (∀ p, h'.heap[p]? = h.heap[tr i j p]?) := by
  obtain ⟨a, ha, hac, hpa, ea, hka⟩ := w.fwd i hi1 hiN
  obtain ⟨b, hb, hbc, hpb, eb, hkb⟩ := w.fwd j hj1 hjN
  have hsz := w.hsize; have psz := w.psize; have ksz := w.ksize; have nle := w.nle
  refine ⟨{ h with heap := (h.heap.setIfInBounds i b).setIfInBounds j a,
                      pos := (h.pos.setIfInBounds b (i : Int)).setIfInBounds a (j : Int) }, ?_, ?_, ?_, ?_, ?_⟩
  · unfold swap; simp only [ha, hb]; rw [if_pos (by omega)]
  · constructor
    · simp; exact hsz
    · simp; exact psz
    · exact ksz
    · exact nle
    · intro k hk1 hkN
      obtain ⟨c, hc, hcc, hpc, ec, hkc⟩ := w.fwd k hk1 hkN
      simp only [Array.getElem?_setIfInBounds]
      grind
    · intro x hx
      simp only [Array.getElem?_setIfInBounds]
      by_cases hxa : x = a
      · subst hxa
        exact Or.inr ⟨j, hj1, hjN, by grind, by grind, ea, hka⟩
      · by_cases hxb : x = b
        · subst hxb
          have hij : i ≠ j := by grind
          exact Or.inr ⟨i, hi1, hiN, by grind, by grind, eb, hkb⟩
        · rcases w.bwd x hx with ⟨h1, h2⟩ | ⟨k, hk1, hkN, hpk, hhk, e, hke⟩
          · exact Or.inl ⟨by grind, h2⟩
          · exact Or.inr ⟨k, hk1, hkN, by grind, by grind, e, hke⟩
  · rfl
  · rfl
  · intro p
    simp only [Array.getElem?_setIfInBounds, tr]
    grind

theorem keyP_of_heap_eq {h h' : IBinary K V} (hk : h'.kvs = h.kvs) {p q : Nat}
    (hh : h'.heap[p]? = h.heap[q]?) : keyP h' p = keyP h q := by
  unfold keyP; rw [hh, hk]

theorem keyP_some {cap N : Nat} {h : IBinary K V} (w : Wf cap N h) {p : Nat} (h1 : 1 ≤ p) (hN : p ≤ N) :
    ∃ k, keyP h p = some k := by
  obtain ⟨i, hi, _, _, ⟨k, v⟩, hk⟩ := w.fwd p h1 hN
  exact ⟨k, by unfold keyP; simp [hi, hk]⟩

theorem compare_spec (cmp : K → K → Int) {cap N : Nat} {h : IBinary K V} (w : Wf cap N h) {a b : Nat}
    (ha1 : 1 ≤ a) (haN : a ≤ N) (hb1 : 1 ≤ b) (hbN : b ≤ N) :
    ∃ ka kb, keyP h a = some ka ∧ keyP h b = some kb ∧ h.compare cmp a b = .ok (cmp ka kb) := by
  obtain ⟨ka, hka⟩ := keyP_some w ha1 haN
  obtain ⟨kb, hkb⟩ := keyP_some w hb1 hbN
  refine ⟨ka, kb, hka, hkb, ?_⟩
  unfold compare
  rw [keyAt_eq, keyAt_eq, hka, hkb]

variable {cmp : K → K → Int}

theorem promote_spec (hc : LawfulCmp cmp) {cap N : Nat} :
    ∀ (fuel : Nat) (h : IBinary K V) (k : Nat), Wf cap N h → h.n ≤ N → 1 ≤ k → k ≤ h.n → k < fuel →
      Hole cmp (keyP h) h.n k →
      ∃ h' k', h.promote cmp fuel k = .ok h' ∧ Wf cap N h' ∧ h'.n = h.n ∧ h'.kvs = h.kvs ∧
        1 ≤ k' ∧ k' ≤ k ∧ h'.heap[k']? = h.heap[k]? ∧ DownHole cmp (keyP h') h.n k' ∧
        (ChildOK cmp (keyP h) h.n k → ChildOK cmp (keyP h') h.n k') ∧
        (∀ p, k < p → h'.heap[p]? = h.heap[p]?) ∧ (k' < k → Ord cmp (keyP h') h.n) := by
  intro fuel
  induction fuel with
  | zero => intro h k _ _ _ _ hf; omega
  | succ fuel ih =>
    intro h k w hnN hk1 hkn hf hole
    rw [promote]
    by_cases hk : 1 < k
    · rw [if_pos hk]
      obtain ⟨kp, kk, hkp, hkk, hcmp⟩ := compare_spec cmp w (a := k / 2) (b := k) (by omega) (by omega) hk1 (by omega)
      rw [hcmp]
      by_cases hpos : 0 < cmp kp kk
      · simp only [hpos, if_true]
        obtain ⟨h1, hsw, w1, hn1, hkv1, hheap1⟩ := swap_spec w (i := k) (j := k / 2) hk1 (by omega) (by omega) (by omega)
        rw [hsw]
        have hkey : ∀ p, keyP h1 p = keyP h (tr k (k / 2) p) := fun p => keyP_of_heap_eq hkv1 (hheap1 p)
        have hlt : LeP cmp (keyP h) k (k / 2) := ⟨kk, kp, hkk, hkp, hc.anti _ _ (by omega)⟩
        have hole1 : Hole cmp (keyP h1) h1.n (k / 2) := by
          rw [hn1]; exact hole_up hc hkey hk hkn hole hlt
        have hch1 : ChildOK cmp (keyP h1) h1.n (k / 2) := by
          rw [hn1]; exact child_up hc hkey hk hkn hole hlt
        obtain ⟨h', k', hpr, w', hn', hkv', hk'1, hk'k, hheap', hdown, hchild, hrest, _⟩ :=
          ih h1 (k / 2) w1 (by omega) (by omega) (by omega) (by omega) hole1
        refine ⟨h', k', hpr, w', by omega, by rw [hkv', hkv1], hk'1, by omega, ?_, ?_, ?_, ?_, ?_⟩
        · rw [hheap', hheap1, tr_right]
        · rw [← hn1]; exact hdown
        · intro _; rw [← hn1]; exact hchild hch1
        · intro p hp
          rw [hrest p (by omega), hheap1, tr_other (by omega) (by omega)]
        · intro _; rw [← hn1]; exact down_stop hdown (hchild hch1)
      · simp only [hpos, if_false]
        refine ⟨h, k, rfl, w, rfl, rfl, hk1, Nat.le_refl _, rfl, ?_, id, fun _ _ => rfl, fun h => absurd h (Nat.lt_irrefl _)⟩
        exact hole_stop hole (Or.inr ⟨kp, kk, hkp, hkk, by omega⟩)
    · rw [if_neg hk]
      refine ⟨h, k, rfl, w, rfl, rfl, hk1, Nat.le_refl _, rfl, ?_, id, fun _ _ => rfl, fun h => absurd h (Nat.lt_irrefl _)⟩
      exact hole_stop hole (Or.inl (by omega))

/-- `promote` at a position whose parent is already before it does nothing
(used for `DeleteIndex` of the last position) -/
theorem promote_noop {cap N : Nat} {h : IBinary K V} (w : Wf cap N h) {k fuel : Nat} (hk1 : 1 ≤ k)
    (hkN : k ≤ N) (hle : k ≤ 1 ∨ LeP cmp (keyP h) (k / 2) k) :
    h.promote cmp (fuel + 1) k = .ok h := by
  rw [promote]
  by_cases hk : 1 < k
  · rw [if_pos hk]
    obtain ⟨kp, kk, hkp, hkk, hcmp⟩ := compare_spec cmp w (a := k / 2) (b := k) (by omega) (by omega) hk1 hkN
    rw [hcmp]
    rcases hle with hle | ⟨kp', kk', hkp', hkk', hle⟩
    · omega
    · have : kp = kp' := by rw [hkp] at hkp'; exact Option.some.inj hkp'
      have : kk = kk' := by rw [hkk] at hkk'; exact Option.some.inj hkk'
      subst_vars
      simp [show ¬ (0 < cmp kp' kk') by omega]
  · rw [if_neg hk]

theorem pickChild_spec (hc : LawfulCmp cmp) {cap N : Nat} {h : IBinary K V} (w : Wf cap N h)
    (hnN : h.n ≤ N) {k : Nat} (hk1 : 1 ≤ k) (h2k : 2 * k ≤ h.n) :
    ∃ j, h.pickChild cmp (2 * k) = .ok j ∧ j / 2 = k ∧ 2 ≤ j ∧ j ≤ h.n ∧
      ∀ s, 2 ≤ s → s ≤ h.n → s / 2 = k → LeP cmp (keyP h) j s := by
  unfold pickChild
  by_cases hlt : 2 * k < h.n
  · rw [if_pos hlt]
    obtain ⟨k1, k0, hk1', hk0', hcmp⟩ :=
      compare_spec cmp w (a := 2 * k + 1) (b := 2 * k) (by omega) (by omega) (by omega) (by omega)
    rw [hcmp]
    by_cases hneg : cmp k1 k0 < 0
    · refine ⟨2 * k + 1, by simp [hneg], by omega, by omega, by omega, ?_⟩
      intro s hs2 hsn hsk
      have : s = 2 * k ∨ s = 2 * k + 1 := by omega
      rcases this with rfl | rfl
      · exact ⟨k1, k0, hk1', hk0', by omega⟩
      · exact LeP.refl hc hk1'
    · refine ⟨2 * k, by simp [hneg], by omega, by omega, by omega, ?_⟩
      intro s hs2 hsn hsk
      have : s = 2 * k ∨ s = 2 * k + 1 := by omega
      rcases this with rfl | rfl
      · exact LeP.refl hc hk0'
      · exact ⟨k0, k1, hk0', hk1', hc.anti _ _ (by omega)⟩
  · rw [if_neg hlt]
    obtain ⟨k0, hk0⟩ := keyP_some w (p := 2 * k) (by omega) (by omega)
    refine ⟨2 * k, rfl, by omega, by omega, by omega, ?_⟩
    intro s hs2 hsn hsk
    have : s = 2 * k := by omega
    subst this
    exact LeP.refl hc hk0

theorem demote_spec (hc : LawfulCmp cmp) {cap N : Nat} :
    ∀ (fuel : Nat) (h : IBinary K V) (k : Nat), Wf cap N h → h.n ≤ N → 1 ≤ k → k ≤ N → h.n < fuel + k →
      0 < fuel → DownHole cmp (keyP h) h.n k →
      ∃ h', h.demote cmp fuel k = .ok h' ∧ Wf cap N h' ∧ h'.n = h.n ∧ h'.kvs = h.kvs ∧
        Ord cmp (keyP h') h.n ∧ (∀ p, h.n < p → h'.heap[p]? = h.heap[p]?) := by
  intro fuel
  induction fuel with
  | zero =>
    intro h k w hnN hk1 hkN hf hf0 hd
    omega
  | succ fuel ih =>
    intro h k w hnN hk1 hkN hf _ hd
    rw [demote]
    by_cases h2k : 2 * k ≤ h.n
    · rw [if_pos h2k]
      obtain ⟨j, hpick, hjk, hj2, hjn, hsib⟩ := pickChild_spec hc w hnN hk1 h2k
      rw [hpick]
      obtain ⟨kk, kj, hkk, hkj, hcmp⟩ := compare_spec cmp w (a := k) (b := j) hk1 hkN (by omega) (by omega)
      simp only [hcmp]
      by_cases hneg : cmp kk kj < 0
      · rw [if_pos hneg]
        refine ⟨h, rfl, w, rfl, rfl, ?_, fun _ _ => rfl⟩
        apply down_stop hd
        intro s hs2 hsn hsk
        exact LeP.trans hc ⟨kk, kj, hkk, hkj, by omega⟩ (hsib s hs2 hsn hsk)
      · rw [if_neg hneg]
        obtain ⟨h1, hsw, w1, hn1, hkv1, hheap1⟩ := swap_spec w (i := k) (j := j) hk1 hkN (by omega) (by omega)
        rw [hsw]
        have hkey : ∀ p, keyP h1 p = keyP h (tr k j p) := fun p => keyP_of_heap_eq hkv1 (hheap1 p)
        have hle : LeP cmp (keyP h) j k := ⟨kj, kk, hkj, hkk, hc.anti _ _ (by omega)⟩
        have hd1 : DownHole cmp (keyP h1) h1.n j := by
          rw [hn1]; exact down_step hc hkey hk1 hjk hj2 hjn hd hsib hle
        obtain ⟨h', hde, w', hn', hkv', hord, hrest⟩ :=
          ih h1 j w1 (by omega) (by omega) (by omega) (by omega) (by omega) hd1
        refine ⟨h', hde, w', by omega, by rw [hkv', hkv1], by rw [← hn1]; exact hord, ?_⟩
        intro p hp
        rw [hrest p (by omega), hheap1, tr_other (by omega) (by omega)]
    · rw [if_neg h2k]
      refine ⟨h, rfl, w, rfl, rfl, ?_, fun _ _ => rfl⟩
      apply down_stop hd
      intro s hs2 hsn hsk
      omega

/-! ### abstraction and invariant -/

/-- the abstract map of a state: `i ↦ kvs[i]` -/
def abs (h : IBinary K V) : Spec.Map K V := fun i =>
  if 0 ≤ i ∧ i < (h.kvs.size : Int) then (h.kvs[i.toNat]?).join else none

structure Inv (cmp : K → K → Int) (cap : Nat) (h : IBinary K V) : Prop where
  wf : Wf cap h.n h
  ord : Ord cmp (keyP h) h.n
  card : h.n = Spec.card cap (abs h)

theorem abs_nat {h : IBinary K V} {i : Nat} (hi : i < h.kvs.size) : abs h (i : Int) = (h.kvs[i]?).join := by
  unfold abs
  rw [if_pos (by omega)]
  simp

theorem abs_out {h : IBinary K V} {cap : Nat} (hs : h.kvs.size = cap) {i : Int} (hi : ¬ Spec.InRange cap i) :
    abs h i = none := by
  unfold abs Spec.InRange at *
  rw [if_neg (by omega)]

theorem abs_congr {h h' : IBinary K V} (hk : h'.kvs = h.kvs) : abs h' = abs h := by
  unfold abs; rw [hk]

theorem abs_set {h h' : IBinary K V} {i : Nat} {e : Option (K × V)} (hi : i < h.kvs.size)
    (hk : h'.kvs = h.kvs.setIfInBounds i e) : abs h' = (abs h).set (i : Int) e := by
  funext j
  unfold abs Spec.Map.set
  rw [hk]
  simp only [Array.size_setIfInBounds]
  by_cases hj : 0 ≤ j ∧ j < (h.kvs.size : Int)
  · rw [if_pos hj, if_pos hj]
    by_cases hji : j = (i : Int)
    · subst hji; simp [hi]
    · rw [if_neg hji, Array.getElem?_setIfInBounds]
      rw [if_neg (by omega)]
  · rw [if_neg hj, if_neg hj]
    rw [if_neg (by omega)]

theorem held_of_abs {cap N : Nat} {h : IBinary K V} (w : Wf cap N h) {i : Int} {e : K × V}
    (ha : abs h i = some e) :
    Spec.InRange cap i ∧ h.kvs[i.toNat]? = some (some e) ∧
      ∃ k, 1 ≤ k ∧ k ≤ N ∧ h.pos[i.toNat]? = some (k : Int) ∧ h.heap[k]? = some i.toNat := by
  have ks := w.ksize
  unfold abs at ha
  split at ha
  · rename_i hr
    have hlt : i.toNat < cap := by omega
    have hkv : h.kvs[i.toNat]? = some (some e) := by
      cases hx : h.kvs[i.toNat]? with
      | none => simp [hx] at ha
      | some o => cases o with
        | none => simp [hx] at ha
        | some e' => simp [hx] at ha; rw [ha]
    refine ⟨⟨hr.1, by omega⟩, hkv, ?_⟩
    rcases w.bwd i.toNat hlt with ⟨_, h2⟩ | ⟨k, hk1, hkN, hp, hh, _⟩
    · rw [hkv] at h2; simp at h2
    · exact ⟨k, hk1, hkN, hp, hh⟩
  · simp at ha

theorem abs_none_of {cap N : Nat} {h : IBinary K V} (w : Wf cap N h) {i : Nat} (hi : i < cap)
    (hp : h.pos[i]? = some (-1)) : abs h (i : Int) = none := by
  rw [abs_nat (by rw [w.ksize]; exact hi)]
  rcases w.bwd i hi with ⟨_, h2⟩ | ⟨k, hk1, _, hpk, _⟩
  · rw [h2]; rfl
  · rw [hp] at hpk; simp at hpk

theorem containsIndex_spec {cap N : Nat} {h : IBinary K V} (w : Wf cap N h) (i : Int) :
    h.containsIndex i = .ok (abs h i).isSome := by
  have ks := w.ksize
  unfold containsIndex
  by_cases hr : 0 ≤ i ∧ i < (h.kvs.size : Int)
  · rw [if_pos hr]
    have hlt : i.toNat < cap := by omega
    have hi : ((i.toNat : Nat) : Int) = i := by omega
    rcases w.bwd i.toNat hlt with ⟨h1, h2⟩ | ⟨k, hk1, hkN, hp, hh, e, he⟩
    · have := abs_none_of w hlt h1
      rw [hi] at this
      simp [h1, this]
    · have : abs h i = some e := by
        rw [← hi, abs_nat (by omega), he]; rfl
      simp [hp, this]
  · rw [if_neg hr]
    have : abs h i = none := abs_out ks (by unfold Spec.InRange; omega)
    simp [this]

theorem keyP_congr_kvs {h h' : IBinary K V} {p : Nat} (hh : h'.heap[p]? = h.heap[p]?)
    (hk : ∀ i, h.heap[p]? = some i → h'.kvs[i]? = h.kvs[i]?) : keyP h' p = keyP h p := by
  unfold keyP
  rw [hh]
  cases hx : h.heap[p]? with
  | none => rfl
  | some i => simp only []; rw [hk i hx]

theorem clear_spec {cap m : Nat} {h : IBinary K V} (w : Wf cap (m + 1) h) {i : Nat}
    (hi : h.heap[m + 1]? = some i) :
    ∃ h', h.clearIndex i = .ok h' ∧ Wf cap m h' ∧ h'.n = h.n ∧
      h'.kvs = h.kvs.setIfInBounds i none ∧ i < h.kvs.size ∧ (∀ p, 1 ≤ p → p ≤ m → keyP h' p = keyP h p) := by
  obtain ⟨i', hi', hic, hpi, ei, hki⟩ := w.fwd (m + 1) (by omega) (by omega)
  have : i' = i := by rw [hi] at hi'; exact (Option.some.inj hi').symm
  subst this
  have hsz := w.hsize; have psz := w.psize; have ksz := w.ksize; have nle := w.nle
  -- every other live position holds a different index
  have hne : ∀ k, 1 ≤ k → k ≤ m → ∀ c, h.heap[k]? = some c → c ≠ i' := by
    intro k hk1 hkm c hc hci
    obtain ⟨c', hc', _, hpc, _⟩ := w.fwd k hk1 (by omega)
    have : c' = c := by rw [hc] at hc'; exact (Option.some.inj hc').symm
    subst this; subst hci
    rw [hpi] at hpc; simp at hpc; omega
  refine ⟨{ h with pos := h.pos.setIfInBounds i' (-1), kvs := h.kvs.setIfInBounds i' none }, ?_, ?_, rfl, rfl,
    by omega, ?_⟩
  · unfold clearIndex; rw [if_pos (by omega)]
  · constructor
    · exact hsz
    · simp; exact psz
    · simp; exact ksz
    · omega
    · intro k hk1 hkm
      obtain ⟨c, hc, hcc, hpc, ec, hkc⟩ := w.fwd k hk1 (by omega)
      have := hne k hk1 hkm c hc
      refine ⟨c, hc, hcc, ?_, ec, ?_⟩
      · simp only [Array.getElem?_setIfInBounds]; rw [if_neg (by omega)]; exact hpc
      · simp only [Array.getElem?_setIfInBounds]; rw [if_neg (by omega)]; exact hkc
    · intro x hx
      by_cases hxi : x = i'
      · subst hxi
        left
        simp only [Array.getElem?_setIfInBounds]
        simp; omega
      · rcases w.bwd x hx with ⟨h1, h2⟩ | ⟨k, hk1, hkN, hp, hh, e, he⟩
        · left
          simp only [Array.getElem?_setIfInBounds]
          rw [if_neg (by omega), if_neg (by omega)]; exact ⟨h1, h2⟩
        · right
          have hkm : k ≤ m := by
            by_cases hkk : k = m + 1
            · subst hkk; rw [hi] at hh; exact absurd (Option.some.inj hh).symm hxi
            · omega
          refine ⟨k, hk1, hkm, ?_, hh, e, ?_⟩
          · simp only [Array.getElem?_setIfInBounds]; rw [if_neg (by omega)]; exact hp
          · simp only [Array.getElem?_setIfInBounds]; rw [if_neg (by omega)]; exact he
  · intro p hp1 hpm
    refine keyP_congr_kvs (h := h) rfl ?_
    intro c hc
    have := hne p hp1 hpm c hc
    show (h.kvs.setIfInBounds i' none)[c]? = h.kvs[c]?
    rw [Array.getElem?_setIfInBounds, if_neg (by omega)]

/-! ### the operations -/

theorem free_of_abs_none {cap N : Nat} {h : IBinary K V} (w : Wf cap N h) {j : Nat} (hj : j < cap)
    (ha : abs h (j : Int) = none) : h.pos[j]? = some (-1) ∧ h.kvs[j]? = some none := by
  rcases w.bwd j hj with hl | ⟨k, _, _, _, _, e, he⟩
  · exact hl
  · rw [abs_nat (by rw [w.ksize]; exact hj), he] at ha
    simp at ha

/-- the state of `Insert` just before `promote` -/
def insertRaw (h : IBinary K V) (j : Nat) (key : K) (val : V) : IBinary K V :=
  { n := h.n + 1, heap := h.heap.setIfInBounds (h.n + 1) j,
    pos := h.pos.setIfInBounds j ((h.n + 1 : Nat) : Int),
    kvs := h.kvs.setIfInBounds j (some (key, val)) }

theorem insert_free_eq (h : IBinary K V) (i : Int) (key : K) (val : V)
    (hr : ¬ (i < 0 ∨ i ≥ (h.kvs.size : Int))) (hc : h.containsIndex i = .ok false)
    (hb : h.n + 1 < h.heap.size ∧ i.toNat < h.pos.size ∧ i.toNat < h.kvs.size) :
    h.insert cmp i key val =
      match (insertRaw h i.toNat key val).promote cmp (h.n + 1 + 1) (h.n + 1) with
      | .ok h2 => .ok (h2, true)
      | .panic => .panic
      | .diverge => .diverge := by
  unfold insert insertRaw
  rw [if_neg hr, hc]
  simp only []
  rw [if_pos hb]
  rfl

theorem insert_sim (hc : LawfulCmp cmp) {eq : V → V → Bool} {cap : Nat} {h : IBinary K V}
    (inv : Inv cmp cap h) (i : Int) (key : K) (val : V) :
    ∃ h' b, h.insert cmp i key val = .ok (h', b) ∧ Inv cmp cap h' ∧
      Spec.Admit cmp eq cap (abs h) (.insert i key val) (.bool b) (abs h') := by
  have w := inv.wf
  have ks := w.ksize; have ps := w.psize; have hs := w.hsize
  by_cases hr : i < 0 ∨ i ≥ (h.kvs.size : Int)
  · refine ⟨h, false, by unfold insert; rw [if_pos hr], inv, .insert_fail ?_⟩
    intro hh; unfold Spec.InRange at hh; omega
  · have hci := containsIndex_spec w i
    cases ha : abs h i with
    | some e =>
      rw [ha] at hci
      refine ⟨h, false, by unfold insert; rw [if_neg hr, hci]; rfl, inv, .insert_fail ?_⟩
      intro hh; rw [ha] at hh; exact absurd hh.2 (by simp)
    | none =>
      rw [ha] at hci
      have hrange : Spec.InRange cap i := by unfold Spec.InRange; omega
      have hjc : i.toNat < cap := by omega
      have hji : ((i.toNat : Nat) : Int) = i := by omega
      have hncap : h.n < cap := by rw [inv.card]; exact Spec.card_lt_of_free hrange ha
      obtain ⟨hpj, hkj⟩ := free_of_abs_none w hjc (by rw [hji]; exact ha)
      rw [insert_free_eq h i key val hr hci (by omega)]
      generalize hh1 : insertRaw h i.toNat key val = h1
      have h1n : h1.n = h.n + 1 := by rw [← hh1]; rfl
      have h1heap : h1.heap = h.heap.setIfInBounds (h.n + 1) i.toNat := by rw [← hh1]; rfl
      have h1pos : h1.pos = h.pos.setIfInBounds i.toNat ((h.n + 1 : Nat) : Int) := by rw [← hh1]; rfl
      have h1kvs : h1.kvs = h.kvs.setIfInBounds i.toNat (some (key, val)) := by rw [← hh1]; rfl
      -- other live positions hold other indices
      have hne : ∀ k, 1 ≤ k → k ≤ h.n → ∀ c, h.heap[k]? = some c → c ≠ i.toNat := by
        intro k hk1 hkn c hcc hci'
        obtain ⟨c', hc', _, _, e, he⟩ := w.fwd k hk1 hkn
        have : c' = c := by rw [hcc] at hc'; exact (Option.some.inj hc').symm
        subst this; subst hci'
        rw [hkj] at he; simp at he
      have w1 : Wf cap (h.n + 1) h1 := by
        constructor
        · rw [h1heap]; simp; exact hs
        · rw [h1pos]; simp; exact ps
        · rw [h1kvs]; simp; exact ks
        · omega
        · intro k hk1 hkn
          rw [h1heap, h1pos, h1kvs]
          simp only [Array.getElem?_setIfInBounds]
          by_cases hk : k = h.n + 1
          · subst hk
            exact ⟨i.toNat, by simp; omega, hjc, by simp; omega, (key, val), by simp; omega⟩
          · obtain ⟨c, hcc, hccap, hpc, e, he⟩ := w.fwd k hk1 (by omega)
            have := hne k hk1 (by omega) c hcc
            refine ⟨c, ?_, hccap, ?_, e, ?_⟩
            · rw [if_neg (by omega)]; exact hcc
            · rw [if_neg (by omega)]; exact hpc
            · rw [if_neg (by omega)]; exact he
        · intro x hx
          rw [h1heap, h1pos, h1kvs]
          simp only [Array.getElem?_setIfInBounds]
          by_cases hxj : x = i.toNat
          · subst hxj
            right
            exact ⟨h.n + 1, by omega, by omega, by simp; omega, by simp; omega, (key, val), by simp; omega⟩
          · rcases w.bwd x hx with ⟨p1, p2⟩ | ⟨k, hk1, hkn, hp, hh, e, he⟩
            · left; rw [if_neg (by omega), if_neg (by omega)]; exact ⟨p1, p2⟩
            · right
              refine ⟨k, hk1, by omega, ?_, ?_, e, ?_⟩
              · rw [if_neg (by omega)]; exact hp
              · rw [if_neg (by omega)]; exact hh
              · rw [if_neg (by omega)]; exact he
      have hkey : ∀ q, 1 ≤ q → q ≤ h.n → keyP h1 q = keyP h q := by
        intro q hq1 hqn
        refine keyP_congr_kvs ?_ ?_
        · rw [h1heap, Array.getElem?_setIfInBounds, if_neg (by omega)]
        · intro c hcc
          have := hne q hq1 hqn c hcc
          rw [h1kvs, Array.getElem?_setIfInBounds, if_neg (by omega)]
      have hord1 : Ord cmp (keyP h1) h.n := ord_congr hkey inv.ord
      have hole1 : Hole cmp (keyP h1) h1.n (h.n + 1) := by
        rw [h1n]
        constructor
        · intro j hj2 hjm hjk _; exact hord1 j hj2 (by omega)
        · intro j hj2 hjm hjp _; omega
      have hch1 : ChildOK cmp (keyP h1) h1.n (h.n + 1) := by
        rw [h1n]; intro j hj2 hjm hjp; omega
      obtain ⟨h2, k', hpr, w2, hn2, hkv2, _, _, _, hdown, hchild, _, _⟩ :=
        promote_spec hc (h.n + 1 + 1) h1 (h.n + 1) w1 (by omega) (by omega) (by omega) (by omega) hole1
      rw [hpr]
      have habs : abs h2 = (abs h).set i (some (key, val)) := by
        rw [abs_congr hkv2, abs_set (h := h) (i := i.toNat) (by omega) h1kvs, hji]
      refine ⟨h2, true, rfl, ⟨?_, ?_, ?_⟩, ?_⟩
      · rw [hn2, h1n]; exact w2
      · rw [hn2]; exact down_stop hdown (hchild hch1)
      · rw [hn2, h1n, habs, Spec.card_set_some_new _ hrange ha, ← inv.card]
      · rw [habs]; exact .insert_ok hrange ha

/-- the state of `ChangeKey` after `h.kvs[i].Key = key` -/
def setKeyRaw (h : IBinary K V) (j : Nat) (key : K) (v : V) : IBinary K V :=
  { h with kvs := h.kvs.setIfInBounds j (some (key, v)) }

theorem changeKey_held_eq (h : IBinary K V) (i : Int) (key k0 : K) (v : V)
    (hc : h.containsIndex i = .ok true) (hkv : h.kvs[i.toNat]? = some (some (k0, v))) :
    h.changeKey cmp i key =
      match (setKeyRaw h i.toNat key v).posOf i.toNat with
      | .ok p =>
        match (setKeyRaw h i.toNat key v).promote cmp (p + 1) p with
        | .ok h2 =>
          match h2.posOf i.toNat with
          | .ok p2 =>
            match h2.demote cmp (h2.n + 1) p2 with
            | .ok h3 => .ok (h3, true)
            | .panic => .panic
            | .diverge => .diverge
          | .panic => .panic
          | .diverge => .diverge
        | .panic => .panic
        | .diverge => .diverge
      | .panic => .panic
      | .diverge => .diverge := by
  unfold changeKey setKeyRaw
  rw [hc]
  simp only []
  rw [hkv]
  rfl

theorem posOf_spec {h : IBinary K V} {j p : Nat} (hp : h.pos[j]? = some (p : Int)) : h.posOf j = .ok p := by
  unfold posOf; rw [hp]; simp

theorem wf_setKey {cap N : Nat} {h : IBinary K V} (w : Wf cap N h) {j : Nat} {e0 : K × V}
    (hkv : h.kvs[j]? = some (some e0)) (key : K) (v : V) : Wf cap N (setKeyRaw h j key v) := by
  have hj : j < h.kvs.size := by
    by_cases hj : j < h.kvs.size
    · exact hj
    · rw [Array.getElem?_eq_none (by omega)] at hkv; simp at hkv
  constructor
  · exact w.hsize
  · exact w.psize
  · show (h.kvs.setIfInBounds j _).size = cap; simp; exact w.ksize
  · exact w.nle
  · intro k hk1 hkN
    obtain ⟨c, hc, hcc, hpc, e, he⟩ := w.fwd k hk1 hkN
    refine ⟨c, hc, hcc, hpc, ?_⟩
    show ∃ e, (h.kvs.setIfInBounds j _)[c]? = some (some e)
    rw [Array.getElem?_setIfInBounds]
    by_cases hjc : j = c
    · subst hjc; exact ⟨(key, v), by simp [hj]⟩
    · exact ⟨e, by rw [if_neg hjc]; exact he⟩
  · intro x hx
    show ((h.pos[x]? = some (-1) ∧ (h.kvs.setIfInBounds j _)[x]? = some none) ∨ ∃ k, 1 ≤ k ∧ k ≤ N ∧
      h.pos[x]? = some (k : Int) ∧ h.heap[k]? = some x ∧ ∃ e, (h.kvs.setIfInBounds j _)[x]? = some (some e))
    rw [Array.getElem?_setIfInBounds]
    by_cases hjx : j = x
    · subst hjx
      rcases w.bwd j hx with ⟨_, p2⟩ | ⟨k, hk1, hkN, hp, hh, e, he⟩
      · rw [hkv] at p2; simp at p2
      · exact Or.inr ⟨k, hk1, hkN, hp, hh, (key, v), by simp [hj]⟩
    · rw [if_neg hjx]; exact w.bwd x hx

theorem changeKey_sim (hc : LawfulCmp cmp) {eq : V → V → Bool} {cap : Nat} {h : IBinary K V}
    (inv : Inv cmp cap h) (i : Int) (key : K) :
    ∃ h' b, h.changeKey cmp i key = .ok (h', b) ∧ Inv cmp cap h' ∧
      Spec.Admit cmp eq cap (abs h) (.changeKey i key) (.bool b) (abs h') := by
  have w := inv.wf
  have hci := containsIndex_spec w i
  cases ha : abs h i with
  | none =>
    rw [ha] at hci
    exact ⟨h, false, by unfold changeKey; rw [hci]; rfl, inv, .changeKey_fail ha⟩
  | some e =>
    obtain ⟨k0, v⟩ := e
    rw [ha] at hci
    obtain ⟨hrange, hkv, p, hp1, hpn, hpos, hheap⟩ := held_of_abs w ha
    have hji : ((i.toNat : Nat) : Int) = i := by unfold Spec.InRange at hrange; omega
    have hjc : i.toNat < cap := by unfold Spec.InRange at hrange; omega
    rw [changeKey_held_eq h i key k0 v hci hkv]
    generalize hh1 : setKeyRaw h i.toNat key v = h1
    have w1 : Wf cap h.n h1 := by rw [← hh1]; exact wf_setKey w hkv key v
    have h1n : h1.n = h.n := by rw [← hh1]; rfl
    have h1heap : h1.heap = h.heap := by rw [← hh1]; rfl
    have h1pos : h1.pos = h.pos := by rw [← hh1]; rfl
    have h1kvs : h1.kvs = h.kvs.setIfInBounds i.toNat (some (key, v)) := by rw [← hh1]; rfl
    rw [posOf_spec (by rw [h1pos]; exact hpos)]
    simp only []
    have hkey : ∀ q, 1 ≤ q → q ≤ h.n → q ≠ p → keyP h1 q = keyP h q := by
      intro q hq1 hqn hqp
      refine keyP_congr_kvs (by rw [h1heap]) ?_
      intro c hcc
      obtain ⟨c', hc', _, hpc, _⟩ := w.fwd q hq1 hqn
      have : c' = c := by rw [hcc] at hc'; exact (Option.some.inj hc').symm
      subst this
      have : c' ≠ i.toNat := by
        intro hci'; subst hci'; rw [hpos] at hpc; simp at hpc; omega
      rw [h1kvs, Array.getElem?_setIfInBounds, if_neg (by omega)]
    have hole1 : Hole cmp (keyP h1) h1.n p := by
      rw [h1n]; exact hole_congr hkey (ord_hole inv.ord hc)
    obtain ⟨h2, k', hpr, w2, hn2, hkv2, hk'1, hk'p, hheap2, hdown, _, _, _⟩ :=
      promote_spec hc (p + 1) h1 p w1 (by omega) hp1 (by omega) (by omega) hole1
    rw [hpr]
    simp only []
    -- the entry of index i is now at position k'
    have hpos2 : h2.pos[i.toNat]? = some (k' : Int) := by
      obtain ⟨c, hcc, _, hpc, _⟩ := w2.fwd k' hk'1 (by omega)
      rw [hheap2, h1heap, hheap] at hcc
      have : c = i.toNat := (Option.some.inj hcc).symm
      subst this; exact hpc
    rw [posOf_spec hpos2]
    simp only []
    obtain ⟨h3, hde, w3, hn3, hkv3, hord3, _⟩ :=
      demote_spec hc (h2.n + 1) h2 k' w2 (by omega) hk'1 (by omega) (by omega) (by omega)
        (by rw [hn2]; exact hdown)
    rw [hde]
    have habs : abs h3 = (abs h).set i (some (key, v)) := by
      rw [abs_congr hkv3, abs_congr hkv2, abs_set (h := h) (i := i.toNat) (by rw [w.ksize]; exact hjc) h1kvs, hji]
    refine ⟨h3, true, rfl, ⟨?_, ?_, ?_⟩, ?_⟩
    · rw [hn3, hn2, h1n]; exact w3
    · rw [hn3]; exact hord3
    · rw [hn3, hn2, h1n, habs, Spec.card_set_some_old _ _ hrange ha, ← inv.card]
    · rw [habs]; exact .changeKey_ok ha (Or.inl rfl)

/-- `h.n--` -/
def decN (h : IBinary K V) : IBinary K V := { h with n := h.n - 1 }

theorem wf_decN {cap N : Nat} {h : IBinary K V} (w : Wf cap N h) : Wf cap N (decN h) :=
  ⟨w.hsize, w.psize, w.ksize, w.nle, w.fwd, w.bwd⟩

theorem delete_eq (h : IBinary K V) (hn : ¬ h.n = 0) (i0 : Nat) (k : K) (v : V)
    (h1 : h.heap[1]? = some i0) (hkv : h.kvs[i0]? = some (some (k, v))) :
    h.delete cmp =
      match h.swap 1 h.n with
      | .ok h1 =>
        match (decN h1).demote cmp ((decN h1).n + 1) 1 with
        | .ok h3 =>
          match h3.clearIndex i0 with
          | .ok h4 => .ok (h4, some (Int.ofNat i0, k, v))
          | .panic => .panic
          | .diverge => .diverge
        | .panic => .panic
        | .diverge => .diverge
      | .panic => .panic
      | .diverge => .diverge := by
  unfold delete decN
  rw [if_neg hn, h1]
  simp only []
  rw [hkv]
  rfl

theorem root_extremal (hc : LawfulCmp cmp) {cap : Nat} {h : IBinary K V} (inv : Inv cmp cap h)
    {i0 : Nat} {k : K} {v : V} (h1 : h.heap[1]? = some i0) (hkv : h.kvs[i0]? = some (some (k, v))) :
    Spec.Extremal cmp (abs h) k := by
  intro j kj vj hj
  obtain ⟨_, hkvj, p, hp1, hpn, _, hheap⟩ := held_of_abs inv.wf hj
  have hk1 : keyP h 1 = some k := by unfold keyP; simp [h1, hkv]
  have hkp : keyP h p = some kj := by unfold keyP; simp [hheap, hkvj]
  obtain ⟨ka, kb, ha, hb, hle⟩ := ord_root hc inv.ord hk1 p hp1 hpn
  rw [hk1] at ha; rw [hkp] at hb
  cases ha; cases hb; exact hle

theorem empty_of_n_zero {cap : Nat} {h : IBinary K V} (w : Wf cap 0 h) (i : Int) : abs h i = none := by
  cases ha : abs h i with
  | none => rfl
  | some e =>
    obtain ⟨_, _, p, hp1, hp0, _⟩ := held_of_abs w ha
    omega

theorem delete_sim (hc : LawfulCmp cmp) {eq : V → V → Bool} {cap : Nat} {h : IBinary K V}
    (inv : Inv cmp cap h) :
    ∃ h' r, h.delete cmp = .ok (h', r) ∧ Inv cmp cap h' ∧
      Spec.Admit cmp eq cap (abs h) .delete (.ikv r) (abs h') := by
  have w := inv.wf
  by_cases hn : h.n = 0
  · refine ⟨h, none, by unfold delete; rw [if_pos hn], inv, .delete_none ?_⟩
    rw [hn] at w; exact empty_of_n_zero w
  · obtain ⟨i0, h1, hi0c, hpos0, ⟨k, v⟩, hkv⟩ := w.fwd 1 (by omega) (by omega)
    rw [delete_eq h hn i0 k v h1 hkv]
    obtain ⟨h1', hsw, w1, hn1, hkv1, hheap1⟩ := swap_spec w (i := 1) (j := h.n) (by omega) (by omega) (by omega) (by omega)
    rw [hsw]
    simp only []
    have w2 : Wf cap h.n (decN h1') := wf_decN w1
    have hn2 : (decN h1').n = h.n - 1 := by show h1'.n - 1 = h.n - 1; rw [hn1]
    have hkey2 : ∀ q, keyP (decN h1') q = keyP h (tr 1 h.n q) := fun q =>
      keyP_of_heap_eq (h' := decN h1') hkv1 (hheap1 q)
    have hd2 : DownHole cmp (keyP (decN h1')) (decN h1').n 1 := by
      rw [hn2]
      constructor
      · intro j hj2 hjm hjp
        have := inv.ord j hj2 (by omega)
        refine LeP.congr ?_ ?_ this
        · rw [hkey2, tr_other (by omega) (by omega)]
        · rw [hkey2, tr_other (by omega) (by omega)]
      · intro j _ _ _ h2; omega
    obtain ⟨h3, hde, w3, hn3, hkv3, hord3, hrest3⟩ :=
      demote_spec hc ((decN h1').n + 1) (decN h1') 1 w2 (by omega) (by omega) (by omega) (by omega) (by omega) hd2
    rw [hde]
    simp only []
    have hlast : h3.heap[h.n - 1 + 1]? = some i0 := by
      have e1 : h.n - 1 + 1 = h.n := by omega
      rw [e1, hrest3 h.n (by omega)]
      show h1'.heap[h.n]? = some i0
      rw [hheap1, tr_right]; exact h1
    have w3' : Wf cap (h.n - 1 + 1) h3 := by
      have e1 : h.n - 1 + 1 = h.n := by omega
      rw [e1]; exact w3
    obtain ⟨h4, hcl, w4, hn4, hkv4, hi0s, hkey4⟩ := clear_spec w3' hlast
    rw [hcl]
    have hkvs3 : h3.kvs = h.kvs := by rw [hkv3]; exact hkv1
    have habs0 : abs h (i0 : Int) = some (k, v) := by
      rw [abs_nat (by rw [w.ksize]; exact hi0c), hkv]; rfl
    have hrange : Spec.InRange cap (i0 : Int) := by unfold Spec.InRange; omega
    have habs : abs h4 = (abs h).set (i0 : Int) none := by
      rw [abs_set (h := h3) hi0s hkv4, abs_congr hkvs3]
    refine ⟨h4, some (Int.ofNat i0, k, v), rfl, ⟨?_, ?_, ?_⟩, ?_⟩
    · rw [hn4, hn3, hn2]; exact w4
    · rw [hn4, hn3, hn2]
      refine ord_congr hkey4 ?_
      rw [← hn2]; exact hord3
    · rw [hn4, hn3, hn2, habs]
      have := Spec.card_set_none (k, v) hrange habs0
      have := inv.card
      omega
    · rw [habs]
      exact .delete_some habs0 (root_extremal hc inv h1 hkv)

theorem deleteIndex_held_eq (h : IBinary K V) (i : Int) (k : Nat) (key : K) (val : V)
    (hc : h.containsIndex i = .ok true) (hp : h.posOf i.toNat = .ok k)
    (hkv : h.kvs[i.toNat]? = some (some (key, val))) :
    h.deleteIndex cmp i =
      match h.swap k h.n with
      | .ok h1 =>
        if h1.n = 0 then .panic
        else
          match (decN h1).promote cmp (k + 1) k with
          | .ok h3 =>
            match h3.demote cmp (h3.n + 1) k with
            | .ok h4 =>
              match h4.clearIndex i.toNat with
              | .ok h5 => .ok (h5, some (key, val))
              | .panic => .panic
              | .diverge => .diverge
            | .panic => .panic
            | .diverge => .diverge
          | .panic => .panic
          | .diverge => .diverge
      | .panic => .panic
      | .diverge => .diverge := by
  unfold deleteIndex decN
  rw [hc]
  simp only []
  rw [hp]
  simp only []
  rw [hkv]
  rfl

theorem deleteIndex_sim (hc : LawfulCmp cmp) {eq : V → V → Bool} {cap : Nat} {h : IBinary K V}
    (inv : Inv cmp cap h) (i : Int) :
    ∃ h' r, h.deleteIndex cmp i = .ok (h', r) ∧ Inv cmp cap h' ∧
      Spec.Admit cmp eq cap (abs h) (.deleteIndex i) (.kv r) (abs h') := by
  have w := inv.wf
  have hci := containsIndex_spec w i
  cases ha : abs h i with
  | none =>
    rw [ha] at hci
    exact ⟨h, none, by unfold deleteIndex; rw [hci]; rfl, inv, .deleteIndex_none ha⟩
  | some e =>
    obtain ⟨key, val⟩ := e
    rw [ha] at hci
    obtain ⟨hrange, hkv, k, hk1, hkn, hpos, hheap⟩ := held_of_abs w ha
    have hji : ((i.toNat : Nat) : Int) = i := by unfold Spec.InRange at hrange; omega
    have hjc : i.toNat < cap := by unfold Spec.InRange at hrange; omega
    rw [deleteIndex_held_eq h i k key val hci (posOf_spec hpos) hkv]
    obtain ⟨h1, hsw, w1, hn1, hkv1, hheap1⟩ := swap_spec w (i := k) (j := h.n) hk1 hkn (by omega) (by omega)
    rw [hsw]
    simp only []
    rw [if_neg (by omega)]
    have w2 : Wf cap h.n (decN h1) := wf_decN w1
    have hn2 : (decN h1).n = h.n - 1 := by show h1.n - 1 = h.n - 1; rw [hn1]
    have hkey2 : ∀ q, keyP (decN h1) q = keyP h (tr k h.n q) := fun q =>
      keyP_of_heap_eq (h' := decN h1) hkv1 (hheap1 q)
    have hlast2 : (decN h1).heap[h.n]? = some i.toNat := by
      show h1.heap[h.n]? = some i.toNat
      rw [hheap1, tr_right]; exact hheap
    -- after promote and demote: Wf on n positions, order on n-1, index i still at position n
    have hmid : ∃ h4, (match (decN h1).promote cmp (k + 1) k with
          | .ok h3 =>
            match h3.demote cmp (h3.n + 1) k with
            | .ok h4 =>
              match h4.clearIndex i.toNat with
              | .ok h5 => Outcome.ok (h5, some (key, val))
              | .panic => .panic
              | .diverge => .diverge
            | .panic => .panic
            | .diverge => .diverge
          | .panic => .panic
          | .diverge => .diverge) =
          (match h4.clearIndex i.toNat with
              | .ok h5 => Outcome.ok (h5, some (key, val))
              | .panic => .panic
              | .diverge => .diverge) ∧
        Wf cap h.n h4 ∧ h4.n = h.n - 1 ∧ h4.kvs = h.kvs ∧ Ord cmp (keyP h4) (h.n - 1) ∧
        h4.heap[h.n]? = some i.toNat := by
      by_cases hkl : k = h.n
      · -- the last position: promote and demote do nothing
        have hkeq : ∀ q, keyP (decN h1) q = keyP h q := by
          intro q; rw [hkey2, hkl]; unfold tr; split <;> simp_all
        have hnoop : (decN h1).promote cmp (k + 1) k = .ok (decN h1) := by
          apply promote_noop w2 hk1 hkn
          by_cases hk2 : k ≤ 1
          · exact Or.inl hk2
          · right
            have := inv.ord k (by omega) hkn
            exact LeP.congr (hkeq _) (hkeq _) this
        rw [hnoop]
        simp only []
        have hd : DownHole cmp (keyP (decN h1)) (decN h1).n k := by
          rw [hn2]
          constructor
          · intro j hj2 hjm _
            exact LeP.congr (hkeq _) (hkeq _) (inv.ord j hj2 (by omega))
          · intro j _ hjm hjp _; omega
        obtain ⟨h4, hde, w4, hn4, hkv4, hord4, hrest4⟩ :=
          demote_spec hc ((decN h1).n + 1) (decN h1) k w2 (by omega) hk1 hkn (by omega) (by omega) hd
        rw [hde]
        refine ⟨h4, rfl, w4, by omega, by rw [hkv4]; exact hkv1, by rw [← hn2]; exact hord4, ?_⟩
        rw [hrest4 h.n (by omega)]; exact hlast2
      · have hkm : k ≤ h.n - 1 := by omega
        have hole2 : Hole cmp (keyP (decN h1)) (decN h1).n k := by
          rw [hn2]
          refine hole_congr ?_ (ord_hole (ord_mono inv.ord (by omega)) hc)
          intro q hq1 hqm hqk
          rw [hkey2, tr_other hqk (by omega)]
        obtain ⟨h3, k', hpr, w3, hn3, hkv3, hk'1, hk'k, _, hdown3, _, hrest3, hmoved⟩ :=
          promote_spec hc (k + 1) (decN h1) k w2 (by omega) hk1 (by omega) (by omega) hole2
        rw [hpr]
        simp only []
        have hd3 : DownHole cmp (keyP h3) h3.n k := by
          rw [hn3]
          by_cases hk'' : k' < k
          · exact ord_downhole hc (hmoved hk'')
          · have : k' = k := by omega
            rw [← this]; exact hdown3
        obtain ⟨h4, hde, w4, hn4, hkv4, hord4, hrest4⟩ :=
          demote_spec hc (h3.n + 1) h3 k w3 (by omega) hk1 hkn (by omega) (by omega) hd3
        rw [hde]
        refine ⟨h4, rfl, w4, by omega, by rw [hkv4, hkv3]; exact hkv1, ?_, ?_⟩
        · rw [← hn2, ← hn3]; exact hord4
        · rw [hrest4 h.n (by omega), hrest3 h.n (by omega)]; exact hlast2
    obtain ⟨h4, heq, w4, hn4, hkv4, hord4, hlast4⟩ := hmid
    rw [heq]
    have e1 : h.n - 1 + 1 = h.n := by omega
    obtain ⟨h5, hcl, w5, hn5, hkv5, his, hkey5⟩ :=
      clear_spec (m := h.n - 1) (h := h4) (by rw [e1]; exact w4) (by rw [e1]; exact hlast4)
    rw [hcl]
    have habs : abs h5 = (abs h).set i none := by
      rw [abs_set (h := h4) his hkv5, abs_congr hkv4, hji]
    refine ⟨h5, some (key, val), rfl, ⟨?_, ?_, ?_⟩, ?_⟩
    · rw [hn5, hn4]; exact w5
    · rw [hn5, hn4]; exact ord_congr hkey5 hord4
    · rw [hn5, hn4, habs]
      have := Spec.card_set_none (key, val) hrange ha
      have := inv.card
      omega
    · rw [habs]; exact .deleteIndex_some ha

theorem peek_sim (hc : LawfulCmp cmp) {eq : V → V → Bool} {cap : Nat} {h : IBinary K V}
    (inv : Inv cmp cap h) :
    ∃ r, h.peek = .ok r ∧ Spec.Admit cmp eq cap (abs h) .peek (.ikv r) (abs h) := by
  have w := inv.wf
  by_cases hn : h.n = 0
  · refine ⟨none, by unfold peek; rw [if_pos hn], .peek_none ?_⟩
    rw [hn] at w; exact empty_of_n_zero w
  · obtain ⟨i0, h1, hi0c, _, ⟨k, v⟩, hkv⟩ := w.fwd 1 (by omega) (by omega)
    refine ⟨some (Int.ofNat i0, k, v), by unfold peek; rw [if_neg hn, h1]; simp only []; rw [hkv], ?_⟩
    have habs0 : abs h (i0 : Int) = some (k, v) := by
      rw [abs_nat (by rw [w.ksize]; exact hi0c), hkv]; rfl
    exact .peek_some habs0 (root_extremal hc inv h1 hkv)

theorem peekIndex_sim {eq : V → V → Bool} {cap : Nat} {h : IBinary K V} (inv : Inv cmp cap h) (i : Int) :
    ∃ r, h.peekIndex i = .ok r ∧ Spec.Admit cmp eq cap (abs h) (.peekIndex i) (.kv r) (abs h) := by
  have w := inv.wf
  have hci := containsIndex_spec w i
  cases ha : abs h i with
  | none =>
    rw [ha] at hci
    refine ⟨none, by unfold peekIndex; rw [hci]; rfl, ?_⟩
    have := Spec.AdmitG.peekIndex (P := Spec.Extremal cmp) (cmp := cmp) (eq := eq) (cap := cap) (m := abs h) (i := i)
    rw [ha] at this; exact this
  | some e =>
    obtain ⟨k, v⟩ := e
    rw [ha] at hci
    obtain ⟨_, hkv, _⟩ := held_of_abs w ha
    refine ⟨some (k, v), by simp [peekIndex, hci, hkv], ?_⟩
    have := Spec.AdmitG.peekIndex (P := Spec.Extremal cmp) (cmp := cmp) (eq := eq) (cap := cap) (m := abs h) (i := i)
    rw [ha] at this; exact this

/-- `∃` over the abstract map = `any` over the `kvs` array -/
theorem any_kvs_iff {h : IBinary K V} (p : K × V → Bool) :
    (h.kvs.toList.any fun e => match e with
      | some kv => p kv
      | none => false) = true ↔ ∃ i k v, abs h i = some (k, v) ∧ p (k, v) = true := by
  rw [List.any_eq_true]
  constructor
  · rintro ⟨e, hmem, hp⟩
    obtain ⟨j, hj, hje⟩ := List.getElem_of_mem hmem
    cases e with
    | none => simp at hp
    | some kv =>
      obtain ⟨k, v⟩ := kv
      have hj' : j < h.kvs.size := by simpa using hj
      refine ⟨(j : Int), k, v, ?_, hp⟩
      rw [abs_nat hj']
      have : h.kvs[j]? = some (some (k, v)) := by
        rw [Array.getElem?_eq_getElem hj']; simp at hje; rw [hje]
      rw [this]; rfl
  · rintro ⟨i, k, v, ha, hp⟩
    unfold abs at ha
    split at ha
    · rename_i hr
      have hlt : i.toNat < h.kvs.size := by omega
      refine ⟨some (k, v), ?_, hp⟩
      rw [Array.getElem?_eq_getElem hlt] at ha
      have : h.kvs[i.toNat] = some (k, v) := by
        cases hx : h.kvs[i.toNat] with
        | none => rw [hx] at ha; simp at ha
        | some kv => rw [hx] at ha; simp at ha; rw [ha]
      rw [← this]
      exact Array.getElem_mem_toList hlt
    · simp at ha

theorem containsKey_sim {eq : V → V → Bool} {cap : Nat} {h : IBinary K V} (key : K) :
    Spec.Admit cmp eq cap (abs h) (.containsKey key) (.bool (h.containsKey cmp key)) (abs h) := by
  apply Spec.AdmitG.containsKey
  have := any_kvs_iff (h := h) (fun kv => cmp kv.1 key == 0)
  unfold containsKey
  constructor
  · intro hb
    have h1 : (h.kvs.toList.any fun e => match e with
      | some kv => (fun kv : K × V => cmp kv.1 key == 0) kv
      | none => false) = true := by
      rw [← hb]; congr 1; funext e; cases e <;> rfl
    obtain ⟨i, k, v, ha, hp⟩ := this.mp h1
    exact ⟨i, k, v, ha, by simpa using hp⟩
  · rintro ⟨i, k, v, ha, hp⟩
    have h1 := this.mpr ⟨i, k, v, ha, by simpa using hp⟩
    rw [← h1]; congr 1; funext e; cases e <;> rfl

theorem containsValue_sim {eq : V → V → Bool} {cap : Nat} {h : IBinary K V} (val : V) :
    Spec.Admit cmp eq cap (abs h) (.containsValue val) (.bool (h.containsValue eq val)) (abs h) := by
  apply Spec.AdmitG.containsValue
  have := any_kvs_iff (h := h) (fun kv => eq kv.2 val)
  unfold containsValue
  constructor
  · intro hb
    have h1 : (h.kvs.toList.any fun e => match e with
      | some kv => (fun kv : K × V => eq kv.2 val) kv
      | none => false) = true := by
      rw [← hb]; congr 1; funext e; cases e <;> rfl
    obtain ⟨i, k, v, ha, hp⟩ := this.mp h1
    exact ⟨i, k, v, ha, hp⟩
  · rintro ⟨i, k, v, ha, hp⟩
    have h1 := this.mpr ⟨i, k, v, ha, hp⟩
    rw [← h1]; congr 1; funext e; cases e <;> rfl

theorem replicate_join {α : Type} (n j : Nat) :
    ((Array.replicate n (none : Option α))[j]?).join = none := by
  rw [Array.getElem?_replicate]; split <;> rfl

theorem inv_new (cmp : K → K → Int) (cap : Nat) : Inv cmp cap (new cap : IBinary K V) := by
  refine ⟨⟨by simp [new], by simp [new], by simp [new], Nat.zero_le _, ?_, ?_⟩, ?_, ?_⟩
  · intro k hk1 hk0; exact absurd hk0 (by simp [new]; omega)
  · intro i hi; left; simp [new, hi]
  · intro j hj2 hj0; exact absurd hj0 (by simp [new]; omega)
  · show 0 = Spec.card cap _
    rw [Spec.card_eq_zero]
    intro i
    unfold abs
    split
    · exact replicate_join _ _
    · rfl

theorem abs_new (cap : Nat) : abs (new cap : IBinary K V) = Spec.Map.empty := by
  funext i
  unfold abs Spec.Map.empty
  split
  · exact replicate_join _ _
  · rfl

theorem inv_deleteAll {cap : Nat} {h : IBinary K V} (inv : Inv cmp cap h) :
    h.deleteAll = (new cap : IBinary K V) := by
  unfold deleteAll new
  rw [inv.wf.hsize, inv.wf.psize, inv.wf.ksize]

theorem step_sim (hc : LawfulCmp cmp) (eq : V → V → Bool) {cap : Nat} (h : IBinary K V) (op : Op K V)
    (inv : Inv cmp cap h) :
    ∃ h' r, step cmp eq h op = .ok (h', r) ∧ Inv cmp cap h' ∧ Spec.Admit cmp eq cap (abs h) op r (abs h') := by
  cases op with
  | insert i k v =>
    obtain ⟨h', b, he, hi, ha⟩ := insert_sim (eq := eq) hc inv i k v
    exact ⟨h', .bool b, by simp [step, he, Outcome.map], hi, ha⟩
  | changeKey i k =>
    obtain ⟨h', b, he, hi, ha⟩ := changeKey_sim (eq := eq) hc inv i k
    exact ⟨h', .bool b, by simp [step, he, Outcome.map], hi, ha⟩
  | delete =>
    obtain ⟨h', r, he, hi, ha⟩ := delete_sim (eq := eq) hc inv
    exact ⟨h', .ikv r, by simp [step, he, Outcome.map], hi, ha⟩
  | deleteIndex i =>
    obtain ⟨h', r, he, hi, ha⟩ := deleteIndex_sim (eq := eq) hc inv i
    exact ⟨h', .kv r, by simp [step, he, Outcome.map], hi, ha⟩
  | deleteAll =>
    refine ⟨h.deleteAll, .unit, rfl, ?_, ?_⟩
    · rw [inv_deleteAll inv]; exact inv_new cmp cap
    · rw [inv_deleteAll inv, abs_new]; exact .deleteAll
  | peek =>
    obtain ⟨r, he, ha⟩ := peek_sim (eq := eq) hc inv
    exact ⟨h, .ikv r, by simp [step, he, Outcome.map], inv, ha⟩
  | peekIndex i =>
    obtain ⟨r, he, ha⟩ := peekIndex_sim (eq := eq) inv i
    exact ⟨h, .kv r, by simp [step, he, Outcome.map], inv, ha⟩
  | containsIndex i =>
    refine ⟨h, .bool (abs h i).isSome, by simp [step, containsIndex_spec inv.wf i, Outcome.map], inv, .containsIndex⟩
  | containsKey k => exact ⟨h, _, rfl, inv, containsKey_sim k⟩
  | containsValue v => exact ⟨h, _, rfl, inv, containsValue_sim v⟩
  | size =>
    refine ⟨h, .int h.n, rfl, inv, ?_⟩
    have := Spec.AdmitG.size (P := Spec.Extremal cmp) (cmp := cmp) (eq := eq) (cap := cap) (m := abs h)
    rw [← inv.card] at this; exact this
  | isEmpty =>
    refine ⟨h, .bool (h.n == 0), rfl, inv, .isEmpty ?_⟩
    constructor
    · intro hb
      have hn : h.n = 0 := by simpa using hb
      have w := inv.wf
      rw [hn] at w; exact empty_of_n_zero w
    · intro hall
      have := inv.card
      rw [Spec.card_eq_zero hall] at this
      simp [this]

end AlgoVerif.C05.IBinary
