import AlgoVerif.Proofs.C08LeftRecSubst
/-!
# `EliminateLeftRecursion`, part 2: immediate left recursion `lrImmediate`

`A → A α₁ | … | A αₘ | β₁ | … | βₙ` becomes `A → βᵢ A′`, `A′ → αⱼ A′ | ε` with `A′` fresh.  Both grammars
derive from `A` exactly `β α*`:

* new ⊆ old: simultaneously "an `A′`-free form that derives a terminal string in the new grammar derives it
  in the old one" and "if `A′ ⇒* γ` in the new grammar then `A ⇒* x` implies `A ⇒* x γ` in the old one"
  (use `A → A α` once more in front);
* old ⊆ new: simultaneously "every form …" and "if `A ⇒* γ` in the old grammar and `A′ ⇒* y` in the new
  one then `A ⇒* γ y` in the new one" (push the `α` just read onto the continuation).

No assumption on `α`, `β` is needed (`α = ε` would give the harmless `A′ → A′`).
-/
set_option linter.unusedSectionVars false
namespace AlgoVerif.C08
open AlgoVerif AlgoVerif.Gram AlgoVerif.C08.Spec

theorem isLeftRec_iff {p : SProd} : isLeftRec p = true ↔ ∃ tl, p.body = Sym.nonterm p.head :: tl := by
  unfold isLeftRec
  cases hb : p.body with
  | nil => simp
  | cons s tl =>
    cases s with
    | term t => simp
    | nonterm n =>
      simp only [decide_eq_true_eq, List.cons.injEq, Sym.nonterm.injEq]
      constructor
      · intro h; exact ⟨tl, h, rfl⟩
      · rintro ⟨_, h, _⟩; exact h

/-- the productions of the grammar `lrImmediate` returns when it changes something -/
def ImmProds (g : G) (A A' : String) (q : SProd) : Prop :=
  (q ∈ g.prods ∧ q.head ≠ A) ∨
  (∃ p, p ∈ g.prods ∧ p.head = A ∧ isLeftRec p = false ∧ q = { head := A, body := p.body ++ [Sym.nonterm A'] }) ∨
  (∃ p, p ∈ g.prods ∧ p.head = A ∧ isLeftRec p = true ∧ q = { head := A', body := p.body.tail ++ [Sym.nonterm A'] }) ∨
  q = { head := A', body := [] }

theorem lrImmediate_spec {g g' : G} {A : String} (h : lrImmediate g A = .ok g') :
    g' = g ∨ ∃ A', A' ∉ g.nonterms ∧ g'.start = g.start ∧ g'.nonterms = g.nonterms ++ [A'] ∧
      g'.terms = g.terms ∧ (∀ q, q ∈ g'.prods ↔ ImmProds g A A' q) ∧ ∃ p, p ∈ g.prods ∧ p.head = A := by
  unfold lrImmediate at h
  simp only at h
  split at h
  · rename_i hany
    have hex : ∃ p, p ∈ g.prods ∧ p.head = A := by
      obtain ⟨p, hp, _⟩ := List.any_eq_true.1 hany
      have := List.mem_filter.1 hp
      exact ⟨p, this.1, by simpa using this.2⟩
    cases hn : addNew g A primes with
    | ok r =>
      obtain ⟨g1, A'⟩ := r
      simp only [hn, bind, Outcome.bind, pure] at h
      cases h
      obtain ⟨hfresh, rfl⟩ := addNew_ok hn
      right
      refine ⟨A', hfresh, rfl, rfl, rfl, ?_, hex⟩
      intro q
      simp only [mem_ins, mem_insAll, List.mem_filter, List.mem_map, prodsOf]
      unfold ImmProds
      constructor
      · rintro (((⟨h1, h2⟩ | ⟨p, ⟨⟨hp1, hp2⟩, hp3⟩, rfl⟩) | ⟨p, ⟨⟨hp1, hp2⟩, hp3⟩, rfl⟩) | rfl)
        · exact Or.inl ⟨h1, by simpa using h2⟩
        · exact Or.inr (Or.inl ⟨p, hp1, by simpa using hp2, by simpa using hp3, rfl⟩)
        · exact Or.inr (Or.inr (Or.inl ⟨p, hp1, by simpa using hp2, hp3, rfl⟩))
        · exact Or.inr (Or.inr (Or.inr rfl))
      · rintro (⟨h1, h2⟩ | ⟨p, hp1, hp2, hp3, rfl⟩ | ⟨p, hp1, hp2, hp3, rfl⟩ | rfl)
        · exact Or.inl (Or.inl (Or.inl ⟨h1, by simpa using h2⟩))
        · exact Or.inl (Or.inl (Or.inr ⟨p, ⟨⟨hp1, by simpa using hp2⟩, by simpa using hp3⟩, rfl⟩))
        · exact Or.inl (Or.inr ⟨p, ⟨⟨hp1, by simpa using hp2⟩, hp3⟩, rfl⟩)
        · exact Or.inr rfl
    | panic => simp [hn, bind, Outcome.bind] at h
    | diverge => simp [hn, bind, Outcome.bind] at h
  · cases h
    exact Or.inl rfl

theorem lrImmediate_start {g g' : G} {A : String} (h : lrImmediate g A = .ok g') : g'.start = g.start := by
  rcases lrImmediate_spec h with rfl | ⟨A', _, hs, _⟩
  · rfl
  · exact hs

theorem lrImmediate_wf {g g' : G} {A : String} (h : lrImmediate g A = .ok g') (hw : WellFormed g) :
    WellFormed g' := by
  rcases lrImmediate_spec h with rfl | ⟨A', _, hs, hn, ht, hp, _⟩
  · exact hw
  · obtain ⟨h1, h2⟩ := hw
    have hdecl : ∀ s, SymDeclared g s → SymDeclared g' s := by
      intro s hs'
      cases s with
      | term t => unfold SymDeclared at hs' ⊢; rw [ht]; exact hs'
      | nonterm n => unfold SymDeclared at hs' ⊢; rw [hn]; simp [hs']
    have hA' : SymDeclared g' (Sym.nonterm A') := by unfold SymDeclared; rw [hn]; simp
    refine ⟨by rw [hs, hn]; simp [h1], ?_⟩
    intro q hq
    rcases (hp q).1 hq with ⟨hq1, _⟩ | ⟨p, hp1, hp2, _, rfl⟩ | ⟨p, hp1, hp2, _, rfl⟩ | rfl
    · obtain ⟨a, b⟩ := h2 q hq1
      exact ⟨by rw [hn]; simp [a], fun s hs' => hdecl s (b s hs')⟩
    · obtain ⟨a, b⟩ := h2 p hp1
      refine ⟨by rw [hn]; simp [hp2 ▸ a], ?_⟩
      intro s hs'
      simp only [List.mem_append, List.mem_singleton] at hs'
      rcases hs' with hs' | rfl
      · exact hdecl s (b s hs')
      · exact hA'
    · obtain ⟨a, b⟩ := h2 p hp1
      refine ⟨by rw [hn]; simp, ?_⟩
      intro s hs'
      simp only [List.mem_append, List.mem_singleton] at hs'
      rcases hs' with hs' | rfl
      · exact hdecl s (b s (List.mem_of_mem_tail hs'))
      · exact hA'
    · exact ⟨by rw [hn]; simp, fun s hs' => by cases hs'⟩

/-- `s` does not occur -/
def Free (s : String) (α : List SSym) : Prop := Sym.nonterm s ∉ α

theorem Free.append_iff {s : String} {a b : List SSym} : Free s (a ++ b) ↔ Free s a ∧ Free s b := by
  unfold Free; simp [not_or]

section imm
variable {g g' : G} {A A' : String}

/-- everything the two inclusions use -/
structure ImmCtx (g g' : G) (A A' : String) : Prop where
  prods : ∀ q, q ∈ g'.prods ↔ ImmProds g A A' q
  /-- `A′` occurs nowhere in the old grammar -/
  fresh : ∀ p, p ∈ g.prods → p.head ≠ A' ∧ Free A' p.body
  neA : A ≠ A'

/-! ### new ⊆ old -/

theorem imm_sound (hc : ImmCtx g g' A A') :
    ∀ n, (∀ α γ, Terminal γ → Free A' α → DerivesIn g' n α γ → Derives g α γ) ∧
         (∀ γ, Terminal γ → DerivesIn g' n [Sym.nonterm A'] γ →
            ∀ x, Derives g [Sym.nonterm A] x → Derives g [Sym.nonterm A] (x ++ γ)) := by
  intro n
  induction n using Nat.strongRecOn with
  | _ n ih =>
    have S : ∀ α γ, Terminal γ → Free A' α → DerivesIn g' n α γ → Derives g α γ := by
      intro α
      induction α with
      | nil =>
        intro γ _ _ d
        obtain ⟨_, rfl⟩ := derivesIn_of_terminal Terminal.nil d
        exact Derives.refl _
      | cons s α' ihα =>
        intro γ hγ hfree d
        have d' : DerivesIn g' n ([s] ++ α') γ := d
        obtain ⟨γ₁, γ₂, n₁, n₂, hγe, d₁, d₂, hn⟩ := d'.split
        subst hγe
        obtain ⟨t1, t2⟩ := Terminal.append_iff.1 hγ
        have hfs : Free A' [s] ∧ Free A' α' := Free.append_iff.1 (by simpa using hfree)
        -- the tail
        have htail : Derives g α' γ₂ := by
          by_cases h0 : n₂ = n
          · subst h0; exact ihα γ₂ t2 hfs.2 d₂
          · exact (ih n₂ (by omega)).1 α' γ₂ t2 hfs.2 d₂
        -- the head symbol
        have hhead : Derives g [s] γ₁ := by
          cases s with
          | term t =>
            obtain ⟨_, rfl⟩ := derivesIn_of_terminal (by intro x hx; simp at hx; exact ⟨t, hx⟩) d₁
            exact Derives.refl _
          | nonterm B =>
            obtain ⟨k, q, hk, hq, hqB, dq⟩ := derivesIn_of_single t1 d₁
            subst hqB
            rcases (hc.prods q).1 hq with ⟨hq1, _⟩ | ⟨p, hp1, hp2, _, rfl⟩ | ⟨p, _, _, _, rfl⟩ | rfl
            · have := (ih k (by omega)).1 q.body γ₁ t1 (hc.fresh q hq1).2 dq
              exact (Derives.of_prod hq1).trans this
            · -- `A → β A′`
              obtain ⟨δ₁, δ₂, k₁, k₂, hδ, e₁, e₂, hk12⟩ := dq.split
              subst hδ
              obtain ⟨u1, u2⟩ := Terminal.append_iff.1 t1
              have hβ := (ih k₁ (by omega)).1 p.body δ₁ u1 (hc.fresh p hp1).2 e₁
              have hA : Derives g [Sym.nonterm A] δ₁ := by
                have := (Derives.of_prod hp1).trans hβ
                rwa [hp2] at this
              exact (ih k₂ (by omega)).2 δ₂ u2 e₂ δ₁ hA
            · exact absurd (by simp) hfs.1
            · exact absurd (by simp) hfs.1
        simpa using hhead.append htail
    refine ⟨S, ?_⟩
    intro γ hγ d x hx
    obtain ⟨k, q, hk, hq, hqh, dq⟩ := derivesIn_of_single hγ d
    rcases (hc.prods q).1 hq with ⟨hq1, _⟩ | ⟨p, hp1, hp2, _, rfl⟩ | ⟨p, hp1, hp2, hp3, rfl⟩ | rfl
    · exact absurd hqh (hc.fresh q hq1).1
    · exact absurd hqh hc.neA
    · -- `A′ → α A′`
      obtain ⟨tl, htl⟩ := isLeftRec_iff.1 hp3
      have hbody : p.body.tail = tl := by rw [htl]; rfl
      simp only [hbody] at dq
      obtain ⟨δ₁, δ₂, k₁, k₂, hδ, e₁, e₂, hk12⟩ := dq.split
      subst hδ
      obtain ⟨u1, u2⟩ := Terminal.append_iff.1 hγ
      have hfree_tl : Free A' tl := by
        have := (hc.fresh p hp1).2
        rw [htl] at this
        intro hm; exact this (List.mem_cons_of_mem _ hm)
      have hα : Derives g tl δ₁ := (ih k₁ (by omega)).1 tl δ₁ u1 hfree_tl e₁
      have hx' : Derives g [Sym.nonterm A] (x ++ δ₁) := by
        have h1 : Derives g [Sym.nonterm A] ([Sym.nonterm A] ++ tl) := by
          have := Derives.of_prod hp1
          rw [htl, hp2] at this
          exact this
        exact h1.trans (hx.append hα)
      have := (ih k₂ (by omega)).2 δ₂ u2 e₂ (x ++ δ₁) hx'
      simpa [List.append_assoc] using this
    · obtain ⟨_, rfl⟩ := derivesIn_of_terminal Terminal.nil dq
      simpa using hx

/-! ### old ⊆ new -/

theorem imm_complete (hc : ImmCtx g g' A A') :
    ∀ n, (∀ α γ, Terminal γ → DerivesIn g n α γ → Derives g' α γ) ∧
         (∀ γ, Terminal γ → DerivesIn g n [Sym.nonterm A] γ →
            ∀ y, Derives g' [Sym.nonterm A'] y → Derives g' [Sym.nonterm A] (γ ++ y)) := by
  intro n
  induction n using Nat.strongRecOn with
  | _ n ih =>
    have U : ∀ γ, Terminal γ → DerivesIn g n [Sym.nonterm A] γ →
        ∀ y, Derives g' [Sym.nonterm A'] y → Derives g' [Sym.nonterm A] (γ ++ y) := by
      intro γ hγ d y hy
      obtain ⟨k, p, hk, hp1, hp2, dp⟩ := derivesIn_of_single hγ d
      cases hlr : isLeftRec p with
      | false =>
        have hq : ({ head := A, body := p.body ++ [Sym.nonterm A'] } : SProd) ∈ g'.prods :=
          (hc.prods _).2 (Or.inr (Or.inl ⟨p, hp1, hp2, hlr, rfl⟩))
        have hβ := (ih k (by omega)).1 p.body γ hγ dp
        exact (Derives.of_prod hq).trans (hβ.append hy)
      | true =>
        obtain ⟨tl, htl⟩ := isLeftRec_iff.1 hlr
        have dp' : DerivesIn g k ([Sym.nonterm A] ++ tl) γ := by
          rw [htl, hp2] at dp; exact dp
        obtain ⟨δ₁, δ₂, k₁, k₂, hδ, e₁, e₂, hk12⟩ := dp'.split
        subst hδ
        obtain ⟨u1, u2⟩ := Terminal.append_iff.1 hγ
        have hq : ({ head := A', body := p.body.tail ++ [Sym.nonterm A'] } : SProd) ∈ g'.prods :=
          (hc.prods _).2 (Or.inr (Or.inr (Or.inl ⟨p, hp1, hp2, hlr, rfl⟩)))
        have hα := (ih k₂ (by omega)).1 tl δ₂ u2 e₂
        have hy' : Derives g' [Sym.nonterm A'] (δ₂ ++ y) := by
          have h1 := Derives.of_prod hq
          have hb : p.body.tail = tl := by rw [htl]; rfl
          simp only [hb] at h1
          exact h1.trans (hα.append hy)
        have := (ih k₁ (by omega)).2 δ₁ u1 e₁ (δ₂ ++ y) hy'
        simpa [List.append_assoc] using this
    refine ⟨?_, U⟩
    intro α
    induction α with
    | nil =>
      intro γ _ d
      obtain ⟨_, rfl⟩ := derivesIn_of_terminal Terminal.nil d
      exact Derives.refl _
    | cons s α' ihα =>
      intro γ hγ d
      have d' : DerivesIn g n ([s] ++ α') γ := d
      obtain ⟨γ₁, γ₂, n₁, n₂, hγe, d₁, d₂, hn⟩ := d'.split
      subst hγe
      obtain ⟨t1, t2⟩ := Terminal.append_iff.1 hγ
      have htail : Derives g' α' γ₂ := by
        by_cases h0 : n₂ = n
        · subst h0; exact ihα γ₂ t2 d₂
        · exact (ih n₂ (by omega)).1 α' γ₂ t2 d₂
      have hhead : Derives g' [s] γ₁ := by
        cases s with
        | term t =>
          obtain ⟨_, rfl⟩ := derivesIn_of_terminal (by intro x hx; simp at hx; exact ⟨t, hx⟩) d₁
          exact Derives.refl _
        | nonterm B =>
          by_cases hB : B = A
          · subst hB
            have hε : Derives g' [Sym.nonterm A'] [] :=
              Derives.of_prod (p := { head := A', body := [] }) ((hc.prods _).2 (Or.inr (Or.inr (Or.inr rfl))))
            have hU : ∀ γ, Terminal γ → DerivesIn g n₁ [Sym.nonterm B] γ →
                ∀ y, Derives g' [Sym.nonterm A'] y → Derives g' [Sym.nonterm B] (γ ++ y) := by
              by_cases h0 : n₁ = n
              · subst h0; exact U
              · exact (ih n₁ (by omega)).2
            simpa using hU γ₁ t1 d₁ [] hε
          · obtain ⟨k, p, hk, hp1, hp2, dp⟩ := derivesIn_of_single t1 d₁
            have hq : p ∈ g'.prods := (hc.prods p).2 (Or.inl ⟨hp1, by rw [hp2]; exact hB⟩)
            have := (ih k (by omega)).1 p.body γ₁ t1 dp
            have h1 := Derives.of_prod hq
            rw [hp2] at h1
            exact h1.trans this
      simpa using hhead.append htail

end imm

theorem lrImmediate_language {g g' : G} {A : String} (h : lrImmediate g A = .ok g') (hw : WellFormed g)
    (w : List String) : Language g' w ↔ Language g w := by
  rcases lrImmediate_spec h with rfl | ⟨A', hfresh, hs, hn, ht, hp, p0, hp0, hp0A⟩
  · exact Iff.rfl
  · have hAin : A ∈ g.nonterms := hp0A ▸ (hw.2 p0 hp0).1
    have hc : ImmCtx g g' A A' :=
      ⟨hp, fun p hpp => WellFormed.fresh_not_in hw hfresh p hpp, fun e => hfresh (e ▸ hAin)⟩
    unfold Language
    rw [hs]
    constructor
    · intro d
      obtain ⟨n, dn⟩ := d.toDerivesIn
      refine (imm_sound hc n).1 _ _ (Terminal.of_map w) ?_ dn
      unfold Free
      simp
      exact fun e => hfresh (e ▸ hw.1)
    · intro d
      obtain ⟨n, dn⟩ := d.toDerivesIn
      exact (imm_complete hc n).1 _ _ (Terminal.of_map w) dn

end AlgoVerif.C08
