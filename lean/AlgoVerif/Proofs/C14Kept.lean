import AlgoVerif.Model.C14R
import AlgoVerif.Proofs.C14World
import AlgoVerif.Proofs.C14Admits
/-!
# C14 proofs — constructors with an edge list, result objects kept by the client (`Model/C14R.lean`)
-/
namespace AlgoVerif.C14

/-! ## `NewX(V, edges…)` -/

theorem initWith_eval (k : Kind) (n : Nat) (es : List EdgeIn) :
    (⟨#[⟨k, n, es⟩], 0⟩ : SWorld).eval = World.initWith k n es := by
  simp [SWorld.eval, World.initWith, SObj.eval]

/-- `NewX(V, edges…)` is `NewX(V)` followed by one `AddEdge` per edge -/
theorem initWith_eq_run (k : Kind) (n : Nat) (es : List EdgeIn) :
    World.initWith k n es = ((World.init k n).run (es.map fun e => Op.edge e.u e.v e.w)).1 := by
  rw [← init_eval, run_refines, srun_edges es _ (by simp [SWorld.init]), ← initWith_eval]
  simp [SWorld.init, SWorld.obj]

/-! ## reading a kept result = asking the query at the moment of the `keep` -/

theorem compute_ask (o : GObj) (q : Query) (hq : q.keepable = true) (sel : Option Int) :
    (o.compute q).bind (fun r => r.ask o.g.n sel) = o.answer (q.at sel) := by
  cases q <;> simp only [Query.keepable] at hq <;> try (exact absurd hq (by decide))
  case paths strat s =>
    cases sel with
    | none =>
      simp only [GObj.compute, Query.at, GObj.answer]
      cases o.g.paths s strat <;> rfl
    | some v =>
      simp only [GObj.compute, Query.at, GObj.answer]
      cases o.g.paths s strat <;> rfl
  case orders strat =>
    cases sel <;> simp only [GObj.compute, Query.at, GObj.answer] <;> cases o.g.orders strat <;> rfl
  case cc =>
    cases sel <;> simp only [GObj.compute, Query.at, GObj.answer] <;> cases o.g.connectedComponents <;> rfl
  case scc =>
    cases sel <;> simp only [GObj.compute, Query.at, GObj.answer] <;> cases o.g.stronglyConnectedComponents <;> rfl
  case cycle =>
    cases sel <;> simp only [GObj.compute, Query.at, GObj.answer] <;> cases o.g.directedCycle <;> rfl
  case topo =>
    cases sel <;> simp only [GObj.compute, Query.at, GObj.answer] <;> cases o.g.topological <;> rfl
  case mst =>
    cases sel <;> simp only [GObj.compute, Query.at, GObj.answer] <;> cases o.g.minimumSpanningTree <;> rfl
  case spt s =>
    cases sel with
    | none =>
      simp only [GObj.compute, Query.at, GObj.answer]
      cases o.g.shortestPathTree s <;> rfl
    | some v =>
      simp only [GObj.compute, Query.at, GObj.answer]
      cases o.g.shortestPathTree s <;> rfl
  case adjOf v =>
    cases sel <;> simp only [GObj.compute, Query.at, GObj.answer] <;> cases o.adjOf v <;> rfl

/-! ## sessions -/

/-- the steps of a session that go to the graph objects (`AddEdge`, direct queries, `Reverse()`, `use`) -/
def baseOps : List ROp → List Op
  | [] => []
  | .base op :: ops => op :: baseOps ops
  | _ :: ops => baseOps ops

/-- the outcomes of those steps -/
def pickBase : List ROp → List (Outcome Answer) → List (Outcome Answer)
  | .base _ :: ops, a :: as => a :: pickBase ops as
  | _ :: ops, _ :: as => pickBase ops as
  | _, _ => []

theorem step_w (s : Session) (op : ROp) :
    (s.step op).1.w = match op with
      | .base o => (s.w.step o).1
      | _ => s.w := by
  cases op with
  | base o => rfl
  | keep q => simp only [Session.step]; cases s.w.obj.compute q <;> rfl
  | hole => rfl
  | ask i sel => simp only [Session.step]; cases s.kept[i]? <;> rfl
  | callerWrite => rfl

/-- `keep`, `ask` leave every graph object as it is, and the other steps do what they do without them -/
theorem run_w (ops : List ROp) : ∀ s : Session,
    (s.run ops).1.w = (s.w.run (baseOps ops)).1 ∧ pickBase ops (s.run ops).2 = (s.w.run (baseOps ops)).2 := by
  induction ops with
  | nil => intro s; exact ⟨rfl, rfl⟩
  | cons op ops ih =>
    intro s
    have hw := step_w s op
    obtain ⟨h1, h2⟩ := ih (s.step op).1
    cases op with
    | base o =>
      simp only at hw
      simp only [Session.run, baseOps, World.run, pickBase]
      rw [h1, h2, hw]
      exact ⟨rfl, rfl⟩
    | keep q =>
      simp only at hw
      simp only [Session.run, baseOps, pickBase]
      rw [h1, h2, hw]; exact ⟨rfl, rfl⟩
    | hole =>
      simp only at hw
      simp only [Session.run, baseOps, pickBase]
      rw [h1, h2, hw]; exact ⟨rfl, rfl⟩
    | ask i sel =>
      simp only at hw
      simp only [Session.run, baseOps, pickBase]
      rw [h1, h2, hw]; exact ⟨rfl, rfl⟩
    | callerWrite =>
      simp only at hw
      simp only [Session.run, baseOps, pickBase]
      rw [h1, h2, hw]; exact ⟨rfl, rfl⟩

/-- no step changes or removes a result the client already holds -/
theorem step_kept (s : Session) (op : ROp) (i : Nat) (kp : Kept) (h : s.kept[i]? = some kp) :
    (s.step op).1.kept[i]? = some kp := by
  have hi : i < s.kept.size := by
    rcases Nat.lt_or_ge i s.kept.size with hlt | hge
    · exact hlt
    · rw [Array.getElem?_eq_none hge] at h; cases h
  cases op with
  | base o => exact h
  | keep q =>
    simp only [Session.step]
    cases s.w.obj.compute q with
    | ok r => simp only [Array.getElem?_push_lt hi]; rw [← Array.getElem?_eq_getElem hi]; exact h
    | panic => exact h
    | diverge => exact h
  | hole =>
    simp only [Session.step, Array.getElem?_push_lt hi]; rw [← Array.getElem?_eq_getElem hi]; exact h
  | ask j sel => simp only [Session.step]; cases s.kept[j]? <;> exact h
  | callerWrite => exact h

theorem run_length (ops : List ROp) : ∀ s : Session, (s.run ops).2.length = ops.length := by
  induction ops with
  | nil => intro s; rfl
  | cons op ops ih => intro s; simp [Session.run, ih]

theorem run_append (a b : List ROp) : ∀ s : Session,
    (s.run (a ++ b)).1 = ((s.run a).1.run b).1 ∧ (s.run (a ++ b)).2 = (s.run a).2 ++ ((s.run a).1.run b).2 := by
  induction a with
  | nil => intro s; exact ⟨rfl, rfl⟩
  | cons op a ih =>
    intro s
    obtain ⟨h1, h2⟩ := ih (s.step op).1
    simp only [List.cons_append, Session.run]
    rw [h1, h2]
    exact ⟨rfl, rfl⟩

/-- a result the client holds is read as the value it is, whatever happens between now and the read -/
theorem run_ask (mid : List ROp) : ∀ (s : Session) (i : Nat) (kp : Kept) (sel : Option Int) (post : List ROp),
    s.kept[i]? = some kp →
    (s.run (mid ++ .ask i sel :: post)).2[mid.length]? = some (kp.r.ask kp.o.g.n sel) := by
  induction mid with
  | nil =>
    intro s i kp sel post h
    simp only [List.nil_append, Session.run, Session.step, h, List.length_nil, List.getElem?_cons_zero]
  | cons op mid ih =>
    intro s i kp sel post h
    simp only [List.cons_append, Session.run, List.length_cons, List.getElem?_cons_succ]
    exact ih _ i kp sel post (step_kept s op i kp h)

end AlgoVerif.C14
