import AlgoVerif.Proofs.C06Bits
import AlgoVerif.Proofs.C06Order
/-!
# C06 — the Patricia trie unfolded into a crit-bit tree (pure part)

Following the downward links of the Patricia store from `root.left` and cutting at every upward
("thread") link gives a finite binary tree `PT`: inner nodes carry the store index and bit position of
the Patricia node they come from, leaves carry the index, key and value of the node a thread points to.
This file is about such trees only: the crit-bit invariant `Crit`, the descent that `search` performs,
sortedness of the in-order leaf sequence, and insertion of a new key at its first differing bit.
-/
namespace AlgoVerif.C06
variable {V : Type}
open BitString (xbit Small xbit_lt xbit_ge lenPos)

/-! ## bit-lexicographic order implies `klt` -/

theorem nat_lt_of_testBit {x y p : Nat} (hx : x.testBit p = false) (hy : y.testBit p = true)
    (hj : ∀ j, p < j → x.testBit j = y.testBit j) : x < y := by
  have hq : x / 2 ^ (p + 1) = y / 2 ^ (p + 1) := by
    apply Nat.eq_of_testBit_eq
    intro i
    rw [Nat.testBit_div_two_pow, Nat.testBit_div_two_pow]
    exact hj _ (by omega)
  have hrx : x % 2 ^ (p + 1) < 2 ^ p := by
    apply Nat.lt_pow_two_of_testBit
    intro i hi
    rw [Nat.testBit_mod_two_pow]
    by_cases h : i = p
    · subst h; simp [hx]
    · have : x.testBit i = y.testBit i := hj i (by omega)
      by_cases h2 : i < p + 1
      · omega
      · simp [h2]
  have hry : 2 ^ p ≤ y % 2 ^ (p + 1) := by
    apply Nat.ge_two_pow_of_testBit
    rw [Nat.testBit_mod_two_pow]
    simp [hy]
  have h1 := Nat.div_add_mod x (2 ^ (p + 1))
  have h2 := Nat.div_add_mod y (2 ^ (p + 1))
  rw [hq] at h1
  omega

theorem u8_lt_of_testBit {x y : UInt8} {p : Nat} (hx : x.toNat.testBit p = false) (hy : y.toNat.testBit p = true)
    (hj : ∀ j, p < j → x.toNat.testBit j = y.toNat.testBit j) : x < y :=
  UInt8.lt_iff_toNat_lt.mpr (nat_lt_of_testBit hx hy hj)

/-- if the zero-padded bit sequences first differ at `d`, with `0` in `a` and `1` in `b`, then `a < b` -/
theorem klt_of_bits {a b : Key} {d : Nat} (ha : kbit a d = false) (hb : kbit b d = true)
    (hj : ∀ j, j < d → kbit a j = kbit b j) : klt a b = true := by
  induction a generalizing b d with
  | nil =>
    cases b with
    | nil => simp [kbit_nil] at hb
    | cons => rfl
  | cons x xs ih =>
    cases b with
    | nil => simp [kbit_nil] at hb
    | cons y ys =>
      by_cases hd : d < 8
      · rw [kbit_cons_lt _ _ hd] at ha hb
        apply klt_cons_of_lt
        apply u8_lt_of_testBit ha hb
        intro j hj'
        by_cases hj8 : j < 8
        · have := hj (7 - j) (by omega)
          rw [kbit_cons_lt _ _ (by omega), kbit_cons_lt _ _ (by omega)] at this
          have h7 : 7 - (7 - j) = j := by omega
          rwa [h7] at this
        · rw [u8_testBit_high x (by omega), u8_testBit_high y (by omega)]
      · obtain ⟨d', rfl⟩ : ∃ d', d = d' + 8 := ⟨d - 8, by omega⟩
        rw [kbit_cons_add] at ha hb
        have hxy : x = y := by
          apply u8_eq_of_testBit
          intro j hj'
          have := hj (7 - j) (by omega)
          rw [kbit_cons_lt _ _ (by omega), kbit_cons_lt _ _ (by omega)] at this
          have h7 : 7 - (7 - j) = j := by omega
          rwa [h7] at this
        subst hxy
        rw [klt_cons_same]
        apply ih ha hb
        intro j hj'
        have := hj (j + 8) (by omega)
        rwa [kbit_cons_add, kbit_cons_add] at this

/-- equal zero-padded bits and a shorter string: the shorter one is smaller -/
theorem klt_of_kbit_eq_of_length_lt (a b : Key) (h : ∀ j, kbit a j = kbit b j) (hl : a.length < b.length) :
    klt a b = true := by
  induction a generalizing b with
  | nil => cases b with
    | nil => simp at hl
    | cons => rfl
  | cons x xs ih =>
    cases b with
    | nil => simp at hl
    | cons y ys =>
      obtain ⟨hxy, hrest⟩ := (BitString.kbit_cons_eq_iff x y xs ys).mp h
      subst hxy
      rw [klt_cons_same]
      exact ih ys hrest (by simpa using hl)

/-- the order in which the Patricia trie sees keys — first differing position of the sequence `Bit` reads, bits
before lengths — is the lexicographic order (for keys whose bits stay below the length positions) -/
theorem klt_of_xbits {a b : Key} {d : Nat} (hsa : Small a) (hsb : Small b) (ha : xbit a d = false) (hb : xbit b d = true)
    (hj : ∀ j, j < d → xbit a j = xbit b j) : klt a b = true := by
  unfold Small at hsa hsb
  by_cases hd : d < lenPos
  · rw [xbit_lt _ hd] at ha hb
    apply klt_of_bits ha hb
    intro j hjd
    have := hj j hjd
    rwa [xbit_lt _ (by omega), xbit_lt _ (by omega)] at this
  · rw [xbit_ge _ (by omega)] at ha hb
    simp only [decide_eq_false_iff_not, decide_eq_true_eq] at ha hb
    apply klt_of_kbit_eq_of_length_lt a b _ (by omega)
    intro j
    by_cases hjl : j < lenPos
    · have := hj j (by omega)
      rwa [xbit_lt _ hjl, xbit_lt _ hjl] at this
    · rw [kbit_of_len_le a (by omega), kbit_of_len_le b (by omega)]

/-! ## trees -/

inductive PT (V : Type) where
  | leaf (i : Nat) (k : Key) (v : V)
  | inner (i : Nat) (bp : Nat) (l r : PT V)

namespace PT

/-- in-order leaves -/
def ents : PT V → List (Key × V)
  | leaf _ k v => [(k, v)]
  | inner _ _ l r => ents l ++ ents r

def keys (T : PT V) : List Key := (ents T).map (·.1)

def leafIdx : PT V → List Nat
  | leaf i _ _ => [i]
  | inner _ _ l r => leafIdx l ++ leafIdx r

def inners : PT V → List Nat
  | leaf _ _ _ => []
  | inner i _ l r => i :: (inners l ++ inners r)

/-- the leaf `search` ends at: at an inner node, bit `bp` (1-based) of the key decides -/
def descend : PT V → Key → Nat × Key × V
  | leaf i k v, _ => (i, k, v)
  | inner _ bp l r, key => if xbit key (bp - 1) then descend r key else descend l key

/-- the crit-bit invariant -/
def Crit : PT V → Prop
  | leaf _ k _ => Small k
  | inner _ bp l r =>
    1 ≤ bp ∧ (∀ k ∈ keys l, xbit k (bp - 1) = false) ∧ (∀ k ∈ keys r, xbit k (bp - 1) = true) ∧
    (∀ k ∈ keys l ++ keys r, ∀ k' ∈ keys l ++ keys r, ∀ j, j < bp - 1 → xbit k j = xbit k' j) ∧
    Crit l ∧ Crit r

@[simp] theorem keys_leaf (i : Nat) (k : Key) (v : V) : keys (leaf i k v) = [k] := rfl
@[simp] theorem keys_inner (i bp : Nat) (l r : PT V) : keys (inner i bp l r) = keys l ++ keys r := by
  simp [keys, ents]

theorem ents_ne_nil (T : PT V) : ents T ≠ [] := by
  induction T with
  | leaf => simp [ents]
  | inner i bp l r ihl ihr => simp [ents, ihl]

theorem descend_mem (T : PT V) (key : Key) : ((descend T key).2.1, (descend T key).2.2) ∈ ents T := by
  induction T with
  | leaf => simp [descend, ents]
  | inner i bp l r ihl ihr =>
    simp only [descend, ents, List.mem_append]
    split
    · exact .inr ihr
    · exact .inl ihl

theorem descend_key_mem (T : PT V) (key : Key) : (descend T key).2.1 ∈ keys T :=
  List.mem_map.mpr ⟨_, descend_mem T key, rfl⟩

theorem descend_idx_mem (T : PT V) (key : Key) : (descend T key).1 ∈ leafIdx T := by
  induction T with
  | leaf => simp [descend, leafIdx]
  | inner i bp l r ihl ihr =>
    simp only [descend, leafIdx, List.mem_append]
    split
    · exact .inr ihr
    · exact .inl ihl

/-- a held key is found by the descent -/
theorem descend_of_mem {T : PT V} (hc : Crit T) {k : Key} (hk : k ∈ keys T) : (descend T k).2.1 = k := by
  induction T with
  | leaf i k' v =>
    simp only [keys_leaf, List.mem_singleton] at hk
    simp [descend, hk]
  | inner i bp l r ihl ihr =>
    obtain ⟨_, hl, hr, _, hcl, hcr⟩ := hc
    simp only [keys_inner, List.mem_append] at hk
    simp only [descend]
    rcases hk with hk | hk
    · simp only [hl k hk, Bool.false_eq_true, if_false]; exact ihl hcl hk
    · simp only [hr k hk, if_true]; exact ihr hcr hk

theorem Crit.small {T : PT V} (hc : Crit T) : ∀ k ∈ keys T, Small k := by
  induction T with
  | leaf i k v => intro k' hk'; simp only [keys_leaf, List.mem_singleton] at hk'; subst hk'; exact hc
  | inner i bp l r ihl ihr =>
    intro k hk
    rw [keys_inner, List.mem_append] at hk
    rcases hk with hk | hk
    · exact ihl hc.2.2.2.2.1 k hk
    · exact ihr hc.2.2.2.2.2 k hk

theorem sorted_ents {T : PT V} (hc : Crit T) : Sorted (ents T) := by
  induction T with
  | leaf => simp [ents, Sorted]
  | inner i bp l r ihl ihr =>
    obtain ⟨_, hl, hr, hp, hcl, hcr⟩ := hc
    unfold Sorted ents
    rw [List.pairwise_append]
    refine ⟨ihl hcl, ihr hcr, ?_⟩
    intro a ha b hb
    have hka : a.1 ∈ keys l := List.mem_map.mpr ⟨a, ha, rfl⟩
    have hkb : b.1 ∈ keys r := List.mem_map.mpr ⟨b, hb, rfl⟩
    apply klt_of_xbits (Crit.small hcl _ hka) (Crit.small hcr _ hkb) (hl _ hka) (hr _ hkb)
    intro j hj
    exact hp _ (List.mem_append.mpr (.inl hka)) _ (List.mem_append.mpr (.inr hkb)) j hj

/-! ## insertion of a new key at its first differing bit `d` (1-based) -/

/-- what `_put` hangs in place of the link it stops at -/
def graft (S : PT V) (key : Key) (v : V) (d idx : Nat) : PT V :=
  if xbit key (d - 1) then inner idx d S (leaf idx key v) else inner idx d (leaf idx key v) S

/-- `_put`'s descent: follow the key's bits while the bit position is smaller than `d` -/
def ins : PT V → Key → V → Nat → Nat → PT V
  | leaf i k v', key, v, d, idx => graft (leaf i k v') key v d idx
  | inner i bp l r, key, v, d, idx =>
    if bp < d then
      (if xbit key (bp - 1) then inner i bp l (ins r key v d idx) else inner i bp (ins l key v d idx) r)
    else graft (inner i bp l r) key v d idx

theorem mem_ents_graft (S : PT V) (key : Key) (v : V) (d idx : Nat) (e : Key × V) :
    e ∈ ents (graft S key v d idx) ↔ e = (key, v) ∨ e ∈ ents S := by
  unfold graft
  split <;> simp [ents, or_comm]

theorem mem_ents_ins (T : PT V) (key : Key) (v : V) (d idx : Nat) (e : Key × V) :
    e ∈ ents (ins T key v d idx) ↔ e = (key, v) ∨ e ∈ ents T := by
  induction T with
  | leaf => simp [ins, mem_ents_graft]
  | inner i bp l r ihl ihr =>
    simp only [ins]
    split
    · split
      · simp only [ents, List.mem_append, ihr]
        constructor
        · rintro (h | h | h)
          · exact .inr (.inl h)
          · exact .inl h
          · exact .inr (.inr h)
        · rintro (h | h | h)
          · exact .inr (.inl h)
          · exact .inl h
          · exact .inr (.inr h)
      · simp only [ents, List.mem_append, ihl]
        constructor
        · rintro ((h | h) | h)
          · exact .inl h
          · exact .inr (.inl h)
          · exact .inr (.inr h)
        · rintro (h | h | h)
          · exact .inl (.inl h)
          · exact .inl (.inr h)
          · exact .inr h
    · simp [mem_ents_graft]

theorem mem_keys_ins (T : PT V) (key : Key) (v : V) (d idx : Nat) (k : Key) :
    k ∈ keys (ins T key v d idx) ↔ k = key ∨ k ∈ keys T := by
  simp only [keys, List.mem_map]
  constructor
  · rintro ⟨e, he, rfl⟩
    rcases (mem_ents_ins T key v d idx e).mp he with rfl | h
    · exact .inl rfl
    · exact .inr ⟨e, h, rfl⟩
  · rintro (rfl | ⟨e, he, rfl⟩)
    · exact ⟨(k, v), (mem_ents_ins T k v d idx _).mpr (.inl rfl), rfl⟩
    · exact ⟨e, (mem_ents_ins T key v d idx e).mpr (.inr he), rfl⟩

/-- all keys below a node agree with each other on the bits before its bit position; for a leaf
this is vacuous.  `agree T n`: all keys of `T` agree on bits `< n`. -/
def AgreeBelow (T : PT V) (n : Nat) : Prop := ∀ k ∈ keys T, ∀ k' ∈ keys T, ∀ j, j < n → xbit k j = xbit k' j

theorem Crit.agree {i bp : Nat} {l r : PT V} (hc : Crit (inner i bp l r)) : AgreeBelow (inner i bp l r) (bp - 1) := by
  intro k hk k' hk' j hj
  rw [keys_inner] at hk hk'
  exact hc.2.2.2.1 k hk k' hk' j hj

/-- Crit is preserved by the insertion, provided `d` is the first bit at which the new key differs
from the key its own descent ends at -/
theorem crit_ins {T : PT V} (hc : Crit T) (key : Key) (hsk : Small key) (v : V) (d idx : Nat) (hd : 1 ≤ d)
    (hdiff : xbit key (d - 1) ≠ xbit (descend T key).2.1 (d - 1))
    (hsame : ∀ j, j < d - 1 → xbit key j = xbit (descend T key).2.1 j) :
    Crit (ins T key v d idx) := by
  -- the grafting step, for a subtree all of whose keys agree with the descent's key up to and including bit d-1
  have hgraft : ∀ S : PT V, Crit S → (∀ k ∈ keys S, ∀ j, j < d → xbit k j = xbit (descend T key).2.1 j) →
      Crit (graft S key v d idx) := by
    intro S hS hall
    have hside : ∀ k ∈ keys S, xbit k (d - 1) = !xbit key (d - 1) := by
      intro k hk
      rw [hall k hk (d - 1) (by omega)]
      cases h1 : xbit key (d - 1) <;> cases h2 : xbit (descend T key).2.1 (d - 1) <;> simp_all
    have hpre : ∀ k ∈ keys S, ∀ j, j < d - 1 → xbit k j = xbit key j := by
      intro k hk j hj
      rw [hall k hk j (by omega), hsame j hj]
    unfold graft
    cases hb : xbit key (d - 1)
    · simp only [Bool.false_eq_true, if_false]
      refine ⟨hd, ?_, ?_, ?_, hsk, hS⟩
      · simp [hb]
      · intro k hk; rw [hside k hk, hb]; rfl
      · intro k hk k' hk' j hj
        simp only [keys_leaf, List.cons_append, List.nil_append, List.mem_cons] at hk hk'
        rcases hk with rfl | hk <;> rcases hk' with rfl | hk'
        · rfl
        · exact (hpre k' hk' j hj).symm
        · exact hpre k hk j hj
        · rw [hpre k hk j hj, hpre k' hk' j hj]
    · simp only [if_true]
      refine ⟨hd, ?_, ?_, ?_, hS, hsk⟩
      · intro k hk; rw [hside k hk, hb]; rfl
      · simp [hb]
      · intro k hk k' hk' j hj
        simp only [keys_leaf, List.mem_append, List.mem_singleton] at hk hk'
        rcases hk with hk | rfl <;> rcases hk' with hk' | rfl
        · rw [hpre k hk j hj, hpre k' hk' j hj]
        · exact hpre k hk j hj
        · exact (hpre k' hk' j hj).symm
        · rfl
  -- generalise over the subtree reached so far: its descent ends where the whole tree's does
  suffices h : ∀ S : PT V, Crit S → descend S key = descend T key → Crit (ins S key v d idx) from h T hc rfl
  intro S
  induction S with
  | leaf i k v' =>
    intro hS hdesc
    simp only [ins]
    apply hgraft _ hS
    intro k' hk' j _
    simp only [keys_leaf, List.mem_singleton] at hk'
    subst hk'
    rw [← hdesc]; rfl
  | inner i bp l r ihl ihr =>
    intro hS hdesc
    obtain ⟨hbp, hl, hr, hp, hcl, hcr⟩ := hS
    have hkstar : (descend T key).2.1 ∈ keys (inner i bp l r) := by rw [← hdesc]; exact descend_key_mem _ _
    simp only [ins]
    by_cases hlt : bp < d
    · simp only [hlt, if_true]
      -- the new key agrees with the descent's key on bits < d - 1, hence on bits < bp - 1 and at bp - 1
      have hnew : ∀ j, j < bp → xbit key j = xbit (descend T key).2.1 j := fun j hj => hsame j (by omega)
      cases hb : xbit key (bp - 1)
      · simp only [Bool.false_eq_true, if_false]
        have hdl : descend l key = descend T key := by rw [← hdesc]; simp [descend, hb]
        refine ⟨hbp, ?_, hr, ?_, ihl hcl hdl, hcr⟩
        · intro k hk
          rcases (mem_keys_ins l key v d idx k).mp hk with rfl | hk
          · exact hb
          · exact hl k hk
        · have hagree : ∀ k ∈ keys (ins l key v d idx) ++ keys r, ∀ j, j < bp - 1 → xbit k j = xbit (descend T key).2.1 j := by
            intro k hk j hj
            rcases List.mem_append.mp hk with hk | hk
            · rcases (mem_keys_ins l key v d idx k).mp hk with rfl | hk
              · exact hnew j (by omega)
              · exact hp k (List.mem_append.mpr (.inl hk)) _ (by simpa using hkstar) j hj
            · exact hp k (List.mem_append.mpr (.inr hk)) _ (by simpa using hkstar) j hj
          intro k hk k' hk' j hj
          rw [hagree k hk j hj, hagree k' hk' j hj]
      · simp only [if_true]
        have hdr : descend r key = descend T key := by rw [← hdesc]; simp [descend, hb]
        refine ⟨hbp, hl, ?_, ?_, hcl, ihr hcr hdr⟩
        · intro k hk
          rcases (mem_keys_ins r key v d idx k).mp hk with rfl | hk
          · exact hb
          · exact hr k hk
        · have hagree : ∀ k ∈ keys l ++ keys (ins r key v d idx), ∀ j, j < bp - 1 → xbit k j = xbit (descend T key).2.1 j := by
            intro k hk j hj
            rcases List.mem_append.mp hk with hk | hk
            · exact hp k (List.mem_append.mpr (.inl hk)) _ (by simpa using hkstar) j hj
            · rcases (mem_keys_ins r key v d idx k).mp hk with rfl | hk
              · exact hnew j (by omega)
              · exact hp k (List.mem_append.mpr (.inr hk)) _ (by simpa using hkstar) j hj
          intro k hk k' hk' j hj
          rw [hagree k hk j hj, hagree k' hk' j hj]
    · simp only [hlt, if_false]
      -- bp ≥ d, and bp = d is impossible: the descent's key would share bit d-1 with the new key
      have hne : bp ≠ d := by
        intro heq
        subst heq
        apply hdiff
        rw [← hdesc]
        simp only [descend]
        cases hb : xbit key (bp - 1)
        · simp only [Bool.false_eq_true, if_false]
          exact (hl _ (descend_key_mem l key)).symm
        · simp only [if_true]
          exact (hr _ (descend_key_mem r key)).symm
      apply hgraft (inner i bp l r) ⟨hbp, hl, hr, hp, hcl, hcr⟩
      intro k hk j hj
      rw [keys_inner] at hk hkstar
      exact hp k hk _ hkstar j (by omega)

/-- bit position the stopping point of `ins` has, if it is an inner node, is larger than `d` (used for
the representation: the grafted node's child links stay downward links) -/
theorem descend_ins_stop {i bp : Nat} {l r : PT V} (hc : Crit (inner i bp l r)) (key : Key) (d : Nat)
    (hge : ¬ bp < d) (hdiff : xbit key (d - 1) ≠ xbit (descend (inner i bp l r) key).2.1 (d - 1)) : d < bp := by
  have hne : bp ≠ d := by
    intro heq
    subst heq
    apply hdiff
    simp only [descend]
    cases hb : xbit key (bp - 1)
    · simp only [Bool.false_eq_true, if_false]
      exact (hc.2.1 _ (descend_key_mem l key)).symm
    · simp only [if_true]
      exact (hc.2.2.1 _ (descend_key_mem r key)).symm
  omega

/-! ## value update along the descent -/

def upd : PT V → Key → V → PT V
  | leaf i k _, _, v => leaf i k v
  | inner i bp l r, key, v => if xbit key (bp - 1) then inner i bp l (upd r key v) else inner i bp (upd l key v) r

theorem keys_upd (T : PT V) (key : Key) (v : V) : keys (upd T key v) = keys T := by
  induction T with
  | leaf => simp [upd]
  | inner i bp l r ihl ihr =>
    simp only [upd]
    split <;> simp [ihl, ihr]

theorem crit_upd {T : PT V} (hc : Crit T) (key : Key) (v : V) : Crit (upd T key v) := by
  induction T with
  | leaf => trivial
  | inner i bp l r ihl ihr =>
    obtain ⟨hbp, hl, hr, hp, hcl, hcr⟩ := hc
    simp only [upd]
    split
    · exact ⟨hbp, hl, by rwa [keys_upd], by rwa [keys_upd], hcl, ihr hcr⟩
    · exact ⟨hbp, by rwa [keys_upd], hr, by rwa [keys_upd], ihl hcl, hcr⟩

theorem mem_ents_upd {T : PT V} (hc : Crit T) (key : Key) (v : V) (hk : (descend T key).2.1 = key) (e : Key × V) :
    e ∈ ents (upd T key v) ↔ e = (key, v) ∨ (e ∈ ents T ∧ e.1 ≠ key) := by
  induction T with
  | leaf i k v' =>
    simp only [descend] at hk
    subst hk
    simp only [upd, ents, List.mem_singleton]
    constructor
    · exact fun h => .inl h
    · rintro (h | ⟨h, hne⟩)
      · exact h
      · subst h; exact absurd rfl hne
  | inner i bp l r ihl ihr =>
    obtain ⟨hbp, hl, hr, hp, hcl, hcr⟩ := hc
    simp only [descend] at hk
    simp only [upd]
    cases hb : xbit key (bp - 1)
    · simp only [hb, Bool.false_eq_true, if_false] at hk ⊢
      simp only [ents, List.mem_append, ihl hcl hk]
      constructor
      · rintro ((h | ⟨h, hne⟩) | h)
        · exact .inl h
        · exact .inr ⟨.inl h, hne⟩
        · refine .inr ⟨.inr h, ?_⟩
          intro heq
          have := hr e.1 (List.mem_map.mpr ⟨e, h, rfl⟩)
          rw [heq, hb] at this; simp at this
      · rintro (h | ⟨h | h, hne⟩)
        · exact .inl (.inl h)
        · exact .inl (.inr ⟨h, hne⟩)
        · exact .inr h
    · simp only [hb, if_true] at hk ⊢
      simp only [ents, List.mem_append, ihr hcr hk]
      constructor
      · rintro (h | h | ⟨h, hne⟩)
        · refine .inr ⟨.inl h, ?_⟩
          intro heq
          have := hl e.1 (List.mem_map.mpr ⟨e, h, rfl⟩)
          rw [heq, hb] at this; simp at this
        · exact .inl h
        · exact .inr ⟨.inr h, hne⟩
      · rintro (h | ⟨h | h, hne⟩)
        · exact .inr (.inl h)
        · exact .inl h
        · exact .inr (.inr ⟨h, hne⟩)

end PT
end AlgoVerif.C06
