import AlgoVerif.Proofs.C07Basic
/-!
# C07 — heap sort (`sort/heap.go`)

`aux = [zero] ++ a`; positions `1..n` hold a max-heap (child `i` is dominated by its parent `i/2`),
position `0` is never touched.
-/
namespace AlgoVerif.C07
open AlgoVerif

variable {α : Type}

/-- the state `sink` works on: every child `i ∈ [2,n]` whose parent is `≥ lo` and is not `k` is
dominated by its parent, and the children of `k` are dominated by `k`'s parent (if that is `≥ lo`). -/
structure SinkInv (cmp : α → α → Int) (b : Array α) (n lo k : Nat) : Prop where
  hn : n < b.size
  dom : ∀ i, 2 ≤ i → (hin : i ≤ n) → lo ≤ i / 2 → i / 2 ≠ k → cmp (b[i]'(by omega)) (b[i/2]'(by omega)) ≤ 0
  gp : ∀ i, 2 ≤ i → (hin : i ≤ n) → (hik : i / 2 = k) → lo ≤ k / 2 → cmp (b[i]'(by omega)) (b[k/2]'(by omega)) ≤ 0

/-- what `sink` establishes -/
structure SinkPost (cmp : α → α → Int) (b b' : Array α) (n lo k : Nat) : Prop where
  hsz : b'.size = b.size
  hn : n < b.size
  perm : b'.Perm b
  dom : ∀ i, 2 ≤ i → (hin : i ≤ n) → lo ≤ i / 2 → cmp (b'[i]'(by omega)) (b'[i/2]'(by omega)) ≤ 0
  frame : ∀ i, (i < k ∨ n < i) → (h : i < b.size) → b'[i]'(by omega) = b[i]
  pres : ∀ P : α → Prop, (∀ p, k ≤ p → (hp : p ≤ n) → P (b[p]'(by omega))) →
            ∀ p, k ≤ p → (hp : p ≤ n) → P (b'[p]'(by omega))

theorem sink_spec {cmp : α → α → Int} (tp : TotalPreorder cmp) (n lo : Nat) :
    ∀ (f : Nat) (k : Nat) (b : Array α), 1 ≤ k → lo ≤ k → n - k < f → SinkInv cmp b n lo k →
      ∃ b', sink cmp (n : Int) f (k : Int) b = .ok b' ∧ SinkPost cmp b b' n lo k := by
  intro f
  induction f with
  | zero => intro k b _ _ hf; omega
  | succ f ih =>
    intro k b hk hlo hf inv
    have hn := inv.hn
    unfold sink
    by_cases h2k : 2 * k ≤ n
    · have c1 : 2 * (k : Int) ≤ (n : Int) := by omega
      simp only [c1, ↓reduceIte]
      have e2k : (2 * (k : Int)) = ((2 * k : Nat) : Int) := by omega
      have e2k1 : (2 * (k : Int) + 1) = ((2 * k + 1 : Nat) : Int) := by omega
      -- choose the larger child j
      have hj : ∃ j : Nat, (j = 2*k ∨ (j = 2*k+1 ∧ 2*k+1 ≤ n)) ∧
          (if 2 * (k : Int) < (n : Int) then do
              let x ← get b (2 * (k : Int))
              let y ← get b (2 * (k : Int) + 1)
              Outcome.ok (if cmp x y < 0 then 2 * (k : Int) + 1 else 2 * (k : Int))
            else Outcome.ok (2 * (k : Int)) : Outcome Int) = .ok (j : Int) ∧
          (∀ i, 2 ≤ i → (hin : i ≤ n) → i / 2 = k → (hj : j < b.size) → cmp (b[i]'(by omega)) b[j] ≤ 0) := by
        by_cases hlt : 2 * k < n
        · have c2 : 2 * (k : Int) < (n : Int) := by omega
          simp only [c2, ↓reduceIte]
          rw [e2k1, e2k, get_nat (by omega : 2*k < b.size), get_nat (by omega : 2*k+1 < b.size)]
          simp only [ok_bind]
          by_cases hc : cmp b[2*k] b[2*k+1] < 0
          · refine ⟨2*k+1, Or.inr ⟨rfl, by omega⟩, by simp [hc], ?_⟩
            intro i hi2 hin hik _
            have : i = 2*k ∨ i = 2*k+1 := by omega
            rcases this with rfl | rfl
            · exact TotalPreorder.le_of_lt hc
            · exact tp.refl _
          · refine ⟨2*k, Or.inl rfl, by simp [hc], ?_⟩
            intro i hi2 hin hik _
            have : i = 2*k ∨ i = 2*k+1 := by omega
            rcases this with rfl | rfl
            · exact tp.refl _
            · exact tp.le_of_not_lt hc
        · have c2 : ¬ 2 * (k : Int) < (n : Int) := by omega
          simp only [c2, ↓reduceIte]
          refine ⟨2*k, Or.inl rfl, by rw [e2k], ?_⟩
          intro i hi2 hin hik _
          have : i = 2*k := by omega
          subst this
          exact tp.refl _
      obtain ⟨j, hjv, hjeq, hjmax⟩ := hj
      rw [hjeq]
      simp only [ok_bind]
      have hjn : j ≤ n := by omega
      have hjk : j / 2 = k := by omega
      have hj2 : 2 ≤ j := by omega
      rw [get_nat (by omega : k < b.size), get_nat (by omega : j < b.size)]
      simp only [ok_bind]
      by_cases hc : cmp b[k] b[j] ≥ 0
      · -- stop: `k` dominates its children
        simp only [hc, ↓reduceIte]
        refine ⟨b, rfl, rfl, hn, Array.Perm.refl _, ?_, fun _ _ _ => rfl, fun P h => h⟩
        intro i hi2 hin hlo'
        by_cases hik : i / 2 = k
        · have h1 := hjmax i hi2 hin hik (by omega)
          have h2 : cmp b[j] b[k] ≤ 0 := tp.le_of_ge hc
          have := tp.trans _ _ _ h1 h2
          simpa [hik] using this
        · exact inv.dom i hi2 hin hlo' hik
      · simp only [hc, ↓reduceIte]
        have hlt : cmp b[k] b[j] < 0 := by omega
        rw [swap_ok (by omega) (by omega) (by omega) (by omega)]
        simp only [ok_bind, Int.toNat_natCast]
        have hkj : k ≠ j := by omega
        have inv' : SinkInv cmp (b.swap k j (by omega) (by omega)) n lo j := by
          refine ⟨by simpa using hn, ?_, ?_⟩
          · intro i hi2 hin hlo' hij
            simp only [Array.getElem_swap]
            have d := inv.dom
            have g := inv.gp
            by_cases hik : i / 2 = k
            · -- i is a child of k
              by_cases hi_j : i = j
              · subst hi_j
                simp [hik, Ne.symm hkj]
                exact TotalPreorder.le_of_lt hlt
              · have hik' : i ≠ k := by omega
                have h1 := hjmax i hi2 hin hik (by omega)
                simp [hik, hi_j, hik']
                exact h1
            · by_cases hi_k : i = k
              · subst hi_k
                have h3 : i / 2 ≠ i := by omega
                have h4 : i / 2 ≠ j := by omega
                simp [h3, h4]
                exact g j hj2 hjn hjk (by omega)
              · have h5 : i ≠ j := by omega
                have h6 : i / 2 ≠ j := hij
                simp [hi_k, h5, hik, h6]
                exact d i hi2 hin hlo' hik
          · intro i hi2 hin hij hlo'
            simp only [Array.getElem_swap]
            have hik : i ≠ k := by omega
            have hi_j : i ≠ j := by omega
            have h7 : j / 2 = k := hjk
            simp [hik, hi_j, h7]
            have := inv.dom i hi2 hin (by omega) (by omega)
            simpa [hij] using this
        obtain ⟨b', hb', post⟩ := ih j (b.swap k j (by omega) (by omega)) (by omega) (by omega) (by omega) inv'
        refine ⟨b', hb', by simpa using post.hsz, hn, post.perm.trans (Array.swap_perm _ _), post.dom, ?_, ?_⟩
        · intro i hi h
          have := post.frame i (by omega) (by simpa using h)
          rw [this]
          simp only [Array.getElem_swap]
          have : i ≠ k := by omega
          have : i ≠ j := by omega
          simp [*]
        · intro P hP p hkp hpn
          by_cases hpj : j ≤ p
          · apply post.pres P _ p hpj hpn
            intro q hjq hqn
            simp only [Array.getElem_swap]
            have : q ≠ k := by omega
            by_cases hqj : q = j
            · subst hqj; simp [this]; exact hP k (Nat.le_refl _) (by omega)
            · simp [this, hqj]; exact hP q (by omega) hqn
          · have := post.frame p (Or.inl (by omega)) (by simp; omega)
            rw [this]
            simp only [Array.getElem_swap]
            have hp_j : p ≠ j := by omega
            by_cases hpk : p = k
            · subst hpk; simp; exact hP j (by omega) hjn
            · simp [hpk, hp_j]; exact hP p hkp hpn
    · have c1 : ¬ 2 * (k : Int) ≤ (n : Int) := by omega
      simp only [c1, ↓reduceIte]
      refine ⟨b, rfl, rfl, hn, Array.Perm.refl _, ?_, fun _ _ _ => rfl, fun P h => h⟩
      intro i hi2 hin hlo'
      exact inv.dom i hi2 hin hlo' (by omega)

/-- `b[1..n]` is a max-heap -/
def IsHeap (cmp : α → α → Int) (b : Array α) (n : Nat) : Prop :=
  ∀ i, 2 ≤ i → (hin : i ≤ n) → (hn : n < b.size) → cmp (b[i]'(by omega)) (b[i/2]'(by omega)) ≤ 0

theorem heapBuild_spec {cmp : α → α → Int} (tp : TotalPreorder cmp) (n : Nat) :
    ∀ (f : Nat) (k : Nat) (b : Array α), (hn : n < b.size) → k < f →
      (∀ i, 2 ≤ i → (hin : i ≤ n) → k + 1 ≤ i / 2 → cmp (b[i]'(by omega)) (b[i/2]'(by omega)) ≤ 0) →
      ∃ b', heapBuild cmp (n : Int) f (k : Int) b = .ok b' ∧ b'.size = b.size ∧ b'.Perm b ∧
        IsHeap cmp b' n ∧ b'[0]? = b[0]? := by
  intro f
  induction f with
  | zero => intro k b _ hf; omega
  | succ f ih =>
    intro k b hn hf hdom
    unfold heapBuild
    by_cases hk : 1 ≤ k
    · have c1 : (k : Int) ≥ 1 := by omega
      simp only [c1, ↓reduceIte]
      have inv : SinkInv cmp b n k k := by
        refine ⟨hn, ?_, ?_⟩
        · intro i hi2 hin hlo hne; exact hdom i hi2 hin (by omega)
        · intro i hi2 hin hik hlo; omega
      obtain ⟨b1, h1, post⟩ := sink_spec tp n k (b.size + 1) k b hk (Nat.le_refl _) (by omega) inv
      rw [h1]
      simp only [ok_bind]
      have e : ((k : Int) - 1) = ((k - 1 : Nat) : Int) := by omega
      rw [e]
      obtain ⟨b2, h2, g1, g2, g3, g4⟩ := ih (k-1) b1 (by rw [post.hsz]; exact hn) (by omega)
        (by intro i hi2 hin hlo; exact post.dom i hi2 hin (by omega))
      refine ⟨b2, h2, by rw [g1, post.hsz], g2.trans post.perm, g3, ?_⟩
      rw [g4]
      have := post.frame 0 (Or.inl (by omega)) (by omega)
      have hb1 : 0 < b1.size := by rw [post.hsz]; omega
      simp [Array.getElem?_eq_getElem hb1, Array.getElem?_eq_getElem (by omega : 0 < b.size), this]
    · have c1 : ¬ (k : Int) ≥ 1 := by omega
      simp only [c1, ↓reduceIte]
      refine ⟨b, rfl, rfl, Array.Perm.refl _, ?_, rfl⟩
      intro i hi2 hin _
      exact hdom i hi2 hin (by omega)

/-- the root of a heap is a maximum -/
theorem heap_root_max {cmp : α → α → Int} (tp : TotalPreorder cmp) {b : Array α} {n : Nat} (hn : n < b.size)
    (hh : IsHeap cmp b n) : ∀ p, (hp1 : 1 ≤ p) → (hp : p ≤ n) → cmp (b[p]'(by omega)) (b[1]'(by omega)) ≤ 0 := by
  intro p
  induction p using Nat.strongRecOn with
  | _ p ih =>
    intro hp1 hpn
    by_cases h1 : p = 1
    · subst h1; exact tp.refl _
    · have h2 := hh p (by omega) hpn hn
      have h3 := ih (p/2) (by omega) (by omega) (by omega)
      exact tp.trans _ _ _ h2 h3

/-- loop invariant of the second phase -/
structure DrainInv (cmp : α → α → Int) (b : Array α) (n : Nat) : Prop where
  hn : n < b.size
  heap : IsHeap cmp b n
  sorted : SortedSeg cmp b (n+1) b.size
  below : ∀ p q, 1 ≤ p → (hp : p ≤ n) → (hq1 : n < q) → (hq : q < b.size) → cmp (b[p]'(by omega)) b[q] ≤ 0

theorem heapDrain_spec {cmp : α → α → Int} (tp : TotalPreorder cmp) :
    ∀ (f : Nat) (n : Nat) (b : Array α), n < f → DrainInv cmp b n →
      ∃ b', heapDrain cmp f (n : Int) b = .ok b' ∧ b'.size = b.size ∧ b'.Perm b ∧
        SortedSeg cmp b' 1 b'.size ∧ b'[0]? = b[0]? := by
  intro f
  induction f with
  | zero => intro n b hf; omega
  | succ f ih =>
    intro n b hf inv
    have hn := inv.hn
    unfold heapDrain
    by_cases hn1 : 1 < n
    · have c1 : (n : Int) > 1 := by omega
      simp only [c1, ↓reduceIte]
      rw [swap_ok (i := 1) (by omega) (by omega) (by omega) (by omega)]
      simp only [ok_bind, Int.toNat_natCast, Int.toNat_one]
      have e : ((n : Int) - 1) = ((n - 1 : Nat) : Int) := by omega
      rw [e]
      have hroot := heap_root_max tp hn inv.heap
      have hb1sz : (b.swap 1 n (by omega) (by omega)).size = b.size := by simp
      have sinv : SinkInv cmp (b.swap 1 n (by omega) (by omega)) (n-1) 1 1 := by
        refine ⟨by rw [hb1sz]; omega, ?_, ?_⟩
        · intro i hi2 hin hlo hne
          simp only [Array.getElem_swap]
          have h1 : i ≠ 1 := by omega
          have h2 : i ≠ n := by omega
          have h3 : i / 2 ≠ 1 := hne
          have h4 : i / 2 ≠ n := by omega
          simp [h1, h2, h3, h4]
          exact inv.heap i hi2 (by omega) hn
        · intro i hi2 hin hik hlo; omega
      obtain ⟨b2, h2, post⟩ := sink_spec tp (n-1) 1 ((b.swap 1 n (by omega) (by omega)).size + 1) 1 _
        (Nat.le_refl _) (Nat.le_refl _) (by rw [hb1sz]; omega) sinv
      have h2' : sink cmp ((n - 1 : Nat) : Int) ((b.swap 1 n (by omega) (by omega)).size + 1) 1
          (b.swap 1 n (by omega) (by omega)) = .ok b2 := h2
      rw [h2']
      simp only [ok_bind]
      have hb2sz : b2.size = b.size := by rw [post.hsz, hb1sz]
      have inv' : DrainInv cmp b2 (n-1) := by
        refine ⟨by omega, ?_, ?_, ?_⟩
        · intro i hi2 hin _
          exact post.dom i hi2 hin (by omega)
        · -- suffix [n .. N) sorted
          intro p q hp hpq hq hq'
          have fq := post.frame q (Or.inr (by omega)) (by omega)
          have fp := post.frame p (Or.inr (by omega)) (by omega)
          rw [fq, fp]
          simp only [Array.getElem_swap]
          have hq1 : q ≠ 1 := by omega
          have hqn : q ≠ n := by omega
          have hp1 : p ≠ 1 := by omega
          by_cases hpn : p = n
          · subst hpn
            simp [hq1, hqn, hp1]
            exact inv.below 1 q (Nat.le_refl _) (by omega) (by omega) (by omega)
          · simp [hq1, hqn, hp1, hpn]
            exact inv.sorted p q (by omega) hpq (by omega) (by omega)
        · intro p q hp1 hp hq1 hq
          have fq := post.frame q (Or.inr (by omega)) (by omega)
          rw [fq]
          -- every element of b1[1..n-1] is ≤ b1[q]
          refine post.pres (fun x => cmp x ((b.swap 1 n (by omega) (by omega))[q]'(by omega)) ≤ 0) ?_ p hp1 hp
          intro r hr1 hrn
          simp only [Array.getElem_swap]
          have hq1' : q ≠ 1 := by omega
          have hr_n : r ≠ n := by omega
          by_cases hqn : q = n
          · subst hqn
            by_cases hr1' : r = 1
            · subst hr1'
              simp [hq1']
              exact hroot q (by omega) (Nat.le_refl _)
            · simp [hr1', hr_n, hq1']
              exact hroot r hr1 (by omega)
          · by_cases hr1' : r = 1
            · subst hr1'
              simp [hq1', hqn]
              exact inv.below n q (by omega) (Nat.le_refl _) (by omega) (by omega)
            · simp [hr1', hr_n, hq1', hqn]
              exact inv.below r q hr1 (by omega) (by omega) (by omega)
      obtain ⟨b3, h3, g1, g2, g3, g4⟩ := ih (n-1) b2 (by omega) inv'
      refine ⟨b3, h3, by omega, (g2.trans post.perm).trans (Array.swap_perm _ _), g3, ?_⟩
      rw [g4]
      have := post.frame 0 (Or.inl (by omega)) (by omega)
      have h0 : 0 < b2.size := by omega
      simp [Array.getElem?_eq_getElem h0, Array.getElem?_eq_getElem (by omega : 0 < b.size), this,
        Array.getElem_swap]
      have : (0 : Nat) ≠ n := by omega
      simp [this]
    · have c1 : ¬ (n : Int) > 1 := by omega
      simp only [c1, ↓reduceIte]
      refine ⟨b, rfl, rfl, Array.Perm.refl _, ?_, rfl⟩
      intro p q hp hpq hq hq'
      by_cases hpn : n < p
      · exact inv.sorted p q (by omega) hpq hq hq'
      · exact inv.below p q hp (by omega) (by omega) hq'

theorem heapCore_spec {cmp : α → α → Int} (tp : TotalPreorder cmp) (b : Array α) (hb : 0 < b.size) :
    ∃ b', heapCore cmp b = .ok b' ∧ b'.size = b.size ∧ b'.Perm b ∧ SortedSeg cmp b' 1 b'.size ∧ b'[0]? = b[0]? := by
  unfold heapCore
  have e : ((b.size : Int) - 1) = ((b.size - 1 : Nat) : Int) := by omega
  have e2 : (((b.size - 1 : Nat) : Int) / 2) = (((b.size - 1) / 2 : Nat) : Int) := by omega
  simp only [e, e2]
  obtain ⟨b1, h1, g1, g2, g3, g4⟩ := heapBuild_spec tp (b.size - 1) (b.size + 1) ((b.size - 1) / 2) b (by omega) (by omega)
    (by intro i hi2 hin hlo; omega)
  rw [h1]
  simp only [ok_bind]
  have inv : DrainInv cmp b1 (b.size - 1) := by
    refine ⟨by omega, g3, ?_, ?_⟩
    · intro p q hp hpq hq hq'; omega
    · intro p q hp1 hp hq1 hq; omega
  obtain ⟨b2, h2, k1, k2, k3, k4⟩ := heapDrain_spec tp (b1.size + 1) (b.size - 1) b1 (by omega) inv
  rw [h2]
  exact ⟨b2, rfl, by omega, k2.trans g2, k3, by rw [k4, g4]⟩

theorem heap_spec {cmp : α → α → Int} (tp : TotalPreorder cmp) (zero : α) (a : Array α) :
    ∃ out, heap cmp zero a = .ok out ∧ IsSortOf cmp out a := by
  obtain ⟨b', h1, hsz, hperm, hsorted, h0⟩ := heapCore_spec tp (#[zero] ++ a) (by simp; omega)
  simp only [heap, h1, ok_bind]
  refine ⟨_, rfl, ?_, ?_⟩
  · -- sorted
    apply sorted_of_sortedSeg
    intro p q _ hpq hq hq'
    simp only [Array.size_extract] at hq hq'
    simp only [Array.getElem_extract]
    exact hsorted (1+p) (1+q) (by omega) (by omega) (by omega) (by omega)
  · -- permutation: b' = zero :: out and #[zero] ++ a = zero :: a
    have hsz' : b'.size = a.size + 1 := by rw [hsz]; simp; omega
    have hl : b'.toList = zero :: (b'.extract 1 b'.size).toList := by
      apply List.ext_getElem
      · simp; omega
      · intro i h1 h2
        cases i with
        | zero =>
          have : b'[0]? = some zero := h0.trans (by simp [Array.getElem?_append])
          have h3 : 0 < b'.size := by omega
          rw [Array.getElem?_eq_getElem h3] at this
          simpa using this
        | succ i => simp
    have hp := Array.perm_iff_toList_perm.1 hperm
    rw [hl] at hp
    have : (#[zero] ++ a).toList = zero :: a.toList := by simp
    rw [this] at hp
    exact List.Perm.cons_inv hp

end AlgoVerif.C07
