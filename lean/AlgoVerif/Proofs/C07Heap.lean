import AlgoVerif.Proofs.C07Basic
/-!
# C07 — heap sort (`sort/heap.go`)

`aux = [zero] ++ a`; positions `1..n` hold a max-heap (child `i` is dominated by its parent `i/2`),
position `0` is never touched.
-/
namespace AlgoVerif.C07
open AlgoVerif

variable {α : Type}

/-- the state `sink` works on: every child `i ∈ [2,n]` whose parent is `≥ lo` and is not `k` is
dominated by its parent, and the children of `k` are dominated by `k`'s parent (if that is `≥ lo`). -/
structure SinkInv (cmp : α → α → Int) (b : Array α) (n lo k : Nat) : Prop where
  hn : n < b.size
  dom : ∀ i, 2 ≤ i → (hin : i ≤ n) → lo ≤ i / 2 → i / 2 ≠ k → cmp (b[i]'(by omega)) (b[i/2]'(by omega)) ≤ 0
  gp : ∀ i, 2 ≤ i → (hin : i ≤ n) → (hik : i / 2 = k) → lo ≤ k / 2 → cmp (b[i]'(by omega)) (b[k/2]'(by omega)) ≤ 0

/-- what `sink` establishes -/
structure SinkPost (cmp : α → α → Int) (b b' : Array α) (n lo k : Nat) : Prop where
  hsz : b'.size = b.size
  hn : n < b.size
  perm : b'.Perm b
  dom : ∀ i, 2 ≤ i → (hin : i ≤ n) → lo ≤ i / 2 → cmp (b'[i]'(by omega)) (b'[i/2]'(by omega)) ≤ 0
  frame : ∀ i, (i < k ∨ n < i) → (h : i < b.size) → b'[i]'(by omega) = b[i]
  pres : ∀ P : α → Prop, (∀ p, k ≤ p → (hp : p ≤ n) → P (b[p]'(by omega))) →
            ∀ p, k ≤ p → (hp : p ≤ n) → P (b'[p]'(by omega))

theorem sink_spec {cmp : α → α → Int} (tp : TotalPreorder cmp) (n lo : Nat) :
    ∀ (f : Nat) (k : Nat) (b : Array α), 1 ≤ k → lo ≤ k → n - k < f → SinkInv cmp b n lo k →
      ∃ b', sink cmp (n : Int) f (k : Int) b = .ok b' ∧ SinkPost cmp b b' n lo k := by
  intro f
  induction f with
  | zero => intro k b _ _ hf; omega
  | succ f ih =>
    intro k b hk hlo hf inv
    have hn := inv.hn
    unfold sink
    by_cases h2k : 2 * k ≤ n
    · have c1 : 2 * (k : Int) ≤ (n : Int) := by omega
      simp only [c1, ↓reduceIte]
      have e2k : (2 * (k : Int)) = ((2 * k : Nat) : Int) := by omega
      have e2k1 : (2 * (k : Int) + 1) = ((2 * k + 1 : Nat) : Int) := by omega
      -- choose the larger child j
      have hj : ∃ j : Nat, (j = 2*k ∨ (j = 2*k+1 ∧ 2*k+1 ≤ n)) ∧
          (if 2 * (k : Int) < (n : Int) then do
              let x ← get b (2 * (k : Int))
              let y ← get b (2 * (k : Int) + 1)
              Outcome.ok (if cmp x y < 0 then 2 * (k : Int) + 1 else 2 * (k : Int))
            else Outcome.ok (2 * (k : Int)) : Outcome Int) = .ok (j : Int) ∧
          (∀ i, 2 ≤ i → (hin : i ≤ n) → i / 2 = k → (hj : j < b.size) → cmp (b[i]'(by omega)) b[j] ≤ 0) := by
        by_cases hlt : 2 * k < n
        · have c2 : 2 * (k : Int) < (n : Int) := by omega
          simp only [c2, ↓reduceIte]
          rw [e2k1, e2k, get_nat (by omega : 2*k < b.size), get_nat (by omega : 2*k+1 < b.size)]
          simp only [ok_bind]
          by_cases hc : cmp b[2*k] b[2*k+1] < 0
          · refine ⟨2*k+1, Or.inr ⟨rfl, by omega⟩, by simp [hc], ?_⟩
            intro i hi2 hin hik _
            have : i = 2*k ∨ i = 2*k+1 := by omega
            rcases this with rfl | rfl
            · exact TotalPreorder.le_of_lt hc
            · exact tp.refl _
          · refine ⟨2*k, Or.inl rfl, by simp [hc], ?_⟩
            intro i hi2 hin hik _
            have : i = 2*k ∨ i = 2*k+1 := by omega
            rcases this with rfl | rfl
            · exact tp.refl _
            · exact tp.le_of_not_lt hc
        · have c2 : ¬ 2 * (k : Int) < (n : Int) := by omega
          simp only [c2, ↓reduceIte]
          refine ⟨2*k, Or.inl rfl, by rw [e2k], ?_⟩
          intro i hi2 hin hik _
          have : i = 2*k := by omega
          subst this
          exact tp.refl _
      obtain ⟨j, hjv, hjeq, hjmax⟩ := hj
      rw [hjeq]
      simp only [ok_bind]
      have hjn : j ≤ n := by omega
      have hjk : j / 2 = k := by omega
      have hj2 : 2 ≤ j := by omega
      rw [get_nat (by omega : k < b.size), get_nat (by omega : j < b.size)]
      simp only [ok_bind]
      by_cases hc : cmp b[k] b[j] ≥ 0
      · -- stop: `k` dominates its children
        simp only [hc, ↓reduceIte]
        refine ⟨b, rfl, rfl, hn, Array.Perm.refl _, ?_, fun _ _ _ => rfl, fun P h => h⟩
        intro i hi2 hin hlo'
        by_cases hik : i / 2 = k
        · have h1 := hjmax i hi2 hin hik (by omega)
          have h2 : cmp b[j] b[k] ≤ 0 := tp.le_of_ge hc
          have := tp.trans _ _ _ h1 h2
          simpa [hik] using this
        · exact inv.dom i hi2 hin hlo' hik
      · simp only [hc, ↓reduceIte]
        have hlt : cmp b[k] b[j] < 0 := by omega
        rw [swap_ok (by omega) (by omega) (by omega) (by omega)]
        simp only [ok_bind, Int.toNat_natCast]
        have hkj : k ≠ j := by omega
        have inv' : SinkInv cmp (b.swap k j (by omega) (by omega)) n lo j := by
          refine ⟨by simpa using hn, ?_, ?_⟩
          · intro i hi2 hin hlo' hij
            simp only [Array.getElem_swap]
            have d := inv.dom
            have g := inv.gp
            by_cases hik : i / 2 = k
            · -- i is a child of k
              by_cases hi_j : i = j
              · subst hi_j
                simp [hik, Ne.symm hkj]
                exact TotalPreorder.le_of_lt hlt
              · have hik' : i ≠ k := by omega
                have h1 := hjmax i hi2 hin hik (by omega)
                simp [hik, hi_j, hik']
                exact h1
            · by_cases hi_k : i = k
              · subst hi_k
                have h3 : i / 2 ≠ i := by omega
                have h4 : i / 2 ≠ j := by omega
                simp [h3, h4]
                exact g j hj2 hjn hjk (by omega)
              · have h5 : i ≠ j := by omega
                have h6 : i / 2 ≠ j := hij
                simp [hi_k, h5, hik, h6]
                exact d i hi2 hin hlo' hik
          · intro i hi2 hin hij hlo'
            simp only [Array.getElem_swap]
            have hik : i ≠ k := by omega
            have hi_j : i ≠ j := by omega
            have h7 : j / 2 = k := hjk
            simp [hik, hi_j, h7]
            have := inv.dom i hi2 hin (by omega) (by omega)
            simpa [hij] using this
        obtain ⟨b', hb', post⟩ := ih j (b.swap k j (by omega) (by omega)) (by omega) (by omega) (by omega) inv'
        refine ⟨b', hb', by simpa using post.hsz, hn, post.perm.trans (Array.swap_perm _ _), post.dom, ?_, ?_⟩
        · intro i hi h
          have := post.frame i (by omega) (by simpa using h)
          rw [this]
          simp only [Array.getElem_swap]
          have : i ≠ k := by omega
          have : i ≠ j := by omega
          simp [*]
        · intro P hP p hkp hpn
          by_cases hpj : j ≤ p
          · apply post.pres P _ p hpj hpn
            intro q hjq hqn
            simp only [Array.getElem_swap]
            have : q ≠ k := by omega
            by_cases hqj : q = j
            · subst hqj; simp [this]; exact hP k (Nat.le_refl _) (by omega)
            · simp [this, hqj]; exact hP q (by omega) hqn
          · have := post.frame p (Or.inl (by omega)) (by simp; omega)
            rw [this]
            simp only [Array.getElem_swap]
            have hp_j : p ≠ j := by omega
            by_cases hpk : p = k
            · subst hpk; simp; exact hP j (by omega) hjn
            · simp [hpk, hp_j]; exact hP p hkp hpn
    · have c1 : ¬ 2 * (k : Int) ≤ (n : Int) := by omega
      simp only [c1, ↓reduceIte]
      refine ⟨b, rfl, rfl, hn, Array.Perm.refl _, ?_, fun _ _ _ => rfl, fun P h => h⟩
      intro i hi2 hin hlo'
      exact inv.dom i hi2 hin hlo' (by omega)

end AlgoVerif.C07
