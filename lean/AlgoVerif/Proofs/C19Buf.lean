import AlgoVerif.Proofs.C19Reader
/-!
# C19 — the buffer invariant and `next()`

`Inv S n i p B cnt s`: the two halves of `buff` hold the source bytes `[B - n, B + cnt)`; `forward` stands for
the absolute position `p`; `err` is set exactly when the byte at `p` is not available; `ahead` exactly when
`forward` has been retracted into the older half.  `next_spec`: under `Inv`, for a NUL-free source and ANY reader
without I/O errors, `next()` returns byte `p` of the source and re-establishes `Inv` at `p + 1` (reloading the
other half at a boundary, or not when `ahead`).
-/
set_option maxHeartbeats 400000
namespace AlgoVerif.C19
open AlgoVerif AlgoVerif.Generated

/-- buffer index of the absolute byte position `q ∈ [B - n, B + n]`, where the half loaded last starts at
buffer index `s ∈ {0, n}` and holds the source from position `B` on (the other half holds `[B - n, B)`) -/
def idx (n s B q : Nat) : Nat :=
  if q < B then (n - s) + (q + n - B) else if q < B + n then s + (q - B) else n - s

def NulFree (S : List UInt8) : Prop := ∀ b ∈ S, b ≠ 0

theorem eofByte_eq : eofByte = 0 := by decide

/-- Invariant of the buffer mechanics (DESIGN.md Appendix B, made precise).
`S` source, `n` half size, `p` absolute position of `forward`, `B` absolute position at which the half loaded
last starts, `cnt` bytes loaded into it, `s` its buffer index. -/
structure Inv (S : List UInt8) (n : Nat) (i : Input) (p B cnt s : Nat) : Prop where
  npos : 0 < n
  size : i.buff.size = 2 * n
  s01 : s = 0 ∨ s = n
  Bn : B = 0 ∨ n ≤ B
  cnt_pos : 0 < cnt
  cnt_le : cnt ≤ n
  hiL : B + cnt ≤ S.length
  rest : i.src.rest = S.drop (B + cnt)
  noio : NoIOErr i.src
  cur : ∀ t, t < cnt → i.buff[s + t]? = S[B + t]?
  prev : n ≤ B → ∀ t, t < n → i.buff[(n - s) + t]? = S[B - n + t]?
  sent : cnt < n → i.buff[s + cnt]? = some 0 ∧ B + cnt = S.length
  p_lo : B ≤ p + n
  p_lo' : p < B → n ≤ B
  p_hi : p ≤ B + cnt
  ahead : i.ahead = decide (p < B)
  fw : i.forward = idx n s B p
  err : i.err = if p < B + cnt then none else some .eof
  atEnd : p = B + cnt → B + cnt = S.length

theorem SameLex.refl (i : Input) : SameLex i i := ⟨rfl, rfl, rfl, rfl, rfl, rfl, rfl⟩

theorem SameLex.trans {i j k : Input} (h1 : SameLex i j) (h2 : SameLex j k) : SameLex i k :=
  ⟨h2.lexemeBegin.trans h1.lexemeBegin, h2.offset.trans h1.offset, h2.line.trans h1.line,
   h2.column.trans h1.column, h2.nextColumn.trans h1.nextColumn, h2.runeSizes.trans h1.runeSizes,
   h2.lastColumns.trans h1.lastColumns⟩

theorem getElem?_of_lt {S : List UInt8} {p : Nat} (h : p < S.length) : ∃ b, S[p]? = some b ∧ b ∈ S :=
  ⟨S[p], List.getElem?_eq_getElem h, List.getElem_mem h⟩

/-- at the end of input `next()` returns the sticky `io.EOF` -/
theorem next_at_end {S n i p B cnt s} (hinv : Inv S n i p B cnt s) (hp : p = B + cnt) :
    i.next = .ok (i, .error .eof) := by
  have : i.err = some .eof := by rw [hinv.err]; simp [hp]
  simp [Input.next, this]



/-- the state after a successful reload of the other half -/
theorem reload_inv {S : List UInt8} {n : Nat} {i : Input} {p B s : Nat} (hinv : Inv S n i p B n s)
    (hp1 : p + 1 = B + n) (j : Input) (rd : Reader) (buff : Array UInt8) (k : Nat)
    (hk : k = min n i.src.rest.length) (hkpos : 0 < k)
    (hrd : rd.rest = i.src.rest.drop k) (hio : NoIOErr rd) (hbsz : buff.size = i.buff.size)
    (hnew : ∀ t, t < k → buff[(n - s) + t]? = i.src.rest[t]?)
    (hsent : k < n → buff[(n - s) + k]? = some eofByte)
    (hold : ∀ t, (t < n - s ∨ (n - s) + k < t ∨ (t = n - s + k ∧ k = n)) → buff[t]? = i.buff[t]?)
    (hjsrc : j.src = rd) (hjbuff : j.buff = buff) (hjfw : j.forward = n - s) (hjah : j.ahead = false)
    (hjerr : j.err = none) :
    Inv S n j (p + 1) (B + n) k (n - s) := by
  have hn := hinv.npos
  have hrl : i.src.rest.length = S.length - (B + n) := by rw [hinv.rest, List.length_drop]
  have hL := hinv.hiL
  have hs := hinv.s01
  exact {
    npos := hn
    size := by rw [hjbuff, hbsz, hinv.size]
    s01 := by omega
    Bn := by omega
    cnt_pos := hkpos
    cnt_le := by omega
    hiL := by omega
    rest := by rw [hjsrc, hrd, hinv.rest, List.drop_drop]
    noio := by rw [hjsrc]; exact hio
    cur := by
      intro t ht
      rw [hjbuff, hnew t ht, hinv.rest, List.getElem?_drop]
    prev := by
      intro _ t ht
      have : n - (n - s) + t = s + t := by omega
      rw [hjbuff, this, hold (s + t) (by omega), hinv.cur t ht]
      congr 1; omega
    sent := by
      intro hlt
      refine ⟨by rw [hjbuff, hsent hlt, eofByte_eq], by omega⟩
    p_lo := by omega
    p_lo' := by omega
    p_hi := by omega
    ahead := by rw [hjah]; simp; omega
    fw := by rw [hjfw]; simp only [idx]; split <;> (try split) <;> omega
    err := by rw [hjerr]; simp; omega
    atEnd := by omega }

/-- the state after a reload that found the end of input -/
theorem reload_fail_inv {S : List UInt8} {n : Nat} {i : Input} {p B s : Nat} (hinv : Inv S n i p B n s)
    (hp1 : p + 1 = B + n) (hrest : i.src.rest = []) (j : Input) (rd : Reader)
    (hrd : rd.rest = []) (hio : NoIOErr rd)
    (hjsrc : j.src = rd) (hjbuff : j.buff = i.buff) (hjfw : j.forward = n - s) (hjah : j.ahead = false)
    (hjerr : j.err = some .eof) :
    Inv S n j (p + 1) B n s := by
  have hn := hinv.npos
  have hrl : i.src.rest.length = S.length - (B + n) := by rw [hinv.rest, List.length_drop]
  rw [hrest] at hrl
  have hL := hinv.hiL
  exact {
    npos := hn
    size := by rw [hjbuff, hinv.size]
    s01 := hinv.s01
    Bn := hinv.Bn
    cnt_pos := hn
    cnt_le := Nat.le_refl _
    hiL := hL
    rest := by rw [hjsrc, hrd, ← hrest, hinv.rest]
    noio := by rw [hjsrc]; exact hio
    cur := by rw [hjbuff]; exact hinv.cur
    prev := by rw [hjbuff]; exact hinv.prev
    sent := by intro h; omega
    p_lo := by omega
    p_lo' := by omega
    p_hi := by omega
    ahead := by rw [hjah]; simp; omega
    fw := by rw [hjfw]; simp only [idx]; split <;> (try split) <;> omega
    err := by rw [hjerr]; simp; omega
    atEnd := by intro _; simp at hrl; omega }

theorem next_spec {S : List UInt8} {n : Nat} {i : Input} {p B cnt s : Nat}
    (hinv : Inv S n i p B cnt s) (hnul : NulFree S) (hp : p < B + cnt) :
    ∃ b, S[p]? = some b ∧ ∃ i' B' cnt' s', i.next = .ok (i', .ok b) ∧ Inv S n i' (p + 1) B' cnt' s' ∧
      SameLex i i' ∧ ((B' = B ∧ s' = s ∧ cnt' = cnt) ∨ (B' = B + n ∧ s' = n - s ∧ p + 1 = B')) := by
  have hn := hinv.npos
  have hpL : p < S.length := by have := hinv.hiL; omega
  obtain ⟨b, hb, hbm⟩ := getElem?_of_lt hpL
  refine ⟨b, hb, ?_⟩
  have herr : i.err = none := by rw [hinv.err]; simp [hp]
  have h2n : 2 * n / 2 = n := by omega
  have hsz := hinv.size
  by_cases hA : p < B
  · -- forward is in the older half (after a Retract across the boundary)
    have hnB := hinv.p_lo' hA
    have hplo := hinv.p_lo
    have hfw : i.forward = (n - s) + (p + n - B) := by rw [hinv.fw]; simp [idx, hA]
    have hread : i.buff[i.forward]? = some b := by
      rw [hfw, hinv.prev hnB _ (by omega), ← hb]; congr 1; omega
    have hah : i.ahead = true := by rw [hinv.ahead]; simp [hA]
    by_cases hA1 : p + 1 = B
    · -- the next byte is the first of the half loaded last: no reload
      rcases hinv.s01 with hs | hs
      · -- s = 0: forward reaches len(buff), wraps to 0
        subst hs
        have hf1 : i.forward + 1 = 2 * n := by rw [hfw]; omega
        have hne : ¬ (2 * n = n) := by omega
        refine ⟨{ i with forward := 0, ahead := false }, B, cnt, 0, ?_, ?_, ⟨rfl, rfl, rfl, rfl, rfl, rfl, rfl⟩, Or.inl ⟨rfl, rfl, rfl⟩⟩
        · simp only [Input.next, herr, hread, hf1, hsz, h2n, hne, if_false, if_true, hah]
        · exact { hinv with
            p_lo := by omega, p_lo' := by omega, p_hi := by have := hinv.cnt_pos; omega
            ahead := by simp; omega
            fw := by simp only [idx]; split <;> (try split) <;> omega
            err := by have := hinv.cnt_pos; simp [herr]; omega
            atEnd := by have := hinv.cnt_pos; omega }
      · -- s = n: forward reaches len(buff)/2
        have hf1 : i.forward + 1 = n := by rw [hfw]; omega
        refine ⟨{ i with forward := n, ahead := false }, B, cnt, s, ?_, ?_, ⟨rfl, rfl, rfl, rfl, rfl, rfl, rfl⟩, Or.inl ⟨rfl, rfl, rfl⟩⟩
        · simp only [Input.next, herr, hread, hf1, hsz, h2n, if_true, hah]
        · exact { hinv with
            p_lo := by omega, p_lo' := by omega, p_hi := by have := hinv.cnt_pos; omega
            ahead := by simp; omega
            fw := by simp only [idx]; split <;> (try split) <;> omega
            err := by have := hinv.cnt_pos; simp [herr]; omega
            atEnd := by have := hinv.cnt_pos; omega }
    · -- still inside the older half
      have hlt : p + 1 < B := by omega
      have hpL1 : p + 1 < S.length := by have := hinv.hiL; omega
      obtain ⟨c, hc, hcm⟩ := getElem?_of_lt hpL1
      have hc0 : c ≠ eofByte := by rw [eofByte_eq]; exact hnul c hcm
      have hread1 : i.buff[i.forward + 1]? = some c := by
        rw [hfw, Nat.add_assoc, hinv.prev hnB _ (by omega), ← hc]; congr 1; omega
      have hne1 : ¬ (i.forward + 1 = n) := by rw [hfw]; rcases hinv.s01 with hs | hs <;> subst hs <;> omega
      have hne2 : ¬ (i.forward + 1 = 2 * n) := by rw [hfw]; rcases hinv.s01 with hs | hs <;> subst hs <;> omega
      refine ⟨{ i with forward := i.forward + 1 }, B, cnt, s, ?_, ?_, ⟨rfl, rfl, rfl, rfl, rfl, rfl, rfl⟩, Or.inl ⟨rfl, rfl, rfl⟩⟩
      · simp only [Input.next, herr, hread, hsz, h2n, hne1, hne2, if_false, hread1, hc0]
      · exact { hinv with
          p_lo := by omega, p_lo' := by omega, p_hi := by omega
          ahead := by simp [hah]; omega
          fw := by simp only [hfw, idx]; split <;> (try split) <;> omega
          err := by simp [herr]; omega
          atEnd := by omega }
  · -- forward is in the half loaded last
    have hBp : B ≤ p := by omega
    have hfw : i.forward = s + (p - B) := by
      rw [hinv.fw]; simp only [idx]; rw [if_neg hA, if_pos (by have := hinv.cnt_le; omega)]
    have hread : i.buff[i.forward]? = some b := by
      rw [hfw, hinv.cur _ (by omega), ← hb]; congr 1; omega
    have hah : i.ahead = false := by rw [hinv.ahead]; simp [hA]
    by_cases hB1 : p + 1 = B + n
    · -- forward reaches the end of its half: the other half is loaded
      have hcl := hinv.cnt_le
      have hcnt : cnt = n := by omega
      subst hcnt
      have hio0 := hinv.noio
      obtain ⟨src, buff, lb, fw, ah, off, ln, col, ncol, rs, lc, er⟩ := i
      simp only at herr hah hfw hread hsz hio0
      subst herr hah
      rcases hinv.s01 with hs | hs
      · -- s = 0: forward = len(buff)/2, loadSecond
        have hf1 : fw + 1 = cnt := by rw [hfw]; omega
        rcases load_spec' ⟨src, buff, lb, fw + 1, false, off, ln, col, ncol, rs, lc, none⟩ cnt (2 * cnt) hio0
            (by omega) (by simp [hsz]) with
          ⟨hrest, j, hload, hrd, htl, hio, hjb, hjf, hja, hje, hsl⟩ |
          ⟨hrest, j, k, hload, hk, hkpos, hrd, htl, hio, hbsz, hnew, hsent, hold, hjf, hja, hje, hsl⟩
        · refine ⟨{ j with err := some .eof }, B, cnt, s, ?_, ?_, ⟨hsl.1, hsl.2, hsl.3, hsl.4, hsl.5, hsl.6, hsl.7⟩,
            Or.inl ⟨rfl, rfl, rfl⟩⟩
          · simp only [Input.next, hread, hsz, h2n, Input.loadSecond]
            rw [if_pos hf1]
            simp only [Bool.false_eq_true, if_false]
            rw [hload]
          · exact reload_fail_inv hinv hB1 hrest _ j.src hrd hio rfl hjb (by simp [hjf]; omega) (by simp [hja]) rfl
        · refine ⟨{ j with err := none }, B + cnt, k, cnt - s, ?_, ?_, ⟨hsl.1, hsl.2, hsl.3, hsl.4, hsl.5, hsl.6, hsl.7⟩,
            Or.inr ⟨rfl, rfl, hB1⟩⟩
          · simp only [Input.next, hread, hsz, h2n, Input.loadSecond]
            rw [if_pos hf1]
            simp only [Bool.false_eq_true, if_false]
            rw [hload]
          · refine reload_inv hinv hB1 _ j.src j.buff k (by rw [hk]; simp only []; congr 1; omega) hkpos hrd hio hbsz ?_ ?_ ?_ rfl rfl
              (by simp [hjf]; omega) (by simp [hja]) rfl
            · intro t ht; have := hnew t ht; simpa [hs] using this
            · intro hlt; have := hsent (by omega); simpa [hs] using this
            · intro t ht; exact hold t (by omega)
      · -- s = n: forward = len(buff), loadFirst, forward wraps to 0
        have hf1 : fw + 1 = 2 * cnt := by rw [hfw]; omega
        have hne : ¬ (2 * cnt = cnt) := by omega
        rcases load_spec' ⟨src, buff, lb, fw + 1, false, off, ln, col, ncol, rs, lc, none⟩ 0 cnt hio0
            (by omega) (by simp [hsz]; omega) with
          ⟨hrest, j, hload, hrd, htl, hio, hjb, hjf, hja, hje, hsl⟩ |
          ⟨hrest, j, k, hload, hk, hkpos, hrd, htl, hio, hbsz, hnew, hsent, hold, hjf, hja, hje, hsl⟩
        · refine ⟨{ j with err := some .eof, forward := 0 }, B, cnt, s, ?_, ?_,
            ⟨hsl.1, hsl.2, hsl.3, hsl.4, hsl.5, hsl.6, hsl.7⟩, Or.inl ⟨rfl, rfl, rfl⟩⟩
          · simp only [Input.next, hread, hsz, h2n, Input.loadFirst]
            rw [if_neg (by omega), if_pos hf1]
            simp only [Bool.false_eq_true, if_false]
            rw [hload]
          · exact reload_fail_inv hinv hB1 hrest _ j.src hrd hio rfl hjb (by simp; omega) (by simp [hja]) rfl
        · refine ⟨{ j with err := none, forward := 0 }, B + cnt, k, cnt - s, ?_, ?_,
            ⟨hsl.1, hsl.2, hsl.3, hsl.4, hsl.5, hsl.6, hsl.7⟩, Or.inr ⟨rfl, rfl, hB1⟩⟩
          · simp only [Input.next, hread, hsz, h2n, Input.loadFirst]
            rw [if_neg (by omega), if_pos hf1]
            simp only [Bool.false_eq_true, if_false]
            rw [hload]
          · refine reload_inv hinv hB1 _ j.src j.buff k (by rw [hk]; simp) hkpos hrd hio hbsz ?_ ?_ ?_ rfl rfl
              (by simp; omega) (by simp [hja]) rfl
            · intro t ht; have := hnew t ht; simpa [hs] using this
            · intro hlt; have := hsent (by omega); simpa [hs] using this
            · intro t ht; exact hold t (by omega)
    · -- no boundary: look at the next byte for the sentinel
      have hcl := hinv.cnt_le
      have hne1 : ¬ (i.forward + 1 = n) := by rw [hfw]; rcases hinv.s01 with hs | hs <;> subst hs <;> omega
      have hne2 : ¬ (i.forward + 1 = 2 * n) := by rw [hfw]; rcases hinv.s01 with hs | hs <;> subst hs <;> omega
      by_cases hlast : p + 1 = B + cnt
      · -- the byte after this one is the sentinel
        have hclt : cnt < n := by omega
        obtain ⟨hsent, hend⟩ := hinv.sent hclt
        have hread1 : i.buff[i.forward + 1]? = some eofByte := by
          rw [hfw, eofByte_eq, ← hsent]; congr 1; omega
        refine ⟨{ i with forward := i.forward + 1, err := some .eof }, B, cnt, s, ?_, ?_, ⟨rfl, rfl, rfl, rfl, rfl, rfl, rfl⟩, Or.inl ⟨rfl, rfl, rfl⟩⟩
        · simp only [Input.next, herr, hread, hsz, h2n, hne1, hne2, if_false, hread1, if_true]
        · exact { hinv with
            p_lo := by omega, p_lo' := by omega, p_hi := by omega
            ahead := by simp [hah]; omega
            fw := by simp only [hfw, idx]; split <;> (try split) <;> omega
            err := by simp; omega
            atEnd := by intro _; exact hend }
      · have hlt : p + 1 < B + cnt := by omega
        have hpL1 : p + 1 < S.length := by have := hinv.hiL; omega
        obtain ⟨c, hc, hcm⟩ := getElem?_of_lt hpL1
        have hc0 : c ≠ eofByte := by rw [eofByte_eq]; exact hnul c hcm
        have hread1 : i.buff[i.forward + 1]? = some c := by
          rw [hfw, Nat.add_assoc, hinv.cur _ (by omega), ← hc]; congr 1; omega
        refine ⟨{ i with forward := i.forward + 1 }, B, cnt, s, ?_, ?_, ⟨rfl, rfl, rfl, rfl, rfl, rfl, rfl⟩, Or.inl ⟨rfl, rfl, rfl⟩⟩
        · simp only [Input.next, herr, hread, hsz, h2n, hne1, hne2, if_false, hread1, hc0]
        · exact { hinv with
            p_lo := by omega, p_lo' := by omega, p_hi := by omega
            ahead := by simp [hah]; omega
            fw := by simp only [hfw, idx]; split <;> (try split) <;> omega
            err := by simp [herr]; omega
            atEnd := by omega }

/-! ## `New` -/

/-- the lexeme bookkeeping of a fresh `Input` -/
structure Fresh (i : Input) : Prop where
  lexemeBegin : i.lexemeBegin = 0
  offset : i.offset = 0
  line : i.line = 1
  column : i.column = 1
  nextColumn : i.nextColumn = 1
  runeSizes : i.runeSizes = []
  lastColumns : i.lastColumns = []

theorem new_spec (S : List UInt8) (script : List Answer) (tailEof : Bool) (n : Nat) (hn : 0 < n)
    (hio : ∀ a ∈ script, a.flag ≠ .ioerr) :
    (S = [] ∧ Input.new ⟨S, script, tailEof⟩ n = .ok (.error .eof)) ∨
    (S ≠ [] ∧ ∃ i, Input.new ⟨S, script, tailEof⟩ n = .ok (.ok i) ∧ Inv S n i 0 0 (min n S.length) 0 ∧ Fresh i) := by
  have h2n : 2 * n / 2 = n := by omega
  rcases load_spec' { src := ⟨S, script, tailEof⟩, buff := Array.replicate (2 * n) 0 } 0 n hio (by omega)
      (by simp; omega) with
    ⟨hrest, j, hload, hrd, htl, hio', hjb, hjf, hja, hje, hsl⟩ |
    ⟨hrest, j, k, hload, hk, hkpos, hrd, htl, hio', hbsz, hnew, hsent, hold, hjf, hja, hje, hsl⟩
  · left
    refine ⟨hrest, ?_⟩
    simp only [Input.new, Input.loadFirst, Array.size_replicate, h2n, hload]
  · right
    refine ⟨hrest, j, ?_, ?_, ?_⟩
    · simp only [Input.new, Input.loadFirst, Array.size_replicate, h2n, hload]
    · simp only [Nat.sub_zero] at hk hrd hnew hsent hold
      have hSl : 0 < S.length := List.length_pos_iff.mpr hrest
      exact {
        npos := hn
        size := by rw [hbsz]; simp
        s01 := Or.inl rfl
        Bn := Or.inl rfl
        cnt_pos := by omega
        cnt_le := by omega
        hiL := by omega
        rest := by rw [hrd, ← hk]; simp
        noio := hio'
        cur := by intro t ht; rw [← hk] at ht; rw [hnew t ht]; simp
        prev := by intro h; omega
        sent := by
          intro hlt
          rw [← hk] at hlt ⊢
          refine ⟨by rw [hsent hlt, eofByte_eq], by omega⟩
        p_lo := by omega
        p_lo' := by omega
        p_hi := by omega
        ahead := by rw [hja]; simp
        fw := by rw [hjf]; simp only [idx]; split <;> (try split) <;> simp <;> omega
        err := by rw [hje, if_pos (by omega)]
        atEnd := by omega }
    · exact ⟨hsl.1, hsl.2, hsl.3, hsl.4, hsl.5, hsl.6, hsl.7⟩

end AlgoVerif.C19
