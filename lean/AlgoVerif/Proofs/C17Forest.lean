import AlgoVerif.Model.C17
import AlgoVerif.Proofs.C17Spec
/-!
Parent-pointer forests over `[0, n)` stored in an `Array Int`, as used by the two quick-union types
(and, with depth ≤ 1, by quick-find):

* `par a i`          — `a[i]`;
* `Reaches n a i r`  — climbing parent pointers from `i` ends at the root `r`;
* `Forest n a cnt`   — sizes/ranges are right, `cnt` is the number of roots, and there is a **rank**
                       `h` with `h i < h (par a i)` for every non-root and `h i + cnt ≤ n`
                       (so a climb takes at most `n - cnt` steps: this is why fuel `n` suffices);
* `Forest.link`      — pointing a root at another root keeps all this with `cnt - 1`, and
                       every climb that ended at the first root now ends at the second.
-/
namespace AlgoVerif.C17
open AlgoVerif.C17.Spec

/-! ### the `Outcome` monad -/

@[simp] theorem ok_bind {α β} (a : α) (f : α → Outcome β) : (Outcome.ok a >>= f) = f a := rfl
@[simp] theorem panic_bind {α β} (f : α → Outcome β) : (Outcome.panic >>= f) = Outcome.panic := rfl
@[simp] theorem diverge_bind {α β} (f : α → Outcome β) : (Outcome.diverge >>= f) = Outcome.diverge := rfl

/-! ### arrays indexed by Go ints -/

/-- `a[i]` (0 outside the array) -/
def par (a : Array Int) (i : Int) : Int := a.getD i.toNat 0

theorem valid_iff {n : Nat} {i : Int} : Valid n i ↔ 0 ≤ i ∧ i < n := Iff.rfl

theorem valid_cast {n i : Nat} : Valid n (i : Int) ↔ i < n := by
  simp [Valid]

theorem idx_ok {n : Nat} {a : Array Int} {i : Int} (hs : a.size = n) (hi : Valid n i) :
    idx a i = .ok (par a i) := by
  have := hi.1; have := hi.2
  simp [idx, par, *]

theorem setIdx_ok {n : Nat} {a : Array Int} {i : Int} {v : Int} (hs : a.size = n) (hi : Valid n i) :
    setIdx a i v = .ok (a.setIfInBounds i.toNat v) := by
  have := hi.1; have := hi.2
  simp [setIdx, *]

theorem getD_set (a : Array Int) (i j : Nat) (v : Int) (hi : i < a.size) :
    (a.setIfInBounds i v).getD j 0 = if j = i then v else a.getD j 0 := by
  simp only [Array.getD_eq_getD_getElem?, Array.getElem?_setIfInBounds]
  by_cases h : i = j
  · subst h; simp [hi]
  · simp [h, Ne.symm h]

theorem par_set {n : Nat} {a : Array Int} {r i : Int} (v : Int) (hs : a.size = n)
    (hr : Valid n r) (hi : Valid n i) :
    par (a.setIfInBounds r.toNat v) i = if i = r then v else par a i := by
  have := hr.1; have := hr.2; have := hi.1; have := hi.2
  unfold par
  rw [getD_set _ _ _ _ (by omega)]
  by_cases h : i = r
  · simp [h]
  · have : i.toNat ≠ r.toNat := by omega
    simp [h, this]

theorem par_iota {n : Nat} {i : Int} (hi : Valid n i) : par (iota n) i = i := by
  have := hi.1; have := hi.2
  have h : i.toNat < n := by omega
  simp [par, iota, Array.getD_eq_getD_getElem?, h]
  omega

theorem size_iota (n : Nat) : (iota n).size = n := by simp [iota]

/-! ### counting roots -/

/-- number of `i < n` with `a[i] = i` -/
def rootCount (n : Nat) (a : Array Int) : Nat :=
  (List.range n).countP fun (i : Nat) => par a (i : Int) == (i : Int)

theorem countP_range_update (f g : Nat → Bool) (n k : Nat) (hk : k < n) (hf : f k = true)
    (hg : g k = false) (hagree : ∀ i, i < n → i ≠ k → f i = g i) :
    (List.range n).countP f = (List.range n).countP g + 1 := by
  induction n with
  | zero => omega
  | succ n ih =>
    rw [List.range_succ, List.countP_append, List.countP_append]
    by_cases hkn : k = n
    · subst hkn
      have : (List.range k).countP f = (List.range k).countP g := by
        apply List.countP_congr
        intro x hx
        have := List.mem_range.1 hx
        rw [hagree x (by omega) (by omega)]
      simp [this, hf, hg]
    · have := ih (by omega) (fun i hi hik => hagree i (by omega) hik)
      have hn : f n = g n := hagree n (by omega) (fun h => hkn h.symm)
      simp [this, hn]
      omega

theorem rootCount_iota (n : Nat) : rootCount n (iota n) = n := by
  unfold rootCount
  rw [List.countP_eq_length_filter, List.filter_eq_self.2, List.length_range]
  intro i hi
  have : Valid n (i : Int) := valid_cast.2 (List.mem_range.1 hi)
  simp [par_iota this]

/-! ### climbing to the root -/

inductive Reaches (n : Nat) (a : Array Int) : Int → Int → Prop
  | root {i : Int} : Valid n i → par a i = i → Reaches n a i i
  | step {i r : Int} : Valid n i → par a i ≠ i → Reaches n a (par a i) r → Reaches n a i r

theorem Reaches.valid_left {n a i r} (h : Reaches n a i r) : Valid n i := by
  cases h <;> assumption

theorem Reaches.is_root {n a i r} (h : Reaches n a i r) : Valid n r ∧ par a r = r := by
  induction h with
  | root hv hr => exact ⟨hv, hr⟩
  | step _ _ _ ih => exact ih

theorem Reaches.unique {n a i r r'} (h : Reaches n a i r) (h' : Reaches n a i r') : r = r' := by
  induction h with
  | root _ hr =>
    cases h' with
    | root => rfl
    | step _ hne _ => exact absurd hr hne
  | step _ hne _ ih =>
    cases h' with
    | root _ hr => exact absurd hr hne
    | step _ _ h2 => exact ih h2

/-- the rank never decreases on the way up -/
theorem Reaches.rank_le {n a i r} (h : Reaches n a i r) (rk : Int → Nat)
    (hrk : ∀ i, Valid n i → par a i ≠ i → rk i < rk (par a i)) : rk i ≤ rk r := by
  induction h with
  | root => exact Nat.le_refl _
  | step hv hne _ ih => have := hrk _ hv hne; omega

/-- the Go loop `for p != root[p] { p = root[p] }`: with a strictly increasing rank, fuel beyond the
rank distance to the root is enough -/
theorem findLoop_of_reaches {n a i r} (hs : a.size = n) (h : Reaches n a i r) (rk : Int → Nat)
    (hrk : ∀ i, Valid n i → par a i ≠ i → rk i < rk (par a i)) :
    ∀ fuel, rk r - rk i < fuel → findLoop a fuel i = .ok r := by
  induction h with
  | root hv hr =>
    intro fuel hf
    cases fuel with
    | zero => omega
    | succ f => simp [findLoop, idx_ok hs hv, hr]
  | @step i r hv hne hre ih =>
    intro fuel hf
    cases fuel with
    | zero => omega
    | succ f =>
      have h1 := hrk _ hv hne
      have h2 := hre.rank_le rk hrk
      have : i ≠ par a i := fun h => hne h.symm
      simp only [findLoop, idx_ok hs hv, ok_bind, ne_eq, this, not_false_eq_true, if_true]
      exact ih f (by omega)

/-! ### the forest invariant -/

structure Forest (n : Nat) (a : Array Int) (cnt : Int) : Prop where
  size : a.size = n
  range : ∀ i, Valid n i → Valid n (par a i)
  /-- the rank / measure that makes `Find` terminate -/
  rank : ∃ rk : Int → Nat, (∀ i, Valid n i → par a i ≠ i → rk i < rk (par a i)) ∧
    (∀ i, Valid n i → (rk i : Int) + cnt ≤ n)
  roots : cnt = rootCount n a

theorem Forest.iota (n : Nat) : Forest n (iota n) n where
  size := size_iota n
  range i hi := by rw [par_iota hi]; exact hi
  rank := ⟨fun _ => 0, fun i hi hne => absurd (par_iota hi) hne, fun i _ => by simp⟩
  roots := by rw [rootCount_iota]

theorem Forest.cnt_pos {n a cnt} (F : Forest n a cnt) {r : Int} (hv : Valid n r) (hr : par a r = r) :
    1 ≤ cnt := by
  rw [F.roots]
  have : 0 < rootCount n a := by
    unfold rootCount
    rw [List.countP_pos_iff]
    refine ⟨r.toNat, List.mem_range.2 (by have := hv.1; have := hv.2; omega), ?_⟩
    have : ((r.toNat : Nat) : Int) = r := by have := hv.1; omega
    simp [this, hr]
  omega

/-- every valid element climbs to some root -/
theorem Forest.reaches {n a cnt} (F : Forest n a cnt) : ∀ i, Valid n i → ∃ r, Reaches n a i r := by
  obtain ⟨rk, hrk, hbd⟩ := F.rank
  have hc : (0 : Int) ≤ cnt := by rw [F.roots]; omega
  suffices ∀ k i, Valid n i → n - rk i ≤ k → ∃ r, Reaches n a i r from
    fun i hi => this (n - rk i) i hi (Nat.le_refl _)
  intro k
  induction k with
  | zero =>
    intro i hi hk
    by_cases hr : par a i = i
    · exact ⟨i, .root hi hr⟩
    · have := hrk i hi hr
      have := hbd _ (F.range i hi)
      omega
  | succ k ih =>
    intro i hi hk
    by_cases hr : par a i = i
    · exact ⟨i, .root hi hr⟩
    · have := hrk i hi hr
      obtain ⟨r, hre⟩ := ih (par a i) (F.range i hi) (by omega)
      exact ⟨r, .step hi hr hre⟩

/-- `findLoop` with fuel `n` returns the root: never `diverge`, never `panic` -/
theorem Forest.findLoop_eq {n a cnt i r} (F : Forest n a cnt) (h : Reaches n a i r) :
    findLoop a n i = .ok r := by
  obtain ⟨rk, hrk, hbd⟩ := F.rank
  have := hbd r h.is_root.1
  have := F.cnt_pos h.is_root.1 h.is_root.2
  exact findLoop_of_reaches F.size h rk hrk n (by omega)

/-- climbs after `a[r0] = s0` (both roots, different): those that ended at `r0` now end at `s0` -/
theorem Reaches.link {n a i r r0 s0} (hs : a.size = n) (h : Reaches n a i r)
    (hr0 : Valid n r0) (hr0r : par a r0 = r0) (hs0 : Valid n s0) (hs0r : par a s0 = s0) (hne : r0 ≠ s0) :
    Reaches n (a.setIfInBounds r0.toNat s0) i (if r = r0 then s0 else r) := by
  induction h with
  | @root i hv hr =>
    by_cases h : i = r0
    · subst h
      simp only [if_true]
      refine .step hv ?_ ?_
      · rw [par_set _ hs hv hv]; simpa using fun h => hne h.symm
      · rw [par_set _ hs hv hv]; simp only [if_true]
        refine .root hs0 ?_
        rw [par_set _ hs hr0 hs0]; simp [hs0r]
    · simp only [h, if_false]
      refine .root hv ?_
      rw [par_set _ hs hr0 hv]; simp [h, hr]
  | @step i r hv hnr _ ih =>
    have h : i ≠ r0 := fun h => hnr (h ▸ hr0r)
    refine .step hv ?_ ?_
    · rw [par_set _ hs hr0 hv]; simpa [h] using hnr
    · rw [par_set _ hs hr0 hv]; simpa [h] using ih

/-- `a[r0] = s0` for two different roots keeps the forest, with one root less -/
theorem Forest.link {n a cnt r0 s0} (F : Forest n a cnt)
    (hr0 : Valid n r0) (hr0r : par a r0 = r0) (hs0 : Valid n s0) (hs0r : par a s0 = s0) (hne : r0 ≠ s0) :
    Forest n (a.setIfInBounds r0.toNat s0) (cnt - 1) where
  size := by simp [F.size]
  range i hi := by
    rw [par_set _ F.size hr0 hi]
    split
    · exact hs0
    · exact F.range i hi
  rank := by
    obtain ⟨rk, hrk, hbd⟩ := F.rank
    refine ⟨fun x => if x = s0 then max (rk s0) (rk r0 + 1) else rk x, ?_, ?_⟩
    · intro i hi
      rw [par_set _ F.size hr0 hi]
      by_cases h : i = r0
      · subst h
        simp only [if_true, if_neg hne]
        intro _
        omega
      · simp only [h, if_false]
        intro hnr
        have his : i ≠ s0 := fun h => hnr (h ▸ hs0r)
        have := hrk i hi hnr
        simp only [his, if_false]
        by_cases hp : par a i = s0
        · rw [hp] at this; simp only [hp, if_true]; omega
        · simp only [hp, if_false]; omega
    · intro i hi
      have := hbd i hi
      have := hbd r0 hr0
      have := hbd s0 hs0
      by_cases h : i = s0
      · simp only [h, if_true]; omega
      · simp only [h, if_false]; omega
  roots := by
    have hlt : r0.toNat < n := by have := hr0.1; have := hr0.2; omega
    have hcast : ((r0.toNat : Nat) : Int) = r0 := by have := hr0.1; omega
    have := countP_range_update (fun (i : Nat) => par a (i : Int) == (i : Int))
      (fun (i : Nat) => par (a.setIfInBounds r0.toNat s0) (i : Int) == (i : Int)) n r0.toNat hlt
      (by simp [hcast, hr0r])
      (by simp only [hcast]; rw [par_set _ F.size hr0 hr0]; simpa using fun h => hne h.symm)
      (by
        intro i hin hi
        have hv : Valid n (i : Int) := valid_cast.2 hin
        have : (i : Int) ≠ r0 := by omega
        rw [par_set _ F.size hr0 hv]; simp [this])
    have h' := F.roots
    unfold rootCount at h' ⊢
    omega

/-! ### representatives and the closure -/

/-- `rt` picks a canonical element of every class of `Conn n us` -/
structure Represents (n : Nat) (us : List (Int × Int)) (rt : Int → Int) : Prop where
  valid : ∀ i, Valid n i → Valid n (rt i)
  idem : ∀ i, Valid n i → rt (rt i) = rt i
  conn : ∀ i j, Valid n i → Valid n j → (rt i = rt j ↔ Conn n us i j)

theorem Represents.conn_rt {n us rt} (R : Represents n us rt) {i : Int} (hi : Valid n i) :
    Conn n us i (rt i) :=
  (R.conn i (rt i) hi (R.valid i hi)).1 (R.idem i hi).symm

/-- the number of fixed points of `rt` is the number of classes -/
theorem Represents.classCount {n us rt} (R : Represents n us rt) :
    IsClassCount n us ((List.range n).countP fun (i : Nat) => rt (i : Int) == (i : Int)) := by
  refine ⟨(List.range n).filter fun (i : Nat) => rt (i : Int) == (i : Int), ?_, ?_, ?_, ?_, ?_⟩
  · rw [List.countP_eq_length_filter]
  · exact List.Pairwise.filter _ List.nodup_range
  · intro r hr
    exact List.mem_range.1 (List.mem_filter.1 hr).1
  · intro p hp
    have hv := R.valid p hp
    have hcast : (((rt p).toNat : Nat) : Int) = rt p := by have := hv.1; omega
    refine ⟨(rt p).toNat, List.mem_filter.2 ⟨List.mem_range.2 ?_, ?_⟩, ?_⟩
    · have := hv.1; have := hv.2; omega
    · simp [hcast, R.idem p hp]
    · rw [hcast]; exact R.conn_rt hp
  · intro r hr s hs hc
    have hr' := List.mem_filter.1 hr
    have hs' := List.mem_filter.1 hs
    have hvr : Valid n (r : Int) := valid_cast.2 (List.mem_range.1 hr'.1)
    have hvs : Valid n (s : Int) := valid_cast.2 (List.mem_range.1 hs'.1)
    have := (R.conn _ _ hvr hvs).2 hc
    have h1 : rt (r : Int) = r := by simpa using hr'.2
    have h2 : rt (s : Int) = s := by simpa using hs'.2
    omega

/-- relabelling the class of `a` by the representative of `b` represents the history extended by `(a, b)` -/
theorem Represents.merge {n us rt a b} (R : Represents n us rt) (ha : Valid n a) (hb : Valid n b) :
    Represents n (us ++ [(a, b)]) (fun i => if rt i = rt a then rt b else rt i) where
  valid i hi := by
    split
    · exact R.valid b hb
    · exact R.valid i hi
  idem i hi := by
    by_cases hab : rt b = rt a
    · by_cases h : rt i = rt a <;> simp [h, hab, R.idem, ha, hi]
    · by_cases h : rt i = rt a <;> simp [h, hab, R.idem, hb, hi]
  conn i j hi hj := by
    rw [conn_snoc_iff ha hb, ← R.conn i j hi hj, ← R.conn i a hi ha, ← R.conn b j hb hj,
      ← R.conn i b hi hb, ← R.conn a j ha hj]
    by_cases h1 : rt i = rt a <;> by_cases h2 : rt j = rt a <;> simp only [h1, h2, if_true, if_false]
    all_goals grind

/-- … and it has exactly one fixed point less -/
theorem Represents.merge_count {n us rt a b} (R : Represents n us rt) (ha : Valid n a) (hb : Valid n b)
    (hne : rt a ≠ rt b) :
    ((List.range n).countP fun (i : Nat) => rt (i : Int) == (i : Int)) =
      ((List.range n).countP fun (i : Nat) => (if rt (i : Int) = rt a then rt b else rt (i : Int)) == (i : Int)) + 1 := by
  have hva := R.valid a ha
  have hcast : (((rt a).toNat : Nat) : Int) = rt a := by have := hva.1; omega
  apply countP_range_update _ _ n (rt a).toNat (by have := hva.1; have := hva.2; omega)
  · simp [hcast, R.idem a ha]
  · simp only [hcast, R.idem a ha, if_true]; simpa using fun h => hne h.symm
  · intro i hin hi
    have hv : Valid n (i : Int) := valid_cast.2 hin
    have hia : (i : Int) ≠ rt a := by omega
    by_cases h : rt (i : Int) = rt a
    · simp only [h, if_true]
      have h1 : (rt a == (i : Int)) = false := by simpa using fun k => hia k.symm
      have h2 : (rt b == (i : Int)) = false := by
        simp only [beq_eq_false_iff_ne, ne_eq]
        intro k
        have := R.idem b hb
        rw [k, h] at this
        exact hia this.symm
      rw [h1, h2]
    · simp only [h, if_false]

/-- a call that changes nothing: invalid argument, or the two are already related -/
theorem Represents.skip {n us rt a b} (R : Represents n us rt)
    (h : ¬ (Valid n a ∧ Valid n b) ∨ Conn n us a b) : Represents n (us ++ [(a, b)]) rt where
  valid := R.valid
  idem := R.idem
  conn i j hi hj := by
    rw [R.conn i j hi hj]
    rcases h with h | h
    · exact (conn_snoc_invalid h).symm
    · have hv := h.valid_left
      rw [conn_snoc_iff hv.1 hv.2]
      constructor
      · exact .inl
      · rintro (k | ⟨k1, k2⟩ | ⟨k1, k2⟩)
        · exact k
        · exact k1.trans (h.trans k2)
        · exact k1.trans (h.symm.trans k2)

/-! ### counting effective merges -/

theorem mergesAfter_snoc (n : Nat) (done rest : List (Int × Int)) (a b : Int) :
    mergesAfter n done (rest ++ [(a, b)]) = mergesAfter n done rest +
      (open Classical in if Valid n a ∧ Valid n b ∧ ¬ Conn n (done ++ rest) a b then 1 else 0) := by
  induction rest generalizing done with
  | nil => rw [List.append_nil]; simp [mergesAfter]
  | cons x rest ih =>
    obtain ⟨p, q⟩ := x
    simp only [List.cons_append, mergesAfter]
    rw [ih, List.append_assoc, List.singleton_append]
    simp [Nat.add_assoc]

theorem numMerges_snoc (n : Nat) (us : List (Int × Int)) (a b : Int) :
    numMerges n (us ++ [(a, b)]) = numMerges n us +
      (open Classical in if Valid n a ∧ Valid n b ∧ ¬ Conn n us a b then 1 else 0) := by
  simpa [numMerges] using mergesAfter_snoc n [] us a b

theorem numMerges_skip {n us a b} (h : ¬ (Valid n a ∧ Valid n b) ∨ Conn n us a b) :
    numMerges n (us ++ [(a, b)]) = numMerges n us := by
  rw [numMerges_snoc]
  have : ¬ (Valid n a ∧ Valid n b ∧ ¬ Conn n us a b) := by
    rintro ⟨h1, h2, h3⟩
    rcases h with h | h
    · exact h ⟨h1, h2⟩
    · exact h3 h
  simp [this]

theorem numMerges_merge {n us a b} (ha : Valid n a) (hb : Valid n b) (h : ¬ Conn n us a b) :
    numMerges n (us ++ [(a, b)]) = numMerges n us + 1 := by
  rw [numMerges_snoc]
  simp [ha, hb, h]

end AlgoVerif.C17
