import AlgoVerif.Proofs.C16Algebra
/-!
# C16 helper lemmas: the slice store — set-algebra calls write only arrays they allocated themselves
-/
namespace AlgoVerif.C16
variable {α : Type} {σ : Type}

theorem bind_eq_ok {β γ} {x : Outcome β} {f : β → Outcome γ} {r : γ} (h : (x >>= f) = .ok r) :
    ∃ a, x = .ok a ∧ f a = .ok r := by
  cases x with
  | ok a => exact ⟨a, rfl, h⟩
  | panic => cases h
  | diverge => cases h

/-- since the call started (`n₀` arrays existed, `base` had been written) only arrays allocated by the
call have been written -/
def OnlyFresh (n₀ : Nat) (base : List Nat) (st : Store) : Prop :=
  n₀ ≤ st.next ∧ ∃ ws, st.writes = ws ++ base ∧ ∀ w ∈ ws, n₀ ≤ w ∧ w < st.next

theorem OnlyFresh.alloc {n₀ base st} (h : OnlyFresh n₀ base st) : OnlyFresh n₀ base st.alloc.2 := by
  obtain ⟨h₁, ws, h₂, h₃⟩ := h
  exact ⟨Nat.le_succ_of_le h₁, ws, h₂, fun w hw => ⟨(h₃ w hw).1, Nat.lt_succ_of_lt (h₃ w hw).2⟩⟩

theorem OnlyFresh.write {n₀ base st} (h : OnlyFresh n₀ base st) {b : Nat} (hb : n₀ ≤ b) (hb' : b < st.next) :
    OnlyFresh n₀ base (st.write b) := by
  obtain ⟨h₁, ws, h₂, h₃⟩ := h
  refine ⟨h₁, b :: ws, by simp [Store.write, h₂], ?_⟩
  intro w hw
  rcases List.mem_cons.1 hw with rfl | hw
  · exact ⟨hb, hb'⟩
  · exact h₃ w hw

/-- the working copy lives in an array of the call's own -/
def Own (n₀ : Nat) (t : HSet α) (st : Store) : Prop := n₀ ≤ t.buf ∧ t.buf < st.next

theorem Store.tmpFor_fresh {n₀ base} {st : Store} (hf : OnlyFresh n₀ base st) (impl : Impl α) :
    OnlyFresh n₀ base (st.tmpFor impl) ∧ st.next ≤ (st.tmpFor impl).next := by
  cases impl with
  | sorted c =>
    exact ⟨hf.alloc.write hf.1 (by simp [Store.alloc]), by simp [Store.tmpFor, Store.write, Store.alloc]⟩
  | unordered e => exact ⟨hf, Nat.le_refl _⟩
  | stable e => exact ⟨hf, Nat.le_refl _⟩

theorem HSet.add1_fresh (grow : Nat → Nat) {t : HSet α} {v : α} {s' : MSet α} (h : t.set.add1 v = .ok s')
    (st : Store) {n₀ : Nat} {base : List Nat} (hf : OnlyFresh n₀ base st) (ho : Own n₀ t st) :
    ∃ t' st', t.add1 grow v st = .ok (t', st') ∧ t'.set = s' ∧ OnlyFresh n₀ base st' ∧ Own n₀ t' st' := by
  unfold HSet.add1
  simp only [h, ok_bind]
  by_cases hlen : s'.members.length = t.set.members.length
  · exact ⟨{ t with set := s' }, st, by simp [hlen], rfl, hf, ho⟩
  · simp only [hlen, ↓reduceIte]
    obtain ⟨hf₁, hle⟩ := Store.tmpFor_fresh hf t.set.impl
    generalize st.tmpFor t.set.impl = st₁ at hf₁ hle
    have ho₁ : Own n₀ t st₁ := ⟨ho.1, Nat.lt_of_lt_of_le ho.2 hle⟩
    by_cases hcap : s'.members.length ≤ t.cap
    · simp only [hcap, ↓reduceIte, pure_eq_ok]
      exact ⟨{ t with set := s' }, st₁.write t.buf, rfl, rfl, hf₁.write ho₁.1 ho₁.2, ho₁.1,
        by simpa [Store.write] using ho₁.2⟩
    · simp only [hcap, ↓reduceIte, pure_eq_ok, Store.alloc]
      refine ⟨_, _, rfl, rfl, ?_, hf₁.1, by simp [Store.write]⟩
      exact OnlyFresh.write (st := ⟨st₁.next + 1, st₁.writes⟩) hf₁.alloc hf₁.1 (by simp)

theorem HSet.remove1_fresh {t : HSet α} {v : α} {s' : MSet α} (h : t.set.remove1 v = .ok s')
    (st : Store) {n₀ : Nat} {base : List Nat} (hf : OnlyFresh n₀ base st) (ho : Own n₀ t st) :
    ∃ t' st', t.remove1 v st = .ok (t', st') ∧ t'.set = s' ∧ OnlyFresh n₀ base st' ∧ Own n₀ t' st' := by
  unfold HSet.remove1
  simp only [h, ok_bind]
  by_cases hlen : s'.members.length = t.set.members.length
  · exact ⟨{ t with set := s' }, st, by simp [hlen], rfl, hf, ho⟩
  · simp only [hlen, ↓reduceIte, pure_eq_ok]
    exact ⟨{ t with set := s' }, st.write t.buf, rfl, rfl, hf.write ho.1 ho.2, ho.1,
      by simpa [Store.write] using ho.2⟩

theorem hAddEach_fresh (grow : Nat → Nat) {n₀ : Nat} {base : List Nat} : ∀ (ms : List α) (t : HSet α) (r : MSet α),
    addEach t.set ms = .ok r → ∀ st, OnlyFresh n₀ base st → Own n₀ t st →
    ∃ t' st', hAddEach grow t ms st = .ok (t', st') ∧ t'.set = r ∧ OnlyFresh n₀ base st' ∧ Own n₀ t' st'
  | [], t, r, h, st, hf, ho => by
    cases h
    exact ⟨t, st, rfl, rfl, hf, ho⟩
  | m :: ms, t, r, h, st, hf, ho => by
    simp only [addEach, MSet.add_singleton] at h
    obtain ⟨s₁, h₁, h₂⟩ := bind_eq_ok h
    obtain ⟨t₁, st₁, e₁, hs₁, hf₁, ho₁⟩ := HSet.add1_fresh grow h₁ st hf ho
    obtain ⟨t₂, st₂, e₂, hs₂, hf₂, ho₂⟩ := hAddEach_fresh grow ms t₁ r (by rw [hs₁]; exact h₂) st₁ hf₁ ho₁
    exact ⟨t₂, st₂, by simp [hAddEach, e₁, e₂], hs₂, hf₂, ho₂⟩

theorem hRemoveEach_fresh {n₀ : Nat} {base : List Nat} : ∀ (ms : List α) (t : HSet α) (r : MSet α),
    removeEach t.set ms = .ok r → ∀ st, OnlyFresh n₀ base st → Own n₀ t st →
    ∃ t' st', hRemoveEach t ms st = .ok (t', st') ∧ t'.set = r ∧ OnlyFresh n₀ base st' ∧ Own n₀ t' st'
  | [], t, r, h, st, hf, ho => by
    cases h
    exact ⟨t, st, rfl, rfl, hf, ho⟩
  | m :: ms, t, r, h, st, hf, ho => by
    simp only [removeEach, MSet.remove_singleton] at h
    obtain ⟨s₁, h₁, h₂⟩ := bind_eq_ok h
    obtain ⟨t₁, st₁, e₁, hs₁, hf₁, ho₁⟩ := HSet.remove1_fresh h₁ st hf ho
    obtain ⟨t₂, st₂, e₂, hs₂, hf₂, ho₂⟩ := hRemoveEach_fresh ms t₁ r (by rw [hs₁]; exact h₂) st₁ hf₁ ho₁
    exact ⟨t₂, st₂, by simp [hRemoveEach, e₁, e₂], hs₂, hf₂, ho₂⟩

theorem hUnionLoop_fresh (sh : Shuffle σ) (grow : Nat → Nat) {n₀ : Nat} {base : List Nat} :
    ∀ (us : List (HSet α)) (t : HSet α) (g : σ) (r : MSet α) (g' : σ),
    unionLoop sh t.set (us.map (·.set)) g = .ok (r, g') → ∀ st, OnlyFresh n₀ base st → Own n₀ t st →
    ∃ t' st', hUnionLoop sh grow t us g st = .ok (t', g', st') ∧ t'.set = r ∧ OnlyFresh n₀ base st'
  | [], t, g, r, g', h, st, hf, _ => by
    cases h
    exact ⟨t, st, rfl, rfl, hf⟩
  | u :: us, t, g, r, g', h, st, hf, ho => by
    simp only [List.map_cons, unionLoop] at h
    obtain ⟨⟨ms, g₁⟩, h₁, h₂⟩ := bind_eq_ok h
    obtain ⟨s₁, h₃, h₄⟩ := bind_eq_ok h₂
    obtain ⟨t₁, st₁, e₁, hs₁, hf₁, ho₁⟩ := hAddEach_fresh grow ms t s₁ h₃ st hf ho
    obtain ⟨t₂, st₂, e₂, hs₂, hf₂⟩ := hUnionLoop_fresh sh grow us t₁ g₁ r g' (by rw [hs₁]; exact h₄) st₁ hf₁ ho₁
    exact ⟨t₂, st₂, by simp [hUnionLoop, h₁, e₁, e₂], hs₂, hf₂⟩

theorem hDiffLoop_fresh (sh : Shuffle σ) {n₀ : Nat} {base : List Nat} :
    ∀ (us : List (HSet α)) (t : HSet α) (g : σ) (r : MSet α) (g' : σ),
    diffLoop sh t.set (us.map (·.set)) g = .ok (r, g') → ∀ st, OnlyFresh n₀ base st → Own n₀ t st →
    ∃ t' st', hDiffLoop sh t us g st = .ok (t', g', st') ∧ t'.set = r ∧ OnlyFresh n₀ base st'
  | [], t, g, r, g', h, st, hf, _ => by
    cases h
    exact ⟨t, st, rfl, rfl, hf⟩
  | u :: us, t, g, r, g', h, st, hf, ho => by
    simp only [List.map_cons, diffLoop] at h
    obtain ⟨⟨ms, g₁⟩, h₁, h₂⟩ := bind_eq_ok h
    obtain ⟨s₁, h₃, h₄⟩ := bind_eq_ok h₂
    obtain ⟨t₁, st₁, e₁, hs₁, hf₁, ho₁⟩ := hRemoveEach_fresh ms t s₁ h₃ st hf ho
    obtain ⟨t₂, st₂, e₂, hs₂, hf₂⟩ := hDiffLoop_fresh sh us t₁ g₁ r g' (by rw [hs₁]; exact h₄) st₁ hf₁ ho₁
    exact ⟨t₂, st₂, by simp [hDiffLoop, h₁, e₁, e₂], hs₂, hf₂⟩

theorem hInterLoop_fresh (grow : Nat → Nat) (sets : List (HSet α)) {n₀ : Nat} {base : List Nat} :
    ∀ (ms : List α) (t : HSet α) (r : MSet α),
    interLoop (sets.map (·.set)) t.set ms = .ok r → ∀ st, OnlyFresh n₀ base st → Own n₀ t st →
    ∃ t' st', hInterLoop grow sets t ms st = .ok (t', st') ∧ t'.set = r ∧ OnlyFresh n₀ base st'
  | [], t, r, h, st, hf, _ => by
    cases h
    exact ⟨t, st, rfl, rfl, hf⟩
  | m :: ms, t, r, h, st, hf, ho => by
    simp only [interLoop] at h
    obtain ⟨b, h₁, h₂⟩ := bind_eq_ok h
    cases b with
    | false =>
      simp only [Bool.false_eq_true, ↓reduceIte] at h₂
      obtain ⟨t₂, st₂, e₂, hs₂, hf₂⟩ := hInterLoop_fresh grow sets ms t r h₂ st hf ho
      exact ⟨t₂, st₂, by simp [hInterLoop, h₁, e₂], hs₂, hf₂⟩
    | true =>
      simp only [↓reduceIte, MSet.add_singleton] at h₂
      obtain ⟨s₁, h₃, h₄⟩ := bind_eq_ok h₂
      obtain ⟨t₁, st₁, e₁, hs₁, hf₁, ho₁⟩ := HSet.add1_fresh grow h₃ st hf ho
      obtain ⟨t₂, st₂, e₂, hs₂, hf₂⟩ := hInterLoop_fresh grow sets ms t₁ r (by rw [hs₁]; exact h₄) st₁ hf₁ ho₁
      exact ⟨t₂, st₂, by simp [hInterLoop, h₁, e₁, e₂], hs₂, hf₂⟩

/-- what the three theorems conclude about the store: every array written by the call was allocated by it -/
def WritesOnlyFresh (st st' : Store) : Prop :=
  ∃ ws, st'.writes = ws ++ st.writes ∧ ∀ w ∈ ws, st.next ≤ w

theorem onlyFresh_init (st : Store) : OnlyFresh st.next st.writes st := ⟨Nat.le_refl _, [], rfl, by simp⟩

theorem OnlyFresh.conclude {st st' : Store} (h : OnlyFresh st.next st.writes st') : WritesOnlyFresh st st' := by
  obtain ⟨_, ws, h₂, h₃⟩ := h
  exact ⟨ws, h₂, fun w hw => (h₃ w hw).1⟩

theorem HSet.union_fresh (sh : Shuffle σ) (grow : Nat → Nat) (s : HSet α) (sets : List (HSet α)) (g : σ)
    {r : MSet α} {g' : σ} (h : s.set.union sh (sets.map (·.set)) g = .ok (r, g')) (st : Store) :
    ∃ t st', s.union sh grow sets g st = .ok (t, g', st') ∧ t.set = r ∧ WritesOnlyFresh st st' := by
  have hf : OnlyFresh st.next st.writes ((st.alloc.2).write st.alloc.1) :=
    (onlyFresh_init st).alloc.write (Nat.le_refl _) (by simp [Store.alloc])
  obtain ⟨t, st', e, hs, hf'⟩ := hUnionLoop_fresh sh grow sets
    ⟨s.set.clone, st.next, s.set.members.length⟩ g r g' h _ hf ⟨Nat.le_refl _, by simp [Store.write, Store.alloc]⟩
  exact ⟨t, st', e, hs, hf'.conclude⟩

theorem HSet.difference_fresh (sh : Shuffle σ) (s : HSet α) (sets : List (HSet α)) (g : σ)
    {r : MSet α} {g' : σ} (h : s.set.difference sh (sets.map (·.set)) g = .ok (r, g')) (st : Store) :
    ∃ t st', s.difference sh sets g st = .ok (t, g', st') ∧ t.set = r ∧ WritesOnlyFresh st st' := by
  have hf : OnlyFresh st.next st.writes ((st.alloc.2).write st.alloc.1) :=
    (onlyFresh_init st).alloc.write (Nat.le_refl _) (by simp [Store.alloc])
  obtain ⟨t, st', e, hs, hf'⟩ := hDiffLoop_fresh sh sets
    ⟨s.set.clone, st.next, s.set.members.length⟩ g r g' h _ hf ⟨Nat.le_refl _, by simp [Store.write, Store.alloc]⟩
  exact ⟨t, st', e, hs, hf'.conclude⟩

theorem HSet.intersection_fresh (grow : Nat → Nat) (s : HSet α) (sets : List (HSet α))
    {r : MSet α} (h : s.set.intersection (sets.map (·.set)) = .ok r) (st : Store) :
    ∃ t st', s.intersection grow sets st = .ok (t, st') ∧ t.set = r ∧ WritesOnlyFresh st st' := by
  have hf : OnlyFresh st.next st.writes st.alloc.2 := (onlyFresh_init st).alloc
  obtain ⟨t, st', e, hs, hf'⟩ := hInterLoop_fresh grow sets s.set.members
    ⟨s.set.cloneEmpty, st.next, 0⟩ r h _ hf ⟨Nat.le_refl _, by simp [Store.alloc]⟩
  exact ⟨t, st', e, hs, hf'.conclude⟩

end AlgoVerif.C16
