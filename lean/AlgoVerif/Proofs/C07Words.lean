import AlgoVerif.Model.C07Radix
import AlgoVerif.Spec.C07
import AlgoVerif.Proofs.C07Basic
/-!
# C07 — pure facts about 64-bit words: byte digits, the unsigned and the signed order as orders
of natural-number keys.  Used by the LSD and the MSD radix sorts.
-/
namespace AlgoVerif.C07
open AlgoVerif

/-- byte `d` (little endian) of `v` -/
def dig (v : UInt64) (d : Nat) : Nat := v.toNat / 256 ^ d % 256
/-- the `d` low bytes of `v` -/
def low (v : UInt64) (d : Nat) : Nat := v.toNat % 256 ^ d
/-- order-preserving key of the two's-complement order: flip the sign bit -/
def skey (v : UInt64) : Nat := (v.toNat + 2 ^ 63) % 2 ^ 64

/-! ## digits -/

theorem toNat_shr_and (v : UInt64) (s : Nat) (hs : s < 64) :
    ((v >>> s.toUInt64) &&& 255).toNat = v.toNat / 2 ^ s % 256 := by
  rw [UInt64.toNat_and, UInt64.toNat_shiftRight]
  have : s.toUInt64.toNat = s := by
    simp [Nat.toUInt64]; omega
  rw [this, Nat.mod_eq_of_lt hs, Nat.shiftRight_eq_div_pow]
  exact Nat.and_two_pow_sub_one_eq_mod _ 8

theorem dig_lt (v : UInt64) (d : Nat) : dig v d < 256 := Nat.mod_lt _ (by decide)

/-- `(v >> s) & 255` is byte `d` when `s = 8*d`, `d < 8` -/
theorem digitAt_of_eq (v : UInt64) (s : Int) (d : Nat) (hd : d < 8) (hs : s = 8 * (d : Int)) :
    digitAt v s = .ok ((dig v d : Nat) : Int) := by
  have h1 : 0 ≤ s ∧ s < 64 := by omega
  have h2 : s.toNat = 8 * d := by omega
  unfold digitAt
  rw [if_pos h1, h2, toNat_shr_and v (8 * d) (by omega)]
  unfold dig
  rw [Nat.pow_mul]

/-- the LSD shift `BYTE_SIZE * d` -/
theorem digitAt_lsd (v : UInt64) (d : Nat) (hd : d < 8) :
    digitAt v ((8 : Int) * (d : Int)) = .ok ((dig v d : Nat) : Int) :=
  digitAt_of_eq v _ d hd rfl

/-- the MSD shift `INT_SIZE - BYTE_SIZE - BYTE_SIZE * d` -/
theorem digitAt_msd (v : UInt64) (d : Nat) (hd : d < 8) :
    digitAt v ((64 : Int) - 8 - 8 * (d : Int)) = .ok ((dig v (7 - d) : Nat) : Int) :=
  digitAt_of_eq v _ (7 - d) (by omega) (by omega)

theorem low_zero (v : UInt64) : low v 0 = 0 := by simp [low, Nat.mod_one]

theorem low_succ (v : UInt64) (d : Nat) : low v (d + 1) = dig v d * 256 ^ d + low v d := by
  unfold low dig
  rw [Nat.pow_succ, Nat.mod_mul, Nat.mul_comm, Nat.add_comm]

theorem low_lt (v : UInt64) (d : Nat) : low v d < 256 ^ d := Nat.mod_lt _ (Nat.pow_pos (by decide))

theorem low_eight (v : UInt64) : low v 8 = v.toNat := by
  have := v.toNat_lt
  unfold low
  exact Nat.mod_eq_of_lt (by omega)

/-- the bytes above position `d`: `v = high v d * 256^d + low v d` -/
def high (v : UInt64) (d : Nat) : Nat := v.toNat / 256 ^ d

theorem high_zero (v : UInt64) : high v 0 = v.toNat := by simp [high]

theorem high_eight (v : UInt64) : high v 8 = 0 := by
  have := v.toNat_lt
  unfold high
  exact Nat.div_eq_of_lt (by omega)

/-- `high v d = high v (d+1) * 256 + dig v d` -/
theorem high_eq (v : UInt64) (d : Nat) : high v d = high v (d + 1) * 256 + dig v d := by
  unfold high dig
  rw [Nat.pow_succ, ← Nat.div_div_eq_div_mul]
  omega

theorem toNat_eq_high_low (v : UInt64) (d : Nat) : v.toNat = high v d * 256 ^ d + low v d := by
  unfold high low
  rw [Nat.mul_comm]
  exact (Nat.div_add_mod _ _).symm

/-! ## the unsigned order -/

theorem uLe_eq (a b : UInt64) : uLe a b = decide (a.toNat ≤ b.toNat) := by
  unfold uLe
  rw [decide_eq_decide]
  exact UInt64.le_iff_toNat_le

theorem uLt_eq (a b : UInt64) : uLt a b = decide (a.toNat < b.toNat) := by
  unfold uLt
  rw [decide_eq_decide]
  exact UInt64.lt_iff_toNat_lt

theorem toNat_injective {a b : UInt64} (h : a.toNat = b.toNat) : a = b := UInt64.toNat_inj.1 h

/-! ## the signed order -/

theorem toInt_toInt64 (v : UInt64) :
    v.toInt64.toInt = if v.toNat < 2 ^ 63 then (v.toNat : Int) else (v.toNat : Int) - 2 ^ 64 := by
  rw [← Int64.toInt_toBitVec, UInt64.toBitVec_toInt64, BitVec.toInt_eq_toNat_cond]
  simp only [UInt64.toNat_toBitVec]
  split <;> split <;> omega

theorem skey_eq_toInt (v : UInt64) : (skey v : Int) = v.toInt64.toInt + 2 ^ 63 := by
  rw [toInt_toInt64]
  have := v.toNat_lt
  unfold skey
  split <;> omega

theorem iLe_eq (a b : UInt64) : iLe a b = decide (skey a ≤ skey b) := by
  unfold iLe
  rw [decide_eq_decide, Int64.le_iff_toInt_le]
  have := skey_eq_toInt a; have := skey_eq_toInt b
  omega

theorem iLt_eq (a b : UInt64) : iLt a b = decide (skey a < skey b) := by
  unfold iLt
  rw [decide_eq_decide, Int64.lt_iff_toInt_lt]
  have := skey_eq_toInt a; have := skey_eq_toInt b
  omega

theorem skey_lt (v : UInt64) : skey v < 2 ^ 64 := Nat.mod_lt _ (by decide)

theorem skey_injective {a b : UInt64} (h : skey a = skey b) : a = b := by
  apply toNat_injective
  have := a.toNat_lt; have := b.toNat_lt
  unfold skey at h
  omega

/-- the signed key: the top byte rotated by half the radix over the 7 low bytes -/
theorem skey_eq (v : UInt64) : skey v = ((dig v 7 + 128) % 256) * 256 ^ 7 + low v 7 := by
  have := v.toNat_lt
  unfold skey dig low
  omega

/-- the signed key with the top byte taken from `high` (the MSD view) -/
theorem skey_eq_high (v : UInt64) : skey v = ((high v 7 + 128) % 256) * 256 ^ 7 + low v 7 := by
  have := v.toNat_lt
  unfold skey high low
  omega

/-! ## `uLe`, `iLe` as Boolean relations (what `List.mergeSort` lemmas want) -/

theorem uLe_total (a b : UInt64) : (uLe a b || uLe b a) = true := by
  simp only [uLe_eq, Bool.or_eq_true, decide_eq_true_eq]; omega

theorem uLe_trans (a b c : UInt64) : uLe a b = true → uLe b c = true → uLe a c = true := by
  simp only [uLe_eq, decide_eq_true_eq]; omega

theorem uLe_antisymm (a b : UInt64) : uLe a b = true → uLe b a = true → a = b := by
  simp only [uLe_eq, decide_eq_true_eq]
  intro h1 h2
  exact toNat_injective (by omega)

theorem iLe_total (a b : UInt64) : (iLe a b || iLe b a) = true := by
  simp only [iLe_eq, Bool.or_eq_true, decide_eq_true_eq]; omega

theorem iLe_trans (a b c : UInt64) : iLe a b = true → iLe b c = true → iLe a c = true := by
  simp only [iLe_eq, decide_eq_true_eq]; omega

theorem iLe_antisymm (a b : UInt64) : iLe a b = true → iLe b a = true → a = b := by
  simp only [iLe_eq, decide_eq_true_eq]
  intro h1 h2
  exact skey_injective (by omega)

/-- a list that is a permutation of `l` and sorted by the natural-number key `f` (injective) is the
stable reference sort of `l` by any Boolean order `le` that is `f · ≤ f ·` -/
theorem eq_mergeSort_of_key {α : Type} (le : α → α → Bool) (f : α → Nat)
    (hle : ∀ a b, le a b = decide (f a ≤ f b)) (hinj : ∀ a b, f a = f b → a = b)
    (out l : List α) (hp : out.Perm l) (hs : out.Pairwise (fun x y => f x ≤ f y)) :
    out = l.mergeSort le := by
  have htr : ∀ a b c, le a b = true → le b c = true → le a c = true := by
    intro a b c; simp only [hle, decide_eq_true_eq]; omega
  have hto : ∀ a b, (le a b || le b a) = true := by
    intro a b; simp only [hle, Bool.or_eq_true, decide_eq_true_eq]; omega
  have h1 : (l.mergeSort le).Pairwise (fun a b => le a b = true) := List.pairwise_mergeSort htr hto l
  have h2 : out.Pairwise (fun a b => le a b = true) :=
    hs.imp (fun h => by simp only [hle, decide_eq_true_eq]; exact h)
  refine List.Perm.eq_of_pairwise (le := fun a b => le a b = true) ?_ h2 h1
    (hp.trans (List.mergeSort_perm l le).symm)
  intro a b _ _ hab hba
  simp only [hle, decide_eq_true_eq] at hab hba
  exact hinj a b (by omega)

end AlgoVerif.C07
