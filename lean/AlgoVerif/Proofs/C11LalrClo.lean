import AlgoVerif.Proofs.C11BuiltCompleteAuto
import AlgoVerif.Proofs.C11BuiltCompleteSets
import AlgoVerif.Proofs.C11Complete
/-!
# C11 — CLOSURE as an inductive predicate, and the "dummy lookahead" lemma behind `ComputeLALR1Kernels`

* `Clo g nl fe seed x`: `x` is reachable from a seed item by the CLOSURE rule.  What `closure` returns (when it returns)
  is exactly this set (`mem_closure_iff`), for every amount of fuel.
* `clo_dummy`: CLOSURE of a single LR(1) item `[k, a]` is determined by CLOSURE of `[k, $]` — every item of it is
  `[k, a]` itself, or an item of CLOSURE(`[k, $]`) with a lookahead other than `$` (generated *spontaneously*), or an item
  `[j, a]` with `[j, $]` in CLOSURE(`[k, $]`) (the lookahead *propagates*).  This is the dragon book's lemma with the
  endmarker playing the role of the dummy `#`, which is sound because no FIRST set of the augmented grammar contains it.
* `clo_core` / `clo_lift`: the cores of an LR(1) closure lie in the LR(0) closure of the cores, and conversely every item
  of the LR(0) closure carries at least one lookahead in the LR(1) closure when FIRST(βa) is never empty
  (every non-terminal derives a terminal string: `Productive`).
-/
namespace AlgoVerif.C11.Lalr
open AlgoVerif AlgoVerif.Gram AlgoVerif.C11 AlgoVerif.C11.Spec AlgoVerif.C11.Built AlgoVerif.C11.BuiltComplete

/-- `x` is reachable from an item satisfying `seed` by the CLOSURE rule -/
inductive Clo (g : SGrammar) (nl : List String) (fe : Env) (seed : Item → Prop) : Item → Prop where
  | base {i : Item} : seed i → Clo g nl fe seed i
  | step {i j : Item} : Clo g nl fe seed i → j ∈ closureCands g nl fe i → Clo g nl fe seed j

/-- the item `k` with lookahead `a` -/
def withLa (k : Item) (a : String) : Item := { k with la := some a }

section
variable {g : SGrammar} {nl : List String} {fe : Env}

theorem clo_mono {seed seed' : Item → Prop} (h : ∀ i, seed i → seed' i) {x : Item} (hx : Clo g nl fe seed x) :
    Clo g nl fe seed' x := by
  induction hx with
  | base hs => exact Clo.base (h _ hs)
  | step _ hj ih => exact Clo.step ih hj

/-- anything closed under the CLOSURE rule that holds for the argument holds for the result of `closure` -/
theorem closure_pred (P : Item → Prop) (hP : ∀ i, P i → ∀ j ∈ closureCands g nl fe i, P j) :
    ∀ (fuel : Nat) (J K : List Item), closure g nl fe fuel J = Outcome.ok K → (∀ i ∈ J, P i) → ∀ i ∈ K, P i
  | 0, J, K, hc, _ => by simp [closure] at hc
  | fuel + 1, J, K, hc, hJ => by
    unfold closure at hc
    split at hc
    · simp only [Outcome.ok.injEq] at hc
      subst hc
      exact hJ
    · apply closure_pred P hP fuel _ K hc
      intro i hi
      rcases List.mem_append.mp hi with h4 | h4
      · exact hJ i h4
      · obtain ⟨i0, hi0, hj⟩ := closureNew_sub h4
        exact hP i0 (hJ i0 hi0) i hj

/-- what `closure` returns is the inductive closure of its argument -/
theorem mem_closure_iff {fuel : Nat} {J K : List Item} (hc : closure g nl fe fuel J = Outcome.ok K) (x : Item) :
    x ∈ K ↔ Clo g nl fe (fun i => i ∈ J) x := by
  obtain ⟨hcl, hsub, _⟩ := closure_fix g nl fe fuel J K hc
  constructor
  · exact closure_pred (Clo g nl fe (fun i => i ∈ J)) (fun i hi j hj => Clo.step hi hj) fuel J K hc
      (fun i hi => Clo.base hi) x
  · intro hx
    induction hx with
    | base hs => exact hsub _ hs
    | step _ hj ih => exact hcl _ ih _ hj

/-- an item of the closure of a set is in the closure of one of its members -/
theorem clo_single {seed : Item → Prop} {x : Item} (hx : Clo g nl fe seed x) :
    ∃ k, seed k ∧ Clo g nl fe (fun i => i = k) x := by
  induction hx with
  | base hs => exact ⟨_, hs, Clo.base rfl⟩
  | step _ hj ih =>
    obtain ⟨k, hk, hc⟩ := ih
    exact ⟨k, hk, Clo.step hc hj⟩

theorem mem_closureCands {i j : Item} :
    j ∈ closureCands g nl fe i ↔ ∃ B p, i.dotSym = some (Sym.nonterm B) ∧ p ∈ prodsOf g B ∧
      ((i.la = none ∧ j = { prod := p, dot := 0, la := none }) ∨
       (∃ a b, i.la = some a ∧ b ∈ lookaheadsFor nl fe i a ∧ j = { prod := p, dot := 0, la := some b })) := by
  unfold closureCands
  cases hd : i.dotSym with
  | none => simp
  | some X =>
    cases X with
    | term t => simp
    | nonterm B =>
      simp only [List.mem_flatMap, Option.some.injEq, Sym.nonterm.injEq, exists_and_left, exists_eq_left']
      constructor
      · rintro ⟨p, hp, hj⟩
        refine ⟨p, hp, ?_⟩
        cases hla : i.la with
        | none =>
          rw [hla] at hj
          simp only [List.mem_singleton] at hj
          exact Or.inl ⟨rfl, hj⟩
        | some a =>
          rw [hla] at hj
          simp only [List.mem_map] at hj
          obtain ⟨b, hb, rfl⟩ := hj
          exact Or.inr ⟨a, rfl, b, hb, rfl⟩
      · rintro ⟨p, hp, hj⟩
        refine ⟨p, hp, ?_⟩
        rcases hj with ⟨hla, rfl⟩ | ⟨a, hla, b, hb, rfl⟩
        · rw [hla]; simp
        · rw [hla]; simp only [List.mem_map]; exact ⟨b, hb, rfl⟩

theorem mem_lookaheadsFor {i : Item} {a b : String} :
    b ∈ lookaheadsFor nl fe i a ↔ b ∈ firstOfStr nl fe (i.prod.body.drop (i.dot + 1)) ∨
      ((i.prod.body.drop (i.dot + 1)).all (symNullable nl) = true ∧ b = a) := by
  unfold lookaheadsFor
  simp only
  split
  · rename_i hn
    rw [mem_unionNew]
    simp [hn]
  · rename_i hn
    simp [hn]

theorem lookaheadsFor_withLa (i : Item) (c a : String) :
    lookaheadsFor nl fe (withLa i c) a = lookaheadsFor nl fe i a := rfl

theorem dotSym_withLa (i : Item) (c : String) : (withLa i c).dotSym = i.dotSym := rfl

/-! ## the dummy-lookahead lemma -/

/-- CLOSURE(`[k, a]`) in terms of CLOSURE(`[k, $]`) -/
theorem clo_dummy {k : Item} {a : String}
    (hne : ∀ x, Clo g nl fe (fun i => i = withLa k endmarker) x →
      endmarker ∉ firstOfStr nl fe (x.prod.body.drop (x.dot + 1)))
    {x : Item} (hx : Clo g nl fe (fun i => i = withLa k a) x) :
    x = withLa k a ∨
    (∃ b, x.la = some b ∧ b ≠ endmarker ∧ Clo g nl fe (fun i => i = withLa k endmarker) x) ∨
    (x.la = some a ∧ Clo g nl fe (fun i => i = withLa k endmarker) (withLa x endmarker)) := by
  induction hx with
  | base hs => exact Or.inl hs
  | @step i j _ hj ih =>
    obtain ⟨B, p, hd, hp, hcase⟩ := mem_closureCands.mp hj
    -- `i$`: the item of CLOSURE([k,$]) with the production and dot of `i`; `c`: the lookahead of `i`
    have key : ∀ (i' : Item) (c : String), i'.prod = i.prod → i'.dot = i.dot → i.la = some c →
        Clo g nl fe (fun z => z = withLa k endmarker) i' →
        (i'.la = some c ∧ c ≠ endmarker) ∨ (i'.la = some endmarker ∧ c = a) →
        (∃ b, j.la = some b ∧ b ≠ endmarker ∧ Clo g nl fe (fun z => z = withLa k endmarker) j) ∨
        (j.la = some a ∧ Clo g nl fe (fun z => z = withLa k endmarker) (withLa j endmarker)) := by
      intro i' c hpr hdt hla hcl hc
      rcases hcase with ⟨hnone, _⟩ | ⟨c', b, hla', hb, rfl⟩
      · rw [hnone] at hla; cases hla
      · rw [hla] at hla'
        simp only [Option.some.injEq] at hla'
        subst hla'
        have hd' : i'.dotSym = some (Sym.nonterm B) := by
          unfold Item.dotSym at hd ⊢; rw [hpr, hdt]; exact hd
        have hsuf : i'.prod.body.drop (i'.dot + 1) = i.prod.body.drop (i.dot + 1) := by rw [hpr, hdt]
        have hnoend := hne i' hcl
        rw [hsuf] at hnoend
        rcases mem_lookaheadsFor.mp hb with hf | ⟨hnull, rfl⟩
        · -- spontaneous
          left
          have hbne : b ≠ endmarker := fun he => hnoend (he ▸ hf)
          refine ⟨b, rfl, hbne, ?_⟩
          obtain ⟨c0, hc0⟩ : ∃ c0, i'.la = some c0 := by
            rcases hc with h1 | h1
            · exact ⟨_, h1.1⟩
            · exact ⟨_, h1.1⟩
          apply Clo.step hcl
          apply mem_closureCands.mpr
          refine ⟨B, p, hd', hp, Or.inr ⟨c0, b, hc0, ?_, rfl⟩⟩
          apply mem_lookaheadsFor.mpr
          left; rw [hsuf]; exact hf
        · -- the lookahead of `i` is handed on
          rcases hc with ⟨h1, h2⟩ | ⟨h1, h2⟩
          · left
            refine ⟨b, rfl, h2, ?_⟩
            apply Clo.step hcl
            apply mem_closureCands.mpr
            refine ⟨B, p, hd', hp, Or.inr ⟨b, b, h1, ?_, rfl⟩⟩
            apply mem_lookaheadsFor.mpr
            right; rw [hsuf]; exact ⟨hnull, rfl⟩
          · right
            refine ⟨by rw [h2], ?_⟩
            apply Clo.step hcl
            apply mem_closureCands.mpr
            refine ⟨B, p, hd', hp, Or.inr ⟨endmarker, endmarker, h1, ?_, rfl⟩⟩
            apply mem_lookaheadsFor.mpr
            right; rw [hsuf]; exact ⟨hnull, rfl⟩
    rcases ih with h1 | ⟨c, hla, hcne, hcl⟩ | ⟨hla, hcl⟩
    · right
      subst h1
      exact key (withLa k endmarker) a rfl rfl rfl (Clo.base rfl) (Or.inr ⟨rfl, rfl⟩)
    · right
      exact key i c rfl rfl hla hcl (Or.inl ⟨hla, hcne⟩)
    · right
      exact key (withLa i endmarker) a rfl rfl hla hcl (Or.inr ⟨rfl, rfl⟩)

/-! ## cores -/

theorem core_withLa (k : Item) (a : String) : (withLa k a).core = k.core := rfl

theorem core_of_none {k : Item} (h : k.la = none) : k.core = k := by
  cases k; simp_all [Item.core]

theorem withLa_core {x : Item} {b : String} (h : x.la = some b) : withLa x.core b = x := by
  cases x; simp_all [Item.core, withLa]

theorem dotSym_core (i : Item) : i.core.dotSym = i.dotSym := rfl

/-- every item of a closure of LR(1) items is an LR(1) item -/
theorem clo_la_some {seed : Item → Prop} (hs : ∀ i, seed i → i.la.isSome = true) {x : Item}
    (hx : Clo g nl fe seed x) : x.la.isSome = true := by
  induction hx with
  | base h => exact hs _ h
  | step _ hj ih => exact (itemProp_some g nl fe).cands _ ih _ hj

/-- every item of a closure of LR(0) items is an LR(0) item -/
theorem clo_la_none {seed : Item → Prop} (hs : ∀ i, seed i → i.la = none) {x : Item}
    (hx : Clo g nl fe seed x) : x.la = none := by
  induction hx with
  | base h => exact hs _ h
  | step _ hj ih => exact (itemProp_none g nl fe).cands _ ih _ hj

/-- the core of an item of an LR(1) closure lies in the LR(0) closure of the cores of the seeds -/
theorem clo_core {seed : Item → Prop} (hs : ∀ i, seed i → i.la.isSome = true) {x : Item}
    (hx : Clo g nl fe seed x) : Clo g nl fe (fun y => ∃ s, seed s ∧ s.core = y) x.core := by
  induction hx with
  | base h => exact Clo.base ⟨_, h, rfl⟩
  | @step i j hi hj ih =>
    obtain ⟨B, p, hd, hp, hcase⟩ := mem_closureCands.mp hj
    have hsome := clo_la_some hs hi
    rcases hcase with ⟨hnone, _⟩ | ⟨a, b, _, _, rfl⟩
    · rw [hnone] at hsome; cases hsome
    · apply Clo.step ih
      apply mem_closureCands.mpr
      exact ⟨B, p, hd, hp, Or.inl ⟨rfl, rfl⟩⟩

/-- FIRST(βa) is never empty for the suffixes `β` of the items in play -/
def LiveSuffix (nl : List String) (fe : Env) (x : Item) : Prop :=
  ∀ a, lookaheadsFor nl fe x a ≠ []

/-- every item of the LR(0) closure of the cores has a lookahead in the LR(1) closure -/
theorem clo_lift {seed0 seed1 : Item → Prop} (h0 : ∀ i, seed0 i → i.la = none)
    (hseed : ∀ i, seed0 i → ∃ a, seed1 (withLa i a))
    (hlive : ∀ x, Clo g nl fe seed0 x → LiveSuffix nl fe x)
    {y : Item} (hy : Clo g nl fe seed0 y) : ∃ b, Clo g nl fe seed1 (withLa y b) := by
  induction hy with
  | base h =>
    obtain ⟨a, ha⟩ := hseed _ h
    exact ⟨a, Clo.base ha⟩
  | @step i j hi hj ih =>
    obtain ⟨a, ha⟩ := ih
    obtain ⟨B, p, hd, hp, hcase⟩ := mem_closureCands.mp hj
    have hnone := clo_la_none h0 hi
    rcases hcase with ⟨_, rfl⟩ | ⟨a', b, hla, _, _⟩
    · have hl := hlive i hi a
      obtain ⟨b, hb⟩ := List.exists_mem_of_ne_nil _ hl
      refine ⟨b, Clo.step ha ?_⟩
      apply mem_closureCands.mpr
      exact ⟨B, p, hd, hp, Or.inr ⟨a, b, rfl, hb, rfl⟩⟩
    · rw [hnone] at hla; cases hla

end

/-! ## FIRST of the augmented grammar: no endmarker, never empty for productive symbols -/

theorem envFix_inv (f : Env → Env) (P : Env → Prop) (hstep : ∀ env, P env → P (f env)) :
    ∀ (fuel : Nat) (env : Env), P env → P (envFix f fuel env)
  | 0, env, h => by simpa [envFix] using h
  | fuel + 1, env, h => by
    unfold envFix
    simp only
    split
    · exact h
    · exact envFix_inv f P hstep fuel _ (hstep env h)

/-- FIRST sets contain terminals of production bodies only -/
theorem firstEnv_terms (g : SGrammar) (Tm : List String) (hheads : ∀ p ∈ g.prods, p.head ∈ g.nonterms)
    (hT : ∀ p ∈ g.prods, ∀ t, Sym.term t ∈ p.body → t ∈ Tm) (nl : List String) :
    ∀ m, ∀ t ∈ envGet (firstEnv g nl) m, t ∈ Tm := by
  let g2 : SGrammar := { g with terms := Tm }
  have hL : Listed g2 := ⟨hheads, hT⟩
  have hform : EnvForm g.nonterms Tm (firstEnv g nl) := by
    unfold firstEnv
    apply envFix_inv (firstStep g nl) (EnvForm g.nonterms Tm)
    · intro env henv
      exact (firstStep_form g2 hL nl env henv).1
    · exact ⟨fun _ => [], rfl, fun _ => ⟨by simp, by simp⟩⟩
  intro m
  exact (envForm_get hform m).2

/-- a symbol that derives a terminal string is nullable or has a non-empty FIRST set -/
def LiveSym (nl : List String) (fe : Env) : Sy → Prop
  | .term _ => True
  | .nonterm n => n ∈ nl ∨ envGet fe n ≠ []

theorem live_body (nl : List String) (fe : Env) : ∀ (β : List Sy), (∀ X ∈ β, LiveSym nl fe X) →
    β.all (symNullable nl) = true ∨ firstOfStr nl fe β ≠ []
  | [], _ => Or.inl (by simp)
  | .term t :: rest, _ => Or.inr (by simp [firstOfStr])
  | .nonterm n :: rest, h => by
    have hn := h (.nonterm n) (by simp)
    have hrest := live_body nl fe rest (fun X hX => h X (List.mem_cons_of_mem _ hX))
    by_cases hnl : n ∈ nl
    · rcases hrest with h1 | h1
      · left
        simp [symNullable, hnl, h1]
      · right
        simp only [firstOfStr, hnl, if_true]
        obtain ⟨c, hc⟩ := List.exists_mem_of_ne_nil _ h1
        intro he
        have : c ∈ unionNew (envGet fe n) (firstOfStr nl fe rest) := mem_unionNew.mpr (Or.inr hc)
        rw [he] at this
        simp at this
    · right
      simp only [firstOfStr, hnl, if_false]
      rcases hn with h1 | h1
      · exact absurd h1 hnl
      · exact h1

theorem live_lookaheads {nl : List String} {fe : Env} {x : Item}
    (h : ∀ X ∈ x.prod.body, LiveSym nl fe X) : LiveSuffix nl fe x := by
  intro a
  have := live_body nl fe (x.prod.body.drop (x.dot + 1)) (fun X hX => h X (List.mem_of_mem_drop hX))
  rcases this with h1 | h1
  · intro he
    have : a ∈ lookaheadsFor nl fe x a := mem_lookaheadsFor.mpr (Or.inr ⟨h1, rfl⟩)
    rw [he] at this
    simp at this
  · obtain ⟨c, hc⟩ := List.exists_mem_of_ne_nil _ h1
    intro he
    have : c ∈ lookaheadsFor nl fe x a := mem_lookaheadsFor.mpr (Or.inl hc)
    rw [he] at this
    simp at this

/-- every listed non-terminal derives a terminal string ("productive"; half of "reduced") -/
def Productive (g : SGrammar) : Prop :=
  ∀ B ∈ g.nonterms, ∃ w : List String, Derives g [Sym.nonterm B] (w.map Sym.term)

theorem derivesT_mono {g g' : SGrammar} (hsub : ∀ p ∈ g.prods, p ∈ g'.prods) :
    ∀ (N : Nat), (∀ t X, treeSize t ≤ N → derivesT g t X → derivesT g' t X) ∧
      (∀ ks σ, treeSizeL ks ≤ N → derivesL g ks σ → derivesL g' ks σ) := by
  intro N
  induction N with
  | zero =>
    constructor
    · intro t X hs; have := Complete.treeSize_pos t; omega
    · intro ks σ hs hd
      cases ks with
      | nil => simpa [derivesL] using hd
      | cons t tr => simp [treeSizeL] at hs; have := Complete.treeSize_pos t; omega
  | succ N ih =>
    have hT : ∀ t X, treeSize t ≤ N + 1 → derivesT g t X → derivesT g' t X := by
      intro t X hs hd
      cases t with
      | leaf a => simpa [derivesT] using hd
      | nil => simp [derivesT] at hd
      | node p ks =>
        simp only [derivesT] at hd ⊢
        simp only [treeSize] at hs
        exact ⟨hd.1, hsub p hd.2.1, ih.2 ks p.body (by omega) hd.2.2⟩
    refine ⟨hT, ?_⟩
    intro ks
    induction ks with
    | nil => intro σ _ hd; simpa [derivesL] using hd
    | cons t tr ihl =>
      intro σ hs hd
      simp only [derivesL] at hd ⊢
      simp only [treeSizeL] at hs
      obtain ⟨X, Xr, rfl, hdt, hdr⟩ := hd
      exact ⟨X, Xr, rfl, hT t X (by omega) hdt, ihl Xr (by omega) hdr⟩

/-- in a grammar whose nullable and FIRST sets are closed under the productions, a non-terminal that derives a terminal
string is nullable or has a non-empty FIRST set -/
theorem live_of_derives {g : SGrammar} {nl : List String} {fe : Env}
    (hN : ∀ p ∈ g.prods, p.body.all (symNullable nl) = true → p.head ∈ nl)
    (hF : ∀ p ∈ g.prods, ∀ c ∈ firstOfStr nl fe p.body, c ∈ envGet fe p.head)
    {B : String} {w : List String} (hd : Derives g [Sym.nonterm B] (w.map Sym.term)) :
    LiveSym nl fe (Sym.nonterm B) := by
  have h0 : Complete.HasForest g w (w.map Sym.term) :=
    ⟨_, (Complete.derivesL_terms g w).1, (Complete.derivesL_terms g w).2⟩
  obtain ⟨ks, hks, hy⟩ := Complete.hasForest_of_derives hd h0
  cases w with
  | nil =>
    have := (Complete.null_sem hN (treeSizeL ks)).2 ks _ (Nat.le_refl _) hks hy
    left
    simpa [symNullable] using this
  | cons c x =>
    have := (Complete.first_sem hN hF (treeSizeL ks)).2 ks _ c x (Nat.le_refl _) hks hy
    simp only [firstOfStr] at this
    by_cases hn : B ∈ nl
    · exact Or.inl hn
    · right
      simp only [hn, if_false] at this
      intro he
      rw [he] at this
      simp at this

end AlgoVerif.C11.Lalr
