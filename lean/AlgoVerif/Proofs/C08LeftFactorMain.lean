import AlgoVerif.Proofs.C08LeftFactorModel
/-!
# LeftFactor preserves the language (C08)

`C08_leftfactor`: for every valid grammar `G` on which the Model's `leftFactor` returns a grammar `G'`
(i.e. neither the documented "out of fresh names" panic nor running out of the pass fuel),
`L(G') = L(G)`.  Only well-formedness is used (the start symbol, every head and every body symbol are
declared); hygiene plays no role for the language — whatever name `AddNewNonTerminal` returns is not a
declared non-terminal, which is all the fold lemma needs.  `C08_leftfactor_wellFormed`: the result is
well-formed again.
-/
namespace AlgoVerif.C08
open AlgoVerif AlgoVerif.Gram AlgoVerif.C08.Spec
open LF

theorem sameLanguage_refl (g : G) : SameLanguage g g := fun _ => Iff.rfl

theorem sameLanguage_trans {g₁ g₂ g₃ : G} (h₁ : SameLanguage g₁ g₂) (h₂ : SameLanguage g₂ g₃) :
    SameLanguage g₁ g₃ := fun w => (h₂ w).trans (h₁ w)

/-- one non-terminal of one pass -/
theorem lfHead_good {g g' : G} {A : String} {ch : Bool} (h : lfHead g A = .ok (g', ch)) (hw : WellFormed g) :
    WellFormed g' ∧ SameLanguage g g' := by
  rcases lfHead_spec h hw with rfl | ⟨F, hF⟩
  · exact ⟨hw, sameLanguage_refl _⟩
  · exact ⟨hF.wellFormed hw, hF.sameLanguage hw⟩

/-- the loop over the non-terminals of one pass (any list of names) -/
theorem lfFold_good : ∀ (nts : List String) (st st' : G × Bool), WellFormed st.1 →
    nts.foldlM (fun (st : G × Bool) A => do
      let (g', ch) ← lfHead st.1 A
      pure (g', st.2 || ch)) st = .ok st' →
    WellFormed st'.1 ∧ SameLanguage st.1 st'.1
  | [], st, st', hw, h => by
    cases h
    exact ⟨hw, sameLanguage_refl _⟩
  | A :: nts, st, st', hw, h => by
    rw [foldlM_cons] at h
    obtain ⟨st₁, h₁, h₂⟩ := bind_eq_ok h
    obtain ⟨⟨g₁, ch⟩, hh, hp⟩ := bind_eq_ok h₁
    cases hp
    obtain ⟨hw₁, hl₁⟩ := lfHead_good hh hw
    obtain ⟨hw₂, hl₂⟩ := lfFold_good nts _ st' hw₁ h₂
    exact ⟨hw₂, sameLanguage_trans hl₁ hl₂⟩

theorem lfPass_good {g g' : G} {ch : Bool} (h : lfPass g = .ok (g', ch)) (hw : WellFormed g) :
    WellFormed g' ∧ SameLanguage g g' := by
  unfold lfPass at h
  obtain ⟨nts, _, h'⟩ := bind_eq_ok h
  exact lfFold_good nts (g, false) (g', ch) hw h'

theorem lfLoop_good : ∀ (fuel : Nat) (g g' : G), lfLoop fuel g = .ok g' → WellFormed g →
    WellFormed g' ∧ SameLanguage g g'
  | 0, _, _, h, _ => by cases h
  | fuel + 1, g, g', h, hw => by
    simp only [lfLoop] at h
    obtain ⟨⟨g₁, ch⟩, hp, h'⟩ := bind_eq_ok h
    obtain ⟨hw₁, hl₁⟩ := lfPass_good hp hw
    cases ch with
    | true =>
      simp only [↓reduceIte] at h'
      obtain ⟨hw₂, hl₂⟩ := lfLoop_good fuel g₁ g' h' hw₁
      exact ⟨hw₂, sameLanguage_trans hl₁ hl₂⟩
    | false =>
      simp only [Bool.false_eq_true, ↓reduceIte] at h'
      cases h'
      exact ⟨hw₁, hl₁⟩

/-- **LeftFactor preserves the language** -/
theorem C08_leftfactor {G₀ G' : G} (hv : Valid G₀) (_hh : Hygienic G₀) (h : leftFactor G₀ = .ok G') :
    SameLanguage G₀ G' :=
  (lfLoop_good _ G₀ G' h hv.wellFormed).2

/-- the same from well-formedness alone (no hygiene, non-terminals without productions allowed) -/
theorem C08_leftfactor_of_wellFormed {G₀ G' : G} (hw : WellFormed G₀) (h : leftFactor G₀ = .ok G') :
    SameLanguage G₀ G' :=
  (lfLoop_good _ G₀ G' h hw).2

/-- the result of LeftFactor is well-formed -/
theorem C08_leftfactor_wellFormed {G₀ G' : G} (hw : WellFormed G₀) (h : leftFactor G₀ = .ok G') :
    WellFormed G' :=
  (lfLoop_good _ G₀ G' h hw).1

end AlgoVerif.C08
