import AlgoVerif.Proofs.C16Store
/-!
# C16 helper lemmas: the heap machine — frames, owned mutation, Add/Remove and the set-algebra loops

`Trans H H' o o' m'`: a mutation of the object `o` took the store from `H` to `H'`; the object is now `o'`
and holds `m'`; it still lives in its old array or in one allocated since; every other array that existed
is unchanged.  All mutators of the API are `Trans`itions of their receiver (of the fresh clone, for the set
algebra), which is what keeps distinct objects apart.
-/
namespace AlgoVerif.C16.Hp
open AlgoVerif AlgoVerif.C16
variable {α : Type} {σ : Type}

/-! ### the store -/

theorem size_alloc (H : Heap α) (arr : List α) : (H.alloc arr).1.size = H.size + 1 := by
  simp [Heap.alloc, Heap.size]

theorem alloc_id (H : Heap α) (arr : List α) : (H.alloc arr).2 = H.size := rfl

theorem get_alloc_lt (H : Heap α) (arr : List α) {b : Nat} (hb : b < H.size) : (H.alloc arr).1.get b = H.get b := by
  simp only [Heap.alloc, Heap.get, Heap.size] at *
  rw [List.getElem?_append_left hb]

theorem get_alloc_new (H : Heap α) (arr : List α) : (H.alloc arr).1.get H.size = arr := by
  simp [Heap.alloc, Heap.get, Heap.size]

theorem size_set (H : Heap α) (b : Nat) (arr : List α) : (H.set b arr).size = H.size := by
  simp [Heap.set, Heap.size]

theorem get_set_eq (H : Heap α) {b : Nat} (arr : List α) (hb : b < H.size) : (H.set b arr).get b = arr := by
  simp only [Heap.set, Heap.get, Heap.size] at *
  rw [List.getElem?_set_self hb]
  rfl

theorem get_set_ne (H : Heap α) {b c : Nat} (arr : List α) (h : c ≠ b) : (H.set b arr).get c = H.get c := by
  simp only [Heap.set, Heap.get]
  rw [List.getElem?_set_ne (fun e => h e.symm)]

/-- the header points into the store and is not longer than its array -/
def Valid (H : Heap α) (o : Obj α) : Prop := o.buf < H.size ∧ o.len ≤ (H.get o.buf).length

/-- every array that existed is unchanged, except possibly array `b` -/
def Frame (H H' : Heap α) (b : Nat) : Prop := H.size ≤ H'.size ∧ ∀ c, c < H.size → c ≠ b → H'.get c = H.get c

/-- every array that existed is unchanged -/
def Ext (H H' : Heap α) : Prop := H.size ≤ H'.size ∧ ∀ c, c < H.size → H'.get c = H.get c

theorem Ext.refl (H : Heap α) : Ext H H := ⟨Nat.le_refl _, fun _ _ => rfl⟩

theorem Ext.trans {H₁ H₂ H₃ : Heap α} (h₁ : Ext H₁ H₂) (h₂ : Ext H₂ H₃) : Ext H₁ H₃ :=
  ⟨Nat.le_trans h₁.1 h₂.1, fun c hc => (h₂.2 c (Nat.lt_of_lt_of_le hc h₁.1)).trans (h₁.2 c hc)⟩

theorem Ext.frame {H H' : Heap α} (h : Ext H H') (b : Nat) : Frame H H' b := ⟨h.1, fun c hc _ => h.2 c hc⟩

theorem Frame.refl (H : Heap α) (b : Nat) : Frame H H b := (Ext.refl H).frame b

/-- frames compose when the second written array is the first one or a newer one -/
theorem Frame.trans {H₁ H₂ H₃ : Heap α} {b b' : Nat} (h₁ : Frame H₁ H₂ b) (h₂ : Frame H₂ H₃ b')
    (hb : b' = b ∨ H₁.size ≤ b') : Frame H₁ H₃ b := by
  refine ⟨Nat.le_trans h₁.1 h₂.1, fun c hc hcb => ?_⟩
  rw [h₂.2 c (Nat.lt_of_lt_of_le hc h₁.1) ?_, h₁.2 c hc hcb]
  rcases hb with rfl | hb
  · exact hcb
  · omega

/-- a frame whose written array is new is an extension -/
theorem Frame.ext_of_new {H H' : Heap α} {b : Nat} (h : Frame H H' b) (hb : H.size ≤ b) : Ext H H' :=
  ⟨h.1, fun c hc => h.2 c hc (by omega)⟩

theorem alloc_ext (H : Heap α) (arr : List α) : Ext H (H.alloc arr).1 :=
  ⟨by rw [size_alloc]; omega, fun _ hc => get_alloc_lt H arr hc⟩

theorem Valid.frame {H H' : Heap α} {b : Nat} {p : Obj α} (hp : Valid H p) (h : Frame H H' b) (hne : p.buf ≠ b) :
    Valid H' p ∧ p.view H' = p.view H := by
  have hg := h.2 p.buf hp.1 hne
  exact ⟨⟨Nat.lt_of_lt_of_le hp.1 h.1, by rw [hg]; exact hp.2⟩, by simp [Obj.view, hg]⟩

theorem Valid.ext {H H' : Heap α} {p : Obj α} (hp : Valid H p) (h : Ext H H') : Valid H' p ∧ p.view H' = p.view H := by
  have hg := h.2 p.buf hp.1
  exact ⟨⟨Nat.lt_of_lt_of_le hp.1 h.1, by rw [hg]; exact hp.2⟩, by simp [Obj.view, hg]⟩

theorem Valid.view_length {H : Heap α} {p : Obj α} (hp : Valid H p) : (p.view H).length = p.len := by
  simp only [Obj.view, List.length_take]
  exact Nat.min_eq_left hp.2

/-! ### owned mutation -/

/-- a mutation of `o`: see the head of the file -/
structure Trans (H H' : Heap α) (o o' : Obj α) (m' : List α) : Prop where
  impl : o'.impl = o.impl
  view : o'.view H' = m'
  valid : Valid H' o'
  buf : o'.buf = o.buf ∨ H.size ≤ o'.buf
  frame : Frame H H' o.buf

theorem Trans.abs {H H' : Heap α} {o o' : Obj α} {m' : List α} (h : Trans H H' o o' m') :
    o'.abs H' = ⟨o.impl, m'⟩ := by
  simp [Obj.abs, h.impl, h.view]

theorem Trans.refl {H : Heap α} {o : Obj α} (hv : Valid H o) : Trans H H o o (o.view H) :=
  ⟨rfl, rfl, hv, .inl rfl, Frame.refl H o.buf⟩

theorem Trans.trans {H₁ H₂ H₃ : Heap α} {o₁ o₂ o₃ : Obj α} {m₂ m₃ : List α}
    (h₁ : Trans H₁ H₂ o₁ o₂ m₂) (h₂ : Trans H₂ H₃ o₂ o₃ m₃) : Trans H₁ H₃ o₁ o₃ m₃ := by
  refine ⟨h₂.impl.trans h₁.impl, h₂.view, h₂.valid, ?_, h₁.frame.trans h₂.frame h₁.buf⟩
  rcases h₂.buf with h | h
  · rw [h]; exact h₁.buf
  · exact .inr (Nat.le_trans h₁.frame.1 h)

/-- an extension first, then a mutation -/
theorem Trans.of_ext {H₁ H₂ H₃ : Heap α} {o o' : Obj α} {m' : List α} (he : Ext H₁ H₂) (h : Trans H₂ H₃ o o' m') :
    Trans H₁ H₃ o o' m' := by
  refine ⟨h.impl, h.view, h.valid, ?_, (he.frame o.buf).trans h.frame (.inl rfl)⟩
  rcases h.buf with hb | hb
  · exact .inl hb
  · exact .inr (Nat.le_trans he.1 hb)

/-- other valid objects are untouched by a mutation of `o` and stay apart from it -/
theorem Trans.other {H H' : Heap α} {o o' p : Obj α} {m' : List α} (h : Trans H H' o o' m') (hp : Valid H p)
    (hne : p.buf ≠ o.buf) : Valid H' p ∧ p.view H' = p.view H ∧ p.buf ≠ o'.buf := by
  obtain ⟨hv, hview⟩ := hp.frame h.frame hne
  refine ⟨hv, hview, ?_⟩
  rcases h.buf with hb | hb
  · rw [hb]; exact hne
  · have := hp.1; omega

theorem store_trans (H : Heap α) (o : Obj α) (m' pad : List α) (hv : Valid H o) :
    Trans H (o.store H m' pad).1 o (o.store H m' pad).2 m' := by
  unfold Obj.store
  simp only
  split
  · rename_i hfit
    refine ⟨rfl, ?_, ⟨by rw [size_set]; exact hv.1, ?_⟩, .inl rfl, ⟨by rw [size_set]; exact Nat.le_refl _, ?_⟩⟩
    · simp only [Obj.view, get_set_eq H _ hv.1]
      exact List.take_left' rfl
    · simp only [get_set_eq H _ hv.1, List.length_append, List.length_drop]
      omega
    · intro c _ hc
      exact get_set_ne H _ hc
  · have hext := alloc_ext H (m' ++ pad)
    refine ⟨rfl, ?_, ⟨?_, ?_⟩, .inr (Nat.le_refl _), hext.frame _⟩
    · simp only [Obj.view, alloc_id, get_alloc_new]
      exact List.take_left' rfl
    · simp only [alloc_id, size_alloc]; omega
    · simp only [alloc_id, get_alloc_new, List.length_append]; omega

/-- a new object: it holds `m`, lives in a new array, and nothing that existed changed -/
theorem fresh_spec (H : Heap α) (impl : Impl α) (m pad : List α) :
    (Obj.fresh H impl m pad).2.impl = impl ∧ (Obj.fresh H impl m pad).2.view (Obj.fresh H impl m pad).1 = m ∧
    Valid (Obj.fresh H impl m pad).1 (Obj.fresh H impl m pad).2 ∧ (Obj.fresh H impl m pad).2.buf = H.size ∧
    Ext H (Obj.fresh H impl m pad).1 := by
  unfold Obj.fresh
  simp only
  refine ⟨by first | rfl | trivial, ?_, ⟨?_, ?_⟩, by first | rfl | trivial, alloc_ext H _⟩
  · simp only [Obj.view, alloc_id, get_alloc_new]
    exact List.take_left' rfl
  · simp only [alloc_id, size_alloc]; omega
  · simp only [alloc_id, get_alloc_new, List.length_append]; omega

/-! ### what one round of the functional `Add` / `Remove` can return (no assumption on the set) -/

theorem add1_shape {s s' : MSet α} {v : α} (h : s.add1 v = .ok s') :
    s'.impl = s.impl ∧ (s' = s ∨ s'.members.length = s.members.length + 1) := by
  obtain ⟨impl, members⟩ := s
  cases impl with
  | unordered eq =>
    simp only [MSet.add1] at h
    obtain ⟨b, _, h'⟩ := bind_eq_ok h
    cases b <;> simp only [Bool.not_false, Bool.not_true, ↓reduceIte, Bool.false_eq_true, pure_eq_ok] at h' <;>
      cases h' <;> simp
  | stable eq =>
    simp only [MSet.add1] at h
    obtain ⟨b, _, h'⟩ := bind_eq_ok h
    cases b <;> simp only [Bool.not_false, Bool.not_true, ↓reduceIte, Bool.false_eq_true, pure_eq_ok] at h' <;>
      cases h' <;> simp
  | sorted cmp =>
    simp only [MSet.add1] at h
    obtain ⟨pos, _, h'⟩ := bind_eq_ok h
    cases pos with
    | none => simp only [pure_eq_ok] at h'; cases h'; simp
    | some low =>
      simp only at h'
      split at h'
      · rename_i hlow
        simp only [pure_eq_ok] at h'
        cases h'
        refine ⟨rfl, .inr ?_⟩
        simp only [List.length_append, List.length_cons, List.length_take, List.length_drop]
        omega
      · cases h'

theorem remove1_shape {s s' : MSet α} {v : α} (h : s.remove1 v = .ok s') :
    s'.impl = s.impl ∧ (s' = s ∨ s'.members.length + 1 = s.members.length) := by
  unfold MSet.remove1 at h
  obtain ⟨i, _, h'⟩ := bind_eq_ok h
  split at h'
  · split at h'
    · rename_i hi
      simp only [pure_eq_ok] at h'
      cases h'
      refine ⟨rfl, .inr ?_⟩
      simp only [List.length_append, List.length_take, List.length_drop]
      omega
    · cases h'
  · simp only [pure_eq_ok] at h'; cases h'; exact ⟨rfl, .inl rfl⟩

/-! ### Add / Remove on the heap -/

theorem add1_trans (grow : Nat → Nat) {H : Heap α} {o : Obj α} {v : α} {s' : MSet α} (hv : Valid H o)
    (h : (o.abs H).add1 v = .ok s') : ∃ H' o', add1 grow H o v = .ok (H', o') ∧ Trans H H' o o' s'.members := by
  obtain ⟨_, hshape⟩ := add1_shape h
  unfold add1
  simp only [h, ok_bind]
  by_cases hlen : s'.members.length = (o.view H).length
  · have hs : s' = o.abs H := by
      rcases hshape with hs | hs
      · exact hs
      · simp only [Obj.abs] at hs; omega
    refine ⟨H, o, by simp [hlen], ?_⟩
    rw [hs]
    exact Trans.refl hv
  · simp only [hlen, ↓reduceIte, pure_eq_ok]
    obtain ⟨impl, buf, len⟩ := o
    cases impl with
    | sorted c =>
      exact ⟨_, _, rfl, Trans.of_ext (alloc_ext H [v]) (store_trans _ _ _ _ (hv.ext (alloc_ext H [v])).1)⟩
    | unordered e => exact ⟨_, _, rfl, store_trans H _ _ _ hv⟩
    | stable e => exact ⟨_, _, rfl, store_trans H _ _ _ hv⟩

theorem remove1_trans {H : Heap α} {o : Obj α} {v : α} {s' : MSet α} (hv : Valid H o)
    (h : (o.abs H).remove1 v = .ok s') : ∃ H' o', remove1 H o v = .ok (H', o') ∧ Trans H H' o o' s'.members := by
  obtain ⟨_, hshape⟩ := remove1_shape h
  unfold remove1
  simp only [h, ok_bind]
  by_cases hlen : s'.members.length = (o.view H).length
  · have hs : s' = o.abs H := by
      rcases hshape with hs | hs
      · exact hs
      · simp only [Obj.abs] at hs; omega
    refine ⟨H, o, by simp [hlen], ?_⟩
    rw [hs]
    exact Trans.refl hv
  · simp only [hlen, ↓reduceIte, pure_eq_ok]
    exact ⟨_, _, rfl, store_trans H o _ _ hv⟩

theorem abs_of_trans {H H' : Heap α} {o o' : Obj α} {s' : MSet α} (ht : Trans H H' o o' s'.members)
    (hi : s'.impl = o.impl) : o'.abs H' = s' := by
  rw [ht.abs]
  cases s'
  simp only at hi
  simp [hi]

theorem add_impl : ∀ (vs : List α) {s s' : MSet α}, s.add vs = .ok s' → s'.impl = s.impl
  | [], s, s', h => by cases h; rfl
  | v :: vs, s, s', h => by
    simp only [MSet.add] at h
    obtain ⟨s₁, h₁, h₂⟩ := bind_eq_ok h
    exact (add_impl vs h₂).trans (add1_shape h₁).1

theorem remove_impl : ∀ (vs : List α) {s s' : MSet α}, s.remove vs = .ok s' → s'.impl = s.impl
  | [], s, s', h => by cases h; rfl
  | v :: vs, s, s', h => by
    simp only [MSet.remove] at h
    obtain ⟨s₁, h₁, h₂⟩ := bind_eq_ok h
    exact (remove_impl vs h₂).trans (remove1_shape h₁).1

theorem add_trans (grow : Nat → Nat) : ∀ (vs : List α) {H : Heap α} {o : Obj α} {s' : MSet α}, Valid H o →
    (o.abs H).add vs = .ok s' → ∃ H' o', add grow H o vs = .ok (H', o') ∧ Trans H H' o o' s'.members
  | [], H, o, s', hv, h => by
    cases h
    exact ⟨H, o, rfl, Trans.refl hv⟩
  | v :: vs, H, o, s', hv, h => by
    simp only [MSet.add] at h
    obtain ⟨s₁, h₁, h₂⟩ := bind_eq_ok h
    obtain ⟨H₁, o₁, e₁, t₁⟩ := add1_trans grow hv h₁
    have habs := abs_of_trans t₁ (add1_shape h₁).1
    obtain ⟨H₂, o₂, e₂, t₂⟩ := add_trans grow vs t₁.valid (by rw [habs]; exact h₂)
    exact ⟨H₂, o₂, by simp [add, e₁, e₂], t₁.trans t₂⟩

theorem remove_trans : ∀ (vs : List α) {H : Heap α} {o : Obj α} {s' : MSet α}, Valid H o →
    (o.abs H).remove vs = .ok s' → ∃ H' o', remove H o vs = .ok (H', o') ∧ Trans H H' o o' s'.members
  | [], H, o, s', hv, h => by
    cases h
    exact ⟨H, o, rfl, Trans.refl hv⟩
  | v :: vs, H, o, s', hv, h => by
    simp only [MSet.remove] at h
    obtain ⟨s₁, h₁, h₂⟩ := bind_eq_ok h
    obtain ⟨H₁, o₁, e₁, t₁⟩ := remove1_trans hv h₁
    have habs := abs_of_trans t₁ (remove1_shape h₁).1
    obtain ⟨H₂, o₂, e₂, t₂⟩ := remove_trans vs t₁.valid (by rw [habs]; exact h₂)
    exact ⟨H₂, o₂, by simp [remove, e₁, e₂], t₁.trans t₂⟩

theorem addEach_impl : ∀ (ms : List α) {s s' : MSet α}, C16.addEach s ms = .ok s' → s'.impl = s.impl
  | [], s, s', h => by cases h; rfl
  | m :: ms, s, s', h => by
    simp only [C16.addEach] at h
    obtain ⟨s₁, h₁, h₂⟩ := bind_eq_ok h
    exact (addEach_impl ms h₂).trans (add_impl [m] h₁)

theorem removeEach_impl : ∀ (ms : List α) {s s' : MSet α}, C16.removeEach s ms = .ok s' → s'.impl = s.impl
  | [], s, s', h => by cases h; rfl
  | m :: ms, s, s', h => by
    simp only [C16.removeEach] at h
    obtain ⟨s₁, h₁, h₂⟩ := bind_eq_ok h
    exact (removeEach_impl ms h₂).trans (remove_impl [m] h₁)

theorem addEach_trans (grow : Nat → Nat) : ∀ (ms : List α) {H : Heap α} {t : Obj α} {r : MSet α}, Valid H t →
    C16.addEach (t.abs H) ms = .ok r → ∃ H' t', addEach grow H t ms = .ok (H', t') ∧ Trans H H' t t' r.members
  | [], H, t, r, hv, h => by
    cases h
    exact ⟨H, t, rfl, Trans.refl hv⟩
  | m :: ms, H, t, r, hv, h => by
    simp only [C16.addEach] at h
    obtain ⟨s₁, h₁, h₂⟩ := bind_eq_ok h
    obtain ⟨H₁, t₁, e₁, tr₁⟩ := add_trans grow [m] hv h₁
    have habs := abs_of_trans tr₁ (add_impl [m] h₁)
    obtain ⟨H₂, t₂, e₂, tr₂⟩ := addEach_trans grow ms tr₁.valid (by rw [habs]; exact h₂)
    exact ⟨H₂, t₂, by simp [addEach, e₁, e₂], tr₁.trans tr₂⟩

theorem removeEach_trans : ∀ (ms : List α) {H : Heap α} {t : Obj α} {r : MSet α}, Valid H t →
    C16.removeEach (t.abs H) ms = .ok r → ∃ H' t', removeEach H t ms = .ok (H', t') ∧ Trans H H' t t' r.members
  | [], H, t, r, hv, h => by
    cases h
    exact ⟨H, t, rfl, Trans.refl hv⟩
  | m :: ms, H, t, r, hv, h => by
    simp only [C16.removeEach] at h
    obtain ⟨s₁, h₁, h₂⟩ := bind_eq_ok h
    obtain ⟨H₁, t₁, e₁, tr₁⟩ := remove_trans [m] hv h₁
    have habs := abs_of_trans tr₁ (remove_impl [m] h₁)
    obtain ⟨H₂, t₂, e₂, tr₂⟩ := removeEach_trans ms tr₁.valid (by rw [habs]; exact h₂)
    exact ⟨H₂, t₂, by simp [removeEach, e₁, e₂], tr₁.trans tr₂⟩

/-! ### the loops of the set algebra: the working copy lives at or above `base`, the operands below -/

/-- nothing below `base` changed -/
def Below (base : Nat) (H H' : Heap α) : Prop := H.size ≤ H'.size ∧ ∀ c, c < base → H'.get c = H.get c

theorem Below.refl (base : Nat) (H : Heap α) : Below base H H := ⟨Nat.le_refl _, fun _ _ => rfl⟩

theorem Below.trans {base : Nat} {H₁ H₂ H₃ : Heap α} (h₁ : Below base H₁ H₂) (h₂ : Below base H₂ H₃) :
    Below base H₁ H₃ := ⟨Nat.le_trans h₁.1 h₂.1, fun c hc => (h₂.2 c hc).trans (h₁.2 c hc)⟩

theorem Trans.below {base : Nat} {H H' : Heap α} {o o' : Obj α} {m' : List α} (h : Trans H H' o o' m')
    (hb : base ≤ o.buf) (hs : base ≤ H.size) : Below base H H' ∧ base ≤ o'.buf := by
  refine ⟨⟨h.frame.1, fun c hc => h.frame.2 c (by omega) (by omega)⟩, ?_⟩
  rcases h.buf with hb' | hb'
  · rw [hb']; exact hb
  · omega

theorem Valid.below {base : Nat} {H H' : Heap α} {p : Obj α} (hp : Valid H p) (hb : p.buf < base) (h : Below base H H') :
    Valid H' p ∧ p.abs H' = p.abs H := by
  have hg := h.2 p.buf hb
  exact ⟨⟨Nat.lt_of_lt_of_le hp.1 h.1, by rw [hg]; exact hp.2⟩, by simp [Obj.abs, Obj.view, hg]⟩

theorem map_abs_below {base : Nat} {H H' : Heap α} {us : List (Obj α)} (hus : ∀ u ∈ us, Valid H u ∧ u.buf < base)
    (h : Below base H H') : us.map (Obj.abs H') = us.map (Obj.abs H) ∧ ∀ u ∈ us, Valid H' u ∧ u.buf < base := by
  refine ⟨List.map_congr_left (fun u hu => ((hus u hu).1.below (hus u hu).2 h).2), fun u hu => ?_⟩
  exact ⟨((hus u hu).1.below (hus u hu).2 h).1, (hus u hu).2⟩

theorem unionLoop_sim (sh : Shuffle σ) (grow : Nat → Nat) (base : Nat) : ∀ (us : List (Obj α)) (H : Heap α) (t : Obj α)
    (g : σ) (r : MSet α) (g' : σ), Valid H t → base ≤ t.buf → base ≤ H.size → (∀ u ∈ us, Valid H u ∧ u.buf < base) →
    C16.unionLoop sh (t.abs H) (us.map (Obj.abs H)) g = .ok (r, g') →
    ∃ H' t', unionLoop sh grow H t us g = .ok (H', t', g') ∧ t'.abs H' = r ∧ Valid H' t' ∧ base ≤ t'.buf ∧ Below base H H'
  | [], H, t, g, r, g', hv, hb, _, _, h => by
    cases h
    exact ⟨H, t, rfl, rfl, hv, hb, Below.refl _ _⟩
  | u :: us, H, t, g, r, g', hv, hb, hs, hus, h => by
    simp only [List.map_cons, C16.unionLoop] at h
    obtain ⟨⟨ms, g₁⟩, h₁, h₂⟩ := bind_eq_ok h
    obtain ⟨s₁, h₃, h₄⟩ := bind_eq_ok h₂
    obtain ⟨H₁, t₁, e₁, tr₁⟩ := addEach_trans grow ms hv h₃
    have habs := abs_of_trans tr₁ (addEach_impl ms h₃)
    obtain ⟨hbel, hb₁⟩ := tr₁.below hb hs
    obtain ⟨hmap, hus'⟩ := map_abs_below (fun w hw => hus w (List.mem_cons_of_mem _ hw)) hbel
    obtain ⟨H₂, t₂, e₂, ha₂, hv₂, hb₂, hbel₂⟩ := unionLoop_sim sh grow base us H₁ t₁ g₁ r g' tr₁.valid hb₁
      (Nat.le_trans hs hbel.1) hus' (by rw [habs, hmap]; exact h₄)
    exact ⟨H₂, t₂, by simp [unionLoop, h₁, e₁, e₂], ha₂, hv₂, hb₂, hbel.trans hbel₂⟩

theorem diffLoop_sim (sh : Shuffle σ) (base : Nat) : ∀ (us : List (Obj α)) (H : Heap α) (t : Obj α)
    (g : σ) (r : MSet α) (g' : σ), Valid H t → base ≤ t.buf → base ≤ H.size → (∀ u ∈ us, Valid H u ∧ u.buf < base) →
    C16.diffLoop sh (t.abs H) (us.map (Obj.abs H)) g = .ok (r, g') →
    ∃ H' t', diffLoop sh H t us g = .ok (H', t', g') ∧ t'.abs H' = r ∧ Valid H' t' ∧ base ≤ t'.buf ∧ Below base H H'
  | [], H, t, g, r, g', hv, hb, _, _, h => by
    cases h
    exact ⟨H, t, rfl, rfl, hv, hb, Below.refl _ _⟩
  | u :: us, H, t, g, r, g', hv, hb, hs, hus, h => by
    simp only [List.map_cons, C16.diffLoop] at h
    obtain ⟨⟨ms, g₁⟩, h₁, h₂⟩ := bind_eq_ok h
    obtain ⟨s₁, h₃, h₄⟩ := bind_eq_ok h₂
    obtain ⟨H₁, t₁, e₁, tr₁⟩ := removeEach_trans ms hv h₃
    have habs := abs_of_trans tr₁ (removeEach_impl ms h₃)
    obtain ⟨hbel, hb₁⟩ := tr₁.below hb hs
    obtain ⟨hmap, hus'⟩ := map_abs_below (fun w hw => hus w (List.mem_cons_of_mem _ hw)) hbel
    obtain ⟨H₂, t₂, e₂, ha₂, hv₂, hb₂, hbel₂⟩ := diffLoop_sim sh base us H₁ t₁ g₁ r g' tr₁.valid hb₁
      (Nat.le_trans hs hbel.1) hus' (by rw [habs, hmap]; exact h₄)
    exact ⟨H₂, t₂, by simp [diffLoop, h₁, e₁, e₂], ha₂, hv₂, hb₂, hbel.trans hbel₂⟩

theorem interLoop_sim (grow : Nat → Nat) (base : Nat) (sets : List (Obj α)) : ∀ (ms : List α) (H : Heap α) (t : Obj α)
    (r : MSet α), Valid H t → base ≤ t.buf → base ≤ H.size → (∀ u ∈ sets, Valid H u ∧ u.buf < base) →
    C16.interLoop (sets.map (Obj.abs H)) (t.abs H) ms = .ok r →
    ∃ H' t', interLoop grow sets H t ms = .ok (H', t') ∧ t'.abs H' = r ∧ Valid H' t' ∧ base ≤ t'.buf ∧ Below base H H'
  | [], H, t, r, hv, hb, _, _, h => by
    cases h
    exact ⟨H, t, rfl, rfl, hv, hb, Below.refl _ _⟩
  | m :: ms, H, t, r, hv, hb, hs, hus, h => by
    simp only [C16.interLoop] at h
    obtain ⟨b, h₁, h₂⟩ := bind_eq_ok h
    cases b with
    | false =>
      simp only [Bool.false_eq_true, ↓reduceIte] at h₂
      obtain ⟨H₂, t₂, e₂, rest⟩ := interLoop_sim grow base sets ms H t r hv hb hs hus h₂
      exact ⟨H₂, t₂, by simp [interLoop, h₁, e₂], rest⟩
    | true =>
      simp only [↓reduceIte] at h₂
      obtain ⟨s₁, h₃, h₄⟩ := bind_eq_ok h₂
      obtain ⟨H₁, t₁, e₁, tr₁⟩ := add_trans grow [m] hv h₃
      have habs := abs_of_trans tr₁ (add_impl [m] h₃)
      obtain ⟨hbel, hb₁⟩ := tr₁.below hb hs
      obtain ⟨hmap, hus'⟩ := map_abs_below hus hbel
      obtain ⟨H₂, t₂, e₂, ha₂, hv₂, hb₂, hbel₂⟩ := interLoop_sim grow base sets ms H₁ t₁ r tr₁.valid hb₁
        (Nat.le_trans hs hbel.1) hus' (by rw [habs, hmap]; exact h₄)
      exact ⟨H₂, t₂, by simp [interLoop, h₁, e₁, e₂], ha₂, hv₂, hb₂, hbel.trans hbel₂⟩

/-- the interleaved loop of `PartitionMatch` on two different new objects -/
theorem partitionLoop_sim (grow : Nat → Nat) (p : α → Bool) (base : Nat) : ∀ (ms : List α) (H : Heap α) (t u : Obj α)
    (rt ru : MSet α), Valid H t → Valid H u → t.buf ≠ u.buf → base ≤ t.buf → base ≤ u.buf → base ≤ H.size →
    C16.partitionLoop p (t.abs H) (u.abs H) ms = .ok (rt, ru) →
    ∃ H' t' u', partitionLoop grow p H t u ms = .ok (H', t', u') ∧ t'.abs H' = rt ∧ u'.abs H' = ru ∧
      Valid H' t' ∧ Valid H' u' ∧ t'.buf ≠ u'.buf ∧ base ≤ t'.buf ∧ base ≤ u'.buf ∧ Below base H H'
  | [], H, t, u, rt, ru, hvt, hvu, hne, hbt, hbu, _, h => by
    cases h
    exact ⟨H, t, u, rfl, rfl, rfl, hvt, hvu, hne, hbt, hbu, Below.refl _ _⟩
  | m :: ms, H, t, u, rt, ru, hvt, hvu, hne, hbt, hbu, hs, h => by
    simp only [C16.partitionLoop] at h
    cases hp : p m with
    | true =>
      simp only [hp, ↓reduceIte] at h
      obtain ⟨s₁, h₃, h₄⟩ := bind_eq_ok h
      obtain ⟨H₁, t₁, e₁, tr₁⟩ := add_trans grow [m] hvt h₃
      have habs := abs_of_trans tr₁ (add_impl [m] h₃)
      obtain ⟨hbel, hb₁⟩ := tr₁.below hbt hs
      obtain ⟨hvu₁, hview, hne₁⟩ := tr₁.other hvu (fun e => hne e.symm)
      have habsu : u.abs H₁ = u.abs H := by simp [Obj.abs, hview]
      obtain ⟨H₂, t₂, u₂, e₂, rest⟩ := partitionLoop_sim grow p base ms H₁ t₁ u rt ru tr₁.valid hvu₁
        (fun e => hne₁ e.symm) hb₁ hbu (Nat.le_trans hs hbel.1) (by rw [habs, habsu]; exact h₄)
      obtain ⟨ha, hb, hv₁, hv₂, hn, hbt₂, hbu₂, hbel₂⟩ := rest
      exact ⟨H₂, t₂, u₂, by simp [partitionLoop, hp, e₁, e₂], ha, hb, hv₁, hv₂, hn, hbt₂, hbu₂, hbel.trans hbel₂⟩
    | false =>
      simp only [hp, Bool.false_eq_true, ↓reduceIte] at h
      obtain ⟨s₁, h₃, h₄⟩ := bind_eq_ok h
      obtain ⟨H₁, u₁, e₁, tr₁⟩ := add_trans grow [m] hvu h₃
      have habs := abs_of_trans tr₁ (add_impl [m] h₃)
      obtain ⟨hbel, hb₁⟩ := tr₁.below hbu hs
      obtain ⟨hvt₁, hview, hne₁⟩ := tr₁.other hvt hne
      have habst : t.abs H₁ = t.abs H := by simp [Obj.abs, hview]
      obtain ⟨H₂, t₂, u₂, e₂, rest⟩ := partitionLoop_sim grow p base ms H₁ t u₁ rt ru hvt₁ tr₁.valid
        hne₁ hbt hb₁ (Nat.le_trans hs hbel.1) (by rw [habs, habst]; exact h₄)
      obtain ⟨ha, hb, hv₁, hv₂, hn, hbt₂, hbu₂, hbel₂⟩ := rest
      exact ⟨H₂, t₂, u₂, by simp [partitionLoop, hp, e₁, e₂], ha, hb, hv₁, hv₂, hn, hbt₂, hbu₂, hbel.trans hbel₂⟩

theorem selectLoop_sim (grow : Nat → Nat) (p : α → Bool) (base : Nat) : ∀ (ms : List α) (H : Heap α) (t : Obj α)
    (r : MSet α), Valid H t → base ≤ t.buf → base ≤ H.size →
    C16.selectLoop p (t.abs H) ms = .ok r →
    ∃ H' t', selectLoop grow p H t ms = .ok (H', t') ∧ t'.abs H' = r ∧ Valid H' t' ∧ base ≤ t'.buf ∧ Below base H H'
  | [], H, t, r, hv, hb, _, h => by
    cases h
    exact ⟨H, t, rfl, rfl, hv, hb, Below.refl _ _⟩
  | m :: ms, H, t, r, hv, hb, hs, h => by
    simp only [C16.selectLoop] at h
    cases hp : p m with
    | false =>
      simp only [hp, Bool.false_eq_true, ↓reduceIte] at h
      obtain ⟨H₂, t₂, e₂, rest⟩ := selectLoop_sim grow p base ms H t r hv hb hs h
      exact ⟨H₂, t₂, by simp [selectLoop, hp, e₂], rest⟩
    | true =>
      simp only [hp, ↓reduceIte] at h
      obtain ⟨s₁, h₃, h₄⟩ := bind_eq_ok h
      obtain ⟨H₁, t₁, e₁, tr₁⟩ := add_trans grow [m] hv h₃
      have habs := abs_of_trans tr₁ (add_impl [m] h₃)
      obtain ⟨hbel, hb₁⟩ := tr₁.below hb hs
      obtain ⟨H₂, t₂, e₂, ha₂, hv₂, hb₂, hbel₂⟩ := selectLoop_sim grow p base ms H₁ t₁ r tr₁.valid hb₁
        (Nat.le_trans hs hbel.1) (by rw [habs]; exact h₄)
      exact ⟨H₂, t₂, by simp [selectLoop, hp, e₁, e₂], ha₂, hv₂, hb₂, hbel.trans hbel₂⟩

end AlgoVerif.C16.Hp
