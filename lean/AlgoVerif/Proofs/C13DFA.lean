import AlgoVerif.Proofs.C13Closure
/-! C13: the transition function of the DFA model, `Accept`, well-formedness (sorted keys, which every
automaton built through `New…`/`Add` has), `ToNFA`, `Clone`. -/
namespace AlgoVerif.C13
open AlgoVerif AlgoVerif.C13.Spec

def DFA.lang (d : DFA) : Lang := dfaLang d.δ d.start (fun f => f ∈ d.final)

theorem DFA.next_eq (d : DFA) (s a : Int) : d.next s a = (d.δ s a).getD (-1) := by
  simp only [DFA.next, DFA.δ]; cases aget s d.trans <;> simp

theorem DFA.δ_add (d : DFA) (s a t s' a' : Int) :
    (d.add s a t).δ s' a' = if s' = s ∧ a' = a then some t else d.δ s' a' := by
  simp only [DFA.add, DFA.δ, aget_aput]
  by_cases hs : s' = s
  · subst hs
    simp only [true_and, if_true, aget_aput]
    by_cases ha : a' = a
    · simp [ha]
    · simp [ha]; cases aget s' d.trans <;> simp [aget]
  · simp [hs]

@[simp] theorem DFA.start_add (d : DFA) (s a t : Int) : (d.add s a t).start = d.start := rfl
@[simp] theorem DFA.final_add (d : DFA) (s a t : Int) : (d.add s a t).final = d.final := rfl

/-- `-1` (the "invalid state" `Next` returns) is not used as a state id -/
def DFA.Proper (d : DFA) : Prop := (-1 : Int) ∉ d.final ∧ ∀ a, d.δ (-1) a = none

theorem DFA.foldl_next (d : DFA) (hp : ∀ a, d.δ (-1) a = none) (s : Int) (w : Word) :
    w.foldl d.next s = (dfaRun d.δ (some s) w).getD (-1) := by
  induction w generalizing s with
  | nil => simp [dfaRun]
  | cons a w ih =>
    simp only [List.foldl_cons, dfaRun]
    rw [ih, d.next_eq]
    cases h : d.δ s a with
    | some t => simp
    | none =>
      simp
      -- from -1 the run stays undefined
      have : ∀ w, (dfaRun d.δ (some (-1)) w).getD (-1) = -1 := by
        intro w
        induction w with
        | nil => simp [dfaRun]
        | cons b w _ => simp [dfaRun, hp]; cases w <;> simp [dfaRun]
      rw [this]; cases w <;> simp [dfaRun]

/-- `Accept` of a proper DFA decides its language -/
theorem DFA.accept_spec (d : DFA) (hp : d.Proper) (w : Word) : d.accept w = true ↔ d.lang w := by
  simp only [DFA.accept, DFA.lang, dfaLang, d.foldl_next hp.2]
  cases h : dfaRun d.δ (some d.start) w with
  | none => simp; exact hp.1
  | some f => simp

/-! ### well-formed tables -/

def NFA.WF (n : NFA) : Prop := ASorted n.trans ∧ ∀ st ∈ n.trans, ASorted st.2
def DFA.WF (d : DFA) : Prop := ASorted d.trans ∧ ∀ st ∈ d.trans, ASorted st.2

theorem mem_aput {β : Type} {k : Int} {v : β} {l : List (Int × β)} {p : Int × β} (h : p ∈ aput k v l) :
    p = (k, v) ∨ p ∈ l := by
  induction l with
  | nil => simp [aput] at h; left; exact h
  | cons q r ih =>
    obtain ⟨k', v'⟩ := q
    unfold aput at h
    split at h
    · simp at h; rcases h with h | h | h
      · left; exact h
      · right; simp [h]
      · right; simp [h]
    · split at h
      · simp at h; rcases h with h | h
        · left; exact h
        · right; simp [h]
      · simp at h; rcases h with h | h
        · right; simp [h]
        · rcases ih h with h' | h'
          · left; exact h'
          · right; simp [h']

theorem NFA.WF_new (s : Int) (f : List Int) : (NFA.new s f).WF := by
  simp [NFA.WF, NFA.new, ASorted]

theorem DFA.WF_new (s : Int) (f : List Int) : (DFA.new s f).WF := by
  simp [DFA.WF, DFA.new, ASorted]

theorem NFA.WF_add {n : NFA} (h : n.WF) (s a : Int) (nx : List Int) : (n.add s a nx).WF := by
  refine ⟨asorted_aput h.1, ?_⟩
  intro st hst
  rcases mem_aput hst with rfl | h'
  · apply asorted_aput
    cases hg : aget s n.trans with
    | none => simp [ASorted]
    | some v => exact h.2 _ (aget_mem hg)
  · exact h.2 st h'

theorem DFA.WF_add {d : DFA} (h : d.WF) (s a t : Int) : (d.add s a t).WF := by
  refine ⟨asorted_aput h.1, ?_⟩
  intro st hst
  rcases mem_aput hst with rfl | h'
  · apply asorted_aput
    cases hg : aget s d.trans with
    | none => simp [ASorted]
    | some v => exact h.2 _ (aget_mem hg)
  · exact h.2 st h'

/-- the entries `(s, a, x)` of a two-level table, in iteration order -/
def entries {β : Type} (tr : List (Int × List (Int × β))) : List (Int × Int × β) :=
  tr.flatMap (fun st => st.2.map (fun e => (st.1, e.1, e.2)))

theorem foldl_nested {β γ : Type} (tr : List (Int × List (Int × β))) (g : γ → Int → Int → β → γ) (init : γ) :
    tr.foldl (fun acc st => st.2.foldl (fun acc e => g acc st.1 e.1 e.2) acc) init
      = (entries tr).foldl (fun acc e => g acc e.1 e.2.1 e.2.2) init := by
  induction tr generalizing init with
  | nil => simp [entries]
  | cons st tr ih =>
    simp only [List.foldl_cons, entries, List.flatMap_cons, List.foldl_append]
    rw [ih]
    congr 1
    simp [List.foldl_map]

theorem mem_entries_NFA {n : NFA} (h : n.WF) (s a : Int) (nx : List Int) :
    (s, a, nx) ∈ entries n.trans ↔ n.next s a = some nx := by
  simp only [entries, List.mem_flatMap, List.mem_map, NFA.next]
  constructor
  · rintro ⟨st, hst, e, he, heq⟩
    simp at heq
    obtain ⟨rfl, rfl, rfl⟩ := heq
    have := (mem_iff_aget h.1 st.1 st.2).1 hst
    rw [this]
    exact (mem_iff_aget (h.2 st hst) e.1 e.2).1 he
  · intro hh
    split at hh
    · rename_i st hst
      exact ⟨(s, st), aget_mem hst, (a, nx), aget_mem hh, rfl⟩
    · simp at hh

theorem mem_entries_DFA {d : DFA} (h : d.WF) (s a t : Int) :
    (s, a, t) ∈ entries d.trans ↔ d.δ s a = some t := by
  simp only [entries, List.mem_flatMap, List.mem_map, DFA.δ]
  constructor
  · rintro ⟨st, hst, e, he, heq⟩
    simp at heq
    obtain ⟨rfl, rfl, rfl⟩ := heq
    have := (mem_iff_aget h.1 st.1 st.2).1 hst
    rw [this]
    exact (mem_iff_aget (h.2 st hst) e.1 e.2).1 he
  · intro hh
    split at hh
    · rename_i st hst
      exact ⟨(s, st), aget_mem hst, (a, t), aget_mem hh, rfl⟩
    · simp at hh

/-- adding a list of entries to an NFA -/
theorem NFA.Δ_foldl_add (L : List (Int × Int × List Int)) (n0 : NFA) (s a t : Int) :
    (L.foldl (fun acc e => acc.add e.1 e.2.1 e.2.2) n0).Δ s a t ↔
      n0.Δ s a t ∨ ∃ nx, (s, a, nx) ∈ L ∧ t ∈ nx := by
  induction L generalizing n0 with
  | nil => simp
  | cons e L ih =>
    simp only [List.foldl_cons]
    rw [ih, NFA.Δ_add]
    obtain ⟨s1, a1, nx1⟩ := e
    simp
    constructor
    · rintro ((h | h) | h)
      · left; exact h
      · right; exact ⟨nx1, Or.inl ⟨h.1, h.2.1, rfl⟩, h.2.2⟩
      · obtain ⟨nx, h1, h2⟩ := h; right; exact ⟨nx, Or.inr h1, h2⟩
    · rintro (h | ⟨nx, h1 | h1, h2⟩)
      · left; left; exact h
      · obtain ⟨rfl, rfl, rfl⟩ := h1; left; right; exact ⟨rfl, rfl, h2⟩
      · right; exact ⟨nx, h1, h2⟩

theorem NFA.start_foldl_add {α : Type} (L : List α) (f : α → Int × Int × List Int) (n0 : NFA) :
    (L.foldl (fun acc e => acc.add (f e).1 (f e).2.1 (f e).2.2) n0).start = n0.start ∧
    (L.foldl (fun acc e => acc.add (f e).1 (f e).2.1 (f e).2.2) n0).final = n0.final := by
  induction L generalizing n0 with
  | nil => simp
  | cons e L ih => simp only [List.foldl_cons]; rw [(ih _).1, (ih _).2]; simp

theorem NFA.empty_Δ (s f) (x a y : Int) : (NFA.mk s f []).Δ x a y ↔ False := by
  simp [NFA.Δ, NFA.next, aget]

/-! ### `ToNFA` -/

theorem DFA.toNFA_eq (d : DFA) : d.toNFA =
    ((entries d.trans).map (fun e => (e.1, e.2.1, [e.2.2]))).foldl (fun acc e => acc.add e.1 e.2.1 e.2.2) ⟨d.start, d.final, []⟩ := by
  simp only [DFA.toNFA]
  have h := foldl_nested (γ := NFA) d.trans (fun acc s a t => acc.add s a [t]) ⟨d.start, d.final, []⟩
  rw [h]
  simp [List.foldl_map]

theorem DFA.toNFA_Δ {d : DFA} (h : d.WF) (s a t : Int) : d.toNFA.Δ s a t ↔ d.δ s a = some t := by
  rw [d.toNFA_eq, NFA.Δ_foldl_add]
  simp only [NFA.empty_Δ, false_or, List.mem_map]
  constructor
  · rintro ⟨nx, ⟨e, he, heq⟩, ht⟩
    obtain ⟨s1, a1, t1⟩ := e
    simp at heq; obtain ⟨rfl, rfl, rfl⟩ := heq
    simp at ht; subst ht
    exact (mem_entries_DFA h _ _ _).1 he
  · intro hh
    exact ⟨[t], ⟨(s, a, t), (mem_entries_DFA h _ _ _).2 hh, rfl⟩, by simp⟩

theorem DFA.toNFA_start_final (d : DFA) : d.toNFA.start = d.start ∧ d.toNFA.final = d.final := by
  rw [d.toNFA_eq, List.foldl_map]
  exact NFA.start_foldl_add (entries d.trans) (fun e => (e.1, e.2.1, [e.2.2])) _

/-- a deterministic relation without ε-moves accepts exactly the DFA language -/
theorem nfaLang_of_deterministic (δN : Int → Int → Int → Prop) (δD : Int → Int → Option Int)
    (h : ∀ s a t, δN s a t ↔ δD s a = some t) (he : ∀ s, δD s Spec.eps = none)
    (start : Int) (final : Int → Prop) (w : Word) :
    nfaLang δN start final w ↔ dfaLang δD start final w := by
  have hreach : ∀ s t, EReach δN s t → s = t := by
    intro s t hr
    induction hr with
    | refl => rfl
    | step _ h2 ih => rw [h] at h2; rw [he] at h2; simp at h2
  have hpath : ∀ s t, Path δN s w t ↔ dfaRun δD (some s) w = some t := by
    induction w with
    | nil =>
      intro s t
      constructor
      · intro hp; cases hp with | eps hr => simp [dfaRun, hreach _ _ hr]
      · intro hh; simp [dfaRun] at hh; subst hh; exact Path.eps (EReach.refl _)
    | cons a w ih =>
      intro s t
      constructor
      · intro hp
        cases hp with
        | cons hr hd hp' =>
          have := hreach _ _ hr; subst this
          rw [h] at hd
          simp only [dfaRun, hd]
          exact (ih _ _).1 hp'
      · intro hh
        simp only [dfaRun] at hh
        cases hd : δD s a with
        | none => rw [hd] at hh; cases w <;> simp [dfaRun] at hh
        | some s2 =>
          rw [hd] at hh
          exact Path.cons (EReach.refl s) ((h _ _ _).2 hd) ((ih _ _).2 hh)
  simp only [nfaLang, dfaLang]
  constructor
  · rintro ⟨f, hf, hp⟩; exact ⟨f, (hpath _ _).1 hp, hf⟩
  · rintro ⟨f, hp, hf⟩; exact ⟨f, hf, (hpath _ _).2 hp⟩

/-- the DFA has no transition labelled with the ε symbol -/
def DFA.NoEps (d : DFA) : Prop := ∀ s, d.δ s E = none

theorem DFA.toNFA_lang {d : DFA} (h : d.WF) (he : d.NoEps) (w : Word) : d.toNFA.lang w ↔ d.lang w := by
  simp only [NFA.lang, DFA.lang, d.toNFA_start_final.1, d.toNFA_start_final.2]
  exact nfaLang_of_deterministic _ _ (fun s a t => DFA.toNFA_Δ h s a t) (fun s => by rw [← E_eq]; exact he s) _ _ w

/-- decidable sufficient checks for `Proper` and `NoEps` -/
def DFA.properB (d : DFA) : Bool := !d.final.contains (-1) && (aget (-1) d.trans).isNone
def DFA.noEpsB (d : DFA) : Bool := d.trans.all (fun st => (aget E st.2).isNone)

theorem DFA.proper_of_properB {d : DFA} (h : d.properB = true) : d.Proper := by
  simp [DFA.properB] at h
  refine ⟨by simpa using h.1, fun a => ?_⟩
  simp [DFA.δ, h.2]

theorem DFA.noEps_of_noEpsB {d : DFA} (h : d.noEpsB = true) : d.NoEps := by
  intro s
  simp only [DFA.δ]
  cases hs : aget s d.trans with
  | none => rfl
  | some st =>
    simp only [DFA.noEpsB, List.all_eq_true] at h
    have := h _ (aget_mem hs)
    simpa using this

/-! ### `Clone` -/

theorem NFA.clone_eq (n : NFA) : n.clone =
    (entries n.trans).foldl (fun acc e => acc.add e.1 e.2.1 e.2.2) ⟨n.start, n.final, []⟩ := by
  simp only [NFA.clone]
  have h := foldl_nested (γ := NFA) n.trans (fun acc s a t => acc.add s a t) ⟨n.start, n.final, []⟩
  rw [h]

theorem NFA.clone_Δ {n : NFA} (h : n.WF) (s a t : Int) : n.clone.Δ s a t ↔ n.Δ s a t := by
  rw [n.clone_eq, NFA.Δ_foldl_add, NFA.empty_Δ, false_or]
  simp only [NFA.Δ]
  constructor
  · rintro ⟨nx, h1, h2⟩; exact ⟨nx, (mem_entries_NFA h _ _ _).1 h1, h2⟩
  · rintro ⟨nx, h1, h2⟩; exact ⟨nx, (mem_entries_NFA h _ _ _).2 h1, h2⟩

theorem NFA.clone_start_final (n : NFA) : n.clone.start = n.start ∧ n.clone.final = n.final := by
  rw [n.clone_eq]
  exact NFA.start_foldl_add (entries n.trans) (fun e => e) _

theorem nfaLang_congr {δ1 δ2 : Int → Int → Int → Prop} (h : ∀ s a t, δ1 s a t ↔ δ2 s a t)
    (start : Int) (final : Int → Prop) (w : Word) : nfaLang δ1 start final w ↔ nfaLang δ2 start final w := by
  have : δ1 = δ2 := by funext s a t; exact propext (h s a t)
  rw [this]

theorem NFA.clone_lang {n : NFA} (h : n.WF) (w : Word) : n.clone.lang w ↔ n.lang w := by
  simp only [NFA.lang, n.clone_start_final.1, n.clone_start_final.2]
  exact nfaLang_congr (fun s a t => NFA.clone_Δ h s a t) _ _ w

theorem DFA.δ_foldl_add (L : List (Int × Int × Int)) (d0 : DFA) (s a : Int) :
    (L.foldl (fun acc e => acc.add e.1 e.2.1 e.2.2) d0).δ s a =
      match (L.reverse.find? (fun e => e.1 = s ∧ e.2.1 = a)) with
      | some e => some e.2.2
      | none => d0.δ s a := by
  induction L generalizing d0 with
  | nil => simp
  | cons e L ih =>
    simp only [List.foldl_cons, List.reverse_cons, List.find?_append]
    rw [ih]
    cases hf : L.reverse.find? (fun e => decide (e.1 = s ∧ e.2.1 = a)) with
    | some e' => simp
    | none =>
      simp only [DFA.δ_add]
      obtain ⟨s1, a1, t1⟩ := e
      by_cases hc : s = s1 ∧ a = a1
      · obtain ⟨rfl, rfl⟩ := hc; simp
      · have : ¬ (s1 = s ∧ a1 = a) := fun h => hc ⟨h.1.symm, h.2.symm⟩
        simp [hc, this]

theorem DFA.start_foldl_add (L : List (Int × Int × Int)) (d0 : DFA) :
    (L.foldl (fun acc e => acc.add e.1 e.2.1 e.2.2) d0).start = d0.start ∧
    (L.foldl (fun acc e => acc.add e.1 e.2.1 e.2.2) d0).final = d0.final := by
  induction L generalizing d0 with
  | nil => simp
  | cons e L ih => simp only [List.foldl_cons]; rw [(ih _).1, (ih _).2]; simp

theorem DFA.clone_eq (d : DFA) : d.clone =
    (entries d.trans).foldl (fun acc e => acc.add e.1 e.2.1 e.2.2) ⟨d.start, d.final, []⟩ := by
  simp only [DFA.clone]
  have h := foldl_nested (γ := DFA) d.trans (fun acc s a t => acc.add s a t) ⟨d.start, d.final, []⟩
  rw [h]

theorem DFA.clone_δ {d : DFA} (h : d.WF) (s a : Int) : d.clone.δ s a = d.δ s a := by
  rw [d.clone_eq, DFA.δ_foldl_add]
  split
  · rename_i e he
    have hm := List.mem_of_find?_eq_some he
    have hp := List.find?_some he
    simp at hm hp
    obtain ⟨s1, a1, t1⟩ := e
    simp at hp; obtain ⟨rfl, rfl⟩ := hp
    exact ((mem_entries_DFA h _ _ _).1 hm).symm
  · rename_i he
    rw [show (DFA.mk d.start d.final []).δ s a = none from by simp [DFA.δ, aget]]
    cases hd : d.δ s a with
    | none => rfl
    | some t =>
      have := (mem_entries_DFA h _ _ _).2 hd
      simp at he
      exact absurd rfl (he _ _ _ this rfl)

theorem DFA.clone_lang {d : DFA} (h : d.WF) (w : Word) : d.clone.lang w ↔ d.lang w := by
  have h1 := (DFA.start_foldl_add (entries d.trans) ⟨d.start, d.final, []⟩)
  rw [← d.clone_eq] at h1
  simp only [DFA.lang, h1.1, h1.2]
  have : d.clone.δ = d.δ := by funext s a; exact DFA.clone_δ h s a
  rw [this]

end AlgoVerif.C13
