import AlgoVerif.Proofs.C02OA
import AlgoVerif.Proofs.C02Chain
/-!
# C02/C03 — linear probing: `Put`, `Get`, `DeleteAll`, `resize`, `All`, `Equal`

The invariant is the one of open addressing without soft deletion: no key occupies two slots; every
occupied slot is reached by the probe sequence of its key through occupied slots only; `n` = number of
occupied slots; `(n-1)/m < maxLF ≤ 1/2`, so at least one slot is nil.
(`walk`, `cnt`, `pigeonhole`, `foldPut_spec` and the power-of-two lemmas are shared with the other tables.)
-/
set_option linter.unusedSectionVars false
namespace AlgoVerif.C02
open Spec AlgoVerif.Generated
variable {K V σ : Type} [DecidableEq K]

abbrev LSlots (K V : Type) := Array (Option (K × V))

def keyAtL (s : LSlots K V) (i : Nat) : Option K :=
  match s[i]? with
  | some (some e) => some e.1
  | _ => none

def isUsedL (s : LSlots K V) (i : Nat) : Bool := (keyAtL s i).isSome

theorem keyAtL_eq_some {s : LSlots K V} {i : Nat} {k : K} :
    keyAtL s i = some k ↔ ∃ v, s[i]? = some (some (k, v)) := by
  unfold keyAtL
  cases hx : s[i]? with
  | none => simp
  | some x =>
    cases x with
    | none => simp
    | some e =>
      obtain ⟨k', v'⟩ := e
      simp only [Option.some.injEq, Prod.mk.injEq]
      constructor
      · intro h; exact ⟨v', h, rfl⟩
      · rintro ⟨v, h, _⟩; exact h

theorem isUsedL_false_of_none {s : LSlots K V} {i : Nat} (h : s[i]? = some none) : isUsedL s i = false := by
  simp [isUsedL, keyAtL, h]

theorem isUsedL_true_of_some {s : LSlots K V} {i : Nat} {e : K × V} (h : s[i]? = some (some e)) : isUsedL s i = true := by
  simp [isUsedL, keyAtL, h]

theorem none_of_not_usedL {s : LSlots K V} {i : Nat} (hi : i < s.size) (h : isUsedL s i = false) : s[i]? = some none := by
  have hs : s[i]? = some s[i] := by simp [hi]
  cases hx : s[i] with
  | none => rw [hs, hx]
  | some e =>
    rw [hx] at hs
    rw [isUsedL_true_of_some hs] at h; cases h

theorem getL_set (s : LSlots K V) (idx : Nat) (hidx : idx < s.size) (x : Option (K × V)) (j : Nat) :
    (s.setIfInBounds idx x)[j]? = if j = idx then some x else s[j]? := by
  rw [Array.getElem?_setIfInBounds]
  by_cases h : idx = j
  · subst h; simp [hidx]
  · simp [h, Ne.symm h]

theorem keyAtL_set (s : LSlots K V) (idx : Nat) (hidx : idx < s.size) (e : K × V) (j : Nat) :
    keyAtL (s.setIfInBounds idx (some e)) j = if j = idx then some e.1 else keyAtL s j := by
  unfold keyAtL
  rw [getL_set s idx hidx]
  by_cases h : j = idx <;> simp [h]

theorem isUsedL_set (s : LSlots K V) (idx : Nat) (hidx : idx < s.size) (e : K × V) (j : Nat) :
    isUsedL (s.setIfInBounds idx (some e)) j = if j = idx then true else isUsedL s j := by
  unfold isUsedL
  rw [keyAtL_set s idx hidx]
  by_cases h : j = idx <;> simp [h]

theorem lt_size_of_getL {s : LSlots K V} {i : Nat} {x : Option (K × V)} (h : s[i]? = some x) : i < s.size := by
  by_contra hc
  rw [Array.getElem?_eq_none (Nat.le_of_not_lt hc)] at h
  cases h

/-! ### invariant and abstraction -/

def Lin.Live (t : LinTable K V) (k : K) (v : V) : Prop := ∃ i : Nat, t.slots[i]? = some (some (k, v))

def Lin.pr (hash : K → UInt64) (t : LinTable K V) (key : K) (i : Nat) : Nat :=
  Lin.probeIdx t.m (mix (hash key)) i

theorem Lin.probeIdx_eq (m : Nat) (h : UInt64) (i : Nat) (hm : 0 < m) :
    Lin.probeIdx m h i = ((h.toNat &&& (m - 1)) + i) % m := by
  unfold Lin.probeIdx
  by_cases hi : i = 0
  · subst hi
    have : h.toNat &&& (m - 1) < m := by
      have := Nat.and_le_right (n := h.toNat) (m := m - 1); omega
    simp [Nat.mod_eq_of_lt this]
  · simp [hi]

structure Lin.InvCore (hash : K → UInt64) (t : LinTable K V) : Prop where
  size : t.slots.size = t.m
  pow2 : isPowerOf2 t.m = true
  minM : symboltable_lpMinM ≤ t.m
  n_eq : t.n = ((cnt (isUsedL t.slots) t.m : Nat) : Int)
  lf : ValidLF lpMinLF lpMaxLF t.minLF t.maxLF
  uniq : ∀ i j k, keyAtL t.slots i = some k → keyAtL t.slots j = some k → i = j
  reach : ∀ idx k, keyAtL t.slots idx = some k → ∃ i, i < t.m ∧ Lin.pr hash t k i = idx ∧
    ∀ j, j < i → isUsedL t.slots (Lin.pr hash t k j) = true

/-- invariant with room for `r` more insertions before `Put` would resize -/
def Lin.Room (hash : K → UInt64) (r : Nat) (t : LinTable K V) : Prop :=
  Lin.InvCore hash t ∧ (t.n + (r : Int)) * (t.maxLF.den : Int) < (t.maxLF.num : Int) * (t.m : Int) + (t.maxLF.den : Int)

abbrev Lin.Inv (hash : K → UInt64) (t : LinTable K V) : Prop := Lin.Room hash 0 t

theorem lpMinM_ge : 32 ≤ symboltable_lpMinM := by decide

theorem Lin.lf_facts {minLF maxLF : LF} (h : ValidLF lpMinLF lpMaxLF minLF maxLF) :
    0 < minLF.num ∧ 0 < maxLF.num ∧ maxLF.den < 8 * maxLF.num ∧ 2 * maxLF.num ≤ maxLF.den := by
  obtain ⟨h1, h2, h3, h4, h5⟩ := h
  have e3 : minLF.den ≤ minLF.num * 8 := by
    simpa [lpMinLF, symboltable_lpMinLoadFactor_num, symboltable_lpMinLoadFactor_den] using h3
  have e5 : maxLF.num * 2 ≤ maxLF.den := by
    simpa [lpMaxLF, symboltable_lpMaxLoadFactor_num, symboltable_lpMaxLoadFactor_den] using h5
  have a : 0 < minLF.num := by omega
  have b : 0 < maxLF.num := by
    rcases Nat.eq_zero_or_pos maxLF.num with hz | hz
    · rw [hz] at h4; simp at h4
    · exact hz
  refine ⟨a, b, ?_, by omega⟩
  by_contra hc
  have hc' : 8 * maxLF.num ≤ maxLF.den := by omega
  have e1 := Nat.mul_le_mul_right maxLF.den e3
  have e2 := Nat.mul_le_mul_right minLF.den hc'
  have e6 := Nat.mul_pos h1 h2
  nlinarith

theorem Lin.m_pos {hash : K → UInt64} {t : LinTable K V} (hI : Lin.InvCore hash t) : 32 ≤ t.m := by
  have := lpMinM_ge; have := hI.minM; omega

theorem Lin.pr_lt {hash : K → UInt64} {t : LinTable K V} (hI : Lin.InvCore hash t) (key : K) (i : Nat) :
    Lin.pr hash t key i < t.slots.size := by
  rw [hI.size]
  unfold Lin.pr
  have := Lin.m_pos hI
  rw [Lin.probeIdx_eq _ _ _ (by omega)]
  exact Nat.mod_lt _ (by omega)

theorem Lin.pr_inj {hash : K → UInt64} {t : LinTable K V} (hI : Lin.InvCore hash t) (key : K) (i j : Nat)
    (hij : i < j) (hj : j < t.m) : Lin.pr hash t key i ≠ Lin.pr hash t key j := by
  unfold Lin.pr
  have := Lin.m_pos hI
  rw [Lin.probeIdx_eq _ _ _ (by omega), Lin.probeIdx_eq _ _ _ (by omega)]
  exact linear_cover t.m _ i j hij hj

theorem Lin.den_le {hash : K → UInt64} {t : LinTable K V} (hI : Lin.InvCore hash t) :
    (t.maxLF.den : Int) ≤ (t.maxLF.num : Int) * (t.m : Int) := by
  obtain ⟨_, _, h, _⟩ := Lin.lf_facts hI.lf
  have hm := Lin.m_pos hI
  have : t.maxLF.den ≤ t.maxLF.num * t.m := by
    calc t.maxLF.den ≤ 8 * t.maxLF.num := h.le
      _ = t.maxLF.num * 8 := Nat.mul_comm _ _
      _ ≤ t.maxLF.num * t.m := Nat.mul_le_mul_left _ (by omega)
  exact_mod_cast this

/-- the load bound leaves a nil slot -/
theorem Lin.n_lt_m {hash : K → UInt64} {t : LinTable K V} (h : Lin.Inv hash t) :
    cnt (isUsedL t.slots) t.m < t.m := by
  obtain ⟨hI, hroom⟩ := h
  obtain ⟨_, hnum, _, h2⟩ := Lin.lf_facts hI.lf
  have hm := Lin.m_pos hI
  rw [hI.n_eq] at hroom
  have hr : cnt (isUsedL t.slots) t.m * t.maxLF.den < t.maxLF.num * t.m + t.maxLF.den := by
    have : ((cnt (isUsedL t.slots) t.m * t.maxLF.den : Nat) : Int) < ((t.maxLF.num * t.m + t.maxLF.den : Nat) : Int) := by
      push_cast; push_cast at hroom; linarith
    exact_mod_cast this
  -- n·den < num·m + den ≤ den·m/2 + den
  by_contra hc
  have hc' : t.m ≤ cnt (isUsedL t.slots) t.m := by omega
  have e1 : t.m * t.maxLF.den ≤ cnt (isUsedL t.slots) t.m * t.maxLF.den := Nat.mul_le_mul_right _ hc'
  have e2 : t.maxLF.num * t.m * 2 ≤ t.maxLF.den * t.m := by nlinarith
  have hd : 0 < t.maxLF.den := hI.lf.maxDen
  nlinarith

theorem Lin.exists_free {hash : K → UInt64} {t : LinTable K V} (h : Lin.Inv hash t) (key : K) :
    ∃ i, i < t.m ∧ t.slots[Lin.pr hash t key i]? = some none := by
  by_contra hc
  have hall : ∀ i, i < t.m → isUsedL t.slots (Lin.pr hash t key i) = true := by
    intro i hi
    by_contra hu
    have hu' : isUsedL t.slots (Lin.pr hash t key i) = false := by simpa using hu
    exact hc ⟨i, hi, none_of_not_usedL (Lin.pr_lt h.1 key i) hu'⟩
  have := pigeonhole (isUsedL t.slots) (Lin.pr hash t key) t.m t.m
    (fun i _ => by have := Lin.pr_lt h.1 key i; rw [h.1.size] at this; exact this)
    (fun i j hij hj => Lin.pr_inj h.1 key i j hij hj)
    hall
  have := Lin.n_lt_m h
  omega

theorem Lin.room_weaken {hash : K → UInt64} {t : LinTable K V} {r : Nat} (h : Lin.Room hash r t) : Lin.Inv hash t := by
  refine ⟨h.1, ?_⟩
  have h2 := h.2
  have : (0 : Int) ≤ (r : Int) * (t.maxLF.den : Int) := Int.mul_nonneg (Int.natCast_nonneg _) (Int.natCast_nonneg _)
  push_cast at h2 ⊢
  nlinarith

/-! ### the probe loops as walks -/

def stopL (key : K) (x : Option (K × V)) : Bool :=
  match x with
  | none => true
  | some e => decide (e.1 = key)

def putAtL (t : LinTable K V) (idx : Nat) (key : K) (val : V) (x : Option (K × V)) : LinTable K V :=
  match x with
  | none => { t with slots := t.slots.setIfInBounds idx (some (key, val)), n := t.n + 1 }
  | some e => { t with slots := t.slots.setIfInBounds idx (some (e.1, val)) }

theorem Lin.putLoop_eq (hash : K → UInt64) (t : LinTable K V) (key : K) (val : V) : ∀ fuel i,
    Lin.putLoop t (mix (hash key)) key val fuel i =
      walk t.slots (Lin.pr hash t key)
        (fun i x => if stopL key x then some (putAtL t (Lin.pr hash t key i) key val x) else none) fuel i := by
  intro fuel
  induction fuel with
  | zero => intro i; rfl
  | succ f ih =>
    intro i
    have hpr : ∀ i, Lin.probeIdx t.m (mix (hash key)) i = Lin.pr hash t key i := fun _ => rfl
    unfold Lin.putLoop walk
    simp only [hpr]
    cases hx : t.slots[Lin.pr hash t key i]? with
    | none => rfl
    | some x =>
      cases x with
      | none => simp [stopL, putAtL]
      | some e =>
        by_cases hk : e.1 = key
        · simp [stopL, hk, putAtL]
        · simp only [stopL, hk, if_false, decide_false, Bool.false_eq_true]
          exact ih (i + 1)

theorem Lin.getLoop_eq (hash : K → UInt64) (t : LinTable K V) (key : K) : ∀ fuel i,
    Lin.getLoop t (mix (hash key)) key fuel i =
      walk t.slots (Lin.pr hash t key) (fun _ x => if stopL key x then some (x.map (·.2)) else none) fuel i := by
  intro fuel
  induction fuel with
  | zero => intro i; rfl
  | succ f ih =>
    intro i
    have hpr : ∀ i, Lin.probeIdx t.m (mix (hash key)) i = Lin.pr hash t key i := fun _ => rfl
    unfold Lin.getLoop walk
    simp only [hpr]
    cases hx : t.slots[Lin.pr hash t key i]? with
    | none => rfl
    | some x =>
      cases x with
      | none => simp [stopL]
      | some e =>
        by_cases hk : e.1 = key
        · simp [stopL, hk]
        · simp only [stopL, hk, if_false, decide_false, Bool.false_eq_true]
          exact ih (i + 1)

theorem Lin.findLoop_eq (hash : K → UInt64) (t : LinTable K V) (key : K) : ∀ fuel i,
    Lin.findLoop t (mix (hash key)) key fuel i =
      walk t.slots (Lin.pr hash t key) (fun i x => if stopL key x then some (i, Lin.pr hash t key i) else none) fuel i := by
  intro fuel
  induction fuel with
  | zero => intro i; rfl
  | succ f ih =>
    intro i
    have hpr : ∀ i, Lin.probeIdx t.m (mix (hash key)) i = Lin.pr hash t key i := fun _ => rfl
    unfold Lin.findLoop walk
    simp only [hpr]
    cases hx : t.slots[Lin.pr hash t key i]? with
    | none => rfl
    | some x =>
      cases x with
      | none => simp [stopL]
      | some e =>
        by_cases hk : e.1 = key
        · simp [stopL, hk]
        · simp only [stopL, hk, if_false, decide_false, Bool.false_eq_true]
          exact ih (i + 1)

theorem Lin.probes_eq (hash : K → UInt64) (t : LinTable K V) (key : K) : ∀ fuel i c,
    walk t.slots (Lin.pr hash t key) (fun i x => if stopL key x then some (i + 1) else none) fuel i = .ok c →
    Lin.probes t (mix (hash key)) key fuel i = some c := by
  intro fuel
  induction fuel with
  | zero => intro i c h; simp [walk] at h
  | succ f ih =>
    intro i c
    have hpr : ∀ i, Lin.probeIdx t.m (mix (hash key)) i = Lin.pr hash t key i := fun _ => rfl
    unfold Lin.probes walk
    simp only [hpr]
    cases hx : t.slots[Lin.pr hash t key i]? with
    | none => simp
    | some x =>
      cases x with
      | none => simp [stopL]
      | some e =>
        by_cases hk : e.1 = key
        · simp [stopL, hk]
        · simp only [stopL, hk, if_false, decide_false, Bool.false_eq_true]
          exact ih (i + 1) c

/-- the search stops within `m` probes at the first slot that is nil or holds `key`; no other slot holds `key` -/
theorem Lin.find_result (hash : K → UInt64) (t : LinTable K V) (key : K) (h : Lin.Inv hash t) :
    ∃ i1 x1, i1 < t.m ∧ t.slots[Lin.pr hash t key i1]? = some x1 ∧ stopL key x1 = true ∧
      (∀ j, j < i1 → isUsedL t.slots (Lin.pr hash t key j) = true) ∧
      (∀ (β : Type) (f : Nat → Option (K × V) → β),
        walk t.slots (Lin.pr hash t key) (fun i x => if stopL key x then some (f i x) else none) t.m 0 = .ok (f i1 x1)) ∧
      (∀ i, i ≠ Lin.pr hash t key i1 → keyAtL t.slots i ≠ some key) := by
  obtain ⟨i0, hi0, hfree⟩ := Lin.exists_free h key
  obtain ⟨i1, x1, _, hle, hx1, hs1, hbefore, _⟩ := walk_least t.slots (Lin.pr hash t key)
    (fun _ x => if stopL key x then some () else none) (Lin.pr_lt h.1 key) i0 none hfree (by simp [stopL]) t.m hi0
  have hstop : stopL key x1 = true := by
    by_contra hc
    simp [hc] at hs1
  have hbefore' : ∀ j, j < i1 → ∃ e, t.slots[Lin.pr hash t key j]? = some (some e) ∧ e.1 ≠ key := by
    intro j hj
    obtain ⟨x, hx, hs⟩ := hbefore j hj
    cases x with
    | none => simp [stopL] at hs
    | some e =>
      refine ⟨e, hx, ?_⟩
      intro hk
      simp [stopL, hk] at hs
  refine ⟨i1, x1, by omega, hx1, hstop, ?_, ?_, ?_⟩
  · intro j hj
    obtain ⟨e, he, _⟩ := hbefore' j hj
    exact isUsedL_true_of_some he
  · intro β f
    apply walk_spec _ _ _ t.m 0 i1 x1 (f i1 x1) (Nat.zero_le _) (by omega)
    · intro j _ hj
      obtain ⟨e, he, hk⟩ := hbefore' j hj
      exact ⟨some e, he, by simp [stopL, hk]⟩
    · exact hx1
    · simp [hstop]
  · intro i hi hk
    cases x1 with
    | some e =>
      have hke : e.1 = key := by simpa [stopL] using hstop
      have : keyAtL t.slots (Lin.pr hash t key i1) = some key := by
        obtain ⟨k', v'⟩ := e
        simp only at hke; subst hke
        exact keyAtL_eq_some.2 ⟨v', hx1⟩
      exact hi (h.1.uniq _ _ _ hk this)
    | none =>
      obtain ⟨i', _, hpi, hused⟩ := h.1.reach i key hk
      rcases Nat.lt_trichotomy i' i1 with hlt | heq | hgt
      · obtain ⟨e, he, hne⟩ := hbefore' i' hlt
        rw [hpi] at he
        obtain ⟨v', he'⟩ := keyAtL_eq_some.1 hk
        rw [he] at he'
        injection he' with he'; injection he' with he'
        subst he'
        exact hne rfl
      · subst heq; exact hi hpi.symm
      · have := hused i1 hgt
        rw [isUsedL_false_of_none hx1] at this
        cases this

theorem Lin.get_spec (hash : K → UInt64) (t : LinTable K V) (key : K) (h : Lin.Inv hash t) :
    ∃ o, Lin.get hash t key = .ok o ∧ ∀ v, o = some v ↔ Lin.Live t key v := by
  obtain ⟨i1, x1, _, hx1, hstop, _, hwalk, hother⟩ := Lin.find_result hash t key h
  refine ⟨x1.map (·.2), ?_, ?_⟩
  · unfold Lin.get
    rw [Lin.getLoop_eq]
    exact hwalk _ (fun _ x => x.map (·.2))
  · intro v
    cases x1 with
    | none =>
      simp only [Option.map_none, reduceCtorEq, false_iff]
      rintro ⟨i, hi⟩
      have hk : keyAtL t.slots i = some key := keyAtL_eq_some.2 ⟨v, hi⟩
      by_cases hii : i = Lin.pr hash t key i1
      · subst hii; rw [hx1] at hi; cases hi
      · exact hother i hii hk
    | some e =>
      obtain ⟨k', v'⟩ := e
      have hke : k' = key := by simpa [stopL] using hstop
      subst hke
      simp only [Option.map_some, Option.some.injEq]
      constructor
      · rintro rfl; exact ⟨_, hx1⟩
      · rintro ⟨i, hi⟩
        have hk : keyAtL t.slots i = some k' := keyAtL_eq_some.2 ⟨v, hi⟩
        have hii : i = Lin.pr hash t k' i1 := by
          by_contra hne
          exact hother i hne hk
        subst hii
        rw [hx1] at hi
        injection hi with hi; injection hi with hi
        injection hi

/-! ### `Put` after the load check -/

theorem Lin.write_spec (hash : K → UInt64) (t : LinTable K V) (key : K) (val : V) (h : Lin.Inv hash t)
    (i1 : Nat) (x1 : Option (K × V)) (hi1 : i1 < t.m)
    (hx1 : t.slots[Lin.pr hash t key i1]? = some x1) (hstop : stopL key x1 = true)
    (hbefore : ∀ j, j < i1 → isUsedL t.slots (Lin.pr hash t key j) = true)
    (hother : ∀ i, i ≠ Lin.pr hash t key i1 → keyAtL t.slots i ≠ some key)
    (n' : Int)
    (hn : n' = ((cnt (isUsedL (t.slots.setIfInBounds (Lin.pr hash t key i1) (some (key, val)))) t.m : Nat) : Int)) :
    Lin.InvCore hash { t with slots := t.slots.setIfInBounds (Lin.pr hash t key i1) (some (key, val)), n := n' } ∧
    ∀ k' v', Lin.Live { t with slots := t.slots.setIfInBounds (Lin.pr hash t key i1) (some (key, val)), n := n' } k' v' ↔
      (k' = key ∧ v' = val) ∨ (k' ≠ key ∧ Lin.Live t k' v') := by
  have hidx := Lin.pr_lt h.1 key i1
  generalize hpr : Lin.pr hash t key i1 = idx at *
  have hk := keyAtL_set t.slots idx hidx (key, val)
  have hus := isUsedL_set t.slots idx hidx (key, val)
  have hg := getL_set t.slots idx hidx (some (key, val))
  constructor
  · refine ⟨by simp [h.1.size], h.1.pow2, h.1.minM, hn, h.1.lf, ?_, ?_⟩
    · intro i j k hi hj
      simp only [hk] at hi hj
      by_cases hii : i = idx <;> by_cases hjj : j = idx
      · rw [hii, hjj]
      · simp only [hii, if_true, Option.some.injEq] at hi
        simp only [hjj, if_false] at hj
        subst hi
        exact absurd hj (hother j hjj)
      · simp only [hjj, if_true, Option.some.injEq] at hj
        simp only [hii, if_false] at hi
        subst hj
        exact absurd hi (hother i hii)
      · simp only [hii, hjj, if_false] at hi hj
        exact h.1.uniq i j k hi hj
    · intro idx' k hk'
      simp only [hk] at hk'
      have hmono : ∀ j, isUsedL t.slots j = true → isUsedL (t.slots.setIfInBounds idx (some (key, val))) j = true := by
        intro j hj
        rw [hus]; split <;> simp [hj]
      by_cases hii : idx' = idx
      · simp only [hii, if_true, Option.some.injEq] at hk'
        subst hk'
        exact ⟨i1, hi1, hpr.trans hii.symm, fun j hj => hmono _ (hbefore j hj)⟩
      · simp only [hii, if_false] at hk'
        obtain ⟨i, hi, hpi, hused⟩ := h.1.reach idx' k hk'
        exact ⟨i, hi, hpi, fun j hj => hmono _ (hused j hj)⟩
  · intro k' v'
    unfold Lin.Live
    simp only [hg]
    constructor
    · rintro ⟨i, he⟩
      by_cases hii : i = idx
      · simp only [hii, if_true, Option.some.injEq, Prod.mk.injEq] at he
        exact Or.inl ⟨he.1.symm, he.2.symm⟩
      · simp only [hii, if_false] at he
        refine Or.inr ⟨?_, i, he⟩
        rintro rfl
        exact hother i hii (keyAtL_eq_some.2 ⟨v', he⟩)
    · rintro (⟨rfl, rfl⟩ | ⟨hne, i, he⟩)
      · exact ⟨idx, by simp⟩
      · have hii : i ≠ idx := by
          rintro rfl
          rw [he] at hx1
          injection hx1 with hx1
          subst hx1
          have : k' = key := by simpa [stopL] using hstop
          exact hne this
        exact ⟨i, by simp only [hii, if_false]; exact he⟩

theorem Lin.putLoop_spec (hash : K → UInt64) (t : LinTable K V) (key : K) (val : V) (r : Nat)
    (h : Lin.Room hash (r + 1) t) :
    ∃ t', Lin.putLoop t (mix (hash key)) key val t.m 0 = .ok t' ∧ Lin.Room hash r t' ∧ t'.m = t.m ∧
      t'.minLF = t.minLF ∧ t'.maxLF = t.maxLF ∧
      ∀ k' v', Lin.Live t' k' v' ↔ (k' = key ∧ v' = val) ∨ (k' ≠ key ∧ Lin.Live t k' v') := by
  have hInv := Lin.room_weaken h
  obtain ⟨i1, x1, hi1, hx1, hstop, hbefore, hwalk, hother⟩ := Lin.find_result hash t key hInv
  have hidx := Lin.pr_lt hInv.1 key i1
  have hidxm : Lin.pr hash t key i1 < t.m := by rw [← hInv.1.size]; exact hidx
  have hloop : Lin.putLoop t (mix (hash key)) key val t.m 0 = .ok (putAtL t (Lin.pr hash t key i1) key val x1) := by
    rw [Lin.putLoop_eq]
    exact hwalk _ (fun i x => putAtL t (Lin.pr hash t key i) key val x)
  have hus := isUsedL_set t.slots (Lin.pr hash t key i1) hidx (key, val)
  have hroom := h.2
  cases x1 with
  | none =>
    have hn : t.n + 1 = ((cnt (isUsedL (t.slots.setIfInBounds (Lin.pr hash t key i1) (some (key, val)))) t.m : Nat) : Int) := by
      rw [cnt_flip_true (P := isUsedL t.slots) hidxm (isUsedL_false_of_none hx1) (by simp [hus])
        (by intro i hi; simp [hus, hi]), hInv.1.n_eq]
      push_cast; rfl
    obtain ⟨hcore, hlive⟩ := Lin.write_spec hash t key val hInv i1 none hi1 hx1 hstop hbefore hother _ hn
    refine ⟨_, hloop, ⟨hcore, ?_⟩, rfl, rfl, rfl, hlive⟩
    simp only [putAtL]
    push_cast at hroom ⊢
    linarith
  | some e =>
    have hke : e.1 = key := by simpa [stopL] using hstop
    have hused : isUsedL t.slots (Lin.pr hash t key i1) = true := isUsedL_true_of_some hx1
    have hn : t.n = ((cnt (isUsedL (t.slots.setIfInBounds (Lin.pr hash t key i1) (some (key, val)))) t.m : Nat) : Int) := by
      rw [hInv.1.n_eq]
      congr 1
      apply cnt_congr
      intro i _
      rw [hus]
      split
      · rename_i hi; rw [hi, hused]
      · rfl
    obtain ⟨hcore, hlive⟩ := Lin.write_spec hash t key val hInv i1 (some e) hi1 hx1 hstop hbefore hother _ hn
    have hput : putAtL t (Lin.pr hash t key i1) key val (some e) =
        { t with slots := t.slots.setIfInBounds (Lin.pr hash t key i1) (some (key, val)), n := t.n } := by
      simp only [putAtL, hke]
    rw [hput] at hloop
    refine ⟨_, hloop, ⟨hcore, ?_⟩, rfl, rfl, rfl, hlive⟩
    have : (0 : Int) ≤ (t.maxLF.den : Int) := Int.natCast_nonneg _
    push_cast at hroom ⊢
    nlinarith

/-! ### `All`, `DeleteAll`, constructor -/

theorem Lin.liveAt_isSome (s : LSlots K V) (i : Nat) : (Lin.liveAt s i).isSome = isUsedL s i := by
  unfold Lin.liveAt isUsedL keyAtL
  cases hx : s[i]? with
  | none => rfl
  | some x => cases x <;> rfl

theorem Lin.liveAt_eq_some {s : LSlots K V} {i : Nat} {e : K × V} :
    Lin.liveAt s i = some e ↔ s[i]? = some (some e) := by
  unfold Lin.liveAt
  cases hx : s[i]? with
  | none => simp
  | some x => cases x <;> simp

theorem Lin.all_spec {sh : Shuffle σ} (hsh : ShufflePerm sh) {hash : K → UInt64} {t : LinTable K V}
    (hI : Lin.InvCore hash t) (g : σ) :
    NodupKeys (Lin.all sh t g).1 ∧ (∀ k v, (k, v) ∈ (Lin.all sh t g).1 ↔ Lin.Live t k v) ∧
      (((Lin.all sh t g).1.length : Nat) : Int) = t.n := by
  have hperm : (Lin.all sh t g).1.Perm ((List.range t.slots.size).filterMap (Lin.liveAt t.slots)) := by
    unfold Lin.all
    exact (hsh g t.slots.size).filterMap _
  refine ⟨?_, ?_, ?_⟩
  · unfold NodupKeys
    rw [(hperm.map Prod.fst).nodup_iff, List.map_filterMap]
    apply List.Nodup.filterMap _ List.nodup_range
    intro i j k hi hj
    simp only [Option.mem_def, Option.map_eq_some_iff] at hi hj
    obtain ⟨⟨k1, v1⟩, h1, rfl⟩ := hi
    obtain ⟨⟨k2, v2⟩, h2, hk2⟩ := hj
    simp only at hk2
    subst hk2
    exact hI.uniq i j _ (keyAtL_eq_some.2 ⟨v1, Lin.liveAt_eq_some.1 h1⟩) (keyAtL_eq_some.2 ⟨v2, Lin.liveAt_eq_some.1 h2⟩)
  · intro k v
    rw [hperm.mem_iff, List.mem_filterMap]
    constructor
    · rintro ⟨i, _, hi⟩
      exact ⟨i, Lin.liveAt_eq_some.1 hi⟩
    · rintro ⟨i, he⟩
      exact ⟨i, List.mem_range.2 (lt_size_of_getL he), Lin.liveAt_eq_some.2 he⟩
  · rw [hperm.length_eq, length_filterMap_range, hI.size, hI.n_eq]
    congr 1
    exact cnt_congr (fun i _ => Lin.liveAt_isSome t.slots i)

theorem keyAtL_replicate (m j : Nat) : keyAtL (Array.replicate m (none : Option (K × V))) j = none := by
  unfold keyAtL
  simp only [Array.getElem?_replicate]
  split <;> simp_all

theorem getL_replicate_ne (m j : Nat) (e : K × V) : (Array.replicate m (none : Option (K × V)))[j]? ≠ some (some e) := by
  simp only [Array.getElem?_replicate]
  split <;> simp

def Lin.emptyTable (mp : Nat) (minLF maxLF : LF) : LinTable K V :=
  { slots := Array.replicate mp none, m := mp, n := 0, minLF := minLF, maxLF := maxLF }

theorem Lin.empty_inv (hash : K → UInt64) (mp : Nat) (minLF maxLF : LF)
    (hlf : ValidLF lpMinLF lpMaxLF minLF maxLF) (hm : symboltable_lpMinM ≤ mp) (hp : isPowerOf2 mp = true) :
    Lin.InvCore hash (Lin.emptyTable mp minLF maxLF : LinTable K V) ∧
    ∀ k v, ¬ Lin.Live (Lin.emptyTable mp minLF maxLF : LinTable K V) k v := by
  unfold Lin.emptyTable
  constructor
  · refine ⟨by simp, hp, hm, ?_, hlf, ?_, ?_⟩
    · simp only
      rw [cnt_false (fun i _ => by simp [isUsedL, keyAtL_replicate])]; rfl
    · intro i j k hi; simp only [keyAtL_replicate] at hi; cases hi
    · intro idx k hi; simp only [keyAtL_replicate] at hi; cases hi
  · rintro k v ⟨i, he⟩
    exact getL_replicate_ne mp i (k, v) he

theorem Lin.new_spec (hash : K → UInt64) (mp : Nat) (minLF maxLF : LF)
    (hlf : ValidLF lpMinLF lpMaxLF minLF maxLF) (hm : symboltable_lpMinM ≤ mp) (hp : isPowerOf2 mp = true) :
    ∃ fresh : LinTable K V, Lin.new ⟨mp, minLF, maxLF⟩ = .ok fresh ∧ Lin.InvCore hash fresh ∧
      fresh.m = mp ∧ fresh.n = 0 ∧ fresh.minLF = minLF ∧ fresh.maxLF = maxLF ∧ ∀ k v, ¬ Lin.Live fresh k v := by
  obtain ⟨a, b, _, _⟩ := Lin.lf_facts hlf
  have hm0 : mp ≠ 0 := by have := lpMinM_ge; omega
  obtain ⟨hcore, hempty⟩ := Lin.empty_inv (V := V) hash mp minLF maxLF hlf hm hp
  refine ⟨Lin.emptyTable mp minLF maxLF, ?_, hcore, rfl, rfl, rfl, rfl, hempty⟩
  unfold Lin.new Lin.emptyTable
  simp [hm0, Nat.ne_of_gt a, Nat.ne_of_gt b, Nat.not_lt.2 hm, hp]

theorem Lin.deleteAll_spec (hash : K → UInt64) (t : LinTable K V) (h : Lin.Inv hash t) :
    Lin.Inv hash (Lin.deleteAll t) ∧ ∀ k v, ¬ Lin.Live (Lin.deleteAll t) k v := by
  obtain ⟨hcore, hempty⟩ := Lin.empty_inv (V := V) hash t.m t.minLF t.maxLF h.1.lf h.1.minM h.1.pow2
  refine ⟨⟨hcore, ?_⟩, hempty⟩
  have := Lin.den_le h.1
  have hd : (0 : Int) < (t.maxLF.den : Int) := by exact_mod_cast h.1.lf.maxDen
  show ((0 : Int) + ((0 : Nat) : Int)) * (t.maxLF.den : Int) < (t.maxLF.num : Int) * (t.m : Int) + (t.maxLF.den : Int)
  push_cast
  linarith

/-! ### `Put` with the load check, `resize` -/

def Lin.Fill (hash : K → UInt64) (minLF maxLF : LF) (r : Nat) (t : LinTable K V) : Prop :=
  Lin.Room hash r t ∧ t.minLF = minLF ∧ t.maxLF = maxLF

theorem Lin.put_room (sh : Shuffle σ) (hash : K → UInt64) (d : Nat) (t : LinTable K V) (g : σ) (key : K) (val : V)
    (r : Nat) (h : Lin.Room hash (r + 1) t) :
    ∃ t', Lin.put sh hash (d + 1) t g key val = .ok (t', g) ∧ Lin.Room hash r t' ∧ t'.m = t.m ∧
      t'.minLF = t.minLF ∧ t'.maxLF = t.maxLF ∧
      ∀ k' v', Lin.Live t' k' v' ↔ (k' = key ∧ v' = val) ∨ (k' ≠ key ∧ Lin.Live t k' v') := by
  have hcheck : ratioGE t.n t.m t.maxLF = false := by
    unfold ratioGE
    rw [decide_eq_false_iff_not]
    have h2 := h.2
    push_cast at h2
    have : (0 : Int) ≤ (r : Int) * (t.maxLF.den : Int) := Int.mul_nonneg (Int.natCast_nonneg _) (Int.natCast_nonneg _)
    nlinarith
  obtain ⟨t', h1, h2, h3, h4, h5, h6⟩ := Lin.putLoop_spec hash t key val r h
  refine ⟨t', ?_, h2, h3, h4, h5, h6⟩
  unfold Lin.put
  simp only [hcheck, Bool.false_eq_true, if_false, h1]

theorem Lin.copy_back (t nt : LinTable K V) (hmin : nt.minLF = t.minLF) (hmax : nt.maxLF = t.maxLF) :
    ({ t with slots := nt.slots, m := nt.m, n := nt.n } : LinTable K V) = nt := by
  obtain ⟨sl, m, n, a, b⟩ := nt
  simp only at hmin hmax
  subst hmin hmax
  rfl

theorem Lin.resize_fits {sh : Shuffle σ} (hsh : ShufflePerm sh) (hash : K → UInt64) (d : Nat) (t : LinTable K V) (g : σ)
    (m' : Nat) (hI : Lin.InvCore hash t) (hm : symboltable_lpMinM ≤ m') (hp : isPowerOf2 m' = true)
    (hfit : (t.n + 1) * (t.maxLF.den : Int) < (t.maxLF.num : Int) * (m' : Int) + (t.maxLF.den : Int)) :
    ∃ t' g', Lin.resizeWith sh (Lin.put sh hash (d + 1)) t g m' = .ok (t', g') ∧ Lin.Room hash 1 t' ∧
      t'.minLF = t.minLF ∧ t'.maxLF = t.maxLF ∧ ∀ k v, Lin.Live t' k v ↔ Lin.Live t k v := by
  obtain ⟨fresh, hnew, hfI, hfm, hfn, hfmin, hfmax, hfempty⟩ := Lin.new_spec (V := V) hash m' t.minLF t.maxLF hI.lf hm hp
  obtain ⟨hnd, hmem, hlen⟩ := Lin.all_spec hsh hI g
  have hfold := foldPut_spec (σ := σ) Lin.Live (fun r t' => Lin.Fill hash t.minLF t.maxLF (r + 1) t')
    (Lin.put sh hash (d + 1))
    (by
      intro r t1 g1 k v hP
      obtain ⟨t2, h1, h2, _, h4, h5, h6⟩ := Lin.put_room sh hash d t1 g1 k v (r + 1) hP.1
      exact ⟨t2, g1, h1, ⟨h2, h4.trans hP.2.1, h5.trans hP.2.2⟩, h6⟩)
    (Lin.all sh t g).1 fresh (Lin.all sh t g).2 hnd
    (by
      refine ⟨⟨hfI, ?_⟩, hfmin, hfmax⟩
      rw [hfn, hfmax, hfm]
      rw [← hlen] at hfit
      push_cast at hfit ⊢
      linarith)
  obtain ⟨nt, g2, hf, hP, hL⟩ := hfold
  obtain ⟨hroom, hmin, hmax⟩ := hP
  have hcopy := Lin.copy_back t nt hmin hmax
  refine ⟨nt, g2, ?_, hroom, hmin, hmax, ?_⟩
  · unfold Lin.resizeWith
    simp only [Nat.not_lt.2 hm, if_false, hnew, hf, hcopy]
  · intro k v
    rw [hL, hmem]
    constructor
    · rintro (h | ⟨h, _⟩)
      · exact h
      · exact absurd h (hfempty k v)
    · intro h; exact Or.inl h

theorem Lin.put_any {sh : Shuffle σ} (hsh : ShufflePerm sh) (hash : K → UInt64) (d : Nat) (t : LinTable K V) (g : σ)
    (key : K) (val : V) (h : Lin.Inv hash t) :
    ∃ t' g', Lin.put sh hash (d + 2) t g key val = .ok (t', g') ∧ Lin.Inv hash t' ∧
      t'.minLF = t.minLF ∧ t'.maxLF = t.maxLF ∧
      ∀ k' v', Lin.Live t' k' v' ↔ (k' = key ∧ v' = val) ∨ (k' ≠ key ∧ Lin.Live t k' v') := by
  by_cases hcheck : ratioGE t.n t.m t.maxLF = true
  · have hm := Lin.m_pos h.1
    have hden := Lin.den_le h.1
    have hroom := h.2
    obtain ⟨t1, g1, hr, hR1, hmin1, hmax1, hL1⟩ := Lin.resize_fits hsh hash d t g (2 * t.m) h.1
      (by have := h.1.minM; omega) (isPowerOf2_double t.m (by omega) h.1.pow2)
      (by push_cast at hroom ⊢; nlinarith)
    obtain ⟨t2, h2, hR2, _, hmin2, hmax2, hL2⟩ := Lin.putLoop_spec hash t1 key val 0 hR1
    refine ⟨t2, g1, ?_, hR2, hmin2.trans hmin1, hmax2.trans hmax1, ?_⟩
    · rw [Lin.put]
      simp only [hcheck, if_true, hr, h2]
    · intro k' v'
      rw [hL2, hL1]
  · have hroom : Lin.Room hash 1 t := by
      refine ⟨h.1, ?_⟩
      unfold ratioGE at hcheck
      simp only [decide_eq_true_eq, not_le] at hcheck
      push_cast
      linarith
    obtain ⟨t', h1, h2, _, h4, h5, h6⟩ := Lin.put_room sh hash (d + 1) t g key val 0 hroom
    exact ⟨t', g, h1, h2, h4, h5, h6⟩

theorem Lin.resize_any {sh : Shuffle σ} (hsh : ShufflePerm sh) (hash : K → UInt64) (d : Nat) (t : LinTable K V) (g : σ)
    (m' : Nat) (hI : Lin.InvCore hash t) (hp : symboltable_lpMinM ≤ m' → isPowerOf2 m' = true) :
    ∃ t' g', Lin.resizeWith sh (Lin.put sh hash (d + 2)) t g m' = .ok (t', g') ∧
      (symboltable_lpMinM ≤ m' → Lin.Inv hash t') ∧ (m' < symboltable_lpMinM → t' = t) ∧
      ∀ k v, Lin.Live t' k v ↔ Lin.Live t k v := by
  by_cases hm : m' < symboltable_lpMinM
  · exact ⟨t, g, by simp [Lin.resizeWith, hm], fun h => by omega, fun _ => rfl, fun _ _ => Iff.rfl⟩
  · have hm' : symboltable_lpMinM ≤ m' := Nat.not_lt.1 hm
    obtain ⟨fresh, hnew, hfI, hfm, hfn, hfmin, hfmax, hfempty⟩ :=
      Lin.new_spec (V := V) hash m' t.minLF t.maxLF hI.lf hm' (hp hm')
    obtain ⟨hnd, hmem, hlen⟩ := Lin.all_spec hsh hI g
    have hfold := foldPut_spec (σ := σ) Lin.Live (fun _ t' => Lin.Inv hash t' ∧ t'.minLF = t.minLF ∧ t'.maxLF = t.maxLF)
      (Lin.put sh hash (d + 2))
      (by
        intro r t1 g1 k v hP
        obtain ⟨t2, g2, h1, h2, h4, h5, h6⟩ := Lin.put_any hsh hash d t1 g1 k v hP.1
        exact ⟨t2, g2, h1, ⟨h2, h4.trans hP.2.1, h5.trans hP.2.2⟩, h6⟩)
      (Lin.all sh t g).1 fresh (Lin.all sh t g).2 hnd
      (by
        refine ⟨⟨hfI, ?_⟩, hfmin, hfmax⟩
        rw [hfn]
        have := Lin.den_le hfI
        have hd : (0 : Int) < (fresh.maxLF.den : Int) := by exact_mod_cast hfI.lf.maxDen
        push_cast
        linarith)
    obtain ⟨nt, g2, hf, hP, hL⟩ := hfold
    obtain ⟨hinv, hmin, hmax⟩ := hP
    have hcopy := Lin.copy_back t nt hmin hmax
    refine ⟨nt, g2, ?_, fun _ => hinv, fun h => by omega, ?_⟩
    · unfold Lin.resizeWith
      simp only [hm, if_false, hnew, hf, hcopy]
    · intro k v
      rw [hL, hmem]
      constructor
      · rintro (h | ⟨h, _⟩)
        · exact h
        · exact absurd h (hfempty k v)
      · intro h; exact Or.inl h

end AlgoVerif.C02
