import AlgoVerif.Spec.C14S
import AlgoVerif.Proofs.C14Build
/-!
# C14 proofs — graph objects: `AddEdge`, `build`, exact adjacency lists, counters
-/
namespace AlgoVerif.C14

theorem addEdge_kind (o : GObj) (u v w : Int) : (o.addEdge u v w).kind = o.kind := by
  unfold GObj.addEdge
  split
  · split <;> rfl
  · rfl

theorem addEdge_g (o : GObj) (u v w : Int) :
    (o.addEdge u v w).g =
      if o.kind.isDirected then o.g.addEdgeDirected u v w else o.g.addEdgeUndirected u v w := by
  unfold GObj.addEdge
  by_cases h : (o.g.isVertexValid u && o.g.isVertexValid v) = true
  · rw [if_pos h]; split <;> rfl
  · rw [if_neg h]
    unfold Graph.addEdgeDirected Graph.addEdgeUndirected
    simp [h]

theorem foldl_addEdge_kind (es : List EdgeIn) (o : GObj) :
    (es.foldl (fun o e => o.addEdge e.u e.v e.w) o).kind = o.kind := by
  induction es generalizing o with
  | nil => rfl
  | cons e es ih => simp only [List.foldl_cons]; rw [ih, addEdge_kind]

theorem foldl_addEdge_g (es : List EdgeIn) (o : GObj) :
    (es.foldl (fun o e => o.addEdge e.u e.v e.w) o).g =
      if o.kind.isDirected then es.foldl (fun g e => g.addEdgeDirected e.u e.v e.w) o.g
      else es.foldl (fun g e => g.addEdgeUndirected e.u e.v e.w) o.g := by
  induction es generalizing o with
  | nil => simp
  | cons e es ih =>
    simp only [List.foldl_cons]
    rw [ih, addEdge_kind, addEdge_g]
    split <;> rfl

theorem build_kind (k : Kind) (n : Nat) (es : List EdgeIn) : (GObj.build k n es).kind = k := by
  unfold GObj.build; rw [foldl_addEdge_kind]; rfl

/-- the adjacency structure of a built object is the one `Props/C14.lean` speaks about -/
theorem build_g (k : Kind) (n : Nat) (es : List EdgeIn) : (GObj.build k n es).g = theGraph k n es := by
  unfold GObj.build theGraph buildDirected buildUndirected
  rw [foldl_addEdge_g]; rfl

theorem build_append (k : Kind) (n : Nat) (es : List EdgeIn) (e : EdgeIn) :
    GObj.build k n (es ++ [e]) = (GObj.build k n es).addEdge e.u e.v e.w := by
  unfold GObj.build; rw [List.foldl_append]; rfl

theorem theGraph_wf (k : Kind) (n : Nat) (es : List EdgeIn) : (theGraph k n es).WF := by
  unfold theGraph; split
  · exact (buildDirected_spec n es).1
  · exact (buildUndirected_spec n es).1

theorem theGraph_n (k : Kind) (n : Nat) (es : List EdgeIn) : (theGraph k n es).n = n := by
  unfold theGraph; split
  · exact (buildDirected_spec n es).2.1
  · exact (buildUndirected_spec n es).2.2.1

/-- the arc relation of the built graph is the edge relation of the list -/
theorem theGraph_hasArc (k : Kind) (n : Nat) (es : List EdgeIn) : (theGraph k n es).HasArc = EdgeRel k n es := by
  funext a b
  unfold theGraph EdgeRel; split
  · exact propext ((buildDirected_spec n es).2.2 a b)
  · exact propext ((buildUndirected_spec n es).2.2.2 a b)

/-! ## exact adjacency lists -/

theorem validE_iff (g : Graph) (u v w : Int) :
    validE g.n ⟨u, v, w⟩ = (g.isVertexValid u && g.isVertexValid v) := by
  simp [validE, Graph.isVertexValid]

theorem adj_addEdgeDirected (k : Kind) (hk : k.isDirected = true) (g : Graph) (hg : g.WF) (u v w : Int) (x : Nat) :
    (g.addEdgeDirected u v w).adj.getD x [] = g.adj.getD x [] ++ arcsOf k g.n ⟨u, v, w⟩ x := by
  unfold Graph.addEdgeDirected arcsOf
  rw [validE_iff]
  by_cases h : (g.isVertexValid u && g.isVertexValid v) = true
  · rw [if_pos h, if_pos h]
    have h' := h
    simp only [Bool.and_eq_true, valid_iff] at h'
    rw [adj_addArc g hg _ (by omega)]
    simp only [hk, Bool.not_true, Bool.false_and]
    by_cases hx : x = u.toNat
    · subst hx; simp
    · have : ¬ u.toNat = x := fun e => hx e.symm
      simp [hx, this]
  · rw [if_neg h, if_neg h]; simp

theorem adj_addEdgeUndirected (k : Kind) (hk : k.isDirected = false) (g : Graph) (hg : g.WF) (u v w : Int) (x : Nat) :
    (g.addEdgeUndirected u v w).adj.getD x [] = g.adj.getD x [] ++ arcsOf k g.n ⟨u, v, w⟩ x := by
  unfold Graph.addEdgeUndirected arcsOf
  rw [validE_iff]
  by_cases h : (g.isVertexValid u && g.isVertexValid v) = true
  · rw [if_pos h, if_pos h]
    have h' := h
    simp only [Bool.and_eq_true, valid_iff] at h'
    have h1 := wf_addArc g hg u.toNat (by omega) ⟨v.toNat, ⟨u.toNat, v.toNat, w⟩⟩ (by show v.toNat < g.n; omega)
    rw [adj_addArc _ h1 _ (by rw [n_addArc]; omega), adj_addArc g hg _ (by omega)]
    simp only [hk, Bool.not_false, Bool.true_and, decide_eq_true_eq]
    by_cases hx : x = u.toNat <;> by_cases hy : x = v.toNat
    · subst hx; simp [← hy]
    · have : ¬ v.toNat = x := fun e => hy e.symm
      subst hx; simp [hy, this]
    · have : ¬ u.toNat = x := fun e => hx e.symm
      subst hy; simp [hx, this]
    · have h1 : ¬ u.toNat = x := fun e => hx e.symm
      have h2 : ¬ v.toNat = x := fun e => hy e.symm
      simp [hx, hy, h1, h2]
  · rw [if_neg h, if_neg h]; simp

theorem foldl_directed_adj (k : Kind) (hk : k.isDirected = true) (es : List EdgeIn) (x : Nat) :
    ∀ g : Graph, g.WF →
      (es.foldl (fun g e => g.addEdgeDirected e.u e.v e.w) g).adj.getD x [] =
        g.adj.getD x [] ++ adjSpec k g.n es x := by
  induction es with
  | nil => intro g _; simp [adjSpec]
  | cons e es ih =>
    intro g hg
    simp only [List.foldl_cons]
    rw [ih _ (wf_addEdgeDirected g hg _ _ _), n_addEdgeDirected, adj_addEdgeDirected k hk g hg]
    simp [adjSpec, List.append_assoc]

theorem foldl_undirected_adj (k : Kind) (hk : k.isDirected = false) (es : List EdgeIn) (x : Nat) :
    ∀ g : Graph, g.WF →
      (es.foldl (fun g e => g.addEdgeUndirected e.u e.v e.w) g).adj.getD x [] =
        g.adj.getD x [] ++ adjSpec k g.n es x := by
  induction es with
  | nil => intro g _; simp [adjSpec]
  | cons e es ih =>
    intro g hg
    simp only [List.foldl_cons]
    rw [ih _ (wf_addEdgeUndirected g hg _ _ _), n_addEdgeUndirected, adj_addEdgeUndirected k hk g hg]
    simp [adjSpec, List.append_assoc]

/-- **`Adj(v)` of a built graph, exactly**: the entries the `AddEdge` calls append, in order -/
theorem theGraph_adj (k : Kind) (n : Nat) (es : List EdgeIn) (x : Nat) :
    (theGraph k n es).adj.getD x [] = adjSpec k n es x := by
  unfold theGraph buildDirected buildUndirected
  cases hk : k.isDirected
  · simp only [Bool.false_eq_true, if_false]
    rw [foldl_undirected_adj k hk es x _ (wf_new n), adj_new]; rfl
  · simp only [if_true]
    rw [foldl_directed_adj k hk es x _ (wf_new n), adj_new]; rfl

/-! ## counters -/

theorem addEdge_n (o : GObj) (u v w : Int) : (o.addEdge u v w).g.n = o.g.n := by
  rw [addEdge_g]; split
  · exact n_addEdgeDirected _ _ _ _
  · exact n_addEdgeUndirected _ _ _ _

theorem addEdge_e (o : GObj) (u v w : Int) :
    (o.addEdge u v w).e = o.e + if validE o.g.n ⟨u, v, w⟩ then 1 else 0 := by
  unfold GObj.addEdge
  rw [validE_iff]
  split
  · split <;> rfl
  · rfl

theorem addEdge_ins (o : GObj) (u v w : Int) :
    (o.addEdge u v w).ins =
      if o.kind.isDirected && validE o.g.n ⟨u, v, w⟩ then o.ins.modify v.toNat (· + 1) else o.ins := by
  unfold GObj.addEdge
  rw [validE_iff]
  by_cases h : (o.g.isVertexValid u && o.g.isVertexValid v) = true
  · rw [if_pos h]; cases hk : o.kind.isDirected <;> simp [h]
  · rw [if_neg h]; simp [h]

theorem foldl_addEdge_n (es : List EdgeIn) (o : GObj) :
    (es.foldl (fun o e => o.addEdge e.u e.v e.w) o).g.n = o.g.n := by
  induction es generalizing o with
  | nil => rfl
  | cons e es ih => simp only [List.foldl_cons]; rw [ih, addEdge_n]

theorem foldl_addEdge_e (es : List EdgeIn) (o : GObj) :
    (es.foldl (fun o e => o.addEdge e.u e.v e.w) o).e = o.e + (es.filter (validE o.g.n)).length := by
  induction es generalizing o with
  | nil => simp
  | cons e es ih =>
    simp only [List.foldl_cons]
    rw [ih, addEdge_e, addEdge_n, List.filter_cons]
    split <;> simp <;> omega

theorem foldl_addEdge_ins (es : List EdgeIn) (o : GObj) :
    (es.foldl (fun o e => o.addEdge e.u e.v e.w) o).ins.size = o.ins.size ∧
    ∀ x, (es.foldl (fun o e => o.addEdge e.u e.v e.w) o).ins.getD x 0 =
      if o.kind.isDirected && decide (x < o.ins.size) then
        o.ins.getD x 0 + (es.filter fun e => validE o.g.n e && decide (e.v.toNat = x)).length
      else o.ins.getD x 0 := by
  induction es generalizing o with
  | nil => constructor <;> simp
  | cons e es ih =>
    obtain ⟨h1, h2⟩ := ih (o.addEdge e.u e.v e.w)
    have hsz : (o.addEdge e.u e.v e.w).ins.size = o.ins.size := by
      rw [addEdge_ins]; split <;> simp
    refine ⟨by simp only [List.foldl_cons]; rw [h1, hsz], ?_⟩
    intro x
    simp only [List.foldl_cons]
    rw [h2 x, addEdge_kind, addEdge_n, hsz, addEdge_ins, List.filter_cons]
    cases hk : o.kind.isDirected
    · simp
    · by_cases hx : x < o.ins.size
      · simp only [Bool.true_and, hx, decide_true, if_true]
        by_cases hv : validE o.g.n e = true
        · simp only [hv, if_true, Bool.true_and]
          rw [getD_eq, getD_eq, Array.getElem?_modify]
          by_cases hxe : e.v.toNat = x
          · have : x < o.ins.size := hx
            simp [hxe, Array.getElem?_eq_getElem this]; omega
          · simp [hxe]
        · simp [hv]
      · have e1 : ∀ a : Array Nat, a.size = o.ins.size → a.getD x 0 = 0 := by
          intro a ha
          rw [getD_eq, Array.getElem?_eq_none_iff.2 (by omega)]; rfl
        simp only [hx, decide_false, Bool.and_false, Bool.false_eq_true, if_false]
        rw [e1 o.ins rfl]
        apply e1
        split <;> simp

/-- `E()` of a built graph: the number of `AddEdge` calls with both endpoints valid -/
theorem build_e (k : Kind) (n : Nat) (es : List EdgeIn) : (GObj.build k n es).e = (es.filter (validE n)).length := by
  unfold GObj.build; rw [foldl_addEdge_e]; simp [GObj.new, Graph.new]

theorem build_n (k : Kind) (n : Nat) (es : List EdgeIn) : (GObj.build k n es).g.n = n := by
  unfold GObj.build; rw [foldl_addEdge_n]; rfl

/-- `ins` of a built directed graph: one slot per vertex, holding the number of stored edges pointing to it -/
theorem build_ins (k : Kind) (hk : k.isDirected = true) (n : Nat) (es : List EdgeIn) :
    (GObj.build k n es).ins.size = n ∧
    ∀ x, x < n → (GObj.build k n es).ins[x]? =
      some (es.filter fun e => validE n e && decide (e.v.toNat = x)).length := by
  obtain ⟨h1, h2⟩ := foldl_addEdge_ins es (GObj.new k n)
  have hs : (GObj.new k n).ins.size = n := by simp [GObj.new, hk]
  refine ⟨by unfold GObj.build; rw [h1, hs], fun x hx => ?_⟩
  have := h2 x
  rw [hs] at this
  simp only [GObj.new, hk, hx, decide_true, Bool.and_self, if_true, Graph.new] at this
  unfold GObj.build
  have hlt : x < (List.foldl (fun o e => o.addEdge e.u e.v e.w) (GObj.new k n) es).ins.size := by rw [h1, hs]; exact hx
  rw [getD_of_lt _ 0 hlt]
  simp only [GObj.new, hk, if_true, Graph.new] at this ⊢
  rw [this]
  simp [hx]

/-! ## accessors of a built object -/

theorem toList_eq_range_map {α : Type} (a : Array α) (d : α) :
    a.toList = (List.range a.size).map fun i => a.getD i d := by
  apply List.ext_getElem
  · simp
  · intro i h1 h2
    simp only [List.getElem_map, List.getElem_range, Array.getElem_toList]
    have : i < a.size := by simpa using h1
    rw [getD_eq, Array.getElem?_eq_getElem this]; rfl

theorem build_adj_get (k : Kind) (n : Nat) (es : List EdgeIn) (x : Nat) (hx : x < n) :
    (GObj.build k n es).g.adj[x]? = some (adjSpec k n es x) := by
  rw [build_g, ← theGraph_adj k n es x]
  apply getD_of_lt
  rw [(theGraph_wf k n es).size, theGraph_n]; exact hx

theorem build_valid (k : Kind) (n : Nat) (es : List EdgeIn) (v : Int) :
    (GObj.build k n es).g.isVertexValid v = (decide (0 ≤ v) && decide (v < (n : Int))) := by
  unfold Graph.isVertexValid; rw [build_n]

theorem build_adjOf (k : Kind) (n : Nat) (es : List EdgeIn) (v : Int) :
    (GObj.build k n es).adjOf v =
      if 0 ≤ v ∧ v < (n : Int) then .ok (some (adjSpec k n es v.toNat)) else .ok none := by
  unfold GObj.adjOf
  rw [build_valid]
  by_cases h : 0 ≤ v ∧ v < (n : Int)
  · rw [if_pos h]
    simp only [h.1, h.2, decide_true, Bool.and_self, if_true]
    rw [build_adj_get k n es v.toNat (by omega)]
  · rw [if_neg h]
    have : (decide (0 ≤ v) && decide (v < (n : Int))) = false := by
      rw [Bool.and_eq_false_iff]; simp only [decide_eq_false_iff_not]
      by_cases h0 : 0 ≤ v
      · exact Or.inr (fun h1 => h ⟨h0, h1⟩)
      · exact Or.inl h0
    rw [this]; rfl

theorem build_outDegree (k : Kind) (n : Nat) (es : List EdgeIn) (v : Int) :
    (GObj.build k n es).outDegree v =
      if 0 ≤ v ∧ v < (n : Int) then .ok ((adjSpec k n es v.toNat).length : Int) else .ok (-1) := by
  unfold GObj.outDegree
  rw [build_valid]
  by_cases h : 0 ≤ v ∧ v < (n : Int)
  · rw [if_pos h]
    simp only [h.1, h.2, decide_true, Bool.and_self, if_true]
    rw [build_adj_get k n es v.toNat (by omega)]
  · rw [if_neg h]
    have : (decide (0 ≤ v) && decide (v < (n : Int))) = false := by
      rw [Bool.and_eq_false_iff]; simp only [decide_eq_false_iff_not]
      by_cases h0 : 0 ≤ v
      · exact Or.inr (fun h1 => h ⟨h0, h1⟩)
      · exact Or.inl h0
    rw [this]; rfl

theorem build_inDegree (k : Kind) (hk : k.isDirected = true) (n : Nat) (es : List EdgeIn) (v : Int) :
    (GObj.build k n es).inDegree v =
      if 0 ≤ v ∧ v < (n : Int) then
        .ok ((es.filter fun e => validE n e && decide (e.v.toNat = v.toNat)).length : Int)
      else .ok (-1) := by
  unfold GObj.inDegree
  rw [build_valid]
  by_cases h : 0 ≤ v ∧ v < (n : Int)
  · rw [if_pos h]
    simp only [h.1, h.2, decide_true, Bool.and_self, if_true]
    rw [(build_ins k hk n es).2 v.toNat (by omega)]
  · rw [if_neg h]
    have : (decide (0 ≤ v) && decide (v < (n : Int))) = false := by
      rw [Bool.and_eq_false_iff]; simp only [decide_eq_false_iff_not]
      by_cases h0 : 0 ≤ v
      · exact Or.inr (fun h1 => h ⟨h0, h1⟩)
      · exact Or.inl h0
    rw [this]; rfl

theorem build_edges (k : Kind) (n : Nat) (es : List EdgeIn) :
    (GObj.build k n es).edges =
      if k.isDirected then (List.range n).flatMap fun v => (adjSpec k n es v).map (·.e)
      else (List.range n).flatMap fun v => ((adjSpec k n es v).filter fun x => decide (v < x.to)).map (·.e) := by
  unfold GObj.edges
  have hsz : (GObj.build k n es).g.adj.size = n := by
    rw [build_g, (theGraph_wf k n es).size, theGraph_n]
  rw [build_kind]
  split
  · rw [toList_eq_range_map _ [], hsz, List.flatMap_map]
    congr 1; funext v
    rw [build_g, theGraph_adj]
  · rw [hsz]
    congr 1; funext v
    rw [build_g, theGraph_adj]

/-! ## Reverse -/

theorem validE_nonneg {n : Nat} {e : EdgeIn} (h : validE n e = true) :
    0 ≤ e.u ∧ e.u < (n : Int) ∧ 0 ≤ e.v ∧ e.v < (n : Int) := by
  simpa [validE, and_assoc] using h

theorem flip_row (k : Kind) (hk : k.isDirected = true) (n : Nat) (v : Nat) (es : List EdgeIn) :
    ((adjSpec k n es v).map fun x => if k.isWeighted then (⟨x.e.b, x.e.a, x.e.w⟩ : EdgeIn) else ⟨x.to, v, x.e.w⟩) =
      (es.filter fun e => validE n e && decide (e.u.toNat = v)).map fun e => ⟨e.v, e.u, e.w⟩ := by
  induction es with
  | nil => simp [adjSpec]
  | cons e es ih =>
    have hcons : adjSpec k n (e :: es) v = arcsOf k n e v ++ adjSpec k n es v := by simp [adjSpec]
    rw [hcons, List.map_append, ih, List.filter_cons]
    unfold arcsOf
    by_cases hv : validE n e = true
    · obtain ⟨h1, _, h3, _⟩ := validE_nonneg hv
      by_cases hu : e.u.toNat = v
      · simp only [hv, hu, hk, if_true, Bool.not_true, Bool.false_and, Bool.false_eq_true, if_false,
          List.append_nil, List.map_cons, List.map_nil, Bool.and_self, decide_true, List.singleton_append]
        congr 1
        cases k.isWeighted
        · simp only [Bool.false_eq_true, if_false]
          have : ((e.v.toNat : Nat) : Int) = e.v := Int.toNat_of_nonneg h3
          have h' : ((v : Nat) : Int) = e.u := by rw [← hu]; exact Int.toNat_of_nonneg h1
          rw [this, h']
        · simp only [if_true]
          have : ((e.v.toNat : Nat) : Int) = e.v := Int.toNat_of_nonneg h3
          have h' : ((v : Nat) : Int) = e.u := by rw [← hu]; exact Int.toNat_of_nonneg h1
          first | rw [this, h'] | rw [h']
      · simp [hv, hu, hk]
    · simp [hv]

/-- the `AddEdge` calls `Reverse()` makes on a built directed graph, as a function of the edge list -/
theorem build_flipped (k : Kind) (hk : k.isDirected = true) (n : Nat) (es : List EdgeIn) :
    (GObj.build k n es).flipped = flipSpec n es := by
  unfold GObj.flipped flipSpec
  rw [build_n, build_kind]
  congr 1; funext v
  rw [build_g, theGraph_adj]
  exact flip_row k hk n v es

/-- **`Reverse()` of the graph with edge list `es` is the graph with edge list `flipSpec n es`** — a new object,
a function of the receiver's fields at the time of the call -/
theorem build_reverse (k : Kind) (hk : k.isDirected = true) (n : Nat) (es : List EdgeIn) :
    (GObj.build k n es).reverse = GObj.build k n (flipSpec n es) := by
  unfold GObj.reverse
  rw [build_kind, build_n, build_flipped k hk]

/-! ## the flipped edge list -/

theorem mem_flipSpec (n : Nat) (es : List EdgeIn) (x : EdgeIn) :
    x ∈ flipSpec n es ↔ ∃ e ∈ es, validE n e = true ∧ x = ⟨e.v, e.u, e.w⟩ := by
  unfold flipSpec
  simp only [List.mem_flatMap, List.mem_range, List.mem_map, List.mem_filter, Bool.and_eq_true,
    decide_eq_true_eq]
  constructor
  · rintro ⟨v, _, e, ⟨he, hv, _⟩, rfl⟩
    exact ⟨e, he, hv, rfl⟩
  · rintro ⟨e, he, hv, rfl⟩
    obtain ⟨h1, h2, _, _⟩ := validE_nonneg hv
    exact ⟨e.u.toNat, by omega, e, ⟨he, hv, rfl⟩, rfl⟩

theorem validE_flip (n : Nat) (e : EdgeIn) : validE n ⟨e.v, e.u, e.w⟩ = validE n e := by
  simp only [validE]; rw [Bool.and_comm]

/-- the edge relation of the flipped list is the converse relation -/
theorem dirE_flip (n : Nat) (es : List EdgeIn) (a b : Nat) : DirE n (flipSpec n es) a b ↔ DirE n es b a := by
  unfold DirE
  constructor
  · rintro ⟨x, hx, h1, h2, h3, h4, h5, h6⟩
    obtain ⟨e, he, _, rfl⟩ := (mem_flipSpec n es x).1 hx
    exact ⟨e, he, h3, h4, h1, h2, h6, h5⟩
  · rintro ⟨e, he, h1, h2, h3, h4, h5, h6⟩
    refine ⟨⟨e.v, e.u, e.w⟩, (mem_flipSpec n es _).2 ⟨e, he, ?_, rfl⟩, h3, h4, h1, h2, h6, h5⟩
    simp [validE, h1, h2, h3, h4]

theorem sum_zeros (l : List Nat) : (l.map fun _ => 0).sum = 0 := by
  induction l with
  | nil => rfl
  | cons x l ih => simp [ih]

theorem sum_indicator (a : Nat) : ∀ n : Nat,
    ((List.range n).map fun v => if a = v then 1 else 0).sum = if a < n then 1 else 0 := by
  intro n
  induction n with
  | zero => simp
  | succ n ih =>
    rw [List.range_succ, List.map_append, List.sum_append, ih]
    by_cases h : a < n
    · have : ¬ a = n := by omega
      simp [h, this]; omega
    · by_cases h' : a = n
      · subst h'; simp
      · have : ¬ a < n + 1 := by omega
        simp [h, h', this]

/-- `Reverse()` makes exactly one `AddEdge` call per stored edge -/
theorem length_flipSpec (n : Nat) (es : List EdgeIn) : (flipSpec n es).length = (es.filter (validE n)).length := by
  unfold flipSpec
  rw [List.length_flatMap]
  induction es with
  | nil => simp [sum_zeros]
  | cons e es ih =>
    have hsplit : ∀ v, ((List.filter (fun e => validE n e && decide (e.u.toNat = v)) (e :: es)).map
          fun e => (⟨e.v, e.u, e.w⟩ : EdgeIn)).length =
        (if validE n e = true ∧ e.u.toNat = v then 1 else 0) +
        ((List.filter (fun e => validE n e && decide (e.u.toNat = v)) es).map
          fun e => (⟨e.v, e.u, e.w⟩ : EdgeIn)).length := by
      intro v
      rw [List.filter_cons]
      by_cases h : validE n e = true ∧ e.u.toNat = v
      · simp [h.1, h.2]; omega
      · have : (validE n e && decide (e.u.toNat = v)) = false := by
          rw [Bool.and_eq_false_iff]
          by_cases h1 : validE n e = true
          · right; simpa using fun h2 => h ⟨h1, h2⟩
          · left; simpa using h1
        simp [this, h]
    simp only [hsplit]
    rw [List.filter_cons]
    have hadd : ∀ (f g : Nat → Nat) (l : List Nat), (l.map fun v => f v + g v).sum = (l.map f).sum + (l.map g).sum := by
      intro f g l
      induction l with
      | nil => simp
      | cons x l ih => simp [ih]; omega
    rw [hadd, ih]
    by_cases hv : validE n e = true
    · obtain ⟨h1, h2, _, _⟩ := validE_nonneg hv
      simp only [hv, true_and, if_true, List.length_cons]
      rw [sum_indicator]
      have : e.u.toNat < n := by omega
      simp [this]; omega
    · simp [hv, sum_zeros]

end AlgoVerif.C14
