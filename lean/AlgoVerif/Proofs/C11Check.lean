import AlgoVerif.Proofs.C11Sound
/-!
# C11 — the executable validator implies `SoundTable`

`soundOK g b = true` (the first group of checks of `Spec.tableCheck`) makes every table whose cells are subsets
of the raw table's cells (in particular the raw table itself and the table after `ResolveConflicts`) a
`SoundTable` for the item sets `itemsAt b.states`.
-/
namespace AlgoVerif.C11.Sound
open AlgoVerif AlgoVerif.Gram AlgoVerif.C11 AlgoVerif.C11.Spec

theorem lookup_mem {α β} [BEq α] [LawfulBEq α] (k : α) :
    ∀ (l : List (α × β)) (v : β), l.lookup k = some v → (k, v) ∈ l
  | [], v, h => by simp [List.lookup] at h
  | (k', b) :: es, v, h => by
    rw [List.lookup_cons] at h
    cases hk : (k == k') with
    | true =>
      rw [hk] at h
      have : k = k' := by simpa using hk
      simp only [Option.some.injEq] at h
      subst h; subst this; simp
    | false =>
      rw [hk] at h
      exact List.mem_cons_of_mem _ (lookup_mem k es v h)

theorem mem_cell {T : Table} {s : Int} {a : String} {act : Action} (h : act ∈ T.cell s a) :
    ∃ acts, ((s, a), acts) ∈ T.actions ∧ act ∈ acts := by
  unfold Table.cell at h
  cases hl : T.actions.lookup (s, a) with
  | none => rw [hl] at h; simp at h
  | some acts =>
    rw [hl] at h
    exact ⟨acts, lookup_mem _ _ _ hl, by simpa using h⟩

theorem mem_goto {T : Table} {s : Int} {A : String} {t : Int} (h : T.goto s A = some t) :
    ((s, A), t) ∈ T.gotos := lookup_mem _ _ _ h

theorem shift_mem_transitions {T : Table} {s : Int} {a : String} {acts : List Action} {t : Int}
    (he : ((s, a), acts) ∈ T.actions) (ht : Action.shift t ∈ acts) :
    (s, Sym.term a, t) ∈ transitions T := by
  unfold transitions
  apply List.mem_append_left
  rw [List.mem_flatMap]
  refine ⟨((s, a), acts), he, ?_⟩
  rw [List.mem_filterMap]
  exact ⟨Action.shift t, ht, rfl⟩

theorem goto_mem_transitions {T : Table} {s : Int} {A : String} {t : Int}
    (he : ((s, A), t) ∈ T.gotos) : (s, Sym.nonterm A, t) ∈ transitions T := by
  unfold transitions
  apply List.mem_append_right
  rw [List.mem_map]
  exact ⟨((s, A), t), he, rfl⟩

theorem justified_of_check {src : List Item} {X : Sy} {it : Item} (h : itemJustified src X it = true) :
    Justified src X it := by
  unfold itemJustified at h
  unfold Justified
  simp only [Bool.or_eq_true, Bool.and_eq_true, beq_iff_eq, List.any_eq_true] at h
  rcases h with h | ⟨h1, j, hj, h2, h3⟩
  · exact Or.inl h
  · exact Or.inr ⟨h1, j, hj, h2, h3⟩

theorem itemsAt_neg (S : StateMap) : itemsAt S (-1) = [] := by simp [itemsAt]

theorem itemsAt_mem_range {S : StateMap} {s : Int} {it : Item} (h : it ∈ itemsAt S s) :
    0 ≤ s ∧ s.toNat < S.length := by
  unfold itemsAt at h
  by_cases hs : s < 0
  · simp [hs] at h
  · simp only [hs, if_false] at h
    refine ⟨by omega, ?_⟩
    rcases Nat.lt_or_ge s.toNat S.length with hlt | hge
    · exact hlt
    · simp [List.getD, List.getElem?_eq_none hge] at h

theorem soundTable_of_check (g : SGrammar) (b : Built) (T : Tbl)
    (hv : soundOK g b = true)
    (hcell : ∀ s a act, act ∈ T.cell s a → ∃ acts, ((s, a), acts) ∈ b.table.actions ∧ act ∈ acts)
    (hgoto : ∀ s A t, T.goto s A = some t → ((s, A), t) ∈ b.table.gotos) :
    SoundTable g b.start (itemsAt b.states) T := by
  unfold soundOK soundChecks at hv
  simp only [List.all_cons, List.all_nil, Bool.and_true, Bool.and_eq_true] at hv
  obtain ⟨hTr, hRed, hAcc, hInit, hNoEnd, _⟩ := hv
  unfold chkTransitions at hTr
  rw [List.all_eq_true] at hTr
  refine ⟨?_, ?_, ?_, ?_, ?_, ?_, itemsAt_neg _⟩
  · -- shifts
    intro s a t hmem
    obtain ⟨acts, he, hact⟩ := hcell s a _ hmem
    have htr := hTr _ (shift_mem_transitions he hact)
    simp only [Bool.and_eq_true, bne_iff_ne, ne_eq, List.all_eq_true] at htr
    refine ⟨?_, htr.1, fun it hit => justified_of_check (htr.2 it hit)⟩
    -- the endmarker is never shifted
    unfold chkNoShiftEnd at hNoEnd
    rw [List.all_eq_true] at hNoEnd
    have := hNoEnd _ he
    simp only [Bool.or_eq_true, Bool.not_eq_true', beq_eq_false_iff_ne, ne_eq, List.all_eq_true] at this
    rcases this with h | h
    · exact h
    · have := h _ hact; simp [isShift] at this
  · -- gotos
    intro s A t hg
    have htr := hTr _ (goto_mem_transitions (hgoto s A t hg))
    simp only [Bool.and_eq_true, bne_iff_ne, ne_eq, List.all_eq_true] at htr
    exact ⟨htr.1, fun it hit => justified_of_check (htr.2 it hit)⟩
  · -- reduces
    intro s a p hmem
    obtain ⟨acts, he, hact⟩ := hcell s a _ hmem
    unfold chkReduces at hRed
    rw [List.all_eq_true] at hRed
    have := hRed _ he
    rw [List.all_eq_true] at this
    have := this _ hact
    simp only [Bool.and_eq_true, List.contains_iff_mem, List.any_eq_true, beq_iff_eq] at this
    exact ⟨this.1, this.2⟩
  · -- accepts
    intro s a hmem
    obtain ⟨acts, he, hact⟩ := hcell s a _ hmem
    unfold chkAccepts at hAcc
    rw [List.all_eq_true] at hAcc
    have := hAcc _ he
    rw [List.all_eq_true] at this
    have := this _ hact
    simp only [Bool.and_eq_true, List.any_eq_true, beq_iff_eq] at this
    exact ⟨this.1, this.2⟩
  · -- state 0
    intro it hit
    unfold chkInitial at hInit
    simp only [Bool.and_eq_true, List.all_eq_true, beq_iff_eq] at hInit
    exact hInit.1 it hit
  · -- the initial item occurs in state 0 only
    intro s it hit hhead hdot
    obtain ⟨hs0, hlt⟩ := itemsAt_mem_range hit
    unfold chkInitial at hInit
    simp only [Bool.and_eq_true, List.all_eq_true, beq_iff_eq, List.mem_range, Bool.or_eq_true,
      Bool.not_eq_true', Bool.and_eq_false_iff, beq_eq_false_iff_ne, ne_eq] at hInit
    have h := hInit.2 s.toNat hlt
    rcases h with h | h
    · omega
    · have hs : ((s.toNat : Nat) : Int) = s := Int.toNat_of_nonneg hs0
      rw [hs] at h
      rcases h it hit with h | h
      · exact absurd hhead h
      · exact absurd hdot h

end AlgoVerif.C11.Sound
