import AlgoVerif.Proofs.C12Sound
/-! The predictive parser accepts every sentence (and says so after finitely many steps) when the table
is conflict-free. -/
set_option linter.unusedSectionVars false
namespace AlgoVerif.C10
open AlgoVerif AlgoVerif.Gram
variable {T N : Type} [DecidableEq T] [DecidableEq N]

theorem DerivesN.append {g : Grammar T N} {a b : Nat} {α β γ δ : List (Sym T N)}
    (h₁ : DerivesN g a α β) (h₂ : DerivesN g b γ δ) : DerivesN g (a + b) (α ++ γ) (β ++ δ) :=
  (h₁.append_right γ).trans (h₂.append_left β)

theorem cell_singleton {g : Grammar T N} (hnd : g.prods.Nodup) {fi : List (Sym T N) → TE T}
    {fo : N → TEnd T} (hcf : conflicts g fi fo = []) {p : GProd T N} {col : Option T}
    (hp : p ∈ g.prods) (hA : p.head ∈ g.nonterms) (hcol : col ∈ columns g) (hin : InCellP fi fo p col) :
    cell g fi fo p.head col = [p] := by
  have hmem : p ∈ cell g fi fo p.head col := mem_cell.2 ⟨hp, rfl, hin⟩
  have hlen : ¬ (cell g fi fo p.head col).length > 1 := by
    intro hl
    have : (p.head, col) ∈ conflicts g fi fo := by
      unfold conflicts
      apply List.mem_flatMap.2
      refine ⟨p.head, hA, ?_⟩
      apply List.mem_filterMap.2
      exact ⟨col, hcol, by simp [hl]⟩
    rw [hcf] at this; cases this
  match hc : cell g fi fo p.head col, hmem, hlen with
  | [x], hmem, _ =>
    simp at hmem; subst hmem; rfl
  | [], hmem, _ => cases hmem
  | _ :: _ :: _, _, hlen => simp at hlen

/-- what the completeness argument needs from the table and from FIRST / FOLLOW -/
structure TableComplete (g : Grammar T N) (M : N → Option T → List (GProd T N)) : Prop where
  /-- FIRST / FOLLOW are complete and every textbook entry is the table's only entry -/
  pick : ∀ (p : GProd T N) (col : Option T), p ∈ g.prods → p.head ∈ g.nonterms → col ∈ columns g →
    ((∃ a, col = some a ∧ Spec.First g p.body a) ∨
     (Spec.Eps g p.body ∧ ((∃ a, col = some a ∧ Spec.Follow g p.head a) ∨ (col = none ∧ Spec.FollowEnd g p.head)))) →
    M p.head col = [p]

theorem map_term_injective {a b : List T} (h : a.map (Sym.term (N := N)) = b.map Sym.term) : a = b := by
  induction a generalizing b with
  | nil => cases b with
    | nil => rfl
    | cons _ _ => simp at h
  | cons x xs ih =>
    cases b with
    | nil => simp at h
    | cons y ys =>
      simp at h
      rw [h.1, ih h.2]

theorem parseLoop_complete {g : Grammar T N} (hv : validB g = true)
    {M : N → Option T → List (GProd T N)} (hM : TableComplete g M) :
    ∀ (n : Nat) (stack : List (Sym T N)) (input u : List T) (pos : Nat) (evs : List (Event T N)),
      DerivesN g n stack (input.map Sym.term) →
      Derives g [Sym.nonterm g.start] (u.map Sym.term ++ stack) →
      ∃ fuel E, parseLoop M fuel stack input pos evs = .ok (.accept E) := by
  intro n
  induction n using Nat.strongRecOn with
  | _ n ihn =>
    intro stack
    induction stack with
    | nil =>
      intro input u pos evs hd _
      have := hd.of_nil.1
      have hi : input = [] := by
        cases input with
        | nil => rfl
        | cons _ _ => simp at this
      subst hi
      exact ⟨1, evs.reverse, by simp [parseLoop]⟩
    | cons s σ ihs =>
      intro input u pos evs hd hctx
      have hS : ∀ x, x ∈ [Sym.nonterm (T := T) g.start] → symDeclared g x = true := by
        intro x hx; simp at hx; subst hx; simpa [symDeclared] using valid_start hv
      cases s with
      | term t =>
        obtain ⟨γ', hγ, hd'⟩ := hd.of_term_cons
        cases input with
        | nil => simp at hγ
        | cons a rest =>
          simp at hγ
          obtain ⟨hat, hrest⟩ := hγ
          subst hat
          have hd'' : DerivesN g n σ (rest.map Sym.term) := by rw [hrest]; exact hd'
          have hctx' : Derives g [Sym.nonterm g.start] ((u ++ [a]).map Sym.term ++ σ) := by
            simpa [List.append_assoc] using hctx
          obtain ⟨fuel, E, h⟩ := ihs rest (u ++ [a]) (pos + 1) (Event.tok a pos :: evs) hd'' hctx'
          exact ⟨fuel + 1, E, by simp [parseLoop, h]⟩
      | nonterm A =>
        have hd' : DerivesN g n ([Sym.nonterm A] ++ σ) (input.map Sym.term) := hd
        obtain ⟨n₁, n₂, γ₁, γ₂, hn, hγ, d₁, d₂⟩ := hd'.split
        obtain ⟨v₁, v₂, hin, hv1, hv2⟩ := List.map_eq_append_iff.1 hγ
        subst hv1; subst hv2
        cases n₁ with
        | zero =>
          have := d₁.zero_eq
          cases v₁ with
          | nil => simp at this
          | cons _ _ => simp at this
        | succ k =>
          obtain ⟨p, hp, hpA, dp⟩ := d₁.of_single
          subst hpA
          -- declaredness of what is around
          have hdeclctx := derives_declared hv hctx hS
          have hA : p.head ∈ g.nonterms := by
            have := hdeclctx (Sym.nonterm p.head) (by simp)
            simpa [symDeclared] using this
          have hfull : Derives g [Sym.nonterm g.start] (u.map Sym.term ++ input.map Sym.term) :=
            hctx.trans (hd.toDerives.append_left _)
          have hdeclin : ∀ a, a ∈ input → a ∈ g.terms := by
            intro a ha
            have := derives_declared hv hfull hS (Sym.term a) (by simp [ha])
            simpa [symDeclared] using this
          have hcol : input.head? ∈ columns g := by
            cases input with
            | nil => exact mem_columns_none
            | cons a _ => exact mem_columns_some (hdeclin a (by simp))
          have hσ : Derives g σ (v₂.map Sym.term) := d₂.toDerives
          have hctx2 : Derives g [Sym.nonterm g.start] (u.map Sym.term ++ [Sym.nonterm p.head] ++ v₂.map Sym.term) := by
            have := hctx.trans ((hσ.append_left [Sym.nonterm p.head]).append_left (u.map Sym.term))
            simpa [List.append_assoc] using this
          have hpick : M p.head input.head? = [p] := by
            apply hM.pick p _ hp hA hcol
            cases v₁ with
            | cons a v₁' =>
              left
              refine ⟨a, by simp [hin], ?_⟩
              exact ⟨v₁'.map Sym.term, by simpa using dp.toDerives⟩
            | nil =>
              right
              refine ⟨(show Derives g p.body [] by simpa using dp.toDerives), ?_⟩
              cases v₂ with
              | nil =>
                right
                refine ⟨by simp [hin], u.map Sym.term, ?_⟩
                simpa using hctx2
              | cons a v₂' =>
                left
                refine ⟨a, by simp [hin], u.map Sym.term, v₂'.map Sym.term, ?_⟩
                simpa [List.append_assoc] using hctx2
          have dnew : DerivesN g (k + n₂) (p.body ++ σ) (input.map Sym.term) := by
            have := DerivesN.append dp d₂
            rw [hin]; simpa using this
          have hctx' : Derives g [Sym.nonterm g.start] (u.map Sym.term ++ (p.body ++ σ)) := by
            refine hctx.trans ?_
            have := Derives.single (Step.mk (g := g) (u.map Sym.term) σ p hp)
            simpa [List.append_assoc] using this
          obtain ⟨fuel, E, h⟩ := ihn (k + n₂) (by omega) (p.body ++ σ) input u pos (Event.prod p :: evs) dnew hctx'
          exact ⟨fuel + 1, E, by simp [parseLoop, hpick, h]⟩

/-- conflict-free table from exact FIRST / complete FOLLOW ⇒ the requirements of the argument -/
theorem cell_tableComplete {g : Grammar T N} (hnd : g.prods.Nodup) {o₁ o₂ : IterOrder T N}
    (h₁ : o₁.Fair) (h₂ : o₂.Fair) {an : Analysis T N} (h : analyse g o₁ o₂ = .ok an)
    (hcf : conflicts g (firstStr an.first) an.follow = []) :
    TableComplete g (cell g (firstStr an.first) an.follow) := by
  constructor
  intro p col hp hA hcol hcase
  apply cell_singleton hnd hcf hp hA hcol
  have hf := (analyse_ok h).1
  rcases hcase with ⟨a, rfl, ha⟩ | ⟨he, ⟨a, rfl, ha⟩ | ⟨rfl, ha⟩⟩
  · exact Or.inl ((first_exact_terms h₁ hf _ a).2 ha)
  · exact Or.inr ⟨(first_exact_eps h₁ hf _).2 he, (follow_complete h₁ h₂ h p.head).1 a ha⟩
  · exact ⟨(first_exact_eps h₁ hf _).2 he, (follow_complete h₁ h₂ h p.head).2 ha⟩

end AlgoVerif.C10
