import AlgoVerif.Proofs.C14Cycle
/-!
# C14 proofs — `Orders(DFS)` on an acyclic graph and `Topological`

Client of the DFS rule with the `Orders` visitors.  On an acyclic graph every arc met during the traversal
leads to an unvisited or to a *finished* vertex (an arc into a vertex still in progress would close a
cycle, because every vertex in progress reaches the current one).  Hence when a vertex is appended to the
post-order all its successors are already in it; the reverse post-order is a topological order.
-/
namespace AlgoVerif.C14

theorem ordersVisitors_allTrue : ordersVisitors.AllTrue :=
  ⟨fun _ _ => rfl, fun _ _ => rfl, fun _ _ _ _ => rfl⟩

/-- `y` occurs strictly before `x` in `l` -/
def Before (l : List Nat) (y x : Nat) : Prop := ∃ l1 l2, l = l1 ++ x :: l2 ∧ y ∈ l1

theorem Before.append {l : List Nat} {y x : Nat} (h : Before l y x) (m : List Nat) : Before (l ++ m) y x := by
  obtain ⟨l1, l2, rfl, hy⟩ := h
  exact ⟨l1, l2 ++ m, by simp, hy⟩

theorem nodup_reverse {l : List Nat} (h : l.Nodup) : l.reverse.Nodup := by
  unfold List.Nodup at *
  rw [List.pairwise_reverse]
  exact h.imp (fun h => Ne.symm h)

/-- the post-order so far -/
def postL (st : TState Orders) : List Nat := st.s.postOrder.toList

/-- visited but not yet finished -/
def InProg (st : TState Orders) (x : Nat) : Prop := Vis st.visited x ∧ x ∉ postL st

structure PostInv (g : Graph) (st : TState Orders) : Prop where
  vis : ∀ x ∈ postL st, Vis st.visited x
  nodup : (postL st).Nodup
  succ : ∀ x ∈ postL st, ∀ y, g.HasArc x y → Before (postL st) y x

structure TopoMid (g : Graph) (v : Nat) (st : TState Orders) (done : List Arc) (cur : TState Orders) : Prop where
  inv : PostInv g cur
  anc : ∀ a, InProg st a → Reach g.HasArc a v
  unv : ¬ Vis st.visited v
  prog : ∀ a, InProg cur a ↔ (InProg st a ∨ a = v)
  ext : ∃ m, postL cur = postL st ++ m
  done : ∀ x ∈ done, x.to ∈ postL cur

structure TopoPost (g : Graph) (v : Nat) (st st' : TState Orders) : Prop where
  inv : PostInv g st'
  prog : ∀ a, InProg st' a ↔ InProg st a
  ext : ∃ m, postL st' = postL st ++ m
  self : v ∈ postL st'

theorem dfs_orders {g : Graph} (hg : g.WF) (hac : Acyclic g.HasArc) :
    ∀ fuel v (st : TState Orders),
      (PostInv g st ∧ ∀ a, InProg st a → Reach g.HasArc a v) →
      st.visited.size = g.n → st.visited[v]? = some false → cntF st.visited ≤ fuel →
      ∃ st', dfs g ordersVisitors fuel v st = .ok st' ∧ TopoPost g v st st' ∧
        StdPost g v st.visited st'.visited := by
  apply dfs_rule g hg ordersVisitors ordersVisitors_allTrue
    (fun v st => PostInv g st ∧ ∀ a, InProg st a → Reach g.HasArc a v)
    (fun v st st' => TopoPost g v st st')
    (fun v st done _ cur => TopoMid g v st done cur)
  · -- enter
    intro v st hpre hsize hunv
    have hvlt : v < st.visited.size := by
      by_cases hx : v < st.visited.size
      · exact hx
      · simp [Array.getElem?_eq_none (Nat.le_of_not_lt hx)] at hunv
    have hnv := not_vis_of_false hunv
    have hpl : postL (⟨st.visited.set! v true, (callV ordersVisitors.pre v st.s).1⟩ : TState Orders) = postL st := rfl
    refine ⟨⟨?_, ?_, ?_⟩, hpre.2, hnv, ?_, ⟨[], by rw [hpl]; simp⟩, by simp⟩
    · intro x hx; rw [hpl] at hx; exact vis_set_of_vis (hpre.1.vis x hx)
    · rw [hpl]; exact hpre.1.nodup
    · intro x hx y hy; rw [hpl] at hx ⊢; exact hpre.1.succ x hx y hy
    · intro a
      unfold InProg
      rw [hpl]
      show (Vis (st.visited.set! v true) a ∧ a ∉ postL st) ↔ _
      rw [vis_set]
      constructor
      · rintro ⟨⟨rfl, _⟩ | h1, h2⟩
        · exact Or.inr rfl
        · exact Or.inl ⟨h1, h2⟩
      · rintro (⟨h1, h2⟩ | rfl)
        · exact ⟨Or.inr h1, h2⟩
        · exact ⟨Or.inl ⟨rfl, hvlt⟩, fun h => hnv (hpre.1.vis _ h)⟩
  · -- skip: the target is visited, hence finished (otherwise a cycle)
    intro v st done x rest cur hm hs hvis
    have hxmem : x ∈ g.adj.getD v [] := by rw [hs.adj]; simp
    have harc : g.HasArc v x.to := Graph.HasArc.of_mem hxmem
    have hfin : x.to ∈ postL cur := by
      by_cases h : x.to ∈ postL cur
      · exact h
      · exfalso
        have hp : InProg cur x.to := ⟨hvis, h⟩
        rcases (hm.prog x.to).1 hp with h1 | h1
        · exact hac v x.to harc (hm.anc x.to h1)
        · rw [h1] at harc
          exact hac v v harc (.refl v)
    exact { hm with
      done := by
        intro y hy
        rcases List.mem_append.1 hy with h | h
        · exact hm.done y h
        · have : y = x := by simpa using h
          subst this; exact hfin }
  · -- call
    intro v st done x rest cur hm hs hunv
    have hxmem : x ∈ g.adj.getD v [] := by rw [hs.adj]; simp
    have harc : g.HasArc v x.to := Graph.HasArc.of_mem hxmem
    have hce : (callE ordersVisitors.edge v x.to x.e.w cur.s).1 = cur.s := rfl
    rw [hce]
    refine ⟨⟨hm.inv, ?_⟩, ?_⟩
    · intro a ha
      rcases (hm.prog a).1 ha with h1 | rfl
      · exact .tail (hm.anc a h1) harc
      · exact Reach.single harc
    · intro cur' hp _
      obtain ⟨m1, hm1⟩ := hm.ext
      obtain ⟨m2, hm2⟩ := hp.ext
      exact
        { inv := hp.inv
          anc := hm.anc
          unv := hm.unv
          prog := fun a => (hp.prog a).trans (hm.prog a)
          ext := ⟨m1 ++ m2, by rw [hm2]; show postL cur ++ m2 = _; rw [hm1]; simp⟩
          done := by
            intro y hy
            rcases List.mem_append.1 hy with h | h
            · rw [hm2]; exact List.mem_append_left _ (hm.done y h)
            · have : y = x := by simpa using h
              subst this; exact hp.self }
  · -- exit: append v to the post-order
    intro v st done cur hm hs
    have hpl : postL (⟨cur.visited, (callV ordersVisitors.post v cur.s).1⟩ : TState Orders) = postL cur ++ [v] := by
      show (cur.s.postOrder.push v).toList = _
      simp [postL]
    have hvprog : InProg cur v := (hm.prog v).2 (Or.inr rfl)
    have hall : ∀ y, g.HasArc v y → y ∈ postL cur := by
      intro y ⟨a, ha, e⟩
      rw [hs.adj] at ha
      exact e ▸ hm.done a (by simpa using ha)
    obtain ⟨m1, hm1⟩ := hm.ext
    refine ⟨⟨?_, ?_, ?_⟩, ?_, ⟨m1 ++ [v], by rw [hpl, hm1]; simp⟩, by rw [hpl]; simp⟩
    · intro x hx
      rw [hpl] at hx
      rcases List.mem_append.1 hx with h | h
      · exact hm.inv.vis x h
      · have : x = v := by simpa using h
        subst this; exact hvprog.1
    · rw [hpl]
      rw [List.nodup_append]
      refine ⟨hm.inv.nodup, by simp, ?_⟩
      intro a ha b hb
      have : b = v := by simpa using hb
      subst this
      intro e; subst e; exact hvprog.2 ha
    · intro x hx y hy
      rw [hpl] at hx ⊢
      rcases List.mem_append.1 hx with h | h
      · exact (hm.inv.succ x h y hy).append [v]
      · have : x = v := by simpa using h
        subst this
        exact ⟨postL cur, [], rfl, hall y hy⟩
    · intro a
      unfold InProg
      rw [hpl]
      show (Vis cur.visited a ∧ a ∉ postL cur ++ [v]) ↔ _
      have := hm.prog a
      unfold InProg at this
      constructor
      · rintro ⟨h1, h2⟩
        have h3 : a ∉ postL cur := fun h => h2 (List.mem_append_left _ h)
        have h4 : a ≠ v := fun e => h2 (by simp [e])
        rcases this.1 ⟨h1, h3⟩ with h | h
        · exact h
        · exact absurd h h4
      · intro h
        have h5 := this.2 (Or.inl h)
        refine ⟨h5.1, ?_⟩
        intro h6
        rcases List.mem_append.1 h6 with h7 | h7
        · exact h5.2 h7
        · have : a = v := by simpa using h7
          subst this; exact hm.unv h.1

/-- the loop of `Orders(DFS)` over the vertices, on an acyclic graph -/
theorem ordersLoop_dfs {g : Graph} (hg : g.WF) (hac : Acyclic g.HasArc) :
    ∀ vs, (∀ v ∈ vs, v < g.n) → ∀ st : TState Orders, st.visited.size = g.n → PostInv g st →
      (∀ a, ¬ InProg st a) →
      ∃ st', ordersLoop g .dfs vs st = .ok st' ∧ st'.visited.size = g.n ∧ PostInv g st' ∧
        (∀ a, ¬ InProg st' a) ∧ (∀ x, Vis st.visited x → Vis st'.visited x) ∧
        ∀ v ∈ vs, Vis st'.visited v := by
  intro vs
  induction vs with
  | nil =>
    intro _ st hsz hinv hnp
    exact ⟨st, rfl, hsz, hinv, hnp, fun _ h => h, by simp⟩
  | cons v vs ih =>
    intro hvs st hsz hinv hnp
    have hvn : v < g.n := hvs v (by simp)
    have hvs' : ∀ w ∈ vs, w < g.n := fun w hw => hvs w (by simp [hw])
    rcases vis_or_false (by rw [hsz]; exact hvn : v < st.visited.size) with h1 | h1
    · obtain ⟨st', k1, k2, k3, k4, k5, k6⟩ := ih hvs' st hsz hinv hnp
      refine ⟨st', ?_, k2, k3, k4, k5, ?_⟩
      · have : st.visited[v]? = some true := h1
        simp only [ordersLoop, this]; exact k1
      · intro w hw
        rcases List.mem_cons.1 hw with rfl | h
        · exact k5 _ h1
        · exact k6 w h
    · have hcnt : cntF st.visited ≤ g.n + 1 := by
        have := cntF_le_size st.visited
        rw [hsz] at this; omega
      obtain ⟨st1, hd, hp, hstd⟩ := dfs_orders hg hac (g.n + 1) v st
        ⟨hinv, fun a ha => absurd ha (hnp a)⟩ hsz h1 hcnt
      have hnp1 : ∀ a, ¬ InProg st1 a := fun a ha => hnp a ((hp.prog a).1 ha)
      obtain ⟨st', k1, k2, k3, k4, k5, k6⟩ := ih hvs' st1 hstd.size hp.inv hnp1
      refine ⟨st', ?_, k2, k3, k4, fun x hx => k5 x (hstd.grows x hx), ?_⟩
      · simp only [ordersLoop, h1, traverse, hd]; exact k1
      · intro w hw
        rcases List.mem_cons.1 hw with rfl | h
        · exact k5 _ hstd.self
        · exact k6 w h

/-- `Orders(DFS)` on an acyclic graph: the reverse post-order is a topological order of all vertices -/
theorem orders_dfs_acyclic {g : Graph} (hg : g.WF) (hac : Acyclic g.HasArc) :
    ∃ o, g.orders .dfs = .ok o ∧ IsPermOfRange g.n o.reversePostOrder ∧
      RespectsArcs g.HasArc o.reversePostOrder := by
  let o0 : Orders := { preRank := Array.replicate g.n 0, postRank := Array.replicate g.n 0,
                       preOrder := #[], postOrder := #[] }
  let st0 : TState Orders := ⟨Array.replicate g.n false, o0⟩
  have hinv0 : PostInv g st0 :=
    ⟨by intro x hx; simp [postL, st0, o0] at hx, by simp [postL, st0, o0],
     by intro x hx; simp [postL, st0, o0] at hx⟩
  obtain ⟨st, h1, h2, h3, h4, _, h6⟩ :=
    ordersLoop_dfs hg hac (List.range g.n) (fun v hv => List.mem_range.1 hv) st0 (by simp [st0]) hinv0
      (fun a ha => vis_replicate_false ha.1)
  refine ⟨st.s, ?_, ⟨?_, ?_⟩, ?_⟩
  · simp only [Graph.orders]
    show (match ordersLoop g .dfs (List.range g.n) st0 with
      | .ok st => Outcome.ok st.s | .panic => .panic | .diverge => .diverge) = _
    rw [h1]
  · show (postL st).reverse.Nodup
    exact nodup_reverse h3.nodup
  · intro v
    show v ∈ (postL st).reverse ↔ _
    rw [List.mem_reverse]
    constructor
    · intro hv; rw [← h2]; exact vis_lt (h3.vis v hv)
    · intro hv
      have hvis := h6 v (List.mem_range.2 hv)
      by_cases h : v ∈ postL st
      · exact h
      · exact absurd ⟨hvis, h⟩ (h4 v)
  · intro u v e
    have hu : u ∈ postL st := by
      have hvis := h6 u (List.mem_range.2 (hg.src_lt e))
      by_cases h : u ∈ postL st
      · exact h
      · exact absurd ⟨hvis, h⟩ (h4 u)
    obtain ⟨l1, l2, hl, hv⟩ := h3.succ u hu v e
    obtain ⟨a, b, rfl⟩ := List.append_of_mem hv
    refine ⟨l2.reverse, b.reverse, a.reverse, ?_⟩
    show (postL st).reverse = _
    rw [hl]; simp

/-! ## `Rank` -/

theorem rankLoop_spec : ∀ (vs : List Nat) (i : Nat) (rank : Array Nat), (∀ v ∈ vs, v < rank.size) → vs.Nodup →
    ∃ r, rankLoop vs i rank = .ok r ∧ r.size = rank.size ∧
      (∀ j v, vs[j]? = some v → r[v]? = some (i + j)) ∧ (∀ v, v ∉ vs → r[v]? = rank[v]?) := by
  intro vs
  induction vs with
  | nil => intro i rank _ _; exact ⟨rank, rfl, rfl, by simp, fun _ _ => rfl⟩
  | cons v vs ih =>
    intro i rank hlt hnd
    have hv : v < rank.size := hlt v (by simp)
    have hnd' := List.nodup_cons.1 hnd
    obtain ⟨r, k1, k2, k3, k4⟩ := ih (i + 1) (rank.set! v i)
      (fun w hw => by rw [size_set!]; exact hlt w (by simp [hw])) hnd'.2
    refine ⟨r, by simp only [rankLoop, hv, if_true]; exact k1, by rw [k2, size_set!], ?_, ?_⟩
    · intro j w hj
      cases j with
      | zero =>
        simp at hj; subst hj
        rw [k4 v hnd'.1, getElem?_set!_self _ _ hv]; simp
      | succ j =>
        have := k3 j w (by simpa using hj)
        rw [this]; congr 1; omega
    · intro w hw
      have hw' : w ∉ vs := fun h => hw (by simp [h])
      have hne : v ≠ w := fun e => hw (by simp [e])
      rw [k4 w hw', getElem?_set!_ne _ _ hne]

/-- **Topological**: returns for every graph; an order is reported iff the graph is acyclic; the reported
order lists every vertex once, every arc goes forward in it, and `rank` is its inverse. -/
theorem topological_spec {g : Graph} (hg : g.WF) :
    ∃ t, g.topological = .ok t ∧
      (t.order.isSome ↔ Acyclic g.HasArc) ∧ (t.rank.isSome ↔ t.order.isSome) ∧
      ∀ order, t.order = some order →
        IsPermOfRange g.n order ∧ RespectsArcs g.HasArc order ∧
        ∃ rank : Array Nat, t.rank = some rank ∧ rank.size = g.n ∧
          ∀ (j v : Nat), order[j]? = some v → rank[v]? = some j := by
  obtain ⟨c, hc, _, hiff⟩ := directedCycle_spec hg
  cases hcl : c.cycleList with
  | some cyc =>
    refine ⟨⟨none, none⟩, by simp [Graph.topological, hc, hcl], ?_, by simp, by simp⟩
    have : ¬ Acyclic g.HasArc := fun h => by rw [← hiff, hcl] at h; simp at h
    simp [this]
  | none =>
    have hac : Acyclic g.HasArc := hiff.1 hcl
    obtain ⟨o, ho, hperm, hresp⟩ := orders_dfs_acyclic hg hac
    obtain ⟨r, k1, k2, k3, _⟩ := rankLoop_spec o.reversePostOrder 0 (Array.replicate g.n 0)
      (by intro v hv; simp; exact (hperm.2 v).1 hv) hperm.1
    refine ⟨⟨some o.reversePostOrder, some r⟩, by simp [Graph.topological, hc, hcl, ho, k1], by simp [hac],
      by simp, ?_⟩
    intro order ho'
    have : o.reversePostOrder = order := by simpa using ho'
    subst this
    exact ⟨hperm, hresp, r, rfl, by simpa using k2, fun j v hj => by simpa using k3 j v hj⟩

end AlgoVerif.C14
