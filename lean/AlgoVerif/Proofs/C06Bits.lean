import AlgoVerif.Model.C06Run
/-!
# C06 — `bitString` operations characterised against the zero-padded bit sequence

`kbit b i` is bit `i` (0-based, most significant bit of the first byte first) of the bytes of `b`
followed by infinitely many zero bits — the sequence the Patricia trie works on.
-/
namespace AlgoVerif.C06

/-- bit `i` of the zero-padded bit sequence of `b` -/
def kbit (b : Key) (i : Nat) : Bool :=
  match b[i / 8]? with
  | none => false
  | some x => x.toNat.testBit (7 - i % 8)

theorem kbit_nil (i : Nat) : kbit [] i = false := by simp [kbit]

theorem kbit_cons_lt (x : UInt8) (xs : Key) {i : Nat} (h : i < 8) : kbit (x :: xs) i = x.toNat.testBit (7 - i) := by
  have h1 : i / 8 = 0 := by omega
  have h2 : i % 8 = i := by omega
  simp [kbit, h1, h2]

theorem kbit_cons_add (x : UInt8) (xs : Key) (i : Nat) : kbit (x :: xs) (i + 8) = kbit xs i := by
  have h1 : (i + 8) / 8 = i / 8 + 1 := by omega
  have h2 : (i + 8) % 8 = i % 8 := by omega
  simp [kbit, h1, h2]

theorem kbit_of_len_le (b : Key) {i : Nat} (h : 8 * b.length ≤ i) : kbit b i = false := by
  have : b[i / 8]? = none := by rw [List.getElem?_eq_none_iff]; omega
  simp [kbit, this]

/-! ## bytes -/

theorem mask_testBit_fin : ∀ n : Fin 256, ∀ k : Fin 8,
    ((UInt8.ofNat n.val &&& ((0x80 : UInt8) >>> (k.val).toUInt8)) != 0) = n.val.testBit (7 - k.val) := by
  decide +kernel

theorem u8_ofNat_toNat (x : UInt8) : UInt8.ofNat x.toNat = x := by simp

theorem mask_testBit (x : UInt8) {k : Nat} (hk : k < 8) :
    ((x &&& ((0x80 : UInt8) >>> k.toUInt8)) != 0) = x.toNat.testBit (7 - k) := by
  have := mask_testBit_fin ⟨x.toNat, x.toNat_lt⟩ ⟨k, hk⟩
  simpa using this

theorem bitLen_spec_fin : ∀ n : Fin 256, n.val ≠ 0 →
    n.val.testBit (BitString.bitLen (UInt8.ofNat n.val) - 1) = true ∧
    1 ≤ BitString.bitLen (UInt8.ofNat n.val) ∧ BitString.bitLen (UInt8.ofNat n.val) ≤ 8 ∧
    ∀ j : Fin 8, BitString.bitLen (UInt8.ofNat n.val) ≤ j.val → n.val.testBit j.val = false := by
  decide +kernel

theorem bitLen_spec (z : UInt8) (hz : z ≠ 0) :
    z.toNat.testBit (BitString.bitLen z - 1) = true ∧ 1 ≤ BitString.bitLen z ∧ BitString.bitLen z ≤ 8 ∧
    ∀ j, BitString.bitLen z ≤ j → z.toNat.testBit j = false := by
  have hz' : z.toNat ≠ 0 := by
    intro h; apply hz; exact UInt8.toNat_inj.mp (by simpa using h)
  have := bitLen_spec_fin ⟨z.toNat, z.toNat_lt⟩ hz'
  simp only [u8_ofNat_toNat] at this
  obtain ⟨h1, h2, h3, h4⟩ := this
  refine ⟨h1, h2, h3, ?_⟩
  intro j hj
  by_cases hj8 : j < 8
  · exact h4 ⟨j, hj8⟩ hj
  · apply Nat.testBit_lt_two_pow
    calc z.toNat < 256 := z.toNat_lt
      _ = 2 ^ 8 := rfl
      _ ≤ 2 ^ j := Nat.pow_le_pow_right (by omega) (by omega)

theorem u8_testBit_high (x : UInt8) {j : Nat} (hj : 8 ≤ j) : x.toNat.testBit j = false := by
  apply Nat.testBit_lt_two_pow
  calc x.toNat < 256 := x.toNat_lt
    _ = 2 ^ 8 := rfl
    _ ≤ 2 ^ j := Nat.pow_le_pow_right (by omega) hj

theorem u8_eq_of_testBit {x y : UInt8} (h : ∀ j, j < 8 → x.toNat.testBit j = y.toNat.testBit j) : x = y := by
  apply UInt8.toNat_inj.mp
  apply Nat.eq_of_testBit_eq
  intro i
  by_cases hi : i < 8
  · exact h i hi
  · rw [u8_testBit_high x (by omega), u8_testBit_high y (by omega)]

/-- two different bytes: `8 - bitLen (x ^^^ y)` is the index (from the most significant bit) of the first
bit at which they differ -/
theorem byte_diff (x y : UInt8) (hxy : x ≠ y) :
    let L := BitString.bitLen (x ^^^ y)
    1 ≤ L ∧ L ≤ 8 ∧ x.toNat.testBit (L - 1) ≠ y.toNat.testBit (L - 1) ∧
      ∀ j, L ≤ j → x.toNat.testBit j = y.toNat.testBit j := by
  have hz : x ^^^ y ≠ 0 := by
    intro h
    apply hxy
    apply u8_eq_of_testBit
    intro j _
    have : (x ^^^ y).toNat.testBit j = false := by rw [h]; simp
    rw [UInt8.toNat_xor, Nat.testBit_xor] at this
    cases hx : x.toNat.testBit j <;> cases hy : y.toNat.testBit j <;> simp_all
  obtain ⟨h1, h2, h3, h4⟩ := bitLen_spec _ hz
  refine ⟨h2, h3, ?_, ?_⟩
  · rw [UInt8.toNat_xor, Nat.testBit_xor] at h1
    intro h; rw [h] at h1; simp at h1
  · intro j hj
    have := h4 j hj
    rw [UInt8.toNat_xor, Nat.testBit_xor] at this
    cases hx : x.toNat.testBit j <;> cases hy : y.toNat.testBit j <;> simp_all

/-! ## `Bit` -/

namespace BitString

/-- a key short enough for its bits to stay below the length positions (`8 * len(k) ≤ lenPos = 2^30`) -/
def Small (k : Key) : Prop := 8 * k.length ≤ lenPos

instance (k : Key) : Decidable (Small k) := by unfold Small; infer_instance

/-- the bit at 0-based index `p` of the sequence `Bit` reads: below `lenPos` the zero-padded bits of the string,
from `lenPos` on one bit per byte — index `lenPos + i - 1` (position `lenPos + i`) is set iff the string has at
least `i` bytes -/
def xbit (b : Key) (p : Nat) : Bool :=
  if p ≥ lenPos then decide (p + 1 - lenPos ≤ b.length) else kbit b p

theorem xbit_lt (b : Key) {p : Nat} (h : p < lenPos) : xbit b p = kbit b p := by
  simp [xbit, show ¬ p ≥ lenPos by omega]

theorem xbit_ge (b : Key) {p : Nat} (h : lenPos ≤ p) : xbit b p = decide (p + 1 - lenPos ≤ b.length) := by
  simp [xbit, h]

/-- `Bit(0)` panics (negative shift amount) -/
theorem bit_zero (b : BitString) : bit b 0 = .panic := by simp [bit, len]

/-- `Bit(pos)` for `pos ≥ 1` is bit `pos - 1` of that sequence -/
theorem bit_succ (b : BitString) (i : Nat) : bit b (i + 1) = .ok (xbit b i) := by
  unfold bit len
  by_cases hl : i + 1 > lenPos
  · simp only [hl, if_true]
    rw [xbit_ge b (by omega)]
  · simp only [hl, if_false]
    rw [xbit_lt b (by omega)]
    by_cases h : i + 1 > 8 * b.length
    · simp only [h, if_true]
      rw [kbit_of_len_le b (by omega)]
    · simp only [h, if_false, Nat.add_one_ne_zero, Nat.add_sub_cancel]
      have hlt : i / 8 < b.length := by omega
      rw [List.getElem?_eq_getElem hlt]
      simp only [kbit, List.getElem?_eq_getElem hlt]
      rw [mask_testBit _ (Nat.mod_lt _ (by omega))]

theorem bit_ok_of_pos (b : BitString) {pos : Nat} (h : 0 < pos) : bit b pos = .ok (xbit b (pos - 1)) := by
  obtain ⟨i, rfl⟩ : ∃ i, pos = i + 1 := ⟨pos - 1, by omega⟩
  simpa using bit_succ b i

/-! ## `DiffPos` -/

theorem diffPosZero_spec (ys : List UInt8) (i : Nat) :
    (diffPosZero ys i = 0 → ∀ j, kbit ys j = false) ∧
    (∀ p, diffPosZero ys i = p + 1 → 8 * i ≤ p ∧ kbit ys (p - 8 * i) = true ∧ ∀ j, j < p - 8 * i → kbit ys j = false) := by
  induction ys generalizing i with
  | nil => simp [diffPosZero, kbit_nil]
  | cons y ys ih =>
    simp only [diffPosZero]
    by_cases hy : (y == 0) = true
    · have hy0 : y = 0 := by simpa using hy
      subst hy0
      simp only [hy, if_true]
      obtain ⟨ih1, ih2⟩ := ih (i + 1)
      have hz : ∀ j, j < 8 → kbit ((0 : UInt8) :: ys) j = false := by
        intro j hj; rw [kbit_cons_lt _ _ hj]; simp
      constructor
      · intro h j
        by_cases hj : j < 8
        · exact hz j hj
        · obtain ⟨j', rfl⟩ : ∃ j', j = j' + 8 := ⟨j - 8, by omega⟩
          rw [kbit_cons_add]; exact ih1 h j'
      · intro p hp
        obtain ⟨h1, h2, h3⟩ := ih2 p hp
        refine ⟨by omega, ?_, ?_⟩
        · have : p - 8 * i = (p - 8 * (i + 1)) + 8 := by omega
          rw [this, kbit_cons_add]; exact h2
        · intro j hj
          by_cases hj8 : j < 8
          · exact hz j hj8
          · obtain ⟨j', rfl⟩ : ∃ j', j = j' + 8 := ⟨j - 8, by omega⟩
            rw [kbit_cons_add]; exact h3 j' (by omega)
    · have hy0 : y ≠ 0 := by simpa using hy
      simp only [hy, Bool.false_eq_true, if_false]
      have hb := byte_diff y 0 hy0
      simp only [UInt8.xor_zero] at hb
      obtain ⟨h1, h2, h3, h4⟩ := hb
      constructor
      · intro h; omega
      · intro p hp
        have hp' : p = (i + 1) * 8 - bitLen y := by omega
        have hd : p - 8 * i = 8 - bitLen y := by omega
        refine ⟨by omega, ?_, ?_⟩
        · rw [hd, kbit_cons_lt _ _ (by omega)]
          have : 7 - (8 - bitLen y) = bitLen y - 1 := by omega
          rw [this]
          simpa using h3
        · intro j hj
          rw [kbit_cons_lt _ _ (by omega)]
          have := h4 (7 - j) (by omega)
          simpa using this

theorem kbit_cons_eq_iff (x y : UInt8) (xs ys : Key) :
    (∀ j, kbit (x :: xs) j = kbit (y :: ys) j) ↔ x = y ∧ ∀ j, kbit xs j = kbit ys j := by
  constructor
  · intro h
    constructor
    · apply u8_eq_of_testBit
      intro j hj
      have := h (7 - j)
      rw [kbit_cons_lt _ _ (by omega), kbit_cons_lt _ _ (by omega)] at this
      have h7 : 7 - (7 - j) = j := by omega
      rwa [h7] at this
    · intro j
      have := h (j + 8)
      rwa [kbit_cons_add, kbit_cons_add] at this
  · rintro ⟨rfl, h⟩ j
    by_cases hj : j < 8
    · rw [kbit_cons_lt _ _ hj, kbit_cons_lt _ _ hj]
    · obtain ⟨j', rfl⟩ : ∃ j', j = j' + 8 := ⟨j - 8, by omega⟩
      rw [kbit_cons_add, kbit_cons_add]; exact h j'

/-- the scanning loop of `DiffPos`, started after `i` equal bytes -/
theorem diffPosFrom_spec (xs ys : List UInt8) (i : Nat) :
    (diffPosFrom xs ys i = 0 → ∀ j, kbit xs j = kbit ys j) ∧
    (∀ p, diffPosFrom xs ys i = p + 1 →
      8 * i ≤ p ∧ kbit xs (p - 8 * i) ≠ kbit ys (p - 8 * i) ∧ ∀ j, j < p - 8 * i → kbit xs j = kbit ys j) := by
  induction xs generalizing ys i with
  | nil =>
    simp only [diffPosFrom]
    obtain ⟨h1, h2⟩ := diffPosZero_spec ys i
    constructor
    · intro h j; rw [kbit_nil, h1 h j]
    · intro p hp
      obtain ⟨a, b, c⟩ := h2 p hp
      refine ⟨a, by rw [kbit_nil, b]; simp, fun j hj => by rw [kbit_nil, c j hj]⟩
  | cons x xs ih =>
    cases ys with
    | nil =>
      simp only [diffPosFrom]
      obtain ⟨h1, h2⟩ := diffPosZero_spec (x :: xs) i
      constructor
      · intro h j; rw [kbit_nil, h1 h j]
      · intro p hp
        obtain ⟨a, b, c⟩ := h2 p hp
        refine ⟨a, by rw [kbit_nil, b]; simp, fun j hj => by rw [kbit_nil, c j hj]⟩
    | cons y ys =>
      simp only [diffPosFrom]
      by_cases hxy : (x == y) = true
      · have hxy' : x = y := by simpa using hxy
        subst hxy'
        simp only [hxy, if_true]
        obtain ⟨ih1, ih2⟩ := ih ys (i + 1)
        constructor
        · intro h
          exact (kbit_cons_eq_iff x x xs ys).mpr ⟨rfl, ih1 h⟩
        · intro p hp
          obtain ⟨h1, h2, h3⟩ := ih2 p hp
          refine ⟨by omega, ?_, ?_⟩
          · have : p - 8 * i = (p - 8 * (i + 1)) + 8 := by omega
            rw [this, kbit_cons_add, kbit_cons_add]; exact h2
          · intro j hj
            by_cases hj8 : j < 8
            · rw [kbit_cons_lt _ _ hj8, kbit_cons_lt _ _ hj8]
            · obtain ⟨j', rfl⟩ : ∃ j', j = j' + 8 := ⟨j - 8, by omega⟩
              rw [kbit_cons_add, kbit_cons_add]; exact h3 j' (by omega)
      · have hne : x ≠ y := by simpa using hxy
        simp only [hxy, Bool.false_eq_true, if_false]
        obtain ⟨h1, h2, h3, h4⟩ := byte_diff x y hne
        constructor
        · intro h; omega
        · intro p hp
          have hd : p - 8 * i = 8 - bitLen (x ^^^ y) := by omega
          refine ⟨by omega, ?_, ?_⟩
          · rw [hd, kbit_cons_lt _ _ (by omega), kbit_cons_lt _ _ (by omega)]
            have : 7 - (8 - bitLen (x ^^^ y)) = bitLen (x ^^^ y) - 1 := by omega
            rw [this]; exact h3
          · intro j hj
            rw [kbit_cons_lt _ _ (by omega), kbit_cons_lt _ _ (by omega)]
            exact h4 (7 - j) (by omega)

/-- the scanning loop returns 0 exactly when the zero-padded bit sequences coincide -/
theorem diffPosFrom_eq_zero_iff (b c : BitString) : diffPosFrom b c 0 = 0 ↔ ∀ j, kbit b j = kbit c j := by
  constructor
  · exact (diffPosFrom_spec b c 0).1
  · intro h
    cases hp : diffPosFrom b c 0 with
    | zero => rfl
    | succ p =>
      obtain ⟨_, h2, _⟩ := (diffPosFrom_spec b c 0).2 p hp
      exact absurd (h _) h2

/-- otherwise it returns the (1-based) position of the first differing bit -/
theorem diffPosFrom_succ (b c : BitString) (p : Nat) (h : diffPosFrom b c 0 = p + 1) :
    kbit b p ≠ kbit c p ∧ ∀ j, j < p → kbit b j = kbit c j := by
  obtain ⟨_, h2, h3⟩ := (diffPosFrom_spec b c 0).2 p h
  simpa using And.intro h2 h3

/-- strings of the same length with the same zero-padded bits are equal -/
theorem eq_of_kbit_eq_of_length_eq (b c : Key) (h : ∀ j, kbit b j = kbit c j) (hl : b.length = c.length) : b = c := by
  induction b generalizing c with
  | nil => cases c with
    | nil => rfl
    | cons => simp at hl
  | cons x xs ih =>
    cases c with
    | nil => simp at hl
    | cons y ys =>
      obtain ⟨hxy, hrest⟩ := (kbit_cons_eq_iff x y xs ys).mp h
      rw [hxy, ih ys hrest (by simpa using hl)]

/-- a differing bit lies within the longer string -/
theorem kbit_ne_lt {b c : Key} {p : Nat} (h : kbit b p ≠ kbit c p) : p < 8 * max b.length c.length := by
  apply Classical.byContradiction
  intro hge
  apply h
  rw [kbit_of_len_le b (by omega), kbit_of_len_le c (by omega)]

/-- `DiffPos = 0` exactly for equal strings -/
theorem diffPos_eq_zero_iff (b c : BitString) : diffPos b c = 0 ↔ b = c := by
  unfold diffPos
  constructor
  · intro h
    split at h
    · omega
    · rename_i hn
      have h0 : diffPosFrom b c 0 = 0 := h
      have hlen : b.length = c.length := by
        apply Classical.byContradiction
        intro hne; exact hn ⟨h0, hne⟩
      exact eq_of_kbit_eq_of_length_eq b c ((diffPosFrom_eq_zero_iff b c).mp h0) hlen
  · rintro rfl
    have : diffPosFrom b b 0 = 0 := (diffPosFrom_eq_zero_iff b b).mpr (fun _ => rfl)
    simp [this]

/-- otherwise `DiffPos` is the (1-based) position of the first bit of the sequence `Bit` reads (`xbit`) at which
the two strings differ — for strings whose bits stay below the length positions -/
theorem diffPos_succ (b c : BitString) (hb : Small b) (hc : Small c) (p : Nat) (h : diffPos b c = p + 1) :
    xbit b p ≠ xbit c p ∧ ∀ j, j < p → xbit b j = xbit c j := by
  unfold Small at hb hc
  unfold diffPos at h
  split at h
  · -- equal bits, different lengths
    rename_i hcase
    obtain ⟨h0, hne⟩ := hcase
    have hall := (diffPosFrom_eq_zero_iff b c).mp h0
    have hp : p = lenPos + min b.length c.length := by omega
    subst hp
    constructor
    · rw [xbit_ge b (by omega), xbit_ge c (by omega)]
      have e : lenPos + min b.length c.length + 1 - lenPos = min b.length c.length + 1 := by omega
      rw [e]
      by_cases hlt : b.length < c.length
      · have h1 : ¬ (min b.length c.length + 1 ≤ b.length) := by omega
        have h2 : min b.length c.length + 1 ≤ c.length := by omega
        simp [h1, h2]
      · have h1 : min b.length c.length + 1 ≤ b.length := by omega
        have h2 : ¬ (min b.length c.length + 1 ≤ c.length) := by omega
        simp [h1, h2]
    · intro j hj
      by_cases hjl : j < lenPos
      · rw [xbit_lt b hjl, xbit_lt c hjl]; exact hall j
      · rw [xbit_ge b (by omega), xbit_ge c (by omega)]
        have h1 : j + 1 - lenPos ≤ b.length := by omega
        have h2 : j + 1 - lenPos ≤ c.length := by omega
        simp [h1, h2]
  · obtain ⟨h2, h3⟩ := diffPosFrom_succ b c p h
    have hplt := kbit_ne_lt h2
    have hp : p < lenPos := by
      rcases Nat.le_total b.length c.length with hle | hle
      · rw [Nat.max_eq_right hle] at hplt; omega
      · rw [Nat.max_eq_left hle] at hplt; omega
    refine ⟨by rw [xbit_lt b hp, xbit_lt c hp]; exact h2, ?_⟩
    intro j hj
    rw [xbit_lt b (by omega), xbit_lt c (by omega)]
    exact h3 j hj

/-! ## `Equal`, `HasPrefix` -/

theorem equal_iff (b c : BitString) : equal b c = true ↔ b = c := by
  simp only [equal, Bool.and_eq_true, beq_iff_eq]
  constructor
  · exact fun h => h.2
  · rintro rfl; exact ⟨rfl, rfl⟩

/-- `b.HasPrefix(c)`: the zero-padded `b` agrees with `c` on the `len(c)` bits of `c` -/
theorem hasPrefix_iff (b c : BitString) : hasPrefix b c = true ↔ ∀ j, j < len c → kbit b j = kbit c j := by
  induction c generalizing b with
  | nil => simp [hasPrefix, len]
  | cons y ys ih =>
    have hstep : ∀ (x : UInt8) (xs : Key),
        (∀ j, j < len (y :: ys) → kbit (x :: xs) j = kbit (y :: ys) j) ↔ (x = y ∧ ∀ j, j < len ys → kbit xs j = kbit ys j) := by
      intro x xs
      simp only [len, List.length_cons]
      constructor
      · intro h
        constructor
        · apply u8_eq_of_testBit
          intro j hj
          have := h (7 - j) (by omega)
          rw [kbit_cons_lt _ _ (by omega), kbit_cons_lt _ _ (by omega)] at this
          have h7 : 7 - (7 - j) = j := by omega
          rwa [h7] at this
        · intro j hj
          have := h (j + 8) (by omega)
          rwa [kbit_cons_add, kbit_cons_add] at this
      · rintro ⟨rfl, h⟩ j hj
        by_cases hj8 : j < 8
        · rw [kbit_cons_lt _ _ hj8, kbit_cons_lt _ _ hj8]
        · obtain ⟨j', rfl⟩ : ∃ j', j = j' + 8 := ⟨j - 8, by omega⟩
          rw [kbit_cons_add, kbit_cons_add]; exact h j' (by omega)
    cases b with
    | nil =>
      simp only [hasPrefix, Bool.and_eq_true, beq_iff_eq, ih]
      have := hstep 0 []
      constructor
      · rintro ⟨rfl, h⟩ j hj
        have h0 : kbit ([] : Key) j = kbit ((0 : UInt8) :: []) j := by
          rw [kbit_nil]
          by_cases hj8 : j < 8
          · rw [kbit_cons_lt _ _ hj8]; simp
          · obtain ⟨j', rfl⟩ : ∃ j', j = j' + 8 := ⟨j - 8, by omega⟩
            rw [kbit_cons_add, kbit_nil]
        rw [h0]
        exact this.mpr ⟨rfl, h⟩ j hj
      · intro h
        have h' : ∀ j, j < len (y :: ys) → kbit ((0 : UInt8) :: []) j = kbit (y :: ys) j := by
          intro j hj
          rw [← h j hj, kbit_nil]
          by_cases hj8 : j < 8
          · rw [kbit_cons_lt _ _ hj8]; simp
          · obtain ⟨j', rfl⟩ : ∃ j', j = j' + 8 := ⟨j - 8, by omega⟩
            rw [kbit_cons_add, kbit_nil]
        obtain ⟨h1, h2⟩ := this.mp h'
        exact ⟨h1.symm, h2⟩
    | cons x xs =>
      simp only [hasPrefix, Bool.and_eq_true, beq_iff_eq, ih]
      exact (hstep x xs).symm

end BitString
end AlgoVerif.C06
