import AlgoVerif.Model.C05Fibonacci
import AlgoVerif.Proofs.C05Spec
/-!
# C05 helper: the index-map invariant shared by the binomial and the Fibonacci Model

`Reg cap S nodes cells`: `S` (the ids of the nodes linked into the heap, without repetition) and the non-nil
entries of `nodes[]` are in bijection, and `nodes[i]` names the node whose `index` field is `i`:

* `reg`:  every node `id ∈ S` has contents `c` and `nodes[c.index] = id`;
* `back`: `nodes[i] = id` implies `id ∈ S` and the contents of `id` have `index = i`.

`absOf nodes cells` is the abstract map `i ↦ (key, val)` of the node `nodes[i]`.
-/
namespace AlgoVerif.C05
variable {K V : Type}

def absOf (nodes : Array (Option Nat)) (cells : Array (Cell K V)) : Spec.Map K V := fun i =>
  if 0 ≤ i ∧ i < (nodes.size : Int) then
    match nodes[i.toNat]? with
    | some (some id) => (cells[id]?).map fun c => (c.key, c.val)
    | _ => none
  else none

structure Reg (cap : Nat) (S : List Nat) (nodes : Array (Option Nat)) (cells : Array (Cell K V)) : Prop where
  nsize : nodes.size = cap
  nodup : S.Nodup
  reg : ∀ id, id ∈ S → ∃ c, cells[id]? = some c ∧ nodes[c.index]? = some (some id)
  back : ∀ i id, nodes[i]? = some (some id) → id ∈ S ∧ ∃ c, cells[id]? = some c ∧ c.index = i

theorem absOf_nat {nodes : Array (Option Nat)} {cells : Array (Cell K V)} {i : Nat} (hi : i < nodes.size) :
    absOf nodes cells (i : Int) = match nodes[i]? with
      | some (some id) => (cells[id]?).map fun c => (c.key, c.val)
      | _ => none := by
  unfold absOf
  rw [if_pos (by omega)]
  simp

theorem absOf_out {nodes : Array (Option Nat)} {cells : Array (Cell K V)} {cap : Nat} (hs : nodes.size = cap)
    {i : Int} (hi : ¬ Spec.InRange cap i) : absOf nodes cells i = none := by
  unfold absOf Spec.InRange at *
  rw [if_neg (by omega)]

theorem absOf_held {nodes : Array (Option Nat)} {cells : Array (Cell K V)} {i id : Nat} {c : Cell K V}
    (hn : nodes[i]? = some (some id)) (hc : cells[id]? = some c) :
    absOf nodes cells (i : Int) = some (c.key, c.val) := by
  have hi : i < nodes.size := by
    by_cases h : i < nodes.size
    · exact h
    · rw [Array.getElem?_eq_none (by omega)] at hn; cases hn
  rw [absOf_nat hi, hn]; simp [hc]

theorem absOf_free {nodes : Array (Option Nat)} {cells : Array (Cell K V)} {i : Nat}
    (hn : nodes[i]? = some none ∨ nodes[i]? = none) : absOf nodes cells (i : Int) = none := by
  by_cases hi : i < nodes.size
  · rw [absOf_nat hi]; rcases hn with hn | hn <;> rw [hn]
  · unfold absOf; rw [if_neg (by omega)]

/-- a held index: its node and contents -/
theorem absOf_some {cap : Nat} {S : List Nat} {nodes : Array (Option Nat)} {cells : Array (Cell K V)}
    (r : Reg cap S nodes cells) {i : Int} {e : K × V} (ha : absOf nodes cells i = some e) :
    Spec.InRange cap i ∧ ∃ id c, nodes[i.toNat]? = some (some id) ∧ id ∈ S ∧ cells[id]? = some c ∧
      c.index = i.toNat ∧ e = (c.key, c.val) := by
  have ns := r.nsize
  unfold absOf at ha
  split at ha
  · rename_i hr
    refine ⟨⟨hr.1, by omega⟩, ?_⟩
    split at ha
    · rename_i id hid
      obtain ⟨hmem, c, hc, hci⟩ := r.back _ _ hid
      refine ⟨id, c, hid, hmem, hc, hci, ?_⟩
      rw [hc] at ha; simp at ha; exact ha.symm
    · cases ha
  · cases ha

theorem absOf_none_iff {cap : Nat} {S : List Nat} {nodes : Array (Option Nat)} {cells : Array (Cell K V)}
    (r : Reg cap S nodes cells) {i : Nat} (hi : i < cap) :
    absOf nodes cells (i : Int) = none ↔ nodes[i]? = some none := by
  have ns := r.nsize
  constructor
  · intro ha
    cases hx : nodes[i]? with
    | none => rw [Array.getElem?_eq_none_iff] at hx; omega
    | some o =>
      cases o with
      | none => rfl
      | some id =>
        obtain ⟨_, c, hc, _⟩ := r.back _ _ hx
        rw [absOf_held hx hc] at ha; cases ha
  · intro hn; exact absOf_free (Or.inl hn)

theorem Reg.perm {cap : Nat} {S S' : List Nat} {nodes : Array (Option Nat)} {cells : Array (Cell K V)}
    (r : Reg cap S nodes cells) (hp : S.Perm S') : Reg cap S' nodes cells :=
  ⟨r.nsize, hp.nodup_iff.mp r.nodup, fun id h => r.reg id (hp.mem_iff.mpr h),
   fun i id h => let ⟨h1, h2⟩ := r.back i id h; ⟨hp.mem_iff.mp h1, h2⟩⟩

theorem Reg.empty (cap : Nat) : Reg cap [] (Array.replicate cap none) (#[] : Array (Cell K V)) := by
  refine ⟨by simp, List.nodup_nil, by simp, ?_⟩
  intro i id h
  rw [Array.getElem?_replicate] at h
  split at h <;> cases h

theorem Reg.clear {cap : Nat} {S : List Nat} {nodes : Array (Option Nat)} {cells : Array (Cell K V)}
    (r : Reg cap S nodes cells) : Reg cap [] (Array.replicate nodes.size none) cells := by
  refine ⟨by simp [r.nsize], List.nodup_nil, by simp, ?_⟩
  intro i id h
  rw [Array.getElem?_replicate] at h
  split at h <;> cases h

theorem absOf_replicate (n : Nat) (cells : Array (Cell K V)) :
    absOf (Array.replicate n none) cells = Spec.Map.empty := by
  funext i
  unfold absOf Spec.Map.empty
  split
  · rw [Array.getElem?_replicate]; by_cases h : i.toNat < n <;> simp [h]
  · rfl

/-- all ids in use are below `cells.size`, so the next allocation number is fresh -/
theorem Reg.fresh {cap : Nat} {S : List Nat} {nodes : Array (Option Nat)} {cells : Array (Cell K V)}
    (r : Reg cap S nodes cells) : cells.size ∉ S := by
  intro h
  obtain ⟨c, hc, _⟩ := r.reg _ h
  rw [Array.getElem?_eq_none (by omega)] at hc; cases hc

/-- `Insert` into a free slot -/
theorem Reg.insert {cap : Nat} {S : List Nat} {nodes : Array (Option Nat)} {cells : Array (Cell K V)}
    (r : Reg cap S nodes cells) {i : Nat} (hi : i < cap) (hfree : nodes[i]? = some none) (key : K) (val : V) :
    Reg cap (cells.size :: S) (nodes.setIfInBounds i (some cells.size))
      (cells.push { index := i, key := key, val := val }) ∧
    absOf (nodes.setIfInBounds i (some cells.size)) (cells.push { index := i, key := key, val := val })
      = (absOf nodes cells).set (i : Int) (some (key, val)) := by
  have ns := r.nsize
  have hin : i < nodes.size := by omega
  have hpush : (cells.push { index := i, key := key, val := val })[cells.size]? =
      some { index := i, key := key, val := val } := by
    rw [Array.getElem?_push, if_pos rfl]
  have hset : (nodes.setIfInBounds i (some cells.size))[i]? = some (some cells.size) := by
    rw [Array.getElem?_setIfInBounds, if_pos rfl, if_pos hin]
  have hlt : ∀ id, id ∈ S → id < cells.size := by
    intro id h
    obtain ⟨c, hc, _⟩ := r.reg _ h
    by_cases hh : id < cells.size
    · exact hh
    · rw [Array.getElem?_eq_none (by omega)] at hc; cases hc
  constructor
  · refine ⟨by simp [ns], List.nodup_cons.mpr ⟨r.fresh, r.nodup⟩, ?_, ?_⟩
    · intro id hid
      rcases List.mem_cons.mp hid with rfl | hid
      · exact ⟨_, hpush, hset⟩
      · obtain ⟨c, hc, hn⟩ := r.reg _ hid
        have := hlt _ hid
        refine ⟨c, by rw [Array.getElem?_push]; rw [if_neg (by omega)]; exact hc, ?_⟩
        rw [Array.getElem?_setIfInBounds]
        have : i ≠ c.index := by intro h; rw [← h, hfree] at hn; cases hn
        rw [if_neg this]; exact hn
    · intro j id hj
      rw [Array.getElem?_setIfInBounds] at hj
      by_cases hij : i = j
      · subst hij
        rw [if_pos rfl] at hj
        rw [if_pos hin] at hj
        cases hj
        exact ⟨List.mem_cons_self, _, hpush, rfl⟩
      · rw [if_neg hij] at hj
        obtain ⟨hmem, c, hc, hci⟩ := r.back _ _ hj
        have := hlt _ hmem
        exact ⟨List.mem_cons_of_mem _ hmem, c, by rw [Array.getElem?_push, if_neg (by omega)]; exact hc, hci⟩
  · funext j
    unfold Spec.Map.set
    by_cases hji : j = (i : Int)
    · subst hji
      rw [if_pos rfl]
      exact absOf_held hset hpush
    · rw [if_neg hji]
      unfold absOf
      simp only [Array.size_setIfInBounds]
      split
      · rename_i hr
        rw [Array.getElem?_setIfInBounds, if_neg (by omega)]
        split
        · rename_i id hid
          have := hlt _ (r.back _ _ hid).1
          rw [Array.getElem?_push, if_neg (by omega)]
        · rfl
      · rfl

/-- unlinking node `e` and clearing its `nodes[]` entry -/
theorem Reg.remove {cap : Nat} {S S' : List Nat} {nodes : Array (Option Nat)} {cells : Array (Cell K V)}
    (r : Reg cap S nodes cells) {e : Nat} (hp : S.Perm (e :: S')) {c : Cell K V} (hc : cells[e]? = some c) :
    Reg cap S' (nodes.setIfInBounds c.index none) cells ∧
    absOf (nodes.setIfInBounds c.index none) cells = (absOf nodes cells).set (c.index : Int) none ∧
    absOf nodes cells (c.index : Int) = some (c.key, c.val) ∧ c.index < cap := by
  have ns := r.nsize
  have r' := r.perm hp
  have hnd := List.nodup_cons.mp r'.nodup
  obtain ⟨c', hc', hne⟩ := r'.reg e List.mem_cons_self
  have : c' = c := by rw [hc] at hc'; exact (Option.some.inj hc').symm
  subst this
  have hcl : c'.index < cap := by
    by_cases hh : c'.index < nodes.size
    · omega
    · rw [Array.getElem?_eq_none (by omega)] at hne; cases hne
  refine ⟨⟨by simp [ns], hnd.2, ?_, ?_⟩, ?_, absOf_held hne hc, hcl⟩
  · intro id hid
    obtain ⟨d, hd, hnd'⟩ := r'.reg id (List.mem_cons_of_mem _ hid)
    refine ⟨d, hd, ?_⟩
    rw [Array.getElem?_setIfInBounds]
    have : c'.index ≠ d.index := by
      intro h; rw [h] at hne; rw [hne] at hnd'
      have : e = id := by cases hnd'; rfl
      subst this; exact hnd.1 hid
    rw [if_neg this]; exact hnd'
  · intro i id hi
    rw [Array.getElem?_setIfInBounds] at hi
    by_cases hci : c'.index = i
    · rw [if_pos hci] at hi; split at hi <;> cases hi
    · rw [if_neg hci] at hi
      obtain ⟨hmem, d, hd, hdi⟩ := r'.back _ _ hi
      rcases List.mem_cons.mp hmem with rfl | hmem
      · rw [hc] at hd; cases hd; exact absurd hdi hci
      · exact ⟨hmem, d, hd, hdi⟩
  · funext j
    unfold Spec.Map.set
    by_cases hji : j = (c'.index : Int)
    · subst hji
      rw [if_pos rfl]
      exact absOf_free (Or.inl (by simp [Array.getElem?_setIfInBounds]; omega))
    · rw [if_neg hji]
      unfold absOf
      simp only [Array.size_setIfInBounds]
      split
      · rw [Array.getElem?_setIfInBounds, if_neg (by omega)]
      · rfl

/-- overwriting the key in the contents of a linked node -/
theorem Reg.setKey {cap : Nat} {S : List Nat} {nodes : Array (Option Nat)} {cells : Array (Cell K V)}
    (r : Reg cap S nodes cells) {id : Nat} (hid : id ∈ S) {c : Cell K V} (hc : cells[id]? = some c) (key : K) :
    Reg cap S nodes (cells.setIfInBounds id { c with key := key }) ∧
    absOf nodes (cells.setIfInBounds id { c with key := key })
      = (absOf nodes cells).set (c.index : Int) (some (key, c.val)) := by
  have hlt : id < cells.size := by
    by_cases hh : id < cells.size
    · exact hh
    · rw [Array.getElem?_eq_none (by omega)] at hc; cases hc
  obtain ⟨c', hc', hn⟩ := r.reg id hid
  have : c' = c := by rw [hc] at hc'; exact (Option.some.inj hc').symm
  subst this
  constructor
  · refine ⟨r.nsize, r.nodup, ?_, ?_⟩
    · intro id' hid'
      rw [Array.getElem?_setIfInBounds]
      by_cases h : id = id'
      · subst h; exact ⟨{ c' with key := key }, by simp [hlt], hn⟩
      · rw [if_neg h]; exact r.reg id' hid'
    · intro i id' hi
      obtain ⟨hmem, d, hd, hdi⟩ := r.back _ _ hi
      refine ⟨hmem, ?_⟩
      rw [Array.getElem?_setIfInBounds]
      by_cases h : id = id'
      · subst h
        rw [hc] at hd; cases hd
        exact ⟨{ c' with key := key }, by simp [hlt], hdi⟩
      · rw [if_neg h]; exact ⟨d, hd, hdi⟩
  · funext j
    unfold Spec.Map.set
    by_cases hji : j = (c'.index : Int)
    · subst hji
      rw [if_pos rfl]
      exact absOf_held (c := { c' with key := key }) hn (by simp [hlt])
    · rw [if_neg hji]
      unfold absOf
      split
      · rename_i hr
        split
        · rename_i id' hid'
          rw [Array.getElem?_setIfInBounds]
          have : id ≠ id' := by
            intro h; subst h
            obtain ⟨_, d, hd, hdi⟩ := r.back _ _ hid'
            rw [hc] at hd; cases hd
            omega
          rw [if_neg this]
        · rfl
      · rfl

/-- `ContainsKey` / `ContainsValue`: the scan over `nodes[]` sees exactly the held entries -/
theorem anyCell_spec {cap : Nat} {S : List Nat} {nodes : Array (Option Nat)} {cells : Array (Cell K V)}
    (r : Reg cap S nodes cells) (p : Cell K V → Bool) (q : K × V → Bool) (hpq : ∀ c, p c = q (c.key, c.val))
    {b : Bool} (hb : anyCell cells p nodes.toList = .ok b) :
    (b = true ↔ ∃ i k v, absOf nodes cells i = some (k, v) ∧ q (k, v) = true) := by
  -- generalise over the suffix of the list that is still to be scanned
  have key : ∀ (l : List (Option Nat)) (off : Nat), (∀ j, (h : j < l.length) → nodes[off + j]? = some l[j]) →
      ∀ b, anyCell cells p l = .ok b →
      (b = true ↔ ∃ j, j < l.length ∧ ∃ k v, absOf nodes cells ((off + j : Nat) : Int) = some (k, v) ∧ q (k, v) = true) := by
    intro l
    induction l with
    | nil => intro off _ b hb; simp [anyCell] at hb; subst hb; simp
    | cons x rest ih =>
      intro off hl b hb
      have hrest : ∀ j, (h : j < rest.length) → nodes[off + 1 + j]? = some rest[j] := by
        intro j hj
        have := hl (j + 1) (by simp; omega)
        simp at this
        rw [← this]; congr 1; omega
      have h0 := hl 0 (by simp)
      simp at h0
      cases x with
      | none =>
        simp only [anyCell] at hb
        rw [ih (off + 1) hrest b hb]
        constructor
        · rintro ⟨j, hj, k, v, ha, hq⟩
          exact ⟨j + 1, by simp; omega, k, v, by rw [← ha]; congr 2; omega, hq⟩
        · rintro ⟨j, hj, k, v, ha, hq⟩
          cases j with
          | zero => simp only [Nat.add_zero] at ha; rw [absOf_free (Or.inl h0)] at ha; cases ha
          | succ j => exact ⟨j, by simp at hj; omega, k, v, by rw [← ha]; congr 2; omega, hq⟩
      | some id =>
        simp only [anyCell] at hb
        cases hc : cells[id]? with
        | none => rw [hc] at hb; cases hb
        | some c =>
          rw [hc] at hb
          simp only [] at hb
          have habs := absOf_held h0 hc
          by_cases hp : p c = true
          · rw [if_pos hp] at hb
            cases hb
            simp only [true_iff]
            exact ⟨0, by simp, c.key, c.val, habs, by rw [← hpq]; exact hp⟩
          · rw [if_neg hp] at hb
            rw [ih (off + 1) hrest b hb]
            constructor
            · rintro ⟨j, hj, k, v, ha, hq⟩
              exact ⟨j + 1, by simp; omega, k, v, by rw [← ha]; congr 2; omega, hq⟩
            · rintro ⟨j, hj, k, v, ha, hq⟩
              cases j with
              | zero =>
                simp only [Nat.add_zero] at ha; rw [habs] at ha; cases ha
                rw [← hpq] at hq; exact absurd hq hp
              | succ j => exact ⟨j, by simp at hj; omega, k, v, by rw [← ha]; congr 2; omega, hq⟩
  have := key nodes.toList 0 (by intro j hj; simp at hj ⊢) b hb
  rw [this]
  constructor
  · rintro ⟨j, _, k, v, ha, hq⟩
    exact ⟨_, k, v, ha, hq⟩
  · rintro ⟨i, k, v, ha, hq⟩
    obtain ⟨hr, _⟩ := absOf_some r ha
    have ns := r.nsize
    unfold Spec.InRange at hr
    refine ⟨i.toNat, by simp; omega, k, v, ?_, hq⟩
    rw [← ha]; congr 1; omega

/-- the scan over `nodes[]` never reads the contents of a node that does not exist -/
theorem anyCell_total {cap : Nat} {S : List Nat} {nodes : Array (Option Nat)} {cells : Array (Cell K V)}
    (r : Reg cap S nodes cells) (p : Cell K V → Bool) : ∃ b, anyCell cells p nodes.toList = .ok b := by
  have key : ∀ (l : List (Option Nat)), (∀ id, some id ∈ l → ∃ c, cells[id]? = some c) →
      ∃ b, anyCell cells p l = .ok b := by
    intro l
    induction l with
    | nil => intro _; exact ⟨false, rfl⟩
    | cons x rest ih =>
      intro hl
      have hrest := ih (fun id hid => hl id (List.mem_cons_of_mem _ hid))
      cases x with
      | none => simpa only [anyCell] using hrest
      | some id =>
        obtain ⟨c, hc⟩ := hl id List.mem_cons_self
        simp only [anyCell, hc]
        split
        · exact ⟨true, rfl⟩
        · exact hrest
  apply key
  intro id hid
  obtain ⟨j, hj, hje⟩ := List.getElem_of_mem hid
  have hj' : j < nodes.size := by simpa using hj
  have : nodes[j]? = some (some id) := by
    rw [Array.getElem?_eq_getElem hj']; simp at hje; rw [hje]
  obtain ⟨_, c, hc, _⟩ := r.back _ _ this
  exact ⟨c, hc⟩

end AlgoVerif.C05
