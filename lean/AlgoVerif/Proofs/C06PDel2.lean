import AlgoVerif.Proofs.C06PDel
/-!
# C06 — Patricia deletion, second half of `remove`: the referrer's node takes the place of the removed leaf's node
-/
namespace AlgoVerif.C06
variable {V : Type}
open BitString (xbit Small)
open PT

namespace Patricia

/-- `r.bp = n.bp; r.left, r.right = n.left, n.right` -/
def recycle (t2 : Patricia V) (r : Nat) (nn' : PNode V) : Patricia V :=
  { t2 with nodes := t2.nodes.modify r fun x => { x with bp := nn'.bp, left := nn'.left, right := nn'.right } }

/-- the store after the link to the removed leaf's node has been redirected to the referrer `rr` and the referrer has
taken over that node's bit position and links -/
def final1 (t1 : Patricia V) (np : Nat) (gr2 : Bool) (rr : Nat) (Nn : PNode V) : Patricia V :=
  recycle (setLink t1 np gr2 (some rr)) rr Nn

theorem final1_nodes (t1 : Patricia V) (np : Nat) (gr2 : Bool) (rr : Nat) (Nn : PNode V) (j : Nat) :
    (final1 t1 np gr2 rr Nn).nodes[j]? =
      if rr = j then ((setLink t1 np gr2 (some rr)).nodes[j]?).map
        (fun x => { x with bp := Nn.bp, left := Nn.left, right := Nn.right })
      else (setLink t1 np gr2 (some rr)).nodes[j]? := by
  simp [final1, recycle, Array.getElem?_modify]

theorem final1_root (t1 : Patricia V) (np : Nat) (gr2 : Bool) (rr : Nat) (Nn : PNode V) :
    (final1 t1 np gr2 rr Nn).root = t1.root ∧ (final1 t1 np gr2 rr Nn).size = t1.size := by
  simp [final1, recycle, (setLink_root t1 np gr2 (some rr)).1, (setLink_root t1 np gr2 (some rr)).2]

/-- the store after both halves of `remove` represents the contracted tree with the removed leaf's node renamed to the
referrer (case: that node is an inner node of the tree, and not the referrer itself) -/
theorem rename_rep {t : Patricia V} (dir : Nat → Bool) (n rr rp np c : Nat) (gr gr2 : Bool) (Nn : PNode V) (S : PT V) :
    ∀ (b : Nat) (p : Option Nat) (pi : Nat) (pn : PNode V) (sd : Bool) (rp0 : Nat) (S1 : PT V),
      Rep t b p S → t.nodes[pi]? = some pn → pn.bp = b →
      UpOK t S b → SelfBelow S → (leafIdx S).Nodup → (inners S).Nodup → pi ∉ inners S →
      n = (descendD S dir).1 → n ∈ inners S → rr = (findEnd S rp0 pi dir).2.1 → rr ≠ n →
      contract S dir = some S1 →
      rp = (cutAt S pi sd dir).1 → gr = (cutAt S pi sd dir).2.1 → c = (cutAt S pi sd dir).2.2 →
      np = parentEnd S pi n dir → gr2 = sideOf S sd n dir →
      (setLink t rp gr (some c)).nodes[n]? = some Nn → rp ≠ rr →
      Rep (final1 (setLink t rp gr (some c)) np gr2 rr Nn) b (if np = pi then some rr else p) (rename n rr S1) ∧
      (final1 (setLink t rp gr (some c)) np gr2 rr Nn).nodes[pi]? = some (if np = pi then relink pn gr2 (some rr) else pn) := by
  induction S with
  | leaf i k v => intro _ _ _ _ _ _ _ _ _ _ _ _ _ _ _ _ hmem; simp [inners] at hmem
  | inner i bp l r ihl ihr =>
    intro b p pi pn sd rp0 S1 hT hpn hpb hup hsb hndl hndi hni hn hmem hrr hne hct hrp hgr hc hnp hgr2 hN hrprr
    have hT0 := hT
    obtain ⟨hp, nn, hnn, hbp, hb, hl, hr⟩ := hT
    subst hbp
    obtain ⟨hupl, hupr⟩ := hup.children hnn rfl hb hsb hndl
    have hsb0 := hsb
    obtain ⟨_, hsl, hsr⟩ := hsb
    have hndl0 := hndl
    simp only [leafIdx, List.nodup_append] at hndl
    obtain ⟨hnll, hnlr, hdisl⟩ := hndl
    simp only [inners, List.nodup_cons, List.mem_append, List.nodup_append, not_or, List.mem_cons] at hndi hni
    obtain ⟨⟨hil, hir⟩, hnil, hnir, hdis⟩ := hndi
    have hn0 := hn
    simp only [contract] at hct
    simp only [descendD] at hn
    simp only [findEnd] at hrr
    simp only [cutAt] at hrp hgr hc
    simp only [parentEnd] at hnp
    simp only [sideOf] at hgr2
    by_cases hd : dir nn.bp = true
    · -- the path goes right
      simp only [hd, if_true] at hct hn hrr hrp hgr hc hnp hgr2
      have hdOP : ∀ a ∈ inners l, ∀ b' ∈ inners r, a ≠ b' := hdis
      have hdlOP : ∀ a ∈ leafIdx l, ∀ b' ∈ leafIdx r, a ≠ b' := hdisl
      by_cases hin : i = n
      · -- this is the removed leaf's node: the referrer takes its place
        subst hin
        simp only [if_true] at hnp hgr2
        cases r with
        | leaf j k v => simp only [findEnd] at hrr; exact absurd hrr hne
        | inner j bp' l' r' =>
          have hsome : ∃ c1, contract (.inner j bp' l' r') dir = some c1 := by
            cases hcc : contract (.inner j bp' l' r') dir with
            | none => obtain ⟨_, _, _, hh⟩ := (contract_none_iff _ dir).mp hcc; cases hh
            | some c1 => exact ⟨c1, rfl⟩
          obtain ⟨c1, hc1⟩ := hsome
          rw [hc1] at hct
          cases hct
          obtain ⟨hX, hN1⟩ := contract_rep dir (.inner j bp' l' r') nn.bp nn.right i nn true pi c1 hr hnn rfl hupr
            hsr hnlr hnir hir hc1
          rw [← hrp, ← hgr, ← hc, ← hrr] at hX
          rw [← hrp, ← hgr, ← hc] at hN1
          have hNn : Nn = (if rp = i then relink nn true (some c) else nn) :=
            (Option.some.inj (hN1.symm.trans hN)).symm
          have hrrP : rr ∈ inners (.inner j bp' l' r') := by
            rcases findEnd_r (.inner j bp' l' r') pi i dir with ⟨⟨_, _, _, hh⟩, _⟩ | ⟨_, hmem', _⟩
            · cases hh
            · rw [hrr]; exact hmem'
          have hrpP : rp = i ∨ rp ∈ inners (.inner j bp' l' r') := by
            rcases cutAt_prev (.inner j bp' l' r') i true dir with hh | hh
            · left; rw [hrp]; exact hh.1
            · right; rw [hrp]; exact hh
          have hperm := inners_contract_perm hc1 pi i
          rw [← hrr] at hperm
          have hrr1 : rr ∉ inners c1 := (List.nodup_cons.mp (hperm.nodup_iff.mpr hnir)).1
          have hsub1 : ∀ x ∈ inners c1, x ∈ inners (.inner j bp' l' r') :=
            fun x hx => hperm.subset (List.mem_cons_of_mem _ hx)
          have hpirr : pi ≠ rr := fun e => hni.2.2 (e ▸ hrrP)
          have hpirp : pi ≠ rp := by
            rcases hrpP with hh | hh
            · rw [hh]; exact hni.1
            · exact fun e => hni.2.2 (e ▸ hh)
          obtain ⟨xrr, hxrr⟩ : ∃ x, t.nodes[rr]? = some x :=
            ⟨_, Array.getElem?_eq_getElem (hr.valid rr (List.mem_append.mpr (.inr hrrP)))⟩
          have h4rr : (final1 (setLink t rp gr (some c)) np gr2 rr Nn).nodes[rr]? =
              some { xrr with bp := Nn.bp, left := Nn.left, right := Nn.right } := by
            rw [final1_nodes, setLink_nodes, setLink_nodes]
            simp [hnp, hpirr, hrprr, hxrr]
          have hNbp : Nn.bp = nn.bp := by rw [hNn]; split <;> simp
          have hNo : Nn.left = nn.left := by rw [hNn]; split <;> simp [relink]
          have hNp : Nn.right = (if rp = i then some c else nn.right) := by rw [hNn]; split <;> simp [relink]
          have hsame1 : ∀ x, x ≠ rr → x ≠ np →
              (final1 (setLink t rp gr (some c)) np gr2 rr Nn).nodes[x]? = (setLink t rp gr (some c)).nodes[x]? := by
            intro x h1 h2
            rw [final1_nodes, setLink_nodes]
            simp [Ne.symm h1, Ne.symm h2]
          have hleafs1 : ∀ x y, (setLink t rp gr (some c)).nodes[x]? = some y →
              ∃ y', (final1 (setLink t rp gr (some c)) np gr2 rr Nn).nodes[x]? = some y' ∧ y'.key = y.key ∧ y'.val = y.val ∧
                 (if x = rr then y'.bp ≤ nn.bp else y'.bp ≤ y.bp) := by
            intro x y hy
            rw [final1_nodes, setLink_nodes]
            by_cases hxr : rr = x
            · subst hxr
              have hnr : ¬ np = rr := by rw [hnp]; exact hpirr
              simp only [if_true, hnr, if_false, hy, Option.map_some]
              exact ⟨_, rfl, rfl, rfl, by simp [hNbp]⟩
            · have hxr' : ¬ x = rr := fun e => hxr e.symm
              simp only [hxr, if_false, hxr']
              by_cases hnx : np = x
              · simp only [hnx, if_true, hy, Option.map_some]
                exact ⟨_, rfl, by simp, by simp, by simp⟩
              · simp only [hnx, if_false]
                exact ⟨y, hy, rfl, rfl, Nat.le_refl _⟩
          have hkeep : ∀ (X : PT V), (∀ x ∈ inners X, x ≠ rr ∧ x ≠ np) → ∀ pp,
              RepX rr (setLink t rp gr (some c)) nn.bp pp X →
              Rep (final1 (setLink t rp gr (some c)) np gr2 rr Nn) nn.bp pp X := by
            intro X hX0 pp hrep
            apply hrep.settle nn.bp (Nat.le_refl _)
            · intro x hx y hy
              exact ⟨y, by rw [hsame1 x (hX0 x hx).1 (hX0 x hx).2]; exact hy, rfl, rfl, rfl⟩
            · intro x _ y hy
              exact hleafs1 x y hy
          have hPath : Rep (final1 (setLink t rp gr (some c)) np gr2 rr Nn) nn.bp Nn.right c1 := by
            rw [hNp]
            apply hkeep c1 _ _ hX
            intro x hx
            exact ⟨fun e => hrr1 (e ▸ hx), fun e => hni.2.2 (by rw [← hnp, ← e]; exact hsub1 x hx)⟩
          have hOther : Rep (final1 (setLink t rp gr (some c)) np gr2 rr Nn) nn.bp Nn.left l := by
            rw [hNo]
            have hO1 : RepX rr (setLink t rp gr (some c)) nn.bp nn.left l := by
              apply (hl.toX rr).frame
              apply frame_setLink
              rcases hrpP with hh | hh
              · rw [hh]; exact hil
              · exact fun e => hdOP _ e _ hh rfl
            apply hkeep l _ _ hO1
            intro x hx
            exact ⟨fun e => hdOP _ hx _ hrrP e, fun e => hni.2.1 (by rw [← hnp, ← e]; exact hx)⟩
          have hrenP : rename i rr c1 = c1 := rename_of_not_mem _ (fun e => hir (hsub1 _ e))
          have hrenO : rename i rr l = l := rename_of_not_mem _ hil
          constructor
          · rw [if_pos hnp]
            simp only [rename, if_true, hrenP, hrenO]
            exact ⟨rfl, _, h4rr, hNbp, by omega, hOther, hPath⟩
          · rw [final1_nodes, setLink_nodes, setLink_nodes]
            simp [hnp, Ne.symm hpirr, Ne.symm hpirp, hpn]
      · -- above the removed leaf's node
        simp only [hin, if_false] at hnp hgr2
        have hnP : n ∈ inners r := (inner_on_path hsb0 hndl0 hn0 (by simpa [inners] using hmem) hin).1 hd
        cases r with
        | leaf j k v => simp [inners] at hnP
        | inner j bp' l' r' =>
          have hsome : ∃ c1, contract (.inner j bp' l' r') dir = some c1 := by
            cases hcc : contract (.inner j bp' l' r') dir with
            | none => obtain ⟨_, _, _, hh⟩ := (contract_none_iff _ dir).mp hcc; cases hh
            | some c1 => exact ⟨c1, rfl⟩
          obtain ⟨c1, hc1⟩ := hsome
          rw [hc1] at hct
          cases hct
          obtain ⟨ih1, ih2⟩ := ihr nn.bp nn.right i nn true pi c1 hr hnn rfl hupr hsr hnlr hnir hir
            hn hnP hrr hne hc1 hrp hgr hc hnp hgr2 hN hrprr
          have hrrP : rr ∈ inners (.inner j bp' l' r') := by
            rcases findEnd_r (.inner j bp' l' r') pi i dir with ⟨⟨_, _, _, hh⟩, _⟩ | ⟨_, hmem', _⟩
            · cases hh
            · rw [hrr]; exact hmem'
          have hrpP : rp ∈ inners (.inner j bp' l' r') := by
            rw [hrp]
            exact cutAt_inner _ i true pi dir hsr hnlr (by rw [← hn]; exact hnP) (by rw [← hn, ← hrr]; exact hne)
          have hnpP : np = i ∨ np ∈ inners (.inner j bp' l' r') := by
            rw [hnp]; exact parentEnd_prev _ i n dir
          have hrrl : rr ∈ leafIdx (.inner j bp' l' r') := mem_leafIdx_of_mem_inners' hsr hrrP
          have hOther : Rep (final1 (setLink t rp gr (some c)) np gr2 rr Nn) nn.bp nn.left l := by
            apply hl.frame
            constructor
            · intro x hx y hy
              have h1 : x ≠ rr := fun e => hdOP _ hx _ hrrP e
              have h2 : x ≠ rp := fun e => hdOP _ hx _ hrpP e
              have h3 : x ≠ np := by
                rcases hnpP with hh | hh
                · rw [hh]; exact fun e => hil (e ▸ hx)
                · exact fun e => hdOP _ hx _ hh e
              refine ⟨y, ?_, rfl, rfl, rfl⟩
              rw [final1_nodes, setLink_nodes, setLink_nodes]
              simp [Ne.symm h1, Ne.symm h2, Ne.symm h3, hy]
            · intro x hx y hy
              have h1 : x ≠ rr := fun e => hdlOP _ hx _ hrrl e
              rw [final1_nodes, setLink_nodes, setLink_nodes]
              simp only [Ne.symm h1, if_false]
              by_cases h2 : np = x <;> by_cases h3 : rp = x <;> simp [h2, h3, hy]
          have hnp_pi : np ≠ pi := by
            rcases hnpP with hh | hh
            · rw [hh]; exact fun e => hni.1 e.symm
            · exact fun e => hni.2.2 (e ▸ hh)
          have hrr_pi : rr ≠ pi := fun e => hni.2.2 (e ▸ hrrP)
          have hrp_pi : rp ≠ pi := fun e => hni.2.2 (e ▸ hrpP)
          have hrenO : rename n rr l = l := by
            apply rename_of_not_mem
            intro e
            exact hdOP _ e _ hnP rfl
          have hgr2i : np = i → gr2 = true := by
            intro e
            rw [hgr2]
            exact sideOf_of_parentEnd_eq _ i n true dir hir (by rw [← hnp]; exact e)
          constructor
          · simp only [hnp_pi, if_false, rename, hin]
            rw [hrenO]
            refine ⟨hp, _, ih2, ?_, hb, ?_, ?_⟩
            · split <;> simp
            · have : (if np = i then relink nn gr2 (some rr) else nn).left = nn.left := by
                by_cases e : np = i
                · simp [e, relink, hgr2i e]
                · simp [e]
              rw [this]
              have : (if np = i then relink nn gr2 (some rr) else nn).bp = nn.bp := by split <;> simp
              exact hOther
            · have : (if np = i then relink nn gr2 (some rr) else nn).right = (if np = i then some rr else nn.right) := by
                by_cases e : np = i
                · simp [e, relink, hgr2i e]
                · simp [e]
              rw [this]
              exact ih1
          · rw [final1_nodes, setLink_nodes, setLink_nodes]
            simp [hrr_pi, hrp_pi, hnp_pi, hpn]
    · -- the path goes left
      simp only [hd, Bool.false_eq_true, if_false] at hct hn hrr hrp hgr hc hnp hgr2
      have hdOP : ∀ a ∈ inners r, ∀ b' ∈ inners l, a ≠ b' := fun a ha b' hb' => (hdis b' hb' a ha).symm
      have hdlOP : ∀ a ∈ leafIdx r, ∀ b' ∈ leafIdx l, a ≠ b' := fun a ha b' hb' => (hdisl b' hb' a ha).symm
      by_cases hin : i = n
      · -- this is the removed leaf's node: the referrer takes its place
        subst hin
        simp only [if_true] at hnp hgr2
        cases l with
        | leaf j k v => simp only [findEnd] at hrr; exact absurd hrr hne
        | inner j bp' l' r' =>
          have hsome : ∃ c1, contract (.inner j bp' l' r') dir = some c1 := by
            cases hcc : contract (.inner j bp' l' r') dir with
            | none => obtain ⟨_, _, _, hh⟩ := (contract_none_iff _ dir).mp hcc; cases hh
            | some c1 => exact ⟨c1, rfl⟩
          obtain ⟨c1, hc1⟩ := hsome
          rw [hc1] at hct
          cases hct
          obtain ⟨hX, hN1⟩ := contract_rep dir (.inner j bp' l' r') nn.bp nn.left i nn false pi c1 hl hnn rfl hupl
            hsl hnll hnil hil hc1
          rw [← hrp, ← hgr, ← hc, ← hrr] at hX
          rw [← hrp, ← hgr, ← hc] at hN1
          have hNn : Nn = (if rp = i then relink nn false (some c) else nn) :=
            (Option.some.inj (hN1.symm.trans hN)).symm
          have hrrP : rr ∈ inners (.inner j bp' l' r') := by
            rcases findEnd_r (.inner j bp' l' r') pi i dir with ⟨⟨_, _, _, hh⟩, _⟩ | ⟨_, hmem', _⟩
            · cases hh
            · rw [hrr]; exact hmem'
          have hrpP : rp = i ∨ rp ∈ inners (.inner j bp' l' r') := by
            rcases cutAt_prev (.inner j bp' l' r') i false dir with hh | hh
            · left; rw [hrp]; exact hh.1
            · right; rw [hrp]; exact hh
          have hperm := inners_contract_perm hc1 pi i
          rw [← hrr] at hperm
          have hrr1 : rr ∉ inners c1 := (List.nodup_cons.mp (hperm.nodup_iff.mpr hnil)).1
          have hsub1 : ∀ x ∈ inners c1, x ∈ inners (.inner j bp' l' r') :=
            fun x hx => hperm.subset (List.mem_cons_of_mem _ hx)
          have hpirr : pi ≠ rr := fun e => hni.2.1 (e ▸ hrrP)
          have hpirp : pi ≠ rp := by
            rcases hrpP with hh | hh
            · rw [hh]; exact hni.1
            · exact fun e => hni.2.1 (e ▸ hh)
          obtain ⟨xrr, hxrr⟩ : ∃ x, t.nodes[rr]? = some x :=
            ⟨_, Array.getElem?_eq_getElem (hl.valid rr (List.mem_append.mpr (.inr hrrP)))⟩
          have h4rr : (final1 (setLink t rp gr (some c)) np gr2 rr Nn).nodes[rr]? =
              some { xrr with bp := Nn.bp, left := Nn.left, right := Nn.right } := by
            rw [final1_nodes, setLink_nodes, setLink_nodes]
            simp [hnp, hpirr, hrprr, hxrr]
          have hNbp : Nn.bp = nn.bp := by rw [hNn]; split <;> simp
          have hNo : Nn.right = nn.right := by rw [hNn]; split <;> simp [relink]
          have hNp : Nn.left = (if rp = i then some c else nn.left) := by rw [hNn]; split <;> simp [relink]
          have hsame1 : ∀ x, x ≠ rr → x ≠ np →
              (final1 (setLink t rp gr (some c)) np gr2 rr Nn).nodes[x]? = (setLink t rp gr (some c)).nodes[x]? := by
            intro x h1 h2
            rw [final1_nodes, setLink_nodes]
            simp [Ne.symm h1, Ne.symm h2]
          have hleafs1 : ∀ x y, (setLink t rp gr (some c)).nodes[x]? = some y →
              ∃ y', (final1 (setLink t rp gr (some c)) np gr2 rr Nn).nodes[x]? = some y' ∧ y'.key = y.key ∧ y'.val = y.val ∧
                 (if x = rr then y'.bp ≤ nn.bp else y'.bp ≤ y.bp) := by
            intro x y hy
            rw [final1_nodes, setLink_nodes]
            by_cases hxr : rr = x
            · subst hxr
              have hnr : ¬ np = rr := by rw [hnp]; exact hpirr
              simp only [if_true, hnr, if_false, hy, Option.map_some]
              exact ⟨_, rfl, rfl, rfl, by simp [hNbp]⟩
            · have hxr' : ¬ x = rr := fun e => hxr e.symm
              simp only [hxr, if_false, hxr']
              by_cases hnx : np = x
              · simp only [hnx, if_true, hy, Option.map_some]
                exact ⟨_, rfl, by simp, by simp, by simp⟩
              · simp only [hnx, if_false]
                exact ⟨y, hy, rfl, rfl, Nat.le_refl _⟩
          have hkeep : ∀ (X : PT V), (∀ x ∈ inners X, x ≠ rr ∧ x ≠ np) → ∀ pp,
              RepX rr (setLink t rp gr (some c)) nn.bp pp X →
              Rep (final1 (setLink t rp gr (some c)) np gr2 rr Nn) nn.bp pp X := by
            intro X hX0 pp hrep
            apply hrep.settle nn.bp (Nat.le_refl _)
            · intro x hx y hy
              exact ⟨y, by rw [hsame1 x (hX0 x hx).1 (hX0 x hx).2]; exact hy, rfl, rfl, rfl⟩
            · intro x _ y hy
              exact hleafs1 x y hy
          have hPath : Rep (final1 (setLink t rp gr (some c)) np gr2 rr Nn) nn.bp Nn.left c1 := by
            rw [hNp]
            apply hkeep c1 _ _ hX
            intro x hx
            exact ⟨fun e => hrr1 (e ▸ hx), fun e => hni.2.1 (by rw [← hnp, ← e]; exact hsub1 x hx)⟩
          have hOther : Rep (final1 (setLink t rp gr (some c)) np gr2 rr Nn) nn.bp Nn.right r := by
            rw [hNo]
            have hO1 : RepX rr (setLink t rp gr (some c)) nn.bp nn.right r := by
              apply (hr.toX rr).frame
              apply frame_setLink
              rcases hrpP with hh | hh
              · rw [hh]; exact hir
              · exact fun e => hdOP _ e _ hh rfl
            apply hkeep r _ _ hO1
            intro x hx
            exact ⟨fun e => hdOP _ hx _ hrrP e, fun e => hni.2.2 (by rw [← hnp, ← e]; exact hx)⟩
          have hrenP : rename i rr c1 = c1 := rename_of_not_mem _ (fun e => hil (hsub1 _ e))
          have hrenO : rename i rr r = r := rename_of_not_mem _ hir
          constructor
          · rw [if_pos hnp]
            simp only [rename, if_true, hrenP, hrenO]
            exact ⟨rfl, _, h4rr, hNbp, by omega, hPath, hOther⟩
          · rw [final1_nodes, setLink_nodes, setLink_nodes]
            simp [hnp, Ne.symm hpirr, Ne.symm hpirp, hpn]
      · -- above the removed leaf's node
        simp only [hin, if_false] at hnp hgr2
        have hnP : n ∈ inners l := (inner_on_path hsb0 hndl0 hn0 (by simpa [inners] using hmem) hin).2 hd
        cases l with
        | leaf j k v => simp [inners] at hnP
        | inner j bp' l' r' =>
          have hsome : ∃ c1, contract (.inner j bp' l' r') dir = some c1 := by
            cases hcc : contract (.inner j bp' l' r') dir with
            | none => obtain ⟨_, _, _, hh⟩ := (contract_none_iff _ dir).mp hcc; cases hh
            | some c1 => exact ⟨c1, rfl⟩
          obtain ⟨c1, hc1⟩ := hsome
          rw [hc1] at hct
          cases hct
          obtain ⟨ih1, ih2⟩ := ihl nn.bp nn.left i nn false pi c1 hl hnn rfl hupl hsl hnll hnil hil
            hn hnP hrr hne hc1 hrp hgr hc hnp hgr2 hN hrprr
          have hrrP : rr ∈ inners (.inner j bp' l' r') := by
            rcases findEnd_r (.inner j bp' l' r') pi i dir with ⟨⟨_, _, _, hh⟩, _⟩ | ⟨_, hmem', _⟩
            · cases hh
            · rw [hrr]; exact hmem'
          have hrpP : rp ∈ inners (.inner j bp' l' r') := by
            rw [hrp]
            exact cutAt_inner _ i false pi dir hsl hnll (by rw [← hn]; exact hnP) (by rw [← hn, ← hrr]; exact hne)
          have hnpP : np = i ∨ np ∈ inners (.inner j bp' l' r') := by
            rw [hnp]; exact parentEnd_prev _ i n dir
          have hrrl : rr ∈ leafIdx (.inner j bp' l' r') := mem_leafIdx_of_mem_inners' hsl hrrP
          have hOther : Rep (final1 (setLink t rp gr (some c)) np gr2 rr Nn) nn.bp nn.right r := by
            apply hr.frame
            constructor
            · intro x hx y hy
              have h1 : x ≠ rr := fun e => hdOP _ hx _ hrrP e
              have h2 : x ≠ rp := fun e => hdOP _ hx _ hrpP e
              have h3 : x ≠ np := by
                rcases hnpP with hh | hh
                · rw [hh]; exact fun e => hir (e ▸ hx)
                · exact fun e => hdOP _ hx _ hh e
              refine ⟨y, ?_, rfl, rfl, rfl⟩
              rw [final1_nodes, setLink_nodes, setLink_nodes]
              simp [Ne.symm h1, Ne.symm h2, Ne.symm h3, hy]
            · intro x hx y hy
              have h1 : x ≠ rr := fun e => hdlOP _ hx _ hrrl e
              rw [final1_nodes, setLink_nodes, setLink_nodes]
              simp only [Ne.symm h1, if_false]
              by_cases h2 : np = x <;> by_cases h3 : rp = x <;> simp [h2, h3, hy]
          have hnp_pi : np ≠ pi := by
            rcases hnpP with hh | hh
            · rw [hh]; exact fun e => hni.1 e.symm
            · exact fun e => hni.2.1 (e ▸ hh)
          have hrr_pi : rr ≠ pi := fun e => hni.2.1 (e ▸ hrrP)
          have hrp_pi : rp ≠ pi := fun e => hni.2.1 (e ▸ hrpP)
          have hrenO : rename n rr r = r := by
            apply rename_of_not_mem
            intro e
            exact hdOP _ e _ hnP rfl
          have hgr2i : np = i → gr2 = false := by
            intro e
            rw [hgr2]
            exact sideOf_of_parentEnd_eq _ i n false dir hil (by rw [← hnp]; exact e)
          constructor
          · simp only [hnp_pi, if_false, rename, hin]
            rw [hrenO]
            refine ⟨hp, _, ih2, ?_, hb, ?_, ?_⟩
            · split <;> simp
            · have : (if np = i then relink nn gr2 (some rr) else nn).left = (if np = i then some rr else nn.left) := by
                by_cases e : np = i
                · simp [e, relink, hgr2i e]
                · simp [e]
              rw [this]
              exact ih1
            · have : (if np = i then relink nn gr2 (some rr) else nn).right = nn.right := by
                by_cases e : np = i
                · simp [e, relink, hgr2i e]
                · simp [e]
              rw [this]
              have : (if np = i then relink nn gr2 (some rr) else nn).bp = nn.bp := by split <;> simp
              exact hOther
          · rw [final1_nodes, setLink_nodes, setLink_nodes]
            simp [hrr_pi, hrp_pi, hnp_pi, hpn]

end Patricia
end AlgoVerif.C06
