import AlgoVerif.Model.C13X
import AlgoVerif.Spec.C13X
import AlgoVerif.Proofs.C13IsoNFA
import AlgoVerif.Proofs.C13MinimalFull
import AlgoVerif.Proofs.C13Results
/-! C13: the read-only public API — `Transitions()` as a range-over-func iterator with early exit is a
`for … break` loop over the entries of the table in iteration order; the consumer of the op `trans X k` collects the
first `k` entries; `NFA.Next` against the transition relation and the builder API. -/
namespace AlgoVerif.C13
open AlgoVerif AlgoVerif.C13.Spec

theorem foldUntilB_append {α σ : Type} (body : σ → α → σ × Bool) (l1 l2 : List α) (st : σ) :
    foldUntilB body (l1 ++ l2) st =
      match foldUntilB body l1 st with
      | (st', true) => foldUntilB body l2 st'
      | (st', false) => (st', false) := by
  induction l1 generalizing st with
  | nil => simp [foldUntilB]
  | cons x l1 ih =>
    simp only [List.cons_append, foldUntilB]
    rcases h : body st x with ⟨st', b⟩
    cases b with
    | true => simp only; exact ih st'
    | false => simp

theorem iterInner_eq {β σ : Type} (yield : σ → Int × Int × β → σ × Bool) (s : Int) (es : List (Int × β)) (st : σ) :
    iterInner yield s es st = foldUntilB yield (es.map (fun e => (s, e.1, e.2))) st := by
  induction es generalizing st with
  | nil => simp [iterInner, foldUntilB]
  | cons e es ih =>
    simp only [iterInner, List.map_cons, foldUntilB]
    rcases h : yield st (s, e.1, e.2) with ⟨st', b⟩
    cases b with
    | true => simp only; exact ih st'
    | false => simp

/-- the nested loops with `return` = one loop with `break` over the entries in iteration order -/
theorem iterOuter_eq {β σ : Type} (yield : σ → Int × Int × β → σ × Bool) (tr : List (Int × List (Int × β))) (st : σ) :
    iterOuter yield tr st = foldUntil yield (entries tr) st := by
  induction tr generalizing st with
  | nil => simp [iterOuter, foldUntil, foldUntilB, entries]
  | cons t tr ih =>
    simp only [iterOuter, foldUntil, entries, List.flatMap_cons, foldUntilB_append]
    rw [iterInner_eq]
    rcases h : foldUntilB yield (t.2.map (fun e => (t.1, e.1, e.2))) st with ⟨st', b⟩
    cases b with
    | true => rw [h]; simp only; rw [ih]; rfl
    | false => rw [h]

/-- the consumer of `trans X k` on a list: the first `k − cnt` elements are appended -/
theorem foldUntilB_takeYield {α : Type} (k : Nat) (l : List α) (acc : List α) (c : Nat) (hc : c ≤ k) :
    (foldUntilB (takeYield k) l (acc, c)).1 = (acc ++ l.take (k - c), min k (c + l.length)) := by
  induction l generalizing acc c with
  | nil => simp [foldUntilB]; omega
  | cons x l ih =>
    simp only [foldUntilB, takeYield]
    by_cases h : c = k
    · subst h; simp
    · simp only [h, if_false]
      rw [ih _ _ (by omega)]
      have : k - c = (k - (c + 1)) + 1 := by omega
      rw [this, List.take_succ_cons]
      simp only [List.append_assoc, List.cons_append, List.nil_append, List.length_cons, Prod.mk.injEq, true_and]
      omega

theorem DFA.transPrefix_eq (d : DFA) (k : Nat) : d.transPrefix k = (entries d.trans).take k := by
  simp only [DFA.transPrefix, DFA.transitionsIter, iterOuter_eq, foldUntil]
  rw [foldUntilB_takeYield k _ [] 0 (Nat.zero_le _)]; simp

theorem NFA.transPrefix_eq (n : NFA) (k : Nat) : n.transPrefix k = (entries n.trans).take k := by
  simp only [NFA.transPrefix, NFA.transitionsIter, iterOuter_eq, foldUntil]
  rw [foldUntilB_takeYield k _ [] 0 (Nat.zero_le _)]; simp

theorem NFA.nextPub_eq (n : NFA) (s a : Int) : n.nextPub s a = n.next s a := by
  simp only [NFA.nextPub]; cases n.next s a <;> rfl

theorem NFA.next_new (st : Int) (f : List Int) (s a : Int) : (NFA.new st f).next s a = none := by
  simp [NFA.new, NFA.next, aget]

theorem DFA.δ_new (st : Int) (f : List Int) (s a : Int) : (DFA.new st f).δ s a = none := by
  simp [DFA.new, DFA.δ, aget]

/-- every target set of the table is strictly increasing (what `NewStates` + `Add` keep) -/
def NFA.TSorted (n : NFA) : Prop := ∀ s a nx, n.next s a = some nx → SSorted nx

theorem NFA.TSorted_new (st : Int) (f : List Int) : (NFA.new st f).TSorted := by
  intro s a nx h; rw [NFA.next_new] at h; cases h

theorem NFA.TSorted_add {n : NFA} (h : n.TSorted) (s a : Int) (l : List Int) : (n.add s a l).TSorted := by
  intro s' a' nx hn
  rw [NFA.next_add] at hn
  split at hn
  · injection hn with hn; subst hn
    apply ssorted_saddAll
    cases hx : n.next s a with
    | none => simp [SSorted]
    | some x => exact h s a x hx
  · exact h s' a' nx hn

/-! ### `X.Final.Add(s)`: the exported `Final` set edited in place -/

theorem NFA.addFinal_Δ (n : NFA) (s : Int) : (n.addFinal s).Δ = n.Δ := rfl
theorem DFA.addFinal_δ (d : DFA) (s : Int) : (d.addFinal s).δ = d.δ := rfl
theorem DFA.addFinal_next (d : DFA) (s : Int) : (d.addFinal s).next = d.next := rfl

/-- after `Final.Add(s)` an NFA accepts what it accepted before and every word some path spells from the start state to `s` -/
theorem NFA.addFinal_lang (n : NFA) (s : Int) (w : Word) :
    (n.addFinal s).lang w ↔ n.lang w ∨ Path n.Δ n.start w s := by
  show (∃ f, f ∈ sins s n.final ∧ Path n.Δ n.start w f) ↔ (∃ f, f ∈ n.final ∧ Path n.Δ n.start w f) ∨ _
  constructor
  · rintro ⟨f, hf, hp⟩
    rcases mem_sins.1 hf with rfl | hf
    · exact Or.inr hp
    · exact Or.inl ⟨f, hf, hp⟩
  · rintro (⟨f, hf, hp⟩ | hp)
    · exact ⟨f, mem_sins.2 (Or.inr hf), hp⟩
    · exact ⟨s, mem_sins.2 (Or.inl rfl), hp⟩

/-- after `Final.Add(s)` a DFA accepts what it accepted before and every word whose run ends in `s` -/
theorem DFA.addFinal_lang (d : DFA) (s : Int) (w : Word) :
    (d.addFinal s).lang w ↔ d.lang w ∨ dfaRun d.δ (some d.start) w = some s := by
  show (∃ f, dfaRun d.δ (some d.start) w = some f ∧ f ∈ sins s d.final) ↔
    (∃ f, dfaRun d.δ (some d.start) w = some f ∧ f ∈ d.final) ∨ _
  constructor
  · rintro ⟨f, hr, hf⟩
    rcases mem_sins.1 hf with rfl | hf
    · exact Or.inr hr
    · exact Or.inl ⟨f, hr, hf⟩
  · rintro (⟨f, hr, hf⟩ | hr)
    · exact ⟨f, hr, mem_sins.2 (Or.inr hf)⟩
    · exact ⟨s, hr, mem_sins.2 (Or.inl rfl)⟩

/-- the same on the executable `Accept` of the Model: the run of `Next` from the start state ends in a state that was
final before, or in `s` -/
theorem DFA.addFinal_accept (d : DFA) (s : Int) (w : Word) :
    (d.addFinal s).accept w = (d.accept w || (w.foldl d.next d.start == s)) := by
  simp only [DFA.accept, DFA.addFinal_next]
  show (sins s d.final).contains (w.foldl d.next d.start) = _
  rw [Bool.eq_iff_iff]
  simp [mem_sins, or_comm]

theorem DFA.addFinal_good {d : DFA} (h : d.Good) (s : Int) (hs : s ≠ -1) : (d.addFinal s).Good :=
  ⟨h.wf, ⟨fun hm => by
      rcases mem_sins.1 hm with h1 | h1
      · exact hs h1.symm
      · exact h.proper.1 h1, h.proper.2⟩, ssorted_sins h.fin, h.noEps⟩

end AlgoVerif.C13
