import AlgoVerif.Proofs.C11CompleteCheck
/-!
# C11 — completeness of the driver on a validated SLR(1) table (LR(0) items, reductions on FOLLOW)

The same induction over derivation trees as in `C11Complete`; the lookahead condition "the next token is in
FIRST(β·a)" of an LR(1) item becomes "the next token is in FOLLOW of the non-terminal being parsed", which closedness
of FOLLOW under the productions hands from a production's head to the non-terminals of its body.
-/
namespace AlgoVerif.C11.Complete
open AlgoVerif AlgoVerif.Gram AlgoVerif.C11 AlgoVerif.C11.Spec

structure CompleteTable0 (g : SGrammar) (start' : String) (nl : List String) (fe fo : Env)
    (items : Int → List Item) (T : Tbl) : Prop where
  init : ({ prod := { head := start', body := [Sym.nonterm g.start] }, dot := 0, la := none } : Item) ∈ items 0
  closed : ∀ s it B, it ∈ items s → it.dotSym = some (Sym.nonterm B) →
    ∀ p ∈ g.prods, p.head = B → ({ prod := p, dot := 0, la := none } : Item) ∈ items s
  advT : ∀ s it a, it ∈ items s → it.dotSym = some (Sym.term a) →
    ∃ t, Action.shift t ∈ T.cell s a ∧ it.next ∈ items t
  advN : ∀ s it A, it ∈ items s → it.dotSym = some (Sym.nonterm A) →
    ∃ t, T.goto s A = some t ∧ it.next ∈ items t
  red : ∀ s it, it ∈ items s → it.isComplete = true → it.prod.head ≠ start' →
    ∀ a ∈ envGet fo it.prod.head, Action.reduce it.prod ∈ T.cell s a
  acc : ∀ s it, it ∈ items s → it.isComplete = true → it.prod.head = start' → Action.accept ∈ T.cell s endmarker
  conflictFree : ∀ s a, (T.cell s a).length ≤ 1
  nullClosed : ∀ p ∈ g.prods, p.body.all (symNullable nl) = true → p.head ∈ nl
  firstClosed : ∀ p ∈ g.prods, ∀ c ∈ firstOfStr nl fe p.body, c ∈ envGet fe p.head
  followClosed : ∀ p ∈ g.prods, ∀ (pre : List Sy) (B : String) (σ : List Sy), p.body = pre ++ Sym.nonterm B :: σ →
    (∀ c ∈ firstOfStr nl fe σ, c ∈ envGet fo B) ∧
    (σ.all (symNullable nl) = true → ∀ c ∈ envGet fo p.head, c ∈ envGet fo B)
  followStart : endmarker ∈ envGet fo g.start
  fresh : ∀ p ∈ g.prods, p.head ≠ start'

def ProcT0 (g : SGrammar) (fo : Env) (items : Int → List Item) (T : Tbl) (t : Tree) : Prop :=
  ∀ (X : Sy) (st : PState) (it : Item) (v : List String),
    derivesT g t X → st.input = t.yield ++ v → it ∈ items (peekState st.stack) → it.dotSym = some X →
    (∀ B, X = Sym.nonterm B → look v ∈ envGet fo B) →
    ∃ (st' : PState) (s' : Int), Reaches T st st' ∧ st'.stack = s' :: st.stack ∧ it.next ∈ items s' ∧
      st'.input = v ∧ st'.out = (postT t).reverse ++ st.out ∧ st'.nodes = t :: st.nodes

section
variable {g : SGrammar} {start' : String} {nl : List String} {fe fo : Env} {items : Int → List Item} {T : Tbl}
  (hC : CompleteTable0 g start' nl fe fo items T)
include hC

theorem proc_forest0 (p : Pr) (hp : p ∈ g.prods) :
    ∀ (ks : List Tree) (σ pre : List Sy) (st : PState) (v : List String),
      (∀ t ∈ ks, ProcT0 g fo items T t) → derivesL g ks σ → p.body = pre ++ σ →
      st.input = Tree.yieldL ks ++ v → look v ∈ envGet fo p.head →
      ({ prod := p, dot := pre.length, la := none } : Item) ∈ items (peekState st.stack) →
      ∃ (st' : PState) (pushed : List Int), Reaches T st st' ∧ st'.stack = pushed ++ st.stack ∧
        pushed.length = σ.length ∧
        ({ prod := p, dot := p.body.length, la := none } : Item) ∈ items (peekState st'.stack) ∧
        st'.input = v ∧ st'.out = (postL ks).reverse ++ st.out ∧ st'.nodes = ks.reverse ++ st.nodes := by
  intro ks
  induction ks with
  | nil =>
    intro σ pre st v _ hd hb hin _ hit
    simp only [derivesL] at hd
    subst hd
    simp only [List.append_nil] at hb
    refine ⟨st, [], reaches_refl T st, by simp, by simp, ?_, by simpa [Tree.yieldL] using hin, by simp [postL], by simp⟩
    rw [hb]; exact hit
  | cons t tr ih =>
    intro σ pre st v hproc hd hb hin hl hit
    simp only [derivesL] at hd
    obtain ⟨X, σr, rfl, hdt, hdr⟩ := hd
    have hin1 : st.input = t.yield ++ (Tree.yieldL tr ++ v) := by
      rw [hin]; simp [Tree.yieldL, List.append_assoc]
    obtain ⟨st1, s1, hr1, hstk1, hnext1, hin1', hout1, hnodes1⟩ :=
      hproc t (by simp) X st _ (Tree.yieldL tr ++ v) hdt hin1 hit (dotSym_at hb) (by
        intro B hB
        subst hB
        obtain ⟨hf1, hf2⟩ := hC.followClosed p hp pre B σr hb
        have hls := look_sem hC.nullClosed hC.firstClosed hdr v
        by_cases hnull : σr.all (symNullable nl) = true
        · simp only [hnull, if_true] at hls
          rcases Built.mem_unionNew.mp hls with h1 | h1
          · exact hf1 _ h1
          · simp at h1; rw [h1]; exact hf2 hnull _ hl
        · simp only [hnull, Bool.false_eq_true, if_false] at hls
          exact hf1 _ hls)
    have hb' : p.body = (pre ++ [X]) ++ σr := by rw [hb]; simp
    have hit' : ({ prod := p, dot := (pre ++ [X]).length, la := none } : Item) ∈ items (peekState st1.stack) := by
      rw [hstk1]
      simpa [peekState, Item.next] using hnext1
    obtain ⟨st2, pushed, hr2, hstk2, hlen2, hfin2, hin2, hout2, hnodes2⟩ :=
      ih σr (pre ++ [X]) st1 v (fun t' ht' => hproc t' (List.mem_cons_of_mem _ ht')) hdr hb' hin1' hl hit'
    refine ⟨st2, pushed ++ [s1], reaches_trans hr1 hr2, ?_, by simp [hlen2], hfin2, hin2, ?_, ?_⟩
    · rw [hstk2, hstk1]; simp
    · rw [hout2, hout1]; simp [postL, List.append_assoc]
    · rw [hnodes2, hnodes1]; simp

theorem proc_tree0 : ∀ (N : Nat) (t : Tree), treeSize t ≤ N → ProcT0 g fo items T t := by
  intro N
  induction N with
  | zero => intro t hs; have := treeSize_pos t; omega
  | succ N ih =>
    intro t hs X st it v hd hin hit hdot hla
    cases t with
    | nil => simp [derivesT] at hd
    | leaf a =>
      simp only [derivesT] at hd
      subst hd
      obtain ⟨t', hsh, hnext⟩ := hC.advT _ it a hit hdot
      have hin' : st.input = a :: v := by simpa [Tree.yield] using hin
      have htok : st.tok = a := by simp [PState.tok, hin']
      have hcell := cell_single (hC.conflictFree _ _) hsh
      have hstep : pstep T st = .inl (PState.mk (t' :: st.stack) st.input.tail st.out (Tree.leaf a :: st.nodes)
          (st.shifted + 1)) := by
        unfold pstep
        simp only [htok, hcell]
      refine ⟨_, t', reaches_step hstep, rfl, hnext, by simp [hin'], by simp [postT], rfl⟩
    | node p ks =>
      simp only [derivesT] at hd
      obtain ⟨rfl, hp, hks⟩ := hd
      simp only [treeSize] at hs
      have hlook := hla p.head rfl
      have hi0 := hC.closed _ it p.head hit hdot p hp rfl
      have hkids : ∀ t ∈ ks, ProcT0 g fo items T t := by
        intro t ht
        apply ih
        have : treeSize t ≤ treeSizeL ks := by
          clear hs hks hin hi0
          induction ks with
          | nil => simp at ht
          | cons k kr ihk =>
            simp only [treeSizeL]
            rcases List.mem_cons.mp ht with rfl | h'
            · omega
            · have := ihk h'; omega
        omega
      have hin' : st.input = Tree.yieldL ks ++ v := by simpa [Tree.yield] using hin
      obtain ⟨st1, pushed, hr1, hstk1, hlen1, hfin1, hin1, hout1, hnodes1⟩ :=
        proc_forest0 hC p hp ks p.body [] st v hkids hks (by simp) hin' hlook (by simpa using hi0)
      have htok : st1.tok = look v := by
        unfold PState.tok look; rw [hin1]; cases v <;> rfl
      have hred := hC.red _ _ hfin1 (by simp [Item.isComplete]) (hC.fresh p hp) (look v) hlook
      have hcell := cell_single (hC.conflictFree _ _) hred
      obtain ⟨s', hgoto, hnext⟩ := hC.advN _ it p.head hit hdot
      have hdrop : st1.stack.drop p.body.length = st.stack := by
        rw [hstk1, ← hlen1]; simp
      have hklen : ks.length = p.body.length := derivesL_length hks
      have hkidsEq : popKids p.body.length st1.nodes = ks := by
        rw [hnodes1]
        simp [popKids, ← hklen]
      have hstep : pstep T st1 = .inl (PState.mk (s' :: st.stack) st1.input (p :: st1.out)
          (Tree.node p ks :: st.nodes) st1.shifted) := by
        unfold pstep
        simp only [htok, hcell, hdrop, hgoto, Option.getD_some, hkidsEq]
        have : st1.nodes.drop p.body.length = st.nodes := by
          rw [hnodes1]
          have hklen' : ks.reverse.length = p.body.length := by simp [hklen]
          rw [← hklen']; simp
        rw [this]
      refine ⟨_, s', reaches_trans hr1 (reaches_step hstep), rfl, hnext, by simpa using hin1, ?_, rfl⟩
      simp [postT, hout1]

theorem complete_tree0 (t : Tree) (hd : derivesT g t (Sym.nonterm g.start)) :
    ∃ fuel, parse T fuel t.yield = Outcome.ok (PResult.accept (postT t) t) := by
  let it0 : Item := { prod := { head := start', body := [Sym.nonterm g.start] }, dot := 0, la := none }
  have hproc := proc_tree0 hC (treeSize t) t (Nat.le_refl _) (Sym.nonterm g.start) (pinit t.yield) it0 []
    hd (by simp [pinit]) (by simpa [pinit, peekState] using hC.init) (by simp [it0, Item.dotSym]) (by
      intro B hB
      simp only [Sym.nonterm.injEq] at hB
      subst hB
      exact hC.followStart)
  obtain ⟨st', s', ⟨n, hn⟩, hstk, hnext, hin, hout, hnodes⟩ := hproc
  refine ⟨n + 1, ?_⟩
  unfold parse
  rw [prun_iter n 1 _ st' hn]
  have hacc := hC.acc s' it0.next hnext (by simp [it0, Item.next, Item.isComplete]) (by simp [it0, Item.next])
  have hcell := cell_single (hC.conflictFree _ _) hacc
  have htok : st'.tok = endmarker := by simp [PState.tok, hin]
  have hpeek : peekState st'.stack = s' := by rw [hstk]; rfl
  simp only [prun, pstep, hpeek, htok, hcell, hout, hnodes]
  simp [pinit]

theorem complete_language0 (w : List String) (hw : Language g w) :
    ∃ fuel t, derivesT g t (Sym.nonterm g.start) ∧ t.yield = w ∧
      parse T fuel w = Outcome.ok (PResult.accept (postT t) t) := by
  obtain ⟨t, ht, hy⟩ := tree_of_language hw
  obtain ⟨fuel, hf⟩ := complete_tree0 hC t ht
  exact ⟨fuel, t, ht, hy, hy ▸ hf⟩

end

end AlgoVerif.C11.Complete
