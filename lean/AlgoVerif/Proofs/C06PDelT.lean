import AlgoVerif.Proofs.C06PPut
/-!
# C06 — Patricia deletion on the unfolded tree (pure part)

`dir bp` is the direction the three deletion loops take at a node with bit position `bp` (the bit of the key
to delete, or constantly left / right for DeleteMin / DeleteMax).  The leaf the path ends at is removed and its
parent contracted (`contract`); the Patricia node of the removed leaf is replaced, where it occurs as an
inner node, by the contracted parent's node (`rename`).
-/
namespace AlgoVerif.C06
variable {V : Type}
open BitString (xbit Small)

namespace PT

/-- the leaf a path ends at -/
def descendD : PT V → (Nat → Bool) → Nat × Key × V
  | leaf i k v, _ => (i, k, v)
  | inner _ bp l r, dir => if dir bp then descendD r dir else descendD l dir

/-- the path's directions are the bits of `kn` -/
def OnPath : PT V → (Nat → Bool) → Key → Prop
  | leaf _ _ _, _, _ => True
  | inner _ bp l r, dir, kn => dir bp = xbit kn (bp - 1) ∧ (if dir bp then OnPath r dir kn else OnPath l dir kn)

theorem descendD_key_mem (T : PT V) (dir : Nat → Bool) : (descendD T dir).2.1 ∈ keys T := by
  induction T with
  | leaf => simp [descendD]
  | inner i bp l r ihl ihr =>
    simp only [descendD, keys_inner, List.mem_append]
    split
    · exact .inr ihr
    · exact .inl ihl

theorem descendD_mem (T : PT V) (dir : Nat → Bool) : ((descendD T dir).2.1, (descendD T dir).2.2) ∈ ents T := by
  induction T with
  | leaf => simp [descendD, ents]
  | inner i bp l r ihl ihr =>
    simp only [descendD, ents, List.mem_append]
    split
    · exact .inr ihr
    · exact .inl ihl

theorem descendD_idx_mem (T : PT V) (dir : Nat → Bool) : (descendD T dir).1 ∈ leafIdx T := by
  induction T with
  | leaf => simp [descendD, leafIdx]
  | inner i bp l r ihl ihr =>
    simp only [descendD, leafIdx, List.mem_append]
    split
    · exact .inr ihr
    · exact .inl ihl

/-- under the crit-bit invariant a path's directions are the bits of the key it ends at -/
theorem onPath_of_crit {T : PT V} (hc : Crit T) (dir : Nat → Bool) : OnPath T dir (descendD T dir).2.1 := by
  induction T with
  | leaf => trivial
  | inner i bp l r ihl ihr =>
    obtain ⟨_, hl, hr, _, hcl, hcr⟩ := hc
    simp only [OnPath, descendD]
    cases hd : dir bp
    · simp only [Bool.false_eq_true, if_false]
      exact ⟨(hl _ (descendD_key_mem l dir)).symm, ihl hcl⟩
    · simp only [if_true]
      exact ⟨(hr _ (descendD_key_mem r dir)).symm, ihr hcr⟩

/-- following a key's bits -/
theorem descendD_key (T : PT V) (key : Key) : descendD T (fun bp => xbit key (bp - 1)) = descend T key := by
  induction T with
  | leaf => rfl
  | inner i bp l r ihl ihr => simp only [descendD, descend, ihl, ihr]

theorem descendD_left (T : PT V) : ((descendD T (fun _ => false)).2.1, (descendD T (fun _ => false)).2.2) ∈ (ents T).head? := by
  induction T with
  | leaf => simp [descendD, ents]
  | inner i bp l r ihl ihr =>
    simp only [descendD, ents, Bool.false_eq_true, if_false]
    cases he : ents l with
    | nil => exact absurd he (ents_ne_nil l)
    | cons x xs => rw [he] at ihl; simpa using ihl

theorem descendD_right (T : PT V) : ((descendD T (fun _ => true)).2.1, (descendD T (fun _ => true)).2.2) ∈ (ents T).getLast? := by
  induction T with
  | leaf => simp [descendD, ents]
  | inner i bp l r ihl ihr =>
    simp only [descendD, ents, if_true]
    rw [List.getLast?_append]
    cases he : (ents r).getLast? with
    | none => exact absurd (List.getLast?_eq_none_iff.mp he) (ents_ne_nil r)
    | some x => rw [he] at ihr; simpa using ihr

/-- remove the leaf the path ends at and contract its parent; `none` if the tree is that leaf -/
def contract : PT V → (Nat → Bool) → Option (PT V)
  | leaf _ _ _, _ => none
  | inner i bp l r, dir =>
    if dir bp then
      (match contract r dir with
       | none => some l
       | some r' => some (inner i bp l r'))
    else
      (match contract l dir with
       | none => some r
       | some l' => some (inner i bp l' r))

theorem contract_none_iff (T : PT V) (dir : Nat → Bool) : contract T dir = none ↔ ∃ i k v, T = leaf i k v := by
  cases T with
  | leaf i k v => simp [contract]
  | inner i bp l r =>
    simp only [contract]
    constructor
    · intro h; split at h <;> split at h <;> cases h
    · rintro ⟨_, _, _, h⟩; cases h

/-- replace the inner index `a` by `b` -/
def rename (a b : Nat) : PT V → PT V
  | leaf i k v => leaf i k v
  | inner i bp l r => inner (if i = a then b else i) bp (rename a b l) (rename a b r)

@[simp] theorem ents_rename (a b : Nat) (T : PT V) : ents (rename a b T) = ents T := by
  induction T with
  | leaf => rfl
  | inner i bp l r ihl ihr => simp [rename, ents, ihl, ihr]

@[simp] theorem keys_rename (a b : Nat) (T : PT V) : keys (rename a b T) = keys T := by simp [keys]

@[simp] theorem leafIdx_rename (a b : Nat) (T : PT V) : leafIdx (rename a b T) = leafIdx T := by
  induction T with
  | leaf => rfl
  | inner i bp l r ihl ihr => simp [rename, leafIdx, ihl, ihr]

theorem inners_rename (a b : Nat) (T : PT V) : inners (rename a b T) = (inners T).map (fun i => if i = a then b else i) := by
  induction T with
  | leaf => rfl
  | inner i bp l r ihl ihr => simp [rename, inners, ihl, ihr]

theorem rename_of_not_mem {a : Nat} (b : Nat) {T : PT V} (h : a ∉ inners T) : rename a b T = T := by
  induction T with
  | leaf => rfl
  | inner i bp l r ihl ihr =>
    simp only [inners, List.mem_cons, List.mem_append, not_or] at h
    have : ¬ i = a := fun e => h.1 e.symm
    simp [rename, this, ihl h.2.1, ihr h.2.2]

theorem crit_rename {a b : Nat} {T : PT V} (hc : Crit T) : Crit (rename a b T) := by
  induction T with
  | leaf => exact hc
  | inner i bp l r ihl ihr =>
    obtain ⟨h1, h2, h3, h4, hcl, hcr⟩ := hc
    exact ⟨h1, by simpa using h2, by simpa using h3, by simpa using h4, ihl hcl, ihr hcr⟩

/-! ### what `contract` does to entries, keys, indices -/

theorem keys_contract_subset {T T1 : PT V} {dir : Nat → Bool} (h : contract T dir = some T1) :
    ∀ k ∈ keys T1, k ∈ keys T := by
  induction T generalizing T1 with
  | leaf => simp [contract] at h
  | inner i bp l r ihl ihr =>
    simp only [contract] at h
    intro k hk
    rw [keys_inner, List.mem_append]
    split at h
    · split at h
      · cases h; exact .inl hk
      · rename_i r' hr'
        cases h
        rw [keys_inner, List.mem_append] at hk
        rcases hk with hk | hk
        · exact .inl hk
        · exact .inr (ihr hr' k hk)
    · split at h
      · cases h; exact .inr hk
      · rename_i l' hl'
        cases h
        rw [keys_inner, List.mem_append] at hk
        rcases hk with hk | hk
        · exact .inl (ihl hl' k hk)
        · exact .inr hk

theorem crit_contract {T T1 : PT V} {dir : Nat → Bool} (hc : Crit T) (h : contract T dir = some T1) : Crit T1 := by
  induction T generalizing T1 with
  | leaf => simp [contract] at h
  | inner i bp l r ihl ihr =>
    obtain ⟨h1, h2, h3, h4, hcl, hcr⟩ := hc
    simp only [contract] at h
    split at h
    · split at h
      · cases h; exact hcl
      · rename_i r' hr'
        cases h
        have hsub := keys_contract_subset hr'
        refine ⟨h1, h2, fun k hk => h3 k (hsub k hk), ?_, hcl, ihr hcr hr'⟩
        intro k hk k' hk' j hj
        have hm : ∀ x, x ∈ keys l ++ keys r' → x ∈ keys l ++ keys r := by
          intro x hx
          rcases List.mem_append.mp hx with hx | hx
          · exact List.mem_append.mpr (.inl hx)
          · exact List.mem_append.mpr (.inr (hsub x hx))
        exact h4 k (hm k hk) k' (hm k' hk') j hj
    · split at h
      · cases h; exact hcr
      · rename_i l' hl'
        cases h
        have hsub := keys_contract_subset hl'
        refine ⟨h1, fun k hk => h2 k (hsub k hk), h3, ?_, ihl hcl hl', hcr⟩
        intro k hk k' hk' j hj
        have hm : ∀ x, x ∈ keys l' ++ keys r → x ∈ keys l ++ keys r := by
          intro x hx
          rcases List.mem_append.mp hx with hx | hx
          · exact List.mem_append.mpr (.inl (hsub x hx))
          · exact List.mem_append.mpr (.inr hx)
        exact h4 k (hm k hk) k' (hm k' hk') j hj

/-- the entries that remain are exactly those with another key -/
theorem mem_ents_contract {T T1 : PT V} {dir : Nat → Bool} (hc : Crit T) (h : contract T dir = some T1) (e : Key × V) :
    e ∈ ents T1 ↔ e ∈ ents T ∧ e.1 ≠ (descendD T dir).2.1 := by
  induction T generalizing T1 with
  | leaf => simp [contract] at h
  | inner i bp l r ihl ihr =>
    obtain ⟨_, h2, h3, _, hcl, hcr⟩ := hc
    have hl_ne : ∀ x ∈ ents l, ∀ y ∈ keys r, x.1 ≠ y := by
      intro x hx y hy heq
      have := h2 x.1 (List.mem_map.mpr ⟨x, hx, rfl⟩)
      rw [heq, h3 y hy] at this; cases this
    simp only [contract] at h
    simp only [descendD, ents, List.mem_append]
    cases hd : dir bp
    · simp only [hd, Bool.false_eq_true, if_false] at h ⊢
      have hkn : (descendD l dir).2.1 ∈ keys l := descendD_key_mem l dir
      have hr_ne : ∀ x ∈ ents r, x.1 ≠ (descendD l dir).2.1 := by
        intro x hx heq
        have := h3 x.1 (List.mem_map.mpr ⟨x, hx, rfl⟩)
        rw [heq, h2 _ hkn] at this; cases this
      split at h
      · rename_i hnone
        cases h
        obtain ⟨j, k, v, rfl⟩ := (contract_none_iff l dir).mp hnone
        simp only [ents, descendD, List.mem_singleton]
        constructor
        · exact fun he => ⟨.inr he, hr_ne e he⟩
        · rintro ⟨he | he, hne⟩
          · subst he; exact absurd rfl hne
          · exact he
      · rename_i l' hl'
        cases h
        simp only [ents, List.mem_append, ihl hcl hl']
        constructor
        · rintro (⟨he, hne⟩ | he)
          · exact ⟨.inl he, hne⟩
          · exact ⟨.inr he, hr_ne e he⟩
        · rintro ⟨he | he, hne⟩
          · exact .inl ⟨he, hne⟩
          · exact .inr he
    · simp only [hd, if_true] at h ⊢
      have hkn : (descendD r dir).2.1 ∈ keys r := descendD_key_mem r dir
      split at h
      · rename_i hnone
        cases h
        obtain ⟨j, k, v, rfl⟩ := (contract_none_iff r dir).mp hnone
        simp only [ents, descendD, List.mem_singleton]
        constructor
        · exact fun he => ⟨.inl he, hl_ne e he k (by simp)⟩
        · rintro ⟨he | he, hne⟩
          · exact he
          · subst he; exact absurd rfl hne
      · rename_i r' hr'
        cases h
        simp only [ents, List.mem_append, ihr hcr hr']
        constructor
        · rintro (he | ⟨he, hne⟩)
          · exact ⟨.inl he, hl_ne e he _ hkn⟩
          · exact ⟨.inr he, hne⟩
        · rintro ⟨he | he, hne⟩
          · exact .inl he
          · exact .inr ⟨he, hne⟩

theorem mem_leafIdx_of_mem_inners' {T : PT V} (hs : SelfBelow T) {x : Nat} (hx : x ∈ inners T) : x ∈ leafIdx T := by
  induction T with
  | leaf => simp [inners] at hx
  | inner i bp l r ihl ihr =>
    obtain ⟨hi, hl, hr⟩ := hs
    simp only [inners, List.mem_cons, List.mem_append] at hx
    simp only [leafIdx, List.mem_append] at hi ⊢
    rcases hx with rfl | hx | hx
    · exact hi
    · exact .inl (ihl hl hx)
    · exact .inr (ihr hr hx)

/-! ### the nodes the deletion loops find -/

/-- `(rp, r, n)` after the first loop, started with `rp, r` above the link to `T` -/
def findEnd : PT V → Nat → Nat → (Nat → Bool) → Nat × Nat × Nat
  | leaf i _ _, rp, r, _ => (rp, r, i)
  | inner i bp l r', _, r, dir => if dir bp then findEnd r' r i dir else findEnd l r i dir

/-- `np` after the second loop, which stops at the first link to node `n` -/
def parentEnd : PT V → Nat → Nat → (Nat → Bool) → Nat
  | leaf _ _ _, np, _, _ => np
  | inner i bp l r, np, n, dir => if i = n then np else if dir bp then parentEnd r i n dir else parentEnd l i n dir

/-- the link that has to be redirected to contract the parent of the removed leaf: (node, is-right-link, new target) -/
def cutAt : PT V → Nat → Bool → (Nat → Bool) → Nat × Bool × Nat
  | leaf i _ _, pi, sd, _ => (pi, sd, i)
  | inner i bp l r, pi, sd, dir =>
    if dir bp then
      (match r with
       | leaf _ _ _ => (pi, sd, idx l)
       | inner _ _ _ _ => cutAt r i true dir)
    else
      (match l with
       | leaf _ _ _ => (pi, sd, idx r)
       | inner _ _ _ _ => cutAt l i false dir)

theorem cutAt_prev (T : PT V) (pi : Nat) (sd : Bool) (dir : Nat → Bool) :
    ((cutAt T pi sd dir).1 = pi ∧ (cutAt T pi sd dir).2.1 = sd) ∨ (cutAt T pi sd dir).1 ∈ inners T := by
  induction T generalizing pi sd with
  | leaf => simp [cutAt]
  | inner i bp l r ihl ihr =>
    simp only [cutAt]
    split
    · cases r with
      | leaf => simp
      | inner j bp' l' r' =>
        rcases ihr i true with h | h
        · right; simp only [h.1, inners]; simp
        · right
          have : (cutAt (inner j bp' l' r') i true dir).1 ∈ inners l ++ inners (inner j bp' l' r') :=
            List.mem_append.mpr (.inr h)
          simp only [inners, List.mem_cons]
          exact .inr this
    · cases l with
      | leaf => simp
      | inner j bp' l' r' =>
        rcases ihl i false with h | h
        · right; simp only [h.1, inners]; simp
        · right
          have : (cutAt (inner j bp' l' r') i false dir).1 ∈ inners (inner j bp' l' r') ++ inners r :=
            List.mem_append.mpr (.inl h)
          simp only [inners, List.mem_cons]
          exact .inr this

theorem findEnd_n (T : PT V) (rp r : Nat) (dir : Nat → Bool) : (findEnd T rp r dir).2.2 = (descendD T dir).1 := by
  induction T generalizing rp r with
  | leaf => rfl
  | inner i bp l r' ihl ihr => simp only [findEnd, descendD]; split <;> simp [ihl, ihr]

/-- the referrer is the start node (for a leaf) or an inner node of the tree -/
theorem findEnd_r (T : PT V) (rp r : Nat) (dir : Nat → Bool) :
    ((∃ i k v, T = leaf i k v) ∧ (findEnd T rp r dir).2.1 = r ∧ (findEnd T rp r dir).1 = rp) ∨
    ((∃ i bp l r', T = inner i bp l r') ∧ (findEnd T rp r dir).2.1 ∈ inners T ∧
      ((findEnd T rp r dir).1 = r ∨ (findEnd T rp r dir).1 ∈ inners T)) := by
  induction T generalizing rp r with
  | leaf i k v => exact .inl ⟨⟨i, k, v, rfl⟩, rfl, rfl⟩
  | inner i bp l r' ihl ihr =>
    right
    refine ⟨⟨i, bp, l, r', rfl⟩, ?_⟩
    simp only [findEnd, inners]
    split
    · rcases ihr r i with ⟨_, h1, h2⟩ | ⟨_, h1, h2⟩
      · rw [h1, h2]; simp
      · constructor
        · simp [h1]
        · rcases h2 with h2 | h2
          · rw [h2]; simp
          · simp [h2]
    · rcases ihl r i with ⟨_, h1, h2⟩ | ⟨_, h1, h2⟩
      · rw [h1, h2]; simp
      · constructor
        · simp [h1]
        · rcases h2 with h2 | h2
          · rw [h2]; simp
          · simp [h2]

/-- contracting removes the referrer from the inner nodes and the leaf from the leaves -/
theorem inners_contract_perm {T T1 : PT V} {dir : Nat → Bool} (h : contract T dir = some T1) (rp r : Nat) :
    ((findEnd T rp r dir).2.1 :: inners T1).Perm (inners T) := by
  induction T generalizing T1 rp r with
  | leaf => simp [contract] at h
  | inner i bp l r' ihl ihr =>
    simp only [contract] at h
    simp only [findEnd, inners]
    cases hd : dir bp
    · simp only [hd, Bool.false_eq_true, if_false] at h ⊢
      split at h
      · rename_i hnone
        cases h
        obtain ⟨j, k, v, rfl⟩ := (contract_none_iff l dir).mp hnone
        simp [findEnd, inners]
      · rename_i l' hl'
        cases h
        simp only [inners]
        exact (List.Perm.swap _ _ _).trans (List.Perm.cons _ (List.Perm.append_right _ (ihl hl' r i)))
    · simp only [hd, if_true] at h ⊢
      split at h
      · rename_i hnone
        cases h
        obtain ⟨j, k, v, rfl⟩ := (contract_none_iff r' dir).mp hnone
        simp [findEnd, inners]
      · rename_i r'' hr'
        cases h
        simp only [inners]
        refine (List.Perm.swap _ _ _).trans (List.Perm.cons _ ?_)
        exact (List.perm_middle.symm).trans (List.Perm.append_left _ (ihr hr' r i))

theorem leafIdx_contract_perm {T T1 : PT V} {dir : Nat → Bool} (h : contract T dir = some T1) :
    ((descendD T dir).1 :: leafIdx T1).Perm (leafIdx T) := by
  induction T generalizing T1 with
  | leaf => simp [contract] at h
  | inner i bp l r' ihl ihr =>
    simp only [contract] at h
    simp only [descendD, leafIdx]
    cases hd : dir bp
    · simp only [hd, Bool.false_eq_true, if_false] at h ⊢
      split at h
      · rename_i hnone
        cases h
        obtain ⟨j, k, v, rfl⟩ := (contract_none_iff l dir).mp hnone
        simp [descendD, leafIdx]
      · rename_i l' hl'
        cases h
        simp only [leafIdx]
        exact List.Perm.append_right _ (ihl hl')
    · simp only [hd, if_true] at h ⊢
      split at h
      · rename_i hnone
        cases h
        obtain ⟨j, k, v, rfl⟩ := (contract_none_iff r' dir).mp hnone
        simp only [descendD, leafIdx]
        exact List.perm_append_comm (l₁ := [j])
      · rename_i r'' hr'
        cases h
        simp only [leafIdx]
        exact (List.perm_middle.symm).trans (List.Perm.append_left _ (ihr hr'))

theorem length_ents_contract {T T1 : PT V} {dir : Nat → Bool} (h : contract T dir = some T1) :
    (ents T1).length + 1 = (ents T).length := by
  induction T generalizing T1 with
  | leaf => simp [contract] at h
  | inner i bp l r' ihl ihr =>
    simp only [contract] at h
    split at h
    · split at h
      · rename_i hnone
        cases h
        obtain ⟨j, k, v, rfl⟩ := (contract_none_iff r' dir).mp hnone
        simp [ents]
      · rename_i r'' hr'
        cases h
        have := ihr hr'
        simp only [ents, List.length_append]; omega
    · split at h
      · rename_i hnone
        cases h
        obtain ⟨j, k, v, rfl⟩ := (contract_none_iff l dir).mp hnone
        simp [ents]
        try omega
      · rename_i l' hl'
        cases h
        have := ihl hl'
        simp only [ents, List.length_append]; omega

theorem cutAt_fst (T : PT V) (pi rp0 : Nat) (sd : Bool) (dir : Nat → Bool) (hT : ∃ i bp l r, T = inner i bp l r) :
    (cutAt T pi sd dir).1 = (findEnd T rp0 pi dir).1 := by
  induction T generalizing pi rp0 sd with
  | leaf => obtain ⟨_, _, _, _, h⟩ := hT; cases h
  | inner i bp l r ihl ihr =>
    simp only [cutAt, findEnd]
    split
    · cases r with
      | leaf => rfl
      | inner j bp' l' r' => exact ihr i pi true ⟨_, _, _, _, rfl⟩
    · cases l with
      | leaf => rfl
      | inner j bp' l' r' => exact ihl i pi false ⟨_, _, _, _, rfl⟩

/-- the removed leaf hangs off its own node: the second loop stops at that node, whose parent is `rp` -/
theorem parentEnd_of_self (T : PT V) (pi rp0 : Nat) (dir : Nat → Bool) (hnd : (inners T).Nodup)
    (hT : ∃ i bp l r, T = inner i bp l r) (h : (findEnd T rp0 pi dir).2.1 = (findEnd T rp0 pi dir).2.2) :
    parentEnd T pi (findEnd T rp0 pi dir).2.2 dir = (findEnd T rp0 pi dir).1 := by
  induction T generalizing pi rp0 with
  | leaf => obtain ⟨_, _, _, _, h⟩ := hT; cases h
  | inner i bp l r ihl ihr =>
    simp only [inners, List.nodup_cons, List.mem_append, not_or, List.nodup_append] at hnd
    obtain ⟨⟨hil, hir⟩, hnl, hnr, _⟩ := hnd
    simp only [findEnd, parentEnd] at h ⊢
    by_cases hd : dir bp = true
    · simp only [hd, if_true] at h ⊢
      cases r with
      | leaf j k v => exact if_pos h
      | inner j bp' l' r' =>
        have hrr := findEnd_r (inner j bp' l' r') pi i dir
        rcases hrr with ⟨⟨_, _, _, hh⟩, _⟩ | ⟨_, hmem, _⟩
        · cases hh
        · have hne : i ≠ (findEnd (inner j bp' l' r') pi i dir).2.2 := by
            intro e; rw [← h] at e; exact hir (e ▸ hmem)
          rw [if_neg hne]
          exact ihr i pi hnr ⟨_, _, _, _, rfl⟩ h
    · simp only [hd, Bool.false_eq_true, if_false] at h ⊢
      cases l with
      | leaf j k v => exact if_pos h
      | inner j bp' l' r' =>
        have hrr := findEnd_r (inner j bp' l' r') pi i dir
        rcases hrr with ⟨⟨_, _, _, hh⟩, _⟩ | ⟨_, hmem, _⟩
        · cases hh
        · have hne : i ≠ (findEnd (inner j bp' l' r') pi i dir).2.2 := by
            intro e; rw [← h] at e; exact hil (e ▸ hmem)
          rw [if_neg hne]
          exact ihl i pi hnl ⟨_, _, _, _, rfl⟩ h

/-- the removed leaf's node is not an inner node (it is the root): the second loop runs down to the leaf -/
theorem parentEnd_of_not_inner (T : PT V) (pi rp0 n : Nat) (dir : Nat → Bool) (hn : n ∉ inners T) :
    parentEnd T pi n dir = (findEnd T rp0 pi dir).2.1 := by
  induction T generalizing pi rp0 with
  | leaf => rfl
  | inner i bp l r ihl ihr =>
    simp only [inners, List.mem_cons, List.mem_append, not_or] at hn
    have : ¬ i = n := fun e => hn.1 e.symm
    simp only [parentEnd, findEnd, this, if_false]
    split
    · exact ihr i pi hn.2.2
    · exact ihl i pi hn.2.1

/-- after the contraction and the renaming every node again lies above its own thread -/
theorem selfBelow_del {T T1 : PT V} {dir : Nat → Bool} (hs : SelfBelow T) (hnd : (leafIdx T).Nodup)
    (hni : (inners T).Nodup) (h : contract T dir = some T1) (rp0 pi : Nat) :
    SelfBelow (rename (descendD T dir).1 (findEnd T rp0 pi dir).2.1 T1) ∧
    (∀ x ∈ leafIdx T, x ≠ (descendD T dir).1 → x ∈ leafIdx T1) ∧
    ((findEnd T rp0 pi dir).2.1 ≠ (descendD T dir).1 → (findEnd T rp0 pi dir).2.1 ∈ leafIdx T1) := by
  induction T generalizing T1 rp0 pi with
  | leaf => simp [contract] at h
  | inner i bp l r ihl ihr =>
    obtain ⟨hi, hsl, hsr⟩ := hs
    have hnd0 := hnd
    simp only [leafIdx, List.nodup_append] at hnd
    obtain ⟨hndl, hndr, hdis⟩ := hnd
    simp only [inners, List.nodup_cons, List.mem_append, not_or, List.nodup_append] at hni
    obtain ⟨⟨hil, hir⟩, hnil, hnir, hdisi⟩ := hni
    simp only [contract] at h
    simp only [descendD, findEnd]
    by_cases hd : dir bp = true
    · simp only [hd, if_true] at h ⊢
      -- the removed leaf is on the right: its index is not an inner node of `l`
      have hnl : (descendD r dir).1 ∉ inners l := by
        intro hmem
        exact hdis _ (mem_leafIdx_of_mem_inners' hsl hmem) _ (descendD_idx_mem r dir) rfl
      cases r with
      | leaf j k v =>
        simp only [contract] at h
        cases h
        simp only [descendD, findEnd] at hnl ⊢
        refine ⟨by rw [rename_of_not_mem _ hnl]; exact hsl, ?_, ?_⟩
        · intro x hx hne
          simp only [leafIdx, List.mem_append, List.mem_singleton] at hx
          rcases hx with hx | hx
          · exact hx
          · exact absurd hx hne
        · intro hne
          simp only [leafIdx, List.mem_append, List.mem_singleton] at hi
          rcases hi with hi | hi
          · exact hi
          · exact absurd hi hne
      | inner j bp' l' r' =>
        have hsome : ∃ r1, contract (inner j bp' l' r') dir = some r1 := by
          cases hc : contract (inner j bp' l' r') dir with
          | none => obtain ⟨_, _, _, hh⟩ := (contract_none_iff _ dir).mp hc; cases hh
          | some r1 => exact ⟨r1, rfl⟩
        obtain ⟨r1, hr1⟩ := hsome
        rw [hr1] at h
        cases h
        obtain ⟨ih1, ih2, ih3⟩ := ihr hsr hndr hnir hr1 pi i
        have hrr := findEnd_r (inner j bp' l' r') pi i dir
        have hrrmem : (findEnd (inner j bp' l' r') pi i dir).2.1 ∈ inners (inner j bp' l' r') := by
          rcases hrr with ⟨⟨_, _, _, hh⟩, _⟩ | ⟨_, hmem, _⟩
          · cases hh
          · exact hmem
        refine ⟨?_, ?_, ?_⟩
        · simp only [rename]
          refine ⟨?_, by rw [rename_of_not_mem _ hnl]; exact hsl, ih1⟩
          simp only [leafIdx_rename, List.mem_append]
          by_cases hin : i = (descendD (inner j bp' l' r') dir).1
          · rw [if_pos hin]
            right
            apply ih3
            intro e
            exact hir (by rw [← e] at hin; exact hin ▸ hrrmem)
          · rw [if_neg hin]
            rcases List.mem_append.mp hi with hi | hi
            · exact .inl hi
            · exact .inr (ih2 i hi hin)
        · intro x hx hne
          have hx' : x ∈ leafIdx l ++ leafIdx (inner j bp' l' r') := hx
          show x ∈ leafIdx l ++ leafIdx r1
          rcases List.mem_append.mp hx' with hx | hx
          · exact List.mem_append.mpr (.inl hx)
          · exact List.mem_append.mpr (.inr (ih2 x hx hne))
        · intro hne
          simp only [leafIdx, List.mem_append]
          exact .inr (ih3 hne)
    · simp only [hd, Bool.false_eq_true, if_false] at h ⊢
      have hnr : (descendD l dir).1 ∉ inners r := by
        intro hmem
        exact hdis _ (descendD_idx_mem l dir) _ (mem_leafIdx_of_mem_inners' hsr hmem) rfl
      cases l with
      | leaf j k v =>
        simp only [contract] at h
        cases h
        simp only [descendD, findEnd] at hnr ⊢
        refine ⟨by rw [rename_of_not_mem _ hnr]; exact hsr, ?_, ?_⟩
        · intro x hx hne
          simp only [leafIdx, List.cons_append, List.nil_append, List.mem_cons] at hx
          rcases hx with hx | hx
          · exact absurd hx hne
          · exact hx
        · intro hne
          simp only [leafIdx, List.cons_append, List.nil_append, List.mem_cons] at hi
          rcases hi with hi | hi
          · exact absurd hi hne
          · exact hi
      | inner j bp' l' r' =>
        have hsome : ∃ l1, contract (inner j bp' l' r') dir = some l1 := by
          cases hc : contract (inner j bp' l' r') dir with
          | none => obtain ⟨_, _, _, hh⟩ := (contract_none_iff _ dir).mp hc; cases hh
          | some l1 => exact ⟨l1, rfl⟩
        obtain ⟨l1, hl1⟩ := hsome
        rw [hl1] at h
        cases h
        obtain ⟨ih1, ih2, ih3⟩ := ihl hsl hndl hnil hl1 pi i
        have hrr := findEnd_r (inner j bp' l' r') pi i dir
        have hrrmem : (findEnd (inner j bp' l' r') pi i dir).2.1 ∈ inners (inner j bp' l' r') := by
          rcases hrr with ⟨⟨_, _, _, hh⟩, _⟩ | ⟨_, hmem, _⟩
          · cases hh
          · exact hmem
        refine ⟨?_, ?_, ?_⟩
        · simp only [rename]
          refine ⟨?_, ih1, by rw [rename_of_not_mem _ hnr]; exact hsr⟩
          simp only [leafIdx_rename, List.mem_append]
          by_cases hin : i = (descendD (inner j bp' l' r') dir).1
          · rw [if_pos hin]
            left
            apply ih3
            intro e
            exact hil (by rw [← e] at hin; exact hin ▸ hrrmem)
          · rw [if_neg hin]
            rcases List.mem_append.mp hi with hi | hi
            · exact .inl (ih2 i hi hin)
            · exact .inr hi
        · intro x hx hne
          have hx' : x ∈ leafIdx (inner j bp' l' r') ++ leafIdx r := hx
          show x ∈ leafIdx l1 ++ leafIdx r
          rcases List.mem_append.mp hx' with hx | hx
          · exact List.mem_append.mpr (.inl (ih2 x hx hne))
          · exact List.mem_append.mpr (.inr hx)
        · intro hne
          simp only [leafIdx, List.mem_append]
          exact .inl (ih3 hne)

/-- which link of the node found by the second loop leads to node `n`: (is-right-link) -/
def sideOf : PT V → Bool → Nat → (Nat → Bool) → Bool
  | leaf _ _ _, sd, _, _ => sd
  | inner i bp l r, sd, n, dir => if i = n then sd else if dir bp then sideOf r true n dir else sideOf l false n dir

theorem parentEnd_prev (T : PT V) (pi n : Nat) (dir : Nat → Bool) : parentEnd T pi n dir = pi ∨ parentEnd T pi n dir ∈ inners T := by
  induction T generalizing pi with
  | leaf => simp [parentEnd]
  | inner i bp l r ihl ihr =>
    simp only [parentEnd, inners]
    by_cases hin : i = n
    · simp [hin]
    · simp only [hin, if_false]
      split
      · rcases ihr i with h | h
        · right; rw [h]; simp
        · right; simp [h]
      · rcases ihl i with h | h
        · right; rw [h]; simp
        · right; simp [h]

/-- the removed leaf's node occurs as an inner node of `T` other than the referrer: it is on the path, above the
referrer, so the path child of a node above it contains it -/
theorem inner_on_path {i bp : Nat} {l r : PT V} {dir : Nat → Bool} (hs : SelfBelow (inner i bp l r))
    (hnd : (leafIdx (inner i bp l r)).Nodup) {n : Nat} (hn : n = (descendD (inner i bp l r) dir).1)
    (hmem : n ∈ inners (inner i bp l r)) (hin : i ≠ n) :
    (dir bp = true → n ∈ inners r) ∧ (¬ dir bp = true → n ∈ inners l) := by
  obtain ⟨_, hsl, hsr⟩ := hs
  simp only [leafIdx, List.nodup_append] at hnd
  obtain ⟨_, _, hdis⟩ := hnd
  simp only [inners, List.mem_cons, List.mem_append] at hmem
  simp only [descendD] at hn
  constructor
  · intro hd
    simp only [hd, if_true] at hn
    rcases hmem with h | h | h
    · exact absurd h.symm hin
    · exact absurd rfl (hdis n (mem_leafIdx_of_mem_inners' hsl h) n (hn ▸ descendD_idx_mem r dir))
    · exact h
  · intro hd
    simp only [hd, if_false] at hn
    rcases hmem with h | h | h
    · exact absurd h.symm hin
    · exact h
    · exact absurd rfl (hdis n (hn ▸ descendD_idx_mem l dir) n (mem_leafIdx_of_mem_inners' hsr h))

/-- if the removed leaf's node is an inner node of `T` other than the referrer, the redirected link belongs to an
inner node of `T` -/
theorem cutAt_inner (T : PT V) (pi : Nat) (sd : Bool) (rp0 : Nat) (dir : Nat → Bool) (hs : SelfBelow T) (hnd : (leafIdx T).Nodup)
    (hmem : (descendD T dir).1 ∈ inners T) (hne : (findEnd T rp0 pi dir).2.1 ≠ (descendD T dir).1) :
    (cutAt T pi sd dir).1 ∈ inners T := by
  cases T with
  | leaf => simp [inners] at hmem
  | inner i bp l r =>
    obtain ⟨_, hsl, hsr⟩ := hs
    simp only [leafIdx, List.nodup_append] at hnd
    obtain ⟨_, _, hdis⟩ := hnd
    simp only [cutAt, descendD, findEnd] at hmem hne ⊢
    by_cases hd : dir bp = true
    · simp only [hd, if_true] at hmem hne ⊢
      cases r with
      | leaf j k v =>
        exfalso
        simp only [descendD, findEnd, inners, List.append_nil, List.mem_cons] at hmem hne
        rcases hmem with h | h
        · exact hne h.symm
        · exact hdis j (mem_leafIdx_of_mem_inners' hsl h) j (by simp [leafIdx]) rfl
      | inner j bp' l' r' =>
        rcases cutAt_prev (inner j bp' l' r') i true dir with h | h
        · rw [h.1]; simp [inners]
        · have : (cutAt (inner j bp' l' r') i true dir).1 ∈ inners l ++ inners (inner j bp' l' r') :=
            List.mem_append.mpr (.inr h)
          simp only [inners, List.mem_cons]; exact .inr this
    · simp only [hd, Bool.false_eq_true, if_false] at hmem hne ⊢
      cases l with
      | leaf j k v =>
        exfalso
        simp only [descendD, findEnd, inners, List.nil_append, List.mem_cons] at hmem hne
        rcases hmem with h | h
        · exact hne h.symm
        · exact hdis j (by simp [leafIdx]) j (mem_leafIdx_of_mem_inners' hsr h) rfl
      | inner j bp' l' r' =>
        rcases cutAt_prev (inner j bp' l' r') i false dir with h | h
        · rw [h.1]; simp [inners]
        · have : (cutAt (inner j bp' l' r') i false dir).1 ∈ inners (inner j bp' l' r') ++ inners r :=
            List.mem_append.mpr (.inl h)
          simp only [inners, List.mem_cons]; exact .inr this

theorem findEnd_rp_ne_rr (T : PT V) (rp0 pi : Nat) (dir : Nat → Bool) (hT : ∃ i bp l r, T = inner i bp l r)
    (hni : pi ∉ inners T) (hnd : (inners T).Nodup) : (findEnd T rp0 pi dir).1 ≠ (findEnd T rp0 pi dir).2.1 := by
  induction T generalizing rp0 pi with
  | leaf => obtain ⟨_, _, _, _, h⟩ := hT; cases h
  | inner i bp l r ihl ihr =>
    simp only [inners, List.nodup_cons, List.mem_append, not_or, List.nodup_append, List.mem_cons] at hnd hni
    obtain ⟨⟨hil, hir⟩, hnl, hnr, _⟩ := hnd
    simp only [findEnd]
    split
    · cases r with
      | leaf j k v => simp only [findEnd]; exact hni.1
      | inner j bp' l' r' => exact ihr pi i ⟨_, _, _, _, rfl⟩ hir hnr
    · cases l with
      | leaf j k v => simp only [findEnd]; exact hni.1
      | inner j bp' l' r' => exact ihl pi i ⟨_, _, _, _, rfl⟩ hil hnl

theorem sideOf_of_parentEnd_eq (T : PT V) (pi n : Nat) (sd : Bool) (dir : Nat → Bool) (hni : pi ∉ inners T)
    (h : parentEnd T pi n dir = pi) : sideOf T sd n dir = sd := by
  cases T with
  | leaf => rfl
  | inner i bp l r =>
    simp only [parentEnd, sideOf] at h ⊢
    by_cases hin : i = n
    · simp [hin]
    · exfalso
      simp only [hin, if_false] at h
      simp only [inners, List.mem_cons, List.mem_append, not_or] at hni
      split at h
      · rcases parentEnd_prev r i n dir with e | e
        · rw [e] at h; exact hni.1 h.symm
        · rw [h] at e; exact hni.2.2 e
      · rcases parentEnd_prev l i n dir with e | e
        · rw [e] at h; exact hni.1 h.symm
        · rw [h] at e; exact hni.2.1 e

theorem parentEnd_ne (T : PT V) (pi n : Nat) (dir : Nat → Bool) (hpi : pi ≠ n) : parentEnd T pi n dir ≠ n := by
  induction T generalizing pi with
  | leaf => exact hpi
  | inner i bp l r ihl ihr =>
    simp only [parentEnd]
    by_cases hin : i = n
    · simp [hin, hpi]
    · simp only [hin, if_false]
      split
      · exact ihr i hin
      · exact ihl i hin

theorem rename_self (a : Nat) (T : PT V) : rename a a T = T := by
  induction T with
  | leaf => rfl
  | inner i bp l r ihl ihr =>
    simp only [rename, ihl, ihr]
    by_cases h : i = a <;> simp [h]

theorem map_rename_of_not_mem {a b : Nat} {l : List Nat} (h : a ∉ l) : l.map (fun i => if i = a then b else i) = l := by
  induction l with
  | nil => rfl
  | cons x xs ih =>
    simp only [List.mem_cons, not_or] at h
    have : ¬ x = a := fun e => h.1 e.symm
    simp [this, ih h.2]

theorem perm_map_rename {a b : Nat} {l : List Nat} (hm : a ∈ l) (hnd : l.Nodup) :
    (a :: l.map (fun i => if i = a then b else i)).Perm (b :: l) := by
  induction l with
  | nil => simp at hm
  | cons x xs ih =>
    obtain ⟨hx, hxs⟩ := List.nodup_cons.mp hnd
    by_cases hxa : x = a
    · subst hxa
      simp only [List.map_cons, if_true, map_rename_of_not_mem hx]
      exact List.Perm.swap _ _ _
    · have hm' : a ∈ xs := by
        rcases List.mem_cons.mp hm with h | h
        · exact absurd h.symm hxa
        · exact h
      simp only [List.map_cons, hxa, if_false]
      exact (List.Perm.swap _ _ _).trans ((List.Perm.cons _ (ih hm' hxs)).trans (List.Perm.swap _ _ _))

/-- the index invariants of the store after a deletion: the removed leaf's node `n` is replaced by the referrer `rr`
among the inner nodes, and the referrer becomes the root when `n` was the root -/
theorem del_invariants {T T1 : PT V} {dir : Nat → Bool} {r0 : Nat} (hs : SelfBelow T) (hndi : (inners T).Nodup)
    (hr0 : r0 ∉ inners T) (hperm : (leafIdx T).Perm (r0 :: inners T)) (hct : contract T dir = some T1) (rp0 : Nat) :
    let n := (descendD T dir).1
    let rr := (findEnd T rp0 r0 dir).2.1
    let T' := rename n rr T1
    let r' := if n = r0 then rr else r0
    (inners T').Nodup ∧ (leafIdx T').Nodup ∧ r' ∉ inners T' ∧ SelfBelow T' ∧ (leafIdx T').Perm (r' :: inners T') := by
  intro n rr T' r'
  have hndl : (leafIdx T).Nodup := hperm.nodup_iff.mpr (List.nodup_cons.mpr ⟨hr0, hndi⟩)
  have hPI : (rr :: inners T1).Perm (inners T) := inners_contract_perm hct rp0 r0
  have hPL : (n :: leafIdx T1).Perm (leafIdx T) := leafIdx_contract_perm hct
  have hndI1 := hPI.nodup_iff.mpr hndi
  have hndL1 := hPL.nodup_iff.mpr hndl
  obtain ⟨hrr1, hnd1⟩ := List.nodup_cons.mp hndI1
  obtain ⟨hn1, hndl1⟩ := List.nodup_cons.mp hndL1
  have hsb := (selfBelow_del hs hndl hndi hct rp0 r0).1
  have hrrT : rr ∈ inners T := hPI.subset (List.mem_cons_self ..)
  have hsub : ∀ x ∈ inners T1, x ∈ inners T := fun x hx => hPI.subset (List.mem_cons_of_mem _ hx)
  have hrr0 : rr ≠ r0 := fun e => hr0 (e ▸ hrrT)
  -- leaves of the contracted tree against root and inner nodes of the old one
  have hL : (n :: leafIdx T1).Perm (r0 :: rr :: inners T1) := hPL.trans (hperm.trans (List.Perm.cons _ hPI.symm))
  refine ⟨?_, by simpa [T'] using hndl1, ?_, hsb, ?_⟩
  · -- Nodup
    show (inners (rename n rr T1)).Nodup
    rw [inners_rename]
    by_cases hm : n ∈ inners T1
    · have := perm_map_rename (b := rr) hm hnd1
      have hnd2 : (rr :: inners T1).Nodup := hndI1
      exact (List.nodup_cons.mp (this.nodup_iff.mpr hnd2)).2
    · rw [map_rename_of_not_mem hm]; exact hnd1
  · show r' ∉ inners (rename n rr T1)
    rw [inners_rename]
    by_cases hm : n ∈ inners T1
    · have hn0 : n ≠ r0 := fun e => hr0 (e ▸ hsub n hm)
      simp only [r', hn0, if_false]
      intro hmem
      obtain ⟨x, hx, hxe⟩ := List.mem_map.mp hmem
      by_cases hxn : x = n
      · simp only [hxn, if_true] at hxe; exact hrr0 hxe
      · simp only [hxn, if_false] at hxe; exact hr0 (hxe ▸ hsub x hx)
    · rw [map_rename_of_not_mem hm]
      by_cases hn0 : n = r0
      · simp only [r', hn0, if_true]; exact hrr1
      · simp only [r', hn0, if_false]; exact fun e => hr0 (hsub _ e)
  · show (leafIdx (rename n rr T1)).Perm (r' :: inners (rename n rr T1))
    rw [leafIdx_rename, inners_rename]
    by_cases hm : n ∈ inners T1
    · have hn0 : n ≠ r0 := fun e => hr0 (e ▸ hsub n hm)
      simp only [r', hn0, if_false]
      have h1 := perm_map_rename (b := rr) hm hnd1
      -- n :: leaves ~ r0 :: rr :: inners T1 ~ r0 :: n :: map ~ n :: r0 :: map
      have h2 : (n :: leafIdx T1).Perm (n :: r0 :: (inners T1).map (fun i => if i = n then rr else i)) :=
        hL.trans ((List.Perm.cons _ h1.symm).trans (List.Perm.swap _ _ _))
      exact h2.cons_inv
    · rw [map_rename_of_not_mem hm]
      by_cases hn0 : n = r0
      · simp only [r', hn0, if_true]
        have : (r0 :: leafIdx T1).Perm (r0 :: rr :: inners T1) := by
          have h3 := hL
          rw [hn0] at h3
          exact h3
        exact this.cons_inv
      · simp only [r', hn0, if_false]
        -- n is a leaf of T, not the root, so an inner node of T; not in T1, so it is rr
        have hnT : n ∈ inners T := by
          have : n ∈ r0 :: inners T := hperm.subset (hPL.subset (List.mem_cons_self ..))
          rcases List.mem_cons.mp this with h | h
          · exact absurd h hn0
          · exact h
        have hnrr : n = rr := by
          rcases List.mem_cons.mp (hPI.symm.subset hnT) with h | h
          · exact h
          · exact absurd h hm
        have : (n :: leafIdx T1).Perm (n :: r0 :: inners T1) := by
          refine hL.trans ?_
          rw [← hnrr]
          exact List.Perm.swap _ _ _
        exact this.cons_inv

theorem topLeaf_of_perm {T : PT V} {r0 : Nat} (hperm : (leafIdx T).Perm (r0 :: inners T)) :
    ∀ i k v, T = leaf i k v → i = r0 := by
  intro i k v hT
  subst hT
  simp only [leafIdx, inners] at hperm
  have := hperm.mem_iff (a := i)
  simpa using this

end PT
end AlgoVerif.C06
