import AlgoVerif.Proofs.C19Top
import AlgoVerif.Model.C19X
/-!
# C19 — positions as a caller sees them

* `String_at_posAfter`: the position of the rune that follows any list of runes has a positive line and a positive
  column, so `Position.String` renders it as `line:column` (after `filename:` when there is a file name) — never as
  the bare offset.
* `invalid_position`: for a source whose well-formed runes `cs` are followed by an ill-formed tail, any call sequence
  within the precondition that has consumed all of `cs` without touching the tail, followed by `Next`: that `Next`
  returns the `*InputError` whose position is `Spec.posAfter cs` — offset, line and column of the first byte of the
  ill-formed sequence.
-/
namespace AlgoVerif.C19
open AlgoVerif

/-! ## line and column are positive -/

theorem Spec.advance_pos (cs : List Char) : ∀ (l c : Nat), 0 < l → 0 < c →
    0 < (Spec.advance (l, c) cs).1 ∧ 0 < (Spec.advance (l, c) cs).2 := by
  induction cs with
  | nil => intro l c hl hc; exact ⟨hl, hc⟩
  | cons ch cs ih =>
    intro l c hl hc
    simp only [Spec.advance]
    split
    · exact ih _ _ (Nat.succ_pos l) Nat.one_pos
    · exact ih _ _ hl (Nat.succ_pos c)

theorem Spec.posAfter_line (cs : List Char) : (Spec.posAfter cs).line = (Spec.advance (1, 1) cs).1 := rfl
theorem Spec.posAfter_column (cs : List Char) : (Spec.posAfter cs).column = ((Spec.advance (1, 1) cs).2 : Nat) := rfl
theorem Spec.posAfter_offset (cs : List Char) : (Spec.posAfter cs).offset = cs.length := rfl

/-- what `Position.String` prints in front of the numbers -/
def filePrefix (filename : String) : String := if filename = "" then "" else filename ++ ":"

theorem toString_natCast (n : Nat) : toString (n : Int) = toString n := rfl

/-- `Position.String` of the position that follows the runes `cs`, on an `Input` made with `filename` -/
theorem String_at_posAfter (filename : String) (cs : List Char) :
    ((Spec.posAfter cs).at filename).String =
      filePrefix filename ++ toString (Spec.advance (1, 1) cs).1 ++ ":" ++ toString (Spec.advance (1, 1) cs).2 := by
  obtain ⟨hl, hc⟩ := Spec.advance_pos cs 1 1 Nat.one_pos Nat.one_pos
  have hl' : ((Spec.posAfter cs).line : Int) > 0 := by
    rw [Spec.posAfter_line]; exact Int.natCast_pos.mpr hl
  have hc' : (Spec.posAfter cs).column > 0 := by
    rw [Spec.posAfter_column]; exact Int.natCast_pos.mpr hc
  have hif : (0 < filename.utf8ByteSize) = ¬ (filename = "") := by
    rw [← String.utf8ByteSize_eq_zero_iff]; exact propext Nat.pos_iff_ne_zero
  simp only [Position.String, Pos.at, gt_iff_lt, hif]
  rw [if_pos ⟨hl', hc'⟩, Spec.posAfter_line, Spec.posAfter_column, toString_natCast, toString_natCast]
  unfold filePrefix
  by_cases h : filename = "" <;> simp [h]

/-! ## the position inside the `*InputError` -/

theorem Spec.final_tail (s : Spec.State) (ops : List Op) : (Spec.final s ops).tail = s.tail := by
  induction ops generalizing s with
  | nil => rfl
  | cons op ops ih => simp only [Spec.final]; rw [ih, Spec.step_tail]

theorem upToInvalid_append_singleton (l : List Out) (o : Out) (h : ∀ x ∈ l, x.isInvalid = false) :
    upToInvalid (l ++ [o]) = l ++ [o] := by
  induction l with
  | nil => simp only [List.nil_append, upToInvalid]; split <;> rfl
  | cons x l ih =>
    have hx : x.isInvalid = false := h x (by simp)
    simp only [List.cons_append, upToInvalid, hx, Bool.false_eq_true, if_false]
    rw [ih (fun y hy => h y (by simp [hy]))]

theorem Spec.run_length (s : Spec.State) (ops : List Op) : (Spec.run s ops).length = ops.length := by
  induction ops generalizing s with
  | nil => rfl
  | cons op ops ih => simp only [Spec.run, List.length_cons, ih]

theorem Input.run_length_le (ops : List Op) : ∀ i : Input, (i.run ops).length ≤ ops.length := by
  induction ops with
  | nil => intro i; simp [Input.run]
  | cons op ops ih =>
    intro i
    simp only [Input.run]
    split
    · simp only [List.length_cons]; exact Nat.succ_le_succ (ih _)
    · simp
    · simp

theorem runNew_ran_length {src : Reader} {n : Nat} {ops : List Op} {outs : List (Outcome Out)}
    (h : runNew src n ops = .ran outs) : outs.length ≤ ops.length := by
  unfold runNew at h
  split at h
  · injection h with h; rw [← h]; exact Input.run_length_le ops _
  · cases h
  · cases h

/-- A source made of the well-formed runes `cs` followed by an ill-formed `tail`; a call sequence `ops` within the
precondition during which the ill-formed sequence was not reached (`hclean`) and after which every rune of `cs` has
been read (`hall`).  Then the next `Next` returns the `*InputError` with the position that follows `cs` — and the
trace before it is the Spec's. -/
theorem invalid_position (cs : List Char) (tail : List UInt8) (k : Nat) (hbad : decodeRune tail = .invalid k)
    (hnul : NulFree (Spec.encode cs ++ tail)) (n : Nat) (hn : 0 < n)
    (script : List Answer) (tailEof : Bool) (hio : ∀ a ∈ script, a.flag ≠ .ioerr)
    (ops : List Op) (hkeep : Spec.Keeps n (Spec.initT cs tail) (ops ++ [.next]))
    (hclean : ∀ o ∈ Spec.run (Spec.initT cs tail) ops, o.isInvalid = false)
    (hall : (Spec.final (Spec.initT cs tail) ops).rest = []) :
    runNew ⟨Spec.encode cs ++ tail, script, tailEof⟩ n (ops ++ [.next]) =
      .ran ((Spec.run (Spec.initT cs tail) ops).map .ok ++ [.ok (.invalid (Spec.posAfter cs))]) := by
  obtain ⟨outs, hrun, htake⟩ := runNew_refines_upTo cs tail k hbad hnul n hn script tailEof hio _ hkeep
  have htail : tail ≠ [] := by
    intro h; rw [h] at hbad; simp [decodeRune] at hbad
  have hpart := Spec.final_partition (Spec.initT cs tail) ops
  simp only [Spec.initT, List.nil_append] at hpart
  have hfp : (Spec.final (Spec.initT cs tail) ops).flushed ++ (Spec.final (Spec.initT cs tail) ops).pending = cs := by
    have := hpart
    simp only [Spec.initT] at hall
    rw [hall, List.append_nil] at this
    exact this
  have hlast : Spec.run (Spec.final (Spec.initT cs tail) ops) [.next] = [.invalid (Spec.posAfter cs)] := by
    have ht : (Spec.final (Spec.initT cs tail) ops).tail = tail := by rw [Spec.final_tail]; rfl
    simp only [Spec.run, Spec.step, hall, ht, if_neg htail, hfp]
  rw [Spec.run_append, hlast, upToInvalid_append_singleton _ _ hclean] at htake
  have hlen := runNew_ran_length hrun
  have hspec := Spec.run_length (Spec.initT cs tail) ops
  rw [List.take_of_length_le (by simp only [List.length_append, List.length_cons, List.length_nil] at hlen ⊢; omega)] at htake
  rw [hrun, htake]
  simp

end AlgoVerif.C19
