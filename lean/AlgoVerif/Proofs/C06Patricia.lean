import AlgoVerif.Proofs.C06Bits
/-!
# C06 — Patricia trie: `search` always returns

`Closed t`: every link of the store points into the store, only the root has a nil right link, and
the root's bit position is 0.  `search` then terminates within the fuel the Model gives it and never
dereferences nil: the loop only continues over a link whose target has a strictly larger bit
position, so the number of stored nodes with a larger bit position strictly decreases.
-/
namespace AlgoVerif.C06
variable {V : Type}
open BitString (xbit Small)

namespace Patricia

structure Closed (t : Patricia V) : Prop where
  root : ∀ r, t.root = some r → ∃ n : PNode V, t.nodes[r]? = some n ∧ n.bp = 0
  left : ∀ (i : Nat) (n : PNode V), t.nodes[i]? = some n → ∃ j, n.left = some j ∧ j < t.nodes.size
  right : ∀ (i : Nat) (n : PNode V), t.nodes[i]? = some n → (∀ j, n.right = some j → j < t.nodes.size) ∧ (n.right = none → t.root = some i)

/-- number of stored nodes whose bit position exceeds `b` -/
def above (t : Patricia V) (b : Nat) : Nat := t.nodes.toList.countP (fun n => decide (n.bp > b))

theorem countP_lt_of_witness {α : Type} (p q : α → Bool) (l : List α) (himp : ∀ x, q x = true → p x = true)
    (x : α) (hx : x ∈ l) (hp : p x = true) (hq : q x = false) : l.countP q < l.countP p := by
  induction l with
  | nil => simp at hx
  | cons y ys ih =>
    have hle : ys.countP q ≤ ys.countP p := List.countP_mono_left (fun a _ => himp a)
    rcases List.mem_cons.mp hx with rfl | hx
    · simp only [List.countP_cons, hp, hq, if_true]
      simp; omega
    · have := ih hx
      simp only [List.countP_cons]
      by_cases hqy : q y = true
      · simp [hqy, himp y hqy]; omega
      · simp [hqy]; split <;> omega

theorem above_le_size (t : Patricia V) (b : Nat) : above t b ≤ t.nodes.size := by
  unfold above
  calc _ ≤ t.nodes.toList.length := List.countP_le_length
    _ = t.nodes.size := by simp

theorem above_lt {t : Patricia V} {i : Nat} {n : PNode V} (hn : t.nodes[i]? = some n) {b : Nat} (hb : n.bp > b) :
    above t n.bp < above t b := by
  unfold above
  apply countP_lt_of_witness _ _ _ _ n
  · rw [← Array.getElem?_toList] at hn
    exact List.mem_of_getElem? hn
  · simpa using hb
  · simp
  · intro x hx; simp at hx ⊢; omega

theorem node_some {t : Patricia V} {i : Nat} {n : PNode V} (h : t.nodes[i]? = some n) : t.node (some i) = .ok n := by
  simp [node, h]

theorem searchLoop_total {t : Patricia V} (hc : Closed t) (key : BitString) (f prevBp j : Nat)
    (hj : j < t.nodes.size) (hf : above t prevBp < f) :
    ∃ r, r < t.nodes.size ∧ searchLoop t key f prevBp (some j) = .ok (some r) := by
  induction f generalizing prevBp j with
  | zero => omega
  | succ f ih =>
    have hn : t.nodes[j]? = some t.nodes[j] := Array.getElem?_eq_getElem hj
    simp only [searchLoop, node, hn, bind, Outcome.bind]
    by_cases hgt : t.nodes[j].bp > prevBp
    · simp only [hgt, if_true]
      rw [BitString.bit_ok_of_pos _ (by omega)]
      simp only
      have hlt := above_lt hn hgt
      obtain ⟨l, hl, hl2⟩ := hc.left j _ hn
      obtain ⟨hr1, hr2⟩ := hc.right j _ hn
      cases hb : xbit key (t.nodes[j].bp - 1)
      · simp only [Bool.false_eq_true, if_false, hl]
        exact ih _ l hl2 (by omega)
      · simp only [if_true]
        cases hr : t.nodes[j].right with
        | none =>
          obtain ⟨n', h1, h2⟩ := hc.root j (hr2 hr)
          rw [hn] at h1
          have : t.nodes[j].bp = 0 := by rw [Option.some.inj h1]; exact h2
          omega
        | some r => exact ih _ r (hr1 r hr) (by omega)
    · simp only [hgt, if_false]
      exact ⟨j, hj, rfl⟩

/-- `search` never panics and never runs out of fuel on a closed store -/
theorem search_total {t : Patricia V} (hc : Closed t) (key : BitString) :
    (t.root = none ∧ t.search key = .ok none) ∨ ∃ r, r < t.nodes.size ∧ t.search key = .ok (some r) := by
  unfold search
  cases hr : t.root with
  | none => exact .inl ⟨rfl, rfl⟩
  | some r =>
    right
    obtain ⟨n, hn, hbp⟩ := hc.root r hr
    obtain ⟨l, hl, hl2⟩ := hc.left r n hn
    simp only [node, hn, bind, Outcome.bind, hl]
    exact searchLoop_total hc key _ _ l hl2 (by have := above_le_size t n.bp; unfold fuel; omega)

theorem Closed.new : Closed (Patricia.new : Patricia V) :=
  ⟨by simp [Patricia.new], by simp [Patricia.new], by simp [Patricia.new]⟩

end Patricia
end AlgoVerif.C06
