import AlgoVerif.Proofs.C09LeftRecInv
/-! The invariant of `EliminateLeftRecursion` across `lrImmediate` and `lrLoop` (C09). -/
set_option linter.unusedSectionVars false
namespace AlgoVerif.C08
open AlgoVerif AlgoVerif.Gram AlgoVerif.C08.Spec AlgoVerif.C09.Spec

theorem lrImmediate_cases {g g' : G} {A : String} (h : lrImmediate g A = .ok g') :
    (g' = g ∧ ∀ p, p ∈ g.prods → p.head = A → isLeftRec p = false) ∨
    ∃ A', A' ∉ g.nonterms ∧ g'.nonterms = g.nonterms ++ [A'] ∧ (∀ q, q ∈ g'.prods ↔ ImmProds g A A' q) ∧
      ∃ p, p ∈ g.prods ∧ p.head = A ∧ isLeftRec p = true := by
  by_cases hany : (prodsOf g.prods A).any isLeftRec = true
  · right
    have hex : ∃ p, p ∈ g.prods ∧ p.head = A ∧ isLeftRec p = true := by
      obtain ⟨p, hp, hl⟩ := List.any_eq_true.1 hany
      have := List.mem_filter.1 hp
      exact ⟨p, this.1, by simpa using this.2, hl⟩
    rcases lrImmediate_spec h with heq | ⟨A', hf, _, hn, _, hp, _⟩
    · -- impossible: the result declares one more non-terminal
      exfalso
      unfold lrImmediate at h
      simp only [hany, if_true] at h
      cases hn : addNew g A primes with
      | ok r =>
        obtain ⟨g1, A'⟩ := r
        simp only [hn, bind, Outcome.bind, pure] at h
        obtain ⟨_, rfl⟩ := addNew_ok hn
        injection h with h
        have := congrArg (fun x : G => x.nonterms.length) (h.trans heq)
        simp at this
      | panic => simp [hn, bind, Outcome.bind] at h
      | diverge => simp [hn, bind, Outcome.bind] at h
    · exact ⟨A', hf, hn, hp, hex⟩
  · left
    have hnone : ∀ p, p ∈ g.prods → p.head = A → isLeftRec p = false := by
      intro p hp hpA
      cases hl : isLeftRec p with
      | false => rfl
      | true =>
        exfalso
        apply hany
        apply List.any_eq_true.2
        exact ⟨p, List.mem_filter.2 ⟨hp, by simpa using hpA⟩, hl⟩
    refine ⟨?_, hnone⟩
    unfold lrImmediate at h
    simp only [hany, Bool.false_eq_true, if_false, pure] at h
    cases h; rfl

theorem not_leftRec_first {p : SProd} (h : isLeftRec p = false) {Y : String} {rest : List SSym}
    (hb : p.body = Sym.nonterm Y :: rest) : Y ≠ p.head := by
  intro e
  have : isLeftRec p = true := isLeftRec_iff.2 ⟨rest, by rw [hb, e]⟩
  rw [h] at this; cases this

/-- positions after `done ++ [A]` has been formed -/
theorem pos_snoc_new {done : List String} {A Y : String} (hA : A ∉ done) (hY : Y ∉ done) (hYA : Y ≠ A) :
    pos (done ++ [A]) A < pos (done ++ [A]) Y := by
  rw [pos_append_right hA, pos_append_right hY]
  simp [pos, hYA]

theorem lrImmediate_inv {nts done : List String} {g g' : G} {A : String}
    (hdone : ∀ X, X ∈ done → X ∈ nts) (hA : A ∈ nts) (hAd : A ∉ done)
    (hinv : LRInv9 nts done g) (hm : Mid done A g) (h : lrImmediate g A = .ok g') :
    LRInv9 nts (done ++ [A]) g' := by
  -- the `j1` clause for an `A`-production whose body comes from a non-left-recursive `A`-production of `g`
  have jA : ∀ Y, (Dead g Y ∨ Y ∉ done) → Y ≠ A → Dead g Y ∨ pos (done ++ [A]) A < pos (done ++ [A]) Y := by
    intro Y hY hne
    rcases hY with hd | hY
    · exact Or.inl hd
    · exact Or.inr (pos_snoc_new hAd hY hne)
  have jold : ∀ X Y, X ∈ done → pos done X < pos done Y → pos (done ++ [A]) X < pos (done ++ [A]) Y := by
    intro X Y hX hlt
    rw [pos_append_left hX]
    exact Nat.lt_of_lt_of_le hlt (pos_append_mono done [A] Y)
  rcases lrImmediate_cases h with ⟨rfl, hnone⟩ | ⟨A', hfresh, hn, hp, p0, hp0, hp0A, hp0l⟩
  · refine ⟨hinv.wf, hinv.decl, hinv.k1, hinv.k2, hinv.k3, ?_⟩
    intro p hp hpd Y rest hb
    rcases List.mem_append.1 hpd with hpd | hpd
    · rcases hinv.j1 p hp hpd Y rest hb with hd | hlt
      · exact Or.inl hd
      · exact Or.inr (jold _ _ hpd hlt)
    · simp at hpd
      have hne := not_leftRec_first (hnone p hp hpd) hb
      rw [hpd] at hne ⊢
      exact jA Y (hm p hp hpd Y rest hb) hne
  · have hA'n : A' ∉ nts := fun hmem => hfresh (hinv.decl A' hmem)
    have hfreshp := fun p hp => WellFormed.fresh_not_in hinv.wf hfresh p hp
    -- `A` occurs in a body, so its productions are non-empty
    obtain ⟨tl0, htl0⟩ := isLeftRec_iff.1 hp0l
    have hAbody : Sym.nonterm A ∈ p0.body := by rw [htl0, hp0A]; simp
    have nonemptyA : ∀ p, p ∈ g.prods → p.head = A → ∃ s b, p.body = s :: b := by
      intro p hp hpA
      have := hinv.nonempty_of_inBody hp hp0 (by rw [hpA]; exact hAbody) (hpA ▸ hA)
      cases hb : p.body with
      | nil => exact absurd hb this
      | cons s b => exact ⟨s, b, rfl⟩
    -- dead members of `nts` stay dead
    have dead : ∀ Y, Y ∈ nts → Dead g Y → Dead g' Y := by
      intro Y hY hd q hq
      rcases (hp q).1 hq with ⟨hq1, _⟩ | ⟨p, hp1, hp2, _, rfl⟩ | ⟨p, _, _, _, rfl⟩ | rfl
      · exact hd q hq1
      · intro e; exact hd p hp1 (hp2.trans e)
      · intro e; simp at e; exact hA'n (by rw [e]; exact hY)
      · intro e; simp at e; exact hA'n (by rw [e]; exact hY)
    -- symbols of new bodies come from old bodies, or are `A′`
    have symsub : ∀ q, q ∈ g'.prods → ∀ s, s ∈ q.body → s = Sym.nonterm A' ∨ ∃ q0, q0 ∈ g.prods ∧ s ∈ q0.body := by
      intro q hq s hs
      rcases (hp q).1 hq with ⟨hq1, _⟩ | ⟨p, hp1, _, _, rfl⟩ | ⟨p, hp1, _, _, rfl⟩ | rfl
      · exact Or.inr ⟨q, hq1, hs⟩
      · simp only [List.mem_append, List.mem_singleton] at hs
        rcases hs with hs | hs
        · exact Or.inr ⟨p, hp1, hs⟩
        · exact Or.inl hs
      · simp only [List.mem_append, List.mem_singleton] at hs
        rcases hs with hs | hs
        · exact Or.inr ⟨p, hp1, List.mem_of_mem_tail hs⟩
        · exact Or.inl hs
      · cases hs
    refine ⟨lrImmediate_wf h hinv.wf, ?_, ?_, ?_, ?_, ?_⟩
    · intro X hX; rw [hn]; simp [hinv.decl X hX]
    · -- k1
      intro q hq Y rest hb
      rcases (hp q).1 hq with ⟨hq1, _⟩ | ⟨p, hp1, hp2, _, rfl⟩ | ⟨p, hp1, hp2, hp3, rfl⟩ | rfl
      · exact hinv.k1 q hq1 Y rest hb
      · obtain ⟨s, b, hpb⟩ := nonemptyA p hp1 hp2
        simp only [hpb, List.cons_append, List.cons.injEq] at hb
        exact hinv.k1 p hp1 Y b (by rw [hpb, hb.1])
      · obtain ⟨tl, htl⟩ := isLeftRec_iff.1 hp3
        obtain ⟨s, rest', hs1, hs2⟩ := hinv.k2 p hp1 (hp2 ▸ hA) p.head tl htl
        have : p.body.tail = s :: rest' := by rw [htl]; exact hs1
        simp only [this, List.cons_append, List.cons.injEq] at hb
        exact hs2 Y hb.1
      · simp at hb
    · -- k2
      intro q hq hqh Y rest hb
      rcases (hp q).1 hq with ⟨hq1, _⟩ | ⟨p, hp1, hp2, _, rfl⟩ | ⟨p, _, _, _, rfl⟩ | rfl
      · exact hinv.k2 q hq1 hqh Y rest hb
      · obtain ⟨s, b, hpb⟩ := nonemptyA p hp1 hp2
        simp only [hpb, List.cons_append, List.cons.injEq] at hb
        obtain ⟨hs, hrest⟩ := hb
        obtain ⟨s2, rest2, hb2, hs2⟩ := hinv.k2 p hp1 (hp2 ▸ hA) Y b (by rw [hpb, hs])
        exact ⟨s2, rest2 ++ [Sym.nonterm A'], by rw [← hrest, hb2]; simp, hs2⟩
      · exact absurd hqh hA'n
      · exact absurd hqh hA'n
    · -- k3
      intro q hq hb
      rcases (hp q).1 hq with ⟨hq1, _⟩ | ⟨p, hp1, hp2, _, rfl⟩ | ⟨p, _, _, _, rfl⟩ | rfl
      · rcases hinv.k3 q hq1 hb with h1 | h1
        · exact Or.inl h1
        · right
          intro q' hq' hin
          rcases symsub q' hq' _ hin with e | ⟨q0, hq0, hin0⟩
          · simp at e
            exact (hfreshp q hq1).1 e
          · exact h1 q0 hq0 hin0
      · simp at hb
      · simp at hb
      · exact Or.inl hA'n
    · -- j1
      intro q hq hqd Y rest hb
      rcases (hp q).1 hq with ⟨hq1, hqA⟩ | ⟨p, hp1, hp2, hp3, rfl⟩ | ⟨p, _, _, _, rfl⟩ | rfl
      · have hYn : Y ∈ nts := hinv.k1 q hq1 Y rest hb
        rcases List.mem_append.1 hqd with hqd | hqd
        · rcases hinv.j1 q hq1 hqd Y rest hb with hd | hlt
          · exact Or.inl (dead Y hYn hd)
          · exact Or.inr (jold _ _ hqd hlt)
        · simp at hqd; exact absurd hqd hqA
      · obtain ⟨s, b, hpb⟩ := nonemptyA p hp1 hp2
        simp only [hpb, List.cons_append, List.cons.injEq] at hb
        have hb' : p.body = Sym.nonterm Y :: b := by rw [hpb, hb.1]
        have hYn : Y ∈ nts := hinv.k1 p hp1 Y b hb'
        have hne : Y ≠ A := hp2 ▸ not_leftRec_first hp3 hb'
        rcases jA Y (hm p hp1 hp2 Y b hb') hne with hd | hlt
        · exact Or.inl (dead Y hYn hd)
        · exact Or.inr hlt
      · exfalso
        rcases List.mem_append.1 hqd with hqd | hqd
        · exact hA'n (hdone _ hqd)
        · simp at hqd; exact hA'n (hqd ▸ hA)
      · simp at hb

theorem lrLoop_inv9 {nts : List String} (hnd : nts.Nodup) :
    ∀ (rest done : List String) (g g' : G), nts = done ++ rest → LRInv9 nts done g →
      lrLoop done rest g = .ok g' → LRInv9 nts nts g' := by
  intro rest
  induction rest with
  | nil =>
    intro done g g' hnts hinv h
    simp [lrLoop, pure] at h
    subst h
    simp at hnts; subst hnts; exact hinv
  | cons Ai rest ih =>
    intro done g g' hnts hinv h
    simp only [lrLoop] at h
    have hnd' : (done ++ Ai :: rest).Nodup := hnts ▸ hnd
    have hdn : done.Nodup := (List.nodup_append.1 hnd').1
    have hAid : Ai ∉ done := by
      intro hmem
      exact (List.nodup_append.1 hnd').2.2 Ai hmem Ai (by simp) rfl
    have hAin : Ai ∈ nts := by rw [hnts]; simp
    have hdone : ∀ X, X ∈ done → X ∈ nts := by intro X hX; rw [hnts]; simp [hX]
    obtain ⟨h1, h2⟩ := lrSubst_fold_inv9 (nts := nts) hdn hAid done [] g (by simp) hinv
      (by intro p _ _ Y rest' _; exact Or.inr (by simp))
    generalize done.foldl (fun g Aj => lrSubst g Ai Aj) g = g1 at h h1 h2
    cases hi : lrImmediate g1 Ai with
    | ok g2 =>
      simp only [hi, bind, Outcome.bind] at h
      have h3 := lrImmediate_inv hdone hAin hAid h1 h2 hi
      exact ih (done ++ [Ai]) g2 g' (by rw [hnts]; simp) h3 h
    | panic => simp [hi, bind, Outcome.bind] at h
    | diverge => simp [hi, bind, Outcome.bind] at h

/-- the certificate of the final grammar -/
theorem cert_of_inv {nts : List String} {g : G} (h : LRInv9 nts nts g) :
    LRCert g (fun X => if X ∈ nts then pos nts X + 1 else 0) := by
  constructor
  intro p hp Y rest hb
  have hY : Y ∈ nts := h.k1 p hp Y rest hb
  have hne : NonEmptyProds g Y := by
    intro q hq hqY hqb
    rcases h.k3 q hq hqb with h1 | h1
    · exact h1 (hqY ▸ hY)
    · exact h1 p hp (by rw [hqY, hb]; simp)
  by_cases hh : p.head ∈ nts
  · rcases h.j1 p hp hh Y rest hb with hd | hlt
    · exact Or.inl hd
    · right
      simp only [hh, hY, if_true]
      exact ⟨by omega, hne⟩
  · right
    simp only [hh, hY, if_true, if_false]
    exact ⟨by omega, hne⟩

end AlgoVerif.C08
