import AlgoVerif.Proofs.C14Iter
/-!
# C14 proofs — `Paths(s, strategy)` for the three strategies, and `To`
-/
namespace AlgoVerif.C14

/-- what a finished `Paths` value satisfies -/
structure PathsOK (g : Graph) (s : Nat) (p : Paths) : Prop where
  src : p.s = (s : Int)
  size : p.visited.size = g.n
  pinv : PInv g s p.visited p.edgeTo
  vis_iff : ∀ v, Vis p.visited v ↔ Reach g.HasArc s v

theorem pinv_init (g : Graph) (s : Nat) :
    PInv g s (Array.replicate g.n false) (Array.replicate g.n 0) :=
  ⟨by simp, fun x hx => absurd hx vis_replicate_false⟩

theorem replicate_false_get {n s : Nat} (hs : s < n) : (Array.replicate n false)[s]? = some false := by
  rw [Array.getElem?_replicate]; simp [hs]

/-- a visited set that contains `s`, is closed under arcs and only contains chain ends is `Reach s` -/
theorem vis_iff_of_closed {g : Graph} {s : Nat} {a : Array Bool} {et : Array Nat}
    (hinv : PInv g s a et) (hs : Vis a s) (hcl : ∀ x, Vis a x → ∀ y, g.HasArc x y → Vis a y) (v : Nat) :
    Vis a v ↔ Reach g.HasArc s v := by
  constructor
  · intro hv
    obtain ⟨k, hc, _⟩ := hinv.2 v hv
    exact hc.reach
  · intro hr
    exact Reach.closed (S := Vis a) (fun x y hx e => hcl x hx y e) hr hs

theorem dfs_paths_top {g : Graph} (hg : g.WF) (s : Nat) (hs : s < g.n) :
    ∃ st, dfs g pathsVisitors (g.n + 1) s ⟨Array.replicate g.n false, Array.replicate g.n 0⟩ = .ok st ∧
      PathsOK g s ⟨(s : Int), st.visited, st.s⟩ := by
  obtain ⟨st, h1, h2, h3⟩ := dfs_paths hg s (g.n + 1) s ⟨Array.replicate g.n false, Array.replicate g.n 0⟩
    ⟨pinv_init g s, Or.inl rfl⟩ (by simp) (replicate_false_get hs)
    (by have := cntF_le_size (Array.replicate g.n false); simp at this; simp; omega)
  refine ⟨st, h1, rfl, h3.size, h2, ?_⟩
  apply vis_iff_of_closed h2 h3.self
  intro x hx y hy
  exact h3.closed x hx vis_replicate_false y hy

theorem iter_paths_top {g : Graph} (hg : g.WF) (push : Nat → List Nat → List Nat) (hp : PushOK push)
    (s : Nat) (hs : s < g.n) :
    ∃ st, iter push g pathsVisitors s ⟨Array.replicate g.n false, Array.replicate g.n 0⟩ = .ok st ∧
      PathsOK g s ⟨(s : Int), st.visited, st.s⟩ := by
  let a0 := Array.replicate g.n false
  let et0 := Array.replicate g.n 0
  have hunv : a0[s]? = some false := replicate_false_get hs
  have hslt : s < a0.size := by simp [a0, hs]
  have hinv0 : IterInv g s (a0.set! s true) et0 (push s []) :=
    { size := by rw [size_set!]; simp [a0]
      pinv := (pinv_init g s).enter (by simp) hunv (Or.inl rfl)
      front := by
        intro x hx
        rcases (hp.mem _ _ _).1 hx with rfl | h
        · exact vis_set_self hslt
        · simp at h
      closed := by
        intro x hx hnf
        rcases vis_set.1 hx with ⟨rfl, _⟩ | h
        · exact absurd ((hp.mem _ _ _).2 (Or.inl rfl)) hnf
        · exact absurd h vis_replicate_false }
  have hfuel : (push s []).length + cntF (a0.set! s true) ≤ g.n + 1 := by
    have h1 := cntF_set hunv
    have h2 : cntF a0 ≤ g.n := by
      have := cntF_le_size a0
      simpa [a0] using this
    have h3 := hp.len s []
    simp at h3
    omega
  obtain ⟨st, h1, h2, _, h4⟩ :=
    iterLoop_paths push hp g hg s (fun _ _ _ => True) (fun _ _ _ _ => True)
      (fun _ _ _ _ _ _ => trivial) (fun _ _ _ _ _ _ _ _ _ => trivial) (fun _ _ _ _ _ _ _ => trivial)
      (g.n + 1) ⟨a0.set! s true, et0⟩ (push s []) hinv0 trivial hfuel
  refine ⟨st, ?_, rfl, h2.size, h2.pinv, ?_⟩
  · unfold iter
    have : s < (Array.replicate g.n false).size := by simp [hs]
    simp only [this, if_true]
    exact h1
  · apply vis_iff_of_closed h2.pinv (h4 s (vis_set_self hslt))
    intro x hx y hy
    exact h2.closed x hx (by simp) y hy

theorem isVertexValid_nat {g : Graph} {s : Nat} : g.isVertexValid (s : Int) = decide (s < g.n) := by
  simp [Graph.isVertexValid]

/-- `Paths(s, strategy)` for a valid source -/
theorem paths_ok {g : Graph} (hg : g.WF) (s : Nat) (hs : s < g.n) (strat : Strategy) :
    ∃ p, g.paths (s : Int) strat = .ok p ∧ PathsOK g s p := by
  have hvalid : g.isVertexValid (s : Int) = true := by rw [isVertexValid_nat]; simp [hs]
  have key : ∃ st, traverse g strat pathsVisitors s ⟨Array.replicate g.n false, Array.replicate g.n 0⟩ = .ok st ∧
      PathsOK g s ⟨(s : Int), st.visited, st.s⟩ := by
    cases strat with
    | dfs => exact dfs_paths_top hg s hs
    | dfsi => exact iter_paths_top hg pushStack pushStack_ok s hs
    | bfs => exact iter_paths_top hg pushQueue pushQueue_ok s hs
  obtain ⟨st, h1, h2⟩ := key
  refine ⟨⟨(s : Int), st.visited, st.s⟩, ?_, h2⟩
  simp only [Graph.paths, hvalid, if_true, Int.toNat_natCast, h1]

/-- `Paths(s, strategy)` for an invalid source: nothing is visited -/
theorem paths_invalid {g : Graph} (s : Int) (hs : g.isVertexValid s = false) (strat : Strategy) :
    g.paths s strat = .ok ⟨s, Array.replicate g.n false, Array.replicate g.n 0⟩ := by
  simp [Graph.paths, hs]

end AlgoVerif.C14

namespace AlgoVerif.C14

theorem isVertexValid_iff {g : Graph} {s : Int} :
    g.isVertexValid s = true ↔ 0 ≤ s ∧ s < (g.n : Int) := by
  simp [Graph.isVertexValid]

/-- `To(v)` on the `Paths` of an invalid source -/
theorem to_blank {g : Graph} (s v : Int) :
    (⟨s, Array.replicate g.n false, Array.replicate g.n 0⟩ : Paths).to v =
      if 0 ≤ v ∧ v < (g.n : Int) then .ok none else .panic := by
  unfold Paths.to
  by_cases h0 : 0 ≤ v
  · simp only [h0, if_true, true_and]
    by_cases h1 : v < (g.n : Int)
    · have : v.toNat < g.n := by omega
      simp [Array.getElem?_replicate, this, h1]
    · have : ¬ v.toNat < g.n := by omega
      simp [Array.getElem?_replicate, this, h1]
  · simp [h0]

/-- `To(v)` panics (index out of range) exactly outside `[0, n)` -/
theorem to_out_of_range {g : Graph} (p : Paths) (hsize : p.visited.size = g.n) (v : Int)
    (hv : ¬ (0 ≤ v ∧ v < (g.n : Int))) : p.to v = .panic := by
  unfold Paths.to
  by_cases h0 : 0 ≤ v
  · have : ¬ v.toNat < p.visited.size := by rw [hsize]; omega
    simp [h0, Array.getElem?_eq_none (Nat.le_of_not_lt this)]
  · simp [h0]

/-- every `Paths` value the Model returns, and every answer of `To` on it -/
theorem paths_to_cases {g : Graph} (hg : g.WF) (s : Int) (strat : Strategy) :
    ∃ p, g.paths s strat = .ok p ∧ p.visited.size = g.n ∧
      ∀ v : Int,
        (¬ (0 ≤ v ∧ v < (g.n : Int)) → p.to v = .panic) ∧
        (0 ≤ v ∧ v < (g.n : Int) →
          (0 ≤ s ∧ s < (g.n : Int) ∧ Reach g.HasArc s.toNat v.toNat ∧
              ∃ path, p.to v = .ok (some path) ∧ WalkFromTo g.HasArc s.toNat v.toNat path) ∨
          (¬ (0 ≤ s ∧ s < (g.n : Int) ∧ Reach g.HasArc s.toNat v.toNat) ∧ p.to v = .ok none)) := by
  by_cases hs : g.isVertexValid s = true
  · have hs' := isVertexValid_iff.1 hs
    obtain ⟨s', rfl⟩ : ∃ s' : Nat, s = (s' : Int) := ⟨s.toNat, by omega⟩
    have hsn : s' < g.n := by omega
    obtain ⟨p, h1, h2⟩ := paths_ok hg s' hsn strat
    refine ⟨p, h1, h2.size, fun v => ⟨to_out_of_range p h2.size v, ?_⟩⟩
    intro hv
    obtain ⟨v', rfl⟩ : ∃ v' : Nat, v = (v' : Int) := ⟨v.toNat, by omega⟩
    have hvn : v' < g.n := by omega
    have hto := to_spec p h2.src h2.size h2.pinv v' hvn
    by_cases hvis : Vis p.visited v'
    · obtain ⟨path, k1, k2⟩ := hto.1 hvis
      exact Or.inl ⟨hs'.1, hs'.2, by simpa using (h2.vis_iff v').1 hvis, path, k1, by simpa using k2⟩
    · refine Or.inr ⟨?_, hto.2 hvis⟩
      intro ⟨_, _, hr⟩
      exact hvis ((h2.vis_iff v').2 (by simpa using hr))
  · have hs0 : g.isVertexValid s = false := by simpa using hs
    have hs' : ¬ (0 ≤ s ∧ s < (g.n : Int)) := fun h => hs (isVertexValid_iff.2 h)
    refine ⟨_, paths_invalid s hs0 strat, by simp, fun v => ?_⟩
    rw [to_blank]
    constructor
    · intro hv; simp [hv]
    · intro hv
      refine Or.inr ⟨fun h => hs' ⟨h.1, h.2.1⟩, by simp [hv]⟩

end AlgoVerif.C14
