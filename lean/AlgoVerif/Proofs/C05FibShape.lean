import AlgoVerif.Proofs.C05Fibonacci
import AlgoVerif.Proofs.C05FibNum
/-!
# C05 helper: shape invariant of the indexed Fibonacci heap Model (degree bound under toggled marks)

`WFc` for a child list read from `parent.child` (newest child first): every node's `degree` field is the length
of its child list and, for a child `c` followed by `r` older siblings, `r ≤ c.degree + 1`, and even
`r ≤ c.degree` while `c.mark = false`.  The code toggles `mark` on every lost child and cuts the node when the
mark becomes false again, and never clears a mark on link or cut: a child with `mark = false` has lost no child
since it was linked, a child with `mark = true` at most one — which is all the classical size argument needs.
-/
namespace AlgoVerif.C05

namespace FT

def len : FT → Nat
  | nil => 0
  | node _ _ _ _ nx => len nx + 1

def WFc : FT → Prop
  | nil => True
  | node _ d m c nx =>
    d = (len c : Int) ∧ WFc c ∧ WFc nx ∧ (len nx : Int) ≤ d + 1 ∧ (m = false → (len nx : Int) ≤ d)

theorem ids_length : ∀ t : FT, (ids t).length = size t
  | nil => rfl
  | node _ _ _ c nx => by
    simp only [ids, size, List.length_cons, List.length_append, ids_length c, ids_length nx]

/-- a well-formed child list of length `k` spans at least `fib (k+2) - 1` nodes -/
theorem WFc.size_bound : ∀ t : FT, WFc t → fib (len t + 2) ≤ size t + 1
  | nil, _ => by simp [len, size, fib]
  | node _ d m c nx, h => by
    obtain ⟨hd, hc, hn, hle, _⟩ := h
    have ihc := WFc.size_bound c hc
    have ihn := WFc.size_bound nx hn
    simp only [len, size]
    have e : fib (len nx + 3) = fib (len nx + 1) + fib (len nx + 2) := fib_add_two (len nx + 1)
    have hm : fib (len nx + 1) ≤ fib (len c + 2) := fib_mono (by omega)
    show fib (len nx + 3) ≤ size c + size nx + 1 + 1
    omega

theorem toList_length : ∀ t : FT, (toList t).length = len t
  | nil => rfl
  | node _ _ _ _ nx => by simp [toList, len, toList_length nx]

end FT

namespace FN

/-- a root: `degree` is the number of children, the child list is well formed -/
def OK (r : FN) : Prop := r.degree = (r.child.len : Int) ∧ r.child.WFc

theorem OK.size_bound {r : FN} (h : r.OK) : fib (r.child.len + 2) ≤ (FN.ids r).length := by
  have := FT.WFc.size_bound r.child h.2
  simp only [FN.ids, List.length_cons, FT.ids_length]
  omega

end FN

namespace FT

theorem WFc.toList_ok : ∀ t : FT, WFc t → ∀ f, f ∈ toList t → f.OK
  | nil, _, f, hf => by simp [toList] at hf
  | node id d m c nx, h, f, hf => by
    simp only [toList, List.mem_cons] at hf
    rcases hf with rfl | hf
    · exact ⟨h.1, h.2.1⟩
    · exact WFc.toList_ok nx h.2.2.1 f hf

theorem cutIn_wf (target : Nat) : ∀ (t t' : FT) (cuts : List FN) (b : Bool), WFc t →
    cutIn target t = some (t', cuts, b) →
    WFc t' ∧ (∀ f, f ∈ cuts → f.OK) ∧ len t' + (if b then 1 else 0) = len t
  | nil, _, _, _, _, h => by simp [cutIn] at h
  | node id d m c nx, t', cuts, b, hw, h => by
    obtain ⟨hd, hc, hn, hle, hm⟩ := hw
    simp only [cutIn] at h
    split at h
    · cases h
      refine ⟨hn, ?_, by simp [len]⟩
      intro f hf
      simp only [List.mem_singleton] at hf
      subst hf
      exact ⟨hd, hc⟩
    · split at h
      · rename_i c' cuts' removed hcut
        obtain ⟨hc', hok, hlen⟩ := cutIn_wf target c c' cuts' removed hc hcut
        split at h
        · rename_i hrem
          rw [hrem] at hlen
          simp only [if_true] at hlen
          split at h
          · rename_i hmf
            cases h
            have hmf' : m = false := by simpa using hmf
            refine ⟨⟨by omega, hc', hn, ?_, fun h => by cases h⟩, hok, by simp [len]⟩
            have := hm hmf'
            omega
          · cases h
            refine ⟨hn, ?_, by simp [len]⟩
            intro f hf
            rcases List.mem_append.mp hf with hf | hf
            · exact hok f hf
            · simp only [List.mem_singleton] at hf
              subst hf
              exact ⟨by show d - 1 = (FT.len c' : Int); omega, hc'⟩
        · rename_i hrem
          have hrem' : removed = false := by simpa using hrem
          rw [hrem'] at hlen
          simp at hlen
          cases h
          exact ⟨⟨by omega, hc', hn, hle, hm⟩, hok, by simp [len]⟩
      · split at h
        · rename_i nx' cuts' removed hcut
          obtain ⟨hn', hok, hlen⟩ := cutIn_wf target nx nx' cuts' removed hn hcut
          cases h
          have hl : len nx' ≤ len nx := by split at hlen <;> omega
          refine ⟨⟨hd, hc, hn', by omega, fun h => by have := hm h; omega⟩, hok, ?_⟩
          simp only [len]; split at hlen <;> simp_all <;> omega
        · cases h

end FT

namespace IFib

/-- ids of the roots themselves -/
def topIds (l : List FN) : List Nat := l.map (·.id)

theorem topIds_sub : ∀ (l : List FN) (x : Nat), x ∈ topIds l → x ∈ rootsIds l
  | [], _, h => by simp [topIds] at h
  | r :: rs, x, h => by
    simp only [topIds, List.map_cons, List.mem_cons] at h
    rw [rootsIds_cons]
    rcases h with rfl | h
    · simp [FN.ids]
    · exact List.mem_append_right _ (topIds_sub rs x h)

theorem findRoot_some_iff : ∀ (l : List FN) (x : Nat), (∃ xn, findRoot x l = some xn) ↔ x ∈ topIds l
  | [], x => by simp [findRoot, topIds]
  | r :: rs, x => by
    simp only [findRoot, topIds, List.map_cons, List.mem_cons]
    by_cases h : r.id = x
    · rw [if_pos h]; simp [h]
    · rw [if_neg h]
      have := findRoot_some_iff rs x
      simp only [topIds] at this
      rw [this]
      constructor
      · intro h1; exact Or.inr h1
      · rintro (h1 | h1)
        · exact absurd h1.symm h
        · exact h1

theorem findRoot_mem : ∀ (l : List FN) (x : Nat) (xn : FN), findRoot x l = some xn → xn ∈ l
  | [], _, _, h => by simp [findRoot] at h
  | r :: rs, x, xn, h => by
    simp only [findRoot] at h
    split at h
    · cases h; exact List.mem_cons_self
    · exact List.mem_cons_of_mem _ (findRoot_mem rs x xn h)

theorem eraseRoot_sub : ∀ (l : List FN) (x : Nat) (f : FN), f ∈ eraseRoot x l → f ∈ l
  | [], _, _, h => by simp [eraseRoot] at h
  | r :: rs, x, f, h => by
    simp only [eraseRoot] at h
    split at h
    · exact List.mem_cons_of_mem _ h
    · rcases List.mem_cons.mp h with rfl | h
      · exact List.mem_cons_self
      · exact List.mem_cons_of_mem _ (eraseRoot_sub rs x f h)

/-- linking a root under a root of the same degree keeps every root well formed -/
theorem linkUnder_ok (ch : FN) (hch : ch.OK) : ∀ (l : List FN) (y : Nat), (∀ f, f ∈ l → f.OK) →
    (∀ yn, findRoot y l = some yn → yn.degree = ch.degree) → ∀ f, f ∈ linkUnder ch y l → f.OK
  | [], _, _, _, f, hf => by simp [linkUnder] at hf
  | r :: rs, y, hl, hdeg, f, hf => by
    simp only [linkUnder] at hf
    split at hf
    · rename_i hid
      have hr := hl r List.mem_cons_self
      have hd : r.degree = ch.degree := hdeg r (by simp [findRoot, hid])
      rcases List.mem_cons.mp hf with rfl | hf
      · refine ⟨?_, ?_⟩
        · show r.degree + 1 = ((FT.len r.child + 1 : Nat) : Int)
          rw [hr.1]; omega
        · show FT.WFc (.node ch.id ch.degree ch.mark ch.child r.child)
          refine ⟨hch.1, hch.2, hr.2, ?_, ?_⟩
          · rw [← hd, hr.1]; omega
          · intro _; rw [← hd, hr.1]; omega
      · exact hl f (List.mem_cons_of_mem _ hf)
    · rename_i hid
      rcases List.mem_cons.mp hf with rfl | hf
      · exact hl _ List.mem_cons_self
      · refine linkUnder_ok ch hch rs y (fun f hf => hl f (List.mem_cons_of_mem _ hf)) ?_ f hf
        intro yn hyn
        exact hdeg yn (by simp [findRoot, hid, hyn])

theorem cutInRoots_ok (target : Nat) : ∀ (l l' cuts : List FN), (∀ f, f ∈ l → f.OK) →
    cutInRoots target l = some (l', cuts) → ∀ f, f ∈ l' ++ cuts → f.OK
  | [], _, _, _, h => by simp [cutInRoots] at h
  | r :: rs, l', cuts, hl, h => by
    have hr := hl r List.mem_cons_self
    simp only [cutInRoots] at h
    split at h
    · cases h; simpa using hl
    · split at h
      · rename_i c' cuts' removed hc
        obtain ⟨hc', hok, hlen⟩ := FT.cutIn_wf target _ _ _ _ hr.2 hc
        split at h
        · rename_i hrem
          rw [hrem] at hlen
          simp only [if_true] at hlen
          cases h
          intro f hf
          rcases List.mem_append.mp hf with hf | hf
          · rcases List.mem_cons.mp hf with rfl | hf
            · exact ⟨by show r.degree - 1 = (FT.len c' : Int); rw [hr.1]; omega, hc'⟩
            · exact hl f (List.mem_cons_of_mem _ hf)
          · exact hok f hf
        · rename_i hrem
          have hrem' : removed = false := by simpa using hrem
          rw [hrem'] at hlen
          simp at hlen
          cases h
          intro f hf
          rcases List.mem_append.mp hf with hf | hf
          · rcases List.mem_cons.mp hf with rfl | hf
            · exact ⟨by show r.degree = (FT.len c' : Int); rw [hr.1]; omega, hc'⟩
            · exact hl f (List.mem_cons_of_mem _ hf)
          · exact hok f hf
      · split at h
        · rename_i rs' cuts' hrs
          have ih := cutInRoots_ok target rs rs' cuts' (fun f hf => hl f (List.mem_cons_of_mem _ hf)) hrs
          cases h
          intro f hf
          rcases List.mem_append.mp hf with hf | hf
          · rcases List.mem_cons.mp hf with rfl | hf
            · exact hr
            · exact ih f (List.mem_append_left _ hf)
          · exact ih f (List.mem_append_right _ hf)
        · cases h

theorem meldChildren_ok {rest ch : List FN} (hr : ∀ f, f ∈ rest → f.OK) (hc : ∀ f, f ∈ ch → f.OK) :
    ∀ f, f ∈ meldChildren rest ch → f.OK := by
  intro f hf
  have := (meldChildren_perm rest ch).mem_iff.mp hf
  rcases List.mem_append.mp this with h | h
  · exact hr f h
  · exact hc f h

end IFib
end AlgoVerif.C05
