import AlgoVerif.Proofs.C10LL1
/-! Assembly of the C10 statements from the closed/least lemmas. -/
set_option linter.unusedSectionVars false
namespace AlgoVerif.C10
open AlgoVerif AlgoVerif.Gram
variable {T N : Type} [DecidableEq T] [DecidableEq N]

theorem analyse_ok {g : Grammar T N} {o₁ o₂ : IterOrder T N} {an : Analysis T N}
    (h : analyse g o₁ o₂ = .ok an) :
    computeFirst g o₁ = .ok an.first ∧ computeFollow g o₂ (firstStr an.first) = .ok an.follow := by
  unfold analyse at h
  split at h
  · rename_i fi hfi
    split at h
    · rename_i fo hfo
      cases h
      exact ⟨hfi, hfo⟩
    · cases h
    · cases h
  · cases h
  · cases h

/-- FOLLOW relative to the exact FIRST: closed … -/
theorem analyse_follow_closed {g : Grammar T N} {o₁ o₂ : IterOrder T N} (h₁ : o₁.Fair) (h₂ : o₂.Fair)
    {an : Analysis T N} (h : analyse g o₁ o₂ = .ok an) :
    FollowClosed g (Spec.First g) (Spec.Eps g) (Fot an.follow) (Ent an.follow) := by
  obtain ⟨hf, ho⟩ := analyse_ok h
  exact computeFollow_closed h₂
    (fun β a ha => (first_exact_terms h₁ hf β a).2 ha)
    (fun β he => (first_exact_eps h₁ hf β).2 he) ho

/-- … and least -/
theorem analyse_follow_least {g : Grammar T N} {o₁ o₂ : IterOrder T N} (h₁ : o₁.Fair) (h₂ : o₂.Fair)
    {an : Analysis T N} (h : analyse g o₁ o₂ = .ok an) {Fo : N → T → Prop} {En : N → Prop}
    (hc : FollowClosed g (Spec.First g) (Spec.Eps g) Fo En) : BelowFo an.follow Fo En := by
  obtain ⟨hf, ho⟩ := analyse_ok h
  exact computeFollow_least h₂
    (fun β a ha => (first_exact_terms h₁ hf β a).1 ha)
    (fun β he => (first_exact_eps h₁ hf β).1 he) hc ho

/-- two runs (any fair orders) return the same sets -/
theorem analyse_sameSets {g : Grammar T N} {o₁ o₂ o₃ o₄ : IterOrder T N}
    (h₁ : o₁.Fair) (h₂ : o₂.Fair) (h₃ : o₃.Fair) (h₄ : o₄.Fair) {an an' : Analysis T N}
    (h : analyse g o₁ o₂ = .ok an) (h' : analyse g o₃ o₄ = .ok an') :
    SameSets (firstStr an.first) (firstStr an'.first) an.follow an'.follow := by
  have c := analyse_follow_closed h₁ h₂ h
  have c' := analyse_follow_closed h₃ h₄ h'
  have l := analyse_follow_least h₁ h₂ h c'
  have l' := analyse_follow_least h₃ h₄ h' c
  constructor
  · intro α a
    rw [first_exact_terms h₁ (analyse_ok h).1, first_exact_terms h₃ (analyse_ok h').1]
  · intro α
    rw [first_exact_eps h₁ (analyse_ok h).1, first_exact_eps h₃ (analyse_ok h').1]
  · intro A a; exact ⟨l.1 A a, l'.1 A a⟩
  · intro A; exact ⟨l.2 A, l'.2 A⟩

theorem follow_exact {g : Grammar T N} {o₁ o₂ : IterOrder T N} (h₁ : o₁.Fair) (h₂ : o₂.Fair)
    (hv : validB g = true) (hreach : Spec.AllReachable g) {an : Analysis T N}
    (h : analyse g o₁ o₂ = .ok an) (A : N) :
    (∀ a, a ∈ (an.follow A).terms ↔ Spec.Follow g A a) ∧ ((an.follow A).endm = true ↔ Spec.FollowEnd g A) := by
  have hc : FollowClosed g (Spec.First g) (Spec.Eps g) (Spec.Follow g) (Spec.FollowEnd g) :=
    spec_follow_closed fun p hp => hreach p.head (valid_prod hv hp).1
  have l := analyse_follow_least h₁ h₂ h hc
  have c := spec_follow_least (analyse_follow_closed h₁ h₂ h) A
  exact ⟨fun a => ⟨l.1 A a, c.1 a⟩, ⟨l.2 A, c.2⟩⟩

/-- FOLLOW is complete without any reachability assumption -/
theorem follow_complete {g : Grammar T N} {o₁ o₂ : IterOrder T N} (h₁ : o₁.Fair) (h₂ : o₂.Fair)
    {an : Analysis T N} (h : analyse g o₁ o₂ = .ok an) (A : N) :
    (∀ a, Spec.Follow g A a → a ∈ (an.follow A).terms) ∧ (Spec.FollowEnd g A → (an.follow A).endm = true) :=
  spec_follow_least (analyse_follow_closed h₁ h₂ h) A

theorem first_declared {g : Grammar T N} (hv : validB g = true) {p : GProd T N} (hp : p ∈ g.prods) {a : T}
    (h : Spec.First g p.body a) : a ∈ g.terms := by
  obtain ⟨β, hβ⟩ := h
  have := derives_declared hv hβ (valid_prod hv hp).2 (Sym.term a) (by simp)
  simpa [symDeclared] using this

theorem mem_columns_some {g : Grammar T N} {a : T} (h : a ∈ g.terms) : some a ∈ columns g := by
  unfold columns; simp [h]

theorem mem_columns_none {g : Grammar T N} : (none : Option T) ∈ columns g := by
  unfold columns; simp

/-- in a reduced grammar a failed LL(1) condition shows up as a cell with two productions -/
theorem ll1Bad_conflict {g : Grammar T N} {o₁ o₂ : IterOrder T N} (h₁ : o₁.Fair) (h₂ : o₂.Fair)
    (hv : validB g = true) (hreach : Spec.AllReachable g) (hprod : Spec.AllProductive g)
    {an : Analysis T N} (h : analyse g o₁ o₂ = .ok an)
    (hbad : LL1Bad g (firstStr an.first) an.follow) : Conflict g (firstStr an.first) an.follow := by
  obtain ⟨p, q, hp, hq, hne, hh, hb⟩ := hbad
  have hf := (analyse_ok h).1
  have hA := (valid_prod hv hp).1
  have decl : ∀ (r : GProd T N), r ∈ g.prods → ∀ (a : T), a ∈ (firstStr an.first r.body).terms → a ∈ g.terms :=
    fun r hr a ha => first_declared hv hr ((first_exact_terms h₁ hf _ a).1 ha)
  rcases hb with (⟨a, ha1, ha2⟩ | ⟨e1, e2⟩) | ⟨e1, a, ha1, ha2⟩ | ⟨e2, a, ha1, ha2⟩
  · exact ⟨p, q, some a, hp, hq, hne, hh, hA, mem_columns_some (decl p hp a ha1), Or.inl ha1, Or.inl ha2⟩
  · rcases follow_nonempty hv hreach hprod hA with he | ⟨a, hat, ha⟩
    · have := (follow_complete h₁ h₂ h p.head).2 he
      exact ⟨p, q, none, hp, hq, hne, hh, hA, mem_columns_none, ⟨e1, this⟩, ⟨e2, hh ▸ this⟩⟩
    · have := (follow_complete h₁ h₂ h p.head).1 a ha
      exact ⟨p, q, some a, hp, hq, hne, hh, hA, mem_columns_some hat, Or.inr ⟨e1, this⟩, Or.inr ⟨e2, hh ▸ this⟩⟩
  · exact ⟨p, q, some a, hp, hq, hne, hh, hA, mem_columns_some (decl q hq a ha1), Or.inr ⟨e1, ha2⟩, Or.inl ha1⟩
  · exact ⟨p, q, some a, hp, hq, hne, hh, hA, mem_columns_some (decl p hp a ha1), Or.inl ha1, Or.inr ⟨e2, hh ▸ ha2⟩⟩

end AlgoVerif.C10
