import AlgoVerif.Proofs.C10Nullable
/-! `ComputeFIRST`: the table it returns is the least family closed under the FIRST rules, for every
iteration order, and the sets "terminals that can begin a sentential form derived from X" / "X ⇒* ε"
are that least family too. -/
set_option linter.unusedSectionVars false
namespace AlgoVerif.C10
open AlgoVerif AlgoVerif.Gram
variable {T N : Type} [DecidableEq T] [DecidableEq N]

/-! ### FIRST of a string relative to a family `(F, E)` of sets -/

def symF (F : N → T → Prop) : Sym T N → T → Prop
  | .term t, a => a = t
  | .nonterm n, a => F n a

def symE (E : N → Prop) : Sym T N → Prop
  | .term _ => False
  | .nonterm n => E n

def strF (F : N → T → Prop) (E : N → Prop) : List (Sym T N) → T → Prop
  | [], _ => False
  | s :: rest, a => symF F s a ∨ (symE E s ∧ strF F E rest a)

def strE (E : N → Prop) : List (Sym T N) → Prop
  | [] => True
  | s :: rest => symE E s ∧ strE E rest

/-- closed under the FIRST rules -/
def FirstClosed (g : Grammar T N) (F : N → T → Prop) (E : N → Prop) : Prop :=
  ∀ p, p ∈ g.prods → (∀ a, strF F E p.body a → F p.head a) ∧ (strE E p.body → E p.head)

theorem strE_iff_allIn {E : N → Prop} {α : List (Sym T N)} : strE E α ↔ AllIn E α := by
  induction α with
  | nil => simp [strE, AllIn]
  | cons s rest ih =>
    simp only [strE, ih, AllIn]
    constructor
    · rintro ⟨h1, h2⟩ x hx
      rcases List.mem_cons.1 hx with rfl | hx
      · cases x with
        | term t => cases h1
        | nonterm n => exact ⟨n, rfl, h1⟩
      · exact h2 x hx
    · intro h
      refine ⟨?_, fun x hx => h x (List.mem_cons_of_mem _ hx)⟩
      obtain ⟨n, rfl, hn⟩ := h s (List.mem_cons_self ..)
      exact hn

theorem FirstClosed.nul {g : Grammar T N} {F : N → T → Prop} {E : N → Prop} (h : FirstClosed g F E) :
    NulClosed g E := fun p hp hall => (h p hp).2 (strE_iff_allIn.2 hall)

theorem symF_mono {F F' : N → T → Prop} (hF : ∀ n a, F n a → F' n a) {s : Sym T N} {a : T}
    (h : symF F s a) : symF F' s a := by
  cases s with
  | term t => exact h
  | nonterm n => exact hF n a h

theorem symE_mono {E E' : N → Prop} (hE : ∀ n, E n → E' n) {s : Sym T N} (h : symE E s) : symE E' s := by
  cases s with
  | term t => exact h
  | nonterm n => exact hE n h

theorem strF_mono {F F' : N → T → Prop} {E E' : N → Prop} (hF : ∀ n a, F n a → F' n a)
    (hE : ∀ n, E n → E' n) {α : List (Sym T N)} {a : T} (h : strF F E α a) : strF F' E' α a := by
  induction α with
  | nil => exact h
  | cons s rest ih =>
    rcases h with h | ⟨h1, h2⟩
    · exact Or.inl (symF_mono hF h)
    · exact Or.inr ⟨symE_mono hE h1, ih h2⟩

theorem strE_mono {E E' : N → Prop} (hE : ∀ n, E n → E' n) {α : List (Sym T N)} (h : strE E α) :
    strE E' α := by
  induction α with
  | nil => trivial
  | cons s rest ih => exact ⟨symE_mono hE h.1, ih h.2⟩

theorem strF_append {F : N → T → Prop} {E : N → Prop} {α β : List (Sym T N)} {a : T} :
    strF F E (α ++ β) a ↔ strF F E α a ∨ (strE E α ∧ strF F E β a) := by
  induction α with
  | nil => simp [strF, strE]
  | cons s rest ih =>
    simp only [List.cons_append, strF, strE, ih]
    constructor
    · rintro (h | ⟨h1, h2 | ⟨h2, h3⟩⟩)
      · exact Or.inl (Or.inl h)
      · exact Or.inl (Or.inr ⟨h1, h2⟩)
      · exact Or.inr ⟨⟨h1, h2⟩, h3⟩
    · rintro ((h | ⟨h1, h2⟩) | ⟨⟨h1, h2⟩, h3⟩)
      · exact Or.inl h
      · exact Or.inr ⟨h1, Or.inl h2⟩
      · exact Or.inr ⟨h1, Or.inr ⟨h2, h3⟩⟩

theorem strE_append {E : N → Prop} {α β : List (Sym T N)} :
    strE E (α ++ β) ↔ strE E α ∧ strE E β := by
  induction α with
  | nil => simp [strE]
  | cons s rest ih => simp only [List.cons_append, strE, ih, and_assoc]

/-! ### the spec side -/

/-- the family of the Spec -/
def specF (g : Grammar T N) : N → T → Prop := fun n a => Spec.First g [Sym.nonterm n] a
def specE (g : Grammar T N) : N → Prop := Spec.Nullable g

theorem spec_strE {g : Grammar T N} {α : List (Sym T N)} (h : strE (specE g) α) : Spec.Eps g α :=
  derives_nil_of_allIn (strE_iff_allIn.1 h)

theorem spec_strF {g : Grammar T N} {α : List (Sym T N)} {a : T} (h : strF (specF g) (specE g) α a) :
    Spec.First g α a := by
  induction α with
  | nil => cases h
  | cons s rest ih =>
    rcases h with h | ⟨h1, h2⟩
    · cases s with
      | term t =>
        have : a = t := h
        subst this
        exact ⟨rest, Derives.refl _⟩
      | nonterm n =>
        obtain ⟨β, hβ⟩ := (h : Spec.First g [Sym.nonterm n] a)
        refine ⟨β ++ rest, ?_⟩
        have := hβ.append_right rest
        simpa using this
    · cases s with
      | term t => cases h1
      | nonterm n =>
        have hn : Derives g [Sym.nonterm n] [] := h1
        obtain ⟨β, hβ⟩ := ih h2
        refine ⟨β, ?_⟩
        have := (hn.append_right rest).trans (by simpa using hβ)
        simpa using this

theorem spec_first_closed (g : Grammar T N) : FirstClosed g (specF g) (specE g) := by
  intro p hp
  constructor
  · intro a h
    obtain ⟨β, hβ⟩ := spec_strF h
    exact ⟨β, (Derives.of_prod hp).trans hβ⟩
  · intro h
    exact (Derives.of_prod hp).trans (spec_strE h)

theorem spec_eps_least {g : Grammar T N} {F : N → T → Prop} {E : N → Prop} (hc : FirstClosed g F E)
    {n : Nat} {α : List (Sym T N)} (h : DerivesN g n α []) : strE E α :=
  strE_iff_allIn.2 (allIn_of_derivesN_nil hc.nul n α h)

theorem spec_first_least_aux {g : Grammar T N} {F : N → T → Prop} {E : N → Prop}
    (hc : FirstClosed g F E) :
    ∀ n (α : List (Sym T N)) (a : T) (β : List (Sym T N)),
      DerivesN g n α (Sym.term a :: β) → strF F E α a := by
  intro n
  induction n using Nat.strongRecOn with
  | _ n ih =>
    intro α a β h
    cases α with
    | nil => have := h.of_nil.1; simp at this
    | cons s α' =>
      have h' : DerivesN g n ([s] ++ α') (Sym.term a :: β) := h
      obtain ⟨n₁, n₂, γ₁, γ₂, hn, hγ, d₁, d₂⟩ := h'.split
      cases γ₁ with
      | nil =>
        -- the head symbol vanishes
        simp at hγ; subst hγ
        have hE : strE E [s] := spec_eps_least hc d₁
        have hn1 : n₁ ≠ 0 := by
          intro h0; subst h0
          have := d₁.zero_eq; simp at this
        exact Or.inr ⟨hE.1, ih n₂ (by omega) _ _ _ d₂⟩
      | cons c γ₁' =>
        simp at hγ
        obtain ⟨hc1, hc2⟩ := hγ
        subst hc1
        cases s with
        | term t =>
          have := (DerivesN.of_terms (w := [t]) d₁).1
          simp at this
          exact Or.inl (show symF F (Sym.term t) a from this.1)
        | nonterm A =>
          cases n₁ with
          | zero => have := d₁.zero_eq; simp at this
          | succ k =>
            obtain ⟨p, hp, hA, dp⟩ := d₁.of_single
            have := ih k (by omega) _ _ _ dp
            exact Or.inl (hA ▸ (hc p hp).1 a this)

theorem spec_first_least {g : Grammar T N} {F : N → T → Prop} {E : N → Prop} (hc : FirstClosed g F E)
    {α : List (Sym T N)} {a : T} (h : Spec.First g α a) : strF F E α a := by
  obtain ⟨β, hβ⟩ := h
  obtain ⟨n, hn⟩ := hβ.toDerivesN
  exact spec_first_least_aux hc n α a β hn

theorem spec_eps_least' {g : Grammar T N} {F : N → T → Prop} {E : N → Prop} (hc : FirstClosed g F E)
    {α : List (Sym T N)} (h : Spec.Eps g α) : strE E α := by
  obtain ⟨n, hn⟩ := Derives.toDerivesN h
  exact spec_eps_least hc hn

/-! ### the model side -/

/-- the family a table stands for -/
def Fst (st : N → TE T) : N → T → Prop := fun n a => a ∈ (st n).terms
def Est (st : N → TE T) : N → Prop := fun n => (st n).eps = true

theorem symF_Fst {st : N → TE T} {s : Sym T N} {a : T} :
    symF (Fst st) s a ↔ a ∈ (firstSym st s).terms := by
  cases s with
  | term t => simp [symF, firstSym]
  | nonterm n => simp [symF, firstSym, Fst]

theorem symE_Est {st : N → TE T} {s : Sym T N} : symE (Est st) s ↔ (firstSym st s).eps = true := by
  cases s with
  | term t => simp [symE, firstSym]
  | nonterm n => simp [symE, firstSym, Est]

theorem firstStrAux_spec (st : N → TE T) (α : List (Sym T N)) (acc : List T) :
    (∀ a, a ∈ (firstStrAux st α acc).terms ↔ a ∈ acc ∨ strF (Fst st) (Est st) α a) ∧
    ((firstStrAux st α acc).eps = true ↔ strE (Est st) α) := by
  induction α generalizing acc with
  | nil => simp [firstStrAux, strF, strE]
  | cons s rest ih =>
    simp only [firstStrAux]
    by_cases he : (firstSym st s).eps = true
    · simp only [he, if_true]
      obtain ⟨h1, h2⟩ := ih (union acc (firstSym st s).terms)
      constructor
      · intro a
        rw [h1, mem_union, strF, symF_Fst, symE_Est]
        constructor
        · rintro ((h | h) | h)
          · exact Or.inl h
          · exact Or.inr (Or.inl h)
          · exact Or.inr (Or.inr ⟨he, h⟩)
        · rintro (h | h | ⟨_, h⟩)
          · exact Or.inl (Or.inl h)
          · exact Or.inl (Or.inr h)
          · exact Or.inr h
      · rw [h2, strE, symE_Est]; simp [he]
    · simp only [he]
      constructor
      · intro a
        simp only [Bool.false_eq_true, if_false, mem_union, strF, symF_Fst, symE_Est, he, false_and, or_false]
      · simp [strE, symE_Est, he]

theorem mem_firstStr {st : N → TE T} {α : List (Sym T N)} {a : T} :
    a ∈ (firstStr st α).terms ↔ strF (Fst st) (Est st) α a := by
  have := (firstStrAux_spec st α []).1 a
  simpa [firstStr] using this

theorem eps_firstStr {st : N → TE T} {α : List (Sym T N)} :
    (firstStr st α).eps = true ↔ strE (Est st) α := (firstStrAux_spec st α []).2

theorem TE.eta (x : TE T) : (⟨x.terms, x.eps⟩ : TE T) = x := rfl

theorem upd_self {β : Type} (f : N → β) (a : N) : upd f a (f a) = f := by
  funext x; unfold upd; split
  · rename_i h; rw [h]
  · rfl

theorem firstBody_flag (X : N) (body : List (Sym T N)) (st : N → TE T) :
    (firstBody X body st true).2.1 = true := by
  induction body generalizing st with
  | nil => rfl
  | cons Y rest ih =>
    simp only [firstBody, Bool.true_or]
    split
    · exact ih _
    · rfl

theorem firstProd_flag (p : GProd T N) (st : N → TE T) : (firstProd p st true).2 = true := by
  unfold firstProd
  split
  · simp
  · simp [firstBody_flag]

theorem firstPass_flag (ps : List (GProd T N)) (st : N → TE T) : (firstPass ps (st, true)).2 = true := by
  induction ps generalizing st with
  | nil => rfl
  | cons p ps ih =>
    simp only [firstPass]
    have := firstProd_flag p st
    generalize firstProd p st true = r at this ⊢
    obtain ⟨a, b⟩ := r
    simp at this; subst this
    exact ih _

theorem firstBody_quiet (X : N) :
    ∀ (body : List (Sym T N)) (st : N → TE T) (r : (N → TE T) × Bool × Bool),
      firstBody X body st false = r → r.2.1 = false →
      r.1 = st ∧ (∀ a, strF (Fst st) (Est st) body a → a ∈ (st X).terms) ∧
        (r.2.2 = true ↔ strE (Est st) body) := by
  intro body
  induction body with
  | nil =>
    intro st r h _
    simp [firstBody] at h; subst h
    simp [strF, strE]
  | cons Y rest ih =>
    intro st r h hr
    simp only [firstBody, Bool.false_or] at h
    by_cases hlen : (union (st X).terms (firstSym st Y).terms).length > (st X).terms.length
    · -- the flag went up: contradiction
      simp only [hlen, decide_true] at h
      split at h
      · have := firstBody_flag X rest (upd st X ⟨union (st X).terms (firstSym st Y).terms, (st X).eps⟩)
        rw [h] at this; rw [this] at hr; cases hr
      · subst h; simp at hr
    · have hsub := subset_of_union_length hlen
      have hu := union_eq_self_of_length hlen
      simp only [hlen, decide_false] at h
      rw [hu, TE.eta, upd_self] at h
      by_cases he : (firstSym st Y).eps = true
      · simp only [he, if_true] at h
        obtain ⟨h1, h2, h3⟩ := ih st r h hr
        refine ⟨h1, ?_, ?_⟩
        · intro a ha
          rcases ha with ha | ⟨_, ha⟩
          · exact hsub a (symF_Fst.1 ha)
          · exact h2 a ha
        · rw [h3, strE, symE_Est]; simp [he]
      · simp only [he] at h
        subst h
        refine ⟨rfl, ?_, ?_⟩
        · intro a ha
          rcases ha with ha | ⟨h1, _⟩
          · exact hsub a (symF_Fst.1 ha)
          · exact absurd (symE_Est.1 h1) he
        · simp [strE, symE_Est, he]

theorem firstProd_quiet {p : GProd T N} {st : N → TE T} {r : (N → TE T) × Bool}
    (h : firstProd p st false = r) (hr : r.2 = false) :
    r.1 = st ∧ (∀ a, strF (Fst st) (Est st) p.body a → Fst st p.head a) ∧
      (strE (Est st) p.body → Est st p.head) := by
  unfold firstProd at h
  split at h
  · rename_i hemp
    subst h
    simp at hr
    have hb : p.body = [] := by simpa using hemp
    refine ⟨?_, ?_, ?_⟩
    · have : (⟨(st p.head).terms, true⟩ : TE T) = st p.head := by
        rw [← hr]
      simp only [this]; exact upd_self st p.head
    · intro a ha; rw [hb] at ha; cases ha
    · intro _; exact hr
  · subst h
    simp only [Bool.false_or, Bool.or_eq_false_iff] at hr
    obtain ⟨hr1, hr2⟩ := hr
    obtain ⟨h1, h2, h3⟩ := firstBody_quiet p.head p.body st _ rfl hr1
    rw [h1] at hr2
    have key : (firstBody p.head p.body st false).2.2 = true → (st p.head).eps = true := by
      intro hall
      rw [hall] at hr2
      simpa using hr2
    refine ⟨?_, h2, fun hE => key (h3.2 hE)⟩
    simp only [h1]
    have : (⟨(st p.head).terms, (st p.head).eps || (firstBody p.head p.body st false).2.2⟩ : TE T) = st p.head := by
      cases hall : (firstBody p.head p.body st false).2.2
      · simp
      · have hk := key hall
        generalize st p.head = x at hk ⊢
        cases x
        simp at hk; subst hk; simp
    rw [this]; exact upd_self st p.head

theorem firstPass_quiet {ps : List (GProd T N)} {st : N → TE T} {r : (N → TE T) × Bool}
    (h : firstPass ps (st, false) = r) (hr : r.2 = false) :
    r.1 = st ∧ ∀ p, p ∈ ps → (∀ a, strF (Fst st) (Est st) p.body a → Fst st p.head a) ∧
      (strE (Est st) p.body → Est st p.head) := by
  induction ps generalizing st with
  | nil => simp [firstPass] at h; subst h; exact ⟨rfl, by intro p hp; cases hp⟩
  | cons p ps ih =>
    simp only [firstPass] at h
    generalize hq : firstProd p st false = q at h
    obtain ⟨st1, f1⟩ := q
    cases f1 with
    | true =>
      have := firstPass_flag ps st1
      rw [h] at this; rw [this] at hr; cases hr
    | false =>
      obtain ⟨e1, e2⟩ := firstProd_quiet hq rfl
      simp at e1; subst e1
      obtain ⟨h3, h4⟩ := ih h
      refine ⟨h3, ?_⟩
      intro q hq
      rcases List.mem_cons.1 hq with rfl | hq
      · exact e2
      · exact h4 q hq

/-- the table is below the family `(F, E)` -/
def Below (st : N → TE T) (F : N → T → Prop) (E : N → Prop) : Prop :=
  (∀ n a, a ∈ (st n).terms → F n a) ∧ (∀ n, (st n).eps = true → E n)

theorem Below.symF {st : N → TE T} {F : N → T → Prop} {E : N → Prop} (hb : Below st F E)
    {s : Sym T N} {a : T} (h : a ∈ (firstSym st s).terms) : C10.symF F s a := by
  cases s with
  | term t => simpa [firstSym, C10.symF] using h
  | nonterm n => exact hb.1 n a h

theorem Below.symE {st : N → TE T} {F : N → T → Prop} {E : N → Prop} (hb : Below st F E)
    {s : Sym T N} (h : (firstSym st s).eps = true) : C10.symE E s := by
  cases s with
  | term t => simp [firstSym] at h
  | nonterm n => exact hb.2 n h

theorem Below.upd_terms {st : N → TE T} {F : N → T → Prop} {E : N → Prop} (hb : Below st F E)
    {X : N} {ts : List T} (h : ∀ a, a ∈ ts → F X a) : Below (upd st X ⟨ts, (st X).eps⟩) F E := by
  constructor
  · intro n a ha
    unfold upd at ha
    split at ha
    · rename_i hn; subst hn; exact h a ha
    · exact hb.1 n a ha
  · intro n hn
    unfold upd at hn
    split at hn
    · rename_i hx; subst hx; exact hb.2 _ hn
    · exact hb.2 n hn

theorem firstBody_sound {F : N → T → Prop} {E : N → Prop} (X : N) :
    ∀ (body : List (Sym T N)) (st : N → TE T) (u : Bool), Below st F E →
      (∀ a, strF F E body a → F X a) →
      Below (firstBody X body st u).1 F E ∧ ((firstBody X body st u).2.2 = true → strE E body) := by
  intro body
  induction body with
  | nil => intro st u hb _; simp [firstBody, strE]; exact hb
  | cons Y rest ih =>
    intro st u hb hX
    simp only [firstBody]
    have hb' : Below (upd st X ⟨union (st X).terms (firstSym st Y).terms, (st X).eps⟩) F E := by
      apply hb.upd_terms
      intro a ha
      rcases mem_union.1 ha with ha | ha
      · exact hb.1 X a ha
      · exact hX a (Or.inl (hb.symF ha))
    by_cases he : (firstSym st Y).eps = true
    · simp only [he, if_true]
      have hY : symE E Y := hb.symE he
      obtain ⟨h1, h2⟩ := ih _ (u || decide ((union (st X).terms (firstSym st Y).terms).length > (st X).terms.length)) hb'
        (fun a ha => hX a (Or.inr ⟨hY, ha⟩))
      exact ⟨h1, fun h => ⟨hY, h2 h⟩⟩
    · simp only [he]
      exact ⟨hb', by simp⟩

theorem firstProd_sound {g : Grammar T N} {F : N → T → Prop} {E : N → Prop} (hc : FirstClosed g F E)
    {p : GProd T N} (hp : p ∈ g.prods) {st : N → TE T} (u : Bool) (hb : Below st F E) :
    Below (firstProd p st u).1 F E := by
  obtain ⟨c1, c2⟩ := hc p hp
  by_cases hemp : p.body.isEmpty = true
  · have hbody : p.body = [] := by simpa using hemp
    have e : (firstProd p st u).1 = upd st p.head ⟨(st p.head).terms, true⟩ := by
      simp [firstProd, hemp]
    rw [e]
    constructor
    · intro n a ha
      unfold upd at ha
      split at ha
      · rename_i hn; subst hn; exact hb.1 _ a ha
      · exact hb.1 n a ha
    · intro n hn
      unfold upd at hn
      split at hn
      · rename_i hx; subst hx; apply c2; rw [hbody]; trivial
      · exact hb.2 n hn
  · obtain ⟨h1, h2⟩ := firstBody_sound p.head p.body st u hb c1
    have e : (firstProd p st u).1 = upd (firstBody p.head p.body st u).1 p.head
        ⟨((firstBody p.head p.body st u).1 p.head).terms,
         ((firstBody p.head p.body st u).1 p.head).eps || (firstBody p.head p.body st u).2.2⟩ := by
      simp [firstProd, hemp]
    rw [e]
    constructor
    · intro n a ha
      unfold upd at ha
      split at ha
      · rename_i hn; subst hn; exact h1.1 _ a ha
      · exact h1.1 n a ha
    · intro n hn
      unfold upd at hn
      split at hn
      · rename_i hx; subst hx
        simp only [Bool.or_eq_true] at hn
        rcases hn with hn | hn
        · exact h1.2 _ hn
        · exact c2 (h2 hn)
      · exact h1.2 n hn

theorem firstPass_sound {g : Grammar T N} {F : N → T → Prop} {E : N → Prop} (hc : FirstClosed g F E)
    {ps : List (GProd T N)} (hps : ∀ p, p ∈ ps → p ∈ g.prods) {st : N → TE T} {u : Bool}
    (hb : Below st F E) : Below (firstPass ps (st, u)).1 F E := by
  induction ps generalizing st u with
  | nil => simpa [firstPass] using hb
  | cons p ps ih =>
    simp only [firstPass]
    have h1 := firstProd_sound hc (hps p (List.mem_cons_self ..)) u hb
    generalize firstProd p st u = r at h1 ⊢
    obtain ⟨a, b⟩ := r
    exact ih (fun q hq => hps q (List.mem_cons_of_mem _ hq)) h1

theorem firstLoop_closed {g : Grammar T N} {o : IterOrder T N} (ho : o.Fair) :
    ∀ (fuel i : Nat) (st R : N → TE T), firstLoop g o fuel i st = .ok R →
      FirstClosed g (Fst R) (Est R) := by
  intro fuel
  induction fuel with
  | zero => intro i st R h; simp [firstLoop] at h
  | succ fuel ih =>
    intro i st R h
    simp only [firstLoop] at h
    generalize hr : firstPass (passProds g o i) (st, false) = r at h
    obtain ⟨st', f⟩ := r
    cases f with
    | true => simp at h; exact ih _ _ _ h
    | false =>
      simp at h; subst h
      obtain ⟨e1, e2⟩ := firstPass_quiet hr rfl
      simp at e1; subst e1
      intro p hp
      exact e2 p ((mem_passProds_iff ho i).2 hp)

theorem firstLoop_least {g : Grammar T N} {o : IterOrder T N} (ho : o.Fair) {F : N → T → Prop}
    {E : N → Prop} (hc : FirstClosed g F E) :
    ∀ (fuel i : Nat) (st R : N → TE T), Below st F E → firstLoop g o fuel i st = .ok R → Below R F E := by
  intro fuel
  induction fuel with
  | zero => intro i st R _ h; simp [firstLoop] at h
  | succ fuel ih =>
    intro i st R hb h
    simp only [firstLoop] at h
    have hs := firstPass_sound hc (ps := passProds g o i) (fun p hp => (mem_passProds_iff ho i).1 hp)
      (u := false) hb
    generalize firstPass (passProds g o i) (st, false) = r at h hs
    obtain ⟨st', f⟩ := r
    cases f with
    | true => simp at h; exact ih _ _ _ hs h
    | false => simp at h; subst h; exact hs

theorem computeFirst_closed {g : Grammar T N} {o : IterOrder T N} (ho : o.Fair) {R : N → TE T}
    (h : computeFirst g o = .ok R) : FirstClosed g (Fst R) (Est R) :=
  firstLoop_closed ho _ _ _ _ h

theorem computeFirst_least {g : Grammar T N} {o : IterOrder T N} (ho : o.Fair) {R : N → TE T}
    (h : computeFirst g o = .ok R) {F : N → T → Prop} {E : N → Prop} (hc : FirstClosed g F E) :
    Below R F E :=
  firstLoop_least ho hc _ _ _ _ ⟨fun n a ha => by simp at ha, fun n hn => by simp at hn⟩ h

theorem first_exact_terms {g : Grammar T N} {o : IterOrder T N} (ho : o.Fair) {R : N → TE T}
    (h : computeFirst g o = .ok R) (α : List (Sym T N)) (a : T) :
    a ∈ (firstStr R α).terms ↔ Spec.First g α a := by
  rw [mem_firstStr]
  constructor
  · intro hm
    have hb := computeFirst_least ho h (spec_first_closed g)
    exact spec_strF (strF_mono hb.1 hb.2 hm)
  · intro hs
    exact spec_first_least (computeFirst_closed ho h) hs

theorem first_exact_eps {g : Grammar T N} {o : IterOrder T N} (ho : o.Fair) {R : N → TE T}
    (h : computeFirst g o = .ok R) (α : List (Sym T N)) :
    (firstStr R α).eps = true ↔ Spec.Eps g α := by
  rw [eps_firstStr]
  constructor
  · intro hm
    have hb := computeFirst_least ho h (spec_first_closed g)
    exact spec_strE (strE_mono hb.2 hm)
  · intro hs
    exact spec_eps_least' (computeFirst_closed ho h) hs

end AlgoVerif.C10
