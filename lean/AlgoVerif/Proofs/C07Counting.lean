import AlgoVerif.Proofs.C07CountList
/-!
# C07 — proof of `CountingPassSpec`: the array code of one key-indexed counting pass computes the
stable bucket concatenation
-/
namespace AlgoVerif.C07
open AlgoVerif

variable {α : Type}

/-! ## the `count` array as a function -/

/-- `count` has `R+1` cells holding `F 0 … F R` -/
def Rep (count : Array Int) (R : Nat) (F : Nat → Int) : Prop :=
  count.size = R + 1 ∧ ∀ s, s ≤ R → count[s]? = some (F s)

theorem Rep.congr {count : Array Int} {R : Nat} {F G : Nat → Int} (h : Rep count R F)
    (hg : ∀ s, s ≤ R → F s = G s) : Rep count R G :=
  ⟨h.1, fun s hs => by rw [h.2 s hs, hg s hs]⟩

theorem Rep.get {count : Array Int} {R : Nat} {F : Nat → Int} (h : Rep count R F) {s : Nat} (hs : s ≤ R) :
    get count (s : Int) = .ok (F s) := by
  have hsz : s < count.size := by rw [h.1]; omega
  rw [get_nat hsz]
  have := h.2 s hs
  rw [Array.getElem?_eq_getElem hsz] at this
  simpa using this

theorem Rep.set {count : Array Int} {R : Nat} {F : Nat → Int} (h : Rep count R F) {s : Nat} (hs : s ≤ R) (v : Int) :
    ∃ count', set count (s : Int) v = .ok count' ∧ Rep count' R (fun t => if t = s then v else F t) := by
  have hsz : s < count.size := by rw [h.1]; omega
  refine ⟨count.set s v hsz, ?_, ?_, ?_⟩
  · rw [set_ok (by omega) (by omega)]; simp
  · simp [h.1]
  · intro t ht
    rw [Array.getElem?_set]
    by_cases hts : s = t
    · subst hts; simp
    · have : ¬ t = s := fun h => hts h.symm
      simp [hts, this, h.2 t ht]

theorem rep_replicate (R : Nat) : Rep (Array.replicate ((R : Int).toNat + 1) (0 : Int)) R (fun _ => 0) := by
  refine ⟨by simp, ?_⟩
  intro s hs
  simp [Array.getElem?_replicate]
  omega

/-! ## the five loops -/

section loops
variable (key : α → Outcome Int) (k : α → Nat) (R : Nat) (a : Array α) (lo n : Nat)

/-- frequency count: adds `#(rest, key+1 = s)` to every cell -/
theorem freqLoop_spec (hsz : lo + n ≤ a.size)
    (hkey : ∀ i, lo ≤ i → (h : i < lo + n) → key (a[i]'(by omega)) = .ok ((k (a[i]'(by omega)) : Nat) : Int) ∧ k (a[i]'(by omega)) < R) :
    ∀ (f : Nat) (i : Nat) (count : Array Int) (F : Nat → Int), lo ≤ i → i ≤ lo + n → lo + n - i < f → Rep count R F →
      ∃ count', freqLoop key a (((lo + n : Nat) : Int) - 1) f (i : Int) count = .ok count' ∧
        Rep count' R (fun s => F s + ((segL a i (lo+n)).countP (fun x => k x + 1 == s) : Nat)) := by
  intro f
  induction f with
  | zero => intro i _ _ _ _ hf; omega
  | succ f ih =>
    intro i count F hlo hi hf hrep
    unfold freqLoop
    by_cases hlt : i < lo + n
    · have c1 : (i : Int) ≤ ((lo + n : Nat) : Int) - 1 := by omega
      simp only [c1, ↓reduceIte]
      rw [get_nat (by omega : i < a.size)]
      simp only [ok_bind]
      obtain ⟨hk1, hk2⟩ := hkey i hlo hlt
      rw [hk1]
      simp only [ok_bind]
      have e : ((k a[i] : Nat) : Int) + 1 = ((k a[i] + 1 : Nat) : Int) := by omega
      rw [e, hrep.get (by omega)]
      simp only [ok_bind]
      obtain ⟨c1', hs1, hr1⟩ := hrep.set (s := k a[i] + 1) (by omega) (F (k a[i] + 1) + 1)
      rw [hs1]
      simp only [ok_bind]
      have e2 : ((i : Int) + 1) = ((i + 1 : Nat) : Int) := by omega
      rw [e2]
      obtain ⟨c2, hs2, hr2⟩ := ih (i+1) c1' _ (by omega) (by omega) (by omega) hr1
      refine ⟨c2, hs2, hr2.congr ?_⟩
      intro s hs
      have hcons : segL a i (lo+n) = a[i] :: segL a (i+1) (lo+n) := by
        apply List.ext_getElem?
        intro t
        cases t with
        | zero => rw [segL_getElem? a i (lo+n) 0 hsz (by omega)]; simp
        | succ t =>
          by_cases ht : i + (t+1) < lo + n
          · rw [segL_getElem? a i (lo+n) (t+1) hsz ht]
            simp only [List.getElem?_cons_succ]
            rw [segL_getElem? a (i+1) (lo+n) t hsz (by omega)]
            congr 2; omega
          · rw [List.getElem?_eq_none (by rw [segL_length a _ _ hsz]; omega)]
            simp only [List.getElem?_cons_succ]
            rw [List.getElem?_eq_none (by rw [segL_length a _ _ hsz]; omega)]
      rw [hcons, List.countP_cons]
      by_cases hsk : s = k a[i] + 1
      · simp [hsk]; omega
      · have : ¬ (k a[i] + 1 = s) := fun h => hsk h.symm
        simp [hsk, this]
    · have c1 : ¬ (i : Int) ≤ ((lo + n : Nat) : Int) - 1 := by omega
      simp only [c1, ↓reduceIte]
      refine ⟨count, rfl, hrep.congr ?_⟩
      intro s hs
      have : segL a i (lo+n) = [] := by
        apply List.eq_nil_of_length_eq_zero
        rw [segL_length a _ _ hsz]; omega
      simp [this]

end loops

/-- prefix sums: cells `≤ r` already hold `#(key < s)`, cells above still hold `#(key + 1 = s)` -/
theorem cumLoop_spec (k : α → Nat) (seg : List α) (R : Nat) :
    ∀ (f : Nat) (r : Nat) (count : Array Int), r ≤ R → R - r < f →
      Rep count R (fun s => if s ≤ r then (cntLt k seg s : Int) else ((seg.countP (fun x => k x + 1 == s) : Nat) : Int)) →
      ∃ count', cumLoop (R : Int) f (r : Int) count = .ok count' ∧ Rep count' R (fun s => (cntLt k seg s : Int)) := by
  intro f
  induction f with
  | zero => intro r _ _ hf; omega
  | succ f ih =>
    intro r count hr hf hrep
    unfold cumLoop
    by_cases hlt : r < R
    · have c1 : (r : Int) < (R : Int) := by omega
      simp only [c1, ↓reduceIte]
      have e : ((r : Int) + 1) = ((r + 1 : Nat) : Int) := by omega
      rw [e, hrep.get (by omega : r + 1 ≤ R), hrep.get (by omega : r ≤ R)]
      simp only [ok_bind]
      obtain ⟨c1', hs1, hr1⟩ := hrep.set (s := r + 1) (by omega)
        ((if r + 1 ≤ r then (cntLt k seg (r+1) : Int) else ((seg.countP (fun x => k x + 1 == r + 1) : Nat) : Int)) +
          (if r ≤ r then (cntLt k seg r : Int) else ((seg.countP (fun x => k x + 1 == r) : Nat) : Int)))
      rw [hs1]
      simp only [ok_bind]
      apply ih (r+1) c1' (by omega) (by omega)
      apply hr1.congr
      intro s hs
      by_cases hsr : s = r + 1
      · subst hsr
        have h1 : ¬ (r + 1 ≤ r) := by omega
        simp only [↓reduceIte, h1, Nat.le_refl]
        rw [cntLt_succ]
        have : seg.countP (fun x => k x + 1 == r + 1) = cnt k seg r := by
          unfold cnt; congr 1; funext x; simp
        rw [this]; omega
      · simp only [hsr, ↓reduceIte]
        by_cases h2 : s ≤ r
        · have : s ≤ r + 1 := by omega
          simp [h2, this]
        · have : ¬ s ≤ r + 1 := by omega
          simp [h2, this]
    · have c1 : ¬ (r : Int) < (R : Int) := by omega
      simp only [c1, ↓reduceIte]
      refine ⟨count, rfl, hrep.congr ?_⟩
      intro s hs
      have : s ≤ r := by omega
      simp [this]

/-- `for r := from; r < to; r++ { count[r] += delta }` -/
theorem addLoop_spec (R : Nat) (to : Nat) (delta : Int) (hto : to ≤ R + 1) :
    ∀ (f : Nat) (r : Nat) (count : Array Int) (F : Nat → Int), to - r < f → Rep count R F →
      ∃ count', addLoop (to : Int) delta f (r : Int) count = .ok count' ∧
        Rep count' R (fun s => if r ≤ s ∧ s < to then F s + delta else F s) := by
  intro f
  induction f with
  | zero => intro r _ _ hf; omega
  | succ f ih =>
    intro r count F hf hrep
    unfold addLoop
    by_cases hlt : r < to
    · have c1 : (r : Int) < (to : Int) := by omega
      simp only [c1, ↓reduceIte]
      rw [hrep.get (by omega : r ≤ R)]
      simp only [ok_bind]
      obtain ⟨c1', hs1, hr1⟩ := hrep.set (s := r) (by omega) (F r + delta)
      rw [hs1]
      simp only [ok_bind]
      have e : ((r : Int) + 1) = ((r + 1 : Nat) : Int) := by omega
      rw [e]
      obtain ⟨c2, hs2, hr2⟩ := ih (r+1) c1' _ (by omega) hr1
      refine ⟨c2, hs2, hr2.congr ?_⟩
      intro s hs
      by_cases hsr : s = r
      · subst hsr
        have h3 : ¬ (s + 1 ≤ s) := by omega
        simp [h3, hlt]
      · by_cases h2 : r ≤ s ∧ s < to
        · have : r + 1 ≤ s ∧ s < to := by omega
          simp [hsr, h2, this]
        · have : ¬ (r + 1 ≤ s ∧ s < to) := by omega
          simp [hsr, h2, this]
    · have c1 : ¬ (r : Int) < (to : Int) := by omega
      simp only [c1, ↓reduceIte]
      refine ⟨count, rfl, hrep.congr ?_⟩
      intro s hs
      have : ¬ (r ≤ s ∧ s < to) := by omega
      simp [this]

/-! ## start offsets of the buckets in pass order -/

/-- offset (within the segment) at which bucket `r` starts -/
def startPos (k : α → Nat) (R : Nat) (rot : Option Bool) (seg : List α) (r : Nat) : Nat :=
  match rot with
  | none => cntLt k seg r
  | some _ => if r < R / 2 then cntIn k seg (R / 2) R + cntLt k seg r else cntIn k seg (R / 2) r

/-- content of `count[R]` after the prefix sums / rotation -/
def topVal (k : α → Nat) (R : Nat) (rot : Option Bool) (seg : List α) : Int :=
  match rot with
  | some true => ((cntIn k seg (R / 2) R + cntLt k seg 1 : Nat) : Int)
  | _ => (seg.length : Int)

theorem signRotate_spec (k : α → Nat) (seg : List α) (R : Nat) (hR : 0 < R) (heven : R % 2 = 0)
    (hall : ∀ x, x ∈ seg → k x < R) (setTop : Bool) (count : Array Int)
    (hrep : Rep count R (fun s => (cntLt k seg s : Int))) :
    ∃ count', signRotate (R : Int) setTop count = .ok count' ∧
      Rep count' R (fun s => if s < R then (startPos k R (some setTop) seg s : Int) else topVal k R (some setTop) seg) := by
  unfold signRotate
  have eH : ((R : Int) / 2) = ((R / 2 : Nat) : Int) := by omega
  rw [eH, hrep.get (Nat.le_refl R), hrep.get (by omega : R / 2 ≤ R)]
  simp only [ok_bind]
  have hn : cntLt k seg R = seg.length := cntLt_all k seg R hall
  have hsplit := cntLt_add_cntIn k seg (R / 2) R (by omega)
  -- optional write of count[R]
  have hstep1 : ∃ c1, (if setTop = true then do
        let c1 ← get count 1
        set count (R : Int) ((cntLt k seg R : Int) - (cntLt k seg (R / 2) : Int) + c1)
      else Outcome.ok count : Outcome (Array Int)) = .ok c1 ∧
      Rep c1 R (fun s => if s < R then (cntLt k seg s : Int) else topVal k R (some setTop) seg) := by
    cases setTop with
    | true =>
      simp only [↓reduceIte]
      have e1 : (1 : Int) = ((1 : Nat) : Int) := rfl
      rw [e1, hrep.get (by omega : 1 ≤ R)]
      simp only [ok_bind]
      obtain ⟨c1, hs, hr⟩ := hrep.set (s := R) (Nat.le_refl R)
        ((cntLt k seg R : Int) - (cntLt k seg (R / 2) : Int) + (cntLt k seg 1 : Int))
      refine ⟨c1, hs, hr.congr ?_⟩
      intro s hs
      by_cases hsR : s = R
      · subst hsR
        simp [topVal]
        omega
      · have : s < R := by omega
        simp [hsR, this]
    | false =>
      simp only [Bool.false_eq_true, ↓reduceIte]
      refine ⟨count, rfl, hrep.congr ?_⟩
      intro s hs
      by_cases hsR : s < R
      · simp [hsR]
      · have : s = R := by omega
        subst this
        simp [topVal, hn]
  obtain ⟨c1, hc1, hr1⟩ := hstep1
  rw [hc1]
  simp only [ok_bind]
  have e0 : (0 : Int) = ((0 : Nat) : Int) := rfl
  obtain ⟨c2, hc2, hr2⟩ := addLoop_spec R (R / 2) ((cntLt k seg R : Int) - (cntLt k seg (R / 2) : Int)) (by omega)
    ((R : Int).toNat + 1) 0 c1 _ (by omega) hr1
  rw [e0, hc2]
  simp only [ok_bind]
  obtain ⟨c3, hc3, hr3⟩ := addLoop_spec R R (-(cntLt k seg (R / 2) : Int)) (by omega)
    ((R : Int).toNat + 1) (R / 2) c2 _ (by omega) hr2
  refine ⟨c3, hc3, hr3.congr ?_⟩
  intro s hs
  have hsp := cntLt_add_cntIn k seg (R / 2) s
  by_cases h1 : s < R / 2
  · have h2 : ¬ (R / 2 ≤ s) := by omega
    have h4 : s < R := by omega
    simp [h2, h4, startPos, h1]
    omega
  · by_cases h2 : s < R
    · have h3 : R / 2 ≤ s := by omega
      simp [h3, h2, startPos, h1]
      have := hsp h3
      omega
    · have h3 : ¬ (s < R / 2) := h1
      simp [h2, h1]

/-! ## distribution -/

/-- state of the distribution loop after `t` elements of the segment -/
structure DistInv (k : α → Nat) (R : Nat) (S : Nat → Nat) (T : Int) (seg : List α) (t : Nat)
    (count : Array Int) (aux : Array α) : Prop where
  rep : Rep count R (fun r => if r < R then ((S r + cnt k (seg.take t) r : Nat) : Int) else T)
  placed : ∀ r, r < R → ∀ u, u < cnt k (seg.take t) r → aux[S r + u]? = (bucket k seg r)[u]?

theorem distLoop_spec (key : α → Outcome Int) (k : α → Nat) (R : Nat) (a : Array α) (lo n : Nat)
    (hsz : lo + n ≤ a.size)
    (hkey : ∀ i, lo ≤ i → (h : i < lo + n) → key (a[i]'(by omega)) = .ok ((k (a[i]'(by omega)) : Nat) : Int) ∧ k (a[i]'(by omega)) < R)
    (S : Nat → Nat) (T : Int) (asz : Nat) (hasz : n ≤ asz)
    (hD1 : ∀ r, r < R → S r + cnt k (segL a lo (lo+n)) r ≤ n)
    (hD2 : ∀ r r', r < R → r' < R → r ≠ r' →
      S r + cnt k (segL a lo (lo+n)) r ≤ S r' ∨ S r' + cnt k (segL a lo (lo+n)) r' ≤ S r) :
    ∀ (f : Nat) (t : Nat) (count : Array Int) (aux : Array α), t ≤ n → n - t < f → aux.size = asz →
      DistInv k R S T (segL a lo (lo+n)) t count aux →
      ∃ count' aux', distLoop key a (((lo + n : Nat) : Int) - 1) f ((lo + t : Nat) : Int) count aux = .ok (count', aux') ∧
        aux'.size = asz ∧ DistInv k R S T (segL a lo (lo+n)) n count' aux' := by
  intro f
  induction f with
  | zero => intro t _ _ _ hf; omega
  | succ f ih =>
    intro t count aux ht hf haux inv
    unfold distLoop
    by_cases hlt : t < n
    · have c1 : ((lo + t : Nat) : Int) ≤ ((lo + n : Nat) : Int) - 1 := by omega
      simp only [c1, ↓reduceIte]
      rw [get_nat (by omega : lo + t < a.size)]
      simp only [ok_bind]
      obtain ⟨hk1, hk2⟩ := hkey (lo + t) (by omega) (by omega)
      rw [hk1]
      simp only [ok_bind]
      have hseglen : (segL a lo (lo+n)).length = n := by rw [segL_length a _ _ hsz]; omega
      have htl : t < (segL a lo (lo+n)).length := by omega
      have hx : (segL a lo (lo+n))[t] = a[lo + t] := segL_getElem a lo (lo+n) t hsz htl
      have hrg := inv.rep.get (s := k a[lo+t]) (by omega)
      simp only [hk2, ↓reduceIte] at hrg
      rw [hrg]
      simp only [ok_bind]
      have hm := cnt_take_lt k (segL a lo (lo+n)) t htl
      rw [hx] at hm
      have hd1 := hD1 (k a[lo+t]) hk2
      rw [set_ok (by omega) (by omega)]
      simp only [ok_bind, Int.toNat_natCast]
      obtain ⟨c1', hs1, hr1⟩ := inv.rep.set (s := k a[lo+t]) (by omega)
        (((S (k a[lo+t]) + cnt k ((segL a lo (lo+n)).take t) (k a[lo+t]) : Nat) : Int) + 1)
      rw [hs1]
      simp only [ok_bind]
      have e2 : (((lo + t : Nat) : Int) + 1) = ((lo + (t + 1) : Nat) : Int) := by omega
      rw [e2]
      apply ih (t+1) c1' _ (by omega) (by omega) (by simp [haux])
      constructor
      · apply hr1.congr
        intro s hs
        rw [cnt_take_succ k _ t htl s, hx]
        by_cases hsk : s = k a[lo+t]
        · simp [hsk, hk2]; omega
        · have h' : ¬ (k a[lo+t] = s) := fun h => hsk h.symm
          simp [hsk, h']
      · intro r hr u hu
        rw [cnt_take_succ k _ t htl r, hx] at hu
        rw [Array.getElem?_set]
        by_cases hpos : S (k a[lo+t]) + cnt k ((segL a lo (lo+n)).take t) (k a[lo+t]) = S r + u
        · -- the cell just written
          have hrc : r = k a[lo+t] := by
            apply Classical.byContradiction
            intro hne
            have := hD2 r (k a[lo+t]) hr hk2 hne
            have hle := cnt_take_le k (segL a lo (lo+n)) t r
            split at hu <;> omega
          have hum : u = cnt k ((segL a lo (lo+n)).take t) (k a[lo+t]) := by
            rw [hrc] at hpos; omega
          have hb := bucket_getElem_of_pos k (segL a lo (lo+n)) t htl
          rw [hx] at hb
          simp only [hpos, ↓reduceIte]
          rw [hrc, hum, hb]
        · simp only [hpos, ↓reduceIte]
          apply inv.placed r hr u
          by_cases hrc : k a[lo+t] = r
          · rw [if_pos hrc] at hu
            rw [hrc] at hpos
            omega
          · rw [if_neg hrc] at hu
            omega
    · have c1 : ¬ ((lo + t : Nat) : Int) ≤ ((lo + n : Nat) : Int) - 1 := by omega
      simp only [c1, ↓reduceIte]
      have : t = n := by omega
      subst this
      exact ⟨count, aux, rfl, haux, inv⟩

/-! ## copy back -/

theorem copyBack_spec (aux : Array α) (lo n : Nat) (asz : Nat) (hsz : lo + n ≤ asz) (haux : n ≤ aux.size) :
    ∀ (f : Nat) (t : Nat) (a1 : Array α), t ≤ n → n - t < f → a1.size = asz →
      ∃ a', copyBack aux (lo : Int) (((lo + n : Nat) : Int) - 1) f ((lo + t : Nat) : Int) a1 = .ok a' ∧
        a'.size = asz ∧
        ∀ p, a'[p]? = if lo + t ≤ p ∧ p < lo + n then aux[p - lo]? else a1[p]? := by
  intro f
  induction f with
  | zero => intro t _ _ hf; omega
  | succ f ih =>
    intro t a1 ht hf ha1
    unfold copyBack
    by_cases hlt : t < n
    · have c1 : ((lo + t : Nat) : Int) ≤ ((lo + n : Nat) : Int) - 1 := by omega
      simp only [c1, ↓reduceIte]
      have e1 : (((lo + t : Nat) : Int) - (lo : Int)) = ((t : Nat) : Int) := by omega
      rw [e1, get_nat (by omega : t < aux.size)]
      simp only [ok_bind]
      rw [set_ok (by omega) (by omega)]
      simp only [ok_bind, Int.toNat_natCast]
      have e2 : (((lo + t : Nat) : Int) + 1) = ((lo + (t + 1) : Nat) : Int) := by omega
      rw [e2]
      obtain ⟨a', h1, h2, h3⟩ := ih (t+1) (a1.set (lo + t) aux[t] (by omega)) (by omega) (by omega) (by simp [ha1])
      refine ⟨a', h1, h2, ?_⟩
      intro p
      rw [h3 p, Array.getElem?_set]
      by_cases hp : lo + t = p
      · subst hp
        have h6 : lo + t < a1.size := by omega
        have h7 : lo + t - lo = t := by omega
        have h8 : t < aux.size := by omega
        simp [h7, h8, hlt]
      · by_cases h8 : lo + (t + 1) ≤ p ∧ p < lo + n
        · have h9 : lo + t ≤ p ∧ p < lo + n := by omega
          simp only [h8, h9, ↓reduceIte, and_self]
        · have h9 : ¬ (lo + t ≤ p ∧ p < lo + n) := by omega
          simp only [h8, h9, hp, ↓reduceIte]
    · have c1 : ¬ ((lo + t : Nat) : Int) ≤ ((lo + n : Nat) : Int) - 1 := by omega
      simp only [c1, ↓reduceIte]
      refine ⟨a1, rfl, ha1, ?_⟩
      intro p
      have : ¬ (lo + t ≤ p ∧ p < lo + n) := by omega
      simp only [this, ↓reduceIte]

/-! ## the buckets are laid out at `startPos` in pass order -/

theorem chain_congr (S S' : Nat → Nat) (len : Nat → Nat) : ∀ (ord : List Nat) (s0 : Nat),
    (∀ r, r ∈ ord → S r = S' r) → Chain S len s0 ord → Chain S' len s0 ord := by
  intro ord
  induction ord with
  | nil => intro _ _ _; trivial
  | cons r rest ih =>
    intro s0 h hc
    exact ⟨by rw [← h r List.mem_cons_self]; exact hc.1,
      ih _ (fun r' hr' => h r' (List.mem_cons_of_mem _ hr')) hc.2⟩

theorem chain_range'_lt (k : α → Nat) (seg : List α) (c : Nat) : ∀ (m r0 : Nat),
    Chain (fun r => c + cntLt k seg r) (cnt k seg) (c + cntLt k seg r0) (List.range' r0 m) := by
  intro m
  induction m with
  | zero => intro r0; trivial
  | succ m ih =>
    intro r0
    rw [List.range'_succ]
    refine ⟨rfl, ?_⟩
    have := ih (r0 + 1)
    rw [cntLt_succ] at this
    rwa [Nat.add_assoc]

theorem total_range'_lt (k : α → Nat) (seg : List α) : ∀ (m r0 : Nat),
    cntLt k seg r0 + total (cnt k seg) (List.range' r0 m) = cntLt k seg (r0 + m) := by
  intro m
  induction m with
  | zero => intro r0; simp [total]
  | succ m ih =>
    intro r0
    rw [List.range'_succ]
    have := ih (r0 + 1)
    rw [cntLt_succ] at this
    simp only [total, List.map_cons, List.sum_cons] at this ⊢
    have e : r0 + (m + 1) = r0 + 1 + m := by omega
    rw [e]; omega

theorem chain_range'_in (k : α → Nat) (seg : List α) (h : Nat) : ∀ (m r0 : Nat), h ≤ r0 →
    Chain (fun r => cntIn k seg h r) (cnt k seg) (cntIn k seg h r0) (List.range' r0 m) := by
  intro m
  induction m with
  | zero => intro r0 _; trivial
  | succ m ih =>
    intro r0 hr0
    rw [List.range'_succ]
    refine ⟨rfl, ?_⟩
    have := ih (r0 + 1) (by omega)
    rwa [cntIn_succ k seg h r0 hr0] at this

theorem total_range'_in (k : α → Nat) (seg : List α) (h : Nat) : ∀ (m r0 : Nat), h ≤ r0 →
    cntIn k seg h r0 + total (cnt k seg) (List.range' r0 m) = cntIn k seg h (r0 + m) := by
  intro m
  induction m with
  | zero => intro r0 _; simp [total]
  | succ m ih =>
    intro r0 hr0
    rw [List.range'_succ]
    have := ih (r0 + 1) (by omega)
    rw [cntIn_succ k seg h r0 hr0] at this
    simp only [total, List.map_cons, List.sum_cons] at this ⊢
    have e : r0 + (m + 1) = r0 + 1 + m := by omega
    rw [e]; omega

theorem total_append (len : Nat → Nat) (l1 l2 : List Nat) : total len (l1 ++ l2) = total len l1 + total len l2 := by
  simp [total]

/-- layout facts of one pass -/
theorem layout (k : α → Nat) (seg : List α) (R : Nat) (rot : Option Bool) (hR : 0 < R)
    (heven : rot.isSome → R % 2 = 0) (hall : ∀ x, x ∈ seg → k x < R) :
    Chain (startPos k R rot seg) (cnt k seg) 0 (bucketOrder R rot) ∧ (bucketOrder R rot).Nodup ∧
    (∀ r, r ∈ bucketOrder R rot ↔ r < R) ∧ total (cnt k seg) (bucketOrder R rot) = seg.length := by
  have hn : cntLt k seg R = seg.length := cntLt_all k seg R hall
  cases rot with
  | none =>
    simp only [bucketOrder, List.range_eq_range']
    refine ⟨?_, List.nodup_range' , by intro r; simp, ?_⟩
    · have := chain_range'_lt k seg 0 R 0
      simp only [cntLt_zero, Nat.zero_add] at this
      apply chain_congr _ _ _ _ _ _ this
      intro r _; simp [startPos]
    · have := total_range'_lt k seg R 0
      simp only [cntLt_zero, Nat.zero_add] at this
      omega
  | some b =>
    have he : R % 2 = 0 := heven rfl
    simp only [bucketOrder, List.range_eq_range']
    have hsplit := cntLt_add_cntIn k seg (R / 2) R (by omega)
    have ht1 := total_range'_in k seg (R / 2) (R - R / 2) (R / 2) (Nat.le_refl _)
    rw [cntIn_self] at ht1
    have e1 : R / 2 + (R - R / 2) = R := by omega
    rw [e1] at ht1
    have ht2 := total_range'_lt k seg (R / 2) 0
    simp only [cntLt_zero, Nat.zero_add] at ht2
    refine ⟨?_, ?_, ?_, ?_⟩
    · rw [chain_append]
      constructor
      · have := chain_range'_in k seg (R / 2) (R - R / 2) (R / 2) (Nat.le_refl _)
        rw [cntIn_self] at this
        apply chain_congr _ _ _ _ _ _ this
        intro r hr
        have : R / 2 ≤ r := by simp at hr; omega
        have : ¬ r < R / 2 := by omega
        simp [startPos, this]
      · have := chain_range'_lt k seg (cntIn k seg (R / 2) R) (R / 2) 0
        simp only [cntLt_zero, Nat.add_zero] at this
        have e2 : 0 + total (cnt k seg) (List.range' (R / 2) (R - R / 2)) = cntIn k seg (R / 2) R := by omega
        rw [e2]
        apply chain_congr _ _ _ _ _ _ this
        intro r hr
        have : r < R / 2 := by simp at hr; omega
        simp [startPos, this]
    · rw [List.nodup_append]
      refine ⟨List.nodup_range', List.nodup_range', ?_⟩
      intro x hx y hy
      simp at hx hy
      omega
    · intro r
      simp
      omega
    · rw [total_append]; omega

theorem mem_segL {a : Array α} {i j : Nat} (hj : j ≤ a.size) {x : α} (hx : x ∈ segL a i j) :
    ∃ t, ∃ (h : i + t < j), x = a[i + t]'(by omega) := by
  obtain ⟨t, ht, rfl⟩ := List.mem_iff_getElem.1 hx
  have hlen := segL_length a i j hj
  exact ⟨t, by omega, segL_getElem a i j t hj ht⟩

/-! ## the final content of `count` -/

theorem countAfter_eq (k : α → Nat) (seg : List α) (R : Nat) (rot : Option Bool) (hR : 0 < R)
    (heven : rot.isSome → R % 2 = 0) (hall : ∀ x, x ∈ seg → k x < R) (r : Nat) (hr : r ≤ R) :
    (if r < R then ((startPos k R rot seg r + cnt k seg r : Nat) : Int) else topVal k R rot seg) =
      countAfter k R rot seg r := by
  have hle : ∀ q, seg.countP (fun x => decide (k x ≤ q)) = cntLt k seg (q + 1) := by
    intro q; unfold cntLt; apply List.countP_congr; intro x _; simp; omega
  have hge : seg.countP (fun x => decide (R / 2 ≤ k x)) = cntIn k seg (R / 2) R := by
    unfold cntIn; apply List.countP_congr; intro x hx; have := hall x hx; simp; omega
  have hn : cntLt k seg R = seg.length := cntLt_all k seg R hall
  cases rot with
  | none =>
    simp only [countAfter, startPos, topVal]
    by_cases h1 : r < R
    · simp only [h1, ↓reduceIte, hle, cntLt_succ]
    · have : r = R := by omega
      subst this
      simp only [h1, ↓reduceIte, hle]
      have : cntLt k seg (r + 1) = seg.length := cntLt_all k seg (r+1) (fun x hx => by have := hall x hx; omega)
      rw [this]
  | some b =>
    have he : R % 2 = 0 := heven rfl
    simp only [countAfter, startPos, topVal]
    by_cases h1 : r < R / 2
    · have h2 : r < R := by omega
      simp only [h1, h2, ↓reduceIte, hle, hge, cntLt_succ]
      omega
    · by_cases h2 : r < R
      · simp only [h1, h2, ↓reduceIte]
        have : seg.countP (fun x => decide (R / 2 ≤ k x ∧ k x ≤ r)) = cntIn k seg (R / 2) (r + 1) := by
          unfold cntIn; apply List.countP_congr; intro x _; simp; omega
        rw [this, cntIn_succ k seg (R / 2) r (by omega)]
      · have : r = R := by omega
        subst this
        simp only [h1, h2, ↓reduceIte]
        cases b with
        | true =>
          simp only [↓reduceIte, hge]
          have : seg.countP (fun x => decide (k x = 0)) = cntLt k seg 1 := by
            unfold cntLt; apply List.countP_congr; intro x _; simp
          rw [this]
        | false => simp

theorem htake_eq (k : α → Nat) (a : Array α) (lo n : Nat) (hsz : lo + n ≤ a.size) (R : Nat) (S : Nat → Nat) (T : Int) :
    (fun r => if r < R then ((S r + cnt k ((segL a lo (lo+n)).take n) r : Nat) : Int) else T) =
    (fun r => if r < R then ((S r + cnt k (segL a lo (lo+n)) r : Nat) : Int) else T) := by
  have : (segL a lo (lo+n)).take n = segL a lo (lo+n) := by
    rw [List.take_of_length_le]; rw [segL_length a _ _ hsz]; omega
  rw [this]

/-! ## the pass -/

theorem countingPass_spec : CountingPassSpec := by
  intro α key k R rot a aux lo n hR heven hsz haux hkey
  have hseg : (a.extract lo (lo + n)).toList = segL a lo (lo+n) := rfl
  rw [hseg]
  have hseglen : (segL a lo (lo+n)).length = n := by rw [segL_length a _ _ hsz]; omega
  have hall : ∀ x, x ∈ segL a lo (lo+n) → k x < R := by
    intro x hx
    obtain ⟨t, ht, rfl⟩ := mem_segL hsz hx
    exact (hkey (lo + t) (by omega) ht).2
  obtain ⟨hchain, hnodup, hmem, htotal⟩ := layout k (segL a lo (lo+n)) R rot hR heven hall
  rw [hseglen] at htotal
  unfold countingPass
  simp only []
  -- frequency counts
  obtain ⟨c1, hc1, hr1⟩ := freqLoop_spec key k R a lo n hsz hkey (a.size + 1) lo _ (fun _ => 0)
    (Nat.le_refl _) (by omega) (by omega) (rep_replicate R)
  rw [hc1]
  simp only [ok_bind]
  -- prefix sums
  have e0 : (0 : Int) = ((0 : Nat) : Int) := rfl
  obtain ⟨c2, hc2, hr2⟩ := cumLoop_spec k (segL a lo (lo+n)) R ((R : Int).toNat + 1) 0 c1 (Nat.zero_le _) (by omega)
    (hr1.congr (by
      intro s hs
      by_cases h0 : s = 0
      · subst h0
        have : (segL a lo (lo+n)).countP (fun x => k x + 1 == 0) = 0 := by
          rw [List.countP_eq_zero]; intro x _; simp
        simp [cntLt_zero]
      · have : ¬ s ≤ 0 := by omega
        simp [this]))
  rw [e0, hc2]
  simp only [ok_bind]
  -- everything after the (optional) rotation
  suffices tail : ∀ c3, Rep c3 R (fun s => if s < R then (startPos k R rot (segL a lo (lo+n)) s : Int) else topVal k R rot (segL a lo (lo+n))) →
      ∃ a' aux' count',
        (do
          let r ← distLoop key a (((lo + n : Nat) : Int) - 1) (a.size + 1) (lo : Int) c3 aux
          let a2 ← copyBack r.2 (lo : Int) (((lo + n : Nat) : Int) - 1) (a.size + 1) (lo : Int) a
          Outcome.ok (a2, r.2, r.1) : Outcome (Array α × Array α × Array Int)) = .ok (a', aux', count') ∧
        a'.size = a.size ∧ aux'.size = aux.size ∧ count'.size = R + 1 ∧
        (∀ i, (i < lo ∨ lo + n ≤ i) → a'[i]? = a[i]?) ∧
        (a'.extract lo (lo + n)).toList = bucketConcat k (bucketOrder R rot) (segL a lo (lo+n)) ∧
        (∀ r, r ≤ R → count'[r]? = some (countAfter k R rot (segL a lo (lo+n)) r)) by
    cases rot with
    | none =>
      simp only [ok_bind]
      apply tail c2
      apply hr2.congr
      intro s hs
      by_cases h1 : s < R
      · simp [h1, startPos]
      · have : s = R := by omega
        subst this
        simp [h1, topVal, cntLt_all k _ s hall]
    | some b =>
      obtain ⟨c3, hc3, hr3⟩ := signRotate_spec k _ R hR (heven rfl) hall b c2 hr2
      simp only [hc3, ok_bind]
      exact tail c3 hr3
  intro c3 hr3
  -- distribution
  have hD1 : ∀ r, r < R → startPos k R rot (segL a lo (lo+n)) r + cnt k (segL a lo (lo+n)) r ≤ n := by
    intro r hr
    have := (chain_bounds _ _ _ _ hchain r ((hmem r).2 hr)).2
    omega
  have hD2 : ∀ r r', r < R → r' < R → r ≠ r' →
      startPos k R rot (segL a lo (lo+n)) r + cnt k (segL a lo (lo+n)) r ≤ startPos k R rot (segL a lo (lo+n)) r' ∨
      startPos k R rot (segL a lo (lo+n)) r' + cnt k (segL a lo (lo+n)) r' ≤ startPos k R rot (segL a lo (lo+n)) r :=
    fun r r' hr hr' hne => chain_disjoint _ _ _ _ hchain hnodup r r' ((hmem r).2 hr) ((hmem r').2 hr') hne
  have inv0 : DistInv k R (startPos k R rot (segL a lo (lo+n))) (topVal k R rot (segL a lo (lo+n)))
      (segL a lo (lo+n)) 0 c3 aux := by
    constructor
    · apply hr3.congr
      intro s hs
      simp [cnt]
    · intro r hr u hu
      simp [cnt] at hu
  have elo : (lo : Int) = ((lo + 0 : Nat) : Int) := by omega
  obtain ⟨c4, aux', hd, hauxsz, inv⟩ := distLoop_spec key k R a lo n hsz hkey _ _ aux.size haux hD1 hD2
    (a.size + 1) 0 c3 aux (Nat.zero_le _) (by omega) rfl inv0
  rw [elo, hd]
  simp only [ok_bind]
  -- copy back
  obtain ⟨a', hcb, ha'sz, ha'⟩ := copyBack_spec aux' lo n a.size hsz (by omega) (a.size + 1) 0 a
    (Nat.zero_le _) (by omega) rfl
  have elo2 : ((lo + 0 : Nat) : Int) = (lo : Int) := by omega
  rw [elo2] at hcb
  rw [← elo, hcb]
  simp only [ok_bind]
  refine ⟨a', aux', c4, rfl, ha'sz, hauxsz, inv.rep.1, ?_, ?_, ?_⟩
  · intro i hi
    have : ¬ (lo + 0 ≤ i ∧ i < lo + n) := by omega
    rw [ha' i, if_neg this]
  · -- the segment is the bucket concatenation
    have htake : (segL a lo (lo+n)).take n = segL a lo (lo+n) := by
      rw [List.take_of_length_le]; omega
    have hfl := take_eq_flatMap aux'.toList (bucket k (segL a lo (lo+n))) (startPos k R rot (segL a lo (lo+n)))
      (bucketOrder R rot) 0
      (by
        have : (fun r => (bucket k (segL a lo (lo+n)) r).length) = cnt k (segL a lo (lo+n)) := by
          funext r; exact bucket_length _ _ _
        rw [this]; exact hchain)
      (by
        intro r hr u hu
        rw [bucket_length] at hu
        have hp := inv.placed r ((hmem r).1 hr) u (by rw [htake]; exact hu)
        rw [Array.getElem?_toList, hp]
        exact List.getElem?_eq_getElem (by rw [bucket_length]; exact hu))
    have : (fun r => (bucket k (segL a lo (lo+n)) r).length) = cnt k (segL a lo (lo+n)) := by
      funext r; exact bucket_length _ _ _
    rw [this, htotal, List.drop_zero] at hfl
    unfold bucketConcat
    rw [← hfl]
    apply List.ext_getElem?
    intro u
    by_cases hu : u < n
    · have hL : (a'.extract lo (lo + n)).toList[u]? = a'[lo + u]? := by
        rw [Array.getElem?_toList, Array.getElem?_extract, if_pos (by omega)]
      have h1 : lo + 0 ≤ lo + u ∧ lo + u < lo + n := by omega
      have h2 : lo + u - lo = u := by omega
      rw [hL, List.getElem?_take_of_lt hu, Array.getElem?_toList, ha' (lo + u), if_pos h1, h2]
    · rw [List.getElem?_eq_none (by simp; omega), List.getElem?_eq_none (by simp; omega)]
  · intro r hr
    rw [inv.rep.2 r hr, htake_eq k a lo n hsz]
    congr 1
    exact countAfter_eq k _ R rot hR heven hall r hr

end AlgoVerif.C07
