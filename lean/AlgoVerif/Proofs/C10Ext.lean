import AlgoVerif.Model.C10Ext
import AlgoVerif.Proofs.C10Verify
import AlgoVerif.Proofs.C10Term
import AlgoVerif.Proofs.C10LL1
import AlgoVerif.Proofs.C10TableEq
/-!
Helper lemmas for the second part of the C10 / C12 Model (`Model/C10Ext.lean`): `Verify()`'s error list against
`validB`, the analyses on arbitrary grammars against the analyses of the theorems on valid ones, the memo table of
the FIRST closure, the accessors of the parsing table.
-/
namespace AlgoVerif.C10
open AlgoVerif AlgoVerif.Gram

set_option linter.unusedSectionVars false

section
variable {T N : Type} [DecidableEq T] [DecidableEq N]

/-! ## more fuel does not change the answer of a loop that returned -/

theorem firstLoop_mono (g : Grammar T N) (o : IterOrder T N) (k : Nat) :
    ∀ (fuel i : Nat) (st R : N → TE T), firstLoop g o fuel i st = .ok R → firstLoop g o (fuel + k) i st = .ok R := by
  intro fuel
  induction fuel with
  | zero => intro i st R h; simp [firstLoop] at h
  | succ fuel ih =>
    intro i st R h
    rw [Nat.add_right_comm]
    simp only [firstLoop] at h ⊢
    split at h
    · rename_i hc
      rw [if_pos hc]
      exact ih _ _ _ h
    · rename_i hc
      rw [if_neg hc]
      exact h

theorem followLoop_mono (g : Grammar T N) (o : IterOrder T N) (first : List (Sym T N) → TE T) (k : Nat) :
    ∀ (fuel i : Nat) (fo R : N → TEnd T), followLoop g o first fuel i fo = .ok R →
      followLoop g o first (fuel + k) i fo = .ok R := by
  intro fuel
  induction fuel with
  | zero => intro i fo R h; simp [followLoop] at h
  | succ fuel ih =>
    intro i fo R h
    rw [Nat.add_right_comm]
    simp only [followLoop] at h ⊢
    split at h
    · rename_i hc
      rw [if_pos hc]
      exact ih _ _ _ h
    · rename_i hc
      rw [if_neg hc]
      exact h

theorem nullableLoop_mono (g : Grammar T N) (o : IterOrder T N) (k : Nat) :
    ∀ (fuel i : Nat) (nul R : List N), nullableLoop g o fuel i nul = .ok R →
      nullableLoop g o (fuel + k) i nul = .ok R := by
  intro fuel
  induction fuel with
  | zero => intro i nul R h; simp [nullableLoop] at h
  | succ fuel ih =>
    intro i nul R h
    rw [Nat.add_right_comm]
    simp only [nullableLoop] at h ⊢
    split at h
    · rename_i hc
      rw [if_pos hc]
      exact ih _ _ _ h
    · rename_i hc
      rw [if_neg hc]
      exact h

/-! ## no nil dereference on a grammar that passes `Verify()` -/

theorem reachesUndeclared_false (g : Grammar T N) (fi : N → TE T) :
    ∀ body : List (Sym T N), (∀ s, s ∈ body → symDeclared g s = true) → reachesUndeclared g fi body = false := by
  intro body
  induction body with
  | nil => intro _; rfl
  | cons s rest ih =>
    intro h
    have hs := h s (List.mem_cons_self ..)
    have hr := ih (fun x hx => h x (List.mem_cons_of_mem _ hx))
    simp only [reachesUndeclared, hs, if_true, hr]
    split <;> rfl

theorem followBodyPanicB_false (g : Grammar T N) (fi : N → TE T) :
    ∀ body : List (Sym T N), (∀ s, s ∈ body → symDeclared g s = true) → followBodyPanicB g fi body = false := by
  intro body
  induction body with
  | nil => intro _; rfl
  | cons s rest ih =>
    intro h
    have hs := h s (List.mem_cons_self ..)
    have hrest : ∀ x, x ∈ rest → symDeclared g x = true := fun x hx => h x (List.mem_cons_of_mem _ hx)
    cases s with
    | term t => simpa [followBodyPanicB] using ih hrest
    | nonterm B =>
      have hB : B ∈ g.nonterms := by simpa [symDeclared] using hs
      simp [followBodyPanicB, reachesUndeclared_false g fi rest hrest, hB, ih hrest]

theorem firstPanicB_false {g : Grammar T N} (hv : validB g = true) (fi : N → TE T) : firstPanicB g fi = false := by
  unfold firstPanicB
  rw [List.any_eq_false]
  intro p hp
  have := valid_prod hv hp
  simp [this.1, reachesUndeclared_false g fi p.body this.2]

theorem followPanicB_false {g : Grammar T N} (hv : validB g = true) (fi : N → TE T) : followPanicB g fi = false := by
  unfold followPanicB
  have hs := valid_start hv
  simp only [hs, decide_true, Bool.not_true, Bool.false_or]
  rw [List.any_eq_false]
  intro p hp
  simp [followBodyPanicB_false g fi p.body (valid_prod hv hp).2]

theorem fixFuelP_eq (g : Grammar T N) : ∃ k, fixFuelP g = fixFuel g + k := ⟨_, rfl⟩

/-- on a grammar that passes `Verify()` the analyses "on any grammar" are the analyses of the theorems -/
theorem analyseP_eq_analyse {g : Grammar T N} (hv : validB g = true) {o₁ o₂ : IterOrder T N}
    (h₁ : o₁.Fair) (h₂ : o₂.Fair) : analyseP g o₁ o₂ = analyse g o₁ o₂ := by
  obtain ⟨fi, hfi⟩ := computeFirst_terminates hv h₁
  have hinv := computeFirst_inv hv h₁ hfi
  obtain ⟨fo, hfo⟩ := computeFollow_terminates hv h₂ (first := firstStr fi) (firstStr_declared hinv)
  obtain ⟨k, hk⟩ := fixFuelP_eq g
  have h1 : firstLoop g o₁ (fixFuelP g) 0 (fun _ => ⟨[], false⟩) = .ok fi := by
    rw [hk]; exact firstLoop_mono g o₁ k _ _ _ _ hfi
  have h2 : followLoop g o₂ (firstStr fi) (fixFuelP g) 0 (followInit g) = .ok fo := by
    rw [hk]; exact followLoop_mono g o₂ _ k _ _ _ _ hfo
  simp [analyseP, computeFirstP, computeFollowP, analyse, h1, h2, hfi, hfo, firstPanicB_false hv, followPanicB_false hv]

theorem nullableP_eq_nullable {g : Grammar T N} (hv : validB g = true) {o : IterOrder T N} (ho : o.Fair) :
    nullableP g o = nullable g o := by
  obtain ⟨R, hR⟩ := nullable_terminates hv ho
  obtain ⟨k, hk⟩ := fixFuelP_eq g
  rw [hR]
  unfold nullableP
  rw [hk]
  exact nullableLoop_mono g o k _ _ _ _ hR

/-! ## the memo table of the FIRST closure -/

/-- every stored value is the value of the string it is stored for -/
def MemoGood (fi : N → TE T) (memo : FirstMemo T N) : Prop :=
  ∀ s r, (s, r) ∈ memo → r = firstStr fi s

theorem lookup_mem {α β : Type} [BEq α] [LawfulBEq α] (k : α) (v : β) :
    ∀ l : List (α × β), l.lookup k = some v → (k, v) ∈ l := by
  intro l
  induction l with
  | nil => intro h; simp [List.lookup] at h
  | cons x rest ih =>
    intro h
    obtain ⟨a, b⟩ := x
    simp only [List.lookup] at h
    cases hk : k == a with
    | true =>
      rw [hk] at h
      have hka : k = a := by simpa using hk
      subst hka
      simp only [Option.some.injEq] at h
      subst h
      exact List.mem_cons_self ..
    | false =>
      rw [hk] at h
      exact List.mem_cons_of_mem _ (ih h)

theorem firstWalk_declared (g : Grammar T N) (st : N → TE T) :
    ∀ (s : List (Sym T N)) (acc : List T), (∀ X, X ∈ s → symDeclared g X = true) →
      firstWalk g st s acc = (firstStrAux st s acc, false) := by
  intro s
  induction s with
  | nil => intro acc _; rfl
  | cons X rest ih =>
    intro acc h
    have hX := h X (List.mem_cons_self ..)
    simp only [firstWalk, firstStrAux, hX, if_true]
    split
    · exact ih _ (fun Y hY => h Y (List.mem_cons_of_mem _ hY))
    · rfl

/-- a call with declared symbols on a good memo table returns FIRST of the string and keeps the table good -/
theorem firstCall_good (g : Grammar T N) (fi : N → TE T) (memo : FirstMemo T N) (s : List (Sym T N))
    (hm : MemoGood fi memo) (hs : ∀ X, X ∈ s → symDeclared g X = true) :
    (firstCall g fi memo s).1 = .ok (firstStr fi s) ∧ MemoGood fi (firstCall g fi memo s).2 := by
  unfold firstCall
  cases hl : memo.lookup s with
  | some r =>
    have := hm s r (lookup_mem s r memo hl)
    subst this
    exact ⟨rfl, hm⟩
  | none =>
    simp only [firstWalk_declared g fi s [] hs, Bool.false_eq_true, if_false]
    refine ⟨rfl, ?_⟩
    intro s' r' hmem
    rcases List.mem_append.1 hmem with h | h
    · exact hm s' r' h
    · simp only [List.mem_singleton, Prod.mk.injEq] at h
      obtain ⟨rfl, rfl⟩ := h
      rfl

/-! ## any history of calls of one closure

`MemoGood` asks every stored value to be right; a call that panics on an undeclared symbol stores a partial value, so
after such a call only the weaker `MemoGoodD` holds: the values stored for strings of DECLARED symbols are right.  That
is an invariant of every call, and it is all a call with a string of declared symbols needs. -/

/-- every value stored for a string of declared symbols is the value of that string -/
def MemoGoodD (g : Grammar T N) (fi : N → TE T) (memo : FirstMemo T N) : Prop :=
  ∀ s r, (s, r) ∈ memo → (∀ X, X ∈ s → symDeclared g X = true) → r = firstStr fi s

theorem MemoGood.toD {g : Grammar T N} {fi : N → TE T} {memo : FirstMemo T N} (h : MemoGood fi memo) :
    MemoGoodD g fi memo := fun s r hm _ => h s r hm

/-- ANY call keeps `MemoGoodD`; a call with declared symbols returns FIRST of the string -/
theorem firstCall_goodD (g : Grammar T N) (fi : N → TE T) (memo : FirstMemo T N) (s : List (Sym T N))
    (hm : MemoGoodD g fi memo) :
    MemoGoodD g fi (firstCall g fi memo s).2 ∧
    ((∀ X, X ∈ s → symDeclared g X = true) → (firstCall g fi memo s).1 = .ok (firstStr fi s)) := by
  unfold firstCall
  cases hl : memo.lookup s with
  | some r =>
    refine ⟨hm, fun hs => ?_⟩
    have := hm s r (lookup_mem s r memo hl) hs
    subst this
    rfl
  | none =>
    refine ⟨?_, fun hs => ?_⟩
    · intro s' r' hmem hs'
      rcases List.mem_append.1 hmem with h | h
      · exact hm s' r' h hs'
      · simp only [List.mem_singleton, Prod.mk.injEq] at h
        obtain ⟨rfl, rfl⟩ := h
        simp only [firstWalk_declared g fi s' [] hs']
        rfl
    · simp only [firstWalk_declared g fi s [] hs, Bool.false_eq_true, if_false]
      rfl

theorem firstCalls_length (g : Grammar T N) (fi : N → TE T) :
    ∀ (qs : List (List (Sym T N))) (memo : FirstMemo T N), (firstCalls g fi memo qs).1.length = qs.length := by
  intro qs
  induction qs with
  | nil => intro memo; rfl
  | cons s rest ih => intro memo; simp only [firstCalls, List.length_cons, ih]

/-- in any history every call with a string of declared symbols is answered with FIRST of that string, whatever
was asked before it (strings that are declared or not, calls that panicked and left partial values) -/
theorem firstCalls_good (g : Grammar T N) (fi : N → TE T) :
    ∀ (qs : List (List (Sym T N))) (memo : FirstMemo T N), MemoGoodD g fi memo →
      MemoGoodD g fi (firstCalls g fi memo qs).2 ∧
      ∀ p, p ∈ qs.zip (firstCalls g fi memo qs).1 → (∀ X, X ∈ p.1 → symDeclared g X = true) →
        p.2 = .ok (firstStr fi p.1) := by
  intro qs
  induction qs with
  | nil => intro memo hm; exact ⟨hm, fun p hp => by simp [firstCalls] at hp⟩
  | cons s rest ih =>
    intro memo hm
    have h1 := firstCall_goodD g fi memo s hm
    have h2 := ih (firstCall g fi memo s).2 h1.1
    refine ⟨h2.1, ?_⟩
    intro p hp hd
    simp only [firstCalls, List.zip_cons_cons, List.mem_cons] at hp
    rcases hp with rfl | hp
    · exact h1.2 hd
    · exact h2.2 p hp hd

/-- a history of strings of declared symbols only: the answers are FIRST of the strings, one by one -/
theorem firstCalls_declared (g : Grammar T N) (fi : N → TE T) :
    ∀ (qs : List (List (Sym T N))) (memo : FirstMemo T N), MemoGoodD g fi memo →
      (∀ s, s ∈ qs → ∀ X, X ∈ s → symDeclared g X = true) →
      (firstCalls g fi memo qs).1 = qs.map (fun s => .ok (firstStr fi s)) := by
  intro qs
  induction qs with
  | nil => intro memo _ _; rfl
  | cons s rest ih =>
    intro memo hm hd
    have h1 := firstCall_goodD g fi memo s hm
    simp only [firstCalls, List.map_cons]
    rw [h1.2 (hd s (List.mem_cons_self ..)), ih _ h1.1 (fun s' hs' => hd s' (List.mem_cons_of_mem _ hs'))]

/-- the strings `ComputeFOLLOW` (`β` of `A → α B β`), `IsLL1` and `BuildParsingTable` (whole bodies) hand to the
closure are pieces of production bodies; in a grammar that passes `Verify()` their symbols are declared -/
theorem infix_declared {g : Grammar T N} (hv : validB g = true) {p : GProd T N} (hp : p ∈ g.prods)
    {pre s suf : List (Sym T N)} (hb : p.body = pre ++ s ++ suf) : ∀ X, X ∈ s → symDeclared g X = true := by
  intro X hX
  apply (valid_prod hv hp).2 X
  rw [hb]
  exact List.mem_append_left _ (List.mem_append_right _ hX)

/-! ## the accessors of the parsing table read the cells -/

theorem cellInfo_isEmpty (t : PTable T N) (A : N) (a : Option T) :
    (cellInfo t A a).1 = (tcell t A a).isEmpty := by
  unfold cellInfo tcell
  cases t.get A a <;> rfl

theorem cellInfo_getProduction (t : PTable T N) (A : N) (a : Option T) :
    (cellInfo t A a).2.2 = (match tcell t A a with
      | [p] => some p
      | _ => none) := by
  unfold cellInfo tcell
  cases t.get A a <;> rfl

end

end AlgoVerif.C10
