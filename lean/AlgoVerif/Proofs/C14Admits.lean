import AlgoVerif.Proofs.C14World
import AlgoVerif.Proofs.C14PathsTop
import AlgoVerif.Proofs.C14Bfs
import AlgoVerif.Proofs.C14Comp
import AlgoVerif.Proofs.C14Cycle
import AlgoVerif.Proofs.C14Topo
import AlgoVerif.Proofs.C14Scc
import AlgoVerif.Proofs.C14Dijkstra
import AlgoVerif.Proofs.C14Prim
/-!
# C14 proofs — every query on the graph built from an edge list returns what the property demands
(`Admits`), by instantiating the per-graph theorems at `theGraph k n es`
-/
namespace AlgoVerif.C14

/-- `To(v)` on a built graph, for a vertex `v` -/
theorem pathOK_of_cases {k : Kind} {n : Nat} {es : List EdgeIn} (s : Int) (strat : Strategy) (p : Paths)
    (hp : (theGraph k n es).paths s strat = .ok p)
    (h3 : ∀ v : Int, (0 ≤ v ∧ v < (n : Int) →
          (0 ≤ s ∧ s < (n : Int) ∧ Reach (theGraph k n es).HasArc s.toNat v.toNat ∧
              ∃ path, p.to v = .ok (some path) ∧ WalkFromTo (theGraph k n es).HasArc s.toNat v.toNat path) ∨
          (¬ (0 ≤ s ∧ s < (n : Int) ∧ Reach (theGraph k n es).HasArc s.toNat v.toNat) ∧ p.to v = .ok none)))
    (v : Nat) (hv : v < n) :
    ∃ r, p.to (v : Int) = .ok r ∧ PathOK (EdgeRel k n es) n strat s v r := by
  have hg := theGraph_wf k n es
  have hn := theGraph_n k n es
  have hE := theGraph_hasArc k n es
  have ev : ((v : Nat) : Int).toNat = v := by omega
  rcases h3 (v : Int) ⟨by omega, by omega⟩ with ⟨k1, k2, _, path, k4, k5⟩ | ⟨hno, k4⟩
  · rw [ev] at k5
    refine ⟨some path, k4, k1, k2, ?_, ?_⟩
    · rw [← hE]; exact k5
    · intro hb m hw
      subst hb
      obtain ⟨s', rfl⟩ : ∃ s' : Nat, s = (s' : Int) := ⟨s.toNat, by omega⟩
      rw [← hE] at hw
      exact bfs_fewest hg s' (by rw [hn]; omega) p hp v path k4 m (by simpa using hw)
  · rw [ev] at hno
    refine ⟨none, k4, ?_⟩
    show ¬ _
    rw [← hE]; exact hno

theorem sptOK_of_spec {g : Graph} {s : Nat} {t : SPT} {v : Nat}
    (h : (t.pathTo (v : Int) = .ok none ∧ ¬ ∃ q, IsEdgeWalk g s v q) ∨
        (∃ p d, t.pathTo (v : Int) = .ok (some (p, d)) ∧ IsEdgeWalk g s v p ∧ walkWeight p = d ∧
          ∀ q, IsEdgeWalk g s v q → d ≤ walkWeight q)) :
    ∃ r, t.pathTo (v : Int) = .ok r ∧ SptOK g s v r := by
  rcases h with ⟨h1, h2⟩ | ⟨p, d, h1, h2, h3, h4⟩
  · exact ⟨none, h1, h2⟩
  · exact ⟨some (p, d), h1, h2, h3, h4⟩

theorem spt_invalid_source (g : Graph) (s : Int) (h : ¬ (0 ≤ s ∧ s < (g.n : Int))) :
    g.shortestPathTree s = .panic := by
  unfold Graph.shortestPathTree Graph.shortestPathTreeFuel
  simp only [Array.size_replicate]
  rw [if_neg]
  intro ⟨h1, h2⟩
  exact h ⟨h1, by omega⟩

/-- **Every query on the graph with exactly the edges `es` returns what C14 demands.** -/
theorem answer_admitted (k : Kind) (n : Nat) (es : List EdgeIn) (q : Query) (hq : q.applies k = true) :
    Admits k n es q ((GObj.build k n es).answer q) := by
  have hg := theGraph_wf k n es
  have hn := theGraph_n k n es
  have hE := theGraph_hasArc k n es
  cases q with
  | path strat s v =>
    simp only [Admits, GObj.answer]
    rw [build_g]
    obtain ⟨p, h1, _, h3⟩ := paths_to_cases hg s strat
    rw [hn] at h3
    rw [h1]
    simp only [Outcome.bind]
    split
    · rename_i hv
      obtain ⟨v', rfl⟩ : ∃ v' : Nat, v = (v' : Int) := ⟨v.toNat, by omega⟩
      obtain ⟨r, hr, hok⟩ := pathOK_of_cases s strat p h1 (fun v => (h3 v).2) v' (by omega)
      exact ⟨r, by rw [hr]; rfl, by simpa using hok⟩
    · rename_i hv
      rw [(h3 v).1 hv]; rfl
  | paths strat s =>
    simp only [Admits, GObj.answer]
    rw [build_g]
    obtain ⟨p, h1, _, h3⟩ := paths_to_cases hg s strat
    rw [hn] at h3
    rw [h1, hn]
    refine ⟨_, rfl, by simp, ?_⟩
    intro v hv
    obtain ⟨r, hr, hok⟩ := pathOK_of_cases s strat p h1 (fun v => (h3 v).2) v hv
    exact ⟨r, by simp [hv, hr], hok⟩
  | cc =>
    simp only [Admits, GObj.answer]
    rw [build_g]
    have hsym : (theGraph k n es).Symmetric := by
      have : k.isDirected = false := by simpa [Query.applies] using hq
      unfold theGraph; rw [this]; exact (buildUndirected_spec n es).2.1
    obtain ⟨cc, h1, h2, h3, h4, h5⟩ := cc_spec hg hsym
    rw [hn, hE] at *
    exact ⟨cc, by rw [h1]; rfl, h2, h3, h4, h5⟩
  | scc =>
    simp only [Admits, GObj.answer]
    rw [build_g]
    obtain ⟨cc, h1, h2, h3, h4, h5⟩ := scc_spec hg
    rw [hn, hE] at *
    exact ⟨cc, by rw [h1]; rfl, h2, h3, h4, h5⟩
  | cycle =>
    simp only [Admits, GObj.answer]
    rw [build_g]
    obtain ⟨c, h1, h2, h3⟩ := directedCycle_spec hg
    rw [hE] at *
    exact ⟨c.cycleList, by rw [h1]; rfl, h2, h3⟩
  | topo =>
    simp only [Admits, GObj.answer]
    rw [build_g]
    obtain ⟨t, h1, h2, h3, h4⟩ := topological_spec hg
    rw [hn, hE] at *
    exact ⟨t, by rw [h1]; rfl, h2, h3, h4⟩
  | mst =>
    simp only [Admits, GObj.answer]
    rw [build_g]
    have hk : k = .wundirected := by simpa [Query.applies] using hq
    subst hk
    have hu : (theGraph .wundirected n es).UWF := buildUndirected_uwf n es
    have hsym : (theGraph .wundirected n es).Symmetric := (buildUndirected_spec n es).2.1
    have hst : (theGraph .wundirected n es).UStored := buildUndirected_ustored n es
    obtain ⟨m, h1, h2, h3⟩ := mst_minimum hg hu hsym hst
    exact ⟨m, by rw [h1]; rfl, h2, wsum_edges m, h3⟩
  | spt s =>
    simp only [Admits, GObj.answer]
    rw [build_g]
    intro hnn
    have hk : k = .wdirected := by simpa [Query.applies] using hq
    subst hk
    have hd : (theGraph .wdirected n es).DWF := (buildDirected_dwf n es).1
    have hnonneg : (theGraph .wdirected n es).NonNeg := (buildDirected_dwf n es).2 hnn
    split
    · rename_i hs
      obtain ⟨s', rfl⟩ : ∃ s' : Nat, s = (s' : Int) := ⟨s.toNat, by omega⟩
      obtain ⟨t, h1, h2⟩ := spt_spec hg hd hnonneg s' (by rw [hn]; omega)
      rw [h1, hn]
      rw [hn] at h2
      refine ⟨t, _, rfl, by simp, ?_⟩
      intro v hv
      obtain ⟨r, hr, hok⟩ := sptOK_of_spec (h2 v hv)
      exact ⟨r, by simp [hv, hr], by simpa using hok⟩
    · rename_i hs
      rw [spt_invalid_source _ s (by rw [hn]; exact hs)]; rfl
  | sptto s v =>
    simp only [Admits, GObj.answer]
    rw [build_g]
    intro hnn
    have hk : k = .wdirected := by simpa [Query.applies] using hq
    subst hk
    have hd : (theGraph .wdirected n es).DWF := (buildDirected_dwf n es).1
    have hnonneg : (theGraph .wdirected n es).NonNeg := (buildDirected_dwf n es).2 hnn
    split
    · rename_i hs
      obtain ⟨s', rfl⟩ : ∃ s' : Nat, s = (s' : Int) := ⟨s.toNat, by omega⟩
      obtain ⟨t, h1, hsz, h2⟩ := spt_spec_sz hg hd hnonneg s' (by rw [hn]; omega)
      rw [h1]
      rw [hn] at h2 hsz
      simp only [Outcome.bind]
      split
      · rename_i hv
        obtain ⟨v', rfl⟩ : ∃ v' : Nat, v = (v' : Int) := ⟨v.toNat, by omega⟩
        obtain ⟨r, hr, hok⟩ := sptOK_of_spec (h2 v' (by omega))
        exact ⟨t, r, by rw [hr]; rfl, by simpa using hok⟩
      · rename_i hv
        rw [pathTo_out_of_range t n hsz v hv]; rfl
    · rename_i hs
      rw [spt_invalid_source _ s (by rw [hn]; exact hs)]; rfl
  | orders _ => trivial
  | dump => trivial
  | reverse => trivial
  | indeg _ => trivial
  | outdeg _ => trivial
  | adjOf _ => trivial
  | edges => trivial
  | traverse _ _ _ => trivial

end AlgoVerif.C14
