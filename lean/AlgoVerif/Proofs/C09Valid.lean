import AlgoVerif.Proofs.C08Cycles
/-!
# Results pass `Verify()`; `EliminateCycles` leaves no cycle (C09)
-/
namespace AlgoVerif.C08
open AlgoVerif AlgoVerif.Gram AlgoVerif.C08.Spec AlgoVerif.C09.Spec

/-! ## pruning leaves no declared non-terminal (other than the start symbol) without production -/

theorem pruneStep_length {g g' : G} (h : pruneStep g = some g') : g'.nonterms.length < g.nonterms.length := by
  obtain ⟨n, hn, _, _, _, _, hnt, _⟩ := pruneStep_spec h
  rw [hnt]
  exact List.length_filter_lt_length_iff_exists.mpr ⟨n, hn, by simp⟩

theorem pruneN_done (k : Nat) : ∀ g : G, g.nonterms.length ≤ k → pruneStep (pruneN k g) = none := by
  induction k with
  | zero =>
    intro g hk
    simp only [pruneN]
    have : g.nonterms = [] := List.eq_nil_of_length_eq_zero (by omega)
    unfold pruneStep
    rw [this]
    rfl
  | succ k ih =>
    intro g hk
    simp only [pruneN]
    split
    · assumption
    · rename_i g' hg'
      exact ih g' (by have := pruneStep_length hg'; omega)

theorem prune_done (g : G) : ∀ n ∈ (prune g).nonterms, n ≠ (prune g).start → hasProd (prune g).prods n = true := by
  have h := pruneN_done g.nonterms.length g (Nat.le_refl _)
  intro n hn hne
  unfold pruneStep at h
  split at h
  · rename_i hnone
    have := List.find?_eq_none.mp hnone n hn
    simp at this
    exact this hne
  · cases h

/-- well-formed + pruned + a sentence exists ⇒ valid -/
theorem valid_of_pruned {g : G} (hw : WellFormed g)
    (hdone : ∀ n ∈ g.nonterms, n ≠ g.start → hasProd g.prods n = true) (hl : ∃ w, Language g w) : Valid g := by
  obtain ⟨w, hw'⟩ := hl
  refine ⟨hw.1, ?_, hw.2⟩
  intro n hn
  by_cases hns : n = g.start
  · subst hns
    exact Derives.has_prod hw'
  · exact hasProd_iff.mp (hdone n hn hns)

theorem elimEmpty_valid {g g' : G} (h : elimEmpty g = .ok g') (hv : Valid g) (hl : ∃ w, Language g w) : Valid g' := by
  have hwf := elimEmpty_wf h hv.wellFormed
  obtain ⟨w, hw⟩ := hl
  have hl' : ∃ w, Language g' w := ⟨w, (elimEmpty_language h hv.wellFormed w).mpr hw⟩
  obtain ⟨nul, _, hcase⟩ := elimEmpty_ok h
  rcases hcase with ⟨_, rfl⟩ | ⟨_, s', _, rfl⟩
  · exact valid_of_pruned hwf (prune_done _) hl'
  · exact valid_of_pruned hwf (prune_done _) hl'

def SingleWfInv (g : G) (acc : List SProd) : Prop :=
  ∀ p' ∈ acc, p'.head ∈ g.nonterms ∧ ∃ p ∈ g.prods, p.body = p'.body

theorem singleProds_wf {g : G} {cl : Closure} (hcl : closureOf g = .ok cl) (hw : WellFormed g) :
    WellFormed ({ g with prods := singleProds g cl } : G) := by
  refine ⟨hw.1, ?_⟩
  intro p' hp'
  -- heads are keys of the closure, i.e. declared non-terminals; bodies are bodies of g
  have hkeys : ∀ e ∈ cl, e.1 ∈ g.nonterms := by
    unfold closureOf at hcl
    refine iterFix_inv closurePass (fun cl => ∀ e ∈ cl, e.1 ∈ g.nonterms) ?_ _ _ _ ?_ (ofOpt_ok hcl)
    · intro cl h e he
      rw [closurePass_eq] at he
      obtain ⟨e0, he0, rfl⟩ := List.mem_map.mp he
      exact h e0 he0
    · intro e he
      unfold closureInit at he
      obtain ⟨A, hA, rfl⟩ := List.mem_map.mp he
      exact hA
  have hinv : SingleWfInv g (singleProds g cl) := by
    unfold singleProds
    refine foldl_inv (SingleWfInv g) _ cl ?_ [] (by intro p hp; cases hp)
    intro acc e he hacc
    refine foldl_inv (SingleWfInv g) _ e.2 ?_ acc hacc
    intro acc B _ hacc
    refine foldl_inv (SingleWfInv g) _ (prodsOf g.prods B) ?_ acc hacc
    intro acc p hp hacc
    split
    · exact hacc
    · intro p' hp'
      rcases mem_ins.mp hp' with hp' | rfl
      · exact hacc p' hp'
      · exact ⟨hkeys e he, p, (List.mem_filter.mp hp).1, rfl⟩
  obtain ⟨hh, p, hp, hb⟩ := hinv p' hp'
  refine ⟨hh, fun s hs => ?_⟩
  have := (hw.2 p hp).2 s (hb ▸ hs)
  cases s <;> exact this

theorem elimSingle_wf {g g' : G} (h : elimSingle g = .ok g') (hw : WellFormed g) : WellFormed g' := by
  obtain ⟨cl, hc, rfl⟩ := elimSingle_ok h
  exact prune_wf (singleProds_wf hc hw)

theorem elimSingle_valid {g g' : G} (h : elimSingle g = .ok g') (hv : Valid g) (hl : ∃ w, Language g w) : Valid g' := by
  have hwf := elimSingle_wf h hv.wellFormed
  obtain ⟨w, hw⟩ := hl
  have hl' : ∃ w, Language g' w := ⟨w, (elimSingle_language h hv.wellFormed w).mpr hw⟩
  obtain ⟨cl, _, rfl⟩ := elimSingle_ok h
  exact valid_of_pruned hwf (prune_done _) hl'

theorem elimUnreachable_valid {g g' : G} (h : elimUnreachable g = .ok g') (hv : Valid g) : Valid g' := by
  obtain ⟨r, hr, hs, hnt, hp, ht⟩ := elimUnreachable_ok h
  obtain ⟨hstart, hclosed⟩ := reachable_spec hr
  have hex := reachable_exact hr
  obtain ⟨hv1, hv2, hv3⟩ := hv
  -- reachable names are declared
  have hdecl : ∀ n, Reach g n → n ∈ g.nonterms := by
    intro n hn
    induction hn with
    | start => exact hv1
    | step p n hpp _ hn _ => exact (hv3 p hpp).2 (Sym.nonterm n) hn
  refine ⟨?_, ?_, ?_⟩
  · rw [hs, hnt]; exact hstart
  · intro n hn
    rw [hnt] at hn
    obtain ⟨p, hpp, hh⟩ := hv2 n (hdecl n ((hex n).mp hn))
    refine ⟨p, ?_, hh⟩
    rw [hp]
    exact List.mem_filter.mpr ⟨hpp, by simpa [hh] using hn⟩
  · intro p hpp
    rw [hp] at hpp
    obtain ⟨hpg, hpr⟩ := List.mem_filter.mp hpp
    have hhead : p.head ∈ r := by simpa using hpr
    refine ⟨by rw [hnt]; exact hhead, ?_⟩
    intro s hs'
    cases s with
    | term t =>
      unfold SymDeclared
      rw [ht]
      refine List.mem_filter.mpr ⟨(hv3 p hpg).2 _ hs', ?_⟩
      exact List.any_eq_true.mpr ⟨p, List.mem_filter.mpr ⟨hpg, hpr⟩, by simpa using hs'⟩
    | nonterm n =>
      unfold SymDeclared
      rw [hnt]
      exact hclosed p hpg hhead n hs'

theorem elimCycles_valid {g g' : G} (h : elimCycles g = .ok g') (hv : Valid g) (hl : ∃ w, Language g w) : Valid g' := by
  obtain ⟨g1, g2, h1, h2, h3⟩ := elimCycles_ok h
  have hv1 := elimEmpty_valid h1 hv hl
  obtain ⟨w, hw⟩ := hl
  have hl1 : ∃ w, Language g1 w := ⟨w, (elimEmpty_language h1 hv.wellFormed w).mpr hw⟩
  exact elimUnreachable_valid h3 (elimSingle_valid h2 hv1 hl1)

/-! ## `EliminateCycles` leaves no derivation `A ⇒⁺ A` -/

/-- ε-productions only for a start symbol that occurs in no body -/
def EpsOnlyStart (g : G) : Prop :=
  ∀ p ∈ g.prods, p.body = [] → p.head = g.start ∧ ∀ q ∈ g.prods, Sym.nonterm g.start ∉ q.body

/-- a symbol that occurs in no body occurs in a derived form only if it was there from the beginning -/
theorem Derives.mem_of_not_in_bodies {g : G} {S : String} (hS : ∀ q ∈ g.prods, Sym.nonterm S ∉ q.body)
    {α β : List SSym} (d : Derives g α β) (hβ : Sym.nonterm S ∈ β) : Sym.nonterm S ∈ α := by
  induction d with
  | refl => exact hβ
  | tail _ s ih =>
    apply ih
    cases s with
    | mk u v p hp =>
      simp only [List.mem_append] at hβ ⊢
      rcases hβ with (h | h) | h
      · exact Or.inl (Or.inl h)
      · exact absurd h (hS p hp)
      · exact Or.inr h

/-- `n` is the head of an ε-production -/
def EpsHead (g : G) (n : String) : Prop := ∃ q ∈ g.prods, q.head = n ∧ q.body = []

theorem noCycle_of_noUnit_epsOnlyStart {g : G} (hu : NoUnit g) (he : EpsOnlyStart g) : NoCycle g := by
  -- heads of ε-productions occur in no body
  have hnb : ∀ n, EpsHead g n → ∀ q ∈ g.prods, Sym.nonterm n ∉ q.body := by
    rintro n ⟨r, hr, rfl, hrb⟩ q hq
    obtain ⟨h1, h2⟩ := he r hr hrb
    rw [h1]; exact h2 q hq
  -- forms without such heads never shrink and never acquire one
  have grow : ∀ α β : List SSym, Derives g α β → (∀ n, Sym.nonterm n ∈ α → ¬ EpsHead g n) →
      α.length ≤ β.length ∧ (∀ n, Sym.nonterm n ∈ β → ¬ EpsHead g n) := by
    intro α β d
    induction d with
    | refl => intro h; exact ⟨Nat.le_refl _, h⟩
    | tail _ s ih =>
      intro h
      obtain ⟨hlen, hns⟩ := ih h
      cases s with
      | mk u v q hq =>
        have hqh : ¬ EpsHead g q.head := hns q.head (by simp)
        have hqb : q.body ≠ [] := fun e => hqh ⟨q, hq, rfl, e⟩
        refine ⟨?_, ?_⟩
        · have : 1 ≤ q.body.length := by
            cases hb : q.body with
            | nil => exact absurd hb hqb
            | cons _ _ => simp
          simp only [List.length_append, List.length_cons, List.length_nil] at hlen ⊢
          omega
        · intro n hn
          simp only [List.mem_append] at hn
          rcases hn with (hn | hn) | hn
          · exact hns n (by simp [hn])
          · exact fun hE => hnb n hE q hq hn
          · exact hns n (by simp [hn])
  intro A ⟨γ, s, d⟩
  obtain ⟨p, hp, hh, rfl⟩ := s.of_single
  by_cases hA : EpsHead g A
  · -- A occurs in no body, yet p.body ⇒* A
    have := Derives.mem_of_not_in_bodies (hnb A hA) d (by simp)
    exact hnb A hA p hp this
  · have hpb : p.body ≠ [] := fun e => hA ⟨p, hp, hh, e⟩
    obtain ⟨hlen, _⟩ := grow _ _ d (fun n hn hE => hnb n hE p hp hn)
    simp at hlen
    -- the body is a single symbol: a non-terminal (unit production) or a terminal (stuck)
    cases hb : p.body with
    | nil => exact hpb hb
    | cons s rest =>
      cases rest with
      | cons _ _ => rw [hb] at hlen; simp at hlen
      | nil =>
        cases s with
        | nonterm B =>
          have := hu p hp
          unfold isSingle at this
          rw [hb] at this
          cases this
        | term t =>
          rw [hb] at d
          rcases d.cases_head with h | ⟨β, s', _⟩
          · cases h
          · exact Step.not_of_terms (w := [t]) (by simpa using s')

theorem elimSingle_epsOnlyStart {g g' : G} (h : elimSingle g = .ok g') (he : EpsOnlyStart g) : EpsOnlyStart g' := by
  obtain ⟨cl, hc, rfl⟩ := elimSingle_ok h
  have hspec := singleProds_spec (closureOf_sound hc)
  -- bodies of the result are bodies of g
  have hbody : ∀ q ∈ (prune ({ g with prods := singleProds g cl } : G)).prods, ∃ q0 ∈ g.prods, q0.body = q.body := by
    intro q hq
    obtain ⟨_, B, _, hB⟩ := hspec q (prune_prods_subset _ q hq)
    exact ⟨_, hB, rfl⟩
  intro p hp hpb
  obtain ⟨_, B, hAB, hB⟩ := hspec p (prune_prods_subset _ p hp)
  rw [hpb] at hB
  obtain ⟨h1, h2⟩ := he _ hB rfl
  simp only at h1
  rw [prune_start]
  refine ⟨?_, ?_⟩
  · -- p.head ⇒* B = start by unit steps, and the start symbol occurs in no body
    have := Derives.mem_of_not_in_bodies h2 hAB (by rw [h1]; simp)
    simp at this
    exact this.symm
  · intro q hq hm
    obtain ⟨q0, hq0, hq0b⟩ := hbody q hq
    exact h2 q0 hq0 (hq0b ▸ hm)

theorem elimCycles_noCycle {g g' : G} (h : elimCycles g = .ok g') (hv : WellFormed g) : NoCycle g' := by
  obtain ⟨g1, g2, h1, h2, h3⟩ := elimCycles_ok h
  have he1 : EpsOnlyStart g1 := by
    intro p hp hpb
    obtain ⟨a, _, c⟩ := elimEmpty_noEmpty h1 hv p hp hpb
    exact ⟨a, c⟩
  have he2 := elimSingle_epsOnlyStart h2 he1
  have hsub := elimUnreachable_prods_subset h3
  obtain ⟨_, _, hs3, _, _, _⟩ := elimUnreachable_ok h3
  have he3 : EpsOnlyStart g' := by
    intro p hp hpb
    obtain ⟨a, b⟩ := he2 p (hsub p hp) hpb
    exact ⟨by rw [hs3]; exact a, fun q hq => by rw [hs3]; exact b q (hsub q hq)⟩
  exact noCycle_of_noUnit_epsOnlyStart (elimCycles_noUnit h) he3

end AlgoVerif.C08
