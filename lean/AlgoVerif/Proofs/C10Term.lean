import AlgoVerif.Proofs.C10Main
/-! The three fixpoint loops return within `fixFuel g` passes on every grammar that passes `Verify()`:
a pass that reports `updated` makes a Boolean family over a finite universe (non-terminals × terminals,
plus one flag per non-terminal) true at a new point, and never makes it false anywhere. -/
set_option linter.unusedSectionVars false
namespace AlgoVerif.C10
open AlgoVerif AlgoVerif.Gram

/-! ### generic: counting the true points of a family -/

def cnt {U : Type} (P : U → Bool) : List U → Nat
  | [] => 0
  | u :: us => (if P u then 1 else 0) + cnt P us

theorem cnt_le {U : Type} (P : U → Bool) (l : List U) : cnt P l ≤ l.length := by
  induction l with
  | nil => simp [cnt]
  | cons u us ih => simp only [cnt, List.length_cons]; split <;> omega

theorem cnt_mono {U : Type} {P Q : U → Bool} {l : List U} (h : ∀ u, u ∈ l → P u = true → Q u = true) :
    cnt P l ≤ cnt Q l := by
  induction l with
  | nil => simp [cnt]
  | cons u us ih =>
    have ih' := ih fun x hx => h x (List.mem_cons_of_mem _ hx)
    simp only [cnt]
    by_cases hp : P u = true
    · have := h u (List.mem_cons_self ..) hp
      simp [hp, this]; omega
    · simp [hp]; split <;> omega

theorem cnt_lt {U : Type} {P Q : U → Bool} {l : List U} (h : ∀ u, u ∈ l → P u = true → Q u = true)
    (hnew : ∃ u, u ∈ l ∧ Q u = true ∧ P u = false) : cnt P l < cnt Q l := by
  induction l with
  | nil => obtain ⟨u, hu, _⟩ := hnew; cases hu
  | cons u us ih =>
    have hmono := cnt_mono (P := P) (Q := Q) (l := us) fun x hx => h x (List.mem_cons_of_mem _ hx)
    obtain ⟨x, hx, hq, hp⟩ := hnew
    simp only [cnt]
    rcases List.mem_cons.1 hx with rfl | hx
    · simp [hq, hp]; omega
    · have ih' := ih (fun y hy => h y (List.mem_cons_of_mem _ hy)) ⟨x, hx, hq, hp⟩
      by_cases hpu : P u = true
      · have := h u (List.mem_cons_self ..) hpu
        simp [hpu, this]; omega
      · simp [hpu]; split <;> omega

/-- a pass relates two (state, flag) pairs: invariant kept, nothing lost, a raised flag means a new point -/
structure Prog {St U : Type} (Inv : St → Prop) (view : St → U → Bool) (univ : List U)
    (a b : St × Bool) : Prop where
  inv : Inv a.1 → Inv b.1
  mono : Inv a.1 → ∀ u, u ∈ univ → view a.1 u = true → view b.1 u = true
  flag : Inv a.1 → b.2 = true → a.2 = true ∨ ∃ u, u ∈ univ ∧ view b.1 u = true ∧ view a.1 u = false

theorem Prog.refl {St U : Type} {Inv : St → Prop} {view : St → U → Bool} {univ : List U} (a : St × Bool) :
    Prog Inv view univ a a :=
  ⟨id, fun _ _ _ h => h, fun _ h => Or.inl h⟩

theorem Prog.trans {St U : Type} {Inv : St → Prop} {view : St → U → Bool} {univ : List U}
    {a b c : St × Bool} (h₁ : Prog Inv view univ a b) (h₂ : Prog Inv view univ b c) :
    Prog Inv view univ a c := by
  refine ⟨fun h => h₂.inv (h₁.inv h), fun h u hu hv => h₂.mono (h₁.inv h) u hu (h₁.mono h u hu hv), ?_⟩
  intro ha hc
  rcases h₂.flag (h₁.inv ha) hc with hb | ⟨u, hu, hcu, hbu⟩
  · rcases h₁.flag ha hb with h | ⟨u, hu, hbu, hau⟩
    · exact Or.inl h
    · exact Or.inr ⟨u, hu, h₂.mono (h₁.inv ha) u hu hbu, hau⟩
  · right
    refine ⟨u, hu, hcu, ?_⟩
    cases hau : view a.1 u with
    | false => rfl
    | true => rw [h₁.mono ha u hu hau] at hbu; cases hbu

/-- the shape of the three loops -/
def genLoop {St : Type} (pass : Nat → St → St × Bool) : Nat → Nat → St → Outcome St
  | 0, _, _ => .diverge
  | fuel + 1, i, s =>
    let r := pass i s
    if r.2 then genLoop pass fuel (i + 1) r.1 else .ok r.1

theorem genLoop_terminates {St U : Type} {Inv : St → Prop} {view : St → U → Bool} {univ : List U}
    {pass : Nat → St → St × Bool} (hpass : ∀ i s, Prog Inv view univ (s, false) (pass i s)) :
    ∀ (fuel i : Nat) (s : St), Inv s → fuel + cnt (view s) univ > univ.length →
      ∃ r, genLoop pass fuel i s = .ok r := by
  intro fuel
  induction fuel with
  | zero =>
    intro i s _ h
    have := cnt_le (view s) univ
    omega
  | succ fuel ih =>
    intro i s hs h
    simp only [genLoop]
    have hp := hpass i s
    cases hf : (pass i s).2 with
    | false => exact ⟨(pass i s).1, by simp⟩
    | true =>
      simp only [if_true]
      apply ih _ _ (hp.inv hs)
      rcases hp.flag hs hf with h0 | hnew
      · cases h0
      · have := cnt_lt (P := view s) (Q := view (pass i s).1) (l := univ) (hp.mono hs) hnew
        omega

theorem genLoop_inv {St U : Type} {Inv : St → Prop} {view : St → U → Bool} {univ : List U}
    {pass : Nat → St → St × Bool} (hpass : ∀ i s, Prog Inv view univ (s, false) (pass i s)) :
    ∀ (fuel i : Nat) (s r : St), Inv s → genLoop pass fuel i s = .ok r → Inv r := by
  intro fuel
  induction fuel with
  | zero => intro i s r _ h; simp [genLoop] at h
  | succ fuel ih =>
    intro i s r hs h
    simp only [genLoop] at h
    have hi := (hpass i s).inv hs
    cases hf : (pass i s).2 with
    | false => simp [hf] at h; subst h; exact hi
    | true => simp [hf] at h; exact ih _ _ _ hi h

variable {T N : Type} [DecidableEq T] [DecidableEq N]

/-! ### nullable -/

theorem nullableLoop_eq_gen (g : Grammar T N) (o : IterOrder T N) (fuel i : Nat) (nul : List N) :
    nullableLoop g o fuel i nul = genLoop (fun i nul => nullablePass (groups g o i) (nul, false)) fuel i nul := by
  induction fuel generalizing i nul with
  | zero => rfl
  | succ fuel ih => simp only [nullableLoop, genLoop, ih]

def nulView (nul : List N) (n : N) : Bool := decide (n ∈ nul)

theorem nullableGroup_prog (univ : List N) (h : N) (hh : h ∈ univ) :
    ∀ (ps : List (GProd T N)) (nul : List N) (u : Bool), (∀ p, p ∈ ps → p.head = h) → (h ∉ nul ∨ u = true) →
      Prog (fun _ => True) nulView univ (nul, u) (nullableGroup ps (nul, u)) := by
  intro ps
  induction ps with
  | nil => intro nul u _ _; exact Prog.refl _
  | cons p ps ih =>
    intro nul u hps hpre
    have hp : p.head = h := hps p (List.mem_cons_self ..)
    have hps' : ∀ q, q ∈ ps → q.head = h := fun q hq => hps q (List.mem_cons_of_mem _ hq)
    have step : Prog (fun _ => True) nulView univ (nul, u) (insertNew p.head nul, true) := by
      refine ⟨fun _ => trivial, ?_, ?_⟩
      · intro _ x _ hx
        simp only [nulView, decide_eq_true_eq] at hx ⊢
        exact mem_insertNew.2 (Or.inr hx)
      · intro _ _
        rcases hpre with hn | hu
        · right
          refine ⟨h, hh, ?_, ?_⟩
          · simp only [nulView, decide_eq_true_eq]; exact mem_insertNew.2 (Or.inl hp.symm)
          · simp only [nulView, decide_eq_false_iff_not]; exact hn
        · exact Or.inl hu
    simp only [nullableGroup]
    split
    · exact step.trans (ih _ _ hps' (Or.inr rfl))
    · split
      · exact step.trans (ih _ _ hps' (Or.inr rfl))
      · exact ih _ _ hps' hpre

theorem nullablePass_prog (univ : List N) :
    ∀ (gs : List (N × List (GProd T N))) (nul : List N) (u : Bool),
      (∀ hp, hp ∈ gs → hp.1 ∈ univ ∧ ∀ p, p ∈ hp.2 → p.head = hp.1) →
      Prog (fun _ => True) nulView univ (nul, u) (nullablePass gs (nul, u)) := by
  intro gs
  induction gs with
  | nil => intro nul u _; exact Prog.refl _
  | cons hp gs ih =>
    intro nul u hgs
    obtain ⟨h, ps⟩ := hp
    have hgs' := fun q hq => hgs q (List.mem_cons_of_mem _ hq)
    obtain ⟨h1, h2⟩ := hgs (h, ps) (List.mem_cons_self ..)
    simp only [nullablePass]
    split
    · exact ih _ _ hgs'
    · rename_i hn
      have := nullableGroup_prog univ h h1 ps nul u h2 (Or.inl hn)
      generalize nullableGroup ps (nul, u) = r at this ⊢
      obtain ⟨a, b⟩ := r
      exact this.trans (ih _ _ hgs')

theorem groups_wf {g : Grammar T N} (hv : validB g = true) {o : IterOrder T N} (ho : o.Fair) (i : Nat) :
    ∀ hp, hp ∈ groups g o i → hp.1 ∈ g.nonterms ∧ ∀ p, p ∈ hp.2 → p.head = hp.1 := by
  intro hp hmem
  unfold groups at hmem
  obtain ⟨h, hh, rfl⟩ := List.mem_map.1 hmem
  have hh' := (ho.heads i _ _).1 hh
  obtain ⟨p, hp, rfl⟩ := List.mem_map.1 (mem_dedup.1 hh')
  refine ⟨(valid_prod hv hp).1, ?_⟩
  intro q hq
  have := (ho.prods i _ _).1 hq
  simpa using (List.mem_filter.1 this).2

theorem fixFuel_gt (g : Grammar T N) : fixFuel g > g.nonterms.length * g.terms.length + g.nonterms.length := by
  unfold fixFuel
  rw [Nat.mul_succ]
  omega

theorem nullable_terminates {g : Grammar T N} (hv : validB g = true) {o : IterOrder T N} (ho : o.Fair) :
    ∃ R, nullable g o = .ok R := by
  unfold nullable
  rw [nullableLoop_eq_gen]
  apply genLoop_terminates (Inv := fun _ => True) (view := nulView) (univ := g.nonterms)
  · intro i s
    exact nullablePass_prog g.nonterms (groups g o i) s false (groups_wf hv ho i)
  · trivial
  · have := fixFuel_gt g
    have h2 : g.nonterms.length * g.terms.length ≥ 0 := Nat.zero_le _
    omega

/-! ### FIRST -/

theorem firstLoop_eq_gen (g : Grammar T N) (o : IterOrder T N) (fuel i : Nat) (st : N → TE T) :
    firstLoop g o fuel i st = genLoop (fun i st => firstPass (passProds g o i) (st, false)) fuel i st := by
  induction fuel generalizing i st with
  | zero => rfl
  | succ fuel ih => simp only [firstLoop, genLoop, ih]

/-- the universe: (non-terminal, terminal) pairs and one flag per non-terminal -/
def univOf (g : Grammar T N) : List ((N × T) ⊕ N) :=
  (g.nonterms.flatMap fun n => g.terms.map fun a => Sum.inl (n, a)) ++ g.nonterms.map Sum.inr

theorem mem_univ_inl {g : Grammar T N} {n : N} {a : T} (hn : n ∈ g.nonterms) (ha : a ∈ g.terms) :
    Sum.inl (n, a) ∈ univOf g := by
  unfold univOf
  apply List.mem_append_left
  exact List.mem_flatMap.2 ⟨n, hn, List.mem_map.2 ⟨a, ha, rfl⟩⟩

theorem mem_univ_inr {g : Grammar T N} {n : N} (hn : n ∈ g.nonterms) : Sum.inr n ∈ univOf g := by
  unfold univOf
  exact List.mem_append_right _ (List.mem_map.2 ⟨n, hn, rfl⟩)

theorem length_flatMap_const {α β : Type} (l : List α) (f : α → List β) (k : Nat) (h : ∀ x, (f x).length = k) :
    (l.flatMap f).length = l.length * k := by
  induction l with
  | nil => simp
  | cons x xs ih => simp [List.flatMap_cons, ih, h, Nat.succ_mul, Nat.add_comm]

theorem univOf_length (g : Grammar T N) :
    (univOf g).length = g.nonterms.length * g.terms.length + g.nonterms.length := by
  unfold univOf
  rw [List.length_append, List.length_map, length_flatMap_const _ _ g.terms.length (by intro x; simp)]

def firstView (st : N → TE T) : (N × T) ⊕ N → Bool
  | .inl (n, a) => decide (a ∈ (st n).terms)
  | .inr n => (st n).eps

/-- every member of every set is a declared terminal -/
def FirstInv (g : Grammar T N) (st : N → TE T) : Prop := ∀ n a, a ∈ (st n).terms → a ∈ g.terms

theorem exists_new_of_union_length {a b : List T} (h : (union a b).length > a.length) :
    ∃ x, x ∈ b ∧ x ∉ a := by
  apply Classical.byContradiction
  intro hne
  have : ∀ x, x ∈ b → x ∈ a := by
    intro x hx
    apply Classical.byContradiction
    intro hxa
    exact hne ⟨x, hx, hxa⟩
  rw [union_eq_self this] at h
  omega

theorem firstSym_declared {g : Grammar T N} {st : N → TE T} (hinv : FirstInv g st) {s : Sym T N}
    (hs : symDeclared g s = true) {a : T} (ha : a ∈ (firstSym st s).terms) : a ∈ g.terms := by
  cases s with
  | term t =>
    simp [firstSym] at ha; subst ha
    simpa [symDeclared] using hs
  | nonterm n => exact hinv n a ha

/-- adding declared terminals to the set of `X` -/
theorem upd_terms_prog {g : Grammar T N} {st : N → TE T} {X : N} (hX : X ∈ g.nonterms) (extra : List T)
    (u : Bool) (hdecl : ∀ a, a ∈ extra → a ∈ g.terms) :
    Prog (FirstInv g) firstView (univOf g) (st, u)
      (upd st X ⟨union (st X).terms extra, (st X).eps⟩,
       u || decide ((union (st X).terms extra).length > (st X).terms.length)) := by
  refine ⟨?_, ?_, ?_⟩
  · intro hinv n a ha
    dsimp only at hinv ha
    by_cases e : n = X
    · subst e; rw [upd_same] at ha
      rcases mem_union.1 ha with h | h
      · exact hinv _ a h
      · exact hdecl a h
    · rw [upd_other _ _ e] at ha; exact hinv n a ha
  · intro _ x _ hx
    dsimp only at hx ⊢
    cases x with
    | inl na =>
      obtain ⟨n, a⟩ := na
      simp only [firstView, decide_eq_true_eq] at hx ⊢
      by_cases e : n = X
      · subst e; rw [upd_same]; exact mem_union.2 (Or.inl hx)
      · rw [upd_other _ _ e]; exact hx
    | inr n =>
      simp only [firstView] at hx ⊢
      by_cases e : n = X
      · subst e; rw [upd_same]; exact hx
      · rw [upd_other _ _ e]; exact hx
  · intro _ hb
    dsimp only at hb ⊢
    simp only [Bool.or_eq_true, decide_eq_true_eq] at hb
    rcases hb with hb | hb
    · exact Or.inl hb
    · right
      obtain ⟨x, hx1, hx2⟩ := exists_new_of_union_length hb
      refine ⟨Sum.inl (X, x), mem_univ_inl hX (hdecl x hx1), ?_, ?_⟩
      · simp only [firstView, decide_eq_true_eq]; rw [upd_same]; exact mem_union.2 (Or.inr hx1)
      · simp only [firstView, decide_eq_false_iff_not]; exact hx2

/-- raising the ε flag of `X` -/
theorem upd_eps_prog {g : Grammar T N} {st : N → TE T} {X : N} (hX : X ∈ g.nonterms) (u e : Bool) :
    Prog (FirstInv g) firstView (univOf g) (st, u)
      (upd st X ⟨(st X).terms, (st X).eps || e⟩, u || (e && !(st X).eps)) := by
  refine ⟨?_, ?_, ?_⟩
  · intro hinv n a ha
    dsimp only at hinv ha
    by_cases h : n = X
    · subst h; rw [upd_same] at ha; exact hinv _ a ha
    · rw [upd_other _ _ h] at ha; exact hinv n a ha
  · intro _ x _ hx
    dsimp only at hx ⊢
    cases x with
    | inl na =>
      obtain ⟨n, a⟩ := na
      simp only [firstView, decide_eq_true_eq] at hx ⊢
      by_cases h : n = X
      · subst h; rw [upd_same]; exact hx
      · rw [upd_other _ _ h]; exact hx
    | inr n =>
      simp only [firstView] at hx ⊢
      by_cases h : n = X
      · subst h; rw [upd_same]; simp [hx]
      · rw [upd_other _ _ h]; exact hx
  · intro _ hb
    dsimp only at hb ⊢
    simp only [Bool.or_eq_true, Bool.and_eq_true, Bool.not_eq_true'] at hb
    rcases hb with hb | ⟨he, hne⟩
    · exact Or.inl hb
    · right
      refine ⟨Sum.inr X, mem_univ_inr hX, ?_, ?_⟩
      · simp only [firstView]; rw [upd_same]; simp [he]
      · simp only [firstView]; exact hne

theorem firstBody_prog {g : Grammar T N} {X : N} (hX : X ∈ g.nonterms) :
    ∀ (body : List (Sym T N)) (st : N → TE T) (u : Bool), (∀ s, s ∈ body → symDeclared g s = true) →
      FirstInv g st →
      Prog (FirstInv g) firstView (univOf g) (st, u)
        ((firstBody X body st u).1, (firstBody X body st u).2.1) := by
  intro body
  induction body with
  | nil => intro st u _ _; exact Prog.refl _
  | cons Y rest ih =>
    intro st u hdecl hinv
    have hY := hdecl Y (List.mem_cons_self ..)
    have hrest : ∀ s, s ∈ rest → symDeclared g s = true := fun s hs => hdecl s (List.mem_cons_of_mem _ hs)
    have step := upd_terms_prog (g := g) (st := st) hX (firstSym st Y).terms u
      (fun a ha => firstSym_declared hinv hY ha)
    simp only [firstBody]
    split
    · exact step.trans (ih _ _ hrest (step.inv hinv))
    · exact step

theorem firstProd_prog {g : Grammar T N} (hv : validB g = true) {p : GProd T N} (hp : p ∈ g.prods)
    (st : N → TE T) (u : Bool) (hinv : FirstInv g st) :
    Prog (FirstInv g) firstView (univOf g) (st, u) (firstProd p st u) := by
  obtain ⟨hX, hbody⟩ := valid_prod hv hp
  by_cases hemp : p.body.isEmpty = true
  · have e : firstProd p st u = (upd st p.head ⟨(st p.head).terms, (st p.head).eps || true⟩,
        u || (true && !(st p.head).eps)) := by
      simp [firstProd, hemp]
    rw [e]
    exact upd_eps_prog hX u true
  · have h1 := firstBody_prog hX p.body st u hbody hinv
    have e : firstProd p st u =
        (upd (firstBody p.head p.body st u).1 p.head
          ⟨((firstBody p.head p.body st u).1 p.head).terms,
           ((firstBody p.head p.body st u).1 p.head).eps || (firstBody p.head p.body st u).2.2⟩,
         (firstBody p.head p.body st u).2.1 ||
           ((firstBody p.head p.body st u).2.2 && !((firstBody p.head p.body st u).1 p.head).eps)) := by
      simp [firstProd, hemp]
    rw [e]
    exact h1.trans (upd_eps_prog hX _ _)

theorem firstPass_prog {g : Grammar T N} (hv : validB g = true) :
    ∀ (ps : List (GProd T N)) (st : N → TE T) (u : Bool), (∀ p, p ∈ ps → p ∈ g.prods) → FirstInv g st →
      Prog (FirstInv g) firstView (univOf g) (st, u) (firstPass ps (st, u)) := by
  intro ps
  induction ps with
  | nil => intro st u _ _; exact Prog.refl _
  | cons p ps ih =>
    intro st u hps hinv
    have h1 := firstProd_prog hv (hps p (List.mem_cons_self ..)) st u hinv
    simp only [firstPass]
    generalize firstProd p st u = r at h1 ⊢
    obtain ⟨a, b⟩ := r
    exact h1.trans (ih _ _ (fun q hq => hps q (List.mem_cons_of_mem _ hq)) (h1.inv hinv))

/-- `Prog` from a state satisfying the invariant, as `genLoop_terminates` wants it -/
theorem prog_of_inv {St U : Type} {Inv : St → Prop} {view : St → U → Bool} {univ : List U}
    {a b : St × Bool} (h : Inv a.1 → Prog Inv view univ a b) : Prog Inv view univ a b :=
  ⟨fun hi => (h hi).inv hi, fun hi => (h hi).mono hi, fun hi => (h hi).flag hi⟩

theorem computeFirst_terminates {g : Grammar T N} (hv : validB g = true) {o : IterOrder T N} (ho : o.Fair) :
    ∃ R, computeFirst g o = .ok R := by
  unfold computeFirst
  rw [firstLoop_eq_gen]
  apply genLoop_terminates (Inv := FirstInv g) (view := firstView) (univ := univOf g)
  · intro i s
    apply prog_of_inv
    intro hinv
    exact firstPass_prog hv _ s false (fun p hp => (mem_passProds_iff ho i).1 hp) hinv
  · intro n a ha; simp at ha
  · rw [univOf_length]
    have := fixFuel_gt g
    omega

/-! ### FOLLOW -/

theorem followLoop_eq_gen (g : Grammar T N) (o : IterOrder T N) (first : List (Sym T N) → TE T)
    (fuel i : Nat) (fo : N → TEnd T) :
    followLoop g o first fuel i fo =
      genLoop (fun i fo => followPass first (passProds g o i) (fo, false)) fuel i fo := by
  induction fuel generalizing i fo with
  | zero => rfl
  | succ fuel ih => simp only [followLoop, genLoop, ih]

def followView (fo : N → TEnd T) : (N × T) ⊕ N → Bool
  | .inl (n, a) => decide (a ∈ (fo n).terms)
  | .inr n => (fo n).endm

def FollowInv (g : Grammar T N) (fo : N → TEnd T) : Prop := ∀ n a, a ∈ (fo n).terms → a ∈ g.terms

/-- one update of FOLLOW(B): more declared terminals, possibly the endmarker -/
theorem upd_follow_prog {g : Grammar T N} {fo : N → TEnd T} {B : N} (hB : B ∈ g.nonterms) (extra : List T)
    (u e : Bool) (hdecl : ∀ a, a ∈ extra → a ∈ g.terms) :
    Prog (FollowInv g) followView (univOf g) (fo, u)
      (upd fo B ⟨union (fo B).terms extra, (fo B).endm || e⟩,
       (u || decide ((union (fo B).terms extra).length > (fo B).terms.length)) || (e && !(fo B).endm)) := by
  refine ⟨?_, ?_, ?_⟩
  · intro hinv n a ha
    dsimp only at hinv ha
    by_cases h : n = B
    · subst h; rw [upd_same] at ha
      rcases mem_union.1 ha with h | h
      · exact hinv _ a h
      · exact hdecl a h
    · rw [upd_other _ _ h] at ha; exact hinv n a ha
  · intro _ x _ hx
    dsimp only at hx ⊢
    cases x with
    | inl na =>
      obtain ⟨n, a⟩ := na
      simp only [followView, decide_eq_true_eq] at hx ⊢
      by_cases h : n = B
      · subst h; rw [upd_same]; exact mem_union.2 (Or.inl hx)
      · rw [upd_other _ _ h]; exact hx
    | inr n =>
      simp only [followView] at hx ⊢
      by_cases h : n = B
      · subst h; rw [upd_same]; simp [hx]
      · rw [upd_other _ _ h]; exact hx
  · intro _ hb
    dsimp only at hb ⊢
    simp only [Bool.or_eq_true, Bool.and_eq_true, Bool.not_eq_true', decide_eq_true_eq] at hb
    rcases hb with (hb | hb) | ⟨he, hne⟩
    · exact Or.inl hb
    · right
      obtain ⟨x, hx1, hx2⟩ := exists_new_of_union_length hb
      refine ⟨Sum.inl (B, x), mem_univ_inl hB (hdecl x hx1), ?_, ?_⟩
      · simp only [followView, decide_eq_true_eq]; rw [upd_same]; exact mem_union.2 (Or.inr hx1)
      · simp only [followView, decide_eq_false_iff_not]; exact hx2
    · right
      refine ⟨Sum.inr B, mem_univ_inr hB, ?_, ?_⟩
      · simp only [followView]; rw [upd_same]; simp [he]
      · simp only [followView]; exact hne

theorem followBody_prog {g : Grammar T N} {first : List (Sym T N) → TE T}
    (hfirst : ∀ β, (∀ s, s ∈ β → symDeclared g s = true) → ∀ a, a ∈ (first β).terms → a ∈ g.terms) (A : N) :
    ∀ (body : List (Sym T N)) (fo : N → TEnd T) (u : Bool), (∀ s, s ∈ body → symDeclared g s = true) →
      FollowInv g fo →
      Prog (FollowInv g) followView (univOf g) (fo, u) (followBody first A body fo u) := by
  intro body
  induction body with
  | nil => intro fo u _ _; exact Prog.refl _
  | cons s rest ih =>
    intro fo u hdecl hinv
    have hrest : ∀ s, s ∈ rest → symDeclared g s = true := fun s hs => hdecl s (List.mem_cons_of_mem _ hs)
    cases s with
    | term t => simp only [followBody]; exact ih _ _ hrest hinv
    | nonterm B =>
      have hB : B ∈ g.nonterms := by
        have := hdecl (Sym.nonterm B) (List.mem_cons_self ..)
        simpa [symDeclared] using this
      have step1 := upd_follow_prog (g := g) (fo := fo) hB (first rest).terms u false
        (fun a ha => hfirst rest hrest a ha)
      simp only [Bool.or_false, Bool.false_and] at step1
      simp only [followBody]
      split
      · -- second update, reading FOLLOW(A) from the updated table
        have hinv1 := step1.inv hinv
        have step2 := upd_follow_prog (g := g)
          (fo := upd fo B ⟨union (fo B).terms (first rest).terms, (fo B).endm⟩) hB
          ((upd fo B ⟨union (fo B).terms (first rest).terms, (fo B).endm⟩) A).terms
          (u || decide ((union (fo B).terms (first rest).terms).length > (fo B).terms.length))
          ((upd fo B ⟨union (fo B).terms (first rest).terms, (fo B).endm⟩) A).endm
          (fun a ha => hinv1 A a ha)
        simp only [upd_same] at step2
        have e : (upd (upd fo B ⟨union (fo B).terms (first rest).terms, (fo B).endm⟩) B
            ⟨union (union (fo B).terms (first rest).terms)
              ((upd fo B ⟨union (fo B).terms (first rest).terms, (fo B).endm⟩) A).terms,
             (fo B).endm || ((upd fo B ⟨union (fo B).terms (first rest).terms, (fo B).endm⟩) A).endm⟩) = _ := rfl
        exact (step1.trans step2).trans (ih _ _ hrest (step2.inv hinv1))
      · exact step1.trans (ih _ _ hrest (step1.inv hinv))

theorem followPass_prog {g : Grammar T N} (hv : validB g = true) {first : List (Sym T N) → TE T}
    (hfirst : ∀ β, (∀ s, s ∈ β → symDeclared g s = true) → ∀ a, a ∈ (first β).terms → a ∈ g.terms) :
    ∀ (ps : List (GProd T N)) (fo : N → TEnd T) (u : Bool), (∀ p, p ∈ ps → p ∈ g.prods) → FollowInv g fo →
      Prog (FollowInv g) followView (univOf g) (fo, u) (followPass first ps (fo, u)) := by
  intro ps
  induction ps with
  | nil => intro fo u _ _; exact Prog.refl _
  | cons p ps ih =>
    intro fo u hps hinv
    have hp := hps p (List.mem_cons_self ..)
    have h1 := followBody_prog hfirst p.head p.body fo u (valid_prod hv hp).2 hinv
    simp only [followPass]
    generalize followBody first p.head p.body fo u = r at h1 ⊢
    obtain ⟨a, b⟩ := r
    exact h1.trans (ih _ _ (fun q hq => hps q (List.mem_cons_of_mem _ hq)) (h1.inv hinv))

theorem computeFollow_terminates {g : Grammar T N} (hv : validB g = true) {o : IterOrder T N} (ho : o.Fair)
    {first : List (Sym T N) → TE T}
    (hfirst : ∀ β, (∀ s, s ∈ β → symDeclared g s = true) → ∀ a, a ∈ (first β).terms → a ∈ g.terms) :
    ∃ R, computeFollow g o first = .ok R := by
  unfold computeFollow
  rw [followLoop_eq_gen]
  apply genLoop_terminates (Inv := FollowInv g) (view := followView) (univ := univOf g)
  · intro i s
    apply prog_of_inv
    intro hinv
    exact followPass_prog hv hfirst _ s false (fun p hp => (mem_passProds_iff ho i).1 hp) hinv
  · intro n a ha; simp [followInit] at ha
  · rw [univOf_length]
    have := fixFuel_gt g
    omega

/-- FIRST(β) of declared symbols holds declared terminals only -/
theorem firstStr_declared {g : Grammar T N} {st : N → TE T} (hinv : FirstInv g st) :
    ∀ (β : List (Sym T N)), (∀ s, s ∈ β → symDeclared g s = true) →
      ∀ a, a ∈ (firstStr st β).terms → a ∈ g.terms := by
  intro β hβ a ha
  rw [mem_firstStr] at ha
  induction β with
  | nil => cases ha
  | cons s rest ih =>
    rcases ha with h | ⟨_, h⟩
    · exact firstSym_declared hinv (hβ s (List.mem_cons_self ..)) (symF_Fst.1 h)
    · exact ih (fun x hx => hβ x (List.mem_cons_of_mem _ hx)) h

theorem computeFirst_inv {g : Grammar T N} (hv : validB g = true) {o : IterOrder T N} (ho : o.Fair)
    {R : N → TE T} (h : computeFirst g o = .ok R) : FirstInv g R := by
  unfold computeFirst at h
  rw [firstLoop_eq_gen] at h
  refine genLoop_inv (Inv := FirstInv g) (view := firstView) (univ := univOf g) ?_ _ _ _ _ ?_ h
  · intro i s
    apply prog_of_inv
    intro hinv
    exact firstPass_prog hv _ s false (fun p hp => (mem_passProds_iff ho i).1 hp) hinv
  · intro n a ha; simp at ha

/-- on a grammar that passes `Verify()` the analyses always return -/
theorem analyse_terminates {g : Grammar T N} (hv : validB g = true) {o₁ o₂ : IterOrder T N}
    (h₁ : o₁.Fair) (h₂ : o₂.Fair) : ∃ an, analyse g o₁ o₂ = .ok an := by
  obtain ⟨fi, hfi⟩ := computeFirst_terminates hv h₁
  have hinv := computeFirst_inv hv h₁ hfi
  obtain ⟨fo, hfo⟩ := computeFollow_terminates hv h₂ (first := firstStr fi) (firstStr_declared hinv)
  exact ⟨⟨fi, fo⟩, by simp [analyse, hfi, hfo]⟩

end AlgoVerif.C10
