import AlgoVerif.Proofs.C06PDel2
import AlgoVerif.Proofs.C06PStr
/-!
# C06 — Patricia deletion: `remove` re-establishes the invariant, and the full simulation
-/
namespace AlgoVerif.C06
variable {V : Type}
open BitString (xbit Small)
open PT

namespace Patricia
open Spec

/-- the side `remove` computes for the link to the removed leaf's node agrees with `sideOf` -/
theorem side_store {t : Patricia V} (dir : Nat → Bool) (kn : Key) (n : Nat) (T : PT V) :
    ∀ (b : Nat) (p : Option Nat) (pi : Nat) (sd : Bool), Rep t b p T → OnPath T dir kn → n = (descendD T dir).1 →
      n ∈ inners T → SelfBelow T → (leafIdx T).Nodup →
      (parentEnd T pi n dir = pi ∧ sideOf T sd n dir = sd) ∨
      (parentEnd T pi n dir ∈ inners T ∧ ∃ nd, t.nodes[parentEnd T pi n dir]? = some nd ∧ 1 ≤ nd.bp ∧
        sideOf T sd n dir = xbit kn (nd.bp - 1)) := by
  induction T with
  | leaf => intro _ _ _ _ _ _ _ hm; simp [inners] at hm
  | inner i bp l r ihl ihr =>
    intro b p pi sd h hop hn hm hs hnd
    obtain ⟨hp, nn, hnn, hbp, hb, hl, hr⟩ := h
    subst hbp
    obtain ⟨hdk, hrest⟩ := hop
    simp only [parentEnd, sideOf]
    by_cases hin : i = n
    · left; simp [hin]
    · right
      simp only [hin, if_false]
      have hpath := inner_on_path hs hnd hn hm hin
      obtain ⟨_, hsl, hsr⟩ := hs
      simp only [leafIdx, List.nodup_append] at hnd
      obtain ⟨hndl, hndr, _⟩ := hnd
      simp only [descendD] at hn
      by_cases hd : dir nn.bp = true
      · simp only [hd, if_true] at hrest hn ⊢
        rcases ihr nn.bp nn.right i true hr hrest hn (hpath.1 hd) hsr hndr with ⟨e1, e2⟩ | ⟨e1, nd, e2, e3, e4⟩
        · refine ⟨by rw [e1]; simp [inners], nn, by rw [e1]; exact hnn, by omega, ?_⟩
          rw [e2, ← hdk, hd]
        · refine ⟨?_, nd, e2, e3, e4⟩
          simp only [inners, List.mem_cons, List.mem_append]
          exact .inr (.inr e1)
      · simp only [hd, Bool.false_eq_true, if_false] at hrest hn ⊢
        have hdf : dir nn.bp = false := by simpa using hd
        rcases ihl nn.bp nn.left i false hl hrest hn (hpath.2 hd) hsl hndl with ⟨e1, e2⟩ | ⟨e1, nd, e2, e3, e4⟩
        · refine ⟨by rw [e1]; simp [inners], nn, by rw [e1]; exact hnn, by omega, ?_⟩
          rw [e2, ← hdk, hdf]
        · refine ⟨?_, nd, e2, e3, e4⟩
          simp only [inners, List.mem_cons, List.mem_append]
          exact .inr (.inl e1)

/-- the direction `remove` computes for a link: `x != t.root && key.Bit(x.bp)` -/
theorem side_eval {t : Patricia V} (kn : Key) (x : Nat) (xn : PNode V) (hx : some x = t.root ∨ 1 ≤ xn.bp) :
    (if (some x != t.root) = true then BitString.bit kn xn.bp else (pure false : Outcome Bool)) =
      .ok ((some x != t.root) && xbit kn (xn.bp - 1)) := by
  by_cases h : some x = t.root
  · simp [h]
  · have hb : 1 ≤ xn.bp := by rcases hx with hx | hx; exact absurd hx h; exact hx
    have : (some x != t.root) = true := by simpa using h
    simp [this, BitString.bit_ok_of_pos kn (show 0 < xn.bp by omega)]

/-- changing only the `size` field keeps `Rep` -/
theorem Rep.resize {t : Patricia V} {T : PT V} {b : Nat} {p : Option Nat} (h : Rep t b p T) (sz : Int) :
    Rep { t with size := sz } b p T := by
  refine Rep.congr ?_ h
  rfl

/-- the facts about a deletion path that all three cases of `remove` share -/
structure DelCtx (t : Patricia V) (r0 : Nat) (rn : PNode V) (T : PT V) (m : Spec.Map V) (dir : Nat → Bool)
    (n rr rp np c : Nat) (gr : Bool) (kn : Key) (nn rrn : PNode V) (T1 : PT V) : Prop where
  inv : PInvS t r0 rn T m
  hn : n = (descendD T dir).1
  hrr : rr = (findEnd T r0 r0 dir).2.1
  hrp : rp = (cutAt T r0 false dir).1
  hgr : gr = (cutAt T r0 false dir).2.1
  hc : c = (cutAt T r0 false dir).2.2
  hnp : np = parentEnd T r0 n dir
  hkn : kn = (descendD T dir).2.1
  hnn : t.nodes[n]? = some nn
  hkey : nn.key = kn
  hrrn : t.nodes[rr]? = some rrn
  hrrbp : 1 ≤ rrn.bp
  hcptr : (if xbit kn (rrn.bp - 1) then rrn.left else rrn.right) = some c
  hrrT : rr ∈ inners T
  hct : contract T dir = some T1
  hop : OnPath T dir kn
  hside : (rp = r0 ∧ gr = false) ∨ (rp ∈ inners T ∧ ∃ nd, t.nodes[rp]? = some nd ∧ 1 ≤ nd.bp ∧ gr = xbit kn (nd.bp - 1))
  hup : UpOK t T 0

theorem DelCtx.mk' {t : Patricia V} {r0 : Nat} {rn : PNode V} {T : PT V} {m : Spec.Map V} (h : PInvS t r0 rn T m)
    (dir : Nat → Bool) (hT : ∃ i bp l r, T = .inner i bp l r) :
    ∃ nn rrn T1, DelCtx t r0 rn T m dir (descendD T dir).1 (findEnd T r0 r0 dir).2.1 (cutAt T r0 false dir).1
      (parentEnd T r0 (descendD T dir).1 dir) (cutAt T r0 false dir).2.2 (cutAt T r0 false dir).2.1
      (descendD T dir).2.1 nn rrn T1 := by
  obtain ⟨nn, hnn, hkey, _⟩ := h.rep.descendD_node dir
  have hop := onPath_of_crit h.crit dir
  obtain ⟨⟨rrn, hrrn, hrrbp, hcp⟩, hside⟩ := cut_store dir (descendD T dir).2.1 T 0 rn.left r0 false r0 h.rep hT hop
  have hrrT : (findEnd T r0 r0 dir).2.1 ∈ inners T := by
    rcases findEnd_r T r0 r0 dir with ⟨⟨i, k, v, hh⟩, _⟩ | ⟨_, hm, _⟩
    · obtain ⟨_, _, _, _, h2⟩ := hT; rw [h2] at hh; cases hh
    · exact hm
  obtain ⟨T1, hct⟩ : ∃ T1, contract T dir = some T1 := by
    cases hc : contract T dir with
    | none =>
      obtain ⟨_, _, _, hh⟩ := (contract_none_iff T dir).mp hc
      obtain ⟨_, _, _, _, h2⟩ := hT; rw [h2] at hh; cases hh
    | some T1 => exact ⟨T1, rfl⟩
  have hup : UpOK t T 0 := by
    intro x hx hxi
    have : x ∈ r0 :: inners T := h.leafPerm.subset hx
    rcases List.mem_cons.mp this with e | e
    · subst e; exact ⟨rn, h.hrn, by rw [h.hbp]; exact Nat.le_refl _⟩
    · exact absurd e hxi
  exact ⟨nn, rrn, T1, ⟨h, rfl, rfl, rfl, rfl, rfl, rfl, rfl, hnn, hkey, hrrn, hrrbp, hcp, hrrT, hct, hop, hside, hup⟩⟩

section
variable {t : Patricia V} {r0 : Nat} {rn : PNode V} {T : PT V} {m : Spec.Map V} {dir : Nat → Bool}
  {n rr rp np c : Nat} {gr : Bool} {kn : Key} {nn rrn : PNode V} {T1 : PT V}

/-- whatever store represents the contracted and renamed tree below the right root satisfies the invariant for the
Spec's map without the removed key -/
theorem DelCtx.finish (cx : DelCtx t r0 rn T m dir n rr rp np c gr kn nn rrn T1) (t' : Patricia V) (rn' : PNode V)
    (hroot : t'.root = some (if n = r0 then rr else r0))
    (hrn : t'.nodes[if n = r0 then rr else r0]? = some rn') (hbp : rn'.bp = 0) (hright : rn'.right = none)
    (hrep : Rep t' 0 rn'.left (rename n rr T1)) (hsize : t'.size = t.size - 1) :
    PInv t' (Spec.Map.delete m kn) := by
  have h := cx.inv
  have hinv := del_invariants h.selfBelow h.nodupI h.rootNotInner h.leafPerm cx.hct r0
  simp only [← cx.hn, ← cx.hrr] at hinv
  obtain ⟨i1, i2, i3, i4, i5⟩ := hinv
  have hcrit : Crit (rename n rr T1) := crit_rename (crit_contract h.crit cx.hct)
  have hents : ents (rename n rr T1) = Spec.Map.delete m kn := by
    rw [ents_rename]
    apply Sorted.ext (PT.sorted_ents (crit_contract h.crit cx.hct)) (h.sorted.filter _)
    intro e
    rw [mem_ents_contract h.crit cx.hct, ← cx.hkn, h.ents]
    simp [Spec.Map.delete]
  have hlen := length_ents_contract cx.hct
  refine .inr ⟨(if n = r0 then rr else r0), rn', rename n rr T1, ?_⟩
  exact {
    hroot := hroot, hrn := hrn, hbp := hbp, hright := hright, rep := hrep, crit := hcrit, ents := hents,
    size := by
      rw [hsize, h.size, ← hents, ents_rename, ← h.ents]
      omega,
    nodupI := i1, nodupL := i2, rootNotInner := i3, topLeaf := topLeaf_of_perm i5, selfBelow := i4, leafPerm := i5 }

/-- the Spec's map has at least two entries when the tree is not a single leaf -/
theorem DelCtx.size_ne (cx : DelCtx t r0 rn T m dir n rr rp np c gr kn nn rrn T1) : t.size - 1 ≠ 0 := by
  have h := cx.inv
  have hlen := length_ents_contract cx.hct
  have : (ents T1).length ≠ 0 := by
    intro e; exact ents_ne_nil T1 (List.length_eq_zero_iff.mp e)
  rw [h.size, ← h.ents]
  omega

theorem DelCtx.inner (cx : DelCtx t r0 rn T m dir n rr rp np c gr kn nn rrn T1) : ∃ i bp l r, T = .inner i bp l r := by
  have := cx.hrrT
  cases T with
  | leaf => simp [inners] at this
  | inner i bp l r => exact ⟨i, bp, l, r, rfl⟩

theorem DelCtx.rr_ne_root (cx : DelCtx t r0 rn T m dir n rr rp np c gr kn nn rrn T1) : rr ≠ r0 :=
  fun e => cx.inv.rootNotInner (e ▸ cx.hrrT)

/-- the first steps of `remove`, common to all cases: the other child `c` of the referrer -/
theorem DelCtx.remove_c (cx : DelCtx t r0 rn T m dir n rr rp np c gr kn nn rrn T1) :
    (if (some rr == t.root) = true then (Outcome.ok rrn.left : Outcome (Option Nat)) else do
      let b ← nn.key.bit rrn.bp
      Outcome.ok (if b = true then rrn.left else rrn.right)) = .ok (some c) := by
  have h0 : (some rr == t.root) = false := by
    rw [cx.inv.hroot]; simpa using cx.rr_ne_root
  rw [if_neg (by simp [h0]), BitString.bit_ok_of_pos nn.key (show 0 < rrn.bp from cx.hrrbp)]
  simp only [bind_ok, cx.hkey, cx.hcptr]

/-- the direction `remove` computes for the link of `rp` is the one `cutAt` found -/
theorem DelCtx.rp_side (cx : DelCtx t r0 rn T m dir n rr rp np c gr kn nn rrn T1) :
    ∃ rpn, t.nodes[rp]? = some rpn ∧
      (if (some rp != t.root) = true then nn.key.bit rpn.bp else (Outcome.ok false : Outcome Bool)) = .ok gr := by
  rcases cx.hside with ⟨e1, e2⟩ | ⟨e1, nd, e3, e4, e5⟩
  · refine ⟨rn, by rw [e1]; exact cx.inv.hrn, ?_⟩
    have := side_eval (t := t) nn.key rp rn (.inl (by rw [e1, cx.inv.hroot]))
    simp only [pure_eq_ok] at this
    rw [this]
    simp [e1, cx.inv.hroot, e2]
  · refine ⟨nd, e3, ?_⟩
    have hse := side_eval (t := t) nn.key rp nd (.inr e4)
    simp only [pure_eq_ok] at hse
    rw [hse]
    have : (some rp != t.root) = true := by
      rw [cx.inv.hroot]; simpa using fun e : rp = r0 => cx.inv.rootNotInner (e ▸ e1)
    simp [this, cx.hkey, e5]

/-- case 1 of `remove`: the removed leaf hangs off its own node -/
theorem DelCtx.remove_A (cx : DelCtx t r0 rn T m dir n rr rp np c gr kn nn rrn T1) (hA : rr = n) :
    ∃ t', t.remove n rr rp np = .ok t' ∧ PInv t' (Spec.Map.delete m kn) := by
  have h := cx.inv
  have hT := cx.inner
  have hrpF : rp = (findEnd T r0 r0 dir).1 := by rw [cx.hrp]; exact cutAt_fst T r0 r0 false dir hT
  have hnF : n = (findEnd T r0 r0 dir).2.2 := by rw [cx.hn, findEnd_n]
  have hnp : np = rp := by
    rw [cx.hnp, hrpF, hnF]
    apply parentEnd_of_self T r0 r0 dir h.nodupI hT
    rw [← cx.hrr, ← hnF]; exact hA
  obtain ⟨rpn, hrpn, hsd⟩ := cx.rp_side
  have hn0 : n ≠ r0 := by rw [← hA]; exact cx.rr_ne_root
  obtain ⟨hX, hN⟩ := contract_rep dir T 0 rn.left r0 rn false r0 T1 h.rep h.hrn h.hbp cx.hup h.selfBelow h.nodupL h.nodupI
    h.rootNotInner cx.hct
  rw [← cx.hrp, ← cx.hgr, ← cx.hc, ← cx.hrr] at hX
  rw [← cx.hrp, ← cx.hgr, ← cx.hc] at hN
  have hnl : rr ∉ leafIdx T1 := by
    have hPL := leafIdx_contract_perm cx.hct
    rw [← cx.hn, ← hA] at hPL
    exact (List.nodup_cons.mp (hPL.nodup_iff.mpr h.nodupL)).1
  have hrep := hX.toRep hnl
  refine ⟨{ setLink t rp gr (some c) with size := t.size - 1 }, ?_, ?_⟩
  · have hbeq : (n == rr) = true := by simp [hA]
    simp only [Patricia.remove, node_some cx.hnn, node_some cx.hrrn, bind_ok, pure_eq_ok, cx.remove_c, hbeq, if_true, hnp,
      node_some hrpn, hsd]
    have hsz : ((t.size - 1 == 0) = false) := by simpa using cx.size_ne
    simp only [hsz, Bool.false_eq_true, if_false]
    cases gr <;> rfl
  · apply cx.finish _ (if rp = r0 then relink rn false (some c) else rn)
    · simp only [hn0, if_false]
      show (setLink t rp gr (some c)).root = some r0
      rw [(setLink_root t rp gr (some c)).1]; exact h.hroot
    · simp only [hn0, if_false]
      exact hN
    · split <;> simp [h.hbp]
    · split <;> simp [relink, h.hright]
    · rw [← hA, rename_self]
      have : (if rp = r0 then relink rn false (some c) else rn).left = (if rp = r0 then some c else rn.left) := by
        split <;> simp [relink]
      rw [this]
      exact hrep.resize _
    · rfl

/-- case 2 of `remove` when the removed leaf is the root's own thread: the referrer becomes the root -/
theorem DelCtx.remove_B1 (cx : DelCtx t r0 rn T m dir n rr rp np c gr kn nn rrn T1) (hB : rr ≠ n) (hni : n ∉ inners T) :
    ∃ t', t.remove n rr rp np = .ok t' ∧ PInv t' (Spec.Map.delete m kn) := by
  have h := cx.inv
  have hT := cx.inner
  have hn0 : n = r0 := by
    have : n ∈ r0 :: inners T := h.leafPerm.subset (by rw [cx.hn]; exact descendD_idx_mem T dir)
    rcases List.mem_cons.mp this with e | e
    · exact e
    · exact absurd e hni
  have hnp : np = rr := by rw [cx.hnp, cx.hrr]; exact parentEnd_of_not_inner T r0 r0 n dir hni
  obtain ⟨rpn, hrpn, hsd⟩ := cx.rp_side
  have hrpF : rp = (findEnd T r0 r0 dir).1 := by rw [cx.hrp]; exact cutAt_fst T r0 r0 false dir hT
  have hrprr : rp ≠ rr := by
    rw [hrpF, cx.hrr]; exact findEnd_rp_ne_rr T r0 r0 dir hT h.rootNotInner h.nodupI
  have hrr0 := cx.rr_ne_root
  obtain ⟨hX, hN⟩ := contract_rep dir T 0 rn.left r0 rn false r0 T1 h.rep h.hrn h.hbp cx.hup h.selfBelow h.nodupL h.nodupI
    h.rootNotInner cx.hct
  rw [← cx.hrp, ← cx.hgr, ← cx.hc, ← cx.hrr] at hX
  rw [← cx.hrp, ← cx.hgr, ← cx.hc] at hN
  -- the referrer's node after the first update, and the direction of the (dead) second update
  have h1rr : (setLink t rp gr (some c)).nodes[rr]? = some rrn := by
    rw [setLink_nodes]; simp [hrprr, cx.hrrn]
  have hroot_ne : (some rr != t.root) = true := by rw [h.hroot]; simpa using hrr0
  have hsd2 : (if (some rr != t.root) = true then nn.key.bit rrn.bp else (Outcome.ok false : Outcome Bool)) =
      .ok (xbit kn (rrn.bp - 1)) := by
    rw [if_pos hroot_ne, BitString.bit_ok_of_pos nn.key (show 0 < rrn.bp from cx.hrrbp), cx.hkey]
  let Nn : PNode V := if rp = r0 then relink rn false (some c) else rn
  let t2 : Patricia V := setLink (setLink t rp gr (some c)) rr (xbit kn (rrn.bp - 1)) (some rr)
  let tf : Patricia V := { recycle t2 rr Nn with root := some rr, size := t.size - 1 }
  have ht2r0 : t2.nodes[r0]? = some Nn := by
    show (setLink (setLink t rp gr (some c)) rr _ _).nodes[r0]? = _
    rw [setLink_nodes]; simp only [hrr0, if_false]; exact hN
  have hPI := inners_contract_perm cx.hct r0 r0
  rw [← cx.hrr] at hPI
  have hrr1 : rr ∉ inners T1 := (List.nodup_cons.mp (hPI.nodup_iff.mpr h.nodupI)).1
  have hsub : ∀ x ∈ inners T1, x ∈ inners T := fun x hx => hPI.subset (List.mem_cons_of_mem _ hx)
  have hNbp : Nn.bp = 0 := by show (if rp = r0 then relink rn false (some c) else rn).bp = 0; split <;> simp [h.hbp]
  have hNright : Nn.right = none := by
    show (if rp = r0 then relink rn false (some c) else rn).right = none; split <;> simp [relink, h.hright]
  have hNleft : Nn.left = (if rp = r0 then some c else rn.left) := by
    show (if rp = r0 then relink rn false (some c) else rn).left = _; split <;> simp [relink]
  have htf_nodes : ∀ x, tf.nodes[x]? = if rr = x then (t2.nodes[x]?).map
      (fun y => { y with bp := Nn.bp, left := Nn.left, right := Nn.right }) else t2.nodes[x]? := by
    intro x; simp [tf, recycle, Array.getElem?_modify]
  have ht2_nodes : ∀ x, x ≠ rr → t2.nodes[x]? = (setLink t rp gr (some c)).nodes[x]? := by
    intro x hx
    show (setLink (setLink t rp gr (some c)) rr _ _).nodes[x]? = _
    rw [setLink_nodes]; simp [Ne.symm hx]
  have ht2rr : ∃ y, t2.nodes[rr]? = some y ∧ y.key = rrn.key ∧ y.val = rrn.val := by
    refine ⟨relink rrn (xbit kn (rrn.bp - 1)) (some rr), ?_, by simp, by simp⟩
    show (setLink (setLink t rp gr (some c)) rr _ _).nodes[rr]? = _
    rw [setLink_nodes]; simp [h1rr]
  obtain ⟨yrr, hyrr, _, _⟩ := ht2rr
  refine ⟨tf, ?_, ?_⟩
  · have hbeq : (n == rr) = false := by simpa using fun e : n = rr => hB e.symm
    have hrootbeq : (some n == (setLink (setLink t rp gr (some c)) rr (xbit kn (rrn.bp - 1)) (some rr)).root) = true := by
      rw [(setLink_root _ _ _ _).1, (setLink_root _ _ _ _).1, h.hroot, hn0]; simp
    simp only [Patricia.remove, node_some cx.hnn, node_some cx.hrrn, bind_ok, pure_eq_ok, cx.remove_c, hbeq,
      Bool.false_eq_true, if_false, node_some hrpn, hsd, hnp]
    have e1 : (if gr = true then t.setRight rp (some c) else t.setLeft rp (some c)) = setLink t rp gr (some c) := by
      cases gr <;> rfl
    rw [e1, node_some h1rr]
    simp only [bind_ok, hsd2]
    have e2 : (if xbit kn (rrn.bp - 1) = true then (setLink t rp gr (some c)).setRight rr (some rr)
        else (setLink t rp gr (some c)).setLeft rr (some rr)) = t2 := by
      show _ = setLink (setLink t rp gr (some c)) rr (xbit kn (rrn.bp - 1)) (some rr)
      cases xbit kn (rrn.bp - 1) <;> rfl
    rw [e2]
    have hrootbeq' : (some n == t2.root) = true := hrootbeq
    simp only [hrootbeq', if_true]
    have hnode : Patricia.node ({ t2 with root := some rr } : Patricia V) (some n) = .ok Nn := by
      rw [hn0]; exact node_some ht2r0
    rw [hnode]
    have hsz : ((t.size - 1 == 0) = false) := by simpa using cx.size_ne
    simp only [bind_ok, hsz, Bool.false_eq_true, if_false]
    rfl
  · apply cx.finish tf { yrr with bp := Nn.bp, left := Nn.left, right := Nn.right }
    · simp only [hn0, if_true]; rfl
    · simp only [hn0, if_true]
      rw [htf_nodes]; simp [hyrr]
    · exact hNbp
    · exact hNright
    · rw [rename_of_not_mem rr (fun e => hni (hsub _ e))]
      show Rep tf 0 Nn.left T1
      rw [hNleft]
      apply hX.settle 0 (Nat.le_refl _)
      · intro x hx y hy
        have hxr : x ≠ rr := fun e => hrr1 (e ▸ hx)
        refine ⟨y, ?_, rfl, rfl, rfl⟩
        rw [htf_nodes]; simp only [Ne.symm hxr, if_false]
        rw [ht2_nodes x hxr]; exact hy
      · intro x _ y hy
        by_cases hxr : x = rr
        · subst hxr
          rw [h1rr] at hy; cases hy
          refine ⟨{ yrr with bp := Nn.bp, left := Nn.left, right := Nn.right }, ?_, by assumption, by assumption, ?_⟩
          · rw [htf_nodes]; simp [hyrr]
          · simp [hNbp]
        · refine ⟨y, ?_, rfl, rfl, by simp [hxr]⟩
          rw [htf_nodes]; simp only [Ne.symm hxr, if_false]
          rw [ht2_nodes x hxr]; exact hy
    · rfl

/-- case 2 of `remove` when the removed leaf's node is an inner node of the tree: the referrer takes its place -/
theorem DelCtx.remove_B2 (cx : DelCtx t r0 rn T m dir n rr rp np c gr kn nn rrn T1) (hB : rr ≠ n) (hmem : n ∈ inners T) :
    ∃ t', t.remove n rr rp np = .ok t' ∧ PInv t' (Spec.Map.delete m kn) := by
  have h := cx.inv
  have hT := cx.inner
  have hn0 : n ≠ r0 := fun e => h.rootNotInner (e ▸ hmem)
  obtain ⟨rpn, hrpn, hsd⟩ := cx.rp_side
  have hrpF : rp = (findEnd T r0 r0 dir).1 := by rw [cx.hrp]; exact cutAt_fst T r0 r0 false dir hT
  have hrprr : rp ≠ rr := by
    rw [hrpF, cx.hrr]; exact findEnd_rp_ne_rr T r0 r0 dir hT h.rootNotInner h.nodupI
  have hnpn : np ≠ n := by rw [cx.hnp]; exact parentEnd_ne T r0 n dir (Ne.symm hn0)
  -- the node whose link leads to the removed leaf's node, and the direction `remove` computes for it
  have hside2 := side_store (t := t) dir kn n T 0 rn.left r0 false h.rep cx.hop cx.hn hmem h.selfBelow h.nodupL
  rw [← cx.hnp] at hside2
  obtain ⟨npn, hnpn1, hsd2⟩ : ∃ npn, (setLink t rp gr (some c)).nodes[np]? = some npn ∧
      (if (some np != t.root) = true then nn.key.bit npn.bp else (Outcome.ok false : Outcome Bool)) =
        .ok (sideOf T false n dir) := by
    rcases hside2 with ⟨e1, e2⟩ | ⟨e1, nd, e3, e4, e5⟩
    · refine ⟨if rp = np then relink rn gr (some c) else rn, ?_, ?_⟩
      · rw [setLink_nodes]; split <;> simp [e1, h.hrn]
      · have hse := side_eval (t := t) nn.key np (if rp = np then relink rn gr (some c) else rn)
          (.inl (by rw [e1, h.hroot]))
        simp only [pure_eq_ok] at hse
        rw [hse]; simp [e1, h.hroot, e2]
    · refine ⟨if rp = np then relink nd gr (some c) else nd, ?_, ?_⟩
      · rw [setLink_nodes]; split <;> simp [e3]
      · have hbp : (if rp = np then relink nd gr (some c) else nd).bp = nd.bp := by split <;> simp
        have hse := side_eval (t := t) nn.key np (if rp = np then relink nd gr (some c) else nd) (.inr (by rw [hbp]; exact e4))
        simp only [pure_eq_ok] at hse
        rw [hse, hbp]
        have : (some np != t.root) = true := by
          rw [h.hroot]; simpa using fun e : np = r0 => h.rootNotInner (e ▸ e1)
        simp [this, cx.hkey, e5]
  obtain ⟨Nn, hNn⟩ : ∃ Nn, (setLink t rp gr (some c)).nodes[n]? = some Nn := by
    rw [setLink_nodes]
    by_cases e : rp = n
    · exact ⟨relink nn gr (some c), by simp [e, cx.hnn]⟩
    · exact ⟨nn, by simp [e, cx.hnn]⟩
  obtain ⟨hrep, hnode⟩ := rename_rep (t := t) dir n rr rp np c gr (sideOf T false n dir) Nn T 0 rn.left r0 rn false r0 T1
    h.rep h.hrn h.hbp cx.hup h.selfBelow h.nodupL h.nodupI h.rootNotInner cx.hn hmem cx.hrr hB cx.hct cx.hrp cx.hgr cx.hc
    cx.hnp rfl hNn hrprr
  let tf : Patricia V := { final1 (setLink t rp gr (some c)) np (sideOf T false n dir) rr Nn with size := t.size - 1 }
  refine ⟨tf, ?_, ?_⟩
  · have hbeq : (n == rr) = false := by simpa using fun e : n = rr => hB e.symm
    simp only [Patricia.remove, node_some cx.hnn, node_some cx.hrrn, bind_ok, pure_eq_ok, cx.remove_c, hbeq,
      Bool.false_eq_true, if_false, node_some hrpn, hsd]
    have e1 : (if gr = true then t.setRight rp (some c) else t.setLeft rp (some c)) = setLink t rp gr (some c) := by
      cases gr <;> rfl
    rw [e1, node_some hnpn1]
    simp only [bind_ok, hsd2]
    have e2 : (if sideOf T false n dir = true then (setLink t rp gr (some c)).setRight np (some rr)
        else (setLink t rp gr (some c)).setLeft np (some rr)) =
        setLink (setLink t rp gr (some c)) np (sideOf T false n dir) (some rr) := by
      cases sideOf T false n dir <;> rfl
    rw [e2]
    have hrootbeq : (some n == (setLink (setLink t rp gr (some c)) np (sideOf T false n dir) (some rr)).root) = false := by
      rw [(setLink_root _ _ _ _).1, (setLink_root _ _ _ _).1, h.hroot]; simpa using hn0
    simp only [hrootbeq, Bool.false_eq_true, if_false]
    have hnode2 : (setLink (setLink t rp gr (some c)) np (sideOf T false n dir) (some rr)).node (some n) = .ok Nn := by
      apply node_some
      rw [setLink_nodes]; simp [hnpn, hNn]
    rw [hnode2]
    have hsz : ((t.size - 1 == 0) = false) := by simpa using cx.size_ne
    simp only [bind_ok, hsz, Bool.false_eq_true, if_false]
    rfl
  · apply cx.finish tf (if np = r0 then relink rn (sideOf T false n dir) (some rr) else rn)
    · simp only [hn0, if_false]
      show (final1 (setLink t rp gr (some c)) np (sideOf T false n dir) rr Nn).root = some r0
      rw [(final1_root (setLink t rp gr (some c)) np (sideOf T false n dir) rr Nn).1, (setLink_root t rp gr (some c)).1]
      exact h.hroot
    · simp only [hn0, if_false]; exact hnode
    · split <;> simp [h.hbp]
    · by_cases e : np = r0
      · have : sideOf T false n dir = false :=
          sideOf_of_parentEnd_eq T r0 n false dir h.rootNotInner (by rw [← cx.hnp]; exact e)
        simp [e, this, relink, h.hright]
      · simp [e, h.hright]
    · have : (if np = r0 then relink rn (sideOf T false n dir) (some rr) else rn).left
          = (if np = r0 then some rr else rn.left) := by
        by_cases e : np = r0
        · have : sideOf T false n dir = false :=
            sideOf_of_parentEnd_eq T r0 n false dir h.rootNotInner (by rw [← cx.hnp]; exact e)
          simp [e, this, relink]
        · simp [e]
      rw [this]
      exact hrep.resize _
    · rfl

/-- `remove`, applied to the nodes the two loops of a deletion find, yields a store for the Spec's map without the
key of the removed leaf -/
theorem DelCtx.remove_sim (cx : DelCtx t r0 rn T m dir n rr rp np c gr kn nn rrn T1) :
    ∃ t', t.remove n rr rp np = .ok t' ∧ PInv t' (Spec.Map.delete m kn) := by
  by_cases hA : rr = n
  · exact cx.remove_A hA
  · by_cases hm : n ∈ inners T
    · exact cx.remove_B2 hA hm
    · exact cx.remove_B1 hA hm

end

/-! ## `_delete` / `DeleteMin` / `DeleteMax` -/

/-- the entry a deletion is aimed at -/
def delTarget (m : Spec.Map V) (key : Option BitString) (goRight : Bool) : Option (Key × V) :=
  match key with
  | some k => m.find? (fun e => e.1 == k)
  | none => if goRight then m.getLast? else m.head?

theorem find?_key_of_mem {m : Spec.Map V} (hs : Sorted m) {k : Key} {v : V} (h : (k, v) ∈ m) :
    m.find? (fun e => e.1 == k) = some (k, v) := by
  induction m with
  | nil => simp at h
  | cons x m ih =>
    simp only [List.find?_cons]
    by_cases hx : (x.1 == k) = true
    · have hk : x.1 = k := by simpa using hx
      simp only [hx]
      rcases List.mem_cons.mp h with e | e
      · rw [e]
      · have := hs.head_lt _ e
        rw [hk] at this; simp [klt_irrefl] at this
    · have hx' : (x.1 == k) = false := by simpa using hx
      simp only [hx']
      rcases List.mem_cons.mp h with e | e
      · rw [← e] at hx'; simp at hx'
      · exact ih hs.tail e

theorem find?_key_none {m : Spec.Map V} {k : Key} (h : ∀ e ∈ m, e.1 ≠ k) : m.find? (fun e => e.1 == k) = none := by
  rw [List.find?_eq_none]
  intro e he; simpa using h e he

/-- `found` in `deleteWith` -/
def foundB (key : Option BitString) (k' : Key) : Bool :=
  match key with
  | some k => BitString.equal k' k
  | none => true

theorem deleteWith_eq (t : Patricia V) (key : Option BitString) (goRight : Bool) :
    t.deleteWith key goRight =
      (match t.root with
      | none => .ok (t, none)
      | some r => do
        let rt ← t.node (some r)
        let (rp, rr, n) ← findLoop t key goRight t.fuel (some r) (some r) rt.left
        let nn ← t.node n
        if !(foundB key nn.key) then pure (t, none)
        else
          let np ← parentLoop t key goRight n (2 * t.fuel) (some r) rt.left
          match n, rr, rp, np with
          | some n, some rr, some rp, some np =>
            let t' ← t.remove n rr rp np
            pure (t', some (nn.key, nn.val))
          | _, _, _, _ => .panic) := by
  cases key <;> rfl

theorem deleteWith_sim {t : Patricia V} {m : Spec.Map V} (h : PInv t m) (key : Option BitString) (goRight : Bool) :
    ∃ t', t.deleteWith key goRight = .ok (t', delTarget m key goRight) ∧
      PInv t' (match delTarget m key goRight with
        | none => m
        | some e => Spec.Map.delete m e.1) := by
  rcases h with ⟨hr, rfl, hsz⟩ | ⟨r0, rn, T, h⟩
  · refine ⟨t, by cases key <;> cases goRight <;> simp [deleteWith, hr, delTarget], ?_⟩
    have : delTarget ([] : Spec.Map V) key goRight = none := by cases key <;> cases goRight <;> simp [delTarget]
    rw [this]; exact .inl ⟨hr, rfl, hsz⟩
  · -- the leaf the path ends at
    have hfuel : above t 0 < t.fuel := by have := above_le_size t 0; unfold fuel; omega
    have hfuel2 : above t 0 < 2 * t.fuel := by omega
    obtain ⟨nn, hnn, hkey, hval⟩ := h.rep.descendD_node (dirM key goRight)
    have hfind := findLoop_rep key goRight T 0 rn.left r0 r0 rn t.fuel h.rep h.hrn h.hbp hfuel
    have hpar := parentLoop_rep key goRight (descendD T (dirM key goRight)).1 T 0 rn.left r0 (2 * t.fuel) h.rep rfl hfuel2
    have hemem : ((descendD T (dirM key goRight)).2.1, (descendD T (dirM key goRight)).2.2) ∈ m :=
      h.ents ▸ descendD_mem T (dirM key goRight)
    have hfound : foundB key nn.key = true → delTarget m key goRight = some (nn.key, nn.val) := by
      intro hf
      rw [hkey, hval]
      cases key with
      | some k =>
        have hk : nn.key = k := (BitString.equal_iff _ _).mp hf
        have hk2 : (descendD T (dirM (some k) goRight)).2.1 = k := by rw [← hkey]; exact hk
        show List.find? (fun e => e.1 == k) m = _
        have := find?_key_of_mem h.sorted hemem
        rw [hk2] at this ⊢
        exact this
      | none =>
        cases goRight
        · have hd : dirM none false = fun _ => false := rfl
          have := descendD_left T
          rw [hd]
          simp only [delTarget, Bool.false_eq_true, if_false]
          rw [← h.ents]
          simpa using this
        · have hd : dirM none true = fun _ => true := rfl
          have := descendD_right T
          rw [hd]
          simp only [delTarget, if_true]
          rw [← h.ents]
          simpa using this
    have hnotfound : foundB key nn.key = false → delTarget m key goRight = none := by
      intro hf
      cases key with
      | none => simp [foundB] at hf
      | some k =>
        show List.find? (fun e => e.1 == k) m = none
        apply find?_key_none
        intro e he hek
        have hne : nn.key ≠ k := by
          intro e'
          have : foundB (some k) nn.key = true := (BitString.equal_iff _ _).mpr e'
          rw [this] at hf; cases hf
        apply hne
        rw [hkey]
        have hdk : descendD T (dirM (some k) goRight) = descend T k := by
          have : dirM (some k) goRight = fun bp => xbit k (bp - 1) := rfl
          rw [this, descendD_key]
        rw [hdk]
        exact descend_of_mem h.crit (List.mem_map.mpr ⟨e, h.ents ▸ he, hek⟩)
    have hfn : (findEnd T r0 r0 (dirM key goRight)).2.2 = (descendD T (dirM key goRight)).1 := findEnd_n _ _ _ _
    rw [deleteWith_eq, h.hroot]
    simp only [node_some h.hrn, bind_ok, hfind, hfn, node_some hnn, pure_eq_ok]
    cases hf : foundB key nn.key
    · -- absent key
      rw [hnotfound hf]
      exact ⟨t, by simp, .inr ⟨r0, rn, T, h⟩⟩
    · rw [hfound hf]
      simp only [Bool.not_true, Bool.false_eq_true, if_false, hpar, bind_ok]
      cases hT : T with
      | leaf i k v =>
        -- the only key
        have hi : i = r0 := h.topLeaf i k v hT
        subst hT; subst hi
        have hm : m = [(k, v)] := by rw [← h.ents]; rfl
        have hsz1 : t.size = 1 := by rw [h.size, hm]; rfl
        obtain ⟨hl, n', hn', _, hk', hv'⟩ := h.rep
        rw [h.hrn] at hn'; cases hn'
        have hnnrn : nn = rn := by
          simp only [descendD] at hnn
          rw [h.hrn] at hnn; exact (Option.some.inj hnn).symm
        subst hnnrn
        refine ⟨{ t.setLeft i nn.left with size := t.size - 1, root := none }, ?_, ?_⟩
        · simp only [findEnd, parentEnd, descendD, Patricia.remove, node_some h.hrn, h.hroot, bind_ok,
            beq_self_eq_true, if_true, pure_eq_ok, bne_self_eq_false, hsz1]
          simp
        · have : Spec.Map.delete m nn.key = [] := by
            rw [hm, hk']; simp [Spec.Map.delete]
          simp only [this]
          exact .inl ⟨rfl, rfl, by show t.size - 1 = 0; rw [hsz1]; rfl⟩
      | inner i bp l r =>
        obtain ⟨nn2, rrn, T1, cx⟩ := DelCtx.mk' h (dirM key goRight) ⟨i, bp, l, r, hT⟩
        obtain ⟨t', hrm, hinv⟩ := cx.remove_sim
        rw [← hT]
        have hrpF : (cutAt T r0 false (dirM key goRight)).1 = (findEnd T r0 r0 (dirM key goRight)).1 :=
          cutAt_fst T r0 r0 false _ ⟨i, bp, l, r, hT⟩
        rw [hrpF] at hrm
        refine ⟨t', by simp only [hrm, bind_ok], ?_⟩
        rw [hkey]; exact hinv

/-! ## every operation, every history -/

theorem Spec.Map.delete_absent {m : Spec.Map V} {k : Key} (h : m.find? (fun e => e.1 == k) = none) :
    Spec.Map.delete m k = m := by
  simp only [Spec.Map.delete]
  rw [List.filter_eq_self]
  intro e he
  have := List.find?_eq_none.mp h e he
  simpa using this

theorem step_all {t : Patricia V} {m : Spec.Map V} (h : PInv t m) (hne : ∀ e ∈ m, e.1 ≠ []) (op : Op V)
    (hk : op.smallKeys = true) :
    ∃ t', t.step op = .ok (t', (Spec.Map.step m op).2) ∧ PInv t' (Spec.Map.step m op).1 ∧
      ∀ e ∈ (Spec.Map.step m op).1, e.1 ≠ [] := by
  by_cases hs : (∀ k, op ≠ .delete k) ∧ op ≠ .deleteMin ∧ op ≠ .deleteMax
  · exact step_sim h hne op hs hk
  · have hsorted := h.sortedMap
    cases op with
    | delete k =>
      obtain ⟨t', h1, h2⟩ := deleteWith_sim h (some k) false
      simp only [delTarget] at h1 h2
      refine ⟨t', ?_, ?_, ?_⟩
      · simp [Patricia.step, Patricia.delete, h1, Outcome.map, Spec.Map.step, Spec.Map.get]
      · simp only [Spec.Map.step]
        cases hf : m.find? (fun e => e.1 == k) with
        | none => rw [hf] at h2; rw [Spec.Map.delete_absent hf]; exact h2
        | some e =>
          rw [hf] at h2
          have : e.1 = k := by simpa using List.find?_some hf
          rw [← this]; exact h2
      · simp only [Spec.Map.step, Spec.Map.delete]
        intro e he; exact hne e (List.mem_filter.mp he).1
    | deleteMin =>
      obtain ⟨t', h1, h2⟩ := deleteWith_sim h none false
      simp only [delTarget, Bool.false_eq_true, if_false] at h1 h2
      refine ⟨t', by simp [Patricia.step, Patricia.deleteMin, h1, Outcome.map, Spec.Map.step, Spec.Map.min], ?_, ?_⟩
      · simp only [Spec.Map.step, Spec.Map.deleteMin]
        cases m with
        | nil => simpa using h2
        | cons e m' =>
          simp only [List.head?_cons, List.tail_cons] at h2 ⊢
          rw [Spec.Map.delete_head (k := e.1) (v := e.2) hsorted] at h2
          exact h2
      · simp only [Spec.Map.step, Spec.Map.deleteMin]
        intro e he; exact hne e (List.mem_of_mem_tail he)
    | deleteMax =>
      obtain ⟨t', h1, h2⟩ := deleteWith_sim h none true
      simp only [delTarget, if_true] at h1 h2
      refine ⟨t', by simp [Patricia.step, Patricia.deleteMax, h1, Outcome.map, Spec.Map.step, Spec.Map.max], ?_, ?_⟩
      · simp only [Spec.Map.step, Spec.Map.deleteMax]
        cases hl : m.getLast? with
        | none =>
          rw [hl] at h2
          have : m = [] := List.getLast?_eq_none_iff.mp hl
          subst this; simpa using h2
        | some e =>
          rw [hl] at h2
          simp only at h2
          rw [Spec.Map.delete_last hsorted (k := e.1) (v := e.2) hl] at h2
          exact h2
      · simp only [Spec.Map.step, Spec.Map.deleteMax]
        intro e he; exact hne e ((List.dropLast_sublist m).subset he)
    | _ => exact absurd ⟨fun k hh => (by cases hh), fun hh => (by cases hh), fun hh => (by cases hh)⟩ hs

theorem run_sim {t : Patricia V} {m : Spec.Map V} (h : PInv t m) (hne : ∀ e ∈ m, e.1 ≠ []) (ops : List (Op V))
    (hh : PatriciaHistory ops = true) :
    Patricia.run t ops = (Spec.Map.run m ops).map Outcome.ok := by
  induction ops generalizing t m with
  | nil => rfl
  | cons op ops ih =>
    simp only [PatriciaHistory, Bool.and_eq_true] at hh
    obtain ⟨hk, hrest⟩ := hh
    obtain ⟨t', h1, h2, h3⟩ := step_all h hne op hk
    simp only [Patricia.run, runTrace, h1, Spec.Map.run, runSpec, List.map_cons]
    congr 1
    exact ih h2 h3 hrest

end Patricia
end AlgoVerif.C06
