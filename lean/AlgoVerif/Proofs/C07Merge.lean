import AlgoVerif.Proofs.C07Basic
/-!
# C07 — merge sorts (`sort/merge.go`): bottom-up `Merge` and top-down `MergeRec`

`merge` is tied to core's `List.merge`: the loop lemma shows that the array after the loop is the
array before it with the segment `[lo, hi]` replaced by `List.merge` of the two halves read from
`aux`; sortedness and the permutation property then come from `List.pairwise_merge` and
`List.merge_perm_append`.  The two drivers are fuel inductions with index-style invariants.
-/
namespace AlgoVerif.C07
open AlgoVerif

variable {α : Type}

/-! ## list segments of an array -/

/-- the list `a[i], …, a[j-1]` -/
def seg (a : Array α) (i j : Nat) : List α := (a.toList.drop i).take (j - i)

theorem seg_nil {a : Array α} {i j : Nat} (h : j ≤ i) : seg a i j = [] := by
  simp [seg, Nat.sub_eq_zero_of_le h]

theorem length_seg {a : Array α} {i j : Nat} (hj : j ≤ a.size) : (seg a i j).length = j - i := by
  simp [seg]; omega

theorem seg_cons {a : Array α} {i j : Nat} (h : i < j) (hj : j ≤ a.size) :
    seg a i j = a[i] :: seg a (i+1) j := by
  unfold seg
  rw [List.drop_eq_getElem_cons (by simpa using (by omega : i < a.size))]
  have : j - i = (j - (i+1)) + 1 := by omega
  rw [this, List.take_succ_cons]
  simp

theorem getElem_seg {a : Array α} {i j p : Nat} (hj : j ≤ a.size) (hp : p < (seg a i j).length) :
    (seg a i j)[p] = a[i+p]'(by rw [length_seg hj] at hp; omega) := by
  simp [seg]

theorem take_seg_drop {a : Array α} {i j : Nat} (h : i ≤ j) :
    a.toList.take i ++ seg a i j ++ a.toList.drop j = a.toList := by
  unfold seg
  have : a.toList.drop j = (a.toList.drop i).drop (j - i) := by
    rw [List.drop_drop]; congr 1; omega
  rw [this, List.append_assoc, List.take_append_drop, List.take_append_drop]

theorem seg_append {a : Array α} {i m j : Nat} (h1 : i ≤ m) (h2 : m ≤ j) :
    seg a i m ++ seg a m j = seg a i j := by
  unfold seg
  have e : j - i = (m - i) + (j - m) := by omega
  rw [e, List.take_add, List.drop_drop]
  congr 3; omega

theorem seg_congr {a b : Array α} {i j : Nat} (hj : j ≤ a.size) (hj' : j ≤ b.size)
    (h : ∀ p (hp : p < a.size) (hp' : p < b.size), i ≤ p → p < j → a[p] = b[p]) :
    seg a i j = seg b i j := by
  apply List.ext_getElem
  · rw [length_seg hj, length_seg hj']
  · intro p h1 h2
    rw [getElem_seg hj, getElem_seg hj']
    rw [length_seg hj] at h1
    exact h _ _ _ (by omega) (by omega)

theorem sortedSeg_iff_seg {cmp : α → α → Int} {a : Array α} {lo hi : Nat} (hhi : hi ≤ a.size) :
    SortedSeg cmp a lo hi ↔ (seg a lo hi).Pairwise (fun x y => cmp x y ≤ 0) := by
  rw [List.pairwise_iff_getElem]
  constructor
  · intro h i j hi' hj hij
    rw [getElem_seg hhi, getElem_seg hhi]
    rw [length_seg hhi] at hi' hj
    exact h _ _ (by omega) (by omega) (by omega) (by omega)
  · intro h p q hlo hpq hq hq'
    have := h (p - lo) (q - lo) (by rw [length_seg hhi]; omega) (by rw [length_seg hhi]; omega) (by omega)
    rw [getElem_seg hhi, getElem_seg hhi] at this
    simpa [(by omega : lo + (p - lo) = p), (by omega : lo + (q - lo) = q)] using this


/-! ## "a' is a with the segment [lo,h) replaced by M" -/

theorem decomp_size {a a' : Array α} {lo h : Nat} {M : List α} (hlo : lo ≤ h) (hh : h ≤ a.size)
    (hM : M.length = h - lo) (e : a'.toList = a.toList.take lo ++ M ++ a.toList.drop h) :
    a'.size = a.size := by
  have := congrArg List.length e
  simp at this
  omega

theorem decomp_frame {a a' : Array α} {lo h : Nat} {M : List α} (hlo : lo ≤ h) (hh : h ≤ a.size)
    (hM : M.length = h - lo) (e : a'.toList = a.toList.take lo ++ M ++ a.toList.drop h)
    (p : Nat) (hp : p < a'.size) (hp' : p < a.size) (hout : p < lo ∨ h ≤ p) : a'[p] = a[p] := by
  have h1 : a'[p] = a'.toList[p]'(by simpa using hp) := by simp
  rw [h1, List.getElem_of_eq e]
  rcases hout with hout | hout
  · rw [List.getElem_append_left (by simp; omega), List.getElem_append_left (by simp; omega)]
    simp
  · rw [List.getElem_append_right (by simp; omega)]
    simp
    congr 1
    omega

theorem decomp_seg {a a' : Array α} {lo h : Nat} {M : List α} (hlo : lo ≤ h) (hh : h ≤ a.size)
    (hM : M.length = h - lo) (e : a'.toList = a.toList.take lo ++ M ++ a.toList.drop h) :
    seg a' lo h = M := by
  unfold seg
  rw [e, List.append_assoc, List.drop_left' (by simp; omega), ← hM, List.take_left']
  rfl

theorem decomp_perm {a a' : Array α} {lo h : Nat} {M : List α} (hlo : lo ≤ h)
    (hM : M.Perm (seg a lo h)) (e : a'.toList = a.toList.take lo ++ M ++ a.toList.drop h) :
    a'.Perm a := by
  rw [Array.perm_iff_toList_perm, e]
  conv => rhs; rw [← take_seg_drop (a := a) hlo]
  exact (List.Perm.append_left _ hM).append_right _


/-! ## `mergeLoop` / `merge` -/

/-- the Boolean `≤` handed to core's `List.merge` -/
def leB (cmp : α → α → Int) : α → α → Bool := fun x y => decide (cmp x y ≤ 0)

theorem set_step {a : Array α} {k hi : Nat} (hk : k ≤ hi) (hhi : hi < a.size) (y : α) (R : List α) :
    (a.set k y (by omega)).toList.take (k+1) ++ R ++ (a.set k y (by omega)).toList.drop (hi+1)
      = a.toList.take k ++ (y :: R) ++ a.toList.drop (hi+1) := by
  have h1 : (a.set k y (by omega)).toList.take (k+1) = a.toList.take k ++ [y] := by
    rw [List.take_succ_eq_append_getElem (by simp; omega)]
    simp [List.take_set_of_le (Nat.le_refl k)]
  have h2 : (a.set k y (by omega)).toList.drop (hi+1) = a.toList.drop (hi+1) := by
    simp [List.drop_set_of_lt (by omega : k < hi + 1)]
  rw [h1, h2]
  simp

theorem mergeLoop_spec {cmp : α → α → Int} (tp : TotalPreorder cmp) (aux : Array α) (mid hi : Nat)
    (haux : hi < aux.size) :
    ∀ (f k i j : Nat) (a : Array α), hi < a.size → i ≤ mid + 1 → mid + 1 ≤ j → j ≤ hi + 1 →
      k + (mid + 1 - i) + (hi + 1 - j) = hi + 1 → hi + 1 - k < f →
      ∃ a', mergeLoop cmp aux (mid : Int) (hi : Int) f (k : Int) (i : Int) (j : Int) a = .ok a' ∧
        a'.toList = a.toList.take k ++ List.merge (seg aux i (mid+1)) (seg aux j (hi+1)) (leB cmp)
          ++ a.toList.drop (hi+1) := by
  intro f
  induction f with
  | zero => intro k i j a _ _ _ _ _ h; omega
  | succ f ih =>
    intro k i j a ha hi1 hj1 hj2 hk hf
    unfold mergeLoop
    have ek : ((k : Int) + 1) = ((k + 1 : Nat) : Int) := by omega
    have ei : ((i : Int) + 1) = ((i + 1 : Nat) : Int) := by omega
    have ej : ((j : Int) + 1) = ((j + 1 : Nat) : Int) := by omega
    by_cases hkhi : k ≤ hi
    · have : (k : Int) ≤ hi := by omega
      simp only [this, ↓reduceIte]
      by_cases him : i > mid
      · have : (i : Int) > mid := by omega
        simp only [this, ↓reduceIte]
        have hjlt : j < aux.size := by omega
        rw [get_nat hjlt]
        simp only [ok_bind]
        rw [set_ok (by omega) (by omega)]
        simp only [ok_bind, Int.toNat_natCast, ek, ej]
        obtain ⟨a', h1, h2⟩ := ih (k+1) i (j+1) (a.set k aux[j] (by omega)) (by simpa using ha)
          hi1 (by omega) (by omega) (by omega) (by omega)
        refine ⟨a', h1, ?_⟩
        rw [h2, seg_nil (by omega : mid + 1 ≤ i), seg_cons (by omega : j < hi + 1) (by omega)]
        simp only [List.nil_merge]
        exact set_step hkhi ha _ _
      · have : ¬ (i : Int) > mid := by omega
        simp only [this, ↓reduceIte]
        have hilt : i < aux.size := by omega
        by_cases hjhi : j > hi
        · have : (j : Int) > hi := by omega
          simp only [this, ↓reduceIte]
          rw [get_nat hilt]
          simp only [ok_bind]
          rw [set_ok (by omega) (by omega)]
          simp only [ok_bind, Int.toNat_natCast, ek, ei]
          obtain ⟨a', h1, h2⟩ := ih (k+1) (i+1) j (a.set k aux[i] (by omega)) (by simpa using ha)
            (by omega) (by omega) (by omega) (by omega) (by omega)
          refine ⟨a', h1, ?_⟩
          rw [h2, seg_nil (by omega : hi + 1 ≤ j), seg_cons (by omega : i < mid + 1) (by omega)]
          simp only [List.merge_right]
          exact set_step hkhi ha _ _
        · have : ¬ (j : Int) > hi := by omega
          simp only [this, ↓reduceIte]
          have hjlt : j < aux.size := by omega
          rw [get_nat hjlt, get_nat hilt]
          simp only [ok_bind]
          have hx := seg_cons (a := aux) (by omega : i < mid + 1) (by omega)
          have hy := seg_cons (a := aux) (by omega : j < hi + 1) (by omega)
          by_cases hc : cmp aux[j] aux[i] < 0
          · simp only [hc, ↓reduceIte]
            rw [set_ok (by omega) (by omega)]
            simp only [ok_bind, Int.toNat_natCast, ek, ej]
            obtain ⟨a', h1, h2⟩ := ih (k+1) i (j+1) (a.set k aux[j] (by omega)) (by simpa using ha)
              hi1 (by omega) (by omega) (by omega) (by omega)
            refine ⟨a', h1, ?_⟩
            have hneg : ¬ leB cmp aux[i] aux[j] = true := by
              have := tp.lt_flip hc
              simp [leB]; omega
            rw [h2, hy, hx, List.cons_merge_cons_neg _ _ _ hneg, ← hx]
            exact set_step hkhi ha _ _
          · simp only [hc, ↓reduceIte]
            rw [set_ok (by omega) (by omega)]
            simp only [ok_bind, Int.toNat_natCast, ek, ei]
            obtain ⟨a', h1, h2⟩ := ih (k+1) (i+1) j (a.set k aux[i] (by omega)) (by simpa using ha)
              (by omega) (by omega) (by omega) (by omega) (by omega)
            refine ⟨a', h1, ?_⟩
            have hpos : leB cmp aux[i] aux[j] = true := by
              have := tp.le_of_not_lt hc
              simp [leB]; omega
            rw [h2, hx, hy, List.cons_merge_cons_pos _ _ _ hpos, ← hy]
            exact set_step hkhi ha _ _
    · have : ¬ (k : Int) ≤ hi := by omega
      simp only [this, ↓reduceIte]
      refine ⟨a, rfl, ?_⟩
      have hk' : k = hi + 1 := by omega
      rw [seg_nil (by omega), seg_nil (by omega), hk']
      simp

theorem copyRange_spec (dst src : Array α) (lo h : Nat) (h1 : lo ≤ h) (h2 : h ≤ dst.size)
    (h3 : h ≤ src.size) :
    ∃ r, copyRange dst src (lo : Int) (h : Int) = .ok r ∧ r.size = dst.size ∧
      ∀ p (hp : p < r.size) (hp' : p < src.size), lo ≤ p → p < h → r[p] = src[p] := by
  unfold copyRange
  rw [dif_pos (by omega)]
  refine ⟨_, rfl, by simp, ?_⟩
  intro p hp hp' hlo hph
  simp only [Array.getElem_ofFn]
  rw [dif_pos (by omega)]

theorem leB_trans {cmp : α → α → Int} (tp : TotalPreorder cmp) (a b c : α) :
    leB cmp a b = true → leB cmp b c = true → leB cmp a c = true := by
  simp only [leB, decide_eq_true_eq]
  exact tp.trans a b c

theorem leB_total {cmp : α → α → Int} (tp : TotalPreorder cmp) (a b : α) :
    (leB cmp a b || leB cmp b a) = true := by
  simp only [leB, Bool.or_eq_true, decide_eq_true_eq]
  exact tp.total a b

/-- What every caller needs from one `merge(a, aux, lo, mid, hi)` call. -/
theorem merge_spec {cmp : α → α → Int} (tp : TotalPreorder cmp) (a aux : Array α) (lo mid hi : Nat)
    (h1 : lo ≤ mid) (h2 : mid ≤ hi) (h3 : hi < a.size) (hx : aux.size = a.size)
    (s1 : SortedSeg cmp a lo (mid+1)) (s2 : SortedSeg cmp a (mid+1) (hi+1)) :
    ∃ a' aux', merge cmp a aux (lo : Int) (mid : Int) (hi : Int) = .ok (a', aux') ∧
      a'.size = a.size ∧ aux'.size = a.size ∧
      (∀ p (hp : p < a'.size) (hp' : p < a.size), p < lo ∨ hi < p → a'[p] = a[p]) ∧
      SortedSeg cmp a' lo (hi+1) ∧ a'.Perm a := by
  unfold merge
  have e1 : ((hi : Int) + 1) = ((hi + 1 : Nat) : Int) := by omega
  have e2 : ((mid : Int) + 1) = ((mid + 1 : Nat) : Int) := by omega
  rw [e1, e2]
  obtain ⟨aux', hc, hsz, hcp⟩ := copyRange_spec aux a lo (hi+1) (by omega) (by omega) (by omega)
  rw [hc]
  simp only [ok_bind]
  obtain ⟨a', hl, hd⟩ := mergeLoop_spec tp aux' mid hi (by omega) (((hi : Int) - lo).toNat + 2)
    lo lo (mid+1) a h3 (by omega) (by omega) (by omega) (by omega) (by omega)
  rw [hl]
  simp only [ok_bind]
  have g1 : seg aux' lo (mid+1) = seg a lo (mid+1) :=
    seg_congr (by omega) (by omega) (fun p hp hp' hlo hph => hcp p hp hp' hlo (by omega))
  have g2 : seg aux' (mid+1) (hi+1) = seg a (mid+1) (hi+1) :=
    seg_congr (by omega) (by omega) (fun p hp hp' hlo hph => hcp p hp hp' (by omega) hph)
  rw [g1, g2] at hd
  have hlen : (List.merge (seg a lo (mid+1)) (seg a (mid+1) (hi+1)) (leB cmp)).length = hi + 1 - lo := by
    rw [List.length_merge, length_seg (by omega), length_seg (by omega)]; omega
  have hsize := decomp_size (by omega) (by omega) hlen hd
  refine ⟨a', aux', rfl, hsize, by omega, ?_, ?_, ?_⟩
  · intro p hp hp' hout
    exact decomp_frame (by omega) (by omega) hlen hd p hp hp' (by omega)
  · rw [sortedSeg_iff_seg (by omega), decomp_seg (by omega) (by omega) hlen hd]
    have := List.pairwise_merge (le := leB cmp) (leB_trans tp) (leB_total tp) _ _
      (by simpa [leB] using (sortedSeg_iff_seg (by omega)).1 s1)
      (by simpa [leB] using (sortedSeg_iff_seg (by omega)).1 s2)
    simpa [leB] using this
  · refine decomp_perm (by omega : lo ≤ hi + 1) ?_ hd
    rw [← seg_append (a := a) (by omega : lo ≤ mid + 1) (by omega : mid + 1 ≤ hi + 1)]
    exact List.merge_perm_append _

/-! ## transport of `SortedSeg` -/

theorem sortedSeg_congr {cmp : α → α → Int} {a a' : Array α} {lo h : Nat} (hs : a'.size = a.size)
    (hf : ∀ p (hp : p < a'.size) (hp' : p < a.size), lo ≤ p → p < h → a'[p] = a[p])
    (s : SortedSeg cmp a lo h) : SortedSeg cmp a' lo h := by
  intro p q hlo hpq hq hq'
  rw [hf p (by omega) (by omega) hlo (by omega), hf q hq' (by omega) (by omega) hq]
  exact s p q hlo hpq hq (by omega)

theorem sortedSeg_mono {cmp : α → α → Int} {a : Array α} {lo h lo' h' : Nat} (h1 : lo ≤ lo')
    (h2 : h' ≤ h) (s : SortedSeg cmp a lo h) : SortedSeg cmp a lo' h' := by
  intro p q hlo hpq hq hq'
  exact s p q (by omega) hpq (by omega) hq'

/-- two adjacent sorted runs whose border elements are in order form one sorted run -/
theorem sortedSeg_join {cmp : α → α → Int} (tp : TotalPreorder cmp) {a : Array α} {lo mid hi : Nat}
    (hhi : hi < a.size) (hm : mid < hi)
    (s1 : SortedSeg cmp a lo (mid+1)) (s2 : SortedSeg cmp a (mid+1) (hi+1))
    (hb : cmp (a[mid]'(by omega)) (a[mid+1]'(by omega)) ≤ 0) : SortedSeg cmp a lo (hi+1) := by
  apply sortedSeg_of_adjacent tp (by omega)
  intro p hlo hp
  by_cases h1 : p < mid
  · exact s1 p (p+1) hlo (by omega) (by omega) (by omega)
  · by_cases h2 : p = mid
    · subst h2; exact hb
    · exact s2 p (p+1) (by omega) (by omega) (by omega) (by omega)

/-! ## top-down merge sort -/

theorem mergeRecAux_spec {cmp : α → α → Int} (tp : TotalPreorder cmp) :
    ∀ (f : Nat) (a aux : Array α) (lo hi : Nat), lo ≤ hi → hi < a.size → aux.size = a.size →
      hi - lo < f →
      ∃ a' aux', mergeRecAux cmp f a aux (lo : Int) (hi : Int) = .ok (a', aux') ∧
        a'.size = a.size ∧ aux'.size = a.size ∧
        (∀ p (hp : p < a'.size) (hp' : p < a.size), p < lo ∨ hi < p → a'[p] = a[p]) ∧
        SortedSeg cmp a' lo (hi+1) ∧ a'.Perm a := by
  intro f
  induction f with
  | zero => intro a aux lo hi _ _ _ h; omega
  | succ f ih =>
    intro a aux lo hi hlh hhi hx hf
    unfold mergeRecAux
    by_cases heq : hi ≤ lo
    · have : (hi : Int) ≤ lo := by omega
      simp only [this, ↓reduceIte]
      refine ⟨a, aux, rfl, rfl, hx, fun _ _ _ _ => rfl, ?_, Array.Perm.refl _⟩
      intro p q _ _ _ _; omega
    · have : ¬ (hi : Int) ≤ lo := by omega
      simp only [this, ↓reduceIte]
      have em : ((lo : Int) + hi) / 2 = (((lo + hi) / 2 : Nat) : Int) := by omega
      rw [em]
      generalize hmid : (lo + hi) / 2 = mid
      have hm1 : lo ≤ mid := by omega
      have hm2 : mid < hi := by omega
      have em1 : ((mid : Int) + 1) = ((mid + 1 : Nat) : Int) := by omega
      rw [em1]
      obtain ⟨a1, x1, r1, sz1, sx1, fr1, so1, pm1⟩ := ih a aux lo mid hm1 (by omega) hx (by omega)
      rw [r1]
      simp only [ok_bind]
      obtain ⟨a2, x2, r2, sz2, sx2, fr2, so2, pm2⟩ :=
        ih a1 x1 (mid+1) hi (by omega) (by omega) (by omega) (by omega)
      rw [r2]
      simp only [ok_bind]
      have so1' : SortedSeg cmp a2 lo (mid+1) :=
        sortedSeg_congr sz2 (fun p hp hp' _ hph => fr2 p hp hp' (by omega)) so1
      rw [get_nat (by omega : mid + 1 < a2.size), get_nat (by omega : mid < a2.size)]
      simp only [ok_bind]
      have frame : ∀ p (hp : p < a2.size) (hp' : p < a.size), p < lo ∨ hi < p → a2[p] = a[p] := by
        intro p hp hp' hout
        rw [fr2 p hp (by omega) (by omega), fr1 p (by omega) hp' (by omega)]
      by_cases hc : cmp a2[mid+1] a2[mid] ≥ 0
      · simp only [hc, ↓reduceIte]
        refine ⟨a2, x2, rfl, by omega, by omega, frame, ?_, pm2.trans pm1⟩
        exact sortedSeg_join tp (by omega) hm2 so1' so2 (tp.le_of_ge hc)
      · simp only [hc, ↓reduceIte]
        obtain ⟨a3, x3, r3, sz3, sx3, fr3, so3, pm3⟩ :=
          merge_spec tp a2 x2 lo mid hi hm1 (by omega) (by omega) (by omega) so1' so2
        refine ⟨a3, x3, r3, by omega, by omega, ?_, so3, pm3.trans (pm2.trans pm1)⟩
        intro p hp hp' hout
        rw [fr3 p hp (by omega) hout, frame p (by omega) hp' hout]

theorem mergeRec_spec {cmp : α → α → Int} (tp : TotalPreorder cmp) (zero : α) (a : Array α) :
    ∃ out, mergeRec cmp zero a = .ok out ∧ IsSortOf cmp out a := by
  unfold mergeRec
  by_cases h0 : a.size = 0
  · refine ⟨a, ?_, ?_⟩
    · simp [h0, mergeRecAux]
    · have : a = #[] := Array.eq_empty_of_size_eq_zero h0
      subst this
      exact ⟨List.Pairwise.nil, List.Perm.refl _⟩
  · have e : ((a.size : Int) - 1) = ((a.size - 1 : Nat) : Int) := by omega
    obtain ⟨a', x', r, sz, _, _, so, pm⟩ := mergeRecAux_spec tp (a.size + 1) a
      (Array.replicate a.size zero) 0 (a.size - 1) (by omega) (by omega) (by simp) (by omega)
    refine ⟨a', ?_, ?_⟩
    · simp only [e]
      have r' : mergeRecAux cmp (a.size + 1) a (Array.replicate a.size zero) 0 ((a.size - 1 : Nat) : Int)
          = .ok (a', x') := r
      rw [r']
      rfl
    · refine isSortOf_of ?_ pm
      rw [(by omega : a'.size = a.size - 1 + 1)]
      exact so

/-! ## bottom-up merge sort -/

theorem sortedSeg_clip {cmp : α → α → Int} {a : Array α} {lo h h' : Nat}
    (hh : ∀ q, q < h → q < a.size → q < h') (s : SortedSeg cmp a lo h') : SortedSeg cmp a lo h := by
  intro p q hlo hpq hq hq'
  exact s p q hlo hpq (hh q hq hq') hq'

theorem dvd_step {d s lo : Nat} (hs : d ∣ s) (hl : d ∣ lo) (h : s < lo) : s + d ≤ lo := by
  have h1 : d ∣ lo - s := Nat.dvd_sub hl hs
  have h2 := Nat.le_of_dvd (by omega) h1
  omega

theorem mergePass_spec {cmp : α → α → Int} (tp : TotalPreorder cmp) (n sz : Nat) (hsz : 1 ≤ sz) :
    ∀ (f lo : Nat) (a aux : Array α), a.size = n → aux.size = n → (sz + sz) ∣ lo → n - lo < f →
      (∀ s, (sz + sz) ∣ s → s < lo → SortedSeg cmp a s (s + (sz + sz))) →
      (∀ s, sz ∣ s → lo ≤ s → SortedSeg cmp a s (s + sz)) →
      ∃ a' aux', mergePass cmp (n : Int) (sz : Int) f (lo : Int) a aux = .ok (a', aux') ∧
        a'.size = n ∧ aux'.size = n ∧ a'.Perm a ∧
        ∀ s, (sz + sz) ∣ s → SortedSeg cmp a' s (s + (sz + sz)) := by
  intro f
  induction f with
  | zero => intro lo a aux _ _ _ h; omega
  | succ f ih =>
    intro lo a aux ha hx hdvd hf hbig hsmall
    have hdvd1 : sz ∣ lo := Nat.dvd_trans ⟨2, by omega⟩ hdvd
    unfold mergePass
    by_cases hlt : lo + sz < n
    · have : (lo : Int) < (n : Int) - sz := by omega
      simp only [this, ↓reduceIte]
      have e1 : (lo : Int) + sz - 1 = ((lo + sz - 1 : Nat) : Int) := by omega
      have e2 : imin ((lo : Int) + sz + sz - 1) ((n : Int) - 1)
          = ((min (lo + sz + sz - 1) (n - 1) : Nat) : Int) := by
        unfold imin; split <;> omega
      have e3 : (lo : Int) + ((sz : Int) + sz) = ((lo + (sz + sz) : Nat) : Int) := by omega
      rw [e1, e2, e3]
      generalize hhi : min (lo + sz + sz - 1) (n - 1) = hi
      have s1 : SortedSeg cmp a lo (lo + sz - 1 + 1) :=
        sortedSeg_mono (Nat.le_refl _) (by omega) (hsmall lo hdvd1 (Nat.le_refl _))
      have s2 : SortedSeg cmp a (lo + sz - 1 + 1) (hi + 1) :=
        sortedSeg_mono (by omega) (by omega)
          (hsmall (lo + sz) (Nat.dvd_add hdvd1 (Nat.dvd_refl _)) (by omega))
      obtain ⟨a1, x1, r1, sz1, sx1, fr1, so1, pm1⟩ :=
        merge_spec tp a aux lo (lo + sz - 1) hi (by omega) (by omega) (by omega) (by omega) s1 s2
      rw [r1]
      simp only [ok_bind]
      obtain ⟨a2, x2, r2, sz2, sx2, pm2, so2⟩ := ih (lo + (sz + sz)) a1 x1 (by omega) (by omega)
        (Nat.dvd_add hdvd (Nat.dvd_refl _)) (by omega)
        (by
          intro s hs hslt
          by_cases hs' : s < lo
          · have := dvd_step hs hdvd hs'
            exact sortedSeg_congr sz1 (fun p hp hp' _ _ => fr1 p hp hp' (by omega)) (hbig s hs hs')
          · have hsl : s = lo := by
              apply Classical.byContradiction
              intro hne
              have := dvd_step hdvd hs (by omega)
              omega
            subst hsl
            exact sortedSeg_clip (by intro q _ _; omega) so1)
        (by
          intro s hs hsge
          exact sortedSeg_congr sz1 (fun p hp hp' _ _ => fr1 p hp hp' (by omega)) (hsmall s hs (by omega)))
      exact ⟨a2, x2, r2, sz2, sx2, pm2.trans pm1, so2⟩
    · have : ¬ (lo : Int) < (n : Int) - sz := by omega
      simp only [this, ↓reduceIte]
      refine ⟨a, aux, rfl, ha, hx, Array.Perm.refl _, ?_⟩
      intro s hs
      by_cases hs' : s < lo
      · exact hbig s hs hs'
      · by_cases hsl : s = lo
        · subst hsl
          exact sortedSeg_clip (by intro q _ _; omega) (hsmall s hdvd1 (Nat.le_refl _))
        · have := dvd_step hdvd hs (by omega)
          intro p q _ _ _ _; omega

theorem mergeSizes_spec {cmp : α → α → Int} (tp : TotalPreorder cmp) (n : Nat) :
    ∀ (f sz : Nat) (a aux : Array α), 1 ≤ sz → a.size = n → aux.size = n → n - sz < f →
      (∀ s, sz ∣ s → SortedSeg cmp a s (s + sz)) →
      ∃ a' aux', mergeSizes cmp (n : Int) f (sz : Int) a aux = .ok (a', aux') ∧
        a'.size = n ∧ a'.Perm a ∧ SortedSeg cmp a' 0 n := by
  intro f
  induction f with
  | zero => intro sz a aux _ _ _ h; omega
  | succ f ih =>
    intro sz a aux hsz ha hx hf hblk
    unfold mergeSizes
    by_cases hlt : sz < n
    · have : (sz : Int) < n := by omega
      simp only [this, ↓reduceIte]
      obtain ⟨a1, x1, r1, sz1, sx1, pm1, so1⟩ := mergePass_spec tp n sz hsz ((n : Int).toNat + 1) 0
        a aux ha hx (Nat.dvd_zero _) (by omega) (by intro s _ h; omega) (fun s hs _ => hblk s hs)
      have r1' : mergePass cmp (n : Int) (sz : Int) ((n : Int).toNat + 1) 0 a aux = .ok (a1, x1) := r1
      rw [r1']
      simp only [ok_bind]
      have e : (sz : Int) + sz = ((sz + sz : Nat) : Int) := by omega
      rw [e]
      obtain ⟨a2, x2, r2, sz2, pm2, so2⟩ := ih (sz + sz) a1 x1 (by omega) sz1 sx1 (by omega) so1
      exact ⟨a2, x2, r2, sz2, pm2.trans pm1, so2⟩
    · have : ¬ (sz : Int) < n := by omega
      simp only [this, ↓reduceIte]
      refine ⟨a, aux, rfl, ha, Array.Perm.refl _, ?_⟩
      have := hblk 0 (Nat.dvd_zero _)
      exact sortedSeg_mono (Nat.le_refl _) (by omega) this

theorem mergeBU_spec {cmp : α → α → Int} (tp : TotalPreorder cmp) (zero : α) (a : Array α) :
    ∃ out, mergeBU cmp zero a = .ok out ∧ IsSortOf cmp out a := by
  unfold mergeBU
  obtain ⟨a', x', r, sz, pm, so⟩ := mergeSizes_spec tp a.size (a.size + 1) 1 a
    (Array.replicate a.size zero) (Nat.le_refl _) rfl (by simp) (by omega)
    (by intro s _ p q _ _ _ _; omega)
  have r' : mergeSizes cmp (a.size : Int) (a.size + 1) 1 a (Array.replicate a.size zero)
      = .ok (a', x') := r
  refine ⟨a', ?_, ?_⟩
  · simp only [r', ok_bind]
  · refine isSortOf_of ?_ pm
    rw [sz]
    exact so

end AlgoVerif.C07
