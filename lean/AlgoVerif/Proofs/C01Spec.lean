import AlgoVerif.Spec.C01
/-!
# C01 helper lemmas about the abstract sorted map (lists only, no trees)
-/
namespace AlgoVerif.C01
open Spec

variable {K V : Type} {cmp : K → K → Int}

namespace LawfulCmp

theorem refl (h : LawfulCmp cmp) (a : K) : cmp a a = 0 := (h.eq_iff a a).2 rfl

theorem gt_iff (h : LawfulCmp cmp) (a b : K) : 0 < cmp a b ↔ cmp b a < 0 := (h.flip b a).symm

theorem lt_irrefl (h : LawfulCmp cmp) (a : K) : ¬ cmp a a < 0 := by
  rw [h.refl]; omega

theorem lt_asymm (h : LawfulCmp cmp) {a b : K} (h1 : cmp a b < 0) : ¬ cmp b a < 0 := by
  have := (h.flip a b).1 h1; omega

theorem eq_of_not_lt_gt (h : LawfulCmp cmp) {a b : K} (h1 : ¬ cmp a b < 0) (h2 : ¬ cmp a b > 0) : a = b :=
  (h.eq_iff a b).1 (by omega)

/-- `a < b → b ≤ c → a < c` where `b ≤ c` is `¬ c < b` -/
theorem lt_of_lt_of_not_lt (h : LawfulCmp cmp) {a b c : K} (h1 : cmp a b < 0) (h2 : ¬ cmp c b < 0) :
    cmp a c < 0 := by
  by_cases h3 : cmp b c < 0
  · exact h.trans _ _ _ h1 h3
  · have : ¬ cmp b c > 0 := by
      intro h4; exact h2 ((h.gt_iff b c).1 h4)
    have := h.eq_of_not_lt_gt h3 this
    subst this; exact h1

theorem lt_of_not_lt_of_lt (h : LawfulCmp cmp) {a b c : K} (h1 : ¬ cmp b a < 0) (h2 : cmp b c < 0) :
    cmp a c < 0 := by
  by_cases h3 : cmp a b < 0
  · exact h.trans _ _ _ h3 h2
  · have : ¬ cmp a b > 0 := by
      intro h4; exact h1 ((h.gt_iff a b).1 h4)
    have := h.eq_of_not_lt_gt h3 this
    subst this; exact h2

end LawfulCmp

/-! ### `Sorted` -/

theorem sorted_nil : Sorted cmp ([] : Map K V) := List.Pairwise.nil

theorem sorted_append_cons {xs ys : Map K V} {a : K × V} :
    Sorted cmp (xs ++ a :: ys) ↔
      Sorted cmp xs ∧ Sorted cmp ys ∧ (∀ x ∈ xs, cmp x.1 a.1 < 0) ∧ (∀ y ∈ ys, cmp a.1 y.1 < 0) ∧
        (∀ x ∈ xs, ∀ y ∈ ys, cmp x.1 y.1 < 0) := by
  unfold Sorted
  rw [List.pairwise_append, List.pairwise_cons]
  constructor
  · rintro ⟨h1, ⟨h2, h3⟩, h4⟩
    refine ⟨h1, h3, ?_, h2, ?_⟩
    · intro x hx; exact h4 x hx a (List.mem_cons_self ..)
    · intro x hx y hy; exact h4 x hx y (List.mem_cons_of_mem _ hy)
  · rintro ⟨h1, h2, h3, h4, h5⟩
    refine ⟨h1, ⟨h4, h2⟩, ?_⟩
    intro x hx y hy
    rcases List.mem_cons.1 hy with rfl | hy
    · exact h3 x hx
    · exact h5 x hx y hy

theorem sorted_cons {ys : Map K V} {a : K × V} :
    Sorted cmp (a :: ys) ↔ (∀ y ∈ ys, cmp a.1 y.1 < 0) ∧ Sorted cmp ys := by
  unfold Sorted; exact List.pairwise_cons

theorem Sorted.filter {m : Map K V} (p : K × V → Bool) (h : Sorted cmp m) : Sorted cmp (m.filter p) :=
  List.Pairwise.filter p h

theorem Sorted.tail {m : Map K V} (h : Sorted cmp m) : Sorted cmp m.tail :=
  List.Pairwise.sublist (List.tail_sublist m) h

theorem Sorted.dropLast {m : Map K V} (h : Sorted cmp m) : Sorted cmp m.dropLast :=
  List.Pairwise.sublist (List.dropLast_sublist m) h

/-- strictly sorted lists with the same members are equal -/
theorem sorted_ext (h : LawfulCmp cmp) : ∀ {l₁ l₂ : Map K V}, Sorted cmp l₁ → Sorted cmp l₂ →
    (∀ x, x ∈ l₁ ↔ x ∈ l₂) → l₁ = l₂
  | [], [], _, _, _ => rfl
  | [], b :: t₂, _, _, hm => by have := (hm b).2 (List.mem_cons_self ..); simp at this
  | a :: t₁, [], _, _, hm => by have := (hm a).1 (List.mem_cons_self ..); simp at this
  | a :: t₁, b :: t₂, h1, h2, hm => by
    rw [sorted_cons] at h1 h2
    have hab : a = b := by
      have ha := (hm a).1 (List.mem_cons_self ..)
      have hb := (hm b).2 (List.mem_cons_self ..)
      rcases List.mem_cons.1 ha with rfl | ha
      · rfl
      rcases List.mem_cons.1 hb with rfl | hb
      · rfl
      exact absurd (h1.1 b hb) (h.lt_asymm (h2.1 a ha))
    subst hab
    congr 1
    apply sorted_ext h h1.2 h2.2
    intro x
    constructor
    · intro hx
      have := (hm x).1 (List.mem_cons_of_mem _ hx)
      rcases List.mem_cons.1 this with rfl | h'
      · exact absurd (h1.1 x hx) (h.lt_irrefl _)
      · exact h'
    · intro hx
      have := (hm x).2 (List.mem_cons_of_mem _ hx)
      rcases List.mem_cons.1 this with rfl | h'
      · exact absurd (h2.1 x hx) (h.lt_irrefl _)
      · exact h'

/-! ### `upsert` (Put) -/

theorem upsert_append_lt {k : K} {v : V} {a : K × V} (xs ys : Map K V) (hk : cmp k a.1 < 0) :
    upsert cmp k v (xs ++ a :: ys) = upsert cmp k v xs ++ a :: ys := by
  induction xs with
  | nil => obtain ⟨a1, a2⟩ := a; simp only [List.nil_append, upsert]; rw [if_pos hk]; rfl
  | cons x xs ih =>
    obtain ⟨x1, x2⟩ := x
    simp only [List.cons_append, upsert]
    split
    · rfl
    · split
      · rw [ih]; rfl
      · rfl

theorem upsert_append_gt {k : K} {v : V} {a : K × V} (xs ys : Map K V) (hx : ∀ x ∈ xs, cmp k x.1 > 0)
    (hk : cmp k a.1 > 0) :
    upsert cmp k v (xs ++ a :: ys) = xs ++ a :: upsert cmp k v ys := by
  induction xs with
  | nil =>
    obtain ⟨a1, a2⟩ := a
    have : ¬ cmp k a1 < 0 := by simp at hk; omega
    simp only [List.nil_append, upsert]; rw [if_neg this, if_pos hk]
  | cons x xs ih =>
    obtain ⟨x1, x2⟩ := x
    have h1 := hx (x1, x2) (List.mem_cons_self ..)
    have h1' : ¬ cmp k x1 < 0 := by simp at h1; omega
    simp only [List.cons_append, upsert, h1', if_false]
    simp only [gt_iff_lt] at h1
    simp only [gt_iff_lt, h1, if_true]
    rw [ih (fun x hx' => hx x (List.mem_cons_of_mem _ hx'))]

theorem upsert_append_eq {k : K} {v : V} {a : K} {b : V} (xs ys : Map K V) (hx : ∀ x ∈ xs, cmp k x.1 > 0)
    (h1 : ¬ cmp k a < 0) (h2 : ¬ cmp k a > 0) :
    upsert cmp k v (xs ++ (a, b) :: ys) = xs ++ (a, v) :: ys := by
  induction xs with
  | nil => simp only [List.nil_append, upsert]; rw [if_neg h1, if_neg h2]
  | cons x xs ih =>
    obtain ⟨x1, x2⟩ := x
    have h3 := hx (x1, x2) (List.mem_cons_self ..)
    have h3' : ¬ cmp k x1 < 0 := by simp at h3; omega
    simp only [List.cons_append, upsert, h3', if_false]
    simp only [gt_iff_lt] at h3
    simp only [gt_iff_lt, h3, if_true]
    rw [ih (fun x hx' => hx x (List.mem_cons_of_mem _ hx'))]

/-- keys after `upsert`: the new key or an old key -/
theorem key_of_mem_upsert {k : K} {v : V} : ∀ {m : Map K V} {y : K × V}, y ∈ upsert cmp k v m →
    y.1 = k ∨ ∃ x ∈ m, x.1 = y.1
  | [], y, hy => by simp [upsert] at hy; left; rw [hy]
  | (a, b) :: xs, y, hy => by
    simp only [upsert] at hy
    split at hy
    · rcases List.mem_cons.1 hy with rfl | hy
      · left; rfl
      · right; exact ⟨y, hy, rfl⟩
    · split at hy
      · rcases List.mem_cons.1 hy with rfl | hy
        · right; exact ⟨_, List.mem_cons_self .., rfl⟩
        · rcases key_of_mem_upsert hy with h | ⟨x, hx, hxy⟩
          · left; exact h
          · right; exact ⟨x, List.mem_cons_of_mem _ hx, hxy⟩
      · rcases List.mem_cons.1 hy with rfl | hy
        · right; exact ⟨(a, b), List.mem_cons_self .., rfl⟩
        · right; exact ⟨y, List.mem_cons_of_mem _ hy, rfl⟩

theorem sorted_upsert (h : LawfulCmp cmp) (k : K) (v : V) : ∀ {m : Map K V}, Sorted cmp m →
    Sorted cmp (upsert cmp k v m)
  | [], _ => by simp [upsert, Sorted]
  | (a, b) :: xs, hs => by
    rw [sorted_cons] at hs
    simp only [upsert]
    split
    · rename_i hlt
      rw [sorted_cons]
      refine ⟨?_, sorted_cons.2 hs⟩
      intro y hy
      rcases List.mem_cons.1 hy with rfl | hy
      · exact hlt
      · exact h.trans _ _ _ hlt (hs.1 y hy)
    · split
      · rename_i hgt
        rw [sorted_cons]
        refine ⟨?_, sorted_upsert h k v hs.2⟩
        intro y hy
        rcases key_of_mem_upsert hy with hk | ⟨x, hx, hxy⟩
        · rw [hk]; exact (h.gt_iff k a).1 hgt
        · rw [← hxy]; exact hs.1 x hx
      · rw [sorted_cons]
        exact ⟨hs.1, hs.2⟩

/-- membership after `upsert` (lawful comparator: an equal key is the same key) -/
theorem mem_upsert (h : LawfulCmp cmp) {k : K} {v : V} : ∀ {m : Map K V} {y : K × V}, Sorted cmp m →
    (y ∈ upsert cmp k v m ↔ y = (k, v) ∨ (y ∈ m ∧ y.1 ≠ k))
  | [], y, _ => by simp [upsert]
  | (a, b) :: xs, y, hs => by
    rw [sorted_cons] at hs
    simp only [upsert]
    split
    · rename_i hlt
      have hne : ∀ z ∈ (a, b) :: xs, z.1 ≠ k := by
        intro z hz hzk
        have : cmp k z.1 < 0 := by
          rcases List.mem_cons.1 hz with rfl | hz
          · exact hlt
          · exact h.trans _ _ _ hlt (hs.1 z hz)
        rw [hzk] at this
        exact h.lt_irrefl _ this
      constructor
      · intro hy
        rcases List.mem_cons.1 hy with rfl | hy
        · left; rfl
        · right; exact ⟨hy, hne y hy⟩
      · rintro (rfl | ⟨hy, _⟩)
        · exact List.mem_cons_self ..
        · exact List.mem_cons_of_mem _ hy
    · split
      · rename_i hgt
        have hak : a ≠ k := by
          intro hak; rw [hak, h.refl] at hgt; omega
        rw [List.mem_cons, mem_upsert h hs.2, List.mem_cons]
        constructor
        · rintro (rfl | rfl | ⟨hy, hyk⟩)
          · right; exact ⟨Or.inl rfl, hak⟩
          · left; rfl
          · right; exact ⟨Or.inr hy, hyk⟩
        · rintro (rfl | ⟨rfl | hy, hyk⟩)
          · right; left; rfl
          · left; rfl
          · right; right; exact ⟨hy, hyk⟩
      · rename_i h1 h2
        have hak : k = a := h.eq_of_not_lt_gt h1 h2
        subst hak
        have hne : ∀ z ∈ xs, z.1 ≠ k := by
          intro z hz hzk
          have := hs.1 z hz
          rw [hzk] at this
          exact h.lt_irrefl _ this
        rw [List.mem_cons, List.mem_cons]
        constructor
        · rintro (rfl | hy)
          · left; rfl
          · right; exact ⟨Or.inr hy, hne y hy⟩
        · rintro (rfl | ⟨rfl | hy, hyk⟩)
          · left; rfl
          · exact absurd rfl hyk
          · right; exact hy

/-! ### `RangeSize` on lists -/

theorem get_cons (k : K) (a : K × V) (t : Map K V) :
    Spec.get cmp k (a :: t) = if cmp k a.1 = 0 then some a.2 else Spec.get cmp k t := by
  unfold Spec.get
  rw [List.find?_cons]
  by_cases he : cmp k a.1 = 0
  · have : (cmp k a.1 == 0) = true := by simp [he]
    rw [this]; simp [he]
  · have : (cmp k a.1 == 0) = false := by simp [he]
    rw [this]; simp [he]

theorem countP_key_eq (h : LawfulCmp cmp) (hi : K) : ∀ {m : Map K V}, Sorted cmp m →
    m.countP (fun p => cmp hi p.1 == 0) = if (Spec.get cmp hi m).isSome then 1 else 0
  | [], _ => rfl
  | a :: t, hs => by
    rw [sorted_cons] at hs
    rw [List.countP_cons, get_cons]
    by_cases he : cmp hi a.1 = 0
    · have hk : hi = a.1 := (h.eq_iff _ _).1 he
      have h0 : t.countP (fun p => cmp hi p.1 == 0) = 0 :=
        List.countP_eq_zero.2 (fun y hy => by have := hs.1 y hy; rw [← hk] at this; simp; omega)
      simp [h0, he]
    · have ih := countP_key_eq h hi hs.2
      simp [he, ih]

theorem countP_range (h : LawfulCmp cmp) (lo hi : K) (hle : ¬ cmp lo hi > 0) : ∀ (m : Map K V),
    ((m.countP (fun p => decide (cmp lo p.1 ≤ 0) && decide (cmp hi p.1 ≥ 0)) : Nat) : Int) =
      (m.countP (fun p => decide (cmp hi p.1 > 0)) : Nat) + (m.countP (fun p => cmp hi p.1 == 0) : Nat) -
        (m.countP (fun p => decide (cmp lo p.1 > 0)) : Nat)
  | [] => by simp
  | x :: t => by
    have ih := countP_range h lo hi hle t
    simp only [List.countP_cons]
    by_cases hb : cmp lo x.1 > 0
    · have h1 : cmp x.1 lo < 0 := (h.gt_iff _ _).1 hb
      have h2 : ¬ cmp hi lo < 0 := fun h' => hle ((h.gt_iff _ _).2 h')
      have h3 : cmp hi x.1 > 0 := (h.gt_iff _ _).2 (h.lt_of_lt_of_not_lt h1 h2)
      have e1 : (decide (cmp lo x.1 ≤ 0) && decide (cmp hi x.1 ≥ 0)) = false := by simp; omega
      have e2 : decide (cmp hi x.1 > 0) = true := by simp; omega
      have e3 : (cmp hi x.1 == 0) = false := by simp; omega
      have e4 : decide (cmp lo x.1 > 0) = true := by simp; omega
      simp only [e1, e2, e3, e4]
      simp at ih ⊢; omega
    · have e4 : decide (cmp lo x.1 > 0) = false := by simp; omega
      have e0 : decide (cmp lo x.1 ≤ 0) = true := by simp; omega
      by_cases ha : cmp hi x.1 > 0
      · have e1 : decide (cmp hi x.1 ≥ 0) = true := by simp; omega
        have e2 : decide (cmp hi x.1 > 0) = true := by simp; omega
        have e3 : (cmp hi x.1 == 0) = false := by simp; omega
        simp only [e0, e1, e2, e3, e4]
        simp at ih ⊢; omega
      · by_cases he : cmp hi x.1 = 0
        · have e1 : decide (cmp hi x.1 ≥ 0) = true := by simp; omega
          have e2 : decide (cmp hi x.1 > 0) = false := by simp; omega
          have e3 : (cmp hi x.1 == 0) = true := by simp; omega
          simp only [e0, e1, e2, e3, e4]
          simp at ih ⊢; omega
        · have e1 : decide (cmp hi x.1 ≥ 0) = false := by simp; omega
          have e2 : decide (cmp hi x.1 > 0) = false := by simp; omega
          have e3 : (cmp hi x.1 == 0) = false := by simp; omega
          simp only [e0, e1, e2, e3, e4]
          simp at ih ⊢; omega

theorem range_nil_of_gt (h : LawfulCmp cmp) (lo hi : K) (hgt : cmp lo hi > 0) (m : Map K V) :
    Spec.range cmp lo hi m = [] := by
  unfold Spec.range
  apply List.filter_eq_nil_iff.2
  intro x _
  have h1 : cmp hi lo < 0 := (h.gt_iff _ _).1 hgt
  intro hp
  simp only [Bool.and_eq_true, decide_eq_true_eq] at hp
  have h2 : ¬ cmp x.1 lo < 0 := fun h' => by have := (h.gt_iff _ _).2 h'; omega
  have := h.lt_of_lt_of_not_lt h1 h2
  omega

/-- the arithmetic of `RangeSize` on a sorted list -/
theorem rangeSize_spec (h : LawfulCmp cmp) (lo hi : K) {m : Map K V} (hs : Sorted cmp m) :
    (if cmp lo hi > 0 then (0 : Int)
     else if (Spec.get cmp hi m).isSome then 1 + (Spec.rank cmp hi m : Int) - (Spec.rank cmp lo m : Int)
     else (Spec.rank cmp hi m : Int) - (Spec.rank cmp lo m : Int)) = ((Spec.range cmp lo hi m).length : Int) := by
  split
  · rename_i hgt; rw [range_nil_of_gt h lo hi hgt]; rfl
  · rename_i hle
    have := countP_range h lo hi hle m
    rw [countP_key_eq h hi hs] at this
    unfold Spec.rank Spec.range
    rw [← List.countP_eq_length_filter, this]
    split <;> simp <;> omega

/-! ### building a map by successive `Put`s (SelectMatch / PartitionMatch) -/

/-- `Put` the pairs of `xs` that satisfy `q`, in the order given -/
def build (cmp : K → K → Int) (q : K × V → Bool) (xs : List (K × V)) (init : Map K V) : Map K V :=
  xs.foldl (fun acc x => if q x then upsert cmp x.1 x.2 acc else acc) init

theorem build_spec (h : LawfulCmp cmp) (q : K × V → Bool) : ∀ (xs : List (K × V)) (init : Map K V),
    Sorted cmp init → xs.Pairwise (fun a b => a.1 ≠ b.1) →
    Sorted cmp (build cmp q xs init) ∧
      ∀ y, y ∈ build cmp q xs init ↔ (y ∈ xs ∧ q y = true) ∨ (y ∈ init ∧ ∀ x ∈ xs, q x = true → x.1 ≠ y.1)
  | [], init, hs, _ => by simp [build, hs]
  | x :: xs, init, hs, hp => by
    rw [List.pairwise_cons] at hp
    simp only [build, List.foldl_cons]
    by_cases hq : q x = true
    · rw [if_pos hq]
      have hs' := sorted_upsert h x.1 x.2 hs
      obtain ⟨ih1, ih2⟩ := build_spec h q xs _ hs' hp.2
      refine ⟨ih1, ?_⟩
      intro y
      simp only [build] at ih2
      rw [ih2 y, mem_upsert h hs]
      constructor
      · rintro (⟨hy, hqy⟩ | ⟨rfl | ⟨hy, hyk⟩, hall⟩)
        · left; exact ⟨List.mem_cons_of_mem _ hy, hqy⟩
        · left; exact ⟨List.mem_cons_self .., hq⟩
        · right
          refine ⟨hy, ?_⟩
          intro x' hx' hqx'
          rcases List.mem_cons.1 hx' with rfl | hx'
          · exact fun e => hyk e.symm
          · exact hall x' hx' hqx'
      · rintro (⟨hy, hqy⟩ | ⟨hy, hall⟩)
        · rcases List.mem_cons.1 hy with rfl | hy
          · right
            exact ⟨Or.inl rfl, fun x' hx' _ e => hp.1 x' hx' e.symm⟩
          · left; exact ⟨hy, hqy⟩
        · right
          refine ⟨Or.inr ⟨hy, fun e => hall x (List.mem_cons_self ..) hq e.symm⟩, ?_⟩
          intro x' hx' hqx'
          exact hall x' (List.mem_cons_of_mem _ hx') hqx'
    · rw [if_neg hq]
      obtain ⟨ih1, ih2⟩ := build_spec h q xs init hs hp.2
      refine ⟨ih1, ?_⟩
      intro y
      simp only [build] at ih2
      rw [ih2 y]
      constructor
      · rintro (⟨hy, hqy⟩ | ⟨hy, hall⟩)
        · left; exact ⟨List.mem_cons_of_mem _ hy, hqy⟩
        · right
          refine ⟨hy, ?_⟩
          intro x' hx' hqx'
          rcases List.mem_cons.1 hx' with rfl | hx'
          · exact absurd hqx' hq
          · exact hall x' hx' hqx'
      · rintro (⟨hy, hqy⟩ | ⟨hy, hall⟩)
        · rcases List.mem_cons.1 hy with rfl | hy
          · exact absurd hqy hq
          · left; exact ⟨hy, hqy⟩
        · right
          exact ⟨hy, fun x' hx' hqx' => hall x' (List.mem_cons_of_mem _ hx') hqx'⟩

theorem sorted_keys_ne (h : LawfulCmp cmp) {m : Map K V} (hs : Sorted cmp m) :
    m.Pairwise (fun a b => a.1 ≠ b.1) :=
  List.Pairwise.imp (fun {a b} hab e => by rw [e] at hab; exact h.lt_irrefl _ hab) hs

/-- building from any enumeration of a sorted map yields its filtered part -/
theorem build_perm (h : LawfulCmp cmp) (q : K × V → Bool) {xs m : Map K V} (hs : Sorted cmp m)
    (hp : xs.Perm m) : build cmp q xs [] = m.filter q := by
  have hne : xs.Pairwise (fun a b => a.1 ≠ b.1) :=
    (hp.pairwise_iff (fun {a b} (hab : a.1 ≠ b.1) => (fun e => hab e.symm : b.1 ≠ a.1))).2 (sorted_keys_ne h hs)
  obtain ⟨h1, h2⟩ := build_spec h q xs [] sorted_nil hne
  apply sorted_ext h h1 (hs.filter q)
  intro y
  rw [h2 y, List.mem_filter, hp.mem_iff]
  simp

/-! ### `get` at a node of a sorted listing -/

theorem get_append_of_none (key : K) (L M : Map K V) (hL : ∀ x ∈ L, cmp key x.1 ≠ 0) :
    Spec.get cmp key (L ++ M) = Spec.get cmp key M := by
  unfold Spec.get
  rw [List.find?_append, List.find?_eq_none.2 (fun x hx => by simpa using hL x hx)]
  rfl

theorem get_append_of_none_right (key : K) (L M : Map K V) (hM : ∀ x ∈ M, cmp key x.1 ≠ 0) :
    Spec.get cmp key (L ++ M) = Spec.get cmp key L := by
  unfold Spec.get
  have : M.find? (fun p => cmp key p.1 == 0) = none :=
    List.find?_eq_none.2 (fun x hx => by simpa using hM x hx)
  rw [List.find?_append, this]
  simp

end AlgoVerif.C01
