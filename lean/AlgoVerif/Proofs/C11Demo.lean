import AlgoVerif.Spec.C11
/-!
# C11 — small definitions used by the examples and witness theorems of `Props/C11.lean`
-/
namespace AlgoVerif.C11.Demo
open AlgoVerif AlgoVerif.Gram AlgoVerif.C11 AlgoVerif.C11.Spec

/-- what `resolveConflict` returns for the declared choice -/
def chosen (c : Choice) (p : Pr) (j : Int) : Option Action :=
  match c with
  | .reduce => some (.reduce p)
  | .shift => some (.shift j)
  | .error => none

/-- `S → a S | a a a` (the D17 witness) -/
def g17 : SGrammar :=
  { terms := ["a"], nonterms := ["S"], start := "S",
    prods := [⟨"S", [.term "a", .nonterm "S"]⟩, ⟨"S", [.term "a", .term "a", .term "a"]⟩] }

def acceptsWith (k : Kind) (g : SGrammar) (w : List String) : Option Bool :=
  match build k g 40 with
  | .ok b =>
    match resolveAll [] (fun _ _ acts => acts) b.table with
    | .ok (T, .table) =>
      match parse T.toTbl 200 w with
      | .ok (.accept _ _) => some true
      | .ok (.reject _) => some false
      | _ => none
    | _ => none
  | _ => none

def validated (k : Kind) (g : SGrammar) : Bool :=
  match build k g 40 with
  | .ok b => soundOK g b
  | _ => false

/-- what the LALR parser of the Model emits for a token string: productions and AST -/
def acceptTrace (k : Kind) (g : SGrammar) (w : List String) : Option (List Pr × Tree) :=
  match build k g 40 with
  | .ok b =>
    match resolveAll [] (fun _ _ acts => acts) b.table with
    | .ok (T, _) =>
      match parse T.toTbl 200 w with
      | .ok (.accept π root) => some (π, root)
      | _ => none
    | _ => none
  | _ => none

/-- `S → a S b | ε`: an SLR(1) grammar with an ε-production -/
def gAnBn : SGrammar :=
  { terms := ["a", "b"], nonterms := ["S"], start := "S",
    prods := [⟨"S", [.term "a", .nonterm "S", .term "b"]⟩, ⟨"S", []⟩] }

/-- `E → E + E | E * E | E ^ E | id` -/
def gExpr : SGrammar :=
  { terms := ["id", "+", "*", "^"], nonterms := ["E"], start := "E",
    prods := [⟨"E", [.nonterm "E", .term "+", .nonterm "E"]⟩, ⟨"E", [.nonterm "E", .term "*", .nonterm "E"]⟩,
              ⟨"E", [.nonterm "E", .term "^", .nonterm "E"]⟩, ⟨"E", [.term "id"]⟩] }

/-- `^` right-associative and tightest, then `*` left, then `+` left -/
def exprLevels : List Level :=
  [⟨.right, [.term "^"]⟩, ⟨.left, [.term "*"]⟩, ⟨.left, [.term "+"]⟩]

/-- the AST the resolved parser of construction `k` returns, rendered as an `Expr` -/
def treeToExpr : Tree → Option Expr
  | .node _ [.leaf "id"] => some .id
  | .node _ [l, .leaf op, r] =>
    match treeToExpr l, treeToExpr r with
    | some a, some b => some (.bin a op b)
    | _, _ => none
  | _ => none

def resolvedAst (k : Kind) (w : List String) : Option Expr :=
  match build k gExpr 60 with
  | .ok b =>
    match resolveAll exprLevels (fun _ _ acts => acts) b.table with
    | .ok (T, .table) =>
      match parse T.toTbl 400 w with
      | .ok (.accept _ root) => treeToExpr root
      | _ => none
    | _ => none
  | _ => none

def groupsAsDeclared (k : Kind) (w : List String) : Bool :=
  match climb exprLevels w with
  | some e => resolvedAst k w == some e
  | none => false

/-- `Y → A Y c | d`, `A → ε`: no cycle (`Y ⇒⁺ Y` is impossible), but not LR(1): reduce `A → ε` / shift `d` conflict -/
def gLoop : SGrammar :=
  { terms := ["c", "d"], nonterms := ["Y", "A"], start := "Y",
    prods := [⟨"Y", [.nonterm "A", .nonterm "Y", .term "c"]⟩, ⟨"Y", [.term "d"]⟩, ⟨"A", []⟩] }

/-- levels that make the reduction by `A → ε` win over the shift of `d` -/
def loopLevels : List Level := [⟨.left, [.prod ⟨"A", []⟩]⟩, ⟨.left, [.term "d"]⟩]

/-- the table of construction `k` for `gLoop` is validated, the levels resolve every conflict, and the driver is still
running after 300 steps on the one-token input `d` -/
def loops (k : Kind) : Bool :=
  match build k gLoop 60 with
  | .ok b =>
    soundOK gLoop b &&
    match resolveAll loopLevels (fun _ _ acts => acts) b.table with
    | .ok (T, .table) => (match parse T.toTbl 300 ["d"] with | .diverge => true | _ => false)
    | _ => false
  | _ => false

/-- `S → L = R | R`, `L → * R | id`, `R → L` (LALR(1), not SLR(1)) -/
def gLR : SGrammar :=
  { terms := ["=", "*", "id"], nonterms := ["S", "L", "R"], start := "S",
    prods := [⟨"S", [.nonterm "L", .term "=", .nonterm "R"]⟩, ⟨"S", [.nonterm "R"]⟩,
              ⟨"L", [.term "*", .nonterm "R"]⟩, ⟨"L", [.term "id"]⟩, ⟨"R", [.nonterm "L"]⟩] }

end AlgoVerif.C11.Demo
