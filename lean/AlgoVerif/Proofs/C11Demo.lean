import AlgoVerif.Spec.C11
/-!
# C11 — small definitions used by the examples and witness theorems of `Props/C11.lean`
-/
namespace AlgoVerif.C11.Demo
open AlgoVerif AlgoVerif.Gram AlgoVerif.C11 AlgoVerif.C11.Spec

/-- what `resolveConflict` returns for the declared choice -/
def chosen (c : Choice) (p : Pr) (j : Int) : Option Action :=
  match c with
  | .reduce => some (.reduce p)
  | .shift => some (.shift j)
  | .error => none

/-- `S → a S | a a a` (the D17 witness) -/
def g17 : SGrammar :=
  { terms := ["a"], nonterms := ["S"], start := "S",
    prods := [⟨"S", [.term "a", .nonterm "S"]⟩, ⟨"S", [.term "a", .term "a", .term "a"]⟩] }

def acceptsWith (k : Kind) (g : SGrammar) (w : List String) : Option Bool :=
  match build k g 40 with
  | .ok b =>
    match resolveAll [] (fun _ _ acts => acts) b.table with
    | .ok (T, .table) =>
      match parse T.toTbl 200 w with
      | .ok (.accept _ _) => some true
      | .ok (.reject _) => some false
      | _ => none
    | _ => none
  | _ => none

def validated (k : Kind) (g : SGrammar) : Bool :=
  match build k g 40 with
  | .ok b => soundOK g b
  | _ => false

/-- what the LALR parser of the Model emits for a token string: productions and AST -/
def acceptTrace (k : Kind) (g : SGrammar) (w : List String) : Option (List Pr × Tree) :=
  match build k g 40 with
  | .ok b =>
    match resolveAll [] (fun _ _ acts => acts) b.table with
    | .ok (T, _) =>
      match parse T.toTbl 200 w with
      | .ok (.accept π root) => some (π, root)
      | _ => none
    | _ => none
  | _ => none

end AlgoVerif.C11.Demo
