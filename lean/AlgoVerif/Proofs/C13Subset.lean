import AlgoVerif.Proofs.C13DFA
/-! C13: the subset construction (`ToDFA`): whenever it returns, the DFA accepts the NFA's language. -/
namespace AlgoVerif.C13
open AlgoVerif AlgoVerif.C13.Spec

/-- `U` is the ε-closure of the `a`-successors of `T` -/
def Succ (n : NFA) (T : List Int) (a : Int) (U : List Int) : Prop :=
  ∀ x, x ∈ U ↔ ∃ s ∈ T, ∃ t, n.Δ s a t ∧ EReach n.Δ t x

/-- invariant of the subset construction: `front` sets are fully processed, the set at `front` is processed
for the symbols in `D` -/
structure SInv (n : NFA) (syms : List Int) (q : List (List Int)) (dfa : DFA) (front : Nat) (D : Int → Prop) : Prop where
  sorted : ∀ S ∈ q, SSorted S
  sound : ∀ i a j, dfa.δ i a = some j → ∃ (ii jj : Nat) (T U : List Int), i = (ii : Int) ∧ j = (jj : Int) ∧
    q[ii]? = some T ∧ q[jj]? = some U ∧ Succ n T a U ∧ a ∈ syms ∧ (ii < front ∨ (ii = front ∧ D a))
  complete : ∀ (ii : Nat) a, (ii < front ∨ (ii = front ∧ D a)) → a ∈ syms → ∃ j, dfa.δ (ii : Int) a = some j

theorem sqFind_some {q : List (List Int)} {U : List Int} {j : Nat} (h : sqFind q U = some j) :
    ∃ v, q[j]? = some v ∧ setEq v U = true := by
  simp only [sqFind] at h
  rw [List.findIdx?_eq_some_iff_getElem] at h
  obtain ⟨hj, hp, _⟩ := h
  exact ⟨q[j], by simp [hj], hp⟩

theorem getElem?_prefix {α : Type} {q q' : List α} (h : q <+: q') {i : Nat} {x : α} (hx : q[i]? = some x) :
    q'[i]? = some x := by
  obtain ⟨r, rfl⟩ := h
  rw [List.getElem?_append_left]
  · exact hx
  · rw [List.getElem?_eq_some_iff] at hx; exact hx.1

theorem subsetStep_spec (n : NFA) (syms : List Int) (T : List Int) (front : Nat) (rem : List Int)
    (q : List (List Int)) (dfa : DFA) (D : Int → Prop)
    (hinv : SInv n syms q dfa front D) (hT : q[front]? = some T) (hrem : ∀ a ∈ rem, a ∈ syms) :
    ∃ q' dfa', subsetStep n T front rem (q, dfa) = .ok (q', dfa') ∧
      SInv n syms q' dfa' front (fun b => b ∈ rem ∨ D b) ∧ q <+: q' ∧ dfa'.start = dfa.start := by
  induction rem generalizing q dfa D with
  | nil =>
    refine ⟨q, dfa, by simp [subsetStep], ?_, List.prefix_refl _, rfl⟩
    simpa using hinv
  | cons a rem ih =>
    obtain ⟨U, hU, hUm⟩ := n.εClosure_spec (n.move T a)
    have hUs : SSorted U := n.εClosure_sorted _ _ hU (n.move_sorted T a)
    have hSucc : Succ n T a U := by
      intro x; rw [hUm]
      constructor
      · rintro ⟨t, ht, hr⟩
        rw [n.mem_move] at ht
        obtain ⟨s, hs, hd⟩ := ht
        exact ⟨s, hs, t, hd, hr⟩
      · rintro ⟨s, hs, t, hd, hr⟩
        exact ⟨t, (n.mem_move _ _ _).2 ⟨s, hs, hd⟩, hr⟩
    simp only [subsetStep, hU]
    cases hf : sqFind q U with
    | some j =>
      simp only
      obtain ⟨v, hv, hveq⟩ := sqFind_some hf
      have hvU : v = U := (setEq_iff (hinv.sorted v (List.mem_of_getElem? hv)) hUs).1 hveq
      subst hvU
      have hinv' : SInv n syms q (dfa.add front a j) front (fun b => b = a ∨ D b) := by
        refine ⟨hinv.sorted, ?_, ?_⟩
        · intro i b k hk
          rw [DFA.δ_add] at hk
          split at hk
          · rename_i hc; obtain ⟨rfl, rfl⟩ := hc
            simp at hk; subst hk
            exact ⟨front, j, T, v, rfl, rfl, hT, hv, hSucc, hrem b (by simp), Or.inr ⟨rfl, Or.inl rfl⟩⟩
          · obtain ⟨ii, jj, T', U', h1, h2, h3, h4, h5, h6, h7⟩ := hinv.sound i b k hk
            refine ⟨ii, jj, T', U', h1, h2, h3, h4, h5, h6, ?_⟩
            rcases h7 with h7 | h7
            · left; exact h7
            · right; exact ⟨h7.1, Or.inr h7.2⟩
        · intro ii b hb hbs
          rw [DFA.δ_add]
          split
          · exact ⟨_, rfl⟩
          · rename_i hc
            apply hinv.complete ii b _ hbs
            rcases hb with hb | hb
            · left; exact hb
            · right; refine ⟨hb.1, ?_⟩
              rcases hb.2 with h' | h'
              · exfalso; apply hc; exact ⟨by rw [hb.1], h'⟩
              · exact h'
      obtain ⟨q', dfa', h1, h2, h3, h4⟩ := ih q (dfa.add front a j) _ hinv' hT (fun b hb => hrem b (by simp [hb]))
      refine ⟨q', dfa', h1, ?_, h3, by simpa using h4⟩
      refine ⟨h2.sorted, ?_, ?_⟩
      · intro i b k hk
        obtain ⟨ii, jj, T', U', g1, g2, g3, g4, g5, g6, g7⟩ := h2.sound i b k hk
        refine ⟨ii, jj, T', U', g1, g2, g3, g4, g5, g6, ?_⟩
        rcases g7 with g7 | g7
        · left; exact g7
        · right; refine ⟨g7.1, ?_⟩; simp; grind
      · intro ii b hb hbs
        apply h2.complete ii b _ hbs
        rcases hb with hb | hb
        · left; exact hb
        · right; refine ⟨hb.1, ?_⟩; simp at hb; grind
    | none =>
      simp only
      have hpre : q <+: q ++ [U] := List.prefix_append _ _
      have hinv' : SInv n syms (q ++ [U]) (dfa.add front a q.length) front (fun b => b = a ∨ D b) := by
        refine ⟨?_, ?_, ?_⟩
        · intro S hS; simp at hS; rcases hS with hS | rfl
          · exact hinv.sorted S hS
          · exact hUs
        · intro i b k hk
          rw [DFA.δ_add] at hk
          split at hk
          · rename_i hc; obtain ⟨rfl, rfl⟩ := hc
            simp at hk; subst hk
            exact ⟨front, q.length, T, U, rfl, rfl, getElem?_prefix hpre hT, by simp, hSucc, hrem b (by simp), Or.inr ⟨rfl, Or.inl rfl⟩⟩
          · obtain ⟨ii, jj, T', U', h1, h2, h3, h4, h5, h6, h7⟩ := hinv.sound i b k hk
            refine ⟨ii, jj, T', U', h1, h2, getElem?_prefix hpre h3, getElem?_prefix hpre h4, h5, h6, ?_⟩
            rcases h7 with h7 | h7
            · left; exact h7
            · right; exact ⟨h7.1, Or.inr h7.2⟩
        · intro ii b hb hbs
          rw [DFA.δ_add]
          split
          · exact ⟨_, rfl⟩
          · rename_i hc
            apply hinv.complete ii b _ hbs
            rcases hb with hb | hb
            · left; exact hb
            · right; refine ⟨hb.1, ?_⟩
              rcases hb.2 with h' | h'
              · exfalso; apply hc; exact ⟨by rw [hb.1], h'⟩
              · exact h'
      obtain ⟨q', dfa', h1, h2, h3, h4⟩ := ih (q ++ [U]) (dfa.add front a q.length) _ hinv'
        (getElem?_prefix hpre hT) (fun b hb => hrem b (by simp [hb]))
      refine ⟨q', dfa', h1, ?_, List.IsPrefix.trans hpre h3, by simpa using h4⟩
      refine ⟨h2.sorted, ?_, ?_⟩
      · intro i b k hk
        obtain ⟨ii, jj, T', U', g1, g2, g3, g4, g5, g6, g7⟩ := h2.sound i b k hk
        refine ⟨ii, jj, T', U', g1, g2, g3, g4, g5, g6, ?_⟩
        rcases g7 with g7 | g7
        · left; exact g7
        · right; refine ⟨g7.1, ?_⟩; simp; grind
      · intro ii b hb hbs
        apply h2.complete ii b _ hbs
        rcases hb with hb | hb
        · left; exact hb
        · right; refine ⟨hb.1, ?_⟩; simp at hb; grind

/-- when the loop returns, every set in the queue is fully processed -/
theorem subsetLoop_spec (n : NFA) (syms : List Int) (fuel : Nat) (q : List (List Int)) (front : Nat) (dfa : DFA)
    (r : List (List Int) × DFA) (h : subsetLoop n syms fuel q front dfa = .ok r)
    (hinv : SInv n syms q dfa front (fun _ => False)) :
    SInv n syms r.1 r.2 r.1.length (fun _ => False) ∧ q <+: r.1 ∧ r.2.start = dfa.start := by
  induction fuel generalizing q front dfa with
  | zero =>
    unfold subsetLoop at h
    cases hq : q[front]? with
    | none =>
      simp [hq] at h; subst h
      refine ⟨?_, List.prefix_refl _, rfl⟩
      have hlen : q.length ≤ front := by simpa using hq
      refine ⟨hinv.sorted, ?_, ?_⟩
      · intro i a j hk
        obtain ⟨ii, jj, T', U', g1, g2, g3, g4, g5, g6, g7⟩ := hinv.sound i a j hk
        refine ⟨ii, jj, T', U', g1, g2, g3, g4, g5, g6, ?_⟩
        left
        have := (List.getElem?_eq_some_iff.1 g3).1
        exact this
      · intro ii a hb hs
        apply hinv.complete ii a _ hs
        rcases hb with hb | hb
        · left; simp at hb; omega
        · exact absurd hb.2 (by simp)
    | some T => simp [hq] at h
  | succ fuel ih =>
    unfold subsetLoop at h
    cases hq : q[front]? with
    | none =>
      simp [hq] at h; subst h
      refine ⟨?_, List.prefix_refl _, rfl⟩
      have hlen : q.length ≤ front := by simpa using hq
      refine ⟨hinv.sorted, ?_, ?_⟩
      · intro i a j hk
        obtain ⟨ii, jj, T', U', g1, g2, g3, g4, g5, g6, g7⟩ := hinv.sound i a j hk
        refine ⟨ii, jj, T', U', g1, g2, g3, g4, g5, g6, ?_⟩
        left
        exact (List.getElem?_eq_some_iff.1 g3).1
      · intro ii a hb hs
        apply hinv.complete ii a _ hs
        rcases hb with hb | hb
        · left; simp at hb; omega
        · exact absurd hb.2 (by simp)
    | some T =>
      simp only [hq] at h
      obtain ⟨q', dfa', h1, h2, h3, h4⟩ := subsetStep_spec n syms T front syms q dfa _ hinv hq (fun a ha => ha)
      simp only [h1] at h
      have hinv' : SInv n syms q' dfa' (front + 1) (fun _ => False) := by
        refine ⟨h2.sorted, ?_, ?_⟩
        · intro i a j hk
          obtain ⟨ii, jj, T', U', g1, g2, g3, g4, g5, g6, g7⟩ := h2.sound i a j hk
          refine ⟨ii, jj, T', U', g1, g2, g3, g4, g5, g6, ?_⟩
          left; rcases g7 with g7 | g7 <;> omega
        · intro ii a hb hs
          apply h2.complete ii a _ hs
          rcases hb with hb | hb
          · by_cases hlt : ii < front
            · left; exact hlt
            · right; exact ⟨by omega, Or.inl hs⟩
          · exact absurd hb.2 (by simp)
      obtain ⟨g1, g2, g3⟩ := ih q' (front + 1) dfa' h hinv'
      exact ⟨g1, List.IsPrefix.trans h3 g2, by rw [g3, h4]⟩

theorem dfaRun_append (δ : Int → Int → Option Int) (q : Option Int) (u v : Word) :
    dfaRun δ q (u ++ v) = dfaRun δ (dfaRun δ q u) v := by
  induction u generalizing q with
  | nil => simp [dfaRun]
  | cons a u ih =>
    cases q with
    | none =>
      simp only [List.cons_append, dfaRun]
      have : ∀ w, dfaRun δ none w = none := by intro w; cases w <;> simp [dfaRun]
      simp [this]
    | some s => simp only [List.cons_append, dfaRun]; exact ih _

theorem mem_foldlIdx_finals (final : List Int) (q : List (List Int)) (x : Int) (k : Nat) (acc : List Int) :
    x ∈ foldlIdx (fun acc i S => if final.any (fun f => S.contains f) then sins (i : Int) acc else acc) acc q k ↔
      x ∈ acc ∨ ∃ (i : Nat) (S : List Int), x = ((k + i : Nat) : Int) ∧ q[i]? = some S ∧ ∃ f ∈ final, f ∈ S := by
  induction q generalizing k acc with
  | nil => simp [foldlIdx]
  | cons S q ih =>
    simp only [foldlIdx]
    rw [ih]
    constructor
    · rintro (h | ⟨i, S', h1, h2, h3⟩)
      · split at h
        · rename_i hc
          simp at h; rcases h with rfl | h
          · right; refine ⟨0, S, by simp, by simp, ?_⟩; simpa using hc
          · left; exact h
        · left; exact h
      · right; exact ⟨i + 1, S', by rw [h1]; congr 1; omega, by simpa using h2, h3⟩
    · rintro (h | ⟨i, S', h1, h2, h3⟩)
      · left; split
        · simp [h]
        · exact h
      · cases i with
        | zero =>
          simp at h2; subst h2
          left
          have : final.any (fun f => S.contains f) = true := by simpa using h3
          rw [if_pos this, h1]; simp
        | succ i =>
          right; exact ⟨i, S', by rw [h1]; congr 1; omega, by simpa using h2, h3⟩

theorem mem_subsetFinals (final : List Int) (q : List (List Int)) (x : Int) :
    x ∈ subsetFinals final q ↔ ∃ (i : Nat) (S : List Int), x = (i : Int) ∧ q[i]? = some S ∧ ∃ f ∈ final, f ∈ S := by
  simp only [subsetFinals]
  rw [mem_foldlIdx_finals]
  simp

/-- every non-ε label of a transition is in `Symbols()` -/
theorem NFA.mem_symbols (n : NFA) (s a t : Int) (h : n.Δ s a t) (ha : a ≠ E) : a ∈ n.symbols := by
  obtain ⟨nx, hnx, _⟩ := h
  simp only [NFA.next] at hnx
  split at hnx
  · rename_i st hst
    have h1 := aget_mem hst
    have h2 := aget_mem hnx
    simp only [NFA.symbols]
    -- generalize the accumulator: membership is monotone and the entry adds `a`
    have inner : ∀ (l : List (Int × List Int)) (acc : List Int), (a ∈ acc ∨ ∃ nx, (a, nx) ∈ l) →
        a ∈ l.foldl (fun acc e => if e.1 ≠ E then sins e.1 acc else acc) acc := by
      intro l
      induction l with
      | nil => intro acc h; simpa using h
      | cons e l ih =>
        intro acc h
        simp only [List.foldl_cons]
        apply ih
        rcases h with h | ⟨nx, h⟩
        · left; split <;> simp [h]
        · simp at h; rcases h with h | h
          · left; subst h; simp [ha]
          · right; exact ⟨nx, h⟩
    have outer : ∀ (l : List (Int × List (Int × List Int))) (acc : List Int),
        (a ∈ acc ∨ ∃ st ∈ l, ∃ nx, (a, nx) ∈ st.2) →
        a ∈ l.foldl (fun acc st => st.2.foldl (fun acc e => if e.1 ≠ E then sins e.1 acc else acc) acc) acc := by
      intro l
      induction l with
      | nil => intro acc h; simpa using h
      | cons e l ih =>
        intro acc h
        simp only [List.foldl_cons]
        apply ih
        rcases h with h | ⟨st', h, nx', h'⟩
        · left; exact inner _ _ (Or.inl h)
        · simp at h; rcases h with rfl | h
          · left; exact inner _ _ (Or.inr ⟨nx', h'⟩)
          · right; exact ⟨st', h, nx', h'⟩
    exact outer _ _ (Or.inr ⟨(s, st), h1, nx, h2⟩)
  · simp at hnx

theorem path_symbols {n : NFA} {s t : Int} {w : Word} (h : Path n.Δ s w t) (hE : E ∉ w) :
    ∀ a ∈ w, a ∈ n.symbols := by
  induction h with
  | eps _ => simp
  | cons _ hd _ ih =>
    intro b hb
    simp at hb hE
    rcases hb with rfl | hb
    · exact n.mem_symbols _ _ _ hd (fun h => hE.1 h.symm)
    · exact ih hE.2 b hb

/-- the subset construction, whenever it returns, yields a DFA for the NFA's language (words over non-ε symbols) -/
theorem NFA.subsets_lang (n : NFA) (r : List (List Int) × DFA) (h : n.subsets = .ok r) (w : Word) (hE : E ∉ w) :
    r.2.lang w ↔ n.lang w := by
  obtain ⟨S0, hS0, hS0m⟩ := n.εClosure_spec (mkSet [n.start])
  simp only [NFA.subsets, hS0] at h
  cases hl : subsetLoop n n.symbols n.subsetFuel [S0] 0 (DFA.new 0 []) with
  | panic => simp [hl] at h
  | diverge => simp [hl] at h
  | ok r0 =>
    simp only [hl] at h
    injection h with h
    subst h
    have hinv0 : SInv n n.symbols [S0] (DFA.new 0 []) 0 (fun _ => False) := by
      refine ⟨?_, ?_, ?_⟩
      · intro S hS; simp at hS; subst hS
        exact n.εClosure_sorted _ _ hS0 (ssorted_mkSet _)
      · intro i a j hk; simp [DFA.δ, DFA.new, aget] at hk
      · intro ii a hb; simp at hb
    obtain ⟨hinv, hpre, hstart⟩ := subsetLoop_spec n n.symbols _ _ _ _ r0 hl hinv0
    have hq0 : r0.1[0]? = some S0 := getElem?_prefix hpre (by simp)
    have hR0 : Reps n n.start [] S0 := by
      intro x; rw [hS0m]
      constructor
      · rintro ⟨s, hs, hr⟩; simp at hs; subst hs; exact Path.eps hr
      · intro hp; cases hp with | eps he => exact ⟨n.start, by simp, he⟩
    -- the run of the DFA follows the reachable sets
    have main : ∀ (w : Word) (ii : Nat) (T : List Int) (u : Word), r0.1[ii]? = some T → Reps n n.start u T →
        (∀ a ∈ w, a ∈ n.symbols) →
        ∃ (jj : Nat) (S : List Int), dfaRun r0.2.δ (some (ii : Int)) w = some (jj : Int) ∧ r0.1[jj]? = some S ∧
          Reps n n.start (u ++ w) S := by
      intro w
      induction w with
      | nil => intro ii T u hT hR _; exact ⟨ii, T, by simp [dfaRun], hT, by simpa using hR⟩
      | cons a w ih =>
        intro ii T u hT hR hw
        have hlt : ii < r0.1.length := (List.getElem?_eq_some_iff.1 hT).1
        obtain ⟨j, hj⟩ := hinv.complete ii a (Or.inl hlt) (hw a (by simp))
        obtain ⟨ii', jj, T', U, g1, g2, g3, g4, g5, _, _⟩ := hinv.sound _ _ _ hj
        have : ii' = ii := by omega
        subst this
        rw [hT] at g3; injection g3 with g3; subst g3
        have hRU : Reps n n.start (u ++ [a]) U := by
          intro x; rw [g5 x]
          constructor
          · rintro ⟨s, hs, t, hd, hr⟩; exact Path.snoc ((hR s).1 hs) hd hr
          · intro hp
            obtain ⟨t, t1, hp', hd, h2⟩ := Path.unsnoc hp
            exact ⟨t, (hR t).2 hp', t1, hd, h2⟩
        obtain ⟨jj', S, k1, k2, k3⟩ := ih jj U (u ++ [a]) g4 hRU (fun b hb => hw b (by simp [hb]))
        refine ⟨jj', S, ?_, k2, by simpa using k3⟩
        simp only [dfaRun, hj, g2]; exact k1
    -- a defined run only reads symbols of the alphabet
    have runsyms : ∀ (w : Word) (i f : Int), dfaRun r0.2.δ (some i) w = some f → ∀ a ∈ w, a ∈ n.symbols := by
      intro w
      induction w with
      | nil => simp
      | cons a w ih =>
        intro i f hrun b hb
        simp only [dfaRun] at hrun
        cases hd : r0.2.δ i a with
        | none => rw [hd] at hrun; cases w <;> simp [dfaRun] at hrun
        | some j =>
          rw [hd] at hrun
          simp at hb; rcases hb with rfl | hb
          · obtain ⟨_, _, _, _, _, _, _, _, _, g6, _⟩ := hinv.sound _ _ _ hd; exact g6
          · exact ih j f hrun b hb
    have hst : r0.2.start = 0 := by rw [hstart]; rfl
    have key : ({ r0.2 with final := subsetFinals n.final r0.1 } : DFA).lang w ↔
        ∃ f, dfaRun r0.2.δ (some 0) w = some f ∧ f ∈ subsetFinals n.final r0.1 := by
      simp only [DFA.lang, dfaLang, hst]; rfl
    rw [key]
    simp only [NFA.lang, nfaLang]
    constructor
    · rintro ⟨f, hrun, hf⟩
      obtain ⟨jj, S, k1, k2, k3⟩ := main w 0 S0 [] hq0 hR0 (runsyms w 0 f hrun)
      replace k1 : dfaRun r0.2.δ (some 0) w = some (jj : Int) := by simpa using k1
      rw [k1] at hrun; injection hrun with hrun; subst hrun
      rw [mem_subsetFinals] at hf
      obtain ⟨i, S', e1, e2, x, hx1, hx2⟩ := hf
      have : i = jj := by omega
      subst this
      rw [k2] at e2; injection e2 with e2; subst e2
      exact ⟨x, hx1, by simpa using (k3 x).1 hx2⟩
    · rintro ⟨x, hx, hp⟩
      obtain ⟨jj, S, k1, k2, k3⟩ := main w 0 S0 [] hq0 hR0 (path_symbols hp hE)
      replace k1 : dfaRun r0.2.δ (some 0) w = some (jj : Int) := by simpa using k1
      refine ⟨jj, k1, ?_⟩
      rw [mem_subsetFinals]
      exact ⟨jj, S, rfl, k2, x, hx, (k3 x).2 (by simpa using hp)⟩

theorem NFA.toDFA_lang (n : NFA) (d : DFA) (h : n.toDFA = .ok d) (w : Word) (hE : E ∉ w) :
    d.lang w ↔ n.lang w := by
  simp only [NFA.toDFA] at h
  cases hs : n.subsets with
  | panic => simp [hs] at h
  | diverge => simp [hs] at h
  | ok r => simp [hs] at h; subst h; exact n.subsets_lang r hs w hE

end AlgoVerif.C13
