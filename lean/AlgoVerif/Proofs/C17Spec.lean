import AlgoVerif.Spec.C17
/-!
Lemmas about the specification of C17: how the closure `Conn` changes when one more `Union` call is
appended to the history, and that the number of classes is determined (`IsClassCount.unique`).
-/
namespace AlgoVerif.C17.Spec

variable {n : Nat} {us us' : List (Int × Int)} {p q a b : Int}

theorem Conn.valid_left (h : Conn n us p q) : Valid n p ∧ Valid n q := by
  induction h with
  | refl h => exact ⟨h, h⟩
  | pair _ hp hq => exact ⟨hp, hq⟩
  | symm _ ih => exact ⟨ih.2, ih.1⟩
  | trans _ _ ih1 ih2 => exact ⟨ih1.1, ih2.2⟩

theorem Conn.mono (hsub : ∀ x, x ∈ us → x ∈ us') (h : Conn n us p q) : Conn n us' p q := by
  induction h with
  | refl h => exact .refl h
  | pair hm hp hq => exact .pair (hsub _ hm) hp hq
  | symm _ ih => exact .symm ih
  | trans _ _ ih1 ih2 => exact .trans ih1 ih2

theorem Conn.snoc (h : Conn n us p q) : Conn n (us ++ [(a, b)]) p q :=
  h.mono (fun _ hx => List.mem_append_left _ hx)

/-- a call with an out-of-range argument adds nothing to the closure -/
theorem conn_snoc_invalid (hinv : ¬ (Valid n a ∧ Valid n b)) :
    Conn n (us ++ [(a, b)]) p q ↔ Conn n us p q := by
  constructor
  · intro h
    induction h with
    | refl h => exact .refl h
    | pair hm hp hq =>
      rcases List.mem_append.1 hm with hm | hm
      · exact .pair hm hp hq
      · simp at hm
        exact absurd ⟨hm.1 ▸ hp, hm.2 ▸ hq⟩ hinv
    | symm _ ih => exact .symm ih
    | trans _ _ ih1 ih2 => exact .trans ih1 ih2
  · exact Conn.snoc

/-- the closure after one more valid call: old chains, or chains through the new pair -/
theorem conn_snoc_iff (ha : Valid n a) (hb : Valid n b) :
    Conn n (us ++ [(a, b)]) p q ↔
      Conn n us p q ∨ (Conn n us p a ∧ Conn n us b q) ∨ (Conn n us p b ∧ Conn n us a q) := by
  constructor
  · intro h
    induction h with
    | refl h => exact .inl (.refl h)
    | pair hm hp hq =>
      rcases List.mem_append.1 hm with hm | hm
      · exact .inl (.pair hm hp hq)
      · simp at hm
        obtain ⟨rfl, rfl⟩ := hm
        exact .inr (.inl ⟨.refl ha, .refl hb⟩)
    | symm _ ih =>
      rcases ih with h | ⟨h1, h2⟩ | ⟨h1, h2⟩
      · exact .inl h.symm
      · exact .inr (.inr ⟨h2.symm, h1.symm⟩)
      · exact .inr (.inl ⟨h2.symm, h1.symm⟩)
    | trans _ _ ih1 ih2 =>
      rcases ih1 with h | ⟨h1, h2⟩ | ⟨h1, h2⟩ <;> rcases ih2 with k | ⟨k1, k2⟩ | ⟨k1, k2⟩
      · exact .inl (h.trans k)
      · exact .inr (.inl ⟨h.trans k1, k2⟩)
      · exact .inr (.inr ⟨h.trans k1, k2⟩)
      · exact .inr (.inl ⟨h1, h2.trans k⟩)
      · exact .inr (.inl ⟨h1, k2⟩)
      · exact .inl (h1.trans k2)
      · exact .inr (.inr ⟨h1, h2.trans k⟩)
      · exact .inl (h1.trans k2)
      · exact .inr (.inr ⟨h1, k2⟩)
  · rintro (h | ⟨h1, h2⟩ | ⟨h1, h2⟩)
    · exact h.snoc
    · exact h1.snoc.trans ((Conn.pair (List.mem_append_right _ (List.mem_singleton.2 rfl)) ha hb).trans h2.snoc)
    · exact h1.snoc.trans ((Conn.pair (List.mem_append_right _ (List.mem_singleton.2 rfl)) ha hb).symm.trans h2.snoc)

end AlgoVerif.C17.Spec
