import AlgoVerif.Spec.C17
/-!
Lemmas about the specification of C17: how the closure `Conn` changes when one more `Union` call is
appended to the history, and that the number of classes is determined (`IsClassCount.unique`).
-/
namespace AlgoVerif.C17.Spec

variable {n : Nat} {us us' : List (Int × Int)} {p q a b : Int}

theorem Conn.valid_left (h : Conn n us p q) : Valid n p ∧ Valid n q := by
  induction h with
  | refl h => exact ⟨h, h⟩
  | pair _ hp hq => exact ⟨hp, hq⟩
  | symm _ ih => exact ⟨ih.2, ih.1⟩
  | trans _ _ ih1 ih2 => exact ⟨ih1.1, ih2.2⟩

theorem Conn.mono (hsub : ∀ x, x ∈ us → x ∈ us') (h : Conn n us p q) : Conn n us' p q := by
  induction h with
  | refl h => exact .refl h
  | pair hm hp hq => exact .pair (hsub _ hm) hp hq
  | symm _ ih => exact .symm ih
  | trans _ _ ih1 ih2 => exact .trans ih1 ih2

theorem Conn.snoc (h : Conn n us p q) : Conn n (us ++ [(a, b)]) p q :=
  h.mono (fun _ hx => List.mem_append_left _ hx)

/-- a call with an out-of-range argument adds nothing to the closure -/
theorem conn_snoc_invalid (hinv : ¬ (Valid n a ∧ Valid n b)) :
    Conn n (us ++ [(a, b)]) p q ↔ Conn n us p q := by
  constructor
  · intro h
    induction h with
    | refl h => exact .refl h
    | pair hm hp hq =>
      rcases List.mem_append.1 hm with hm | hm
      · exact .pair hm hp hq
      · simp at hm
        exact absurd ⟨hm.1 ▸ hp, hm.2 ▸ hq⟩ hinv
    | symm _ ih => exact .symm ih
    | trans _ _ ih1 ih2 => exact .trans ih1 ih2
  · exact Conn.snoc

/-- the closure after one more valid call: old chains, or chains through the new pair -/
theorem conn_snoc_iff (ha : Valid n a) (hb : Valid n b) :
    Conn n (us ++ [(a, b)]) p q ↔
      Conn n us p q ∨ (Conn n us p a ∧ Conn n us b q) ∨ (Conn n us p b ∧ Conn n us a q) := by
  constructor
  · intro h
    induction h with
    | refl h => exact .inl (.refl h)
    | pair hm hp hq =>
      rcases List.mem_append.1 hm with hm | hm
      · exact .inl (.pair hm hp hq)
      · simp at hm
        obtain ⟨rfl, rfl⟩ := hm
        exact .inr (.inl ⟨.refl ha, .refl hb⟩)
    | symm _ ih =>
      rcases ih with h | ⟨h1, h2⟩ | ⟨h1, h2⟩
      · exact .inl h.symm
      · exact .inr (.inr ⟨h2.symm, h1.symm⟩)
      · exact .inr (.inl ⟨h2.symm, h1.symm⟩)
    | trans _ _ ih1 ih2 =>
      rcases ih1 with h | ⟨h1, h2⟩ | ⟨h1, h2⟩ <;> rcases ih2 with k | ⟨k1, k2⟩ | ⟨k1, k2⟩
      · exact .inl (h.trans k)
      · exact .inr (.inl ⟨h.trans k1, k2⟩)
      · exact .inr (.inr ⟨h.trans k1, k2⟩)
      · exact .inr (.inl ⟨h1, h2.trans k⟩)
      · exact .inr (.inl ⟨h1, k2⟩)
      · exact .inl (h1.trans k2)
      · exact .inr (.inr ⟨h1, h2.trans k⟩)
      · exact .inl (h1.trans k2)
      · exact .inr (.inr ⟨h1, k2⟩)
  · rintro (h | ⟨h1, h2⟩ | ⟨h1, h2⟩)
    · exact h.snoc
    · exact h1.snoc.trans ((Conn.pair (List.mem_append_right _ (List.mem_singleton.2 rfl)) ha hb).trans h2.snoc)
    · exact h1.snoc.trans ((Conn.pair (List.mem_append_right _ (List.mem_singleton.2 rfl)) ha hb).symm.trans h2.snoc)

/-- `Union(a, b)` and `Union(b, a)` extend the closure in the same way -/
theorem conn_snoc_swap : Conn n (us ++ [(b, a)]) p q ↔ Conn n (us ++ [(a, b)]) p q := by
  by_cases h : Valid n a ∧ Valid n b
  · rw [conn_snoc_iff h.1 h.2, conn_snoc_iff h.2 h.1]
    constructor <;> (rintro (k | k | k); exact .inl k; exact .inr (.inr k); exact .inr (.inl k))
  · rw [conn_snoc_invalid h, conn_snoc_invalid (fun k => h ⟨k.2, k.1⟩)]

/-- pigeonhole: a duplicate-free list that is related injectively into another list is no longer -/
theorem length_le_of_injective_rel {α β : Type} [DecidableEq β] (R : α → β → Prop) :
    ∀ (l : List α) (l' : List β), l.Nodup → (∀ a ∈ l, ∃ b ∈ l', R a b) →
      (∀ a ∈ l, ∀ a' ∈ l, ∀ b, R a b → R a' b → a = a') → l.length ≤ l'.length := by
  intro l
  induction l with
  | nil => intro l' _ _ _; simp
  | cons a t ih =>
    intro l' hnd hex hinj
    obtain ⟨hat, hndt⟩ := List.nodup_cons.1 hnd
    obtain ⟨b, hb, hab⟩ := hex a (List.mem_cons_self ..)
    have := ih (l'.erase b) hndt
      (fun a' ha' => by
        obtain ⟨b', hb', hab'⟩ := hex a' (List.mem_cons_of_mem _ ha')
        have hne : b' ≠ b := by
          intro h
          subst h
          have := hinj a (List.mem_cons_self ..) a' (List.mem_cons_of_mem _ ha') b' hab hab'
          exact hat (this ▸ ha')
        exact ⟨b', (List.mem_erase_of_ne hne).2 hb', hab'⟩)
      (fun x hx y hy => hinj x (List.mem_cons_of_mem _ hx) y (List.mem_cons_of_mem _ hy))
    rw [List.length_erase_of_mem hb] at this
    have : 0 < l'.length := List.length_pos_of_mem hb
    simp only [List.length_cons]
    omega

theorem IsClassCount.le {k k' : Nat} (h : IsClassCount n us k) (h' : IsClassCount n us k') : k ≤ k' := by
  obtain ⟨reps, hl, hnd, hlt, _, hsep⟩ := h
  obtain ⟨reps', hl', _, _, hcov', _⟩ := h'
  rw [← hl, ← hl']
  refine length_le_of_injective_rel (fun (r r' : Nat) => Conn n us (r : Int) (r' : Int)) reps reps' hnd ?_ ?_
  · intro r hr
    exact hcov' r ⟨by omega, by have := hlt r hr; omega⟩
  · intro r hr s hs b h1 h2
    exact hsep r hr s hs (h1.trans h2.symm)

/-- the number of classes is determined -/
theorem IsClassCount.unique {k k' : Nat} (h : IsClassCount n us k) (h' : IsClassCount n us k') : k = k' :=
  Nat.le_antisymm (h.le h') (h'.le h)

end AlgoVerif.C17.Spec
