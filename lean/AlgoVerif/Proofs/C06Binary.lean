import AlgoVerif.Proofs.C06Order
/-!
# C06 — the binary trie as a set of entries

`ents n` lists the keys (relative to the node) and values of the `term` nodes below `n` in the
order of the ascending traversal.  Under `WF` (right links strictly increasing) it is strictly
sorted; `put`, `delete` and `get` are characterised through membership in it.
-/
namespace AlgoVerif.C06
variable {V : Type}

def consKey (ch : UInt8) (e : Key × V) : Key × V := (ch :: e.1, e.2)

@[simp] theorem consKey_fst (ch : UInt8) (e : Key × V) : (consKey ch e).1 = ch :: e.1 := rfl
@[simp] theorem consKey_snd (ch : UInt8) (e : Key × V) : (consKey ch e).2 = e.2 := rfl

namespace BNode

/-- entries below `n`, keys relative to `n`, ascending-traversal order -/
def ents : BNode V → List (Key × V)
  | nil => []
  | node ch val term l r => (if term then [([ch], val)] else []) ++ (ents l).map (consKey ch) ++ ents r

/-- every node of the right chain starting at `n` has a character above `c` (the chain is sorted, so
the first node decides) -/
def Above (c : UInt8) : BNode V → Prop
  | nil => True
  | node ch _ _ _ _ => c < ch

/-- right links are strictly increasing (`_isTrie`) -/
def WF : BNode V → Prop
  | nil => True
  | node ch _ _ l r => WF l ∧ WF r ∧ Above ch r

@[simp] theorem ents_nil : ents (nil : BNode V) = [] := rfl
@[simp] theorem WF_nil : WF (nil : BNode V) := trivial
@[simp] theorem Above_nil (c : UInt8) : Above c (nil : BNode V) := trivial

theorem Above.mono {c d : UInt8} {n : BNode V} (h : Above d n) (hcd : c < d) : Above c n := by
  cases n with
  | nil => trivial
  | node ch val term l r => exact u8_lt_trans hcd h

theorem mem_ents_node {ch : UInt8} {val : V} {term : Bool} {l r : BNode V} {e : Key × V} :
    e ∈ ents (node ch val term l r) ↔
      (term = true ∧ e = ([ch], val)) ∨ (∃ e' ∈ ents l, e = consKey ch e') ∨ e ∈ ents r := by
  simp only [ents, List.mem_append, List.mem_map]
  constructor
  · rintro ((h | h) | h)
    · cases term <;> simp at h; exact .inl ⟨rfl, h⟩
    · obtain ⟨e', h1, h2⟩ := h; exact .inr (.inl ⟨e', h1, h2.symm⟩)
    · exact .inr (.inr h)
  · rintro (⟨h1, h2⟩ | ⟨e', h1, h2⟩ | h)
    · subst h1; exact .inl (.inl (by simp [h2]))
    · exact .inl (.inr ⟨e', h1, h2.symm⟩)
    · exact .inr h

/-- keys are never empty -/
theorem ents_key_ne_nil (n : BNode V) : ∀ e ∈ ents n, e.1 ≠ [] := by
  induction n with
  | nil => simp
  | node ch val term l r ihl ihr =>
    intro e he
    rcases mem_ents_node.mp he with ⟨_, h⟩ | ⟨e', _, h⟩ | h
    · subst h; simp
    · subst h; simp
    · exact ihr e h

/-- under `Above c`, every key starts with a character above `c` -/
theorem ents_head_gt {c : UInt8} {n : BNode V} (hw : WF n) (ha : Above c n) :
    ∀ e ∈ ents n, ∃ x k, e.1 = x :: k ∧ c < x := by
  induction n generalizing c with
  | nil => simp
  | node ch val term l r ihl ihr =>
    intro e he
    rcases mem_ents_node.mp he with ⟨_, h⟩ | ⟨e', _, h⟩ | h
    · subst h; exact ⟨ch, [], rfl, ha⟩
    · subst h; exact ⟨ch, e'.1, rfl, ha⟩
    · obtain ⟨x, k, h1, h2⟩ := ihr hw.2.1 hw.2.2 e h
      exact ⟨x, k, h1, u8_lt_trans ha h2⟩

/-- the keys of a node's right sub-chain start with a character above the node's -/
theorem ents_right_head {ch : UInt8} {val : V} {term : Bool} {l r : BNode V} (hw : WF (node ch val term l r)) :
    ∀ e ∈ ents r, ∃ x k, e.1 = x :: k ∧ ch < x := ents_head_gt hw.2.1 hw.2.2

theorem sorted_ents {n : BNode V} (hw : WF n) : Sorted (ents n) := by
  induction n with
  | nil => exact Sorted.nil
  | node ch val term l r ihl ihr =>
    have hr := ents_right_head hw
    unfold Sorted ents
    rw [List.pairwise_append, List.pairwise_append]
    refine ⟨⟨?_, ?_, ?_⟩, ihr hw.2.1, ?_⟩
    · cases term <;> simp
    · rw [List.pairwise_map]
      exact (ihl hw.1).imp (by intro a b h; simpa using h)
    · intro a ha b hb
      cases term <;> simp at ha
      subst ha
      obtain ⟨e', he', rfl⟩ := List.mem_map.mp hb
      have := ents_key_ne_nil l e' he'
      simp only [consKey_fst, klt_cons_same]
      cases h : e'.1 with
      | nil => exact absurd h this
      | cons => rfl
    · intro a ha b hb
      obtain ⟨x, k, h1, h2⟩ := hr b hb
      rw [h1]
      rcases List.mem_append.mp ha with ha | ha
      · cases term <;> simp at ha
        subst ha; exact klt_cons_of_lt h2 _ _
      · obtain ⟨e', _, rfl⟩ := List.mem_map.mp ha
        exact klt_cons_of_lt h2 _ _

/-! ### `_put` -/

theorem ents_chain [Inhabited V] (c : UInt8) (rest : Key) (v : V) : ents (chain c rest v) = [(c :: rest, v)] := by
  induction rest generalizing c with
  | nil => simp [chain, ents]
  | cons c' rest ih => simp [chain, ents, ih, consKey]

theorem WF_chain [Inhabited V] (c : UInt8) (rest : Key) (v : V) : WF (chain c rest v) := by
  induction rest generalizing c with
  | nil => simp [chain, WF]
  | cons c' rest ih => simp [chain, WF, ih]

theorem Above_chain [Inhabited V] {x c : UInt8} (h : x < c) (rest : Key) (v : V) : Above x (chain c rest v) := by
  cases rest <;> simpa [chain, Above] using h

theorem put_WF [Inhabited V] (n : BNode V) (c : UInt8) (rest : Key) (v : V) (sz : Int) (hw : WF n) :
    WF (put n c rest v sz).1 ∧ ∀ x, x < c → Above x n → Above x (put n c rest v sz).1 := by
  induction n generalizing c rest sz with
  | nil => exact ⟨by simp [put, WF_chain], fun x hx _ => by simpa [put] using Above_chain hx rest v⟩
  | node ch val term l r ihl ihr =>
    unfold put
    by_cases h1 : ch > c
    · simp only [h1, if_true]
      cases rest with
      | nil => exact ⟨⟨trivial, hw, h1⟩, fun x hx _ => hx⟩
      | cons c' rest' => exact ⟨⟨WF_chain _ _ _, hw, h1⟩, fun x hx _ => hx⟩
    · simp only [h1, if_false]
      by_cases h2 : (ch == c) = true
      · simp only [h2, if_true]
        cases rest with
        | nil => exact ⟨hw, fun x _ ha => ha⟩
        | cons c' rest' => exact ⟨⟨(ihl c' rest' sz hw.1).1, hw.2.1, hw.2.2⟩, fun x _ ha => ha⟩
      · simp only [h2, Bool.false_eq_true, if_false]
        have hlt : ch < c := by
          rcases u8_trichotomy ch c with h | h | h
          · exact h
          · simp [h] at h2
          · exact absurd h h1
        exact ⟨⟨hw.1, (ihr c rest sz hw.2.1).1, (ihr c rest sz hw.2.1).2 ch hlt hw.2.2⟩, fun x _ ha => ha⟩

theorem put_mem [Inhabited V] (n : BNode V) (c : UInt8) (rest : Key) (v : V) (sz : Int) (hw : WF n) (e : Key × V) :
    e ∈ ents (put n c rest v sz).1 ↔ e = (c :: rest, v) ∨ (e ∈ ents n ∧ e.1 ≠ c :: rest) := by
  induction n generalizing c rest sz e with
  | nil => simp [put, ents_chain]
  | node ch val term l r ihl ihr =>
    have hr := ents_right_head hw
    unfold put
    by_cases h1 : ch > c
    · simp only [h1, if_true]
      have hne : ∀ e ∈ ents (node ch val term l r), e.1 ≠ c :: rest := by
        intro e he heq
        obtain ⟨x, k, hx, hlt⟩ := ents_head_gt (c := c) hw h1 e he
        rw [hx] at heq
        have : x = c := (List.cons.inj heq).1
        subst this; exact u8_lt_irrefl _ hlt
      cases rest with
      | nil =>
        rw [mem_ents_node]
        simp only [ents_nil, List.not_mem_nil, false_and, exists_false, false_or, true_and]
        constructor
        · rintro (h | h)
          · exact .inl h
          · exact .inr ⟨h, hne e h⟩
        · rintro (h | ⟨h, _⟩)
          · exact .inl h
          · exact .inr h
      | cons c' rest' =>
        rw [mem_ents_node]
        simp only [ents_chain, List.mem_singleton, exists_eq_left, consKey, Bool.false_eq_true, false_and, false_or]
        constructor
        · rintro (h | h)
          · exact .inl h
          · exact .inr ⟨h, hne e h⟩
        · rintro (h | ⟨h, _⟩)
          · exact .inl h
          · exact .inr h
    · simp only [h1, if_false]
      by_cases h2 : (ch == c) = true
      · simp only [h2, if_true]
        have hc : ch = c := by simpa using h2
        subst hc
        cases rest with
        | nil =>
          rw [mem_ents_node, mem_ents_node]
          constructor
          · rintro (⟨_, h⟩ | ⟨e', h, rfl⟩ | h)
            · exact .inl h
            · refine .inr ⟨.inr (.inl ⟨e', h, rfl⟩), ?_⟩
              simpa using ents_key_ne_nil l e' h
            · refine .inr ⟨.inr (.inr h), ?_⟩
              obtain ⟨x, k, hx, hlt⟩ := hr e h
              rw [hx]; intro heq
              have : x = ch := (List.cons.inj heq).1
              subst this; exact u8_lt_irrefl _ hlt
          · rintro (h | ⟨⟨_, h⟩ | ⟨e', h, rfl⟩ | h, hne⟩)
            · exact .inl ⟨rfl, h⟩
            · subst h; exact absurd rfl hne
            · exact .inr (.inl ⟨e', h, rfl⟩)
            · exact .inr (.inr h)
        | cons c' rest' =>
          rw [mem_ents_node, mem_ents_node]
          constructor
          · rintro (⟨ht, h⟩ | ⟨e', h, rfl⟩ | h)
            · subst h; exact .inr ⟨.inl ⟨ht, rfl⟩, by simp⟩
            · rcases (ihl c' rest' sz hw.1 e').mp h with h' | ⟨h', hne⟩
              · subst h'; exact .inl rfl
              · exact .inr ⟨.inr (.inl ⟨e', h', rfl⟩), by simpa using hne⟩
            · refine .inr ⟨.inr (.inr h), ?_⟩
              obtain ⟨x, k, hx, hlt⟩ := hr e h
              rw [hx]; intro heq
              have : x = ch := (List.cons.inj heq).1
              subst this; exact u8_lt_irrefl _ hlt
          · rintro (h | ⟨⟨ht, h⟩ | ⟨e', h, rfl⟩ | h, hne⟩)
            · subst h
              exact .inr (.inl ⟨(c' :: rest', v), (ihl c' rest' sz hw.1 _).mpr (.inl rfl), rfl⟩)
            · exact .inl ⟨ht, h⟩
            · refine .inr (.inl ⟨e', (ihl c' rest' sz hw.1 e').mpr (.inr ⟨h, ?_⟩), rfl⟩)
              intro heq; apply hne; simp [heq]
            · exact .inr (.inr h)
      · simp only [h2, Bool.false_eq_true, if_false]
        have hlt : ch < c := by
          rcases u8_trichotomy ch c with h | h | h
          · exact h
          · simp [h] at h2
          · exact absurd h h1
        have hne : ch ≠ c := by rintro rfl; exact u8_lt_irrefl _ hlt
        rw [mem_ents_node, mem_ents_node]
        constructor
        · rintro (⟨ht, h⟩ | ⟨e', h, rfl⟩ | h)
          · subst h; exact .inr ⟨.inl ⟨ht, rfl⟩, by simp [hne]⟩
          · exact .inr ⟨.inr (.inl ⟨e', h, rfl⟩), by simp [hne]⟩
          · rcases (ihr c rest sz hw.2.1 e).mp h with h' | ⟨h', hn⟩
            · exact .inl h'
            · exact .inr ⟨.inr (.inr h'), hn⟩
        · rintro (h | ⟨⟨ht, h⟩ | ⟨e', h, rfl⟩ | h, hn⟩)
          · exact .inr (.inr ((ihr c rest sz hw.2.1 e).mpr (.inl h)))
          · exact .inl ⟨ht, h⟩
          · exact .inr (.inl ⟨e', h, rfl⟩)
          · exact .inr (.inr ((ihr c rest sz hw.2.1 e).mpr (.inr ⟨h, hn⟩)))

/-- `t.size` moves with the number of entries -/
theorem put_size [Inhabited V] (n : BNode V) (c : UInt8) (rest : Key) (v : V) (sz : Int) :
    (put n c rest v sz).2 = sz + (ents (put n c rest v sz).1).length - (ents n).length := by
  induction n generalizing c rest sz with
  | nil => simp [put, ents_chain]
  | node ch val term l r ihl ihr =>
    unfold put
    by_cases h1 : ch > c
    · simp only [h1, if_true]
      cases rest with
      | nil => simp [ents]; omega
      | cons c' rest' => simp [ents, ents_chain]; omega
    · simp only [h1, if_false]
      by_cases h2 : (ch == c) = true
      · simp only [h2, if_true]
        cases rest with
        | nil => cases term <;> simp [ents] <;> omega
        | cons c' rest' =>
          have := ihl c' rest' sz
          simp only [ents, List.length_append, List.length_map]
          rw [this]; push_cast; omega
      · simp only [h2, Bool.false_eq_true, if_false]
        have := ihr c rest sz
        simp only [ents, List.length_append, List.length_map]
        rw [this]; push_cast; omega

/-! ### `_delete` -/

theorem isNil_iff (n : BNode V) : n.isNil = true ↔ n = nil := by cases n <;> simp [isNil]

private theorem right_ne {ch : UInt8} {r : BNode V} (hr : ∀ e ∈ ents r, ∃ x k, e.1 = x :: k ∧ ch < x)
    (rest : Key) : ∀ e ∈ ents r, e.1 ≠ ch :: rest := by
  intro e he heq
  obtain ⟨x, k, hx, hlt⟩ := hr e he
  rw [hx] at heq
  have : x = ch := (List.cons.inj heq).1
  subst this; exact u8_lt_irrefl _ hlt

theorem delete_WF [Inhabited V] (n : BNode V) (c : UInt8) (rest : Key) (sz : Int) (hw : WF n) :
    WF (delete n c rest sz).1 ∧ ∀ x, Above x n → Above x (delete n c rest sz).1 := by
  induction n generalizing c rest sz with
  | nil => simp [delete]
  | node ch val term l r ihl ihr =>
    have hup : ∀ x, Above x (node ch val term l r) → Above x r := fun x hx => Above.mono hw.2.2 hx
    unfold delete
    by_cases h1 : ch > c
    · simp only [h1, if_true]; exact ⟨hw, fun x hx => hx⟩
    · simp only [h1, if_false]
      by_cases h2 : (ch == c) = true
      · simp only [h2, if_true]
        cases rest with
        | nil =>
          cases term <;> cases hl : l.isNil <;> simp only [↓reduceIte, Bool.false_eq_true]
          · exact ⟨hw, fun x hx => hx⟩
          · exact ⟨hw.2.1, hup⟩
          · exact ⟨hw, fun x hx => hx⟩
          · exact ⟨hw.2.1, hup⟩
        | cons c' rest' =>
          simp only
          split
          · exact ⟨hw.2.1, hup⟩
          · exact ⟨⟨(ihl c' rest' sz hw.1).1, hw.2.1, hw.2.2⟩, fun x hx => hx⟩
      · simp only [h2, Bool.false_eq_true, if_false]
        exact ⟨⟨hw.1, (ihr c rest sz hw.2.1).1, (ihr c rest sz hw.2.1).2 ch hw.2.2⟩, fun x hx => hx⟩

theorem delete_mem [Inhabited V] (n : BNode V) (c : UInt8) (rest : Key) (sz : Int) (hw : WF n) (e : Key × V) :
    e ∈ ents (delete n c rest sz).1 ↔ e ∈ ents n ∧ e.1 ≠ c :: rest := by
  induction n generalizing c rest sz e with
  | nil => simp [delete]
  | node ch val term l r ihl ihr =>
    have hr := ents_right_head hw
    unfold delete
    by_cases h1 : ch > c
    · simp only [h1, if_true]
      constructor
      · intro he
        refine ⟨he, ?_⟩
        intro heq
        obtain ⟨x, k, hx, hlt⟩ := ents_head_gt (c := c) hw h1 e he
        rw [hx] at heq
        have : x = c := (List.cons.inj heq).1
        subst this; exact u8_lt_irrefl _ hlt
      · exact fun h => h.1
    · simp only [h1, if_false]
      by_cases h2 : (ch == c) = true
      · simp only [h2, if_true]
        have hc : ch = c := by simpa using h2
        subst hc
        have hrne := right_ne hr
        cases rest with
        | nil =>
          have hlne : ∀ e' ∈ ents l, (consKey ch e').1 ≠ [ch] := by
            intro e' he'; simpa using ents_key_ne_nil l e' he'
          cases term <;> cases hl : l.isNil <;> simp only [↓reduceIte, Bool.false_eq_true]
          · -- not term, l not nil: unchanged
            rw [mem_ents_node]
            constructor
            · rintro (⟨h, _⟩ | ⟨e', h, rfl⟩ | h)
              · simp at h
              · exact ⟨.inr (.inl ⟨e', h, rfl⟩), hlne e' h⟩
              · exact ⟨.inr (.inr h), hrne [] e h⟩
            · exact fun h => h.1
          · -- not term, l nil: r
            have hl' := (isNil_iff l).mp hl
            subst hl'
            rw [mem_ents_node]
            simp only [ents_nil, List.not_mem_nil, false_and, exists_false, false_or]
            constructor
            · exact fun h => ⟨.inr h, hrne [] e h⟩
            · rintro ⟨⟨h, _⟩ | h, hne⟩
              · simp at h
              · exact h
          · -- term, l not nil
            rw [mem_ents_node, mem_ents_node]
            constructor
            · rintro (⟨hf, _⟩ | ⟨e', h, rfl⟩ | h)
              · simp at hf
              · exact ⟨.inr (.inl ⟨e', h, rfl⟩), hlne e' h⟩
              · exact ⟨.inr (.inr h), hrne [] e h⟩
            · rintro ⟨⟨_, h⟩ | ⟨e', h, rfl⟩ | h, hne⟩
              · subst h; exact absurd rfl hne
              · exact .inr (.inl ⟨e', h, rfl⟩)
              · exact .inr (.inr h)
          · -- term, l nil: r
            have hl' := (isNil_iff l).mp hl
            subst hl'
            rw [mem_ents_node]
            simp only [ents_nil, List.not_mem_nil, false_and, exists_false, false_or, true_and]
            constructor
            · exact fun h => ⟨.inr h, hrne [] e h⟩
            · rintro ⟨h | h, hne⟩
              · subst h; exact absurd rfl hne
              · exact h
        | cons c' rest' =>
          have ih := ihl c' rest' sz hw.1
          simp only
          split
          · rename_i hcond
            simp only [Bool.and_eq_true, Bool.not_eq_eq_eq_not, Bool.not_true] at hcond
            obtain ⟨hx, ht⟩ := hcond
            have hx' := (isNil_iff _).mp hx
            have hall : ∀ e' ∈ ents l, e'.1 = c' :: rest' := by
              intro e' he'
              apply Classical.byContradiction
              intro hne
              have := (ih e').mpr ⟨he', hne⟩
              rw [hx'] at this; simp at this
            rw [mem_ents_node]
            constructor
            · exact fun h => ⟨.inr (.inr h), hrne _ e h⟩
            · rintro ⟨⟨h, _⟩ | ⟨e', h, rfl⟩ | h, hne⟩
              · simp [ht] at h
              · exfalso; apply hne; simp [hall e' h]
              · exact h
          · rw [mem_ents_node, mem_ents_node]
            constructor
            · rintro (⟨ht, h⟩ | ⟨e', h, rfl⟩ | h)
              · subst h; exact ⟨.inl ⟨ht, rfl⟩, by simp⟩
              · obtain ⟨h', hne⟩ := (ih e').mp h
                exact ⟨.inr (.inl ⟨e', h', rfl⟩), by simpa using hne⟩
              · exact ⟨.inr (.inr h), hrne _ e h⟩
            · rintro ⟨⟨ht, h⟩ | ⟨e', h, rfl⟩ | h, hne⟩
              · exact .inl ⟨ht, h⟩
              · refine .inr (.inl ⟨e', (ih e').mpr ⟨h, ?_⟩, rfl⟩)
                intro heq; apply hne; simp [heq]
              · exact .inr (.inr h)
      · simp only [h2, Bool.false_eq_true, if_false]
        have hne : ch ≠ c := by simpa using h2
        rw [mem_ents_node, mem_ents_node]
        constructor
        · rintro (⟨ht, h⟩ | ⟨e', h, rfl⟩ | h)
          · subst h; exact ⟨.inl ⟨ht, rfl⟩, by simp [hne]⟩
          · exact ⟨.inr (.inl ⟨e', h, rfl⟩), by simp [hne]⟩
          · obtain ⟨h', hn⟩ := (ihr c rest sz hw.2.1 e).mp h
            exact ⟨.inr (.inr h'), hn⟩
        · rintro ⟨⟨ht, h⟩ | ⟨e', h, rfl⟩ | h, hn⟩
          · exact .inl ⟨ht, h⟩
          · exact .inr (.inl ⟨e', h, rfl⟩)
          · exact .inr (.inr ((ihr c rest sz hw.2.1 e).mpr ⟨h, hn⟩))

theorem delete_size [Inhabited V] (n : BNode V) (c : UInt8) (rest : Key) (sz : Int) :
    (delete n c rest sz).2.2 = sz + (ents (delete n c rest sz).1).length - (ents n).length := by
  induction n generalizing c rest sz with
  | nil => simp [delete]
  | node ch val term l r ihl ihr =>
    unfold delete
    by_cases h1 : ch > c
    · simp only [h1, if_true]; omega
    · simp only [h1, if_false]
      by_cases h2 : (ch == c) = true
      · simp only [h2, if_true]
        cases rest with
        | nil =>
          cases term <;> cases hl : l.isNil <;> simp only [↓reduceIte, Bool.false_eq_true]
          · omega
          · have hl' := (isNil_iff l).mp hl
            subst hl'; simp [ents]
          · simp [ents]; omega
          · have hl' := (isNil_iff l).mp hl
            subst hl'; simp [ents]; omega
        | cons c' rest' =>
          have ih := ihl c' rest' sz
          simp only
          split
          · rename_i hcond
            simp only [Bool.and_eq_true, Bool.not_eq_eq_eq_not, Bool.not_true] at hcond
            obtain ⟨hx, ht⟩ := hcond
            have hx' := (isNil_iff _).mp hx
            rw [hx'] at ih
            simp only [ents, List.length_append, List.length_map, ht]
            rw [ih]; simp; omega
          · simp only [ents, List.length_append, List.length_map]
            rw [ih]; push_cast; omega
      · simp only [h2, Bool.false_eq_true, if_false]
        have := ihr c rest sz
        simp only [ents, List.length_append, List.length_map]
        rw [this]; push_cast; omega

/-- `_delete` returns what `_get` finds -/
theorem delete_val [Inhabited V] (n : BNode V) (c : UInt8) (rest : Key) (sz : Int) :
    (delete n c rest sz).2.1 = get n (c :: rest) := by
  induction n generalizing c rest sz with
  | nil => simp [delete, get]
  | node ch val term l r ihl ihr =>
    unfold delete get
    by_cases h1 : ch > c
    · simp only [h1, if_true]
    · simp only [h1, if_false]
      by_cases h2 : (ch == c) = true
      · simp only [h2, if_true]
        cases rest with
        | nil =>
          cases term <;> cases hl : l.isNil <;> simp only [↓reduceIte, Bool.false_eq_true] <;>
            cases l <;> simp [get, isNil] at hl ⊢
        | cons c' rest' =>
          have ih := ihl c' rest' sz
          simp only
          split <;> simp [ih]
      · simp only [h2, Bool.false_eq_true, if_false]
        exact ihr c rest sz

/-! ### `_get` -/

theorem get_mem (n : BNode V) (k : Key) (v : V) (hw : WF n) : get n k = some v ↔ (k, v) ∈ ents n := by
  induction n generalizing k with
  | nil => simp [get]
  | node ch val term l r ihl ihr =>
    have hr := ents_right_head hw
    cases k with
    | nil =>
      simp only [get]
      constructor
      · intro h; simp at h
      · intro h; exact absurd rfl (ents_key_ne_nil _ _ h)
    | cons c rest =>
      unfold get
      rw [mem_ents_node]
      by_cases h1 : ch > c
      · simp only [h1, if_true]
        constructor
        · intro h; simp at h
        · intro h
          exfalso
          obtain ⟨x, k, hx, hlt⟩ := ents_head_gt (c := c) hw h1 _ (mem_ents_node.mpr h)
          have : x = c := ((List.cons.inj hx).1).symm
          subst this; exact u8_lt_irrefl _ hlt
      · simp only [h1, if_false]
        by_cases h2 : (ch == c) = true
        · simp only [h2, if_true]
          have hc : ch = c := by simpa using h2
          subst hc
          have hrne := right_ne hr rest
          by_cases h3 : (term && rest.isEmpty) = true
          · simp only [h3, if_true]
            simp only [Bool.and_eq_true, List.isEmpty_iff] at h3
            obtain ⟨ht, hre⟩ := h3
            subst hre
            constructor
            · intro h; simp at h; subst h; exact .inl ⟨ht, rfl⟩
            · rintro (⟨_, h⟩ | ⟨e', h, heq⟩ | h)
              · simp at h; simp [h]
              · exfalso
                have := ents_key_ne_nil l e' h
                simp [consKey] at heq
                exact this heq.1.symm.symm
              · exact absurd rfl (hrne _ h)
          · simp only [h3, Bool.false_eq_true, if_false]
            rw [ihl rest hw.1]
            constructor
            · intro h; exact .inr (.inl ⟨(rest, v), h, rfl⟩)
            · rintro (⟨ht, h⟩ | ⟨e', h, heq⟩ | h)
              · exfalso; apply h3
                simp at h
                simp [ht, h.1]
              · simp [consKey] at heq
                obtain ⟨h1', h2'⟩ := heq
                have : e' = (rest, v) := by cases e'; simp_all
                rw [← this]; exact h
              · exact absurd rfl (hrne _ h)
        · simp only [h2, Bool.false_eq_true, if_false]
          have hne : ch ≠ c := by simpa using h2
          rw [ihr (c :: rest) hw.2.1]
          constructor
          · exact fun h => .inr (.inr h)
          · rintro (⟨_, h⟩ | ⟨e', _, heq⟩ | h)
            · simp at h; exact absurd h.1.1.symm hne
            · simp [consKey] at heq; exact absurd heq.1.1.symm hne
            · exact h

end BNode
end AlgoVerif.C06
