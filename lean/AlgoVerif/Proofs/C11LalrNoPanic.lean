import AlgoVerif.Proofs.C11LalrUniq
import AlgoVerif.Proofs.C11NoPanic
/-!
# C11 — the LALR(1) builder of the Model never panics

for every well-formed grammar whose non-terminals are productive.  The two panic points of `ComputeLALR1Kernels`:

* `S0.FindItem(to.ItemSet, …)` indexes the state map with the result of `FindItemSet`, which is `ErrState` when the
  target of a transition is missing: it never is, the LR(0) kernel collection is closed under GOTO (`kernel_goto_found`)
  and GOTO is not empty when an item of the closure has the symbol after its dot;
* `lookaheads.Get(item).All()` dereferences a nil set when a kernel item never received a lookahead: every kernel
  item does (`entries_exist`) — by induction along the way the kernel collection was found: the items of a GOTO set get
  their lookaheads spontaneously or through a link from an item of the set they come from, which has a non-empty set by
  induction; this needs FIRST(βa) ≠ ∅, i.e. productive non-terminals (and for a grammar with an unproductive
  non-terminal the Go code does dereference a nil set there).
-/
namespace AlgoVerif.C11.Lalr
open AlgoVerif AlgoVerif.Gram AlgoVerif.C11 AlgoVerif.C11.Spec AlgoVerif.C11.Built AlgoVerif.C11.BuiltComplete
  AlgoVerif.C11.NoPanic

theorem np_bind' {α β} (x : Outcome α) (f : α → Outcome β) (hx : NP x) (hf : ∀ a, x = Outcome.ok a → NP (f a)) :
    NP (x >>= f) := by
  cases x with
  | ok a => exact hf a rfl
  | panic => exact absurd rfl hx
  | diverge => simp [NP, bind, Outcome.bind]

theorem np_foldlM_mem {α β} (f : β → α → Outcome β) :
    ∀ (l : List α), (∀ b a, a ∈ l → NP (f b a)) → ∀ (init : β), NP (l.foldlM f init)
  | [], _, init => by simpa [List.foldlM] using np_pure init
  | a :: l, hf, init => by
    rw [List.foldlM_cons]
    exact np_bind _ _ (hf init a (by simp))
      (fun b => np_foldlM_mem f l (fun b' a' ha' => hf b' a' (List.mem_cons_of_mem _ ha')) b)

theorem np_propagate (props : Links) : ∀ (fuel : Nat) (t : LaTable), NP (propagate props fuel t)
  | 0, _ => np_diverge
  | fuel + 1, t => by
    unfold propagate
    simp only
    split
    · exact np_ok _
    · exact np_propagate props fuel _

theorem np_rowsL (g' : SGrammar) (A : Auto) (S : StateMap) :
    ∀ (l : List (List Item)) (i : Nat) (T : Table) (cl : List (List Item)), NP (buildLALR.rows g' A S l i T cl)
  | [], _, T, cl => by unfold buildLALR.rows; exact np_pure _
  | I :: rest, i, T, cl => by
    unfold buildLALR.rows
    apply np_bind _ _ (np_auto_closure A I)
    intro c
    apply np_bind
    · apply np_foldlM
      intro T' item
      apply np_itemActions
      intro a
      exact np_bind _ _ (np_goto A I _) (fun J => np_pure _)
    · intro T'
      apply np_bind
      · apply np_foldlM
        intro T'' n
        split
        · exact np_pure _
        · exact np_bind _ _ (np_goto A I _) (fun J => np_pure _)
      · intro T''; exact np_rowsL g' A S rest (i + 1) T'' _

section
variable {g g' : SGrammar} (hv : ValidG g) (ht : TermsListed g) (ha : augment g = Outcome.ok g')
  {fuel : Nat} {K0 : List (List Item)} (hK0 : (mkAuto g' false true fuel).canonical = Outcome.ok K0)
include hv ha hK0

omit ht in
/-- the LR(0) kernel state map: well-formed states -/
theorem k0_ok : StatesOK g' (buildStateMap g'.start K0) := by
  have h := augOK_of_augment hv ha
  have hA0g : (mkAuto g' false true fuel).g = g' := rfl
  have hinit0Eq := initialItem_eq h hA0g
  have hinit0 : (mkAuto g' false true fuel).initialItem.isInitial g'.start = true := by
    rw [hinit0Eq]
    simp [mkAuto, Item.isInitial, startProd, laIsEnd]
  exact stateMap_spec hinit0 (kcanonical_spec h hA0g rfl hK0)

omit hv ha in
theorem k0_la_none : ∀ I ∈ buildStateMap g'.start K0, ∀ it ∈ I, it.la = none := by
  have hK0' := hK0
  unfold Auto.canonical at hK0'
  obtain ⟨I0, hI0, hrest⟩ := bind_eq_ok hK0'
  have hI0' : I0 = [(mkAuto g' false true fuel).initialItem] := by
    simpa [mkAuto] using hI0.symm
  have hall : ∀ I ∈ K0, ∀ it ∈ I, it.la = none := by
    refine canonicalLoop_all (fun I => ∀ it ∈ I, it.la = none) ?hgo _ _ _ ?hC hrest
    case hC =>
      intro I hI
      simp only [List.mem_singleton] at hI
      subst hI
      rw [hI0']
      intro it hit
      simp only [List.mem_singleton] at hit
      subst hit
      simp [Auto.initialItem, mkAuto]
    case hgo =>
      intro I J X hI hg
      unfold Auto.goto at hg
      simp only [mkAuto, if_true] at hg
      obtain ⟨c, hc, hrest'⟩ := bind_eq_ok hg
      have hJ : advance c X = J := pure_eq_ok hrest'
      subst hJ
      intro it hit
      obtain ⟨i0, hi0, _, rfl⟩ := mem_advance.mp hit
      exact closure_all (itemProp_none _ _ _) _ _ _ hc hI i0 hi0
  intro I hI it hit
  obtain ⟨I', hI', rfl⟩ := mem_buildStateMap.mp hI
  exact hall I' hI' it ((mem_sortBy _ _ _).mp hit)

omit ht in
/-- state 0 of the kernel state map is `[S′ → •S]` -/
theorem k0_zero : (buildStateMap g'.start K0)[0]? = some [(mkAuto g' false true fuel).initialItem] := by
  have h := augOK_of_augment hv ha
  have hinit0Eq := initialItem_eq h (A := mkAuto g' false true fuel) rfl
  have hK0' := hK0
  unfold Auto.canonical at hK0'
  obtain ⟨I0, hI0, hrest⟩ := bind_eq_ok hK0'
  have hI0' : I0 = [(mkAuto g' false true fuel).initialItem] := by simpa [mkAuto] using hI0.symm
  subst hI0'
  obtain ⟨rest0, hK0eq⟩ := canonicalLoop_head _ _ _ _ _ hrest
  have hC0 := kcanonical_spec h (A := mkAuto g' false true fuel) rfl rfl hK0
  obtain ⟨I0', rest0', hEq, h0, hr0⟩ := hC0
  rw [hK0eq] at hEq
  simp only [List.cons.injEq] at hEq
  obtain ⟨rfl, rfl⟩ := hEq
  have hinit0 : (mkAuto g' false true fuel).initialItem.isInitial g'.start = true := by
    rw [hinit0Eq]; simp [mkAuto, Item.isInitial, startProd, laIsEnd]
  obtain ⟨_, tail0, hS0eq, _⟩ := stateMap_specK' hinit0 h0 (fun J hJ => (hr0 J hJ).2)
  have hsort1 : sortBy (cmpItem g'.start) [(mkAuto g' false true fuel).initialItem]
      = [(mkAuto g' false true fuel).initialItem] := by simp [sortBy, insertBy]
  rw [hsort1] at hS0eq
  rw [hK0eq, hS0eq]; simp

include ht

/-- the state lookup of `lalrVisit` succeeds -/
theorem visit_target_found {Is : List Item} (hIs : Is ∈ buildStateMap g'.start K0) {k : Item} (hk : k ∈ Is)
    {j : Item} (hj : Clo g' (nullableOf g') (firstEnv g' (nullableOf g')) (fun i => i = withLa k endmarker) j)
    {X : Sy} (hd : j.dotSym = some X) {nextI : List Item}
    (hgo : (mkAuto g' false true fuel).goto Is X = Outcome.ok nextI) :
    j.next.core ∈ nextI ∧ ∃ (n : Nat) (K : List Item), findItemSet (buildStateMap g'.start K0) nextI = (n : Int) ∧
      (buildStateMap g'.start K0)[n]? = some K ∧ ∀ x, x ∈ K ↔ x ∈ nextI := by
  have h := augOK_of_augment hv ha
  have hL := augListed hv ht ha
  obtain ⟨s, hs⟩ := List.mem_iff_getElem?.mp hIs
  have hkprod : k.prod ∈ g'.prods := (statesOK_good (k0_ok hv ha hK0) s Is hs k hk).1
  have hknone : k.la = none := k0_la_none hK0 Is hIs k hk
  have hjprod : j.prod ∈ g'.prods := clo_prod hv ht ha (fun i hi => by rw [hi]; exact hkprod) hj
  -- j.next.core is in GOTO
  have hin : j.next.core ∈ nextI := by
    obtain ⟨c0, hc0, rfl⟩ := kgoto_spec h (A := mkAuto g' false true fuel) rfl rfl hgo
    apply mem_advance.mpr
    refine ⟨j.core, ?_, hd, rfl⟩
    replace hc0 : closure g' (nullableOf g') (firstEnv g' (nullableOf g')) fuel Is = Outcome.ok c0 := hc0
    apply (mem_closure_iff (g := g') hc0 _).mpr
    have := clo_core (g := g') (fun i (hi : i = withLa k endmarker) => by rw [hi]; rfl) hj
    refine clo_mono ?_ this
    rintro y ⟨s', hs', rfl⟩
    rw [hs', core_withLa, core_of_none hknone]
    exact hk
  refine ⟨hin, ?_⟩
  -- X is a listed symbol
  have hX : X ∈ allSymbols g' := by
    have hXb := dotSym_mem hd
    unfold allSymbols
    cases X with
    | term a => exact List.mem_append_left _ (List.mem_map.mpr ⟨a, hL.listed.terms _ hjprod a hXb, rfl⟩)
    | nonterm B => exact List.mem_append_right _ (List.mem_map.mpr ⟨B, hL.bodies _ hjprod B hXb, rfl⟩)
  exact kernel_goto_found hK0 hIs hX hgo (by intro he; rw [he] at hin; simp at hin)

theorem np_lalrVisit {Is : List Item} (hIs : Is ∈ buildStateMap g'.start K0) {k : Item} (hk : k ∈ Is)
    {j : Item} (hj : Clo g' (nullableOf g') (firstEnv g' (nullableOf g')) (fun i => i = withLa k endmarker) j)
    (src : Key) (acc : LaTable × Links) :
    NP (lalrVisit (mkAuto g' false true fuel) (buildStateMap g'.start K0) Is src acc j) := by
  unfold lalrVisit
  cases hd : j.dotSym with
  | none => exact np_pure _
  | some X =>
    simp only
    apply np_bind' _ _ (np_goto _ _ _)
    intro nextI hgo
    obtain ⟨_, n, K, hn, _, _⟩ := visit_target_found hv ht ha hK0 hIs hk hj hd hgo
    simp only [hn]
    have : ¬ ((n : Int) < 0) := by omega
    simp only [this, if_false]
    cases j.la with
    | none => exact np_pure _
    | some a =>
      simp only
      split <;> exact np_pure _

variable (hprod : Productive g) {lp : LaTable × Links} {las : LaTable}
  (hlp : ((buildStateMap g'.start K0).zipIdx).foldlM
      (lalrState (mkAuto g' false true fuel) (mkAuto g' true true fuel) (buildStateMap g'.start K0))
      ([((0, 0), [endmarker])], []) = Outcome.ok lp)
  (hlas : propagate lp.2 fuel lp.1 = Outcome.ok las)
include hprod hlp hlas

/-- every kernel item has an entry in the lookahead table -/
theorem entries_exist : ∀ (s : Nat) (Is : List Item), (buildStateMap g'.start K0)[s]? = some Is →
    ∀ (i : Nat) (k : Item), Is[i]? = some k → ∃ ls, laGet las ((s : Int), (i : Int)) = some ls := by
  have h := augOK_of_augment hv ha
  have hdist := stateMap_dist (start := g'.start) (canonical_dist hK0)
  have hnodupK := kernel0_nodup hK0
  obtain ⟨hle1, hdone⟩ := lalrStates_done hlp
  obtain ⟨hle2, hsat⟩ := propagate_spec lp.2 fuel lp.1 las hlas
  have hNE : NE las := by
    have h0 : NE ([((0, 0), [endmarker])] : LaTable) := by
      intro e he
      simp only [List.mem_singleton] at he
      subst he
      simp
    have h1 : NE lp.1 := by
      refine foldlM_inv _ (fun acc => NE acc.1) _ _ lp ?_ h0 hlp
      intro b Is b' _ hb hstep
      exact ne_lalrState hb hstep
    exact ne_propagate lp.2 fuel lp.1 las h1 hlas
  have hzero := k0_zero hv ha hK0
  obtain ⟨I0, hI0, _, hreach⟩ := canonical_reach hK0
  have hI0' : I0 = [(mkAuto g' false true fuel).initialItem] := by simpa [mkAuto] using hI0.symm
  -- the induction along the construction of the collection
  have hall : ∀ Ks ∈ K0, ∀ (s : Nat), (buildStateMap g'.start K0)[s]? = some (sortBy (cmpItem g'.start) Ks) →
      ∀ (i : Nat) (k : Item), (sortBy (cmpItem g'.start) Ks)[i]? = some k →
        ∃ ls, laGet las ((s : Int), (i : Int)) = some ls := by
    refine hreach (fun Ks => ∀ (s : Nat), (buildStateMap g'.start K0)[s]? = some (sortBy (cmpItem g'.start) Ks) →
      ∀ (i : Nat) (k : Item), (sortBy (cmpItem g'.start) Ks)[i]? = some k →
        ∃ ls, laGet las ((s : Int), (i : Int)) = some ls) ?_ ?_
    · -- the initial set
      intro s hs i k hi
      rw [hI0'] at hs hi
      have hsort1 : sortBy (cmpItem g'.start) [(mkAuto g' false true fuel).initialItem]
          = [(mkAuto g' false true fuel).initialItem] := by simp [sortBy, insertBy]
      rw [hsort1] at hs hi
      have hs0 : s = 0 := state_index_unique hdist hs hzero (fun _ => Iff.rfl)
      have hi0 : i = 0 := by
        cases i with
        | zero => rfl
        | succ i => simp at hi
      subst hs0; subst hi0
      have h0 : laGet ([((0, 0), [endmarker])] : LaTable) (0, 0) = some [endmarker] := by simp [laGet, List.lookup]
      obtain ⟨ls1, hls1, he1⟩ := hle1.1 (0, 0) [endmarker] endmarker h0 (by simp)
      obtain ⟨ls2, hls2, _⟩ := hle2 (0, 0) ls1 endmarker hls1 he1
      exact ⟨ls2, hls2⟩
    · intro Ks hKs hP X hX J hJ hJne hJK s' hs' i' k' hi'
      -- the state of Ks
      have hmemS : sortBy (cmpItem g'.start) Ks ∈ buildStateMap g'.start K0 := mem_buildStateMap.mpr ⟨Ks, hKs, rfl⟩
      obtain ⟨s, hs⟩ := List.mem_iff_getElem?.mp hmemS
      -- k' = j0.next for an item j0 of the LR(0) closure of Ks
      have hk'J : k' ∈ J := (mem_sortBy _ _ _).mp (List.mem_of_getElem? hi')
      obtain ⟨ck, hck, hJeq⟩ := kgoto_spec h (A := mkAuto g' false true fuel) rfl rfl hJ
      replace hck : closure g' (nullableOf g') (firstEnv g' (nullableOf g')) fuel Ks = Outcome.ok ck := hck
      rw [hJeq] at hk'J
      obtain ⟨j0, hj0, hj0d, rfl⟩ := mem_advance.mp hk'J
      have hj0clo : Clo g' (nullableOf g') (firstEnv g' (nullableOf g'))
          (fun i => i ∈ sortBy (cmpItem g'.start) Ks) j0 :=
        clo_mono (fun z hz => (mem_sortBy _ _ _).mpr hz) ((mem_closure_iff (g := g') hck j0).mp hj0)
      have hIsnone : ∀ i, i ∈ sortBy (cmpItem g'.start) Ks → i.la = none :=
        fun i hi => k0_la_none hK0 _ hmemS i hi
      have hj0none : j0.la = none := clo_la_none (g := g') hIsnone hj0clo
      -- lift j0 into the LR(1) closure of [k, $] for a kernel item k
      obtain ⟨b, hb⟩ := clo_lift (g := g')
        (seed1 := fun x => ∃ k ∈ sortBy (cmpItem g'.start) Ks, x = withLa k endmarker) hIsnone
        (fun i hi => ⟨endmarker, i, hi, rfl⟩)
        (fun x hx => live_item hv ht ha hprod (clo_prod hv ht ha
          (fun i hi => (statesOK_good (k0_ok hv ha hK0) s _ hs i hi).1) hx)) hj0clo
      obtain ⟨k0, ⟨k, hkIs, rfl⟩, hclo⟩ := clo_single hb
      obtain ⟨ki, hki⟩ := List.mem_iff_getElem?.mp hkIs
      -- what the first loop recorded
      obtain ⟨Jc, hJc, hvis⟩ := hdone (_, s) (List.mem_zipIdx_iff_getElem?.mpr hs) (k, ki)
        (List.mem_zipIdx_iff_getElem?.mpr hki)
      replace hvis : ∀ j ∈ Jc, VisitDone (mkAuto g' false true fuel) (buildStateMap g'.start K0)
        (sortBy (cmpItem g'.start) Ks) s ki lp j := hvis
      replace hJc : closure g' (nullableOf g') (firstEnv g' (nullableOf g')) fuel [withLa k endmarker] =
        Outcome.ok Jc := hJc
      have hjJc : withLa j0 b ∈ Jc := by
        apply (mem_closure_iff (g := g') hJc _).mpr
        exact clo_mono (fun z hz => by simpa using hz) hclo
      obtain ⟨nextI, n, hgo, hn, hrec⟩ := hvis _ hjJc X hj0d
      -- the target state is s', the target item has index i'
      have hsame : ∀ x, x ∈ nextI ↔ x ∈ J :=
        kgoto_congr (A := mkAuto g' false true fuel) rfl (fun x => mem_sortBy _ Ks x) hgo hJ
      have hns' : n = s' := by
        have := findItemSet_eq hdist hs' (J := nextI) (fun x => by rw [mem_sortBy]; exact (hsame x).symm)
        rw [hn] at this
        omega
      subst hns'
      have hgetD : (buildStateMap g'.start K0).getD n [] = sortBy (cmpItem g'.start) J := by simp [List.getD, hs']
      have hcore : (withLa j0 b).next.core = j0.next := by
        have : (withLa j0 b).next.core = j0.next.core := rfl
        rw [this]; exact core_of_none hj0none
      have hidx : findItem (sortBy (cmpItem g'.start) J) j0.next = (i' : Int) := by
        apply findItem_eq _ hi'
        exact (List.Perm.nodup_iff (sortBy_perm _ _)).mpr (hnodupK J hJK)
      rw [hgetD, hcore, hidx] at hrec
      obtain ⟨h1, h2⟩ := hrec b rfl
      by_cases hbe : b = endmarker
      · -- a link from (s, ki), which has a non-empty entry by induction
        have hlink := h1 hbe
        obtain ⟨ls0, hls0⟩ := hP s hs ki k hki
        have hmem : ((((s : Int), (ki : Int)) : Key), ls0) ∈ las := by
          unfold laGet at hls0
          exact AlgoVerif.C11.Sound.lookup_mem _ _ _ hls0
        obtain ⟨a, ha'⟩ := List.exists_mem_of_ne_nil _ (hNE _ hmem)
        obtain ⟨ls', hls', _⟩ := hsat _ hlink ls0 a hls0 ha'
        exact ⟨ls', hls'⟩
      · obtain ⟨ls0, hls0, hb0⟩ := h2 hbe
        obtain ⟨ls', hls', _⟩ := hle2 _ ls0 b hls0 hb0
        exact ⟨ls', hls'⟩
  intro s Is hIs i k hi
  obtain ⟨Ks, hKs, rfl⟩ := mem_buildStateMap.mp (List.mem_of_getElem? hIs)
  exact hall Ks hKs s hIs i k hi

end

/-- `ComputeLALR1Kernels` never panics -/
theorem np_lalrKernels {g g' : SGrammar} (hv : ValidG g) (ht : TermsListed g) (ha : augment g = Outcome.ok g')
    (hprod : Productive g) (fuel : Nat) : NP (lalrKernels g' fuel) := by
  unfold lalrKernels
  apply np_bind' _ _ (np_canonical _)
  intro K0 hK0
  apply np_bind'
  · -- the first loop
    apply np_foldlM_mem
    intro acc Is hIs
    have hIsS : Is.1 ∈ buildStateMap g'.start K0 := List.mem_of_getElem? (List.mem_zipIdx_iff_getElem?.mp hIs)
    unfold lalrState
    apply np_foldlM_mem
    intro acc' ii hii
    have hk : ii.1 ∈ Is.1 := List.mem_of_getElem? (List.mem_zipIdx_iff_getElem?.mp hii)
    apply np_bind' _ _ (np_auto_closure _ _)
    intro J hJ
    replace hJ : closure g' (nullableOf g') (firstEnv g' (nullableOf g')) fuel [withLa ii.1 endmarker] =
      Outcome.ok J := hJ
    apply np_foldlM_mem
    intro acc'' j hj
    apply np_lalrVisit hv ht ha hK0 hIsS hk
    exact clo_mono (fun z hz => by simpa using hz) ((mem_closure_iff (g := g') hJ j).mp hj)
  · intro lp hlp
    apply np_bind' _ _ (np_propagate _ _ _)
    intro las hlas
    apply np_foldlM_mem
    intro K1 Is hIs
    have hIsS := List.mem_zipIdx_iff_getElem?.mp hIs
    apply np_bind
    · unfold lalrKernelOf
      apply np_foldlM_mem
      intro J ii hii
      have hki := List.mem_zipIdx_iff_getElem?.mp hii
      obtain ⟨ls, hls⟩ := entries_exist hv ht ha hK0 hprod hlp hlas Is.2 Is.1 hIsS ii.2 ii.1 hki
      simp only [hls]
      exact np_pure _
    · intro J; exact np_pure _

/-- the LALR(1) builder of the Model never panics -/
theorem np_buildLALR (g : SGrammar) (hv : ValidG g) (ht : TermsListed g) (hprod : Productive g) (fuel : Nat)
    (h : augStart g ≠ none) : NP (buildLALR g fuel) := by
  unfold buildLALR
  apply np_bind' _ _ (np_augment g h)
  intro g' ha
  apply np_bind' _ _ (np_lalrKernels hv ht ha hprod fuel)
  intro K _
  apply np_bind _ _ (np_rowsL _ _ _ _ _ _ _)
  intro Tc
  exact np_pure _

end AlgoVerif.C11.Lalr
