import AlgoVerif.Proofs.C16Order
import AlgoVerif.Proofs.C16Powerset
/-!
# C16 helper lemmas: histories — the register machine of the Model simulates the one of the Spec
-/
namespace AlgoVerif.C16
open AlgoVerif.C16.Spec
variable {α : Type} {σ : Type}

/-- forget which implementation a `new` creates -/
def Op.abs : Op α → SOp α
  | .add i vs => .add i vs
  | .remove i vs => .remove i vs
  | .removeAll i => .removeAll i
  | .contains i vs => .contains i vs
  | .size i => .size i
  | .isEmpty i => .isEmpty i
  | .all i => .all i
  | .equal i j => .equal i j
  | .subset i j => .subset i j
  | .superset i j => .superset i j
  | .clone d i => .clone d i
  | .cloneEmpty d i => .cloneEmpty d i
  | .new d _ => .new d
  | .union d i js => .union d i js
  | .inter d i js => .inter d i js
  | .diff d i js => .diff d i js
  | .anyMatch i p => .anyMatch i p
  | .allMatch i p => .allMatch i p
  | .firstMatch i p => .firstMatch i p
  | .select d i p => .select d i p
  | .partitionM d e i p => .partitionM d e i p

/-- every implementation a history creates with `new` has a lawful callback -/
def Op.Lawful : Op α → Prop
  | .new _ impl => ImplLaw (fun _ => True) Eq impl
  | _ => True

/-- the set object is valid and denotes the abstract set -/
def RegRel (s : MSet α) (a : FSet α) : Prop := WF0 s ∧ a.Nodup ∧ ∀ x, x ∈ s.members ↔ x ∈ a

def Rel (regs : List (MSet α)) (A : List (FSet α)) : Prop :=
  regs.length = A.length ∧ ∀ (i : Nat) (s : MSet α) (a : FSet α), regs[i]? = some s → A[i]? = some a → RegRel s a

/-- observations agree; element listings as sets (the order is the subject of separate theorems) -/
inductive ObsRel : Obs α → SObs α → Prop
  | unit : ObsRel .unit .unit
  | bool (b : Bool) : ObsRel (.bool b) (.bool b)
  | int (n : Int) : ObsRel (.int n) (.int n)
  | elems {l : List α} {a : FSet α} : FSet.Equiv l a → ObsRel (.elems l) (.elems a)
  | found {x : α} {c : FSet α} : x ∈ c → ObsRel (.opt (some x)) (.anyOf c)
  | notFound : ObsRel (.opt none) (.anyOf [])
  | elems2 {l₁ l₂ : List α} {a₁ a₂ : FSet α} : FSet.Equiv l₁ a₁ → FSet.Equiv l₂ a₂ →
      ObsRel (.elems2 l₁ l₂) (.elems2 a₁ a₂)
  | bad : ObsRel .bad .bad

theorem RegRel.equiv {s : MSet α} {a : FSet α} (h : RegRel s a) : FSet.Equiv s.members a :=
  equiv_of_mem_iff h.1.nodup h.2.1 h.2.2

theorem Rel.get {regs : List (MSet α)} {A : List (FSet α)} (h : Rel regs A) {i : Nat} {s : MSet α}
    (hi : regs[i]? = some s) : ∃ a, A[i]? = some a ∧ RegRel s a := by
  have hlt : i < A.length := by
    rw [← h.1]
    exact (List.getElem?_eq_some_iff.1 hi).1
  exact ⟨A[i], List.getElem?_eq_getElem hlt, h.2 i s A[i] hi (List.getElem?_eq_getElem hlt)⟩

theorem Rel.get_none {regs : List (MSet α)} {A : List (FSet α)} (h : Rel regs A) {i : Nat}
    (hi : regs[i]? = none) : A[i]? = none := by
  rw [List.getElem?_eq_none_iff] at hi ⊢
  rw [← h.1]; exact hi

theorem Rel.set {regs : List (MSet α)} {A : List (FSet α)} (h : Rel regs A) {i : Nat} {s : MSet α} {a : FSet α}
    (hr : RegRel s a) : Rel (regs.set i s) (A.set i a) := by
  refine ⟨by simp [h.1], ?_⟩
  intro j t b ht hb
  by_cases hij : i = j
  · subst hij
    by_cases hlt : i < regs.length
    · have hlt' : i < A.length := h.1 ▸ hlt
      rw [List.getElem?_set_self hlt] at ht
      rw [List.getElem?_set_self hlt'] at hb
      cases ht
      cases hb
      exact hr
    · have hge : (regs.set i s).length ≤ i := by simp; omega
      rw [List.getElem?_eq_none_iff.2 hge] at ht
      cases ht
  · rw [List.getElem?_set_ne hij] at ht hb
    exact h.2 j t b ht hb

theorem Rel.lt_iff {regs : List (MSet α)} {A : List (FSet α)} (h : Rel regs A) (d : Nat) :
    d < regs.length ↔ d < A.length := by rw [h.1]

/-- operands fetched from the two register files correspond -/
theorem Rel.getRegs {regs : List (MSet α)} {A : List (FSet α)} (h : Rel regs A) : ∀ js : List Nat,
    (C16.getRegs regs js = Option.none ∧ getAll A js = Option.none) ∨
    (∃ sets bs, C16.getRegs regs js = some sets ∧ getAll A js = some bs ∧
      (∀ u ∈ sets, WF0 u) ∧ (∀ b ∈ bs, b.Nodup) ∧
      ∀ x, ((∃ u ∈ sets, x ∈ u.members) ↔ ∃ b ∈ bs, x ∈ b) ∧
           ((∀ u ∈ sets, x ∈ u.members) ↔ ∀ b ∈ bs, x ∈ b) ∧
           ((∀ u ∈ sets, x ∉ u.members) ↔ ∀ b ∈ bs, x ∉ b))
  | [] => .inr ⟨[], [], rfl, rfl, by simp, by simp, by simp⟩
  | j :: js => by
    cases hj : regs[j]? with
    | none =>
      left
      simp [C16.getRegs, getAll, hj, h.get_none hj]
    | some s =>
      obtain ⟨a, ha, hw, hnd, hm⟩ := h.get hj
      rcases Rel.getRegs h js with ⟨h₁, h₂⟩ | ⟨sets, bs, h₁, h₂, hws, hnds, hx⟩
      · left
        simp [C16.getRegs, getAll, hj, ha, h₁, h₂]
      · right
        refine ⟨s :: sets, a :: bs, by simp [C16.getRegs, hj, h₁], by simp [getAll, ha, h₂], ?_, ?_, ?_⟩
        · intro u hu
          rcases List.mem_cons.1 hu with rfl | hu
          · exact hw
          · exact hws u hu
        · intro b hb
          rcases List.mem_cons.1 hb with rfl | hb
          · exact hnd
          · exact hnds b hb
        · intro x
          obtain ⟨e₁, e₂, e₃⟩ := hx x
          simp only [List.mem_cons, exists_eq_or_imp, forall_eq_or_imp, hm x, e₁, e₂, e₃]
          trivial

variable [DecidableEq α]

/-- one step of any history: the Model's step returns (no panic, no divergence), the register files
stay related and the observations agree -/
theorem stepOp_refines {sh : Shuffle σ} (hsh : ShLaw sh) {A : List (FSet α)} (st : RegState α σ)
    (h : Rel st.1 A) (op : Op α) (hop : op.Lawful) :
    ∃ st' obs, stepOp sh st op = .ok (st', obs) ∧ Rel st'.1 (sstep A op.abs).1 ∧ ObsRel obs (sstep A op.abs).2 := by
  cases op with
  | add i vs =>
    simp only [stepOp, Op.abs, sstep]
    cases hi : st.1[i]? with
    | none => rw [h.get_none hi]; exact ⟨_, _, rfl, h, .bad⟩
    | some s =>
      obtain ⟨a, ha, hw, hnd, hm⟩ := h.get hi
      obtain ⟨s', h₁, hw', _, hm'⟩ := MSet.add_spec0 hw vs
      rw [ha]
      simp only [h₁, ok_bind, pure_eq_ok]
      exact ⟨_, _, rfl, h.set ⟨hw', FSet.valid_insertAll hnd, fun x => by rw [hm' x, hm x, FSet.mem_insertAll]⟩, .unit⟩
  | remove i vs =>
    simp only [stepOp, Op.abs, sstep]
    cases hi : st.1[i]? with
    | none => rw [h.get_none hi]; exact ⟨_, _, rfl, h, .bad⟩
    | some s =>
      obtain ⟨a, ha, hw, hnd, hm⟩ := h.get hi
      obtain ⟨s', h₁, hw', _, hm', _⟩ := MSet.remove_spec0 hw vs
      rw [ha]
      simp only [h₁, ok_bind, pure_eq_ok]
      exact ⟨_, _, rfl, h.set ⟨hw', FSet.valid_eraseAll hnd, fun x => by rw [hm' x, hm x, FSet.mem_eraseAll]⟩, .unit⟩
  | removeAll i =>
    simp only [stepOp, Op.abs, sstep]
    cases hi : st.1[i]? with
    | none => rw [h.get_none hi]; exact ⟨_, _, rfl, h, .bad⟩
    | some s =>
      obtain ⟨a, ha, hw, hnd, hm⟩ := h.get hi
      rw [ha]
      refine ⟨_, _, rfl, h.set ⟨?_, List.nodup_nil, fun x => by simp [MSet.removeAll, FSet.empty]⟩, .unit⟩
      exact ⟨by simp [MSet.removeAll], by simp [MSet.removeAll], hw.law, fun _ _ => by simp [MSet.removeAll, SortedBy]⟩
  | contains i vs =>
    simp only [stepOp, Op.abs, sstep]
    cases hi : st.1[i]? with
    | none => rw [h.get_none hi]; exact ⟨_, _, rfl, h, .bad⟩
    | some s =>
      obtain ⟨a, ha, hw, hnd, hm⟩ := h.get hi
      obtain ⟨r, hr, hiff⟩ := MSet.contains_spec eq_equivalence hw vs (fun _ _ => trivial)
      rw [ha]
      have : r = a.memAll vs := by
        rw [Bool.eq_iff_iff, hiff, FSet.memAll_iff]
        simp [hm]
      subst this
      simp only [hr, ok_bind, pure_eq_ok]
      exact ⟨_, _, rfl, h, .bool _⟩
  | size i =>
    simp only [stepOp, Op.abs, sstep]
    cases hi : st.1[i]? with
    | none => rw [h.get_none hi]; exact ⟨_, _, rfl, h, .bad⟩
    | some s =>
      obtain ⟨a, ha, hr⟩ := h.get hi
      rw [ha]
      have : s.size = (FSet.card a : Int) := by
        simp only [MSet.size, FSet.card]; rw [hr.equiv.length_eq]
      dsimp only
      rw [this]
      exact ⟨_, _, rfl, h, .int _⟩
  | isEmpty i =>
    simp only [stepOp, Op.abs, sstep]
    cases hi : st.1[i]? with
    | none => rw [h.get_none hi]; exact ⟨_, _, rfl, h, .bad⟩
    | some s =>
      obtain ⟨a, ha, hr⟩ := h.get hi
      rw [ha]
      have : s.isEmpty = (FSet.card a == 0) := by
        simp only [MSet.isEmpty, FSet.card]; rw [hr.equiv.length_eq]
      dsimp only
      rw [this]
      exact ⟨_, _, rfl, h, .bool _⟩
  | all i =>
    simp only [stepOp, Op.abs, sstep]
    cases hi : st.1[i]? with
    | none => rw [h.get_none hi]; exact ⟨_, _, rfl, h, .bad⟩
    | some s =>
      obtain ⟨a, ha, hr⟩ := h.get hi
      obtain ⟨ms, g', h₁, hp, _⟩ := MSet.all_spec hsh s st.2
      rw [ha]
      simp only [h₁, ok_bind, pure_eq_ok]
      exact ⟨_, _, rfl, h, .elems (hp.trans hr.equiv)⟩
  | equal i j =>
    simp only [stepOp, Op.abs, sstep]
    cases hi : st.1[i]? with
    | none => rw [h.get_none hi]; exact ⟨_, _, rfl, h, .bad⟩
    | some s =>
      obtain ⟨a, ha, hw, hnd, hm⟩ := h.get hi
      cases hj : st.1[j]? with
      | none => rw [ha, h.get_none hj]; exact ⟨_, _, rfl, h, .bad⟩
      | some t =>
        obtain ⟨b, hb, hwt, hndt, hmt⟩ := h.get hj
        obtain ⟨r, hr, hiff⟩ := MSet.equal_spec0 hw hwt
        rw [ha, hb]
        have : r = a.eq b := by
          rw [Bool.eq_iff_iff, hiff, FSet.eq_iff]
          simp [hm, hmt]
        subst this
        simp only [hr, ok_bind, pure_eq_ok]
        exact ⟨_, _, rfl, h, .bool _⟩
  | subset i j =>
    simp only [stepOp, Op.abs, sstep]
    cases hi : st.1[i]? with
    | none => rw [h.get_none hi]; exact ⟨_, _, rfl, h, .bad⟩
    | some s =>
      obtain ⟨a, ha, hw, hnd, hm⟩ := h.get hi
      cases hj : st.1[j]? with
      | none => rw [ha, h.get_none hj]; exact ⟨_, _, rfl, h, .bad⟩
      | some t =>
        obtain ⟨b, hb, hwt, hndt, hmt⟩ := h.get hj
        obtain ⟨r, g', hr, hiff⟩ := MSet.isSubset_spec0 hsh (s := s) hwt st.2
        rw [ha, hb]
        have : r = a.subset b := by
          rw [Bool.eq_iff_iff, hiff, FSet.subset_iff]
          simp [hm, hmt]
        subst this
        simp only [hr, ok_bind, pure_eq_ok]
        exact ⟨_, _, rfl, h, .bool _⟩
  | superset i j =>
    simp only [stepOp, Op.abs, sstep]
    cases hi : st.1[i]? with
    | none => rw [h.get_none hi]; exact ⟨_, _, rfl, h, .bad⟩
    | some s =>
      obtain ⟨a, ha, hw, hnd, hm⟩ := h.get hi
      cases hj : st.1[j]? with
      | none => rw [ha, h.get_none hj]; exact ⟨_, _, rfl, h, .bad⟩
      | some t =>
        obtain ⟨b, hb, hwt, hndt, hmt⟩ := h.get hj
        obtain ⟨r, g', hr, hiff⟩ := MSet.isSuperset_spec0 hsh (t := t) hw st.2
        rw [ha, hb]
        have : r = b.subset a := by
          rw [Bool.eq_iff_iff, hiff, FSet.subset_iff]
          simp [hm, hmt]
        subst this
        simp only [hr, ok_bind, pure_eq_ok]
        exact ⟨_, _, rfl, h, .bool _⟩
  | clone d i =>
    simp only [stepOp, Op.abs, sstep]
    cases hi : st.1[i]? with
    | none => rw [h.get_none hi]; exact ⟨_, _, rfl, h, .bad⟩
    | some s =>
      obtain ⟨a, ha, hr⟩ := h.get hi
      rw [ha]
      by_cases hd : d < st.1.length
      · simp only [hd, (h.lt_iff d).1 hd, ↓reduceIte]
        exact ⟨_, _, rfl, h.set hr, .unit⟩
      · have hd' : ¬ d < A.length := fun h' => hd ((h.lt_iff d).2 h')
        simp only [hd, hd', ↓reduceIte]
        exact ⟨_, _, rfl, h, .bad⟩
  | cloneEmpty d i =>
    simp only [stepOp, Op.abs, sstep]
    cases hi : st.1[i]? with
    | none => rw [h.get_none hi]; exact ⟨_, _, rfl, h, .bad⟩
    | some s =>
      obtain ⟨a, ha, hw, _, _⟩ := h.get hi
      rw [ha]
      by_cases hd : d < st.1.length
      · simp only [hd, (h.lt_iff d).1 hd, ↓reduceIte]
        refine ⟨_, _, rfl, h.set ⟨wf0_cloneEmpty hw, List.nodup_nil, fun x => by simp [MSet.cloneEmpty, FSet.empty]⟩, .unit⟩
      · have hd' : ¬ d < A.length := fun h' => hd ((h.lt_iff d).2 h')
        simp only [hd, hd', ↓reduceIte]
        exact ⟨_, _, rfl, h, .bad⟩
  | new d impl =>
    simp only [stepOp, Op.abs, sstep]
    by_cases hd : d < st.1.length
    · simp only [hd, (h.lt_iff d).1 hd, ↓reduceIte]
      refine ⟨_, _, rfl, h.set ⟨?_, List.nodup_nil, fun x => by simp [MSet.new, FSet.empty]⟩, .unit⟩
      exact ⟨by simp [MSet.new], by simp [MSet.new], hop, fun _ _ => by simp [MSet.new, SortedBy]⟩
    · have hd' : ¬ d < A.length := fun h' => hd ((h.lt_iff d).2 h')
      simp only [hd, hd', ↓reduceIte]
      exact ⟨_, _, rfl, h, .bad⟩
  | union d i js =>
    simp only [stepOp, Op.abs, sstep]
    cases hi : st.1[i]? with
    | none => rw [h.get_none hi]; exact ⟨_, _, rfl, h, .bad⟩
    | some s =>
      obtain ⟨a, ha, hw, hnd, hm⟩ := h.get hi
      rw [ha]
      rcases h.getRegs js with ⟨h₁, h₂⟩ | ⟨sets, bs, h₁, h₂, hws, hnds, hx⟩
      · rw [h₁, h₂]; exact ⟨_, _, rfl, h, .bad⟩
      · rw [h₁, h₂]
        by_cases hd : d < st.1.length
        · simp only [hd, (h.lt_iff d).1 hd, ↓reduceIte]
          obtain ⟨t, g', h₃, hwt, _, hmt, _⟩ := MSet.union_spec0 hsh hw sets st.2
          have hrel : RegRel t (a.unionAll bs) :=
            ⟨hwt, FSet.valid_unionAll hnd hnds, fun x => by rw [hmt x, FSet.mem_unionAll, hm x, (hx x).1]⟩
          simp only [h₃, ok_bind, pure_eq_ok]
          exact ⟨_, _, rfl, h.set hrel, .elems hrel.equiv⟩
        · have hd' : ¬ d < A.length := fun h' => hd ((h.lt_iff d).2 h')
          simp only [hd, hd', ↓reduceIte]
          exact ⟨_, _, rfl, h, .bad⟩
  | inter d i js =>
    simp only [stepOp, Op.abs, sstep]
    cases hi : st.1[i]? with
    | none => rw [h.get_none hi]; exact ⟨_, _, rfl, h, .bad⟩
    | some s =>
      obtain ⟨a, ha, hw, hnd, hm⟩ := h.get hi
      rw [ha]
      rcases h.getRegs js with ⟨h₁, h₂⟩ | ⟨sets, bs, h₁, h₂, hws, hnds, hx⟩
      · rw [h₁, h₂]; exact ⟨_, _, rfl, h, .bad⟩
      · rw [h₁, h₂]
        by_cases hd : d < st.1.length
        · simp only [hd, (h.lt_iff d).1 hd, ↓reduceIte]
          obtain ⟨t, h₃, hwt, _, hmt, _⟩ := MSet.intersection_spec0 hw sets hws
          have hrel : RegRel t (a.interAll bs) :=
            ⟨hwt, List.Pairwise.sublist FSet.interAll_sublist hnd,
              fun x => by rw [hmt x, FSet.mem_interAll, hm x, (hx x).2.1]⟩
          simp only [h₃, ok_bind, pure_eq_ok]
          exact ⟨_, _, rfl, h.set hrel, .elems hrel.equiv⟩
        · have hd' : ¬ d < A.length := fun h' => hd ((h.lt_iff d).2 h')
          simp only [hd, hd', ↓reduceIte]
          exact ⟨_, _, rfl, h, .bad⟩
  | diff d i js =>
    simp only [stepOp, Op.abs, sstep]
    cases hi : st.1[i]? with
    | none => rw [h.get_none hi]; exact ⟨_, _, rfl, h, .bad⟩
    | some s =>
      obtain ⟨a, ha, hw, hnd, hm⟩ := h.get hi
      rw [ha]
      rcases h.getRegs js with ⟨h₁, h₂⟩ | ⟨sets, bs, h₁, h₂, hws, hnds, hx⟩
      · rw [h₁, h₂]; exact ⟨_, _, rfl, h, .bad⟩
      · rw [h₁, h₂]
        by_cases hd : d < st.1.length
        · simp only [hd, (h.lt_iff d).1 hd, ↓reduceIte]
          obtain ⟨t, g', h₃, hwt, _, hmt, _⟩ := MSet.difference_spec0 hsh hw sets st.2
          have hrel : RegRel t (a.diffAll bs) :=
            ⟨hwt, List.Pairwise.sublist FSet.diffAll_sublist hnd,
              fun x => by rw [hmt x, FSet.mem_diffAll, hm x, (hx x).2.2]⟩
          simp only [h₃, ok_bind, pure_eq_ok]
          exact ⟨_, _, rfl, h.set hrel, .elems hrel.equiv⟩
        · have hd' : ¬ d < A.length := fun h' => hd ((h.lt_iff d).2 h')
          simp only [hd, hd', ↓reduceIte]
          exact ⟨_, _, rfl, h, .bad⟩
  | anyMatch i p =>
    simp only [stepOp, Op.abs, sstep]
    cases hi : st.1[i]? with
    | none => rw [h.get_none hi]; exact ⟨_, _, rfl, h, .bad⟩
    | some s =>
      obtain ⟨a, ha, hw, hnd, hm⟩ := h.get hi
      rw [ha]
      have : s.anyMatch p = a.any p := by
        rw [Bool.eq_iff_iff]
        simp only [MSet.anyMatch, List.any_eq_true]
        exact ⟨fun ⟨x, hx, hp⟩ => ⟨x, (hm x).1 hx, hp⟩, fun ⟨x, hx, hp⟩ => ⟨x, (hm x).2 hx, hp⟩⟩
      dsimp only
      rw [this]
      exact ⟨_, _, rfl, h, .bool _⟩
  | allMatch i p =>
    simp only [stepOp, Op.abs, sstep]
    cases hi : st.1[i]? with
    | none => rw [h.get_none hi]; exact ⟨_, _, rfl, h, .bad⟩
    | some s =>
      obtain ⟨a, ha, hw, hnd, hm⟩ := h.get hi
      rw [ha]
      have : s.allMatch p = a.all p := by
        rw [Bool.eq_iff_iff]
        simp only [MSet.allMatch, List.all_eq_true]
        exact ⟨fun hall x hx => hall x ((hm x).2 hx), fun hall x hx => hall x ((hm x).1 hx)⟩
      dsimp only
      rw [this]
      exact ⟨_, _, rfl, h, .bool _⟩
  | firstMatch i p =>
    simp only [stepOp, Op.abs, sstep]
    cases hi : st.1[i]? with
    | none => rw [h.get_none hi]; exact ⟨_, _, rfl, h, .bad⟩
    | some s =>
      obtain ⟨a, ha, hw, hnd, hm⟩ := h.get hi
      rw [ha]
      dsimp only
      cases hf : s.firstMatch p with
      | none =>
        have hnone : a.filter p = [] := by
          rw [List.filter_eq_nil_iff]
          intro x hx
          simp only [MSet.firstMatch, List.find?_eq_none] at hf
          exact hf x ((hm x).2 hx)
        rw [hnone]
        exact ⟨_, _, rfl, h, .notFound⟩
      | some x =>
        simp only [MSet.firstMatch] at hf
        have hx := List.mem_of_find?_eq_some hf
        have hp := List.find?_some hf
        exact ⟨_, _, rfl, h, .found (List.mem_filter.2 ⟨(hm x).1 hx, hp⟩)⟩
  | select d i p =>
    simp only [stepOp, Op.abs, sstep]
    cases hi : st.1[i]? with
    | none => rw [h.get_none hi]; exact ⟨_, _, rfl, h, .bad⟩
    | some s =>
      obtain ⟨a, ha, hw, hnd, hm⟩ := h.get hi
      rw [ha]
      by_cases hd : d < st.1.length
      · simp only [hd, (h.lt_iff d).1 hd, ↓reduceIte]
        obtain ⟨t, u, _, h₃, hwt, _, _, _, hmt, _⟩ := MSet.partitionMatch_spec0 hw p
        have hrel : RegRel t (a.filter p) :=
          ⟨hwt, List.Pairwise.sublist List.filter_sublist hnd, fun x => by rw [hmt x, List.mem_filter, hm x]⟩
        simp only [h₃, ok_bind, pure_eq_ok]
        exact ⟨_, _, rfl, h.set hrel, .elems hrel.equiv⟩
      · have hd' : ¬ d < A.length := fun h' => hd ((h.lt_iff d).2 h')
        simp only [hd, hd', ↓reduceIte]
        exact ⟨_, _, rfl, h, .bad⟩
  | partitionM d e i p =>
    simp only [stepOp, Op.abs, sstep]
    cases hi : st.1[i]? with
    | none => rw [h.get_none hi]; exact ⟨_, _, rfl, h, .bad⟩
    | some s =>
      obtain ⟨a, ha, hw, hnd, hm⟩ := h.get hi
      rw [ha]
      by_cases hd : d < st.1.length ∧ e < st.1.length
      · have hd' : d < A.length ∧ e < A.length := ⟨(h.lt_iff d).1 hd.1, (h.lt_iff e).1 hd.2⟩
        simp only [hd, hd', and_self, ↓reduceIte]
        obtain ⟨t, u, h₃, _, hwt, hwu, _, _, hmt, hmu, _⟩ := MSet.partitionMatch_spec0 hw p
        have hrelt : RegRel t (a.filter p) :=
          ⟨hwt, List.Pairwise.sublist List.filter_sublist hnd, fun x => by rw [hmt x, List.mem_filter, hm x]⟩
        have hrelu : RegRel u (a.filter (fun x => !p x)) :=
          ⟨hwu, List.Pairwise.sublist List.filter_sublist hnd, fun x => by
            rw [hmu x, List.mem_filter, hm x]; simp⟩
        simp only [h₃, ok_bind, pure_eq_ok]
        exact ⟨_, _, rfl, (h.set hrelt).set hrelu, .elems2 hrelt.equiv hrelu.equiv⟩
      · have hd' : ¬ (d < A.length ∧ e < A.length) :=
          fun h' => hd ⟨(h.lt_iff d).2 h'.1, (h.lt_iff e).2 h'.2⟩
        simp only [hd, hd', ↓reduceIte]
        exact ⟨_, _, rfl, h, .bad⟩

/-- pointwise agreement of two observation lists -/
inductive TraceRel : List (Obs α) → List (SObs α) → Prop
  | nil : TraceRel [] []
  | cons {o o' os os'} : ObsRel o o' → TraceRel os os' → TraceRel (o :: os) (o' :: os')

theorem runOps_refines {sh : Shuffle σ} (hsh : ShLaw sh) : ∀ (ops : List (Op α)) (A : List (FSet α))
    (st : RegState α σ), Rel st.1 A → (∀ op ∈ ops, op.Lawful) →
    ∃ st' obs, runOps sh ops st = .ok (st', obs) ∧ Rel st'.1 (srun (ops.map Op.abs) A).1 ∧
      TraceRel obs (srun (ops.map Op.abs) A).2
  | [], A, st, h, _ => ⟨st, [], rfl, h, .nil⟩
  | op :: ops, A, st, h, hl => by
    obtain ⟨st₁, o, h₁, hr₁, ho₁⟩ := stepOp_refines hsh st h op (hl op (List.mem_cons_self ..))
    obtain ⟨st₂, os, h₂, hr₂, ho₂⟩ := runOps_refines hsh ops (sstep A op.abs).1 st₁ hr₁
      (fun op' hop' => hl op' (List.mem_cons_of_mem _ hop'))
    exact ⟨st₂, o :: os, by simp [runOps, h₁, h₂], hr₂, .cons ho₁ ho₂⟩

omit [DecidableEq α] in
/-- freshly constructed registers denote empty sets -/
theorem rel_init (impls : List (Impl α)) (h : ∀ impl ∈ impls, ImplLaw (fun _ => True) Eq impl) :
    Rel (impls.map MSet.new) (impls.map fun _ => (FSet.empty : FSet α)) := by
  refine ⟨by simp, ?_⟩
  intro i s a hs ha
  rw [List.getElem?_map] at hs ha
  cases hi : impls[i]? with
  | none => rw [hi] at hs; cases hs
  | some impl =>
    rw [hi] at hs ha
    cases hs
    cases ha
    have hmem : impl ∈ impls := List.mem_of_getElem? hi
    exact ⟨⟨by simp [MSet.new], by simp [MSet.new], h impl hmem, fun _ _ => by simp [MSet.new, SortedBy]⟩,
      List.nodup_nil, fun x => by simp [MSet.new, FSet.empty]⟩

end AlgoVerif.C16
