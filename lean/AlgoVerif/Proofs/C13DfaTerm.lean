import AlgoVerif.Proofs.C13DfaOps
/-! C13: the depth-first search of `EliminateDeadStates` and the breadth-first search of `ReindexStates`
never exhaust their fuel. -/
namespace AlgoVerif.C13
open AlgoVerif AlgoVerif.C13.Spec

theorem DFA.mem_states_of (d : DFA) (x : Int)
    (h : x = d.start ∨ x ∈ d.final ∨ ∃ s a t, (s, a, t) ∈ entries d.trans ∧ (x = s ∨ x = t)) : x ∈ d.states := by
  have hst : d.states = (entries d.trans).foldl (fun acc e => sins e.2.2 (sins e.1 acc)) (sunion (mkSet [d.start]) d.final) := by
    simp only [DFA.states]
    exact foldl_nested (γ := List Int) d.trans (fun acc s _ t => sins t (sins s acc)) _
  rw [hst]
  have gen : ∀ (L : List (Int × Int × Int)) (acc : List Int),
      (x ∈ acc ∨ ∃ s a t, (s, a, t) ∈ L ∧ (x = s ∨ x = t)) →
      x ∈ L.foldl (fun acc e => sins e.2.2 (sins e.1 acc)) acc := by
    intro L
    induction L with
    | nil => intro acc h; simpa using h
    | cons e L ih =>
      intro acc h
      simp only [List.foldl_cons]
      apply ih
      obtain ⟨s1, a1, t1⟩ := e
      rcases h with h | ⟨s, a, t, hm, hx⟩
      · left; simp [h]
      · simp at hm
        rcases hm with ⟨rfl, rfl, rfl⟩ | hm
        · left; simp; rcases hx with h | h <;> simp [h]
        · right; exact ⟨s, a, t, hm, hx⟩
  apply gen
  rcases h with h | h | h
  · left; simp [h]
  · left; simp [h]
  · right; exact h

/-! ### DFS -/

theorem revAdj_mem_conv (d : DFA) (t x : Int) (ts : List Int) (h : aget t d.revAdj = some ts) (hx : x ∈ ts) :
    ∃ a, (x, a, t) ∈ entries d.trans := by
  have hrev : d.revAdj = (entries d.trans).foldl
      (fun adj e => aput e.2.2 (sins e.1 ((aget e.2.2 adj).getD [])) adj) [] := by
    simp only [DFA.revAdj]
    exact foldl_nested (γ := List (Int × List Int)) d.trans
      (fun adj s _ t => aput t (sins s ((aget t adj).getD [])) adj) []
  rw [hrev] at h
  have gen : ∀ (L : List (Int × Int × Int)) (adj0 : List (Int × List Int)) (ts : List Int),
      aget t (L.foldl (fun adj e => aput e.2.2 (sins e.1 ((aget e.2.2 adj).getD [])) adj) adj0) = some ts → x ∈ ts →
      (∃ a, (x, a, t) ∈ L) ∨ ∃ ts0, aget t adj0 = some ts0 ∧ x ∈ ts0 := by
    intro L
    induction L with
    | nil => intro adj0 ts h hx; right; exact ⟨ts, by simpa using h, hx⟩
    | cons e L ih =>
      intro adj0 ts h hx
      simp only [List.foldl_cons] at h
      obtain ⟨s1, a1, t1⟩ := e
      rcases ih _ ts h hx with ⟨a, ha⟩ | ⟨ts0, h1, h2⟩
      · left; exact ⟨a, by simp [ha]⟩
      · simp only at h1
        rw [aget_aput] at h1
        split at h1
        · rename_i ht; subst ht
          injection h1 with h1; subst h1
          simp at h2
          rcases h2 with rfl | h2
          · left; exact ⟨a1, by simp⟩
          · right
            cases hg : aget t adj0 with
            | none => simp [hg] at h2
            | some ts1 => exact ⟨ts1, rfl, by simpa [hg] using h2⟩
        · right; exact ⟨ts0, h1, h2⟩
  rcases gen _ _ _ h hx with h' | ⟨ts0, h1, _⟩
  · exact h'
  · simp [aget] at h1

/-- number of nodes of the universe not yet visited -/
def unvisited (U vis : List Int) : Nat := (U.filter (fun x => !vis.contains x)).length

theorem unvisited_mono (U v v' : List Int) (h : ∀ x ∈ v, x ∈ v') : unvisited U v' ≤ unvisited U v := by
  simp only [unvisited]
  have : U.filter (fun x => !v'.contains x) = (U.filter (fun x => !v.contains x)).filter (fun x => !v'.contains x) := by
    rw [List.filter_filter]
    apply List.filter_congr
    intro x _
    by_cases hx : x ∈ v
    · simp [hx, h x hx]
    · simp [hx]
  rw [this]
  exact List.length_filter_le _ _

theorem dfs_ok (adj : List (Int × List Int)) (U : List Int)
    (hU : ∀ x ts, aget x adj = some ts → ∀ t ∈ ts, t ∈ U) (fuel : Nat) (vis : List Int) (s : Int)
    (hs : s ∈ U) (hsv : s ∉ vis) (hf : unvisited U vis ≤ fuel) :
    ∃ V, dfs adj fuel vis s = .ok V ∧ ∀ x ∈ vis, x ∈ V := by
  induction fuel generalizing vis s with
  | zero =>
    exfalso
    have := filter_sins_lt U vis s hs hsv
    simp only [unvisited] at hf; omega
  | succ fuel ih =>
    simp only [dfs]
    cases hg : aget s adj with
    | none => exact ⟨_, rfl, fun x hx => by simp [hx]⟩
    | some ts =>
      simp only
      have h0 : unvisited U (sins s vis) ≤ fuel := by
        have := filter_sins_lt U vis s hs hsv
        simp only [unvisited] at hf ⊢; omega
      have loop : ∀ (l : List Int) (v0 : List Int), (∀ t ∈ l, t ∈ U) → unvisited U v0 ≤ fuel →
          ∃ V, l.foldl (fun (acc : Outcome (List State)) t =>
            match acc with
            | .ok v => if v.contains t then .ok v else dfs adj fuel v t
            | o => o) (.ok v0) = .ok V ∧ ∀ x ∈ v0, x ∈ V := by
        intro l
        induction l with
        | nil => intro v0 _ _; exact ⟨v0, rfl, fun x hx => hx⟩
        | cons t l ihl =>
          intro v0 hl hv0
          simp only [List.foldl_cons]
          by_cases hc : v0.contains t = true
          · simp only [hc, if_true]
            exact ihl v0 (fun t' ht' => hl t' (by simp [ht'])) hv0
          · simp only [hc]
            obtain ⟨V1, h1, h2⟩ := ih v0 t (hl t (by simp)) (by simpa using hc) hv0
            rw [show (if false = true then Outcome.ok v0 else dfs adj fuel v0 t) = dfs adj fuel v0 t from rfl, h1]
            obtain ⟨V, h3, h4⟩ := ihl V1 (fun t' ht' => hl t' (by simp [ht']))
              (Nat.le_trans (unvisited_mono U v0 V1 h2) hv0)
            exact ⟨V, h3, fun x hx => h4 x (h2 x hx)⟩
      obtain ⟨V, h1, h2⟩ := loop ts (sins s vis) (hU s ts hg) h0
      exact ⟨V, h1, fun x hx => h2 x (by simp [hx])⟩

/-- `EliminateDeadStates` always returns -/
theorem DFA.elimDead_ok (d : DFA) : ∃ d', d.elimDead = .ok d' := by
  have hU : ∀ x ts, aget x (aput (-1) d.final d.revAdj) = some ts → ∀ t ∈ ts, t ∈ (-1 : Int) :: d.states := by
    intro x ts h t ht
    rw [aget_aput] at h
    split at h
    · injection h with h; subst h
      simp; right; exact d.mem_states_of t (Or.inr (Or.inl ht))
    · obtain ⟨a, ha⟩ := revAdj_mem_conv d x t ts h ht
      simp; right; exact d.mem_states_of t (Or.inr (Or.inr ⟨t, a, x, ha, Or.inl rfl⟩))
  obtain ⟨V, hV, _⟩ := dfs_ok (aput (-1) d.final d.revAdj) ((-1 : Int) :: d.states) hU (d.states.length + 2) [] (-1)
    (by simp) (by simp) (by
      simp only [unvisited]
      have := List.length_filter_le (fun x => !([] : List Int).contains x) ((-1 : Int) :: d.states)
      simp only [List.length_cons] at this
      omega)
  simp only [DFA.elimDead, hV]
  exact ⟨_, rfl⟩

/-! ### BFS -/

/-- queue length plus the number of states not yet visited -/
def bmeasure (U vis q : List Int) : Nat := q.length + unvisited U vis

theorem bfs_inner_measure (U : List Int) (l : List (Int × Int)) (acc : List State × List State × SM)
    (hl : ∀ e ∈ l, e.2 ∈ U) :
    bmeasure U (l.foldl (fun (acc : List State × List State × SM) e =>
        if acc.1.contains e.2 then acc else (e.2 :: acc.1, acc.2.1 ++ [e.2], (acc.2.2.get 0 e.2).1)) acc).1
      (l.foldl (fun (acc : List State × List State × SM) e =>
        if acc.1.contains e.2 then acc else (e.2 :: acc.1, acc.2.1 ++ [e.2], (acc.2.2.get 0 e.2).1)) acc).2.1
      ≤ bmeasure U acc.1 acc.2.1 := by
  induction l generalizing acc with
  | nil => simp
  | cons e l ih =>
    simp only [List.foldl_cons]
    refine Nat.le_trans (ih _ (fun e' he' => hl e' (by simp [he']))) ?_
    split
    · exact Nat.le_refl _
    · rename_i hc
      have hlt : unvisited U (e.2 :: acc.1) < unvisited U acc.1 := by
        simp only [unvisited]
        have h1 : U.filter (fun x => !(e.2 :: acc.1).contains x)
            = (U.filter (fun x => !acc.1.contains x)).filter (fun x => x ≠ e.2) := by
          rw [List.filter_filter]
          apply List.filter_congr
          intro x _
          simp
        rw [h1]
        apply (List.length_filter_lt_length_iff_exists).2
        exact ⟨e.2, by simp [hl e (by simp)]; simpa using hc, by simp⟩
      simp only [bmeasure, List.length_append, List.length_cons, List.length_nil]
      omega

theorem bfsLoop_ok (d : DFA) (fuel : Nat) (vis q : List Int) (m : SM)
    (h : bmeasure d.states vis q < fuel) : ∃ m', bfsLoop d fuel vis q m = .ok m' := by
  induction fuel generalizing vis q m with
  | zero => omega
  | succ fuel ih =>
    cases q with
    | nil => exact ⟨m, by simp [bfsLoop]⟩
    | cons s q =>
      simp only [bfsLoop]
      cases hs : aget s d.trans with
      | none =>
        simp only
        apply ih
        simp only [bmeasure, List.length_cons] at h ⊢; omega
      | some adj =>
        simp only
        apply ih
        have key := bfs_inner_measure d.states adj (vis, q, m) (by
          intro e he
          exact d.mem_states_of e.2 (Or.inr (Or.inr ⟨s, e.1, e.2, by
            simp only [entries, List.mem_flatMap, List.mem_map]
            exact ⟨(s, adj), aget_mem hs, e, he, rfl⟩, Or.inr rfl⟩)))
        refine Nat.lt_of_le_of_lt key ?_
        simp only [bmeasure, List.length_cons] at h ⊢
        omega

/-- `ReindexStates` always returns -/
theorem DFA.reindex_ok (d : DFA) : ∃ d', d.reindex = .ok d' := by
  obtain ⟨m, hm⟩ := bfsLoop_ok d (d.states.length + 2) [d.start] [d.start] ((SM.new (-1)).get 0 d.start).1 (by
    simp only [bmeasure, unvisited, List.length_cons, List.length_nil]
    have := List.length_filter_le (fun x => !([d.start] : List Int).contains x) d.states
    omega)
  simp only [DFA.reindex, DFA.bfsNumbering, hm]
  exact ⟨_, rfl⟩

end AlgoVerif.C13
