import AlgoVerif.Proofs.C07StrCommon
import AlgoVerif.Proofs.C07Simple
/-!
# C07 — 3-way string quicksort (`radixsort/quick.go`, `Quick3WayString`)
-/
namespace AlgoVerif.C07
open AlgoVerif AlgoVerif.Generated

/-- comparator whose sign compares the `d`-th characters -/
def chrCmp (d : Nat) (x y : List UInt8) : Int := chr x d - chr y d

/-- the partition loop of `quick3WayString` is the generic 3-way partition loop with `chrCmp d` -/
theorem q3sLoop_eq (x0 : List UInt8) (d : Nat) : ∀ (f : Nat) (lt i gt : Int) (a : Array (List UInt8)),
    q3sLoop (chr x0 d) (d : Int) f lt i gt a = q3Loop (chrCmp d) x0 f lt i gt a := by
  intro f
  induction f with
  | zero => intros; rfl
  | succ f ih =>
    intro lt i gt a
    unfold q3sLoop q3Loop
    by_cases h : i ≤ gt
    · simp only [h, ↓reduceIte]
      cases hx : get a i with
      | panic => rfl
      | diverge => rfl
      | ok x =>
        simp only [ok_bind, charAt_nat, chrCmp]
        have e1 : (chr x d - chr x0 d < 0) ↔ (chr x d < chr x0 d) := by omega
        have e2 : (chr x d - chr x0 d > 0) ↔ (chr x d > chr x0 d) := by omega
        simp only [e1, e2, ih]
    · simp only [h, ↓reduceIte]

theorem q3StringAux_spec (M : Nat) : ∀ (f : Nat) (a : Array (List UInt8)) (lo hi1 d : Nat) (w : List UInt8),
    lo ≤ hi1 → hi1 ≤ a.size → w.length = d →
    AllSeg (fun s => s.take d = w ∧ s.length ≤ M) a lo hi1 →
    (hi1 - lo) + (M - d) < f →
    ∃ a', q3StringAux f a (lo : Int) ((hi1 : Int) - 1) (d : Int) = .ok a' ∧
      SegStep a a' lo hi1 ∧ SortedSeg bytesCmp a' lo hi1 := by
  intro f
  induction f with
  | zero => intros; omega
  | succ f ih =>
    intro a lo hi1 d w hlh hsz hw hQ hf
    unfold q3StringAux
    by_cases hcut : hi1 ≤ lo + 16
    · obtain ⟨n, rfl⟩ : ∃ n, hi1 = lo + n := ⟨hi1 - lo, by omega⟩
      have c1 : (((lo + n : Nat) : Int) - 1 ≤ (lo : Int) + ((radixsort_quick3WayString_CUTOFF : Nat) : Int)) := by
        simp only [radixsort_quick3WayString_CUTOFF]; omega
      simp only [c1, ↓reduceIte]
      obtain ⟨a', h1, h2, h3, h4, h5, h6⟩ := rInsertion_spec' bytesCmp_tp bytesLt_iff a lo n hsz
      exact ⟨a', h1, ⟨h2, h3, h4, h5⟩, h6⟩
    · have c1 : ¬ ((hi1 : Int) - 1 ≤ (lo : Int) + ((radixsort_quick3WayString_CUTOFF : Nat) : Int)) := by
        simp only [radixsort_quick3WayString_CUTOFF]; omega
      simp only [c1, ↓reduceIte]
      rw [get_nat (by omega : lo < a.size)]
      simp only [ok_bind, charAt_nat, q3sLoop_eq]
      have e1 : (lo:Int)+1 = ((lo+1:Nat):Int) := by omega
      rw [e1]
      obtain ⟨a1, lt, gt1, r1, r2, r3, r4, r5, r6, r7, r8, r9, r10, r11⟩ :=
        q3Loop_spec (cmp := chrCmp d) a[lo] lo hi1 (a.size + 1) lo (lo+1) hi1 a (by omega) (by omega)
          (by omega) (by omega) (by omega) hsz
          (by intro p _ _ _; omega)
          (by intro p _ _ _; have : p = lo := by omega
              subst this; simp [chrCmp])
          (by intro p _ _ _; omega)
      rw [r1]
      simp only [ok_bind]
      have e2 : (gt1 : Int) - 1 + 1 = (gt1 : Int) := by omega
      rw [e2]
      have S1 : SegStep a a1 lo hi1 := ⟨r2, r3, r4, r5⟩
      have hQ1 := S1.pres _ hQ
      -- left part
      obtain ⟨a2, s1, S2, sorted2⟩ := ih a1 lo lt d w (by omega) (by omega) hw
        (hQ1.sub (Nat.le_refl _) (by omega)) (by omega)
      rw [s1]
      simp only [ok_bind]
      have hQ2 := (S2.widen (Nat.le_refl lo) (by omega : lt ≤ hi1)).pres _ hQ1
      have ZM2 : AllSeg (fun x => chrCmp d x a[lo] = 0) a2 lt gt1 :=
        S2.allSeg_disjoint (Or.inr (Nat.le_refl _)) r10
      have hsz2 := S2.size
      -- middle part
      have hmid : ∃ a2', (if chr a[lo] d ≥ 0 then q3StringAux f a2 (lt : Int) ((gt1 : Int) - 1) ((d : Int) + 1)
          else .ok a2 : Outcome (Array (List UInt8))) = .ok a2' ∧ SegStep a2 a2' lt gt1 ∧
          SortedSeg bytesCmp a2' lt gt1 := by
        by_cases hv : chr a[lo] d ≥ 0
        · simp only [hv, ↓reduceIte]
          obtain ⟨b, _, hb⟩ := chr_nonneg hv
          have e3 : (d:Int)+1 = ((d+1:Nat):Int) := by omega
          rw [e3]
          have hQm : AllSeg (fun s => s.take (d+1) = w ++ [b] ∧ s.length ≤ M) a2 lt gt1 := by
            intro p hp1 hp2 hpa
            have h1 := hQ2 p (by omega) (by omega) hpa
            have h2 := ZM2 p hp1 hp2 hpa
            simp only [chrCmp] at h2
            exact ⟨(take_succ_of_chr h1.1 (by omega)).1, h1.2⟩
          have hdM : d < M := by
            have h1 := hQ2 lt (by omega) (by omega) (by omega)
            have h2 := ZM2 lt (Nat.le_refl _) (by omega) (by omega)
            simp only [chrCmp] at h2
            have := (take_succ_of_chr (b := b) h1.1 (by omega)).2
            omega
          exact ih a2 lt gt1 (d+1) (w ++ [b]) (by omega) (by omega) (by simp [hw]) hQm (by omega)
        · simp only [hv, ↓reduceIte]
          refine ⟨a2, rfl, SegStep.refl _ _ _, ?_⟩
          intro p q hp hpq hq hqa
          have h1 := hQ2 p (by omega) (by omega) (by omega)
          have h2 := ZM2 p hp (by omega) (by omega)
          have g1 := hQ2 q (by omega) (by omega) hqa
          have g2 := ZM2 q (by omega) hq hqa
          simp only [chrCmp] at h2 g2
          rw [eq_of_chr_neg h1.1 (by omega), eq_of_chr_neg g1.1 (by omega), bytesCmp_self]
          omega
      obtain ⟨a2', m1, S2', sortedM⟩ := hmid
      rw [m1]
      simp only [ok_bind]
      have hQ2' := (S2'.widen (by omega : lo ≤ lt) (by omega : gt1 ≤ hi1)).pres _ hQ2
      have hsz2' := S2'.size
      -- right part
      obtain ⟨a3, t1, S3, sorted3⟩ := ih a2' gt1 hi1 d w (by omega) (by omega) hw
        (hQ2'.sub (by omega) (Nat.le_refl _)) (by omega)
      have hsz3 := S3.size
      have hQ3 := (S3.widen (by omega : lo ≤ gt1) (Nat.le_refl hi1)).pres _ hQ2'
      refine ⟨a3, t1, S1.trans ((S2.widen (Nat.le_refl lo) (by omega : lt ≤ hi1)).trans
        ((S2'.widen (by omega : lo ≤ lt) (by omega : gt1 ≤ hi1)).trans
          (S3.widen (by omega : lo ≤ gt1) (Nat.le_refl hi1)))), ?_⟩
      have ZL3 : AllSeg (fun x => chrCmp d x a[lo] < 0) a3 lo lt :=
        S3.allSeg_disjoint (Or.inl (by omega)) (S2'.allSeg_disjoint (Or.inl (Nat.le_refl _)) (S2.pres _ r9))
      have ZM3 : AllSeg (fun x => chrCmp d x a[lo] = 0) a3 lt gt1 :=
        S3.allSeg_disjoint (Or.inl (Nat.le_refl _)) (S2'.pres _ ZM2)
      have ZR3 : AllSeg (fun x => chrCmp d x a[lo] > 0) a3 gt1 hi1 :=
        S3.pres _ (S2'.allSeg_disjoint (Or.inr (Nat.le_refl _)) (S2.allSeg_disjoint (Or.inr (by omega)) r11))
      have sortedL : SortedSeg bytesCmp a3 lo lt :=
        S3.sortedSeg_disjoint (Or.inl (by omega)) (S2'.sortedSeg_disjoint (Or.inl (Nat.le_refl _)) sorted2)
      have sortedM3 : SortedSeg bytesCmp a3 lt gt1 := S3.sortedSeg_disjoint (Or.inl (Nat.le_refl _)) sortedM
      intro p q hp hpq hq hqa
      by_cases c1 : q < lt
      · exact sortedL p q hp hpq c1 hqa
      · by_cases c2 : gt1 ≤ p
        · exact sorted3 p q c2 hpq hq hqa
        · by_cases c3 : lt ≤ p ∧ q < gt1
          · exact sortedM3 p q c3.1 hpq c3.2 hqa
          · have hlt : chr a3[p] d < chr a3[q] d := by
              have := ZL3 p hp; have := ZM3 p; have := ZM3 q; have := ZR3 q
              simp only [chrCmp] at *
              by_cases c4 : p < lt
              · by_cases c5 : q < gt1
                · have := ZL3 p hp c4 (by omega); have := ZM3 q (by omega) c5 hqa; omega
                · have := ZL3 p hp c4 (by omega); have := ZR3 q (by omega) hq hqa; omega
              · have := ZM3 p (by omega) (by omega) (by omega); have := ZR3 q (by omega) hq hqa; omega
            have h1 := hQ3 p hp (by omega) (by omega)
            have h2 := hQ3 q (by omega) hq hqa
            exact Int.le_of_lt (bytesCmp_lt_of_chr hw h1.1 h2.1 hlt)

theorem q3StringAt_spec (a : Array (List UInt8)) :
    ∃ out, q3StringAt a 0 ((a.size : Int) - 1) 0 = .ok out ∧ out.Perm a ∧
      SortedSeg bytesCmp out 0 out.size := by
  obtain ⟨out, h1, S, h3⟩ := q3StringAux_spec (maxLen a) (a.size + maxLen a + 2) a 0 a.size 0 []
    (Nat.zero_le _) (Nat.le_refl _) rfl
    (by intro p _ _ hpa; exact ⟨by simp, maxLen_ge a p hpa⟩) (by omega)
  refine ⟨out, by simpa [q3StringAt] using h1, S.perm, ?_⟩
  rw [S.size]; exact h3

theorem q3String_spec (choice : Nat → Int) (a : Array (List UInt8)) (hc : IntnContract choice a.size) :
    ∃ out, q3String choice a = .ok out ∧ out.toList = a.toList.mergeSort bytesLe := by
  obtain ⟨a0, h1, h2⟩ := shuffle_spec (choice := choice) a hc
  obtain ⟨out, g1, g2, g3⟩ := q3StringAt_spec a0
  refine ⟨out, ?_, eq_mergeSort_of_sorted_perm g3 (g2.trans h2)⟩
  unfold q3String
  rw [h1]
  exact g1

end AlgoVerif.C07
