import AlgoVerif.Model.C06X
/-!
# C06 — `Binary.all` in linear time, for the driver

`Binary.all` is the ascending traversal with a visitor that appends to the list collected so far
(`kvs ++ [(k, v)]`, as the Go code appends to a slice): quadratic in the number of keys when executed.
The sweeps over the number of keys (65 536 and more) need it linear, so the driver runs `Binary.xstepFast`,
which answers `All` by `_withPrefix` with the empty prefix (it concatenates the sub-results) and is
`Binary.xstep` for every other operation; `Binary.xstepFast_eq` proves the two equal, so what the driver
prints is what the Model of the theorems computes.  The Model itself is untouched.  Core only (the driver
imports this file).
-/
namespace AlgoVerif.C06
variable {V : Type}

theorem BNode.travAsc_collect (n : BNode V) (pre : Key) (s : List (Key × V)) :
    BNode.travAsc (fun (kvs : List (Key × V)) k v term =>
      if term then (kvs ++ [(k, v)], true) else (kvs, true)) n pre s = (s ++ BNode.withPrefix n pre [], true) := by
  induction n generalizing pre s with
  | nil => simp [BNode.travAsc, BNode.withPrefix]
  | node ch val term l r ihl ihr =>
    cases term <;> simp [BNode.travAsc, BNode.withPrefix, ihl, ihr, List.append_assoc]

/-- `All()` lists what `WithPrefix("")` lists, in the same order -/
theorem Binary.all_eq_withPrefix (t : Binary V) : t.all = t.root.withPrefix [] [] := by
  simp [Binary.all, BNode.travAsc_collect]

def Binary.xstepFast [Inhabited V] (eqv : V → V → Bool) (s : Binary V × Binary V) (op : XOp V) :
    Outcome ((Binary V × Binary V) × XOut V (Binary V)) :=
  match op with
  | .base .all => .ok ((s.1, s.2), .base (.list (s.1.root.withPrefix [] [])))
  | op => Binary.xstep eqv s op

theorem Binary.xstepFast_eq [Inhabited V] (eqv : V → V → Bool) (s : Binary V × Binary V) (op : XOp V) :
    Binary.xstepFast eqv s op = Binary.xstep eqv s op := by
  unfold Binary.xstepFast
  split
  · simp [Binary.xstep, Binary.step, Binary.all_eq_withPrefix, Outcome.map]
  · rfl

end AlgoVerif.C06
