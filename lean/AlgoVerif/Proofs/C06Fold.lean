import AlgoVerif.Proofs.C06Order
/-!
# C06 — the visit functions of the ordered queries, folded over a sorted entry list

`foldE g m s` runs a visit function `g` (new state, continue?) over the entries `m` and stops at the
first `false`, exactly like `_traverse` does over `term` nodes.  For every query of the tries the
result over a strictly sorted list is the Spec's list function.
-/
namespace AlgoVerif.C06
variable {V σ : Type}

def foldE (g : σ → Key → V → σ × Bool) : List (Key × V) → σ → σ × Bool
  | [], s => (s, true)
  | x :: xs, s =>
    let a := g s x.1 x.2
    if !a.2 then (a.1, false) else foldE g xs a.1

theorem foldE_append (g : σ → Key → V → σ × Bool) (xs ys : List (Key × V)) (s : σ) :
    foldE g (xs ++ ys) s =
      if !(foldE g xs s).2 then ((foldE g xs s).1, false) else foldE g ys (foldE g xs s).1 := by
  induction xs generalizing s with
  | nil => simp [foldE]
  | cons x xs ih =>
    simp only [List.cons_append, foldE]
    by_cases h : (g s x.1 x.2).2 = true
    · simp [h, ih]
    · simp [h]

theorem foldE_singleton (g : σ → Key → V → σ × Bool) (x : Key × V) (s : σ) : foldE g [x] s = g s x.1 x.2 := by
  simp only [foldE]
  cases h : (g s x.1 x.2).2 <;> simp [← h]

/-! ## Spec-side facts on sorted lists -/

theorem Sorted.all_gt_of_head_gt {e : Key × V} {m : List (Key × V)} (h : Sorted (e :: m)) {k : Key}
    (hk : kle k e.1 = true) : ∀ x ∈ m, klt k x.1 = true :=
  fun x hx => klt_of_kle_of_klt hk (h.head_lt x hx)

theorem filter_eq_nil_of_all_false {α : Type} (p : α → Bool) (l : List α) (h : ∀ x ∈ l, p x = false) : l.filter p = [] := by
  rw [List.filter_eq_nil_iff]; intro x hx; simp [h x hx]

/-! ## Min / Max -/

theorem foldE_min (m : List (Key × V)) :
    (foldE (fun (_ : Option (Key × V)) k v => (some (k, v), false)) m none).1 = m.head? := by
  cases m <;> simp [foldE]

theorem foldE_max (m : List (Key × V)) :
    (foldE (fun (_ : Option (Key × V)) k v => (some (k, v), false)) m.reverse none).1 = m.getLast? := by
  rw [foldE_min, List.head?_reverse]

/-! ## Floor -/

theorem foldE_floor (key : Key) (m : List (Key × V)) (hs : Sorted m) (s : Option (Key × V)) :
    (foldE (fun (s : Option (Key × V)) k v => if klt key k then (s, false) else (some (k, v), true)) m s).1
      = ((m.filter (fun e => kle e.1 key)).getLast?).or s := by
  induction m generalizing s with
  | nil => simp [foldE]
  | cons e m ih =>
    simp only [foldE]
    by_cases h : klt key e.1 = true
    · have h0 : kle e.1 key = false := by simp [kle, h]
      have : (e :: m).filter (fun e => kle e.1 key) = [] := by
        apply filter_eq_nil_of_all_false
        intro x hx
        rcases List.mem_cons.mp hx with rfl | hx
        · exact h0
        · have := klt_trans h (hs.head_lt x hx); simp [kle, this]
      simp [h, this]
    · have h' : klt key e.1 = false := by simpa using h
      have h0 : kle e.1 key = true := by simp [kle, h']
      simp only [h', Bool.false_eq_true, if_false, Bool.not_true]
      rw [ih hs.tail]
      simp only [List.filter_cons, h0, if_true]
      cases hf : m.filter (fun e => kle e.1 key) with
      | nil => simp
      | cons y ys =>
        simp [List.getLast?_cons_cons, List.getLast?_cons]

/-! ## Ceiling (descending traversal) -/

theorem foldE_ceiling (key : Key) (m : List (Key × V)) (hs : Sorted m) (s : Option (Key × V)) :
    let r := foldE (fun (s : Option (Key × V)) k v => if klt k key then (s, false) else (some (k, v), true)) m.reverse s
    r.1 = (m.find? (fun e => kle key e.1)).or s ∧ ((∀ e ∈ m, kle key e.1 = true) → r.2 = true) := by
  induction m generalizing s with
  | nil => simp [foldE]
  | cons x m ih =>
    obtain ⟨ih1, ih2⟩ := ih hs.tail s
    simp only [List.reverse_cons, foldE_append]
    by_cases hx : kle key x.1 = true
    · have hall : ∀ e ∈ m, kle key e.1 = true := fun e he => kle_of_klt (hs.all_gt_of_head_gt hx e he)
      have hnot : klt x.1 key = false := by simpa [kle] using hx
      simp [ih2 hall, foldE, hnot, hx]
    · have hx' : kle key x.1 = false := by simpa using hx
      have hlt : klt x.1 key = true := by simpa [kle] using hx'
      simp only [List.find?_cons, hx']
      constructor
      · cases h2 : (foldE (fun (s : Option (Key × V)) k v => if klt k key then (s, false) else (some (k, v), true)) m.reverse s).2
        · simpa using ih1
        · simp [foldE, hlt]; simpa using ih1
      · intro hall
        have := hall x (List.mem_cons_self ..)
        simp [hx'] at this

/-! ## Select -/

theorem foldE_select (rank : Int) (m : List (Key × V)) (i : Int) (hi : i ≤ rank) :
    (foldE (fun (s : Int × Option (Key × V)) k v =>
        if s.1 == rank then ((s.1, some (k, v)), false) else ((s.1 + 1, s.2), true)) m (i, none)).1.2
      = m[(rank - i).toNat]? := by
  induction m generalizing i with
  | nil => simp [foldE]
  | cons e m ih =>
    simp only [foldE]
    by_cases h : i = rank
    · subst h; simp
    · have h' : (i == rank) = false := by simpa using h
      simp only [h', Bool.false_eq_true, if_false, Bool.not_true]
      rw [ih (i + 1) (by omega)]
      have : (rank - i).toNat = (rank - (i + 1)).toNat + 1 := by omega
      rw [this, List.getElem?_cons_succ]

/-! ## Rank -/

theorem foldE_rank (key : Key) (m : List (Key × V)) (hs : Sorted m) (i : Int) :
    (foldE (fun (i : Int) k (_ : V) => if kle key k then (i, false) else (i + 1, true)) m i).1
      = i + (m.filter (fun e => klt e.1 key)).length := by
  induction m generalizing i with
  | nil => simp [foldE]
  | cons e m ih =>
    simp only [foldE]
    by_cases h : kle key e.1 = true
    · have : (e :: m).filter (fun e => klt e.1 key) = [] := by
        apply filter_eq_nil_of_all_false
        intro x hx
        rcases List.mem_cons.mp hx with rfl | hx
        · simpa [kle] using h
        · exact klt_asymm (hs.all_gt_of_head_gt h x hx)
      simp [h, this]
    · have h' : kle key e.1 = false := by simpa using h
      have h0 : klt e.1 key = true := by simpa [kle] using h'
      simp only [h', Bool.false_eq_true, if_false, Bool.not_true]
      rw [ih hs.tail]
      simp only [List.filter_cons, h0, if_true, List.length_cons]
      push_cast; omega

/-! ## Range / RangeSize / All -/

theorem range_filter_nil {hi lo : Key} {e : Key × V} {m : List (Key × V)} (hs : Sorted (e :: m))
    (h : klt hi e.1 = true) : (e :: m).filter (fun e => kle lo e.1 && kle e.1 hi) = [] := by
  apply filter_eq_nil_of_all_false
  intro x hx
  have : klt hi x.1 = true := by
    rcases List.mem_cons.mp hx with rfl | hx
    · exact h
    · exact klt_trans h (hs.head_lt x hx)
  simp [kle, this]

theorem foldE_range (lo hi : Key) (m : List (Key × V)) (hs : Sorted m) (kvs : List (Key × V)) :
    (foldE (fun (kvs : List (Key × V)) k v =>
        if kle lo k && kle k hi then (kvs ++ [(k, v)], true)
        else if klt hi k then (kvs, false) else (kvs, true)) m kvs).1
      = kvs ++ m.filter (fun e => kle lo e.1 && kle e.1 hi) := by
  induction m generalizing kvs with
  | nil => simp [foldE]
  | cons e m ih =>
    simp only [foldE]
    by_cases h : (kle lo e.1 && kle e.1 hi) = true
    · simp only [h, if_true, Bool.not_true, Bool.false_eq_true, if_false]
      rw [ih hs.tail]
      simp [h]
    · have h' : (kle lo e.1 && kle e.1 hi) = false := by simpa using h
      simp only [h', Bool.false_eq_true, if_false]
      by_cases h2 : klt hi e.1 = true
      · simp [h2, range_filter_nil hs h2]
      · have h2' : klt hi e.1 = false := by simpa using h2
        simp only [h2', Bool.false_eq_true, if_false, Bool.not_true]
        rw [ih hs.tail]
        simp [h']

theorem foldE_rangeSize (lo hi : Key) (m : List (Key × V)) (hs : Sorted m) (i : Int) :
    (foldE (fun (i : Int) k (_ : V) =>
        if kle lo k && kle k hi then (i + 1, true)
        else if klt hi k then (i, false) else (i, true)) m i).1
      = i + (m.filter (fun e => kle lo e.1 && kle e.1 hi)).length := by
  induction m generalizing i with
  | nil => simp [foldE]
  | cons e m ih =>
    simp only [foldE]
    by_cases h : (kle lo e.1 && kle e.1 hi) = true
    · simp only [h, if_true, Bool.not_true, Bool.false_eq_true, if_false]
      rw [ih hs.tail]
      simp only [List.filter_cons, h, if_true, List.length_cons]
      push_cast; omega
    · have h' : (kle lo e.1 && kle e.1 hi) = false := by simpa using h
      simp only [h', Bool.false_eq_true, if_false]
      by_cases h2 : klt hi e.1 = true
      · simp [h2, range_filter_nil hs h2]
      · have h2' : klt hi e.1 = false := by simpa using h2
        simp only [h2', Bool.false_eq_true, if_false, Bool.not_true]
        rw [ih hs.tail]
        simp [h']

theorem foldE_all (m : List (Key × V)) (kvs : List (Key × V)) :
    (foldE (fun (kvs : List (Key × V)) k v => (kvs ++ [(k, v)], true)) m kvs).1 = kvs ++ m := by
  induction m generalizing kvs with
  | nil => simp [foldE]
  | cons e m ih => simp [foldE, ih]

end AlgoVerif.C06
