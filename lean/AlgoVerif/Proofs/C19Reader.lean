import AlgoVerif.Spec.C19
/-!
# C19 — the reader and the loader

`read_spec`: what one `Read` of a reader without I/O errors can do; `loadLoop_spec` / `load_spec`: for every
such reader, `load(low, high)` either delivers `min(high-low, remaining)` ≥ 1 bytes of the source into
`buff[low:]` (followed by the sentinel when the half is not full), or fails with `io.EOF` without touching
the buffer, exactly when nothing remains.
-/
namespace AlgoVerif.C19
open AlgoVerif AlgoVerif.Generated

/-- the reader never fails with an error other than `io.EOF` -/
def NoIOErr (r : Reader) : Prop := ∀ a ∈ r.script, a.flag ≠ .ioerr

theorem Answer.size_le_len (a : Answer) (len avail : Nat) : a.size len avail ≤ len := by
  unfold Answer.size; split <;> omega

theorem Answer.size_le_avail (a : Answer) (len avail : Nat) : a.size len avail ≤ avail := by
  unfold Answer.size; omega

theorem Answer.err_cases (a : Answer) (h : a.flag ≠ .ioerr) (scripted : Bool) (m : Nat) (ex : Bool) :
    a.err scripted m ex = none ∨ (a.err scripted m ex = some .eof ∧ ex = true) := by
  unfold Answer.err
  simp only [h, if_false]
  split
  · exact Or.inl rfl
  · split
    · rename_i h2; exact Or.inr ⟨rfl, h2.1⟩
    · exact Or.inl rfl

/-- What one `Read` of a reader without I/O errors can do. -/
theorem read_spec (r : Reader) (len : Nat) (h : NoIOErr r) :
    ∃ m, m ≤ len ∧ m ≤ r.rest.length ∧ (r.read len).1 = r.rest.take m ∧
      (r.read len).2.2.rest = r.rest.drop m ∧ (r.read len).2.2.tailEof = r.tailEof ∧ NoIOErr (r.read len).2.2 ∧
      ((r.read len).2.1 = none ∨ ((r.read len).2.1 = some .eof ∧ (r.read len).2.2.rest = [])) ∧
      (r.script ≠ [] → (r.read len).2.2.script.length + 1 = r.script.length) ∧
      (r.script = [] → (r.read len).2.2.script = [] ∧ m = min len r.rest.length ∧
        ((r.read len).2.1 = some .eof ↔ (r.rest.length ≤ len ∧ (r.tailEof = true ∨ m = 0)))) := by
  cases hs : r.script with
  | nil =>
    have hm : ({ cap := len, flag := if r.tailEof then .eofWithData else .none } : Answer).size len r.rest.length
        = min len r.rest.length := by simp [Answer.size]
    refine ⟨min len r.rest.length, Nat.min_le_left _ _, Nat.min_le_right _ _, ?_⟩
    simp only [Reader.read, hs, hm]
    refine ⟨trivial, trivial, trivial, ?_, ?_, ?_, ?_⟩
    · intro a ha; simp at ha
    · have := Answer.err_cases { cap := len, flag := if r.tailEof then .eofWithData else .none }
        (by split <;> simp) false (min len r.rest.length) (List.drop (min len r.rest.length) r.rest).isEmpty
      rcases this with h1 | ⟨h1, h2⟩
      · exact Or.inl h1
      · exact Or.inr ⟨h1, by simpa using h2⟩
    · simp
    · intro _
      refine ⟨trivial, trivial, ?_⟩
      simp only [Answer.err]
      cases r.tailEof <;> simp <;> (try rw [← List.length_eq_zero_iff]) <;> omega
  | cons a s =>
    have ha : a.flag ≠ .ioerr := h a (by simp [hs])
    refine ⟨a.size len r.rest.length, a.size_le_len _ _, a.size_le_avail _ _, ?_⟩
    simp only [Reader.read, hs]
    refine ⟨trivial, trivial, trivial, ?_, ?_, ?_, ?_⟩
    · intro b hb; exact h b (by simp [hs]; exact Or.inr hb)
    · have := Answer.err_cases a ha true (a.size len r.rest.length) (List.drop (a.size len r.rest.length) r.rest).isEmpty
      rcases this with h1 | ⟨h1, h2⟩
      · exact Or.inl h1
      · exact Or.inr ⟨h1, by simpa using h2⟩
    · simp
    · intro h; simp at h

/-! ## `writeAt` -/

@[simp] theorem size_writeAt (buff : Array UInt8) (pos : Nat) (data : List UInt8) :
    (writeAt buff pos data).size = buff.size := by
  induction data generalizing buff pos with
  | nil => rfl
  | cons b bs ih => simp [writeAt, ih]

theorem getElem?_writeAt (buff : Array UInt8) (pos : Nat) (data : List UInt8) (j : Nat)
    (h : pos + data.length ≤ buff.size) :
    (writeAt buff pos data)[j]? = if pos ≤ j ∧ j < pos + data.length then data[j - pos]? else buff[j]? := by
  induction data generalizing buff pos with
  | nil => simp [writeAt]; omega
  | cons b bs ih =>
    simp only [writeAt, List.length_cons] at h ⊢
    rw [ih _ _ (by simp; omega)]
    by_cases h1 : pos + 1 ≤ j ∧ j < pos + 1 + bs.length
    · have h2 : pos ≤ j ∧ j < pos + (bs.length + 1) := by omega
      simp only [h1, h2, and_self, if_true]
      have : j - pos = (j - (pos + 1)) + 1 := by omega
      rw [this, List.getElem?_cons_succ]
    · simp only [h1, if_false]
      by_cases h3 : pos = j
      · subst h3
        have h2 : pos ≤ pos ∧ pos < pos + (bs.length + 1) := by omega
        simp only [h2, and_self, if_true, Nat.sub_self, List.getElem?_cons_zero]
        rw [Array.getElem?_setIfInBounds_self_of_lt (by omega)]
      · have h2 : ¬ (pos ≤ j ∧ j < pos + (bs.length + 1)) := by omega
        simp only [h2, if_false]
        rw [Array.getElem?_setIfInBounds_ne h3]

theorem writeAt_append (buff : Array UInt8) (pos : Nat) (a b : List UInt8) :
    writeAt buff pos (a ++ b) = writeAt (writeAt buff pos a) (pos + a.length) b := by
  induction a generalizing buff pos with
  | nil => simp [writeAt]
  | cons x xs ih => simp only [List.cons_append, writeAt, List.length_cons, ih]; congr 1; omega

/-! ## the loader -/

theorem loadLoop_spec (fuel : Nat) : ∀ (rd : Reader) (buff : Array UInt8) (low cur high : Nat),
    NoIOErr rd → low ≤ cur → cur ≤ high →
    ((cur = high ∧ 1 ≤ fuel) ∨ rd.script.length + (if rd.rest = [] then 1 else 2) ≤ fuel) →
    ∃ rd' cur' e, loadLoop fuel rd buff low cur high
        = .ok (rd', writeAt buff cur (rd.rest.take (cur' - cur)), cur', e) ∧
      cur ≤ cur' ∧ cur' ≤ high ∧ cur' - cur ≤ rd.rest.length ∧
      rd'.rest = rd.rest.drop (cur' - cur) ∧ rd'.tailEof = rd.tailEof ∧ NoIOErr rd' ∧
      (e = none → (cur' = high ∨ (rd'.rest = [] ∧ low < cur'))) ∧
      (∀ x, e = some x → x = .eof ∧ cur' = low ∧ rd'.rest = []) := by
  induction fuel with
  | zero =>
    intro rd buff low cur high _ _ _ hf
    rcases hf with ⟨_, h⟩ | h
    · omega
    · split at h <;> omega
  | succ f ih =>
    intro rd buff low cur high hio hlc hch hf
    by_cases hlt : cur < high
    · obtain ⟨m, hm1, hm2, hdata, hrest, htail, hio', herr, hs1, hs2⟩ := read_spec rd (high - cur) hio
      have hlen : ((rd.read (high - cur)).1).length = m := by rw [hdata, List.length_take]; omega
      unfold loadLoop
      simp only [hlt, if_true]
      generalize hrd : rd.read (high - cur) = res at *
      obtain ⟨data, err, rd1⟩ := res
      simp only at hdata hrest htail hio' herr hs1 hs2 hlen ⊢
      subst hdata
      by_cases hbrk : err = some .eof ∧ cur + (List.take m rd.rest).length > low
      · -- break
        simp only [hbrk, and_self, if_true]
        refine ⟨rd1, cur + m, none, ?_⟩
        have hr1 : rd1.rest = [] := by
          rcases herr with h | ⟨_, h⟩
          · rw [hbrk.1] at h; cases h
          · exact h
        rw [hlen] at hbrk ⊢
        refine ⟨by simp, by omega, by omega, by omega, by simpa using hrest, htail, hio', ?_, ?_⟩
        · intro _; exact Or.inr ⟨hr1, hbrk.2⟩
        · intro x hx; cases hx
      · simp only [hbrk, if_false]
        rcases herr with he | ⟨he, hr1⟩
        · -- no error: next iteration
          subst he
          simp only
          rw [hlen]
          have hfuel' : (cur + m = high ∧ 1 ≤ f) ∨ rd1.script.length + (if rd1.rest = [] then 1 else 2) ≤ f := by
            have hf2 : rd.script.length + (if rd.rest = [] then 1 else 2) ≤ f + 1 := by
              rcases hf with ⟨h, _⟩ | h
              · omega
              · exact h
            by_cases hsc : rd.script = []
            · obtain ⟨hsc1, hmm, hiff⟩ := hs2 hsc
              have hne : ¬ (rd.rest.length ≤ high - cur ∧ (rd.tailEof = true ∨ m = 0)) := by
                intro h; have := hiff.2 h; cases this
              have hrne : rd.rest ≠ [] := by
                intro h; apply hne; simp [h] at hmm ⊢; omega
              simp only [hsc, List.length_nil, hrne, if_false] at hf2
              by_cases hge : high - cur ≤ rd.rest.length
              · left; omega
              · right
                have : rd1.rest = [] := by rw [hrest]; simp; omega
                simp [hsc1, this]; omega
            · right
              have h1 := hs1 hsc
              have : (if rd1.rest = [] then 1 else 2) ≤ (if rd.rest = [] then 1 else 2) := by
                by_cases h : rd.rest = []
                · have : rd1.rest = [] := by rw [hrest, h]; simp
                  simp [h, this]
                · simp only [h, if_false]; split <;> omega
              omega
          obtain ⟨rd', cur', e, heq, h1, h2, h3, h4, h5, h6, h7, h8⟩ :=
            ih rd1 (writeAt buff cur (List.take m rd.rest)) low (cur + m) high hio' (by omega) (by omega) hfuel'
          have hcc : cur + m ≤ cur' := h1
          refine ⟨rd', cur', e, ?_, by omega, h2, ?_, ?_, by rw [h5, htail], h6, h7, h8⟩
          · rw [heq, hrest]
            have : cur' - cur = m + (cur' - (cur + m)) := by omega
            rw [this, List.take_add, writeAt_append, List.length_take]
            rw [Nat.min_eq_left hm2]
          · rw [hrest, List.length_drop] at h3; omega
          · rw [h4, hrest, List.drop_drop]; congr 1; omega
        · -- return io.EOF: nothing was read in this call of load
          subst he
          simp only
          rw [hlen] at hbrk ⊢
          have hm0 : m = 0 := by
            have : ¬ (cur + m > low) := fun h => hbrk ⟨rfl, h⟩
            omega
          subst hm0
          refine ⟨rd1, cur, some .eof, ?_⟩
          refine ⟨by simp, by omega, by omega, by omega, by simpa using hrest, htail, hio', ?_, ?_⟩
          · intro h; cases h
          · intro x hx
            have : ¬ (cur + 0 > low) := fun h => hbrk ⟨rfl, h⟩
            cases hx
            exact ⟨rfl, by omega, hr1⟩
    · have : cur = high := by omega
      subst this
      refine ⟨rd, cur, none, ?_⟩
      unfold loadLoop
      simp [writeAt, hio]

/-- `load(low, high)` for a reader without I/O errors: nothing left ⇒ `io.EOF`, buffer untouched;
otherwise `k = min (high-low) remaining ≥ 1` bytes arrive at `buff[low:]`, followed by the sentinel if `k < high-low`. -/
theorem load_spec (i : Input) (low high : Nat) (hio : NoIOErr i.src) (hlh : low < high) (hsz : high ≤ i.buff.size) :
    (i.src.rest = [] ∧ ∃ rd, i.load low high = .ok ({ i with src := rd }, some .eof) ∧ rd.rest = [] ∧
        rd.tailEof = i.src.tailEof ∧ NoIOErr rd) ∨
    (i.src.rest ≠ [] ∧ ∃ rd buff k, i.load low high = .ok ({ i with src := rd, buff := buff }, none) ∧
        k = min (high - low) i.src.rest.length ∧ 0 < k ∧
        rd.rest = i.src.rest.drop k ∧ rd.tailEof = i.src.tailEof ∧ NoIOErr rd ∧ buff.size = i.buff.size ∧
        (∀ j, j < k → buff[low + j]? = i.src.rest[j]?) ∧
        (k < high - low → buff[low + k]? = some eofByte) ∧
        (∀ j, (j < low ∨ low + k < j ∨ (j = low + k ∧ k = high - low)) → buff[j]? = i.buff[j]?)) := by
  obtain ⟨rd', cur', e, heq, h1, h2, h3, h4, h5, h6, h7, h8⟩ :=
    loadLoop_spec (i.src.script.length + 3) i.src i.buff low low high hio (Nat.le_refl _) (Nat.le_of_lt hlh)
      (Or.inr (by split <;> omega))
  unfold Input.load
  rw [heq]
  cases e with
  | some x =>
    obtain ⟨hx, hc, hr⟩ := h8 x rfl
    subst hx hc
    simp only [Nat.sub_self, List.take_zero, writeAt, List.drop_zero] at h4 ⊢
    left
    refine ⟨by rw [← h4]; exact hr, rd', ?_, hr, h5, h6⟩
    rfl
  | none =>
    right
    have hk : cur' - low = min (high - low) i.src.rest.length ∧ 0 < cur' - low := by
      rcases h7 rfl with h | ⟨hr, hl⟩
      · subst h; omega
      · rw [h4] at hr
        have := List.length_drop (i := cur' - low) (l := i.src.rest)
        rw [hr] at this; simp at this; omega
    have hne : i.src.rest ≠ [] := by
      intro h; rw [h] at h3; simp at h3; omega
    have hlen : (List.take (cur' - low) i.src.rest).length = cur' - low := by
      rw [List.length_take]; omega
    have hW : ∀ j, (writeAt i.buff low (List.take (cur' - low) i.src.rest))[j]?
        = if low ≤ j ∧ j < low + (cur' - low) then (List.take (cur' - low) i.src.rest)[j - low]? else i.buff[j]? := by
      intro j
      have := getElem?_writeAt i.buff low (List.take (cur' - low) i.src.rest) j (by rw [hlen]; omega)
      rw [hlen] at this; exact this
    have hcur : low + (cur' - low) = cur' := by omega
    refine ⟨hne, rd', _, cur' - low, rfl, hk.1, hk.2, h4, h5, h6, ?_, ?_, ?_, ?_⟩
    · split <;> simp
    · intro j hj
      have hget : (writeAt i.buff low (List.take (cur' - low) i.src.rest))[low + j]? = i.src.rest[j]? := by
        rw [hW]
        have : low ≤ low + j ∧ low + j < low + (cur' - low) := by omega
        simp only [this, and_self, if_true, Nat.add_sub_cancel_left]
        rw [List.getElem?_take]; simp [hj]
      split
      · rw [Array.getElem?_setIfInBounds_ne (by omega)]; exact hget
      · exact hget
    · intro hlt
      have : cur' < high := by omega
      simp only [this, if_true, hcur]
      rw [Array.getElem?_setIfInBounds_self_of_lt (by simp; omega)]
    · intro j hj
      have hget : (writeAt i.buff low (List.take (cur' - low) i.src.rest))[j]? = i.buff[j]? := by
        rw [hW]
        have : ¬ (low ≤ j ∧ j < low + (cur' - low)) := by omega
        simp only [this, if_false]
      split
      · rw [Array.getElem?_setIfInBounds_ne (by omega)]; exact hget
      · exact hget

/-- the fields `next()` and `load` never touch -/
structure SameLex (i i' : Input) : Prop where
  lexemeBegin : i'.lexemeBegin = i.lexemeBegin
  offset : i'.offset = i.offset
  line : i'.line = i.line
  column : i'.column = i.column
  nextColumn : i'.nextColumn = i.nextColumn
  runeSizes : i'.runeSizes = i.runeSizes
  lastColumns : i'.lastColumns = i.lastColumns

/-- `load_spec` with the resulting `Input` described field by field -/
theorem load_spec' (i : Input) (low high : Nat) (hio : NoIOErr i.src) (hlh : low < high) (hsz : high ≤ i.buff.size) :
    (i.src.rest = [] ∧ ∃ j, i.load low high = .ok (j, some .eof) ∧ j.src.rest = [] ∧
        j.src.tailEof = i.src.tailEof ∧ NoIOErr j.src ∧ j.buff = i.buff ∧
        j.forward = i.forward ∧ j.ahead = i.ahead ∧ j.err = i.err ∧ SameLex i j) ∨
    (i.src.rest ≠ [] ∧ ∃ j k, i.load low high = .ok (j, none) ∧
        k = min (high - low) i.src.rest.length ∧ 0 < k ∧
        j.src.rest = i.src.rest.drop k ∧ j.src.tailEof = i.src.tailEof ∧ NoIOErr j.src ∧ j.buff.size = i.buff.size ∧
        (∀ t, t < k → j.buff[low + t]? = i.src.rest[t]?) ∧
        (k < high - low → j.buff[low + k]? = some eofByte) ∧
        (∀ t, (t < low ∨ low + k < t ∨ (t = low + k ∧ k = high - low)) → j.buff[t]? = i.buff[t]?) ∧
        j.forward = i.forward ∧ j.ahead = i.ahead ∧ j.err = i.err ∧ SameLex i j) := by
  rcases load_spec i low high hio hlh hsz with ⟨hrest, rd, hload, hrd, htl, hio'⟩ |
    ⟨hrest, rd, buff, k, hload, hk, hkpos, hrd, htl, hio', hbsz, hnew, hsent, hold⟩
  · exact Or.inl ⟨hrest, _, hload, hrd, htl, hio', rfl, rfl, rfl, rfl, ⟨rfl, rfl, rfl, rfl, rfl, rfl, rfl⟩⟩
  · exact Or.inr ⟨hrest, _, k, hload, hk, hkpos, hrd, htl, hio', hbsz, hnew, hsent, hold, rfl, rfl, rfl,
      ⟨rfl, rfl, rfl, rfl, rfl, rfl, rfl⟩⟩

end AlgoVerif.C19
