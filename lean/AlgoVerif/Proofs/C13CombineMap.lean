import AlgoVerif.Proofs.C13Combine
import AlgoVerif.Proofs.C13Star
/-! C13: the final-state map of `CombineDFA`: after reading `w` the combined DFA is in a state listed for
operand `i` iff operand `i` accepts `w`. -/
namespace AlgoVerif.C13
open AlgoVerif AlgoVerif.C13.Spec

/-! ### runs of the intermediate automata -/

/-- the DFA of the subset construction, run on a word over its alphabet, is in the state that stands for
the set of NFA states reachable on that word -/
theorem NFA.subsets_run (n : NFA) (r : List (List Int) × DFA) (h : n.subsets = .ok r) (w : Word)
    (hw : ∀ a ∈ w, a ∈ n.symbols) :
    ∃ (jj : Nat) (S : List Int), dfaRun r.2.δ (some 0) w = some (jj : Int) ∧ r.1[jj]? = some S ∧ Reps n n.start w S := by
  obtain ⟨_, _, _, _, S0, hq0, hR0, hinv⟩ := n.subsets_facts r h
  have main : ∀ (w : Word) (ii : Nat) (T : List Int) (u : Word), r.1[ii]? = some T → Reps n n.start u T →
      (∀ a ∈ w, a ∈ n.symbols) →
      ∃ (jj : Nat) (S : List Int), dfaRun r.2.δ (some (ii : Int)) w = some (jj : Int) ∧ r.1[jj]? = some S ∧
        Reps n n.start (u ++ w) S := by
    intro w
    induction w with
    | nil => intro ii T u hT hR _; exact ⟨ii, T, by simp [dfaRun], hT, by simpa using hR⟩
    | cons a w ih =>
      intro ii T u hT hR hw
      have hlt : ii < r.1.length := (List.getElem?_eq_some_iff.1 hT).1
      obtain ⟨j, hj⟩ := hinv.complete ii a (Or.inl hlt) (hw a (by simp))
      obtain ⟨ii', jj, T', U, g1, g2, g3, g4, g5, _, _⟩ := hinv.sound _ _ _ hj
      have : ii' = ii := by omega
      subst this
      rw [hT] at g3; injection g3 with g3; subst g3
      have hRU : Reps n n.start (u ++ [a]) U := by
        intro x; rw [g5 x]
        constructor
        · rintro ⟨s, hs, t, hd, hr⟩; exact Path.snoc ((hR s).1 hs) hd hr
        · intro hp
          obtain ⟨t, t1, hp', hd, h2⟩ := Path.unsnoc hp
          exact ⟨t, (hR t).2 hp', t1, hd, h2⟩
      obtain ⟨jj', S, k1, k2, k3⟩ := ih jj U (u ++ [a]) g4 hRU (fun b hb => hw b (by simp [hb]))
      refine ⟨jj', S, ?_, k2, by simpa using k3⟩
      simp only [dfaRun, hj, g2]; exact k1
  obtain ⟨jj, S, k1, k2, k3⟩ := main w 0 S0 [] hq0 hR0 hw
  exact ⟨jj, S, by simpa using k1, k2, by simpa using k3⟩

theorem NFA.subsets_runsyms (n : NFA) (r : List (List Int) × DFA) (h : n.subsets = .ok r) :
    ∀ (w : Word) (i f : Int), dfaRun r.2.δ (some i) w = some f → ∀ a ∈ w, a ∈ n.symbols := by
  obtain ⟨_, _, _, _, S0, hq0, hR0, hinv⟩ := n.subsets_facts r h
  intro w
  induction w with
  | nil => simp
  | cons a w ih =>
    intro i f hrun b hb
    simp only [dfaRun] at hrun
    cases hd : r.2.δ i a with
    | none => rw [hd, dfaRun_none] at hrun; simp at hrun
    | some j =>
      rw [hd] at hrun
      simp at hb; rcases hb with rfl | hb
      · obtain ⟨_, _, _, _, _, _, _, _, _, g6, _⟩ := hinv.sound _ _ _ hd; exact g6
      · exact ih j f hrun b hb

/-- a run of the DFA without its dead states is a run of the DFA -/
theorem DFA.elimDead_subrun (d d' : DFA) (hwf : d.WF) (h : d.elimDead = .ok d') :
    d'.start = d.start ∧ d'.final = d.final ∧
    ∀ (w : Word) (q f : Int), dfaRun d'.δ (some q) w = some f → dfaRun d.δ (some q) w = some f := by
  obtain ⟨vis, _, rfl⟩ := d.elimDead_eq d' h
  have hsf := DFA.ofEntries_start_final d.start d.final ((entries d.trans).filter (fun e =>
        !(deadsOf d vis).contains e.1 && !(deadsOf d vis).contains e.2.2))
  refine ⟨hsf.1, hsf.2, ?_⟩
  have hsub : ∀ s a t, (DFA.ofEntries d.start d.final ((entries d.trans).filter (fun e =>
        !(deadsOf d vis).contains e.1 && !(deadsOf d vis).contains e.2.2))).δ s a = some t → d.δ s a = some t := by
    intro s a t hδ
    unfold DFA.ofEntries at hδ
    rcases DFA.fold_sound _ _ s a t hδ with h' | h'
    · simp [DFA.δ, aget] at h'
    · exact (mem_entries_DFA hwf _ _ _).1 (List.mem_filter.1 h').1
  intro w
  induction w with
  | nil => intro q f h; simpa [dfaRun] using h
  | cons a w ih =>
    intro q f h
    simp only [dfaRun] at h ⊢
    cases hq : (DFA.ofEntries d.start d.final ((entries d.trans).filter (fun e =>
        !(deadsOf d vis).contains e.1 && !(deadsOf d vis).contains e.2.2))).δ q a with
    | none => rw [hq, dfaRun_none] at h; simp at h
    | some t =>
      rw [hq] at h
      rw [hsub q a t hq]
      exact ih t f h

/-! ### which copies the union NFA can be in -/

section copies
variable (δ : Int → Int → Int → Prop) (m : SM) (nfas : List NFA)
variable (hm : m.Inv 1)
variable (hδ : ∀ x a y, δ x a y ↔ ∃ i n, nfas[i]? = some n ∧ Emb m i n x a y)
variable (hb : ∀ i n, nfas[i]? = some n → Bound m i n)

include hm hδ hb

theorem union_copy_to_copy {w : Word} (hE : E ∉ w) {x y : Int} (h : Path δ x w y) :
    ∀ {i : Nat} {n : NFA} {s : Int}, nfas[i]? = some n → m.find i s = some x →
      ∀ {j : Nat} {t : Int}, m.find j t = some y → j = i ∧ Path n.Δ s w t := by
  induction h with
  | eps he =>
    intro i n s hn hx j t hy
    rcases union_reach_from_copy δ m nfas hm hδ hb hn hx he with ⟨h1, _⟩ | ⟨t', ht', hr⟩
    · have := (SM.find_range hm hy).1; omega
    · obtain ⟨rfl, rfl⟩ := SM.inj hm hy ht'
      exact ⟨rfl, Path.eps hr⟩
  | cons he hd hp ih =>
    intro i n s hn hx j t hy
    simp at hE
    rcases union_reach_from_copy δ m nfas hm hδ hb hn hx he with ⟨rfl, _⟩ | ⟨t1, ht1, hr⟩
    · rw [hδ] at hd
      obtain ⟨j', n', hn', hemb⟩ := hd
      rcases hemb with ⟨s2', t2, _, h2, _⟩ | ⟨_, h2, _⟩ | ⟨_, _, f, _, h4⟩
      · have := (SM.find_range hm h2).1; omega
      · omega
      · have := (SM.find_range hm h4).1; omega
    · rw [hδ] at hd
      obtain ⟨j', n', hn', hemb⟩ := hd
      rcases hemb with ⟨s2', t2, h1, h2, h3⟩ | ⟨h1, _, _⟩ | ⟨h1, _, _⟩
      · obtain ⟨rfl, rfl⟩ := SM.inj hm h2 ht1
        rw [hn] at hn'; injection hn' with hn'; subst hn'
        obtain ⟨e, hp'⟩ := ih hE.2 hn h3 hy
        exact ⟨e, Path.cons hr h1 hp'⟩
      · exact absurd h1.symm hE.1
      · exact absurd h1.symm hE.1

/-- the union NFA can be in the copy of `t` (of operand `j`) after `w` iff operand `j` can be in `t` -/
theorem union_zero_to_copy {w : Word} (hE : E ∉ w) {y : Int} {j : Nat} {t : Int} (hy : m.find j t = some y) :
    Path δ 0 w y ↔ ∃ n, nfas[j]? = some n ∧ Path n.Δ n.start w t := by
  constructor
  · intro h
    cases h with
    | eps he =>
      rcases union_reach_from_zero δ m nfas hm hδ hb he with h0 | ⟨i, n, hn, h'⟩
      · have := (SM.find_range hm hy).1; omega
      · rcases h' with ⟨h1, _⟩ | ⟨t', ht', hr⟩
        · have := (SM.find_range hm hy).1; omega
        · obtain ⟨rfl, rfl⟩ := SM.inj hm hy ht'
          exact ⟨n, hn, Path.eps hr⟩
    | cons he hd hp' =>
      simp at hE
      rcases union_reach_from_zero δ m nfas hm hδ hb he with rfl | ⟨i, n, hn, h'⟩
      · rw [hδ] at hd
        obtain ⟨j', n', hn', hemb⟩ := hd
        rcases hemb with ⟨s2', t2, _, h2, _⟩ | ⟨h1, _, _⟩ | ⟨h1, _, _⟩
        · have := (SM.find_range hm h2).1; omega
        · exact absurd h1.symm hE.1
        · exact absurd h1.symm hE.1
      · rcases h' with ⟨rfl, _⟩ | ⟨t1, ht1, hr⟩
        · rw [hδ] at hd
          obtain ⟨j', n', hn', hemb⟩ := hd
          rcases hemb with ⟨s2', t2, _, h2, _⟩ | ⟨_, h2, _⟩ | ⟨_, _, f, _, h4⟩
          · have := (SM.find_range hm h2).1; omega
          · omega
          · have := (SM.find_range hm h4).1; omega
        · rw [hδ] at hd
          obtain ⟨j', n', hn', hemb⟩ := hd
          rcases hemb with ⟨s2', t2, h1, h2, h3⟩ | ⟨h1, _, _⟩ | ⟨h1, _, _⟩
          · obtain ⟨rfl, rfl⟩ := SM.inj hm h2 ht1
            rw [hn] at hn'; injection hn' with hn'; subst hn'
            obtain ⟨e, hp2⟩ := union_copy_to_copy δ m nfas hm hδ hb hE.2 hp' hn h3 hy
            subst e
            exact ⟨n, hn, Path.cons hr h1 hp2⟩
          · exact absurd h1.symm hE.1
          · exact absurd h1.symm hE.1
  · rintro ⟨n, hn, hp⟩
    obtain ⟨x, hx⟩ := (hb j n hn).start
    obtain ⟨y', hy', hp'⟩ := union_embed_path δ m nfas hm hδ hb hn hp hx
    have e := SM.find_fun hy hy'; subst e
    have h01 : δ 0 Spec.eps x := by rw [hδ]; exact ⟨j, n, hn, Or.inr (Or.inl ⟨E_eq.symm, rfl, hx⟩)⟩
    exact AlgoVerif.C13.Path.prepend_eps h01 hp'

end copies

/-! ### the recorded lists -/

/-- the finals loop of `combineStep`, with the recorded list -/
def combineFinals (id : Nat) (fin : List Int) (m : SM) (u : NFA) (l : List Int) : (SM × NFA) × List Int :=
  fin.foldl (fun (a : (SM × NFA) × List State) f =>
    (((a.1.1.get id f).1, a.1.2.add (a.1.1.get id f).2 E [1]), a.2 ++ [(a.1.1.get id f).2])) ((m, u), l)

theorem combineFinals_fst (id : Nat) (fin : List Int) (m : SM) (u : NFA) (l : List Int) :
    (combineFinals id fin m u l).1 = finalsFold id fin m u := by
  induction fin generalizing m u l with
  | nil => rfl
  | cons f fin ih => simp only [combineFinals, finalsFold, List.foldl_cons]; exact ih _ _ _

theorem combineFinals_snd (id : Nat) (fin : List Int) (m : SM) (u : NFA) (l : List Int) (lo : Int) (hm : m.Inv lo) (y : Int) :
    y ∈ (combineFinals id fin m u l).2 ↔ y ∈ l ∨ ∃ f ∈ fin, (finalsFold id fin m u).1.find id f = some y := by
  induction fin generalizing m u l with
  | nil => simp [combineFinals]
  | cons f fin ih =>
    obtain ⟨g1, g2, g3⟩ := SM.get_spec m lo hm id f
    have hstep : combineFinals id (f :: fin) m u l =
        combineFinals id fin (m.get id f).1 (u.add (m.get id f).2 E [1]) (l ++ [(m.get id f).2]) := rfl
    have hstep2 : finalsFold id (f :: fin) m u = finalsFold id fin (m.get id f).1 (u.add (m.get id f).2 E [1]) := rfl
    rw [hstep, hstep2, ih _ _ _ g2]
    obtain ⟨k1, _⟩ := finalsFold_spec id fin (m.get id f).1 (u.add (m.get id f).2 E [1]) lo g2
    simp only [List.mem_append, List.mem_cons, List.not_mem_nil, or_false]
    constructor
    · rintro ((h | h) | ⟨f', h1, h2⟩)
      · left; exact h
      · right; exact ⟨f, Or.inl rfl, by rw [h]; exact k1.keep _ _ _ g3⟩
      · right; exact ⟨f', Or.inr h1, h2⟩
    · rintro (h | ⟨f', h1 | h1, h2⟩)
      · left; left; exact h
      · subst h1; left; right; exact SM.find_fun h2 (k1.keep _ _ _ g3)
      · right; exact ⟨f', h1, h2⟩

theorem combineStep_snd (acc : (SM × NFA) × List (List State)) (id : Nat) (nfa : NFA) (lo : Int) (hm : acc.1.1.Inv lo) :
    ∃ l, (combineStep acc id nfa).2 = acc.2 ++ [l] ∧
      ∀ y, y ∈ l ↔ ∃ f ∈ nfa.final, (unionStep acc.1 id nfa).1.find id f = some y := by
  obtain ⟨c1, c2, _⟩ := copyTransL_spec id nfa.trans acc.1.1 acc.1.2 lo hm
  obtain ⟨g1, g2, g3⟩ := SM.get_spec (copyTransL id nfa.trans acc.1.1 acc.1.2).1 lo c2 id nfa.start
  refine ⟨(combineFinals id nfa.final ((copyTransL id nfa.trans acc.1.1 acc.1.2).1.get id nfa.start).1
    ((copyTransL id nfa.trans acc.1.1 acc.1.2).2.add 0 E [((copyTransL id nfa.trans acc.1.1 acc.1.2).1.get id nfa.start).2]) []).2, rfl, ?_⟩
  intro y
  rw [combineFinals_snd _ _ _ _ _ lo g2]
  simp only [List.not_mem_nil, false_or]
  rfl

theorem combineFold_snd (ns : List NFA) (k : Nat) (acc : (SM × NFA) × List (List State)) (lo : Int)
    (hm : acc.1.1.Inv lo) (hwf : ∀ n ∈ ns, n.WF) :
    ∃ ls : List (List Int), (foldlIdx combineStep acc ns k).2 = acc.2 ++ ls ∧ ls.length = ns.length ∧
      ∀ (i : Nat) (n : NFA), ns[i]? = some n → ∃ l : List Int, ls[i]? = some l ∧
        ∀ y, y ∈ l ↔ ∃ f ∈ n.final, (foldlIdx combineStep acc ns k).1.1.find (k + i) f = some y := by
  induction ns generalizing k acc with
  | nil => exact ⟨[], by simp [foldlIdx], rfl, by simp⟩
  | cons n ns ih =>
    simp only [foldlIdx]
    obtain ⟨l, hl1, hl2⟩ := combineStep_snd acc k n lo hm
    obtain ⟨u1, u2, _, _, u5, _⟩ := unionStep_spec acc.1 k n lo hm (hwf n (by simp))
    have hm1 : (combineStep acc k n).1.1.Inv lo := by rw [combineStep_fst]; exact u2
    obtain ⟨ls, h1, h2, h3⟩ := ih (k + 1) (combineStep acc k n) hm1 (fun n' hn' => hwf n' (by simp [hn']))
    obtain ⟨t1, _⟩ := unionFold_spec ns (k + 1) (combineStep acc k n).1 lo hm1 (fun n' hn' => hwf n' (by simp [hn']))
    rw [← combineFold_fst] at t1
    refine ⟨l :: ls, by rw [h1, hl1]; simp, by simp [h2], ?_⟩
    intro i n' hn'
    cases i with
    | zero =>
      simp at hn'; subst hn'
      refine ⟨l, by simp, ?_⟩
      intro y
      rw [hl2]
      rw [← combineStep_fst] at u5 ⊢
      constructor
      · rintro ⟨f, hf, hy⟩; exact ⟨f, hf, t1.keep _ _ _ hy⟩
      · rintro ⟨f, hf, hy⟩
        obtain ⟨x, hx⟩ := u5.final f hf
        exact ⟨f, hf, by rw [SM.find_fun hy (t1.keep _ _ _ hx)]; exact hx⟩
    | succ i =>
      simp at hn'
      obtain ⟨l', e1, e2⟩ := h3 i n' hn'
      refine ⟨l', by simpa using e1, ?_⟩
      intro y; rw [e2, show k + 1 + i = k + (i + 1) by omega]

/-! ### the two remappings -/

theorem mem_foldlIdx_cond (p : List Int → Bool) (q : List (List Int)) (x : Int) (k : Nat) (acc : List Int) :
    x ∈ foldlIdx (fun acc i S => if p S then sins (i : Int) acc else acc) acc q k ↔
      x ∈ acc ∨ ∃ (i : Nat) (S : List Int), x = ((k + i : Nat) : Int) ∧ q[i]? = some S ∧ p S = true := by
  induction q generalizing k acc with
  | nil => simp [foldlIdx]
  | cons S q ih =>
    simp only [foldlIdx]
    rw [ih]
    constructor
    · rintro (h | ⟨i, S', h1, h2, h3⟩)
      · split at h
        · rename_i hc
          simp at h; rcases h with rfl | h
          · right; exact ⟨0, S, by simp, by simp, hc⟩
          · left; exact h
        · left; exact h
      · right; exact ⟨i + 1, S', by rw [h1]; congr 1; omega, by simpa using h2, h3⟩
    · rintro (h | ⟨i, S', h1, h2, h3⟩)
      · left; split
        · simp [h]
        · exact h
      · cases i with
        | zero =>
          simp at h2; subst h2
          left
          rw [if_pos h3, h1]; simp
        | succ i =>
          right; exact ⟨i, S', by rw [h1]; congr 1; omega, by simpa using h2, h3⟩

theorem mem_remapOne (q : List (List Int)) (states : List Int) (acc : List Int) (x : Int) :
    x ∈ states.foldl (fun mapped f =>
        foldlIdx (fun mapped i S => if S.contains f then sins (i : Int) mapped else mapped) mapped q) acc ↔
      x ∈ acc ∨ ∃ f ∈ states, ∃ (i : Nat) (S : List Int), x = (i : Int) ∧ q[i]? = some S ∧ f ∈ S := by
  induction states generalizing acc with
  | nil => simp
  | cons f states ih =>
    simp only [List.foldl_cons]
    rw [ih, mem_foldlIdx_cond (fun S => S.contains f)]
    simp only [Nat.zero_add, List.mem_cons, List.contains_eq_mem, decide_eq_true_eq]
    constructor
    · rintro ((h | ⟨i, S, h1, h2, h3⟩) | ⟨f', h1, h2⟩)
      · left; exact h
      · right; exact ⟨f, Or.inl rfl, i, S, h1, h2, h3⟩
      · right; exact ⟨f', Or.inr h1, h2⟩
    · rintro (h | ⟨f', h1 | h1, h2⟩)
      · left; left; exact h
      · subst h1; left; right; exact h2
      · right; exact ⟨f', h1, h2⟩

/-- "Remap the final states from the old indices to new indices": the state manager is threaded through -/
def remapThreaded (fm : List (List Int)) (m : SM) (out : List (List Int)) : SM × List (List Int) :=
  fm.foldl (fun (acc : SM × List (List State)) states =>
    ((reindexFinals states acc.1 []).1, acc.2 ++ [(reindexFinals states acc.1 []).2])) (m, out)

theorem remapThreaded_spec (fm : List (List Int)) (m : SM) (out : List (List Int)) (lo : Int) (hm : m.Inv lo) :
    m.Le (remapThreaded fm m out).1 ∧ (remapThreaded fm m out).1.Inv lo ∧
    ∃ ls : List (List Int), (remapThreaded fm m out).2 = out ++ ls ∧ ls.length = fm.length ∧
      ∀ (i : Nat) (l : List Int), fm[i]? = some l → ∃ l' : List Int, ls[i]? = some l' ∧
        ∀ q, q ∈ l' ↔ ∃ jj ∈ l, (remapThreaded fm m out).1.find 0 jj = some q := by
  induction fm generalizing m out with
  | nil => exact ⟨SM.Le.refl _, hm, [], by simp [remapThreaded], rfl, by simp⟩
  | cons states fm ih =>
    simp only [remapThreaded, List.foldl_cons]
    obtain ⟨f1, f2, f3, f4⟩ := reindexFinals_spec states m [] lo hm
    have := ih (reindexFinals states m []).1 (out ++ [(reindexFinals states m []).2]) f2
    simp only [remapThreaded] at this
    obtain ⟨k1, k2, ls, h1, h2, h3⟩ := this
    refine ⟨SM.Le.trans f1 k1, k2, (reindexFinals states m []).2 :: ls, by rw [h1]; simp, by simp [h2], ?_⟩
    intro i l hl
    cases i with
    | zero =>
      simp at hl; subst hl
      refine ⟨(reindexFinals states m []).2, by simp, ?_⟩
      intro q
      rw [f4]
      simp only [List.not_mem_nil, false_or]
      constructor
      · rintro ⟨jj, a1, a2⟩; exact ⟨jj, a1, k1.keep _ _ _ a2⟩
      · rintro ⟨jj, a1, a2⟩
        obtain ⟨x, hx⟩ := f3 jj a1
        exact ⟨jj, a1, by rw [SM.find_fun a2 (k1.keep _ _ _ hx)]; exact hx⟩
    | succ i =>
      simp at hl
      obtain ⟨l', e1, e2⟩ := h3 i l hl
      exact ⟨l', by simpa using e1, e2⟩

/-! ### the final map -/

theorem DFA.toNFA_lang_path (d : DFA) (hwf : d.WF) (hne : d.NoEps) (w : Word) :
    (∃ f ∈ d.toNFA.final, Path d.toNFA.Δ d.toNFA.start w f) ↔ d.lang w :=
  DFA.toNFA_lang hwf hne w

/-- whenever `CombineDFA` returns `(D, fm)`: `fm` has one entry per operand, and after reading `w` the
state of `D` is listed in `fm[i]` iff operand `i` accepts `w` -/
theorem combineDFA_finalMap (ds : List DFA) (hwf : ∀ d ∈ ds, d.WF) (hne : ∀ d ∈ ds, d.NoEps)
    (D : DFA) (fm : List (List Int)) (h : combineDFA ds = .ok (D, fm)) (w : Word) (hE : E ∉ w) :
    fm.length = ds.length ∧
    ∀ (i : Nat) (d : DFA), ds[i]? = some d → ∃ l : List Int, fm[i]? = some l ∧ (∀ q ∈ l, (-1 : Int) < q) ∧
      ∀ q, dfaRun D.δ (some D.start) w = some q → (q ∈ l ↔ d.lang w) := by
  simp only [combineDFA] at h
  have hnwf : ∀ n ∈ ds.map DFA.toNFA, n.WF := by
    intro n hn; obtain ⟨d, _, rfl⟩ := List.mem_map.1 hn; exact d.toNFA_WF
  have hfst := combineFold_fst (ds.map DFA.toNFA) 0 ((SM.new 1, NFA.new 0 [1]), [])
  obtain ⟨ls0, hs1, hs2, hs3⟩ := combineFold_snd (ds.map DFA.toNFA) 0 ((SM.new 1, NFA.new 0 [1]), []) 1 (SM.Inv_new 1) hnwf
  obtain ⟨_, k2, k3, k4, k5, k6⟩ := unionFold_spec (ds.map DFA.toNFA) 0 (SM.new 1, NFA.new 0 [1]) 1 (SM.Inv_new 1) hnwf
  rw [← hfst] at k2 k3 k4 k5 k6
  generalize foldlIdx combineStep ((SM.new 1, NFA.new 0 [1]), []) (ds.map DFA.toNFA) 0 = u at h hs1 hs3 k2 k3 k4 k5 k6
  simp only [List.nil_append] at hs1
  have hδ : ∀ x a y, u.1.2.Δ x a y ↔ ∃ i n, (ds.map DFA.toNFA)[i]? = some n ∧ Emb u.1.1 i n x a y := by
    intro x a y
    rw [k6]
    simp [NFA.new, NFA.empty_Δ]
  have hbnd : ∀ i n, (ds.map DFA.toNFA)[i]? = some n → Bound u.1.1 i n := by
    intro i n hn; simpa using k5 i n hn
  have hUstart : u.1.2.start = 0 := k3
  cases hs : u.1.2.subsets with
  | panic => simp [hs] at h
  | diverge => simp [hs] at h
  | ok r =>
    simp only [hs] at h
    obtain ⟨rwf, rpr, rst, _, _⟩ := u.1.2.subsets_facts r hs
    cases he : r.2.elimDead with
    | panic => simp [he] at h
    | diverge => simp [he] at h
    | ok combined =>
      simp only [he] at h
      cases hb : combined.bfsNumbering with
      | panic => simp [hb] at h
      | diverge => simp [hb] at h
      | ok m =>
        simp only [hb] at h
        injection h with h
        injection h with h1 h2
        have hcwf : combined.WF := by
          obtain ⟨vis, _, hc⟩ := r.2.elimDead_eq combined he
          rw [hc]; exact DFA.ofEntries_WF _ _ _
        obtain ⟨e1, e2, esub⟩ := r.2.elimDead_subrun combined rwf he
        obtain ⟨_, mfinv, mfstart, _, _, mfrun⟩ := reindexWith_facts combined hcwf m (-1) (combined.bfsNumbering_inv m hb)
        have hfm : fm = (remapThreaded (remapSubsets r.1 u.2) (reindexWith combined m).1 []).2 := h2.symm
        obtain ⟨t1, t2, ls2, g1, g2, g3⟩ := remapThreaded_spec (remapSubsets r.1 u.2) (reindexWith combined m).1 [] (-1) mfinv
        simp only [List.nil_append] at g1
        have hlen1 : (remapSubsets r.1 u.2).length = ds.length := by
          simp [remapSubsets, hs1, hs2]
        refine ⟨by rw [hfm, g1, g2, hlen1], ?_⟩
        intro i d hd
        have hn : (ds.map DFA.toNFA)[i]? = some d.toNFA := by simp [hd]
        obtain ⟨l0, a1, a2⟩ := hs3 i d.toNFA hn
        have hl1 : (remapSubsets r.1 u.2)[i]? = some (l0.foldl (fun mapped f =>
            foldlIdx (fun mapped i S => if S.contains f then sins (i : Int) mapped else mapped) mapped r.1) []) := by
          simp [remapSubsets, hs1, a1]
        obtain ⟨l2, b1, b2⟩ := g3 i _ hl1
        refine ⟨l2, by rw [hfm, g1]; exact b1, ?_, ?_⟩
        · intro q hq
          obtain ⟨jj, _, hj⟩ := (b2 q).1 hq
          exact (SM.find_range t2 hj).1
        intro q hq
        rw [← h1] at hq
        -- back through the renumbering, the dead-state elimination and the subset construction
        obtain ⟨t, ht1, ht2⟩ := (mfrun w combined.start (reindexWith combined m).2.start mfstart q).1 hq
        rw [e1, rst] at ht1
        have ht3 := esub w 0 t ht1
        have hsy := u.1.2.subsets_runsyms r hs w 0 t ht3
        obtain ⟨jj, S, r1, r2, r3⟩ := u.1.2.subsets_run r hs w hsy
        rw [r1] at ht3; injection ht3 with ht3
        have hTq := t1.keep _ _ _ ht2
        rw [b2]
        have step1 : (∃ jj' ∈ (l0.foldl (fun mapped f =>
            foldlIdx (fun mapped i S => if S.contains f then sins (i : Int) mapped else mapped) mapped r.1) []),
            (remapThreaded (remapSubsets r.1 u.2) (reindexWith combined m).1 []).1.find 0 jj' = some q) ↔
            t ∈ (l0.foldl (fun mapped f =>
            foldlIdx (fun mapped i S => if S.contains f then sins (i : Int) mapped else mapped) mapped r.1) []) := by
          constructor
          · rintro ⟨jj', c1, c2⟩
            obtain ⟨_, rfl⟩ := SM.inj t2 c2 hTq
            exact c1
          · intro c1; exact ⟨t, c1, hTq⟩
        rw [step1, mem_remapOne]
        simp only [List.not_mem_nil, false_or]
        rw [← DFA.toNFA_lang_path d (hwf d (List.mem_of_getElem? hd)) (hne d (List.mem_of_getElem? hd)) w]
        simp only [Nat.zero_add] at a2
        constructor
        · rintro ⟨y, hy, i', S', c1, c2, c3⟩
          have : i' = jj := by omega
          subst this
          rw [r2] at c2; injection c2 with c2; subst c2
          obtain ⟨f, hf, hfy⟩ := (a2 y).1 hy
          have hp : Path u.1.2.Δ 0 w y := by rw [← hUstart]; exact (r3 y).1 c3
          obtain ⟨n', hn', hp'⟩ := (union_zero_to_copy u.1.2.Δ u.1.1 (ds.map DFA.toNFA) k2 hδ hbnd hE hfy).1 hp
          rw [hn] at hn'; injection hn' with hn'; subst hn'
          exact ⟨f, hf, hp'⟩
        · rintro ⟨f, hf, hp⟩
          obtain ⟨y, hy⟩ := (hbnd i d.toNFA hn).final f hf
          have hp' : Path u.1.2.Δ 0 w y :=
            (union_zero_to_copy u.1.2.Δ u.1.1 (ds.map DFA.toNFA) k2 hδ hbnd hE hy).2 ⟨d.toNFA, hn, hp⟩
          refine ⟨y, (a2 y).2 ⟨f, hf, hy⟩, jj, S, ht3.symm, r2, ?_⟩
          exact (r3 y).2 (by rw [hUstart]; exact hp')

end AlgoVerif.C13
