import AlgoVerif.Proofs.C13Basic
/-! C13: the transition relation of the NFA model, `Add`, the ε-closure loop (termination and
meaning), `move`, and `Accept` against the relational language. -/
namespace AlgoVerif.C13
open AlgoVerif AlgoVerif.C13.Spec

/-- the transition relation the NFA model denotes -/
def NFA.Δ (n : NFA) (s a t : Int) : Prop := ∃ nx, n.next s a = some nx ∧ t ∈ nx

/-- the language of an NFA model: `Spec.nfaLang` of its transition relation -/
def NFA.lang (n : NFA) : Lang := nfaLang n.Δ n.start (fun f => f ∈ n.final)

theorem E_eq : E = Spec.eps := by decide

theorem NFA.next_add (n : NFA) (s a : Int) (nx : List Int) (s' a' : Int) :
    (n.add s a nx).next s' a' =
      if s' = s ∧ a' = a then some (saddAll ((n.next s a).getD []) nx) else n.next s' a' := by
  simp only [NFA.add, NFA.next, aget_aput]
  by_cases hs : s' = s
  · subst hs
    simp only [true_and]
    simp only [if_true, aget_aput]
    by_cases ha : a' = a
    · subst ha; simp; cases aget s' n.trans <;> simp [aget]
    · simp [ha]; cases aget s' n.trans <;> simp [aget]
  · simp [hs]

theorem NFA.Δ_add (n : NFA) (s a : Int) (nx : List Int) (s' a' t : Int) :
    (n.add s a nx).Δ s' a' t ↔ n.Δ s' a' t ∨ (s' = s ∧ a' = a ∧ t ∈ nx) := by
  simp only [NFA.Δ, NFA.next_add]
  by_cases h : s' = s ∧ a' = a
  · obtain ⟨rfl, rfl⟩ := h
    simp
    cases hn : n.next s' a' <;> simp
  · simp [h]; grind

@[simp] theorem NFA.start_add (n : NFA) (s a : Int) (nx : List Int) : (n.add s a nx).start = n.start := rfl
@[simp] theorem NFA.final_add (n : NFA) (s a : Int) (nx : List Int) : (n.add s a nx).final = n.final := rfl

/-! ### `closeStep` -/

theorem closeStep_mem_closure (nx c st : List Int) (x : Int) :
    x ∈ (closeStep nx c st).1 ↔ x ∈ c ∨ x ∈ nx := by
  induction nx generalizing c st with
  | nil => simp [closeStep]
  | cons u nx ih =>
    simp only [closeStep, List.foldl_cons] at ih ⊢
    by_cases hu : c.contains u = true
    · simp only [hu, if_true]
      rw [ih]; simp at hu; simp; grind
    · simp only [hu]
      rw [show ((if false = true then (c, st) else (sins u c, u :: st)) : List Int × List Int) = (sins u c, u :: st) from rfl]
      rw [ih]; simp; grind

theorem closeStep_mem_stack (nx c st : List Int) (x : Int) :
    x ∈ (closeStep nx c st).2 ↔ x ∈ st ∨ (x ∈ nx ∧ x ∉ c) := by
  induction nx generalizing c st with
  | nil => simp [closeStep]
  | cons u nx ih =>
    simp only [closeStep, List.foldl_cons] at ih ⊢
    by_cases hu : c.contains u = true
    · simp only [hu, if_true]
      rw [ih]; simp at hu; simp; grind
    · simp only [hu]
      rw [show ((if false = true then (c, st) else (sins u c, u :: st)) : List Int × List Int) = (sins u c, u :: st) from rfl]
      rw [ih]; simp at hu; simp; grind

/-- the termination measure: stack height plus the number of targets not yet in the closure -/
def cmeasure (U c st : List Int) : Nat := st.length + (U.filter (fun x => !c.contains x)).length

theorem filter_sins_lt (U c : List Int) (u : Int) (hU : u ∈ U) (hc : u ∉ c) :
    (U.filter (fun x => !(sins u c).contains x)).length < (U.filter (fun x => !c.contains x)).length := by
  have h1 : U.filter (fun x => !(sins u c).contains x)
      = (U.filter (fun x => !c.contains x)).filter (fun x => x ≠ u) := by
    rw [List.filter_filter]
    apply List.filter_congr
    intro x _
    simp
  rw [h1]
  apply (List.length_filter_lt_length_iff_exists).2
  exact ⟨u, by simp [hU, hc], by simp⟩

theorem closeStep_measure (U nx c st : List Int) (h : ∀ x ∈ nx, x ∈ U) :
    cmeasure U (closeStep nx c st).1 (closeStep nx c st).2 ≤ cmeasure U c st := by
  induction nx generalizing c st with
  | nil => simp [closeStep]
  | cons u nx ih =>
    simp only [closeStep, List.foldl_cons] at ih ⊢
    by_cases hu : c.contains u = true
    · simp only [hu, if_true]
      exact ih c st (fun x hx => h x (by simp [hx]))
    · simp only [hu]
      rw [show ((if false = true then (c, st) else (sins u c, u :: st)) : List Int × List Int) = (sins u c, u :: st) from rfl]
      refine Nat.le_trans (ih _ _ (fun x hx => h x (by simp [hx]))) ?_
      have := filter_sins_lt U c u (h u (by simp)) (by simpa using hu)
      simp only [cmeasure, List.length_cons]
      omega

theorem NFA.next_targets (n : NFA) (s a : Int) (nx : List Int) (h : n.next s a = some nx) :
    ∀ x ∈ nx, x ∈ n.targets := by
  intro x hx
  simp only [NFA.next] at h
  split at h
  · rename_i st hst
    simp only [NFA.targets, List.mem_flatMap]
    exact ⟨(s, st), aget_mem hst, (a, nx), aget_mem h, hx⟩
  · simp at h

/-- the closure loop returns when the fuel exceeds the measure -/
theorem NFA.closureLoop_ok (n : NFA) (fuel : Nat) (c st : List Int)
    (h : cmeasure n.targets c st < fuel) : ∃ c', n.closureLoop fuel c st = .ok c' := by
  induction fuel generalizing c st with
  | zero => omega
  | succ fuel ih =>
    cases st with
    | nil => exact ⟨c, by simp [NFA.closureLoop]⟩
    | cons t st =>
      simp only [NFA.closureLoop]
      cases hn : n.next t E with
      | none =>
        simp only
        apply ih
        simp only [cmeasure, List.length_cons] at h ⊢; omega
      | some nx =>
        simp only
        apply ih
        have := closeStep_measure n.targets nx c st (n.next_targets t E nx hn)
        simp only [cmeasure, List.length_cons] at h this ⊢; omega

/-- what the loop computes: starting from a closure `c ⊇ st` all of whose members outside the stack
have their ε-successors in `c`, the result contains `c`, is ε-closed, and only adds ε-reachable states. -/
theorem NFA.closureLoop_spec (n : NFA) (fuel : Nat) (c st c' : List Int)
    (h : n.closureLoop fuel c st = .ok c')
    (hst : ∀ x ∈ st, x ∈ c)
    (hcl : ∀ x ∈ c, x ∈ st ∨ ∀ u, n.Δ x E u → u ∈ c) :
    (∀ x ∈ c, x ∈ c') ∧ (∀ x ∈ c', ∀ u, n.Δ x E u → u ∈ c') ∧
    (∀ x ∈ c', ∃ y ∈ c, EReach n.Δ y x) := by
  induction fuel generalizing c st with
  | zero =>
    cases st with
    | nil =>
      simp [NFA.closureLoop] at h; subst h
      refine ⟨fun x hx => hx, ?_, fun x hx => ⟨x, hx, EReach.refl x⟩⟩
      intro x hx u hu
      rcases hcl x hx with h1 | h1
      · simp at h1
      · exact h1 u hu
    | cons t st => simp [NFA.closureLoop] at h
  | succ fuel ih =>
    cases st with
    | nil =>
      simp [NFA.closureLoop] at h; subst h
      refine ⟨fun x hx => hx, ?_, fun x hx => ⟨x, hx, EReach.refl x⟩⟩
      intro x hx u hu
      rcases hcl x hx with h1 | h1
      · simp at h1
      · exact h1 u hu
    | cons t st =>
      simp only [NFA.closureLoop] at h
      have htc : t ∈ c := hst t (by simp)
      cases hn : n.next t E with
      | none =>
        simp only [hn] at h
        have := ih c st h (fun x hx => hst x (by simp [hx])) (by
          intro x hx
          rcases hcl x hx with h1 | h1
          · simp at h1; rcases h1 with rfl | h1
            · right; intro u hu; obtain ⟨nx, h2, _⟩ := hu; simp [hn] at h2
            · left; exact h1
          · right; exact h1)
        exact this
      | some nx =>
        simp only [hn] at h
        have := ih _ _ h (by
          intro x hx
          rw [closeStep_mem_stack] at hx; rw [closeStep_mem_closure]
          rcases hx with hx | hx
          · left; exact hst x (by simp [hx])
          · right; exact hx.1) (by
          intro x hx
          rw [closeStep_mem_closure] at hx
          rw [closeStep_mem_stack]
          rcases hx with hx | hx
          · rcases hcl x hx with h1 | h1
            · simp at h1; rcases h1 with rfl | h1
              · right; intro u hu
                obtain ⟨nx', h2, h3⟩ := hu
                rw [hn] at h2; simp at h2; subst h2
                rw [closeStep_mem_closure]; right; exact h3
              · left; left; exact h1
            · right; intro u hu; rw [closeStep_mem_closure]; left; exact h1 u hu
          · by_cases hxc : x ∈ c
            · rcases hcl x hxc with h1 | h1
              · simp at h1; rcases h1 with rfl | h1
                · right; intro u hu
                  obtain ⟨nx', h2, h3⟩ := hu
                  rw [hn] at h2; simp at h2; subst h2
                  rw [closeStep_mem_closure]; right; exact h3
                · left; left; exact h1
              · right; intro u hu; rw [closeStep_mem_closure]; left; exact h1 u hu
            · left; right; exact ⟨hx, hxc⟩)
        refine ⟨fun x hx => this.1 x (by rw [closeStep_mem_closure]; left; exact hx), this.2.1, ?_⟩
        intro x hx
        obtain ⟨y, hy, hyx⟩ := this.2.2 x hx
        rw [closeStep_mem_closure] at hy
        rcases hy with hy | hy
        · exact ⟨y, hy, hyx⟩
        · refine ⟨t, htc, ?_⟩
          -- t -ε-> y -ε*-> x
          have hty : EReach n.Δ t y := EReach.step (EReach.refl t) (by
            rw [← E_eq]; exact ⟨nx, hn, hy⟩)
          clear hx this h
          induction hyx with
          | refl => exact hty
          | step _ h2 ih2 => exact EReach.step ih2 h2

theorem EReach.trans {δ : Int → Int → Int → Prop} {a b c : Int} (h1 : EReach δ a b) (h2 : EReach δ b c) :
    EReach δ a c := by
  induction h2 with
  | refl => exact h1
  | step _ h ih => exact EReach.step ih h

/-- `εClosure` always returns, and returns exactly the states ε-reachable from `T` -/
theorem NFA.εClosure_spec (n : NFA) (T : List Int) :
    ∃ c, n.εClosure T = .ok c ∧ ∀ x, x ∈ c ↔ ∃ s ∈ T, EReach n.Δ s x := by
  obtain ⟨c, hc⟩ := n.closureLoop_ok (n.closureFuel T) T T.reverse (by
    simp only [cmeasure, NFA.closureFuel, List.length_reverse]
    have := List.length_filter_le (fun x => !T.contains x) n.targets
    omega)
  refine ⟨c, hc, ?_⟩
  have := n.closureLoop_spec _ T T.reverse c hc (by simp) (by intro x hx; left; simpa using hx)
  intro x
  constructor
  · intro hx
    obtain ⟨y, hy, hyx⟩ := this.2.2 x hx
    exact ⟨y, hy, hyx⟩
  · rintro ⟨s, hs, hsx⟩
    rw [E_eq] at this
    induction hsx with
    | refl => exact this.1 s hs
    | step _ h2 ih => exact this.2.1 _ ih _ h2

theorem ssorted_closeStep (nx c st : List Int) (h : SSorted c) : SSorted (closeStep nx c st).1 := by
  induction nx generalizing c st with
  | nil => simpa [closeStep]
  | cons u nx ih =>
    simp only [closeStep, List.foldl_cons] at ih ⊢
    by_cases hu : c.contains u = true
    · simp only [hu, if_true]; exact ih c st h
    · simp only [hu]
      rw [show ((if false = true then (c, st) else (sins u c, u :: st)) : List Int × List Int) = (sins u c, u :: st) from rfl]
      exact ih _ _ (ssorted_sins h)

theorem NFA.closureLoop_sorted (n : NFA) (fuel : Nat) (c st c' : List Int)
    (h : n.closureLoop fuel c st = .ok c') (hc : SSorted c) : SSorted c' := by
  induction fuel generalizing c st with
  | zero =>
    cases st with
    | nil => simp [NFA.closureLoop] at h; subst h; exact hc
    | cons t st => simp [NFA.closureLoop] at h
  | succ fuel ih =>
    cases st with
    | nil => simp [NFA.closureLoop] at h; subst h; exact hc
    | cons t st =>
      simp only [NFA.closureLoop] at h
      cases hn : n.next t E with
      | none => simp only [hn] at h; exact ih c st h hc
      | some nx => simp only [hn] at h; exact ih _ _ h (ssorted_closeStep nx c st hc)

theorem NFA.εClosure_sorted (n : NFA) (T c : List Int) (h : n.εClosure T = .ok c) (hT : SSorted T) : SSorted c :=
  n.closureLoop_sorted _ T T.reverse c h hT

/-! ### `move` -/

theorem NFA.mem_move (n : NFA) (T : List Int) (a x : Int) :
    x ∈ n.move T a ↔ ∃ s ∈ T, n.Δ s a x := by
  suffices h : ∀ acc, x ∈ T.foldl (n.moveStep a) acc
      ↔ x ∈ acc ∨ ∃ s ∈ T, n.Δ s a x by
    simpa [NFA.move] using h []
  induction T with
  | nil => simp
  | cons s T ih =>
    intro acc
    simp only [List.foldl_cons]
    rw [ih]
    simp only [NFA.moveStep]
    cases hn : n.next s a with
    | none => simp [NFA.Δ, hn]
    | some nx =>
      simp [NFA.Δ, hn]; grind

theorem NFA.move_sorted (n : NFA) (T : List Int) (a : Int) : SSorted (n.move T a) := by
  suffices h : ∀ acc, SSorted acc → SSorted (T.foldl (n.moveStep a) acc) by
    exact h [] (by simp [SSorted])
  induction T with
  | nil => intro acc h; simpa
  | cons s T ih =>
    intro acc h
    simp only [List.foldl_cons]
    apply ih
    simp only [NFA.moveStep]
    cases n.next s a with
    | none => exact h
    | some nx => exact ssorted_saddAll h

/-! ### `Accept` -/

/-- the set `S` represents the states reachable from `q` reading `u` -/
def Reps (n : NFA) (q : Int) (u : Word) (S : List Int) : Prop := ∀ x, x ∈ S ↔ Path n.Δ q u x

theorem Path.snoc_eps {δ : Int → Int → Int → Prop} {s t u : Int} {w : Word}
    (h : Path δ s w t) (h2 : EReach δ t u) : Path δ s w u := by
  induction h with
  | eps h1 => exact Path.eps (EReach.trans h1 h2)
  | cons h1 hd _ ih => exact Path.cons h1 hd (ih h2)

theorem Path.snoc {δ : Int → Int → Int → Prop} {s t t1 t2 : Int} {w : Word} {a : Int}
    (h : Path δ s w t) (hd : δ t a t1) (h2 : EReach δ t1 t2) : Path δ s (w ++ [a]) t2 := by
  induction h with
  | eps h1 => exact Path.cons h1 hd (Path.eps h2)
  | cons h1 hd' _ ih => exact Path.cons h1 hd' (ih hd)

/-- a path reading `w ++ [a]` ends with an `a`-move followed by ε-moves -/
theorem Path.unsnoc {δ : Int → Int → Int → Prop} {s t2 : Int} {w : Word} {a : Int}
    (h : Path δ s (w ++ [a]) t2) : ∃ t t1, Path δ s w t ∧ δ t a t1 ∧ EReach δ t1 t2 := by
  induction w generalizing s with
  | nil =>
    cases h with
    | cons h1 hd hp =>
      cases hp with
      | eps h2 => exact ⟨_, _, Path.eps h1, hd, h2⟩
  | cons b w ih =>
    cases h with
    | cons h1 hd hp =>
      obtain ⟨t, t1, hp', hd', h2⟩ := ih hp
      exact ⟨t, t1, Path.cons h1 hd hp', hd', h2⟩

theorem Path.append {δ : Int → Int → Int → Prop} {s t u : Int} {w v : Word}
    (h1 : Path δ s w t) (h2 : Path δ t v u) : Path δ s (w ++ v) u := by
  induction h1 with
  | eps he =>
    cases h2 with
    | eps he2 => exact Path.eps (EReach.trans he he2)
    | cons he2 hd hp => exact Path.cons (EReach.trans he he2) hd hp
  | cons he hd _ ih => exact Path.cons he hd (ih h2)

theorem Path.split {δ : Int → Int → Int → Prop} {s u : Int} {w v : Word}
    (h : Path δ s (w ++ v) u) : ∃ t, Path δ s w t ∧ Path δ t v u := by
  induction w generalizing s with
  | nil => exact ⟨s, Path.eps (EReach.refl s), h⟩
  | cons a w ih =>
    cases h with
    | cons he hd hp =>
      obtain ⟨t, h1, h2⟩ := ih hp
      exact ⟨t, Path.cons he hd h1, h2⟩

theorem NFA.acceptLoop_spec (n : NFA) (q : Int) (u w : Word) (S : List Int) (hS : Reps n q u S) :
    ∃ S', n.acceptLoop S w = .ok S' ∧ Reps n q (u ++ w) S' := by
  induction w generalizing u S with
  | nil => exact ⟨S, by simp [NFA.acceptLoop], by simpa using hS⟩
  | cons a w ih =>
    obtain ⟨c, hc, hcm⟩ := n.εClosure_spec (n.move S a)
    simp only [NFA.acceptLoop, hc]
    have : Reps n q (u ++ [a]) c := by
      intro x
      rw [hcm]
      constructor
      · rintro ⟨s, hs, hsx⟩
        rw [n.mem_move] at hs
        obtain ⟨s0, hs0, hd⟩ := hs
        exact Path.snoc ((hS s0).1 hs0) hd hsx
      · intro hp
        obtain ⟨t, t1, hp', hd, h2⟩ := Path.unsnoc hp
        exact ⟨t1, (n.mem_move S a t1).2 ⟨t, (hS t).2 hp', hd⟩, h2⟩
    obtain ⟨S', h1, h2⟩ := ih (u ++ [a]) c this
    exact ⟨S', h1, by simpa using h2⟩

/-- `Accept` always returns, and returns whether the word is in the NFA's language -/
theorem NFA.accept_spec (n : NFA) (w : Word) :
    ∃ b, n.accept w = .ok b ∧ (b = true ↔ n.lang w) := by
  obtain ⟨c, hc, hcm⟩ := n.εClosure_spec (mkSet [n.start])
  have h0 : Reps n n.start [] c := by
    intro x
    rw [hcm]
    constructor
    · rintro ⟨s, hs, hsx⟩
      simp at hs; subst hs
      exact Path.eps hsx
    · intro hp
      cases hp with
      | eps he => exact ⟨n.start, by simp, he⟩
  obtain ⟨S, hS, hR⟩ := n.acceptLoop_spec n.start [] w c h0
  refine ⟨_, by simp only [NFA.accept, hc, hS]; rfl, ?_⟩
  simp only [List.nil_append] at hR
  simp only [List.any_eq_true, NFA.lang, nfaLang]
  constructor
  · rintro ⟨x, hx, hf⟩
    exact ⟨x, by simpa using hf, (hR x).1 hx⟩
  · rintro ⟨f, hf, hp⟩
    exact ⟨f, (hR f).2 hp, by simpa using hf⟩

end AlgoVerif.C13
