import AlgoVerif.Proofs.C07Basic
/-!
# C07 — Shuffle and selection sort (`sort/shuffle.go`, `sort/selection.go`)
-/
namespace AlgoVerif.C07
open AlgoVerif

variable {α : Type}

/-! ## Shuffle -/

theorem shuffleLoop_spec {choice : Nat → Int} :
    ∀ (f : Nat) (i : Nat) (a : Array α), i ≤ a.size → a.size - i < f → IntnContract choice a.size →
      ∃ a', shuffleLoop choice a.size f (i : Int) a = .ok a' ∧ a'.Perm a := by
  intro f
  induction f with
  | zero => intro i a _ h; omega
  | succ f ih =>
    intro i a hi hf hc
    unfold shuffleLoop
    by_cases hlt : i < a.size
    · have h1 : (i : Int) < a.size := by omega
      have h2 : ¬ ((a.size : Int) - i ≤ 0) := by omega
      simp only [h1, ↓reduceIte, h2, Int.toNat_natCast]
      obtain ⟨c0, c1⟩ := hc i hlt
      rw [swap_ok (by omega) (by omega) (by omega) (by omega)]
      simp only [ok_bind]
      have e : ((i : Int) + 1) = ((i + 1 : Nat) : Int) := by omega
      rw [e]
      have hsz : (a.swap (i : Int).toNat ((i : Int) + choice i).toNat (by omega) (by omega)).size = a.size := by simp
      obtain ⟨a', g1, g2⟩ := ih (i+1) (a.swap (i : Int).toNat ((i : Int) + choice i).toNat (by omega) (by omega))
        (by omega) (by omega) (by rw [hsz]; exact hc)
      rw [hsz] at g1
      exact ⟨a', g1, g2.trans (Array.swap_perm _ _)⟩
    · have : ¬ (i : Int) < a.size := by omega
      simp only [this, ↓reduceIte]
      exact ⟨a, rfl, Array.Perm.refl _⟩

theorem shuffle_spec {choice : Nat → Int} (a : Array α) (hc : IntnContract choice a.size) :
    ∃ out, shuffle choice a = .ok out ∧ out.Perm a := by
  obtain ⟨out, h1, h2⟩ := shuffleLoop_spec (choice := choice) (a.size + 1) 0 a (Nat.zero_le _) (by omega) hc
  exact ⟨out, by simpa [shuffle] using h1, h2⟩

/-! ## Selection -/

/-- the inner loop returns the index of a minimum of `a[i..n)` -/
theorem selMin_spec {cmp : α → α → Int} (tp : TotalPreorder cmp) (a : Array α) (i : Nat) :
    ∀ (f : Nat) (j m : Nat), i ≤ m → (hmj : m < j) → (hj : j ≤ a.size) → a.size - j < f →
      (∀ q, i ≤ q → (hq : q < j) → cmp (a[m]'(by omega)) (a[q]'(by omega)) ≤ 0) →
      ∃ m' : Nat, selMin cmp a a.size f (j : Int) (m : Int) = .ok (m' : Int) ∧ i ≤ m' ∧ m' < a.size ∧
        (∀ q, i ≤ q → (hq : q < a.size) → (hm : m' < a.size) → cmp a[m'] a[q] ≤ 0) := by
  intro f
  induction f with
  | zero => intro j m _ _ _ h; omega
  | succ f ih =>
    intro j m him hmj hj hf hmin
    unfold selMin
    by_cases hlt : j < a.size
    · have h1 : (j : Int) < a.size := by omega
      simp only [h1, ↓reduceIte]
      rw [get_nat hlt, get_nat (by omega : m < a.size)]
      simp only [ok_bind]
      have e : ((j : Int) + 1) = ((j + 1 : Nat) : Int) := by omega
      rw [e]
      by_cases hc : cmp a[j] (a[m]'(by omega)) < 0
      · simp only [hc, ↓reduceIte]
        apply ih (j+1) j (by omega) (by omega) (by omega) (by omega)
        intro q hq1 hq2
        by_cases hqj : q = j
        · subst hqj; exact tp.refl _
        · exact tp.trans _ _ _ (TotalPreorder.le_of_lt hc) (hmin q hq1 (by omega))
      · simp only [hc, ↓reduceIte]
        apply ih (j+1) m him (by omega) (by omega) (by omega)
        intro q hq1 hq2
        by_cases hqj : q = j
        · subst hqj; exact tp.le_of_not_lt hc
        · exact hmin q hq1 (by omega)
    · have : ¬ (j : Int) < a.size := by omega
      simp only [this, ↓reduceIte]
      have : j = a.size := by omega
      subst this
      exact ⟨m, rfl, him, by omega, fun q hq1 hq2 _ => hmin q hq1 hq2⟩

/-- `a[0..i)` is sorted and every element of it is `≤` every element of `a[i..)`. -/
structure SelInv (cmp : α → α → Int) (a : Array α) (i : Nat) : Prop where
  sorted : SortedSeg cmp a 0 i
  below : ∀ (p q : Nat), (hp : p < i) → (hiq : i ≤ q) → (hq : q < a.size) → cmp (a[p]'(by omega)) a[q] ≤ 0

theorem selLoop_spec {cmp : α → α → Int} (tp : TotalPreorder cmp) :
    ∀ (f : Nat) (i : Nat) (a : Array α), i ≤ a.size → a.size - i < f → SelInv cmp a i →
      ∃ a', selLoop cmp a.size f (i : Int) a = .ok a' ∧ a'.Perm a ∧ SortedSeg cmp a' 0 a'.size := by
  intro f
  induction f with
  | zero => intro i a _ h; omega
  | succ f ih =>
    intro i a hi hf inv
    unfold selLoop
    by_cases hlt : i < a.size
    · have h1 : (i : Int) < a.size := by omega
      simp only [h1, ↓reduceIte]
      have e : ((i : Int) + 1) = ((i + 1 : Nat) : Int) := by omega
      rw [e]
      obtain ⟨m, hm1, hm2, hm3, hm4⟩ := selMin_spec tp a i (Int.toNat (a.size : Int) + 1) (i+1) i
        (Nat.le_refl _) (by omega) (by omega) (by omega)
        (by intro q hq1 hq2; have : q = i := by omega
            subst this; exact tp.refl _)
      rw [hm1]
      simp only [ok_bind]
      rw [swap_ok (by omega) (by omega) (by omega) (by omega)]
      simp only [ok_bind, Int.toNat_natCast]
      have hsz : (a.swap i m (by omega) (by omega)).size = a.size := by simp
      have inv' : SelInv cmp (a.swap i m (by omega) (by omega)) (i+1) := by
        have s := inv.sorted
        have b := inv.below
        constructor
        · intro p q _ hpq hq hq'
          simp only [Array.getElem_swap]
          by_cases hqi : q = i
          · subst hqi
            have : p ≠ q := by omega
            have hpm : p ≠ m := by omega
            simp only [this, hpm, ↓reduceIte]
            exact b p m (by omega) (by omega) (by omega)
          · have hq2 : q < i := by omega
            have : q ≠ m := by omega
            have hpi : p ≠ i := by omega
            have hpm : p ≠ m := by omega
            simp only [hqi, this, hpi, hpm, ↓reduceIte]
            exact s p q (Nat.zero_le _) hpq hq2 (by omega)
        · intro p q hp hq hq'
          rw [hsz] at hq'
          simp only [Array.getElem_swap]
          have hqi : q ≠ i := by omega
          by_cases hpi : p = i
          · subst hpi
            simp only [↓reduceIte, hqi]
            by_cases hqm : q = m
            · subst hqm
              simp only [↓reduceIte]
              exact hm4 p (Nat.le_refl _) (by omega) (by omega)
            · simp only [hqm, ↓reduceIte]
              exact hm4 q (by omega) (by omega) (by omega)
          · have hpm : p ≠ m := by omega
            simp only [hpi, hpm, hqi, ↓reduceIte]
            by_cases hqm : q = m
            · subst hqm
              simp only [↓reduceIte]
              exact b p i (by omega) (Nat.le_refl _) (by omega)
            · simp only [hqm, ↓reduceIte]
              exact b p q (by omega) (by omega) (by omega)
      obtain ⟨a', g1, g2, g3⟩ := ih (i+1) (a.swap i m (by omega) (by omega)) (by omega) (by omega) inv'
      rw [hsz] at g1
      exact ⟨a', g1, g2.trans (Array.swap_perm _ _), g3⟩
    · have : ¬ (i : Int) < a.size := by omega
      simp only [this, ↓reduceIte]
      have : i = a.size := by omega
      subst this
      exact ⟨a, rfl, Array.Perm.refl _, inv.sorted⟩

theorem selection_spec {cmp : α → α → Int} (tp : TotalPreorder cmp) (a : Array α) :
    ∃ out, selection cmp a = .ok out ∧ IsSortOf cmp out a := by
  obtain ⟨out, h1, h2, h3⟩ := selLoop_spec tp (a.size + 1) 0 a (Nat.zero_le _) (by omega)
    ⟨by intro p q _ _ h; omega, by intro p q hp; omega⟩
  exact ⟨out, by simpa [selection] using h1, isSortOf_of h3 h2⟩

end AlgoVerif.C07
