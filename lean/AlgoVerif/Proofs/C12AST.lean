import AlgoVerif.Proofs.C12Sound
/-! `ParseAndBuildAST`: the tree built from the callbacks of an accepting run is complete and its
leaves, left to right, are the input tokens. -/
set_option linter.unusedSectionVars false
namespace AlgoVerif.C10
open AlgoVerif AlgoVerif.Gram
variable {T N : Type} [DecidableEq T] [DecidableEq N]

/-- one position of the frontier of a tree under construction -/
inductive Item (T N : Type) where
  | done (t : T) (k : Nat)
  | hole (s : Sym T N)

mutual
/-- the frontier: completed leaves and incomplete nodes, left to right -/
def fr : Tree T N → List (Item T N)
  | .leaf t (some k) => [.done t k]
  | .leaf t none => [.hole (.term t)]
  | .node A none _ => [.hole (.nonterm A)]
  | .node _ (some _) kids => frKids kids
def frKids : List (Tree T N) → List (Item T N)
  | [] => []
  | k :: ks => fr k ++ frKids ks
end

/-- completing the first hole of a frontier -/
def fillFr (e : Event T N) : List (Item T N) → Option (Outcome (List (Item T N)))
  | [] => none
  | .done t k :: rest =>
    match fillFr e rest with
    | none => none
    | some (.ok r) => some (.ok (.done t k :: r))
    | some .panic => some .panic
    | some .diverge => some .diverge
  | .hole (.term t) :: rest =>
    match e with
    | .tok _ pos => some (.ok (.done t pos :: rest))
    | .prod _ => some .panic
  | .hole (.nonterm _) :: rest =>
    match e with
    | .prod p => some (.ok (p.body.map Item.hole ++ rest))
    | .tok _ _ => some .panic

theorem fillFr_append (e : Event T N) (a b : List (Item T N)) :
    fillFr e (a ++ b) =
      match fillFr e a with
      | none =>
        (match fillFr e b with
         | none => none
         | some (.ok r) => some (.ok (a ++ r))
         | some .panic => some .panic
         | some .diverge => some .diverge)
      | some (.ok r) => some (.ok (r ++ b))
      | some .panic => some .panic
      | some .diverge => some .diverge := by
  induction a with
  | nil =>
    simp only [List.nil_append, fillFr]
    cases fillFr e b with
    | none => rfl
    | some r => cases r <;> rfl
  | cons x xs ih =>
    cases x with
    | done t k =>
      simp only [List.cons_append, fillFr, ih]
      cases fillFr e xs with
      | none =>
        cases fillFr e b with
        | none => rfl
        | some r => cases r <;> rfl
      | some r => cases r <;> rfl
    | hole s =>
      cases s with
      | term t => cases e <;> simp [fillFr]
      | nonterm A => cases e <;> simp [fillFr]

theorem frKids_newKids (body : List (Sym T N)) : frKids (newKids body) = body.map Item.hole := by
  induction body with
  | nil => rfl
  | cons s rest ih =>
    cases s with
    | term t => simp [newKids, frKids, fr] at ih ⊢; exact ih
    | nonterm A => simp [newKids, frKids, fr] at ih ⊢; exact ih

/-- lifting `fr` through the answer of `fillTree` -/
def liftT (r : Option (Outcome (Tree T N))) : Option (Outcome (List (Item T N))) :=
  match r with
  | none => none
  | some (.ok t) => some (.ok (fr t))
  | some .panic => some .panic
  | some .diverge => some .diverge

def liftK (r : Option (Outcome (List (Tree T N)))) : Option (Outcome (List (Item T N))) :=
  match r with
  | none => none
  | some (.ok t) => some (.ok (frKids t))
  | some .panic => some .panic
  | some .diverge => some .diverge

mutual
theorem fillTree_fr (e : Event T N) : ∀ t : Tree T N, liftT (fillTree e t) = fillFr e (fr t)
  | .leaf t (some k) => by simp [fillTree, fr, fillFr, liftT]
  | .leaf t none => by cases e <;> simp [fillTree, fr, fillFr, liftT]
  | .node A none kids => by
    cases e with
    | tok _ _ => simp [fillTree, fr, fillFr, liftT]
    | prod p => simp [fillTree, fr, fillFr, liftT, frKids_newKids]
  | .node A (some p) kids => by
    have h := fillKids_fr e kids
    simp only [fillTree, fr]
    rw [← h]
    cases fillKids e kids with
    | none => rfl
    | some r => cases r <;> simp [liftT, liftK, fr]
theorem fillKids_fr (e : Event T N) : ∀ ks : List (Tree T N), liftK (fillKids e ks) = fillFr e (frKids ks)
  | [] => by simp [fillKids, frKids, fillFr, liftK]
  | k :: ks => by
    have h1 := fillTree_fr e k
    have h2 := fillKids_fr e ks
    simp only [fillKids, frKids, fillFr_append]
    rw [← h1, ← h2]
    cases fillTree e k with
    | none =>
      cases fillKids e ks with
      | none => rfl
      | some r => cases r <;> simp [liftT, liftK, frKids]
    | some r => cases r <;> simp [liftT, liftK, frKids]
end

/-- the builder on frontiers -/
def buildFr : List (Event T N) → List (Item T N) → Outcome (List (Item T N))
  | [], l => .ok l
  | e :: es, l =>
    match fillFr e l with
    | some (.ok l') => buildFr es l'
    | some .panic => .panic
    | some .diverge => .diverge
    | none => .panic

theorem buildAST_fr (es : List (Event T N)) (t : Tree T N) :
    (buildAST es t).map fr = buildFr es (fr t) := by
  induction es generalizing t with
  | nil => rfl
  | cons e es ih =>
    have h := fillTree_fr e t
    simp only [buildAST, buildFr]
    rw [← h]
    cases fillTree e t with
    | none => rfl
    | some r =>
      cases r with
      | ok t' => simp [liftT, ih]
      | panic => rfl
      | diverge => rfl

/-- completed leaves -/
def doneItems : List (T × Nat) → List (Item T N) := List.map fun x => Item.done x.1 x.2

theorem fillFr_doneItems (e : Event T N) (d : List (T × Nat)) (rest : List (Item T N)) :
    fillFr e (doneItems d ++ rest) =
      match fillFr e rest with
      | none => none
      | some (.ok r) => some (.ok (doneItems d ++ r))
      | some .panic => some .panic
      | some .diverge => some .diverge := by
  induction d with
  | nil =>
    simp only [doneItems, List.map_nil, List.nil_append]
    cases fillFr e rest with
    | none => rfl
    | some r => cases r <;> rfl
  | cons x xs ih =>
    simp only [doneItems, List.map_cons, List.cons_append, fillFr] at ih ⊢
    rw [ih]
    cases fillFr e rest with
    | none => rfl
    | some r => cases r <;> rfl

theorem doneItems_append (a b : List (T × Nat)) :
    (doneItems (a ++ b) : List (Item T N)) = doneItems a ++ doneItems b := by
  simp [doneItems]

/-- replaying the callbacks of an accepting run on the frontier `done … ++ stack ++ tail` -/
theorem buildFr_of_parse {M : N → Option T → List (GProd T N)} :
    ∀ (fuel : Nat) (stack : List (Sym T N)) (input : List T) (pos : Nat) (evs E : List (Event T N))
      (d : List (T × Nat)) (tail : List (Item T N)),
      parseLoop M fuel stack input pos evs = .ok (.accept E) →
      ∃ E', E = evs.reverse ++ E' ∧
        buildFr E' (doneItems d ++ (stack.map Item.hole ++ tail)) =
          .ok (doneItems (d ++ withPos input pos) ++ tail) := by
  intro fuel
  induction fuel with
  | zero => intro stack input pos evs E d tail h; simp [parseLoop] at h
  | succ fuel ih =>
    intro stack input pos evs E d tail h
    cases stack with
    | nil =>
      cases input with
      | nil =>
        simp only [parseLoop] at h
        cases h
        exact ⟨[], by simp, by simp [withPos, buildFr]⟩
      | cons a rest => simp [parseLoop] at h
    | cons s stack =>
      cases s with
      | term t =>
        cases input with
        | nil => simp [parseLoop] at h
        | cons a rest =>
          simp only [parseLoop] at h
          split at h
          · rename_i hta
            subst hta
            obtain ⟨E', hE, hb⟩ := ih stack rest (pos + 1) (Event.tok t pos :: evs) E (d ++ [(t, pos)]) tail h
            refine ⟨Event.tok t pos :: E', by simp [hE], ?_⟩
            have hf : fillFr (Event.tok t pos) (doneItems d ++ (Item.hole (Sym.term t) :: (stack.map Item.hole ++ tail)))
                = some (.ok (doneItems d ++ (Item.done t pos :: (stack.map Item.hole ++ tail)))) := by
              rw [fillFr_doneItems]; simp [fillFr]
            simp only [List.map_cons, List.cons_append, buildFr, hf]
            have e1 : (doneItems d ++ Item.done t pos :: (stack.map Item.hole ++ tail) : List (Item T N))
                = doneItems (d ++ [(t, pos)]) ++ (stack.map Item.hole ++ tail) := by
              simp [doneItems]
            rw [e1, hb]
            simp [withPos, List.append_assoc]
          · cases h
      | nonterm A =>
        simp only [parseLoop] at h
        split at h
        · cases h
        · rename_i p hp
          obtain ⟨E', hE, hb⟩ := ih (p.body ++ stack) input pos (Event.prod p :: evs) E d tail h
          refine ⟨Event.prod p :: E', by simp [hE], ?_⟩
          have hf : fillFr (Event.prod p) (doneItems d ++ (Item.hole (Sym.nonterm A) :: (stack.map Item.hole ++ tail)))
              = some (.ok (doneItems d ++ (p.body.map Item.hole ++ (stack.map Item.hole ++ tail)))) := by
            rw [fillFr_doneItems]; simp [fillFr]
          simp only [List.map_cons, List.cons_append, buildFr, hf]
          simpa [List.map_append, List.append_assoc] using hb
        · cases h

theorem doneItems_injective {a b : List (T × Nat)} (h : (doneItems a : List (Item T N)) = doneItems b) : a = b := by
  induction a generalizing b with
  | nil => cases b with
    | nil => rfl
    | cons _ _ => simp [doneItems] at h
  | cons x xs ih =>
    cases b with
    | nil => simp [doneItems] at h
    | cons y ys =>
      simp only [doneItems, List.map_cons, List.cons.injEq, Item.done.injEq] at h
      have : x = y := Prod.ext h.1.1 h.1.2
      rw [this, ih (by simpa [doneItems] using h.2)]

mutual
/-- a tree whose frontier has no incomplete node lists exactly its completed leaves -/
theorem frontier_of_done : ∀ (t : Tree T N) (d : List (T × Nat)), fr t = doneItems d →
    t.frontier = d.map (fun x => (x.1, some x.2))
  | .leaf t (some k), d, h => by
    have : d = [(t, k)] := doneItems_injective (N := N) (by simpa [fr, doneItems] using h.symm)
    subst this
    simp [Tree.frontier]
  | .leaf t none, d, h => by
    cases d with
    | nil => simp [fr, doneItems] at h
    | cons _ _ => simp [fr, doneItems] at h
  | .node A none kids, d, h => by
    cases d with
    | nil => simp [fr, doneItems] at h
    | cons _ _ => simp [fr, doneItems] at h
  | .node A (some p) kids, d, h => by
    simp only [fr] at h
    simpa [Tree.frontier] using frontierKids_of_done kids d h
theorem frontierKids_of_done : ∀ (ks : List (Tree T N)) (d : List (T × Nat)), frKids ks = doneItems d →
    frontierKids ks = d.map (fun x => (x.1, some x.2))
  | [], d, h => by
    cases d with
    | nil => rfl
    | cons _ _ => simp [frKids, doneItems] at h
  | k :: ks, d, h => by
    simp only [frKids] at h
    obtain ⟨d₁, d₂, hd, h1, h2⟩ := List.map_eq_append_iff.1 h.symm
    have e1 := frontier_of_done k d₁ (by simpa [doneItems] using h1.symm)
    have e2 := frontierKids_of_done ks d₂ (by simpa [doneItems] using h2.symm)
    simp [frontierKids, e1, e2, hd]
end

theorem withPos_fst (w : List T) (k : Nat) : (withPos w k).map (·.1) = w := by
  induction w generalizing k with
  | nil => rfl
  | cons t ts ih => simp [withPos, ih]

/-- the tree `ParseAndBuildAST` returns for an accepting run: complete, leaves = the input tokens with
their positions, yield = the input -/
theorem ast_of_parse {M : N → Option T → List (GProd T N)} {fuel : Nat} {S : N} {w : List T}
    {E : List (Event T N)} (h : parseLoop M fuel [Sym.nonterm S] w 0 [] = .ok (.accept E)) :
    ∃ t, buildAST E (Tree.node S none []) = .ok t ∧
      t.frontier = (withPos w 0).map (fun x => (x.1, some x.2)) ∧ t.yield = w := by
  obtain ⟨E', hE, hb⟩ := buildFr_of_parse fuel [Sym.nonterm S] w 0 [] E [] [] h
  have hE' : E' = E := by simpa using hE.symm
  subst hE'
  have hfr := buildAST_fr E' (Tree.node S none [] : Tree T N)
  have hroot : fr (Tree.node S none [] : Tree T N) = [Item.hole (Sym.nonterm S)] := by simp [fr]
  rw [hroot] at hfr
  have hb' : buildFr E' [Item.hole (Sym.nonterm S)] = .ok (doneItems (withPos w 0)) := by
    simpa [doneItems] using hb
  rw [hb'] at hfr
  cases ht : buildAST E' (Tree.node S none []) with
  | ok t =>
    rw [ht] at hfr
    simp [Outcome.map] at hfr
    have hf := frontier_of_done t _ hfr
    refine ⟨t, rfl, hf, ?_⟩
    have hw := withPos_fst w 0
    simp only [Tree.yield, hf, List.map_map]
    exact hw
  | panic => rw [ht] at hfr; simp [Outcome.map] at hfr
  | diverge => rw [ht] at hfr; simp [Outcome.map] at hfr

end AlgoVerif.C10
